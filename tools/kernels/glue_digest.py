"""glue specs (tools/ktx_glue_digest.py): the legacy `Digest` objects and the remaining hash contexts
     src/digest.rs            provided methods of `trait Digest`
     src/sha1.rs, src/sha2.rs, src/sha3.rs, src/ripemd160.rs     the 16 wrappers `{ ctx, computed }`
     src/blake2b.rs, src/blake2s.rs                              legacy Blake2b / Blake2s (Digest + Mac)
     src/hashing/sha1.rs, src/hashing/ripemd160.rs               contexts, length encoding
     src/hashing/sha2/mod.rs                                     `digest!` contexts above Engine256 / Engine512
     src/hashing/mod.rs                                          one-shot functions
   -> lean/CxVerif/Extracted/GlueDigest.lean; tie theorems: lean/CxVerif/Props/C09/GlueTieDigest.lean"""
import ktx_glue_digest as D
from ktx_glue_digest import DMod, Fn, Ext, Rec, StructSpec, Ty, TNat, TU8, TBool, TBytes, TWord, TWords, TExt, scope_re

TRANSLATE = D.translate

KERNELS = []

# ===================================================================================================== hashing modules
# (only what the legacy wrappers need of them here: the associated consts `OUTPUT_BITS` / `BLOCK_BYTES`; the functions of
#  src/hashing/sha1.rs, ripemd160.rs, sha2/mod.rs are registered further down)

HSHA3 = DMod(name="hashing_sha3", file="src/hashing/sha3.rs", macros=["sha3_impl"])
HKECCAK = DMod(name="hashing_keccak", file="src/hashing/keccak.rs", macros=["keccak_impl"], mods={"sha3": HSHA3})

# ===================================================================================================== src/digest.rs

DIGEST = DMod(
    name="digest", file="src/digest.rs", prefix="Digest.",
    generic=("Self", "δ", "D", "Impl.Digest.DigestModel δ"),
    # the required methods of the trait, through the dictionary `D : DigestModel δ` (Impl/Digest.lean): `result` takes the
    # LENGTH of the output slice and returns its new contents
    ext_methods={
        ("Self", "input"): Ext("{D}.input {self} {0}", args=["val"], mut_self=True, fails="option"),
        ("Self", "result"): Ext("{D}.result {self} {0.len}", args=["out"], mut_self=True, fails="option"),
        ("Self", "output_bits"): Ext("{D}.output_bits {self}", ret=TNat("usize")),
    },
    # `unsafe { String::from_utf8_unchecked(v) }`: a `String` is its UTF-8 bytes
    ext_fns={"String::from_utf8_unchecked": Ext("{0}", args=["val"], ret=TBytes(None))},
)
TRAIT = scope_re("pub trait Digest")
KERNELS += [
    Fn(DIGEST, "output_bytes", TRAIT, doc="`Digest::output_bytes` (provided method)"),
    Fn(DIGEST, "input_str", TRAIT, doc="`Digest::input_str` (provided method; `&str` = its UTF-8 bytes)"),
    Fn(DIGEST, "result_str", TRAIT, doc="`Digest::result_str` (provided method; the `String` = its UTF-8 bytes)"),
]

# ===================================================================================================== the 16 wrappers

I = "Impl."


def ctx_externs(rust_ty, lean_ty, new, update_mut, reset, finalize_reset):
    """the methods a wrapper uses of its `hashing::…::Context` type: the MODEL's functions (Impl/Digest.lean `CtxModel`)"""
    ty = TExt(lean_ty, name=rust_ty)
    return ty, {
        (rust_ty, "update_mut"): Ext(update_mut + " {self} {0}", args=["val"], mut_self=True, fails="option"),
        (rust_ty, "reset"): Ext(reset + " {self}", mut_self=True),
        # `-> [u8; N]`: the model answers a byte string; its length is looked at where the code looks at it
        (rust_ty, "finalize_reset"): Ext(finalize_reset + " {self}", mut_self=True, ret=TBytes(None), fails="option"),
    }, Ext(new, ret=ty)


def legacy_module(name, file, macros, mods, wrappers):
    """wrappers: [(Name, alias, hashing algorithm type, context type, (lean ctx type, new, update_mut, reset, finalize_reset))]"""
    types, ext_methods, ext_fns, structs = {}, {}, {}, {}
    for (nm, alias, alg, ctx, lean) in wrappers:
        rust_ty = f"{alias}::{ctx}"
        ty, ms, new = ctx_externs(rust_ty, *lean)
        types[rust_ty] = ty
        ext_methods.update(ms)
        ext_fns[f"{alias}::{alg}::new"] = new          # `pub fn new() -> $context { $context::new() }` of the hashing module
        ext_fns[f"{alias}::{ctx}::new"] = new
        structs[nm] = StructSpec(f"Impl.Digest.Legacy {lean[0]}")
    mod = DMod(name=name, file=file, macros=macros, mods=mods, types=types, ext_methods=ext_methods, ext_fns=ext_fns,
               structs=structs, prefix="Legacy.")
    ks = []
    for (nm, alias, alg, ctx, lean) in wrappers:
        inh, dig = scope_re(f"impl {nm}"), scope_re(f"impl Digest for {nm}")
        ks.append(Fn(mod, nm, kind="check_struct", name=f"{nm}.struct_ok", glue=[("ctx", lean[0]), ("computed", "Bool")]))
        ks.append(Fn(mod, "new", inh, owner=nm, name=f"{nm}.new_src", doc=f"`{nm}::new`"))
        for f in ("reset", "input", "result", "output_bits", "block_size"):
            ks.append(Fn(mod, f, dig, owner=nm, name=f"{nm}.{f}_src", doc=f"`impl Digest for {nm}`: `{f}`"))
    return mod, ks


def sha2c(w, alg):
    p = f"Impl.Sha2.Ctx{w}"
    return (p, f"{p}.new Impl.Sha2.{alg}", f"{p}.update_mut", f"{p}.reset Impl.Sha2.{alg}", f"{p}.finalize_reset Impl.Sha2.{alg}")


def sha3c(dl, ds):
    p = "Impl.Sha3.Context"
    return (p, f"{p}.new", f"{p}.update_mut {dl}", f"{p}.reset", f"{p}.finalize_reset {dl} {ds}")


def plainc(m):
    p = f"Impl.{m}.Context"
    return (p, f"{p}.new", f"{p}.update_mut", f"{p}.reset", f"{p}.finalize_reset")


# ===================================================================================================== src/hashing/{sha1,ripemd160}.rs

def FIXEDBUF(n):
    return TExt("Impl.FixedBuffer", name="FixedBuffer", N=n)


# `cryptoutil::FixedBuffer<N>`: the MODEL's functions (Impl/FixedBuffer.lean; tied by tools/ktx_glue.py, Props/C01/GlueTieMd.lean).
# The `FnMut(&[u8])` argument is the pair (function on the captured state, the captured state).
FB_METHODS = {
    ("FixedBuffer", "input"): Ext("Impl.FixedBuffer.input {self.N} {self} {0} {1} {1.st}", args=["val", "closure"], mut_self=True, fails="option"),
    ("FixedBuffer", "standard_padding"): Ext("Impl.FixedBuffer.standard_padding {self.N} {self} {0} {1} {1.st}", args=["val", "closure"], mut_self=True, fails="option"),
    ("FixedBuffer", "full_buffer"): Ext("Impl.FixedBuffer.full_buffer {self.N} {self}", mut_self=True, ret=lambda want, rty: TBytes(rty.N), fails="option"),
    ("FixedBuffer", "reset"): Ext("Impl.FixedBuffer.reset {self}", mut_self=True),
}
FB_NEW = Ext("Impl.FixedBuffer.new {want.N}", ret=lambda want, rty: want)
FB_PLACE = {("FixedBuffer", "next"): "Impl.FixedBuffer.next_write {self} {I} {v}"}

SHA1_HASH = Ty("rec", "Spec.Sha1.Hash", fields=["a", "b", "c", "d", "e"], elem=TWord(32))
HSHA1 = DMod(
    name="hashing_sha1", file="src/hashing/sha1.rs", prefix="HSha1.",
    words={"u32": 32, "u64": 64},
    recs={("u32", 5): Rec("Spec.Sha1.Hash", ["a", "b", "c", "d", "e"])},
    structs={"Context": StructSpec("Impl.Sha1.Context")},
    types={"FixedBuffer": FIXEDBUF},
    consts={"H": ("Impl.Sha1.H", SHA1_HASH)},      # the initial state: re-extracted table (Extracted/Sha1Ripemd.lean)
    ext_fns={
        "FixedBuffer::new": FB_NEW,
        # the compression core on sixteen words: tied by Props/C01/KernelTieSha1.lean
        "digest_block_u32": Ext("Impl.Sha1.digest_block_u32 {0} {1}", args=["out", "val"], fails="option", argty={1: TWords(32, 16)}),
        # cryptoutil.rs (tied by Props/C01/GlueTieMd.lean): `assert!(dst.len() * 4 == input.len())`, big-endian words
        "read_u32v_be": Ext("Impl.read_u32v_be {0.len} {1}", args=["out", "val"], fails="option"),
        "write_u32_be": Ext("", args=["set", "val"], writes={0: "u32be {1}"}, arg_len={0: 4}),
    },
    ext_methods=dict(FB_METHODS), place_methods=FB_PLACE,
)
CTX = scope_re("impl Context")
KERNELS += [
    Fn(HSHA1, "Context", kind="check_struct", name="Context.struct_ok",
       glue=[("h", "Spec.Sha1.Hash"), ("processed_bytes", "UInt64"), ("buffer", "Impl.FixedBuffer")]),
    Fn(HSHA1, "digest_block", doc="`digest_block`: the length assertion, the big-endian word load, the core"),
    Fn(HSHA1, "digest_blocks", doc="`digest_blocks`: one `digest_block` per 64-byte chunk"),
    Fn(HSHA1, "mk_result", doc="`mk_result`: padding, the 64-bit big-endian BIT length, last block, the five output words"),
    Fn(HSHA1, "new", CTX, owner="Context", name="Context.new_src", doc="`Context::new`"),
    Fn(HSHA1, "update_mut", CTX, owner="Context", name="Context.update_mut_src", doc="`Context::update_mut`"),
    Fn(HSHA1, "update", CTX, owner="Context", name="Context.update_src", doc="`Context::update`"),
    Fn(HSHA1, "reset", CTX, owner="Context", name="Context.reset_src", doc="`Context::reset`"),
    Fn(HSHA1, "finalize", CTX, owner="Context", name="Context.finalize_src", doc="`Context::finalize`"),
    Fn(HSHA1, "finalize_reset", CTX, owner="Context", name="Context.finalize_reset_src", doc="`Context::finalize_reset`"),
    Fn(HSHA1, "new", scope_re("impl Sha1"), owner="Sha1", name="Sha1.new_src", doc="`Sha1::new`"),
]

RMD_HASH = Ty("rec", "Spec.Ripemd160.Hash", fields=["a", "b", "c", "d", "e"], elem=TWord(32))
HRIPEMD = DMod(
    name="hashing_ripemd160", file="src/hashing/ripemd160.rs", prefix="HRipemd160.",
    words={"u32": 32, "u64": 64},
    recs={("u32", 5): Rec("Spec.Ripemd160.Hash", ["a", "b", "c", "d", "e"])},
    structs={"Context": StructSpec("Impl.Ripemd160.Context")},
    types={"FixedBuffer": FIXEDBUF},
    consts={"H": ("Impl.Ripemd160.H", RMD_HASH)},
    ext_fns={
        "FixedBuffer::new": FB_NEW,
        # the whole block function (word load + `process_block!`): tied by Props/C01/KernelTieRipemd160.lean
        "process_msg_block": Ext("Impl.Ripemd160.process_msg_block {0} {1}", args=["val", "out"], fails="option"),
        "write_u32_le": Ext("", args=["set", "val"], writes={0: "u32le {1}"}, arg_len={0: 4}),
    },
    ext_methods=dict(FB_METHODS), place_methods=FB_PLACE,
)
KERNELS += [
    Fn(HRIPEMD, "Context", kind="check_struct", name="Context.struct_ok",
       glue=[("h", "Spec.Ripemd160.Hash"), ("processed_bytes", "UInt64"), ("buffer", "Impl.FixedBuffer")]),
    Fn(HRIPEMD, "process_msg_blocks", doc="`process_msg_blocks`: one `process_msg_block` per 64-byte chunk"),
    Fn(HRIPEMD, "new", CTX, owner="Context", name="Context.new_src", doc="`Context::new`"),
    Fn(HRIPEMD, "update_mut", CTX, owner="Context", name="Context.update_mut_src", doc="`Context::update_mut`"),
    Fn(HRIPEMD, "update", CTX, owner="Context", name="Context.update_src", doc="`Context::update`"),
    Fn(HRIPEMD, "reset", CTX, owner="Context", name="Context.reset_src", doc="`Context::reset`"),
    Fn(HRIPEMD, "finalize_reset", CTX, owner="Context", name="Context.finalize_reset_src",
       doc="`Context::finalize_reset`: padding, the bit length as two little-endian u32 (`<< 3`, `>> 29`), last block, output, reset"),
    Fn(HRIPEMD, "finalize", CTX, owner="Context", name="Context.finalize_src", doc="`Context::finalize`"),
    Fn(HRIPEMD, "new", scope_re("impl Ripemd160"), owner="Ripemd160", name="Ripemd160.new_src", doc="`Ripemd160::new`"),
]

# ===================================================================================================== src/hashing/sha2/mod.rs

S2 = "Impl.Sha2."
W8_32 = TExt("Spec.Sha2.W8 UInt32", name="W8<u32>")
W8_64 = TExt("Spec.Sha2.W8 UInt64", name="W8<u64>")
SHA2_INV = [  # the six `digest!` invocations: (algorithm, context, engine width, output fn, model descriptor)
    ("Sha512", "Context512", 512), ("Sha384", "Context384", 512), ("Sha512Trunc256", "Context512_256", 512),
    ("Sha512Trunc224", "Context512_224", 512), ("Sha256", "Context256", 256), ("Sha224", "Context224", 256)]
HSHA2 = DMod(
    name="hashing_sha2", file="src/hashing/sha2/mod.rs", macros=["digest"], prefix="HSha2.",
    # `Engine256` / `Engine512` (buffering, padding, length field) and `eng256::Engine` / `eng512::Engine` (state words, output):
    # the MODEL's types and functions (Impl/Sha2.lean), tied by tools/ktx_glue.py (Props/C01/GlueTieMd.lean)
    structs=dict([("Engine256", StructSpec(S2 + "Engine256")), ("Engine512", StructSpec(S2 + "Engine512"))]
                 + [(c, StructSpec(S2 + f"Ctx{w}")) for _, c, w in SHA2_INV]),
    types={"FixedBuffer": FIXEDBUF, "eng256::Engine": TExt(S2 + "Eng256.Engine", name="eng256::Engine"),
           "eng512::Engine": TExt(S2 + "Eng512.Engine", name="eng512::Engine")},
    # initial hash values (`use initials::*`): re-extracted tables (Extracted/Sha2.lean)
    consts=dict([(h, (S2 + h, W8_32)) for h in ("H256", "H224")]
                + [(h, (S2 + h, W8_64)) for h in ("H512", "H384", "H512_TRUNC_256", "H512_TRUNC_224")]),
    ext_fns={"Engine256::new": Ext(S2 + "Engine256.new {0}", args=["val"], ret=lambda want, rty: want, argty={0: W8_32}),
             "Engine512::new": Ext(S2 + "Engine512.new {0}", args=["val"], ret=lambda want, rty: want, argty={0: W8_64})},
    ext_methods=dict(
        [((f"Engine{w}", "input"), Ext(S2 + f"Engine{w}.input {{self}} {{0}}", args=["val"], mut_self=True, fails="option")) for w in (256, 512)]
        + [((f"Engine{w}", "finish"), Ext(S2 + f"Engine{w}.finish {{self}}", mut_self=True, fails="option")) for w in (256, 512)]
        + [((f"Engine{w}", "reset"), Ext(S2 + f"Engine{w}.reset {{self}} {{0}}", args=["val"], mut_self=True,
                                          argty={0: W8_32 if w == 256 else W8_64})) for w in (256, 512)]
        + [((f"eng{w}::Engine", f"output_{b}bits_at"), Ext(S2 + f"Eng{w}.Engine.output_{b}bits_at {{self}} {{0}}", args=["out"], fails="option"))
           for w, b in ((256, 224), (256, 256), (512, 224), (512, 256), (512, 384), (512, 512))]),
)
KERNELS += [
    Fn(HSHA2, "Engine256", kind="check_struct", name="Engine256.struct_ok",
       glue=[("processed_bytes", "Nat"), ("buffer", "Impl.FixedBuffer"), ("state", S2 + "Eng256.Engine"), ("finished", "Bool")]),
    Fn(HSHA2, "Engine512", kind="check_struct", name="Engine512.struct_ok",
       glue=[("processed_bytes", "Nat"), ("buffer", "Impl.FixedBuffer"), ("state", S2 + "Eng512.Engine")]),
]
for alg, ctxn, w in SHA2_INV:
    sc = scope_re(f"impl {ctxn}")
    KERNELS.append(Fn(HSHA2, ctxn, kind="check_struct", name=f"{ctxn}.struct_ok", glue=[("engine", S2 + f"Engine{w}")]))
    for f in ("new", "update_mut", "update", "reset", "finalize", "finalize_reset"):
        KERNELS.append(Fn(HSHA2, f, sc, owner=ctxn, name=f"{ctxn}.{f}_src", doc=f"`{ctxn}::{f}` (`digest!({w} {alg}, {ctxn}, …)`)"))
    KERNELS.append(Fn(HSHA2, "new", scope_re(f"impl {alg}"), owner=alg, name=f"{alg}.new_src", doc=f"`{alg}::new`"))

# ===================================================================================================== src/hashing/mod.rs


def sponge_ext(alias, alg, dl, ds):
    ty = TExt("Impl.Sha3.Context", name=f"{alias}::{alg}::Context")
    return ({f"{alias}::{alg}::new": Ext("Impl.Sha3.Context.new", ret=ty)},
            {(ty.name, "update"): Ext(f"Impl.Sha3.Context.update {dl} {{self}} {{0}}", args=["val"], ret=ty, fails="option"),
             (ty.name, "finalize"): Ext(f"Impl.Sha3.Context.finalize {dl} {ds} {{self}}", ret=TBytes(dl), fails="option")})


def blake2_ext(x, W, bits):
    ty = TExt(f"Impl.Blake2.Context {W}", name=f"blake2{x}::Context<{bits}>")
    P = f"Impl.Blake2.{x}"
    return ({f"blake2{x}::Blake2{x}::<{bits}>::new": Ext(f"Impl.Blake2.Context.new {P} {bits}", ret=ty, fails="option")},
            {(ty.name, "update"): Ext(f"Impl.Blake2.Context.update {P} Impl.Digest.blakeProfile {{self}} {{0}}", args=["val"], ret=ty, fails="option"),
             (ty.name, "finalize"): Ext(f"Impl.Blake2.Context.finalize {P} Impl.Digest.blakeProfile {bits} {{self}}", ret=TBytes(bits // 8), fails="option")})


_ef, _em = {}, {}
ONESHOT_EXT = ([("sha3", f"Sha3_{b}", b // 8, 2, f"sha3_{b}") for b in (224, 256, 384, 512)]
               + [("keccak", f"Keccak{b}", b // 8, 0, f"keccak{b}") for b in (224, 256, 384, 512)])
for alias, alg, dl, ds, fn in ONESHOT_EXT:
    a, b = sponge_ext(alias, alg, dl, ds)
    _ef.update(a); _em.update(b)
for x, W, bits in (("b", "UInt64", 224), ("b", "UInt64", 256), ("b", "UInt64", 384), ("b", "UInt64", 512), ("s", "UInt32", 224), ("s", "UInt32", 256)):
    a, b = blake2_ext(x, W, bits)
    _ef.update(a); _em.update(b)
# the sponge and BLAKE2 contexts are the MODEL's (Impl/Sha3.lean, Impl/Blake2.lean; tied by tools/ktx_glue_sponge.py and the blake2
# glue tie); the SHA-1 / SHA-2 / RIPEMD-160 contexts are the functions translated above
HMOD = DMod(name="hashing_mod", file="src/hashing/mod.rs", prefix="Hashing.",
            mods={"sha1": HSHA1, "sha2": HSHA2, "ripemd160": HRIPEMD}, ext_fns=_ef, ext_methods=_em)
for f in (["blake2b_224", "blake2b_256", "blake2b_384", "blake2b_512", "blake2s_224", "blake2s_256", "sha1", "sha224", "sha256", "sha384", "sha512"]
          + [x[4] for x in ONESHOT_EXT] + ["ripemd160"]):
    KERNELS.append(Fn(HMOD, f, doc=f"`hashing::{f}` (one-shot)"))

LSHA1, K = legacy_module("legacy_sha1", "src/sha1.rs", [], {"sha1": HSHA1},
                         [("Sha1", "sha1", "Sha1", "Context", plainc("Sha1"))])
KERNELS += K
LSHA2, K = legacy_module("legacy_sha2", "src/sha2.rs", ["digest"], {"sha2": HSHA2}, [
    ("Sha512", "sha2", "Sha512", "Context512", sha2c(512, "Sha512")),
    ("Sha384", "sha2", "Sha384", "Context384", sha2c(512, "Sha384")),
    ("Sha512Trunc256", "sha2", "Sha512Trunc256", "Context512_256", sha2c(512, "Sha512Trunc256")),
    ("Sha512Trunc224", "sha2", "Sha512Trunc224", "Context512_224", sha2c(512, "Sha512Trunc224")),
    ("Sha256", "sha2", "Sha256", "Context256", sha2c(256, "Sha256")),
    ("Sha224", "sha2", "Sha224", "Context224", sha2c(256, "Sha224")),
])
KERNELS += K
LSHA3, K = legacy_module("legacy_sha3", "src/sha3.rs", ["digest"], {"sha3": HSHA3, "keccak": HKECCAK},
                         [(f"Sha3_{b}", "sha3", f"Sha3_{b}", f"Context{b}", sha3c(b // 8, 2)) for b in (512, 384, 256, 224)]
                         + [(f"Keccak{b}", "keccak", f"Keccak{b}", f"Context{b}", sha3c(b // 8, 0)) for b in (512, 384, 256, 224)])
KERNELS += K
LRIPEMD, K = legacy_module("legacy_ripemd160", "src/ripemd160.rs", [], {"ripemd160": HRIPEMD},
                           [("Ripemd160", "ripemd160", "Ripemd160", "Context", plainc("Ripemd160"))])
KERNELS += K

# ===================================================================================================== src/blake2b.rs, src/blake2s.rs

MACRES = TExt("Cx.Extracted.GlueMac.MacResult", name="MacResult")


def blake2_module(x, X, W, keylen):
    """x = "b" | "s"; X = "B" | "S"; W = the word type of the model; keylen = the N of `key: [u8; N]` (checked against the source)"""
    alias, obj = f"blake2{x}", f"Blake2{x}"
    P = f"Impl.Blake2.{x}"
    C = "Impl.Blake2.ContextDyn"
    ctx = TExt(f"{C} {W}", name=f"{alias}::ContextDyn")
    key = f"{alias}::ContextDyn"
    mod = DMod(
        name=f"legacy_{alias}", file=f"src/{alias}.rs", prefix=f"{obj}.",
        structs={obj: StructSpec(f"{obj}.Obj", generate=True)},
        types={key: ctx, "MacResult": MACRES},
        # `hashing::blake2{b,s}::ContextDyn`: the MODEL's functions (Impl/Blake2.lean; tied by Props/C01/KernelTieBlake2.lean and the
        # blake2 glue tie); the byte-counter profile is the one Impl/Digest.lean fixes (`blakeProfile`)
        ext_fns={
            f"{key}::new": Ext(f"{C}.new {P} {{0}}", args=["val"], ret=ctx, fails="option"),
            f"{key}::new_keyed": Ext(f"{C}.new_keyed {P} {{0}} {{1}}", args=["val", "val"], ret=ctx, fails="option"),
            # src/mac.rs, translated by tools/ktx_glue_mac.py
            "MacResult::new_from_owned": Ext("Cx.Extracted.GlueMac.MacResult.new_from_owned_src {0}", args=["val"], ret=MACRES),
        },
        ext_methods={
            (key, "update_mut"): Ext(f"{C}.update_mut {P} Impl.Digest.blakeProfile {{self}} {{0}}", args=["val"], mut_self=True, fails="option"),
            (key, "finalize_reset_at"): Ext(f"{C}.finalize_reset_at {P} Impl.Digest.blakeProfile {{self}} {{0.len}}", args=["out"], mut_self=True, fails="option"),
            (key, "reset_with_key"): Ext(f"{C}.reset_with_key {P} {{self}} {{0}}", args=["val"], mut_self=True, fails="option"),
            (key, "reset"): Ext(f"{C}.reset {P} {{self}}", mut_self=True),
            (key, "output_bits"): Ext(f"{C}.output_bits {{self}}", ret=TNat("usize")),
        },
        # `blake2b::Blake2b::<0>::BLOCK_BYTES` = `Engine::BLOCK_BYTES`: re-extracted table (tools/extractors, Extracted/Blake2.lean)
        consts={f"{alias}::{obj}::BLOCK_BYTES": (f"Extracted.Blake2.{X}_BLOCK_BYTES", TNat("usize"))},
    )
    inh, dig, mac = scope_re(f"impl {obj}"), scope_re(f"impl Digest for {obj}"), scope_re(f"impl Mac for {obj}")
    ks = [Fn(mod, obj, kind="struct", name="Obj")]
    for f in ("new", "new_keyed", "update", "finalize", "reset", "reset_with_key", alias):
        ks.append(Fn(mod, f, inh, owner=obj, doc=f"`{obj}::{f}`"))
    for f in ("input", "reset", "result", "output_bits", "block_size"):
        ks.append(Fn(mod, f, dig, owner=obj, trait="Digest", name=f"Digest.{f}_src", doc=f"`impl Digest for {obj}`: `{f}`"))
    for f in ("input", "reset", "raw_result", "result", "output_bytes"):
        ks.append(Fn(mod, f, mac, owner=obj, trait="Mac", name=f"Mac.{f}_src", doc=f"`impl Mac for {obj}`: `{f}`"))
    return mod, ks


LB2B, K = blake2_module("b", "B", "UInt64", 64)
KERNELS += K
LB2S, K = blake2_module("s", "S", "UInt32", 32)
KERNELS += K

HEADER = """import CxVerif.Impl.Digest
import CxVerif.Extracted.GlueMac
/-!
  Extracted.GlueDigest — the stateful glue of the legacy `Digest` objects and of the hash contexts as the source says it
  NOW (tools/ktx_glue_digest.py; specs: tools/kernels/glue_digest.py).  `&mut` parameters are returned; `none` exactly where
  Rust panics.  Tie theorems: Props/C09/GlueTieDigest.lean.
-/
set_option linter.unusedVariables false
namespace Cx.Extracted.GlueDigest
open Cx
"""
FOOTER = "end Cx.Extracted.GlueDigest\n"
LEAN_FILE = "GlueDigest"
