"""glue specs (tools/ktx_glue_digest.py): the legacy `Digest` objects and the remaining hash contexts
     src/digest.rs            provided methods of `trait Digest`
     src/sha1.rs, src/sha2.rs, src/sha3.rs, src/ripemd160.rs     the 16 wrappers `{ ctx, computed }`
     src/blake2b.rs, src/blake2s.rs                              legacy Blake2b / Blake2s (Digest + Mac)
     src/hashing/sha1.rs, src/hashing/ripemd160.rs               contexts, length encoding
     src/hashing/sha2/mod.rs                                     `digest!` contexts above Engine256 / Engine512
     src/hashing/mod.rs                                          one-shot functions
   -> lean/CxVerif/Extracted/GlueDigest.lean; tie theorems: lean/CxVerif/Props/C09/GlueTieDigest.lean"""
import ktx_glue_digest as D
from ktx_glue_digest import DMod, Fn, Ext, Rec, StructSpec, Ty, TNat, TU8, TBool, TBytes, TWord, TWords, TExt, scope_re

TRANSLATE = D.translate

KERNELS = []

# ===================================================================================================== hashing modules
# (only what the legacy wrappers need of them here: the associated consts `OUTPUT_BITS` / `BLOCK_BYTES`; the functions of
#  src/hashing/sha1.rs, ripemd160.rs, sha2/mod.rs are registered further down)

HSHA3 = DMod(name="hashing_sha3", file="src/hashing/sha3.rs", macros=["sha3_impl"])
HKECCAK = DMod(name="hashing_keccak", file="src/hashing/keccak.rs", macros=["keccak_impl"], mods={"sha3": HSHA3})

# ===================================================================================================== src/digest.rs

DIGEST = DMod(
    name="digest", file="src/digest.rs", prefix="Digest.",
    generic=("Self", "δ", "D", "Impl.Digest.DigestModel δ"),
    # the required methods of the trait, through the dictionary `D : DigestModel δ` (Impl/Digest.lean): `result` takes the
    # LENGTH of the output slice and returns its new contents
    ext_methods={
        ("Self", "input"): Ext("{D}.input {self} {0}", args=["val"], mut_self=True, fails="option"),
        ("Self", "result"): Ext("{D}.result {self} {0.len}", args=["out"], mut_self=True, fails="option"),
        ("Self", "output_bits"): Ext("{D}.output_bits {self}", ret=TNat("usize")),
    },
    # `unsafe { String::from_utf8_unchecked(v) }`: a `String` is its UTF-8 bytes
    ext_fns={"String::from_utf8_unchecked": Ext("{0}", args=["val"], ret=TBytes(None))},
)
TRAIT = scope_re("pub trait Digest")
KERNELS += [
    Fn(DIGEST, "output_bytes", TRAIT, doc="`Digest::output_bytes` (provided method)"),
    Fn(DIGEST, "input_str", TRAIT, doc="`Digest::input_str` (provided method; `&str` = its UTF-8 bytes)"),
    Fn(DIGEST, "result_str", TRAIT, doc="`Digest::result_str` (provided method; the `String` = its UTF-8 bytes)"),
]

# ===================================================================================================== the 16 wrappers

I = "Impl."


def ctx_externs(rust_ty, lean_ty, new, update_mut, reset, finalize_reset):
    """the methods a wrapper uses of its `hashing::…::Context` type: the MODEL's functions (Impl/Digest.lean `CtxModel`)"""
    ty = TExt(lean_ty, name=rust_ty)
    return ty, {
        (rust_ty, "update_mut"): Ext(update_mut + " {self} {0}", args=["val"], mut_self=True, fails="option"),
        (rust_ty, "reset"): Ext(reset + " {self}", mut_self=True),
        # `-> [u8; N]`: the model answers a byte string; its length is looked at where the code looks at it
        (rust_ty, "finalize_reset"): Ext(finalize_reset + " {self}", mut_self=True, ret=TBytes(None), fails="option"),
    }, Ext(new, ret=ty)


def legacy_module(name, file, macros, mods, wrappers):
    """wrappers: [(Name, alias, hashing algorithm type, context type, (lean ctx type, new, update_mut, reset, finalize_reset))]"""
    types, ext_methods, ext_fns, structs = {}, {}, {}, {}
    for (nm, alias, alg, ctx, lean) in wrappers:
        rust_ty = f"{alias}::{ctx}"
        ty, ms, new = ctx_externs(rust_ty, *lean)
        types[rust_ty] = ty
        ext_methods.update(ms)
        ext_fns[f"{alias}::{alg}::new"] = new          # `pub fn new() -> $context { $context::new() }` of the hashing module
        ext_fns[f"{alias}::{ctx}::new"] = new
        structs[nm] = StructSpec(f"Impl.Digest.Legacy {lean[0]}")
    mod = DMod(name=name, file=file, macros=macros, mods=mods, types=types, ext_methods=ext_methods, ext_fns=ext_fns,
               structs=structs, prefix="Legacy.")
    ks = []
    for (nm, alias, alg, ctx, lean) in wrappers:
        inh, dig = scope_re(f"impl {nm}"), scope_re(f"impl Digest for {nm}")
        ks.append(Fn(mod, nm, kind="check_struct", name=f"{nm}.struct_ok", glue=[("ctx", lean[0]), ("computed", "Bool")]))
        ks.append(Fn(mod, "new", inh, owner=nm, name=f"{nm}.new_src", doc=f"`{nm}::new`"))
        for f in ("reset", "input", "result", "output_bits", "block_size"):
            ks.append(Fn(mod, f, dig, owner=nm, name=f"{nm}.{f}_src", doc=f"`impl Digest for {nm}`: `{f}`"))
    return mod, ks


def sha2c(w, alg):
    p = f"Impl.Sha2.Ctx{w}"
    return (p, f"{p}.new Impl.Sha2.{alg}", f"{p}.update_mut", f"{p}.reset Impl.Sha2.{alg}", f"{p}.finalize_reset Impl.Sha2.{alg}")


def sha3c(dl, ds):
    p = "Impl.Sha3.Context"
    return (p, f"{p}.new", f"{p}.update_mut {dl}", f"{p}.reset", f"{p}.finalize_reset {dl} {ds}")


def plainc(m):
    p = f"Impl.{m}.Context"
    return (p, f"{p}.new", f"{p}.update_mut", f"{p}.reset", f"{p}.finalize_reset")


# forward declarations of the hashing modules whose functions are translated below (the wrappers need their consts)
HSHA1 = DMod(name="hashing_sha1", file="src/hashing/sha1.rs", prefix="HSha1.")
HRIPEMD = DMod(name="hashing_ripemd160", file="src/hashing/ripemd160.rs", prefix="HRipemd160.")
HSHA2 = DMod(name="hashing_sha2", file="src/hashing/sha2/mod.rs", macros=["digest"], prefix="HSha2.")

LSHA1, K = legacy_module("legacy_sha1", "src/sha1.rs", [], {"sha1": HSHA1},
                         [("Sha1", "sha1", "Sha1", "Context", plainc("Sha1"))])
KERNELS += K
LSHA2, K = legacy_module("legacy_sha2", "src/sha2.rs", ["digest"], {"sha2": HSHA2}, [
    ("Sha512", "sha2", "Sha512", "Context512", sha2c(512, "Sha512")),
    ("Sha384", "sha2", "Sha384", "Context384", sha2c(512, "Sha384")),
    ("Sha512Trunc256", "sha2", "Sha512Trunc256", "Context512_256", sha2c(512, "Sha512Trunc256")),
    ("Sha512Trunc224", "sha2", "Sha512Trunc224", "Context512_224", sha2c(512, "Sha512Trunc224")),
    ("Sha256", "sha2", "Sha256", "Context256", sha2c(256, "Sha256")),
    ("Sha224", "sha2", "Sha224", "Context224", sha2c(256, "Sha224")),
])
KERNELS += K
LSHA3, K = legacy_module("legacy_sha3", "src/sha3.rs", ["digest"], {"sha3": HSHA3, "keccak": HKECCAK},
                         [(f"Sha3_{b}", "sha3", f"Sha3_{b}", f"Context{b}", sha3c(b // 8, 2)) for b in (512, 384, 256, 224)]
                         + [(f"Keccak{b}", "keccak", f"Keccak{b}", f"Context{b}", sha3c(b // 8, 0)) for b in (512, 384, 256, 224)])
KERNELS += K
LRIPEMD, K = legacy_module("legacy_ripemd160", "src/ripemd160.rs", [], {"ripemd160": HRIPEMD},
                           [("Ripemd160", "ripemd160", "Ripemd160", "Context", plainc("Ripemd160"))])
KERNELS += K

HEADER = """import CxVerif.Impl.Digest
/-!
  Extracted.GlueDigest — the stateful glue of the legacy `Digest` objects and of the hash contexts as the source says it
  NOW (tools/ktx_glue_digest.py; specs: tools/kernels/glue_digest.py).  `&mut` parameters are returned; `none` exactly where
  Rust panics.  Tie theorems: Props/C09/GlueTieDigest.lean.
-/
set_option linter.unusedVariables false
namespace Cx.Extracted.GlueDigest
open Cx
"""
FOOTER = "end Cx.Extracted.GlueDigest\n"
LEAN_FILE = "GlueDigest"
