"""kernel specs: src/constant_time.rs  (shape of lean/CxVerif/Impl/ConstantTime.lean: UInt64 formulas, folds, zipWith)"""
import ktx_misc
from ktx_misc import MK

TRANSLATE = ktx_misc.translate
F = "src/constant_time.rs"
CH = "Choice"
CTORS = {"Choice": ("⟨{0}⟩", CH, ["u64"])}
FIELDS = {(CH, "0"): ("{0}.v", "u64")}
# method dispatch (receiver type, name) -> generated definition
METHODS = {
    (CH, "is_true"): ("is_true_src {0}", "bool", []), (CH, "is_false"): ("is_false_src {0}", "bool", []),
    (CH, "negate"): ("negate_src {0}", CH, []),
    ("u64", "ct_zero"): ("u64_ct_zero_src {0}", CH, []), ("u64", "ct_nonzero"): ("u64_ct_nonzero_src {0}", CH, []),
    ("u64", "ct_eq"): ("u64_ct_eq_src {0} {1}", CH, ["u64"]), ("u64", "ct_ne"): ("u64_ct_ne_src {0} {1}", CH, ["u64"]),
    ("u64", "ct_lt"): ("u64_ct_lt_src {0} {1}", CH, ["u64"]), ("u64", "ct_gt"): ("u64_ct_gt_src {0} {1}", CH, ["u64"]),
}


def K(fn, scope, name, params, ret, env, doc, **kw):
    return MK(file=F, fn=fn, scope=scope, lean_name=name, params=params, ret_type=ret, env=env, doc=doc,
              ctors=CTORS, fields=FIELDS, methods={**METHODS, **kw.pop("methods", {})}, **kw)


C = {"self": ("c", CH)}
CB = {"self": ("a", CH), "b": ("b", CH)}
X = {"self": ("x", "u64")}
AB = {"self": ("a", "u64"), "b": ("b", "u64")}
AB2 = {"a": ("a", "u64"), "b": ("b", "u64")}
X8 = {"self": ("x", "u8")}
AB8 = {"self": ("a", "u8"), "b": ("b", "u8")}
L8 = lambda n: ("list", "u8", n)
L64 = lambda n: ("list", "u64", n)
L32 = lambda n: ("list", "u32", n)

KERNELS = [
    K("is_true", r"impl Choice \{", "is_true_src", "(c : Choice)", "Bool", C, "`Choice::is_true`"),
    K("is_false", r"impl Choice \{", "is_false_src", "(c : Choice)", "Bool", C, "`Choice::is_false`"),
    K("negate", r"impl Choice \{", "negate_src", "(c : Choice)", "Choice", C, "`Choice::negate`"),
    K("bitand", r"BitAnd for Choice", "bitand_src", "(a b : Choice)", "Choice", CB, "`impl BitAnd for Choice`"),
    K("bitor", r"BitOr for Choice", "bitor_src", "(a b : Choice)", "Choice", CB, "`impl BitOr for Choice`"),
    K("bitxor", r"BitXor for Choice", "bitxor_src", "(a b : Choice)", "Choice", CB, "`impl BitXor for Choice`"),
    K("ct_zero", r"impl CtZero for u64", "u64_ct_zero_src", "(x : UInt64)", "Choice", X, "`impl CtZero for u64`"),
    K("ct_nonzero", r"impl CtZero for u64", "u64_ct_nonzero_src", "(x : UInt64)", "Choice", X, "`impl CtZero for u64`"),
    K("ct_eq", r"impl CtEqual for u64", "u64_ct_eq_src", "(a b : UInt64)", "Choice", AB, "`impl CtEqual for u64`", self_type="u64"),
    K("ct_ne", r"impl CtEqual for u64", "u64_ct_ne_src", "(a b : UInt64)", "Choice", AB, "`impl CtEqual for u64`", self_type="u64"),
    K("ct_zero", r"impl CtZero for u8", "u8_ct_zero_src", "(x : UInt8)", "Choice", X8, "`impl CtZero for u8`"),
    K("ct_nonzero", r"impl CtZero for u8", "u8_ct_nonzero_src", "(x : UInt8)", "Choice", X8, "`impl CtZero for u8`"),
    K("ct_eq", r"impl CtEqual for u8", "u8_ct_eq_src", "(a b : UInt8)", "Choice", AB8, "`impl CtEqual for u8`"),
    K("ct_ne", r"impl CtEqual for u8", "u8_ct_ne_src", "(a b : UInt8)", "Choice", AB8, "`impl CtEqual for u8`"),
    K("ct_lt", r"impl CtLesser for u64", "u64_ct_lt_src", "(a b : UInt64)", "Choice", AB2, "`impl CtLesser for u64`"),
    K("ct_gt", r"impl CtGreater for u64", "u64_ct_gt_src", "(a b : UInt64)", "Choice", AB2, "`impl CtGreater for u64`", self_type="u64"),
    # trait default methods, instantiated at Self = u64
    K("ct_le", r"pub trait CtGreater", "u64_ct_le_src", "(a b : UInt64)", "Choice", AB2, "trait default `CtGreater::ct_le` at `Self = u64`", self_type="u64"),
    K("ct_ge", r"pub trait CtLesser", "u64_ct_ge_src", "(a b : UInt64)", "Choice", AB2, "trait default `CtLesser::ct_ge` at `Self = u64`", self_type="u64"),
    # OR-accumulation loops
    K("ct_zero", r"CtZero for &\[u8; N\]", "bytes_ct_zero_src", "(l : List UInt8)", "Choice", {"self": ("l", L8("N"))}, "`impl CtZero for &[u8; N]`"),
    K("ct_nonzero", r"CtZero for &\[u8; N\]", "bytes_ct_nonzero_src", "(l : List UInt8)", "Choice", {"self": ("l", L8("N"))}, "`impl CtZero for &[u8; N]`"),
    K("ct_zero", r"CtZero for &\[u64; N\]", "words_ct_zero_src", "(l : List UInt64)", "Choice", {"self": ("l", L64("N"))}, "`impl CtZero for &[u64; N]`"),
    K("ct_nonzero", r"CtZero for &\[u64; N\]", "words_ct_nonzero_src", "(l : List UInt64)", "Choice", {"self": ("l", L64("N"))}, "`impl CtZero for &[u64; N]`"),
    K("ct_zero", r"impl CtZero for &\[u64\]", "slice_words_ct_zero_src", "(l : List UInt64)", "Choice", {"self": ("l", L64("len"))}, "`impl CtZero for &[u64]`"),
    K("ct_nonzero", r"impl CtZero for &\[u64\]", "slice_words_ct_nonzero_src", "(l : List UInt64)", "Choice", {"self": ("l", L64("len"))}, "`impl CtZero for &[u64]`"),
    K("ct_eq", r"CtEqual for &\[u8; N\]", "array_u8_ct_eq_src", "(a b : List UInt8)", "Choice", {"self": ("a", L8("N")), "b": ("b", L8("N"))}, "`impl CtEqual for &[u8; N]`"),
    K("ct_ne", r"CtEqual for &\[u8; N\]", "array_u8_ct_ne_src", "(a b : List UInt8)", "Choice", {"self": ("a", L8("N")), "b": ("b", L8("N"))}, "`impl CtEqual for &[u8; N]`",
      methods={(("list"), "ct_eq"): ("array_u8_ct_eq_src {0} {1}", CH, [None])}),
    K("ct_eq", r"CtEqual for &\[u64; N\]", "array_u64_ct_eq_src", "(a b : List UInt64)", "Choice", {"self": ("a", L64("N")), "b": ("b", L64("N"))}, "`impl CtEqual for &[u64; N]`"),
    K("ct_ne", r"CtEqual for &\[u64; N\]", "array_u64_ct_ne_src", "(a b : List UInt64)", "Choice", {"self": ("a", L64("N")), "b": ("b", L64("N"))}, "`impl CtEqual for &[u64; N]`",
      methods={(("list"), "ct_eq"): ("array_u64_ct_eq_src {0} {1}", CH, [None])}),
    # slices: `assert_eq!(self.len(), b.len())` -> Option; the zip is then over equal lengths (symbol "len" after the assert)
    K("ct_eq", r"impl CtEqual for &\[u8\]", "slice_u8_ct_eq_src", "(a b : List UInt8)", "Option Choice", {"self": ("a", L8("len_a")), "b": ("b", L8("len_b"))},
      "`impl CtEqual for &[u8]` (`none` = the `assert_eq!` on the lengths fails)", panic="none", result=lambda tr, st, ret, out, ind: "some (" + tr.ex(ret, st, None, out, ind).t + ")"),
    K("ct_eq", r"impl CtEqual for &\[u64\]", "slice_u64_ct_eq_src", "(a b : List UInt64)", "Option Choice", {"self": ("a", L64("len_a")), "b": ("b", L64("len_b"))},
      "`impl CtEqual for &[u64]` (`none` = the `assert_eq!` on the lengths fails)", panic="none", result=lambda tr, st, ret, out, ind: "some (" + tr.ex(ret, st, None, out, ind).t + ")"),
    # big-endian `<` on byte arrays: i16 / i8 borrow chain on Int, every cast written as the wrap it is
    K("ct_lt", r"CtLesser for &\[u8; N\]", "array_u8_ct_lt_src", "(a b : List UInt8)", "Choice", {"a": ("a", L8("N")), "b": ("b", L8("N"))},
      "`impl CtLesser for &[u8; N]` (checked i16/i8 `-` = Int `-`: no overflow by `borrowStep_i16_range`)", mode="int"),
    # masked swap / set
    K("ct_array64_maybe_swap_with", None, "ct_array64_maybe_swap_with_src", "(a b : List UInt64) (swap : Choice)", "List UInt64 × List UInt64",
      {"a": ("a", L64("N")), "b": ("b", L64("N")), "swap": ("swap", CH)}, "`ct_array64_maybe_swap_with`",
      result=lambda tr, st, ret, out, ind: f"({st.vars['a'].t}, {st.vars['b'].t})"),
    K("ct_array32_maybe_swap_with", None, "ct_array32_maybe_swap_with_src", "(a b : List UInt32) (swap : Choice)", "List UInt32 × List UInt32",
      {"a": ("a", L32("N")), "b": ("b", L32("N")), "swap": ("swap", CH)}, "`ct_array32_maybe_swap_with` (`[i32; N]` on the u32 bit patterns: only `^ &` are applied)",
      bits_types={"i32": "u32"}, result=lambda tr, st, ret, out, ind: f"({st.vars['a'].t}, {st.vars['b'].t})"),
    K("ct_array64_maybe_set", None, "ct_array64_maybe_set_src", "(a b : List UInt64) (swap : Choice)", "List UInt64",
      {"a": ("a", L64("N")), "b": ("b", L64("N")), "swap": ("swap", CH)}, "`ct_array64_maybe_set`",
      result=lambda tr, st, ret, out, ind: st.vars['a'].t),
    K("ct_array32_maybe_set", None, "ct_array32_maybe_set_src", "(a b : List UInt32) (swap : Choice)", "List UInt32",
      {"a": ("a", L32("N")), "b": ("b", L32("N")), "swap": ("swap", CH)}, "`ct_array32_maybe_set` (`[i32; N]` on the u32 bit patterns)",
      bits_types={"i32": "u32"}, result=lambda tr, st, ret, out, ind: st.vars['a'].t),
]
HEADER = "import CxVerif.Impl.ConstantTime\nnamespace Cx.Extracted.KernelsCT\nopen Cx Cx.Impl.CT\nset_option autoImplicit false\n"
FOOTER = "end Cx.Extracted.KernelsCT\n"
LEAN_FILE = "KernelsCT"
