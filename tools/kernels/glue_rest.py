"""glue specs (tools/ktx_glue_rest.py): the LEFTOVER glue of /repo/src that no other translator reaches
   src/chacha/mod.rs            `chacha::verif::{Portable, Native}` engine wrappers (`engine_wrapper!`) + the cfg dispatch
   src/constant_time.rs         `From<Choice> for bool`, `CtOption::{from, into_option}`, the `verif` wrappers of the masked swap / set
   src/chacha20poly1305.rs      `<&Tag as CtEqual>::ct_ne`
   src/hashing/blake2{b,s}.rs   hooks `verif_set_counter` (Context, ContextDyn)
   src/hashing/sha1.rs, ripemd160.rs, sha2/mod.rs   hooks `verif_set_processed_bytes`
   src/poly1305.rs              hooks `verif_from_state`, `verif_h`; `mul64`
   src/hashing/keccak.rs        the `keccak_impl!` contexts;  src/hashing/sha3.rs `shake_128/256`
   src/curve25519/fe/load.rs, scalar/scalar32.rs (small functions), fe/fe32/mod.rs (compositions)
   src/scrypt.rs `salsa20_8`, src/kdf/argon2.rs `Block` views / indexing, src/cryptoutil.rs `xor_array64_mut`
   -> lean/CxVerif/Extracted/GlueRest.lean; tie theorems lean/CxVerif/Props/C20/GlueTieRest.lean (helpers Proofs/GlueRest.lean)."""
import re

import ktx_glue_rest as R
from ktx_glue_rest import (RK, World, Struct, Fn, U, NAT, INT, BOOL, UNIT, U8, U32, U64, USIZE, LIST, VEC, STRUCT, EXT, TUPLE, OPTION,
                           BYTES, TranslateError)

TRANSLATE = R.translate
LEAN_FILE = "GlueRest"


def text(t):
    return RK(None, kind="text", lean_name="_section", text=t)


def ns(name, opens=""):
    return text(f"namespace {name}\n{opens}\n" if opens else f"namespace {name}\n")


def end(name):
    return text(f"end {name}\n")


def need_len(i, n, what):
    def check(tr, recv, args):
        if args[i].ty[0] != "list" or args[i].ty[2] != n:
            raise TranslateError(f"{what}: the buffer is not statically {n} bytes long")
    return check


# ================================================================================================= (f) hooks of the hash contexts, Poly1305
def blake2_hooks(X, w):
    FC = f"src/hashing/blake2{X}.rs"
    FM = "src/hashing/blake2/mod.rs"
    Uu = X.upper()
    W = World(
        structs={
            "Engine": Struct(f"Cx.Impl.Blake2.Engine UInt{w}",
                             {"h": (["h"], VEC(U(w), 8)), "t": (("split", [], ["t0", "t1"]), LIST(NAT(w), 2))}),
            "Context": Struct(f"Cx.Impl.Blake2.Ctx UInt{w}",
                              {"eng": (["eng"], STRUCT("Engine")), "buf": (["buf"], BYTES), "buflen": (["buflen"], USIZE)}),
            "ContextDyn": Struct(f"Cx.Impl.Blake2.ContextDyn UInt{w}",
                                 {"eng": (["ctx", "eng"], STRUCT("Engine")), "buf": (["ctx", "buf"], BYTES),
                                  "buflen": (["ctx", "buflen"], USIZE), "outlen": (["outlen"], USIZE)}),
        })
    return [
        ns(f"Blake2{X}"),
        RK(W, kind="struct", file=FM, scope=rf"pub struct Engine{Uu}\b", lean_name="Engine_struct_src",
           expect=f"pub struct Engine{Uu} {{ pub h: [u{w}; 8], pub t: [u{w}; 2], }}"),
        RK(W, kind="struct", file=FC, scope=r"pub struct Context<", lean_name="Context_struct_src",
           expect="pub struct Context<const BITS: usize> { eng: Engine, buf: [u8; Engine::BLOCK_BYTES], buflen: usize, }"),
        RK(W, kind="struct", file=FC, scope=r"pub struct ContextDyn\b", lean_name="ContextDyn_struct_src",
           expect="pub struct ContextDyn { eng: Engine, buf: [u8; Engine::BLOCK_BYTES], buflen: usize, outlen: usize, }"),
        RK(W, kind="struct", file=FC, scope=r"use super::blake2::\{", lean_name="Engine_alias_src",
           expect=f"use super::blake2::{{Engine{Uu} as Engine, LastBlock}}"),
        RK(W, file=FC, fn="verif_set_counter", scope=r"impl<const BITS: usize> Context<BITS>\s*\{", self_ty=STRUCT("Context"),
           owner="Context", lean_name="Context.verif_set_counter_src", doc="hook: `self.eng.t = [t0, t1]`"),
        RK(W, file=FC, fn="verif_set_counter", scope=r"impl ContextDyn\s*\{", self_ty=STRUCT("ContextDyn"), owner="ContextDyn",
           lean_name="ContextDyn.verif_set_counter_src", doc="hook: `self.eng.t = [t0, t1]`"),
        end(f"Blake2{X}"),
    ]


def md_hooks():
    F1, FR, F2 = "src/hashing/sha1.rs", "src/hashing/ripemd160.rs", "src/hashing/sha2/mod.rs"
    W1 = World(
        types={"FixedBuffer<64>": EXT("fb"), "[u32; 5]": EXT("hash")},
        ext={"fb": "Cx.Impl.FixedBuffer", "hash": "Cx.Impl.Sha1.Hash"},
        structs={"Context": Struct("Cx.Impl.Sha1.Context", {"h": (["h"], EXT("hash")), "processed_bytes": (["processed_bytes"], U64),
                                                            "buffer": (["buffer"], EXT("fb"))})})
    WR = World(
        types={"FixedBuffer<64>": EXT("fb"), "[u32; 5]": EXT("hash")},
        ext={"fb": "Cx.Impl.FixedBuffer", "hash": "Cx.Impl.Ripemd160.Hash"},
        structs={"Context": Struct("Cx.Impl.Ripemd160.Context", {"h": (["h"], EXT("hash")), "processed_bytes": (["processed_bytes"], U64),
                                                                 "buffer": (["buffer"], EXT("fb"))})})
    # sha2: the six `digest!` invocations are EXPANDED; Engine256 keeps a u64, Engine512 a u128 byte counter (both `Nat` in the model)
    W2 = World(
        types={"FixedBuffer<64>": EXT("fb"), "FixedBuffer<128>": EXT("fb"), "eng256::Engine": EXT("e256"), "eng512::Engine": EXT("e512")},
        ext={"fb": "Cx.Impl.FixedBuffer", "e256": "Cx.Impl.Sha2.Eng256.Engine", "e512": "Cx.Impl.Sha2.Eng512.Engine"},
        flavour={"u64": "nat", "u128": "nat"},
        structs={
            "Engine256": Struct("Cx.Impl.Sha2.Engine256", {"processed_bytes": (["processed_bytes"], NAT(64)), "buffer": (["buffer"], EXT("fb")),
                                                           "state": (["state"], EXT("e256")), "finished": (["finished"], BOOL)}),
            "Engine512": Struct("Cx.Impl.Sha2.Engine512", {"processed_bytes": (["processed_bytes"], NAT(128)), "buffer": (["buffer"], EXT("fb")),
                                                           "state": (["state"], EXT("e512"))}),
        })
    ks = [
        ns("Sha1"),
        RK(W1, kind="struct", file=F1, scope=r"pub struct Context\b", lean_name="Context_struct_src",
           expect="pub struct Context { h: [u32; STATE_LEN], processed_bytes: u64, buffer: FixedBuffer<64>, }"),
        RK(W1, file=F1, fn="verif_set_processed_bytes", scope=r"impl Context\s*\{", self_ty=STRUCT("Context"), owner="Context",
           lean_name="Context.verif_set_processed_bytes_src", doc="hook: `self.processed_bytes = n`"),
        end("Sha1"),
        ns("Ripemd160"),
        RK(WR, kind="struct", file=FR, scope=r"pub struct Context\b", lean_name="Context_struct_src",
           expect="pub struct Context { h: [u32; DIGEST_BUF_LEN], processed_bytes: u64, buffer: FixedBuffer<64>, }"),
        RK(WR, file=FR, fn="verif_set_processed_bytes", scope=r"impl Context\s*\{", self_ty=STRUCT("Context"), owner="Context",
           lean_name="Context.verif_set_processed_bytes_src", doc="hook: `self.processed_bytes = n`"),
        end("Ripemd160"),
        ns("Sha2"),
        RK(W2, kind="struct", file=F2, scope=r"struct Engine512\b", lean_name="Engine512_struct_src",
           expect="struct Engine512 { processed_bytes: u128, buffer: FixedBuffer<128>, state: eng512::Engine, }"),
        RK(W2, kind="struct", file=F2, scope=r"struct Engine256\b", lean_name="Engine256_struct_src",
           expect="struct Engine256 { processed_bytes: u64, buffer: FixedBuffer<64>, state: eng256::Engine, finished: bool, }"),
    ]
    for ctx, eng in [("Context512", "Engine512"), ("Context384", "Engine512"), ("Context512_256", "Engine512"), ("Context512_224", "Engine512"),
                     ("Context256", "Engine256"), ("Context224", "Engine256")]:
        lean = "Cx.Impl.Sha2.Ctx512" if eng == "Engine512" else "Cx.Impl.Sha2.Ctx256"
        W2.structs[ctx] = Struct(lean, {"engine": (["engine"], STRUCT(eng))})
        ks.append(RK(W2, kind="struct", file=F2, macros=("digest",), scope=rf"pub struct {ctx}\b", lean_name=f"{ctx}_struct_src",
                     expect=f"pub struct {ctx} {{ engine: {eng}, }}"))
        ks.append(RK(W2, file=F2, macros=("digest",), fn="verif_set_processed_bytes", scope=rf"impl {ctx}\s*\{{", self_ty=STRUCT(ctx), owner=ctx,
                     lean_name=f"{ctx}.verif_set_processed_bytes_src", doc="hook: `self.engine.processed_bytes = n as _` (n : u128)"))
    ks.append(end("Sha2"))
    return ks


def poly_hooks():
    FP = "src/poly1305.rs"
    W = World(
        types={"[u32; 5]": EXT("l5"), "[u32; 4]": EXT("l4")},
        ext={"l5": "Cx.Impl.Poly1305.L5", "l4": "Cx.Impl.Poly1305.L4"},
        flavour={"u32": "nat", "u64": "nat"},
        structs={"Poly1305": Struct("Cx.Impl.Poly1305.State",
                                    {"r": (["r"], EXT("l5")), "h": (["h"], EXT("l5")), "pad": (["pad"], EXT("l4")), "leftover": (["leftover"], USIZE),
                                     "buffer": (["buffer"], LIST(U8, 16)), "finalized": (["finalized"], BOOL)})})
    HOOK = r"#\[cfg\(cryptoxide_verif\)\]\s*impl Poly1305\s*\{"
    return [
        ns("Poly1305"),
        RK(W, kind="struct", file=FP, scope=r"pub struct Poly1305\b", lean_name="Poly1305_struct_src",
           expect="pub struct Poly1305 { r: [u32; 5], h: [u32; 5], pad: [u32; 4], leftover: usize, buffer: [u8; 16], finalized: bool, }"),
        RK(W, file=FP, fn="verif_from_state", scope=HOOK, self_ty=STRUCT("Poly1305"), owner="Poly1305", lean_name="verif_from_state_src",
           doc="hook: context with the given limbs, empty buffer"),
        RK(W, file=FP, fn="verif_h", scope=HOOK, self_ty=STRUCT("Poly1305"), owner="Poly1305", lean_name="verif_h_src", doc="hook: the accumulator limbs"),
        RK(W, file=FP, fn="mul64", lean_name="mul64_src", doc="`a as u64 * b as u64` (u32 / u64 as naturals, the product CHECKED)"),
        end("Poly1305"),
    ]


# ================================================================================================= (b) constant_time.rs leftovers, Tag::ct_ne
CHOICE = EXT("choice")
CT = "Cx.Impl.CT"
CT_METHODS = {
    ("choice", "is_true"): Fn(f"{CT}.Choice.isTrue {{self}}", ret=BOOL, self_mode="val"),
    ("choice", "is_false"): Fn(f"{CT}.Choice.isFalse {{self}}", ret=BOOL, self_mode="val"),
    ("choice", "negate"): Fn(f"{CT}.Choice.negate {{self}}", ret=CHOICE, self_mode="val"),
    # `impl CtEqual for &[u8; N]` (tied by Props/C18KernelTie.lean)
    ("[u8]", "ct_eq"): Fn(f"{CT}.array_u8_ct_eq {{self}} {{0}}", [("ref", BYTES)], ret=CHOICE, self_mode="val"),
    ("[u8]", "ct_ne"): Fn(f"{CT}.array_u8_ct_ne {{self}} {{0}}", [("ref", BYTES)], ret=CHOICE, self_mode="val"),
}


def ct_kernels():
    F = "src/constant_time.rs"
    L64, L32 = LIST(U64, "N"), LIST(U32, "N")
    W = World(
        types={"Choice": CHOICE}, ext={"choice": f"{CT}.Choice"}, methods=CT_METHODS,
        structs={"CtOption": Struct("CtOption T", {"present": (["present"], CHOICE), "t": (["t"], ("tyvar", "T"))})},
        fns={
            # the crate-private masked swap / assign (tied by Props/C18KernelTie.lean); `[i32; N]` on the u32 bit patterns, as there
            "ct_array64_maybe_swap_with": Fn(f"{CT}.ct_array64_maybe_swap_with {{0}} {{1}} {{2}}", [("mut", L64), ("mut", L64), ("val", CHOICE)]),
            "ct_array32_maybe_swap_with": Fn(f"{CT}.ct_array32_maybe_swap_with {{0}} {{1}} {{2}}", [("mut", L32), ("mut", L32), ("val", CHOICE)]),
            "ct_array64_maybe_set": Fn(f"{CT}.ct_array64_maybe_set {{0}} {{1}} {{2}}", [("mut", L64), ("ref", L64), ("val", CHOICE)]),
            "ct_array32_maybe_set": Fn(f"{CT}.ct_array32_maybe_set {{0}} {{1}} {{2}}", [("mut", L32), ("ref", L32), ("val", CHOICE)]),
        })
    VER = r"pub mod verif\s*\{"
    I32 = {"[i32; N]": L32}
    return [
        ns("CT"),
        RK(W, kind="struct", file=F, scope=r"pub struct CtOption<", lean_name="CtOption_struct_src",
           expect="pub struct CtOption<T> { present: Choice, t: T, }"),
        RK(W, file=F, fn="from", scope=r"impl From<Choice> for bool\s*\{", owner="bool", lean_name="bool_from_choice_src", doc="`impl From<Choice> for bool`"),
        RK(W, file=F, fn="from", scope=r"impl<T> From<\(Choice, T\)> for CtOption<T>\s*\{", tyvars=["T"], binders=["{T : Type}"], owner="CtOption",
           lean_name="CtOption.from_src", doc="`impl<T> From<(Choice, T)> for CtOption<T>`"),
        RK(W, file=F, fn="into_option", scope=r"impl<T> CtOption<T>\s*\{", tyvars=["T"], binders=["{T : Type}"], self_ty=STRUCT("CtOption"),
           owner="CtOption", lean_name="CtOption.into_option_src", doc="`CtOption::into_option`"),
        RK(W, file=F, fn="array64_maybe_swap_with", scope=VER, lean_name="verif.array64_maybe_swap_with_src", doc="hook wrapper"),
        RK(W, file=F, fn="array32_maybe_swap_with", scope=VER, lean_name="verif.array32_maybe_swap_with_src", param_types=I32,
           doc="hook wrapper (`[i32; N]` on the u32 bit patterns: only `^ &` are applied)"),
        RK(W, file=F, fn="array64_maybe_set", scope=VER, lean_name="verif.array64_maybe_set_src", doc="hook wrapper"),
        RK(W, file=F, fn="array32_maybe_set", scope=VER, lean_name="verif.array32_maybe_set_src", param_types=I32, doc="hook wrapper"),
        end("CT"),
    ]


def tag_kernels():
    F = "src/chacha20poly1305.rs"
    W = World(types={"Choice": CHOICE}, ext={"choice": f"{CT}.Choice"}, methods=dict(CT_METHODS),
              structs={"Tag": Struct("Bytes", newtype=LIST(U8, 16))})
    SC = r"impl CtEqual for &Tag\s*\{"
    return [
        ns("Tag"),
        RK(W, kind="struct", file=F, scope=r"pub struct Tag\b", lean_name="Tag_struct_src", expect="pub struct Tag(pub [u8; 16]);"),
        RK(W, file=F, fn="ct_eq", scope=SC, self_ty=STRUCT("Tag"), owner="Tag", lean_name="ct_eq_src", doc="`<&Tag as CtEqual>::ct_eq`"),
        RK(W, file=F, fn="ct_ne", scope=SC, self_ty=STRUCT("Tag"), owner="Tag", lean_name="ct_ne_src", doc="`<&Tag as CtEqual>::ct_ne`"),
        end("Tag"),
    ]


# ================================================================================================= (a) src/chacha/mod.rs
def chacha_kernels():
    F = "src/chacha/mod.rs"
    ENG = EXT("engine")
    W = World(
        types={"State": ENG, "ChaChaEngine": ENG}, ext={"engine": "σ"},
        structs={"Portable": Struct("σ", newtype=ENG), "Native": Struct("σ", newtype=ENG)},
        consts={"R": ("R", USIZE)},
        methods={
            # `ChaChaEngine<R>` / `reference::State<R>`: the model's engine record (tied by Props/C03/KernelTie*.lean, C16)
            ("engine", "init"): Fn("(E.init {0} {1}).toOption", [("ref", BYTES), ("ref", BYTES)], ret=ENG, fallible=True),
            ("engine", "rounds"): Fn("E.rounds R {self}", self_mode="mut"),
            ("engine", "add_back"): Fn("E.add_back {self} {0}", [("ref", ENG)], self_mode="mut"),
            ("engine", "output_bytes"): Fn("E.output_bytes {self}", [("mut", BYTES)], self_mode="ref", check=need_len(0, 64, "output_bytes")),
            ("engine", "output_ad_bytes"): Fn("E.output_ad_bytes {self}", [("mut", BYTES)], self_mode="ref", check=need_len(0, 32, "output_ad_bytes")),
            ("engine", "set_counter"): Fn("E.set_counter {self} {0}", [("val", U32)], self_mode="mut"),
            ("engine", "verif_set_counter64"): Fn("E.verif_set_counter64 {self} {0}", [("val", U64)], self_mode="mut"),
            ("engine", "increment"): Fn("E.increment {self}", self_mode="mut"),
            ("engine", "increment64"): Fn("E.increment64 {self}", self_mode="mut"),
        })
    B = ["{σ : Type}", "(E : Cx.Impl.ChaCha.Engine σ)", "(R : Nat)"]
    ks = [ns("ChaChaMod"),
          RK(W, kind="cfg", file=F, items=r"pub\(crate\)\s+type\s+ChaChaEngine\b", lean_name="ChaChaEngine_cfg_src",
             doc="which engine `ChaChaEngine<R>` (hence `verif::Native`) is"),
          RK(W, kind="cfg", file=F, items=r"(?:mod\s+reference_verif\b|use\s+reference\s+as\s+reference_verif\b)", lean_name="reference_verif_cfg_src",
             doc="which module `reference_verif` (hence `verif::Portable`) is"),
          RK(W, kind="cfg", file=F, items=r"(?<![\w\"])mod\s+(?:reference|sse2)\s*;", lean_name="engine_mod_cfg_src",
             doc="which engine module is compiled as the crate's own"),
          RK(W, kind="struct", file=F, scope=r"pub struct \$name<", lean_name="wrapper_struct_src",
             expect="pub struct $name<const R: usize>($inner);"),
          RK(W, kind="struct", file=F, scope=r"engine_wrapper!\(\s*Portable", lean_name="Portable_invocation_src",
             expect="engine_wrapper!( Portable, super::reference_verif::State<R>, __str );"),
          RK(W, kind="struct", file=F, scope=r"engine_wrapper!\(\s*Native", lean_name="Native_invocation_src",
             expect="engine_wrapper!( Native, super::ChaChaEngine<R>, __str );")]
    for wname in ("Portable", "Native"):
        for fn in ("init", "state_bytes", "block", "hblock", "set_counter", "set_counter64", "increment", "increment64"):
            ks.append(RK(W, file=F, macros=("engine_wrapper",), fn=fn, scope=rf"impl<const R: usize> {wname}<R>\s*\{{", self_ty=STRUCT(wname),
                         owner=wname, binders=B, call_prefix="E R", lean_name=f"{wname}.{fn}_src",
                         doc=f"`chacha::verif::{wname}::<R>::{fn}` (expansion of `engine_wrapper!`)"))
    ks.append(end("ChaChaMod"))
    return ks


# ================================================================================================= (e) keccak_impl! contexts
def keccak_kernels():
    F = "src/hashing/keccak.rs"
    ENG = EXT("engine")
    SP = "Cx.Extracted.GlueSponge.Sha3"
    W = World(
        types={"Engine": ENG}, ext={"engine": "Cx.Impl.Sha3.Engine"},
        structs={"Context": Struct("Cx.Impl.Sha3.Engine", newtype=ENG)},
        consts={"DIGESTLEN": ("DIGESTLEN", USIZE)},
        methods={
            # the sponge engine `Engine<DIGESTLEN, 0>`: the definitions GENERATED from sha3.rs (tied by Props/C02/GlueTieSponge.lean);
            # DSLEN = 0 is the second generic argument of the field type checked by `Context_struct_src`
            ("engine", "new"): Fn(f"{SP}.Engine.new_src DIGESTLEN 0", ret=ENG, fallible=True),
            ("engine", "process"): Fn(f"{SP}.Engine.process_src DIGESTLEN 0 {{self}} {{0}}", [("ref", BYTES)], self_mode="mut", fallible=True),
            ("engine", "output"): Fn(f"{SP}.Engine.output_src DIGESTLEN 0 {{self}} {{0}}", [("mut", BYTES)], self_mode="mut", fallible=True),
            ("engine", "reset"): Fn(f"{SP}.Engine.reset_src DIGESTLEN 0 {{self}}", self_mode="mut", fallible=True),
        })
    SUB = {"$digestlength": "DIGESTLEN", "$context": "Context", "$C": "Algorithm"}
    CS = r"impl \$context\s*\{"
    OUT = {"out": LIST(U8, "DIGESTLEN")}
    B = ["(DIGESTLEN : Nat)"]
    ks = [ns("Keccak"),
          RK(W, kind="struct", file=F, scope=r"pub struct \$context\(", lean_name="Context_struct_src",
             expect="pub struct $context(Engine<$digestlength, 0>);"),
          RK(W, kind="struct", file=F, scope=r"use super::sha3::\{", lean_name="Imports_src", expect="use super::sha3::{Engine, B}")]
    for fn in ("new", "update_mut", "update", "finalize_reset", "finalize", "reset"):
        ks.append(RK(W, file=F, fn=fn, scope=CS, subst=SUB, self_ty=STRUCT("Context"), owner="Context", binders=B, call_prefix="DIGESTLEN",
                     local_types=OUT, lean_name=f"Context.{fn}_src", doc="`keccak_impl!` context (`$digestlength` = DIGESTLEN, `Engine<DIGESTLEN, 0>`)"))
    ks.append(RK(W, file=F, fn="new", scope=r"impl \$C\s*\{", subst=SUB, binders=B, call_prefix="DIGESTLEN", lean_name="Algorithm.new_src",
                 doc="`impl $C { pub fn new() -> $context }` (the marker types `Keccak224` …)"))
    ks.append(end("Keccak"))
    return ks


# ================================================================================================= (c) fe/load.rs, scalar32.rs, fe32 compositions
def load_kernels():
    F = "src/curve25519/fe/load.rs"
    W = World()
    return [ns("Load")] + [RK(W, file=F, fn=fn, lean_name=f"{fn}_src", doc="`s[k]` panics beyond the slice") for fn in ("load_4u", "load_4i", "load_3u", "load_3i")] + [end("Load")]


def scalar32_kernels():
    F = "src/curve25519/scalar/scalar32.rs"
    A32 = VEC(U8, 32)
    W = World(vec_types={(U8, 32)},
              structs={"Scalar": Struct("Cx.Impl.Scalar32.Scalar", newtype=A32)},
              # `const L: [u8; 32]` nested in `from_bytes_canonical`: the re-extracted table `Extracted.B32.SC_L` (tied by the table theorems of C17)
              consts={"L": ("Cx.Impl.Scalar32.L", LIST(U8, 32))})
    IMPL = r"impl Scalar\s*\{"
    S = STRUCT("Scalar")
    return [
        ns("Scalar32"),
        RK(W, kind="struct", file=F, scope=r"pub struct Scalar\(", lean_name="Scalar_struct_src", expect="pub struct Scalar([u8; 32]);"),
        RK(W, file=F, fn="from_bytes", scope=IMPL, self_ty=S, owner="Scalar", lean_name="from_bytes_src"),
        RK(W, file=F, fn="to_bytes", scope=IMPL, self_ty=S, owner="Scalar", lean_name="to_bytes_src"),
        RK(W, file=F, fn="check_s_lt_l", scope=r"pub fn from_bytes_canonical\(bytes: &\[u8; 32\]\) -> Option<Self>\s*\{", lean_name="check_s_lt_l_src",
           fuel=["32"], doc="the nested `fn check_s_lt_l`: `loop` over i = 31 … 0 (fuel 32), i32 arithmetic CHECKED"),
        RK(W, file=F, fn="from_bytes_canonical", scope=IMPL, self_ty=S, owner="Scalar", lean_name="from_bytes_canonical_src"),
        RK(W, file=F, fn="bits", scope=IMPL, self_ty=S, owner="Scalar", lean_name="bits_src", doc="`[i8; 256]` as `List Int`"),
        RK(W, file=F, fn="nibbles", scope=IMPL, self_ty=S, owner="Scalar", lean_name="nibbles_src", doc="`[i8; 64]` as `List Int`"),
        end("Scalar32"),
    ]


def fe32_kernels():
    F = "src/curve25519/fe/fe32/mod.rs"
    FE = EXT("fe")
    M = "Cx.Impl.Fe32"
    swap = (f"(fun r => ({M}.Fe.ofWords r.1, {M}.Fe.ofWords r.2)) ({CT}.ct_array32_maybe_swap_with ({M}.Fe.toWords {{0}}) ({M}.Fe.toWords {{1}}) {{2}})")
    W = World(
        types={"Choice": CHOICE}, ext={"choice": f"{CT}.Choice", "fe": f"{M}.Fe"}, ufcs={"CtEqual"},
        structs={"Fe": Struct(f"{M}.Fe", newtype=FE)},
        into={("choice", "bool"): "Cx.Extracted.GlueRest.CT.bool_from_choice_src {0}"},
        methods={**CT_METHODS,
                 # the limb kernels (tied by Props/C17/KernelTieB32.lean)
                 ("Fe", "to_bytes"): Fn(f"{M}.to_bytes {{self}}", ret=LIST(U8, 32), self_mode="ref", fallible=True),
                 ("Fe", "square"): Fn(f"{M}.square {{self}}", ret=STRUCT("Fe"), self_mode="ref", fallible=True)},
        fns={
            # `[i32; 10]` limbs <-> the u32 bit patterns the masked swap / set are modelled on (`Fe.toWords` / `Fe.ofWords`)
            "ct_array32_maybe_swap_with": Fn(swap, [("mut", FE), ("mut", FE), ("val", CHOICE)]),
            "ct_array32_maybe_set": Fn(f"{M}.Fe.ofWords ({CT}.ct_array32_maybe_set ({M}.Fe.toWords {{0}}) ({M}.Fe.toWords {{1}}) {{2}})",
                                       [("mut", FE), ("ref", FE), ("val", CHOICE)]),
        })
    S = STRUCT("Fe")
    ks = [ns("Fe32"),
          RK(W, kind="struct", file=F, scope=r"pub struct Fe\(", lean_name="Fe_struct_src", expect="pub struct Fe(pub(crate) [i32; 10]);"),
          RK(W, file=F, fn="ct_eq", scope=r"impl CtEqual for &Fe\s*\{", self_ty=S, owner="Fe", lean_name="ct_eq_src"),
          RK(W, file=F, fn="ct_ne", scope=r"impl CtEqual for &Fe\s*\{", self_ty=S, owner="Fe", lean_name="ct_ne_src"),
          RK(W, file=F, fn="eq", scope=r"impl PartialEq for Fe\s*\{", self_ty=S, owner="Fe", lean_name="eq_src")]
    ks.append(RK(W, file=F, fn="emul", lean_name="emul_src", doc="`(a as i64) * (b as i64)`: the i64 product CHECKED"))
    for fn in ("maybe_swap_with", "maybe_set", "square_repeatdly", "is_nonzero", "is_negative"):
        ks.append(RK(W, file=F, fn=fn, self_ty=S, owner="Fe", lean_name=f"{fn}_src"))
    ks.append(end("Fe32"))
    return ks


# ================================================================================================= (d) scrypt::salsa20_8, argon2 Block, cryptoutil::xor_array64_mut
def misc_kernels():
    FS, FA, FC = "src/scrypt.rs", "src/kdf/argon2.rs", "src/cryptoutil.rs"
    X16 = VEC(U32, 16)
    WS = World(
        vec_types={(U32, 16)},
        fns={
            # cryptoutil.rs (their own ties: Props/C01/GlueTieMd.lean); here with the length tests they perform
            "read_u32v_le": Fn("read_u32v_le_vec 16 {1}", [("mut", X16), ("ref", BYTES)], fallible=True),
            "read_u32_le": Fn("read_u32_le {0}", [("ref", BYTES)], ret=U32, fallible=True),
            "write_u32_le": Fn("write_u32_le {0} {1}", [("mut", BYTES), ("val", U32)], fallible=True),
        })
    WB = World(vec_types={(U64, 128)}, file_consts=True,
               structs={"Block": Struct("Cx.Spec.Argon2.Block", newtype=VEC(U64, 128))})
    WX = World()
    B = STRUCT("Block")
    return [
        ns("Scrypt"),
        RK(WS, file=FS, fn="salsa20_8", lean_name="salsa20_8_src", local_types={"rounds": USIZE},
           doc="word loading, `rounds / 2` iterations of the 32 `run_round!` rows (expanded from the macro and its invocation), feed-forward. "
               "`let rounds = 8;` is typed `usize` here (rustc infers i32; the value and `/ 2` are the same)"),
        end("Scrypt"),
        ns("Argon2Block"),
        RK(WB, kind="struct", file=FA, scope=r"struct Block\(", lean_name="Block_struct_src", expect="struct Block([u64; BLOCK_SIZE_U64]);"),
        RK(WB, file=FA, fn="as_u8", scope=r"impl Block\s*\{", self_ty=B, owner="Block", lean_name="as_u8_src",
           doc="the `unsafe` pointer cast = the little-endian byte view (x86-64); sizes read from the consts of the file"),
        RK(WB, kind="lens", file=FA, fn="as_u8_mut", scope=r"impl Block\s*\{", self_ty=B, owner="Block", lean_name="as_u8_mut_src"),
        RK(WB, file=FA, fn="index", scope=r"impl Index<usize> for Block\s*\{", self_ty=B, owner="Block", lean_name="index_src"),
        RK(WB, kind="lens", file=FA, fn="index_mut", scope=r"impl IndexMut<usize> for Block\s*\{", self_ty=B, owner="Block", lean_name="index_mut_src"),
        end("Argon2Block"),
        ns("CryptoUtil"),
        RK(WX, file=FC, fn="xor_array64_mut", lean_name="xor_array64_mut_src", doc="both arrays have the static length N"),
        end("CryptoUtil"),
    ]


# ================================================================================================= (c') scalar32::muladd (sc_muladd) in STAGES
def muladd_kernels():
    """`muladd` is one straight-line function of ~1000 checked operations; translated whole, neither the definition nor its tie passes
    Lean's limits.  It is translated in three stages by tools/ktx_misc.py (the "int" backend of tools/kernels/scalar32.py), each stage a
    CONTIGUOUS range of the statements of the function (found by markers in the source, so that every statement is in exactly one stage;
    the declarations `let mut x: i64;` without initialiser are not statements with an effect):
        cols   the 36 loads (inlined) and the 24 column sums `s0 = c0 + a0*b0; … s23 = 0;`
        carry  the two rounds of rounded carries that follow
        tail   from `s11 += s23 * 666643;` to `Scalar(s)` — the SAME statements as `reduce_from_wide_bytes` after its loads
    and `muladd_src` is their composition (generated below after the partition has been checked)."""
    import ktx_misc
    from ktx_misc import MK, P2, lex, find_fn, read_src
    from kernels import scalar32 as S32
    F = S32.F
    SN = [f"s{i}" for i in range(24)]

    def is_assign(s, name, op=None):
        return s[0] == "assign" and s[1] == ("path", name) and (op is None or s[2] == op)

    def marks(stmts):
        i_cols = next(i for i, s in enumerate(stmts) if is_assign(s, "s0", "="))
        i_carry = next(i for i, s in enumerate(stmts) if is_assign(s, "carry0", "="))
        i_tail = next(i for i, s in enumerate(stmts) if is_assign(s, "s11", "+=") and "666643" in repr(s[3]) and "s23" in repr(s[3]))
        if not (i_cols < i_carry < i_tail):
            raise TranslateError("muladd: stage markers out of order")
        return i_cols, i_carry, i_tail

    def decl(s, prefix):
        return s[0] == "let" and s[3] is None and s[1][0] == "var" and re.fullmatch(prefix + r"\d+", s[1][1])

    def sel_cols(stmts):
        _, i_carry, _ = marks(stmts)
        return stmts[:i_carry]

    def sel_carry(stmts):
        _, i_carry, i_tail = marks(stmts)
        return [s for s in stmts[:i_carry] if decl(s, "carry")] + stmts[i_carry:i_tail]

    def sel_tail(stmts):
        _, _, i_tail = marks(stmts)
        return [s for s in stmts[:i_tail] if decl(s, "carry")] + stmts[i_tail:]

    def tuple24(tr, st, ret, out, ind):
        return "pure (" + ", ".join(st.vars[n].t for n in SN) + ")"

    T24 = "Option (" + " × ".join(["Int"] * 24) + ")"
    SENV = {n: (n, "i64") for n in SN}
    SPAR = "(" + " ".join(SN) + " : Int)"
    common = dict(file=F, fn="muladd", mode="int", monadic=True, int_ops=S32.INT_OPS, calls=S32.CALLS, panic="none",
                  attrs="set_option maxRecDepth 100000 in\n")
    k_cols = MK(lean_name="muladd_cols_src", params="(a b c : Scalar)", ret_type=T24, select=sel_cols, result=tuple24,
                env={"a": ("a", S32.B(32)), "b": ("b", S32.B(32)), "c": ("c", S32.B(32))},
                doc="`muladd`, stage 1: loads and column sums (every `+`, `*` on i64 checked)", inline_pure=False, **common)
    k_carry = MK(lean_name="muladd_carry_src", params=SPAR, ret_type=T24, select=sel_carry, result=tuple24, env=dict(SENV),
                 doc="`muladd`, stage 2: the two rounds of rounded carries", inline_pure=True, **common)
    k_tail = MK(lean_name="muladd_tail_src", params=SPAR, ret_type="Option Scalar", select=sel_tail, result=S32.out_result, env=dict(SENV),
                doc="`muladd`, stage 3: the reduction by L and the 32 output bytes (the statements of `reduce_from_wide_bytes` after its loads)", inline_pure=True, **common)

    def compose():
        _, body = find_fn(read_src(F), "muladd", None)
        stmts = P2(lex(body)).block()
        i_cols, i_carry, i_tail = marks(stmts)
        # partition check: before the first column sum only loads (`let x = e;`) and declarations; the final statement is the result
        for s in stmts[:i_cols]:
            if s[0] != "let":
                raise TranslateError("muladd: a statement other than `let` before the column sums")
        if stmts[-1][0] != "ret":
            raise TranslateError("muladd: no trailing result")
        pr = lambda v: " ".join(R.proj(v, i, 24) for i in range(24))
        return ("/-- GENERATED: `scalar32::muladd` = its three stages in source order (statements [0, %d) loads + column sums, [%d, %d) carries, "
                "[%d, %d) reduction + output; checked to partition the function body on every run) -/\n"
                "def muladd_src (a b c : Scalar) : Option Scalar :=\n"
                "  (muladd_cols_src a b c).bind fun s =>\n  (muladd_carry_src %s).bind fun s =>\n  muladd_tail_src %s\n"
                % (i_carry, i_carry, i_tail, i_tail, len(stmts), pr("s"), pr("s")))

    return [
        ns("Scalar32Muladd", "open Cx.Impl.Scalar32\nopen Cx.Impl.Fe32 (ck64 add64 sub64 mul64 shl64 shr u8of u8or)"),
        RK(None, kind="misc", misc=k_cols, fn="muladd", file=F, lean_name="muladd_cols_src"),
        RK(None, kind="misc", misc=k_carry, fn="muladd", file=F, lean_name="muladd_carry_src"),
        RK(None, kind="misc", misc=k_tail, fn="muladd", file=F, lean_name="muladd_tail_src"),
        RK(None, kind="gen", gen=compose, fn="muladd", file=F, lean_name="muladd_src"),
        end("Scalar32Muladd"),
    ]


# ================================================================================================= extras: other leftovers of tie_coverage
def sha2_out_kernels():
    """the `#[allow(dead_code)]` fixed-size output functions of eng256.rs / eng512.rs (the `_at` forms the contexts use are tied by GlueTieMd)"""
    FB = "Cx.Impl"
    ks = []
    for nm, F, w, outs in [("Eng256", "src/hashing/sha2/eng256.rs", 32, ("output_224bits", "output_256bits")),
                           ("Eng512", "src/hashing/sha2/eng512.rs", 64, ("output_224bits", "output_256bits", "output_384bits", "output_512bits"))]:
        W = World(
            structs={"Engine": Struct(f"Cx.Impl.Sha2.{nm}.Engine", {"h": (("view", "{0}.h.toList"), LIST(U(w), 8))})},
            fns={"write_u32v_be": Fn(f"{FB}.write_u32v_be {{0}}.length {{1}}", [("mut", BYTES), ("ref", LIST(U32))], fallible=True),
                 "write_u64v_be": Fn(f"{FB}.write_u64v_be {{0}}.length {{1}}", [("mut", BYTES), ("ref", LIST(U64))], fallible=True),
                 "write_u32_be": Fn(f"{FB}.write_u32_be {{0}}.length {{1}}", [("mut", BYTES), ("val", U32)], fallible=True)})
        ks.append(ns(f"Sha2{nm}"))
        ks.append(RK(W, kind="struct", file=F, scope=r"pub\(super\) struct Engine\b", lean_name="Engine_struct_src",
                     expect=f"pub(super) struct Engine {{ h: [u{w}; STATE_LEN], }}"))
        ks.append(RK(W, kind="struct", file=F, scope=r"pub\(super\) const STATE_LEN\b", lean_name="STATE_LEN_src",
                     expect="pub(super) const STATE_LEN: usize = 8;"))
        for fn in outs:
            ks.append(RK(W, file=F, fn=fn, scope=r"impl Engine\s*\{", self_ty=STRUCT("Engine"), owner="Engine", lean_name=f"{fn}_src",
                         doc="dead code (`#[allow(dead_code)]`): the fixed-size form of the `_at` function"))
        ks.append(end(f"Sha2{nm}"))
    return ks


def extra_kernels():
    FR, FS, F512 = "src/chacha/reference.rs", "src/simd.rs", "src/hashing/sha2/impl512/reference.rs"
    # chacha/reference.rs `output_ad_bytes`: `state: [u32; 16]` is the model's W16 record, read through its list view
    WR = World(
        structs={"State": Struct("Cx.Impl.W16", {"state": (("view", "{0}.toList"), LIST(U32, 16))})},
        fns={"write_u32v_le": Fn("write_u32v_le {0} {1}", [("mut", BYTES), ("ref", LIST(U32))], fallible=True)})
    # simd.rs (the portable `fake` module): lane-wise operators of `u32x4` / `u64x2`
    X4, X2 = STRUCT("u32x4"), STRUCT("u64x2")
    WS = World(structs={
        "u32x4": Struct("Cx.Impl.Sha1.u32x4", {str(i): ([f"x{i}"], U32) for i in range(4)}, ctor=("(⟨{0}, {1}, {2}, {3}⟩ : Cx.Impl.Sha1.u32x4)", [U32] * 4)),
        "u64x2": Struct("Cx.Impl.Sha2.Impl512.u64x2", {str(i): ([f"_{i}"], U64) for i in range(2)}, ctor=("(⟨{0}, {1}⟩ : Cx.Impl.Sha2.Impl512.u64x2)", [U64] * 2))})
    W5 = World()
    ks = [ns("ChaChaRef"),
          RK(WR, kind="struct", file=FR, scope=r"pub\(crate\) struct State<", lean_name="State_struct_src",
             expect="pub(crate) struct State<const ROUNDS: usize> { state: [u32; 16], }"),
          RK(WR, file=FR, fn="output_ad_bytes", scope=r"impl<const ROUNDS: usize> State<ROUNDS>\s*\{", self_ty=STRUCT("State"), owner="State",
             lean_name="output_ad_bytes_src", doc="words 0..4 and 12..16 (HChaCha output)"),
          end("ChaChaRef"),
          ns("Simd")]
    for tr_, fn in [("Add", "add"), ("Sub", "sub"), ("BitAnd", "bitand"), ("BitOr", "bitor"), ("BitXor", "bitxor")]:
        ks.append(RK(WS, file=FS, fn=fn, scope=rf"impl {tr_} for u32x4\s*\{{", self_ty=X4, owner=f"u32x4.{tr_}", lean_name=f"u32x4.{fn}_src"))
    for tr_, fn, nm in [("Shl<usize>", "shl", "shl_usize"), ("Shl<u32x4>", "shl", "shl_lanes"), ("Shr<usize>", "shr", "shr_usize"), ("Shr<u32x4>", "shr", "shr_lanes")]:
        ks.append(RK(WS, file=FS, fn=fn, scope=rf"impl {re.escape(tr_)} for u32x4\s*\{{", self_ty=X4, owner=f"u32x4.{tr_}", lean_name=f"u32x4.{nm}_src",
                     doc="shift amounts ≥ 32 panic (overflow check of the amount)"))
    ks.append(RK(WS, file=FS, fn="add", scope=r"impl Add for u64x2\s*\{", self_ty=X2, owner="u64x2.Add", lean_name="u64x2.add_src"))
    ks += [end("Simd")] + sha2_out_kernels() + [
           ns("Sha512Ref"),
           RK(W5, file=F512, fn="sigma0", scope=r"fn schedule_x2\(v0: u64x2, v1: u64x2, v4to5: u64x2, v7: u64x2\) -> u64x2\s*\{", lean_name="sigma0_src"),
           RK(W5, file=F512, fn="sigma1", scope=r"fn schedule_x2\(v0: u64x2, v1: u64x2, v4to5: u64x2, v7: u64x2\) -> u64x2\s*\{", lean_name="sigma1_src"),
           end("Sha512Ref")]
    return ks


KERNELS = (blake2_hooks("b", 64) + blake2_hooks("s", 32) + md_hooks() + poly_hooks() + ct_kernels() + tag_kernels() + chacha_kernels()
           + keccak_kernels() + load_kernels() + scalar32_kernels() + fe32_kernels() + misc_kernels() + muladd_kernels() + extra_kernels())

HEADER = """import CxVerif.Impl.Blake2
import CxVerif.Impl.Sha1
import CxVerif.Impl.Ripemd160
import CxVerif.Impl.Sha2
import CxVerif.Impl.Poly1305
import CxVerif.Impl.ConstantTime
import CxVerif.Impl.ChaCha
import CxVerif.Extracted.GlueSponge
import CxVerif.Impl.Scalar32
import CxVerif.Impl.Fe32
import CxVerif.Impl.Argon2
import CxVerif.Impl.Kdf
import CxVerif.Impl.Sha1
import CxVerif.Impl.StreamCtx
import CxVerif.Impl.FixedBuffer
/-!
  Extracted.GlueRest — GENERATED by tools/ktx_glue_rest.py (kernel specs tools/kernels/glue_rest.py) from the CURRENT Rust source.
  The definitions before `-- translated functions` are the fixed run-time library of the translation; they do not depend on the
  source.  Tie theorems: CxVerif/Props/C20/GlueTieRest.lean.
-/
namespace Cx.Extracted.GlueRest
open Cx
set_option autoImplicit false
set_option linter.unusedVariables false

/-- checked `+`, `*` on a `w`-bit unsigned integer kept as a natural -/
def chk (w v : Nat) : Option Nat := if v < 2 ^ w then some v else none
/-- checked `a - b` on unsigned integers -/
def usub (a b : Nat) : Option Nat := if b ≤ a then some (a - b) else none
def udiv (a b : Nat) : Option Nat := if b = 0 then none else some (a / b)
def urem (a b : Nat) : Option Nat := if b = 0 then none else some (a % b)
/-- checked `+ - *` on a `w`-bit signed integer kept as an `Int` -/
def ick (w : Nat) (v : Int) : Option Int := if -(2 : Int) ^ (w - 1) ≤ v ∧ v < (2 : Int) ^ (w - 1) then some v else none
/-- `x as iW` for a natural `x` (two's complement) -/
def wrapI (w : Nat) (x : Nat) : Int := if x % 2 ^ w < 2 ^ (w - 1) then ((x % 2 ^ w : Nat) : Int) else ((x % 2 ^ w : Nat) : Int) - 2 ^ w
/-- `x as u8` for a signed `x` (low byte) -/
def wordOfInt8 (x : Int) : UInt8 := UInt8.ofNat (x % 256).toNat
/-- `a >> n`, `a << n` on `u8` by a run-time amount (overflow check of the amount) -/
def shrW8 (a : UInt8) (n : Nat) : Option UInt8 := if n < 8 then some (a >>> UInt8.ofNat n) else none
def shlW8 (a : UInt8) (n : Nat) : Option UInt8 := if n < 8 then some (a <<< UInt8.ofNat n) else none
/-- `a[i]` -/
def idx {α : Type} (a : List α) (i : Nat) : Option α := a[i]?
/-- `a[i] = v` -/
def upd {α : Type} (a : List α) (i : Nat) (v : α) : Option (List α) := if i < a.length then some (a.set i v) else none
def vupd {α : Type} {n : Nat} (a : Vector α n) (i : Nat) (v : α) : Option (Vector α n) := if h : i < n then some (a.set i v h) else none
/-- `&a[lo..hi]`, `&a[lo..]` -/
def slice {α : Type} (a : List α) (lo hi : Nat) : Option (List α) :=
  if lo ≤ hi ∧ hi ≤ a.length then some ((a.drop lo).take (hi - lo)) else none
def sliceFrom {α : Type} (a : List α) (lo : Nat) : Option (List α) := if lo ≤ a.length then some (a.drop lo) else none
/-- `dst[lo..hi].copy_from_slice(src)` / the write-back of a `&mut dst[lo..hi]` argument -/
def copyInto {α : Type} (dst : List α) (lo hi : Nat) (src : List α) : Option (List α) :=
  if lo ≤ hi ∧ hi ≤ dst.length ∧ src.length = hi - lo then some (dst.take lo ++ src ++ dst.drop hi) else none
/-- `for i in lo..lo+n { st = body i st }` -/
def forRange {σ : Type} (body : Nat → σ → Option σ) : Nat → Nat → σ → Option σ
  | 0, _, st => some st
  | n + 1, lo, st =>
    match body lo st with
    | none => none
    | some st' => forRange body n (lo + 1) st'
/-- `loop`/`while`: `step` returns the new state and whether the loop goes on; structural recursion on the fuel, exhausted fuel = `none` -/
def whileLoop {σ : Type} (step : σ → Option (σ × Bool)) : Nat → σ → Option σ
  | 0, _ => none
  | fuel + 1, st =>
    match step st with
    | none => none
    | some (st', true) => whileLoop step fuel st'
    | some (st', false) => some st'
/-- `&*(&words as *const [u64; A] as *const [u8; B])` on a little-endian target: defined only when the sizes agree -/
def viewLE64 (words : List UInt64) (A B : Nat) : Option Bytes :=
  if words.length = A ∧ B = 8 * A then some (words.flatMap u64le) else none
/-- the words after the `B` bytes of the `&mut` view were replaced by `bytes` -/
def unviewLE64 (bytes : Bytes) (A B : Nat) : Option (List UInt64) :=
  if bytes.length = B ∧ B = 8 * A then some ((List.range A).map fun k => leU64 (bytes.drop (8 * k))) else none
def vecOfList {α : Type} (l : List α) (n : Nat) : Option (Vector α n) := if h : l.length = n then some ⟨l.toArray, by simpa using h⟩ else none

/-- `cryptoutil::read_u32v_le(dst, input)` for a `[u32; n]` destination: `assert!(dst.len() * 4 == input.len())`, little-endian words -/
def read_u32v_le_vec (n : Nat) (input : Bytes) : Option (Vector UInt32 n) :=
  if n * 4 = input.length then some (Vector.ofFn fun (i : Fin n) => leU32 (input.drop (4 * i.val))) else none
/-- `cryptoutil::read_u32_le` / `write_u32_le`: `<&[u8; 4]>::try_from(..).unwrap()` -/
def read_u32_le (b : Bytes) : Option UInt32 := if b.length = 4 then some (leU32 b) else none
def write_u32_le (dst : Bytes) (w : UInt32) : Option Bytes := if dst.length = 4 then some (u32le w) else none

/-- `cryptoutil::write_u32v_le(dst, input)`: `assert!(dst.len() == 4 * input.len())`, little-endian words -/
def write_u32v_le (dst : Bytes) (input : List UInt32) : Option Bytes :=
  if dst.length = 4 * input.length then some (input.flatMap u32le) else none
/-- `a << n`, `a >> n` on `u32` by a run-time amount -/
def shlW32 (a : UInt32) (n : Nat) : Option UInt32 := if n < 32 then some (a <<< UInt32.ofNat n) else none
def shrW32 (a : UInt32) (n : Nat) : Option UInt32 := if n < 32 then some (a >>> UInt32.ofNat n) else none

/-- `pub struct CtOption<T> { present: Choice, t: T }` (src/constant_time.rs; the declaration is checked by `CT.CtOption_struct_src`) -/
structure CtOption (α : Type) where
  present : Cx.Impl.CT.Choice
  t : α

-- translated functions
"""
FOOTER = "end Cx.Extracted.GlueRest\n"
