"""kernel specs: src/curve25519/scalar/scalar32.rs  (shape of lean/CxVerif/Impl/Scalar32.lean: 21-bit signed limbs on `Int`,
every checked `+ - *` a bind in the Option monad, in the evaluation order of the Rust expression).
`muladd` (sc_muladd) translates too (add MK(fn="muladd", params="(a b c : Scalar)", env a/b/c = B(32)) like the kernel below), but
its tie theorem does not pass the kernel's recursion limit with the present proof method (see Props/C17/KernelTieB32.lean), so it
is not registered."""
import ktx_misc
from ktx_misc import MK, TranslateError, V

TRANSLATE = ktx_misc.translate
F = "src/curve25519/scalar/scalar32.rs"
INT_OPS = {
    ("+", 64): "add64", ("-", 64): "sub64", ("*", 64): "mul64",
    ("<<", 64): "shl64 {0} {1}", (">>", 64): "shr {0} {1}",
    ("cast", "i64", "u8"): "u8of {0}", ("cast|", "u8"): "u8or {0} {1}",
}


def load(name, n):
    def tmpl(tr, vs):
        (a,) = vs
        if isinstance(a, tuple):
            _, base, lo, hi = a
            if hi is None or hi - lo != n:
                raise TranslateError(f"{name}: argument is not a {n}-byte slice")
            return f"{name} {base.p()} {lo}"
        if not (isinstance(a.ty, tuple) and a.ty[0] == "list" and isinstance(a.ty[2], int) and a.ty[2] >= n):
            raise TranslateError(f"{name}: argument type")
        return f"{name} {a.p()} 0"          # `load_3i(s)` on the whole array: `load_3u` reads s[0..3] (fe/load.rs)
    return tmpl


CALLS = {"load_3i": (load("load_3", 3), "i64", [None]), "load_4i": (load("load_4", 4), "i64", [None])}


def out_result(tr, st, ret, out, ind):
    if ret is None or ret[0] != "call" or ret[1] != ("path", "Scalar") or len(ret[2]) != 1 or ret[2][0][0] != "path":
        raise TranslateError("expected trailing `Scalar(<array>)`")
    arr = st.vars[ret[2][0][1]]
    if len(arr) != 32 or any(v.ty != "u8" for v in arr):
        raise TranslateError("`out` is not 32 bytes")
    return "pure #v[" + ", ".join(v.t for v in arr) + "]"


B = lambda n: ("list", "u8", n)
KERNELS = [
    MK(file=F, fn="reduce_from_wide_bytes", lean_name="reduce_from_wide_bytes_src", params="(s : Vector UInt8 64)", ret_type="Option Scalar",
       env={"s": ("s", B(64))}, mode="int", monadic=True, int_ops=INT_OPS, calls=CALLS, result=out_result, panic="none", inline_pure=True,
       attrs="set_option maxRecDepth 100000 in\n",
       doc="`Scalar::reduce_from_wide_bytes` (sc_reduce): 24 loads, the reduction by L on 21-bit limbs, the 32 output bytes"),
]
HEADER = "import CxVerif.Impl.Scalar32\nnamespace Cx.Extracted.KernelsScalar32\nopen Cx Cx.Impl.Scalar32\nopen Cx.Impl.Fe32 (ck64 add64 sub64 mul64 shl64 shr u8of u8or)\nset_option autoImplicit false\n"
FOOTER = "end Cx.Extracted.KernelsScalar32\n"
LEAN_FILE = "KernelsScalar32"
