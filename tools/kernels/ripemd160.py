"""word-kernel specs: src/hashing/ripemd160.rs  (`process_msg_block`: the `process_block!` macro with its 160 argument
   lines and the `round!` macro)  -> lean/CxVerif/Extracted/KernelsRipemd160.lean, tied to Impl/Ripemd160.lean (which
   interprets the extracted line tables) by lean/CxVerif/Props/C01/KernelTieRipemd160.lean"""
import ktx_words as kw
from ktx_words import WKernel, words, opaque, load_prim

TRANSLATE = kw.translate
F = "src/hashing/ripemd160.rs"
M = [f"m{i}" for i in range(16)]
ST = ["h0", "h1", "h2", "h3", "h4"]      # scalar parameters: a projection `h.b` on both sides sends the kernel into a doomed struct comparison first
RENDER = {"rotate_left": "rotate_left {x} {n}"}           # `u32::rotate_left` = Impl.Ripemd160.rotate_left (= rotl32)

KERNELS = [
    WKernel(file=F, fn="process_msg_block", lean_name="process_msg_block_src",
            params="(h0 h1 h2 h3 h4 : UInt32) (" + " ".join(M) + " : UInt32)", ret_type="Hash",
            args={"h": words(ST, "u32"), "data": opaque("data")},
            prims={"read_u32v_le": load_prim("data", M, "u32")}, render=RENDER,
            result=lambda ex: "⟨" + ", ".join(ex.wts(ex.var("h"), "u32")) + "⟩",
            doc="`process_msg_block(data, h)` with `h = [h0, …, h4]` on the sixteen little-endian words m0..m15 of `data` "
                "(`read_u32v_le(&mut w[0..16], data)`): the expansion of `process_block!(h, w[..], …160 lines…)` — 2×80 `round!` "
                "steps on `bb`/`bbb` and the `Combine results` block"),
]
HEADER = ("import CxVerif.Impl.Ripemd160\nnamespace Cx.Extracted.KernelsRipemd160\nopen Cx\nopen Cx.Spec.Ripemd160 (Hash)\n"
          "open Cx.Impl.Ripemd160 (rotate_left)\n")
FOOTER = "end Cx.Extracted.KernelsRipemd160\n"
LEAN_FILE = "KernelsRipemd160"
