"""kernel specs: the VECTORISED code paths written with `core::arch::x86_64` intrinsics — src/chacha/sse2.rs,
src/hashing/sha2/impl256/{sse41,avx}.rs, src/hashing/blake2/{avx,avx2}.rs.
Translator: tools/ktx_glue_simd.py (intrinsic semantics: lean/CxVerif/Util/Intrinsics.lean).
Tie theorems: lean/CxVerif/Props/C16/GlueTieSimd*.lean."""
import ktx_glue_simd
from ktx_glue_simd import SK, Ext, Program, TranslateError

TRANSLATE = ktx_glue_simd.translate
LEAN_FILE = "GlueSimd"

F_CC = "src/chacha/sse2.rs"

# ------------------------------------------------------------------------------------------------ (a) ChaCha SSE2
P_CC = Program()
NS_CC = "ChaChaSse2"
IMPL_STATE = r"impl\s*<\s*const\s+ROUNDS\s*:\s*usize\s*>\s*State\s*<\s*ROUNDS\s*>\s*\{"
IMPL_ALIGN = r"impl\s+Align128\s*\{"


def CC(fn, **kw):
    kw.setdefault("scope", IMPL_STATE)
    kw.setdefault("self_ty", "State")
    kw.setdefault("method_of", "State")
    return SK(prog=P_CC, file=F_CC, ns=NS_CC, fn=fn, **kw)


KERNELS = [
    SK(prog=P_CC, file=F_CC, ns=NS_CC, kind="struct", fn="State", lean_name="State"),
    SK(prog=P_CC, file=F_CC, ns=NS_CC, kind="struct", fn="Align128", lean_name="Align128", align=16),
    SK(prog=P_CC, file=F_CC, ns=NS_CC, kind="const", fn="CST16", lean_name="CST16", rust_paths=["Self::CST16"]),
    SK(prog=P_CC, file=F_CC, ns=NS_CC, kind="const", fn="CST32", lean_name="CST32", rust_paths=["Self::CST32"]),
    SK(prog=P_CC, file=F_CC, ns=NS_CC, fn="zero", scope=IMPL_ALIGN, self_ty="Align128", method_of="Align128", lean_name="Align128_zero_src",
       rust_paths=["Align128::zero"], doc="`Align128::zero`"),
    SK(prog=P_CC, file=F_CC, ns=NS_CC, fn="to_m128i", scope=IMPL_ALIGN, self_ty="Align128", method_of="Align128",
       lean_name="Align128_to_m128i_src", rust_paths=["Align128::to_m128i"], doc="`Align128::to_m128i`: aligned load of the four words"),
    SK(prog=P_CC, file=F_CC, ns=NS_CC, fn="from_m128i", scope=IMPL_ALIGN, self_ty="Align128", method_of="Align128",
       lean_name="Align128_from_m128i_src", rust_paths=["Align128::from_m128i"], doc="`Align128::from_m128i`: aligned store"),
    CC("constant32", doc="`State::constant32`"),
    CC("constant16", doc="`State::constant16`"),
    CC("key32", doc="`State::key32` (raw loads: a key shorter than 32 bytes is `UB`)"),
    CC("key16", doc="`State::key16`"),
    CC("nonce", doc="`State::nonce`"),
    CC("init", doc="`State::init`"),
    CC("rounds", generics={"ROUNDS": "usize"}, doc="`State::rounds`"),
    CC("set_counter", doc="`State::set_counter`"),
    CC("verif_set_counter64", doc="`State::verif_set_counter64` (verification hook)"),
    CC("increment", doc="`State::increment`"),
    CC("increment64", doc="`State::increment64`"),
    CC("add_back", doc="`State::add_back`"),
    CC("output_bytes", doc="`State::output_bytes` (raw stores: an output shorter than 64 bytes is `UB`)"),
    CC("output_ad_bytes", doc="`State::output_ad_bytes`"),
]

# ------------------------------------------------------------------------------------------------ (b) SHA-256 SSE4.1 / AVX
F_SSE, F_AVX, F_REF = "src/hashing/sha2/impl256/sse41.rs", "src/hashing/sha2/impl256/avx.rs", "src/hashing/sha2/impl256/reference.rs"
W8 = {("u32", 8): ("W8 UInt32", ["a", "b", "c", "d", "e", "f", "g", "h"])}
W8T = ("sarr", "W8 UInt32", ("a", "b", "c", "d", "e", "f", "g", "h"), "u32")
SHA_EXT = {
    # src/hashing/sha2/impl256/reference.rs, tied by Props/C01/KernelTieSha256.lean (`use super::reference::{e0, e1}`)
    "e0": Ext("Impl256.e0 {0}", ["u32"], "u32"),
    "e1": Ext("Impl256.e1 {0}", ["u32"], "u32"),
    # the GENERATED multi-block driver (tools/kernels/sha2_drivers.py -> Extracted/GlueSha2Drv.lean, tied by Props/C01/GlueTieSha2Drv.lean)
    "reference::digest_block": Ext("GlueSha2Drv.Impl256.reference_digest_block_src {0} {1}", [W8T, ("list", "u8", None)], "unit", mode="option", outs=[0]),
}
P_SSE = Program(externs=SHA_EXT, sarr=W8)
P_AVX = Program(externs={**SHA_EXT,
                         "sse41::digest_block": Ext("Sha256Sse41.digest_block_src {0} {1}", [W8T, ("list", "u8", None)], "unit", mode="except", outs=[0])},
                sarr=W8)


def sha_kernels(prog, file, ns, ways, batch):
    def K(fn, **kw):
        return SK(prog=prog, file=file, ns=ns, fn=fn, **kw)
    return [
        K("K32", kind="const", lean_name="K32", const_path=("reference::K32", F_REF, "K32", None)),
        K("gather", ptr_kinds={"block": "bytes"}, doc=f"`gather`: lane j = the (unaligned) i32 at `block + 64 j`"),
        K("sigma0"), K("sigma1"),
        K(f"message_schedule_{ways}ways", fuel=["32"], doc=f"`message_schedule_{ways}ways`"),
        K(f"compress_{ways}ways", fuel=["8"] * ways, doc=f"`compress_{ways}ways`"),
        K("digest_block", fuel=["block.len()"], doc=f"`digest_block`: batches of {batch} bytes, then the narrower engine on the rest"),
    ]


KERNELS += sha_kernels(P_SSE, F_SSE, "Sha256Sse41", 4, 256)
KERNELS += sha_kernels(P_AVX, F_AVX, "Sha256Avx", 8, 512)

# ------------------------------------------------------------------------------------------------ (c) BLAKE2 AVX / AVX2
F_BAVX, F_BAVX2, F_BCOMMON = "src/hashing/blake2/avx.rs", "src/hashing/blake2/avx2.rs", "src/hashing/blake2/common.rs"
B2_ENUMS = {"LastBlock": ("LastBlock", {"Yes": "LastBlock.Yes", "No": "LastBlock.No"})}
P_BAVX = Program(enums=B2_ENUMS)
P_BAVX2 = Program(enums=B2_ENUMS)


def BA(fn, **kw):
    return SK(prog=P_BAVX, file=F_BAVX, ns="Blake2Avx", fn=fn, **kw)


def BA2(fn, **kw):
    return SK(prog=P_BAVX2, file=F_BAVX2, ns="Blake2Avx2", fn=fn, **kw)


KERNELS += [
    SK(prog=P_BAVX, file=F_BCOMMON, ns="Blake2Avx", kind="const", fn="IV", module="b", lean_name="b_IV", rust_paths=["b::IV"]),
    SK(prog=P_BAVX, file=F_BCOMMON, ns="Blake2Avx", kind="const", fn="IV", module="s", lean_name="s_IV", rust_paths=["s::IV"]),
    BA("rotate16_epi64"), BA("rotate24_epi64"), BA("rotate32_epi64"), BA("rotate63_epi64"),
    BA("rotate7_epi32"), BA("rotate8_epi32"), BA("rotate12_epi32"), BA("rotate16_epi32"),
    BA("compress_b_avx", ptr_kinds={"h": "u64s", "block": "bytes", "iv": "u64s", "t": "u64s"},
       doc="`compress_b_avx`: BLAKE2b on eight `__m128i` half rows"),
    BA("compress_s_avx", ptr_kinds={"h": "u32s", "block": "bytes", "iv": "u32s"},
       doc="`compress_s_avx`: BLAKE2s on four `__m128i` rows"),
    BA("compress_b", doc="`avx::compress_b`"),
    BA("compress_s", doc="`avx::compress_s`"),
    SK(prog=P_BAVX2, file=F_BCOMMON, ns="Blake2Avx2", kind="const", fn="IV", module="b", lean_name="b_IV", rust_paths=["b::IV"]),
    BA2("rot32"), BA2("rot16"), BA2("rot24"), BA2("rot63"),
    BA2("compress_b_avx2", ptr_kinds={"h": "u64s", "m": "bytes", "iv": "u64s"},
        doc="`compress_b_avx2`: BLAKE2b on four `__m256i` rows"),
    BA2("compress_b", doc="`avx2::compress_b`"),
]

HEADER = """import CxVerif.Util.Bytes
import CxVerif.Util.GlueRt
import CxVerif.Util.Intrinsics
import CxVerif.Impl.Sha2
import CxVerif.Impl.Blake2
import CxVerif.Extracted.GlueSha2Drv
/-!
  Extracted.GlueSimd — GENERATED by tools/ktx_glue_simd.py (kernel specs tools/kernels/glue_simd.py): the vectorised code paths of
  src/chacha/sse2.rs, src/hashing/sha2/impl256/{sse41,avx}.rs, src/hashing/blake2/{avx,avx2}.rs, translated statement by statement from the CURRENT Rust source into the intrinsic
  definitions of Util/Intrinsics.lean.  Tie theorems: CxVerif/Props/C16/GlueTieSimd*.lean.
-/
namespace Cx.Extracted.GlueSimd
open Cx Cx.Intrinsics Cx.Impl.Sha2
open Cx.Impl.Blake2 (LastBlock)
open Cx.Spec.Sha2 (W8)
set_option autoImplicit false
set_option linter.unusedVariables false
"""
FOOTER = "end Cx.Extracted.GlueSimd\n"
