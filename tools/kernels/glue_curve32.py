"""glue specs (tools/ktx_glue_curve.py, unchanged): the CURVE LAYER once more, for the `force-32bits` build — the SAME backend-generic
source files as tools/kernels/glue_curve.py, translated under the cfg table of that build, above the fe32 / scalar32 kernels
     src/curve25519/ge.rs      every representation and formula, select, scalarmult_base, double_scalarmult_vartime
     src/ed25519.rs            keypair / signature / verify / exchange and their helpers
     src/curve25519/mod.rs     curve25519, curve25519_base (clamping + ladder);  src/x25519.rs  dh, base
     src/curve25519/fe/mod.rs  invert, pow25523 (+ which backend module `Fe` comes from: `fe_backend_cfg_src`)
     src/curve25519/scalar/mod.rs   slide (+ which backend module `Scalar` comes from: `scalar_backend_cfg_src`)
   -> lean/CxVerif/Extracted/GlueCurve32.lean; tie theorems: lean/CxVerif/Props/C17/GlueTieCurve32.lean

What differs from the 64-bit spec — nothing in the translator, only this table:
  cfg        `TRANSLATE` runs tools/ktx_glue_curve.translate with the cfg table of tools/ktx_glue_guard.py extended by
             `feature = "force-32bits"` ON (the feature must be declared in Cargo.toml).  Under that table the `#[cfg]`-attributed
             `mod …;` / `pub use …::*;` items of fe/mod.rs and scalar/mod.rs are evaluated (kind "backend"): exactly `fe32` (+ its
             helper `load`) resp. `scalar32` must survive, and the survivor is emitted as a string constant which the tie pins.
  types      `Fe` = `Impl.Fe32.Fe` (declaration checked: `pub struct Fe(pub(crate) [i32; 10])`), `Scalar` = `Impl.Scalar32.Scalar`
             (`pub struct Scalar([u8; 32])`); both are opaque to this layer (no limb access in the translated files).
  callees    the `Impl.Fe32` / `Impl.Scalar32` model functions (limb kernels and compositions tied by Props/C17/KernelTieB32.lean and
             Props/C20/GlueTieRest.lean), `Impl.Ge32` / `Impl.X25519_32` / `Impl.Ed25519_32` for the functions of this layer (each
             tied to its own translation), `Impl.Ed25519` for the six functions of ed25519.rs that mention no `Fe` / `Scalar` / `Ge`
             (the 32-bit models reuse them).  scalar32's API follows the Rust: `bits` / `nibbles` return the `[i8; N]` as `List Int`,
             `reduce_from_wide_bytes` is ref10 `sc_reduce` on i64 limbs behind the `[u8; 64]` conversion (`Option (Option Scalar)`,
             flattened here), `Fe::from_bytes` of fe32 is a checked computation.

Mutation test (scratch copy of /repo via CX_REPO, 2026-09-28; each run regenerates Extracted/ and rebuilds BOTH ties,
Props/C15/GlueTieCurve and Props/C17/GlueTieCurve32, 33-47 s per mutation): every one of
  sub_cached using `y_plus_x`; `double_p1p1` without the 2*zz; `select` sign from bit 6; `scalarmult_base` without `es[63] += carry`;
  `double_scalarmult_vartime` starting at 254; `verify` all-zero test `(d & 0x7f) == 0`; ladder bit index `pos & 3`; nonce hashing the
  message first; `invert` ending with `* z9`; `slide` window bound 6
changed BOTH generated files and broke BOTH ties; comments / whitespace / blank lines in ge.rs, ed25519.rs, curve25519/mod.rs, fe/mod.rs,
scalar/mod.rs changed neither file and broke nothing; removing `feature = "force-32bits"` from the cfg of `pub use scalar32::*;` makes
`scalar_backend_cfg_src` fail to extract and breaks the 32-bit tie only.
"""
import re

import ktx_glue_curve as G
import ktx_glue_guard as GUARD
from ktx_glue_curve import Fn, Ext, StructSpec, Program
from kernel_translate import TranslateError, strip_comments, lex

LEAN_FILE = "GlueCurve32"
FEATURE = "force-32bits"

F_GE = "src/curve25519/ge.rs"
F_FE = "src/curve25519/fe/mod.rs"
F_FE32 = "src/curve25519/fe/fe32/mod.rs"
F_SC = "src/curve25519/scalar/mod.rs"
F_SC32 = "src/curve25519/scalar/scalar32.rs"
F_CURVE = "src/curve25519/mod.rs"
F_X = "src/x25519.rs"
F_ED = "src/ed25519.rs"

STRUCTS = {
    "Fe": StructSpec(F_FE32, "Fe", opaque=True),                       # declaration checked by `check_newtypes`
    "Scalar": StructSpec(F_SC32, "Scalar32.Scalar", opaque=True),      # declaration checked by `check_newtypes`
    "Ge": StructSpec(F_GE, "Ge", [("x", "x", "Fe"), ("y", "y", "Fe"), ("z", "z", "Fe"), ("t", "t", "Fe")]),
    "GePartial": StructSpec(F_GE, "GePartial", [("x", "x", "Fe"), ("y", "y", "Fe"), ("z", "z", "Fe")]),
    "GeP1P1": StructSpec(F_GE, "GeP1P1", [("x", "x", "Fe"), ("y", "y", "Fe"), ("z", "z", "Fe"), ("t", "t", "Fe")]),
    "GePrecomp": StructSpec(F_GE, "GePrecomp", [("y_plus_x", "y_plus_x", "Fe"), ("y_minus_x", "y_minus_x", "Fe"), ("xy2d", "xy2d", "Fe")]),
    "GeAffine": StructSpec(F_GE, "GeAffine", [("x", "x", "Fe"), ("y", "y", "Fe")]),
    "GeCached": StructSpec(F_GE, "GeCached", [("y_plus_x", "y_plus_x", "Fe"), ("y_minus_x", "y_minus_x", "Fe"), ("z", "z", "Fe"), ("t2d", "t2d", "Fe")]),
    "Sha512": StructSpec("src/hashing/sha2/mod.rs", "Sha2.Ctx512", opaque=True),
    "SecretKey": StructSpec(F_X, None, newtype="[u8; 32]"),
    "PublicKey": StructSpec(F_X, None, newtype="[u8; 32]"),
    "SharedSecret": StructSpec(F_X, None, newtype="[u8; 32]"),
}
# the one-field tuple structs behind the two opaque types: (file, name) -> element type, length
NEWTYPES = {(F_FE32, "Fe"): ("i32", 10), (F_SC32, "Scalar"): ("u8", 32)}

B32, B64 = "[u8; 32]", "[u8; 64]"
EXT = {
    # ---- fe32: limb kernels (Props/C17/KernelTieB32.lean) and compositions (Props/C20/GlueTieRest.lean; invert / pow25523 also below)
    ("Fe", "square"): Ext("square {self}", [], "Fe", fails=True, recv="Fe"),
    ("Fe", "square_and_double"): Ext("square_and_double {self}", [], "Fe", fails=True, recv="Fe"),
    ("Fe", "square_repeatdly"): Ext("square_repeatdly {self} {0}", ["usize"], "Fe", fails=True, recv="Fe"),
    ("Fe", "mul_small"): Ext("mul_small {self} {g0}", [], "Fe", fails=True, recv="Fe"),
    ("Fe", "negate_mut"): Ext("negate_mut {self}", [], None, fails=True, outs=["self"], recv="Fe"),
    ("Fe", "invert"): Ext("invert {self}", [], "Fe", fails=True, recv="Fe"),
    ("Fe", "pow25523"): Ext("pow25523 {self}", [], "Fe", fails=True, recv="Fe"),
    ("Fe", "is_nonzero"): Ext("is_nonzero {self}", [], "bool", fails=True, recv="Fe"),
    ("Fe", "is_negative"): Ext("is_negative {self}", [], "bool", fails=True, recv="Fe"),
    ("Fe", "to_bytes"): Ext("Fe32.to_bytes {self}", [], B32, fails=True, recv="Fe"),
    ("Fe", "from_bytes"): Ext("Fe32.fromBytes {0}", [B32], "Fe", fails=True),
    ("Fe", "maybe_set"): Ext("Fe32.maybe_set {self} {0} {1}", ["Fe", "Choice"], None, outs=["self"], recv="Fe"),
    ("Fe", "maybe_swap_with"): Ext("maybe_swap_with {self} {0} {1}", ["Fe", "Choice"], None, outs=["self", 0], recv="Fe"),
    ("Fe", "ct_eq"): Ext("Fe32.ct_eq {self} {0}", ["Fe"], "Choice", fails=True, recv="Fe"),
    ("choice", "negate"): Ext("CT.Choice.negate {self}", [], "Choice", recv="Choice"),
    ("choice", "is_true"): Ext("CT.Choice.isTrue {self}", [], "bool", recv="Choice"),
    # ---- constant_time.rs (tied by Props/C18KernelTie.lean)
    ("u8", "ct_eq"): Ext("CT.u8_ct_eq {self} {0}", ["u8"], "Choice", recv="u8"),
    ("u8", "ct_nonzero"): Ext("CT.u8_ct_nonzero {self}", [], "Choice", recv="u8"),
    ("u64", "ct_zero"): Ext("CT.u64_ct_zero {self}", [], "Choice", recv="u64"),
    ("bytes", "ct_eq"): Ext("CT.array_u8_ct_eq {self} {0}", [B32], "Choice", recv=B32),
    ("bytes", "ct_ne"): Ext("CT.array_u8_ct_ne {self} {0}", [B32], "Choice", recv=B32),
    # ---- ge.rs (each tied below; `Ge…` = the structures and functions of Impl.Ge32)
    ("GeAffine", "to_bytes"): Ext("GeAffine.to_bytes {self}", [], B32, fails=True, recv="GeAffine"),
    ("GeAffine", "from_bytes"): Ext("GeAffine.from_bytes {0}", [B32], "Option<GeAffine>", fails=True),
    ("GeP1P1", "to_partial"): Ext("GeP1P1.to_partial {self}", [], "GePartial", fails=True, recv="GeP1P1"),
    ("GeP1P1", "to_full"): Ext("GeP1P1.to_full {self}", [], "Ge", fails=True, recv="GeP1P1"),
    ("GePartial", "to_bytes"): Ext("GePartial.to_bytes {self}", [], B32, fails=True, recv="GePartial"),
    ("GePartial", "double_p1p1"): Ext("GePartial.double_p1p1 {self}", [], "GeP1P1", fails=True, recv="GePartial"),
    ("GePartial", "double"): Ext("GePartial.double {self}", [], "GePartial", fails=True, recv="GePartial"),
    ("GePartial", "double_full"): Ext("GePartial.double_full {self}", [], "Ge", fails=True, recv="GePartial"),
    ("GePartial", "double_scalarmult_vartime"): Ext("GePartial.double_scalarmult_vartime {0} {1} {2}", ["Scalar", "Ge", "Scalar"],
                                                    "GePartial", fails=True),
    ("Ge", "from_affine"): Ext("Ge.from_affine {0}", ["GeAffine"], "Ge", fails=True),
    ("Ge", "to_affine"): Ext("Ge.to_affine {self}", [], "GeAffine", fails=True, recv="Ge"),
    ("Ge", "from_bytes"): Ext("Ge.from_bytes {0}", [B32], "Option<Ge>", fails=True),
    ("Ge", "negate"): Ext("Ge.negate {self}", [], "Ge", fails=True, recv="Ge"),
    ("Ge", "to_partial"): Ext("Ge.to_partial {self}", [], "GePartial", recv="Ge"),
    ("Ge", "to_cached"): Ext("Ge.to_cached {self}", [], "GeCached", fails=True, recv="Ge"),
    ("Ge", "double_p1p1"): Ext("Ge.double_p1p1 {self}", [], "GeP1P1", fails=True, recv="Ge"),
    ("Ge", "double"): Ext("Ge.double {self}", [], "Ge", fails=True, recv="Ge"),
    ("Ge", "double_partial"): Ext("Ge.double_partial {self}", [], "GePartial", fails=True, recv="Ge"),
    ("Ge", "to_bytes"): Ext("Ge.to_bytes {self}", [], B32, fails=True, recv="Ge"),
    ("Ge", "scalarmult_base"): Ext("Ge.scalarmult_base {0}", ["Scalar"], "Ge", fails=True),
    ("GePrecomp", "maybe_set"): Ext("GePrecomp.maybe_set {self} {0} {1}", ["GePrecomp", "Choice"], None, outs=["self"], recv="GePrecomp"),
    ("GePrecomp", "select"): Ext("GePrecomp.select {0} {1}", ["usize", "i8"], "GePrecomp", fails=True),
    # ---- scalar32 (from_bytes / to_bytes / from_bytes_canonical / bits / nibbles / reduce / muladd tied by Props/C20/GlueTieRest.lean
    #      and Props/C17/KernelTieB32.lean; `slide` of scalar/mod.rs tied below)
    ("Scalar", "bits"): Ext("Scalar32.bits {self}", [], "[i8; 256]", recv="Scalar"),
    ("Scalar", "nibbles"): Ext("Scalar32.nibbles {self}", [], "[i8; 64]", recv="Scalar"),
    ("Scalar", "slide"): Ext("Option.map Vector.toList (Ge32.slide {self})", [], "[i8; 256]", fails=True, recv="Scalar"),
    ("Scalar", "from_bytes"): Ext("Scalar32.fromBytes {0}", [B32], "Scalar", fails=True),
    ("Scalar", "from_bytes_canonical"): Ext("Scalar32.fromBytesCanonical {0}", [B32], "Option<Scalar>", fails=True),
    ("Scalar", "reduce_from_wide_bytes"): Ext("(Scalar32.reduceFromWideBytes {0}).bind id", [B64], "Scalar", fails=True),
    ("Scalar", "to_bytes"): Ext("Scalar32.to_bytes {self}", [], B32, recv="Scalar"),
    (None, "muladd"): Ext("Scalar32.muladd {0} {1} {2}", ["Scalar", "Scalar", "Scalar"], "Scalar", fails=True),
    # ---- SHA-512 context (src/hashing/sha2: model Impl/Sha2.lean, glue tied by Props/C01/GlueTieMd.lean)
    ("Sha512", "new"): Ext("Sha2.Ctx512.new Sha2.Sha512", [], "Sha512"),
    ("Sha512", "update"): Ext("Sha2.Ctx512.update {self} {0}", ["&[u8]"], "Sha512", fails=True, recv="Sha512"),
    ("Sha512", "finalize"): Ext("Sha2.Ctx512.finalize Sha2.Sha512 {self}", [], B64, fails=True, recv="Sha512"),
    # ---- ed25519.rs (each tied below).  The functions that mention neither Fe, Scalar nor Ge are those of Impl.Ed25519 (reused by
    #      Impl.Ed25519_32), the others those of Impl.Ed25519_32
    (None, "clamp_scalar"): Ext("Ed25519.clamp_scalar {0}", ["&mut [u8]"], None, fails=True, outs=[0]),
    (None, "extended_secret"): Ext("Ed25519.extended_secret {0}", [B32], B64, fails=True),
    (None, "keypair_private"): Ext("Ed25519.keypair_private {0}", [B64], B32, fails=True),
    (None, "keypair_public"): Ext("Ed25519.keypair_public {0}", [B64], B32, fails=True),
    (None, "extended_scalar_bytes"): Ext("Ed25519.extended_scalar_bytes {0}", [B64], B32, fails=True),
    (None, "extended_scalar"): Ext("Ed25519_32.extended_scalar {0}", [B64], "Scalar", fails=True),
    (None, "extended_to_public"): Ext("Ed25519_32.extended_to_public {0}", [B64], B32, fails=True),
    (None, "keypair"): Ext("Ed25519_32.keypair {0}", [B32], "([u8; 64], [u8; 32])", fails=True),
    (None, "signature_nonce"): Ext("Ed25519_32.signature_nonce {0} {1}", [B64, "&[u8]"], "Scalar", fails=True),
    (None, "signature"): Ext("Ed25519_32.signature {0} {1}", ["&[u8]", B64], B64, fails=True),
    (None, "signature_extended"): Ext("Ed25519_32.signature_extended {0} {1}", ["&[u8]", B64], B64, fails=True),
    (None, "verify"): Ext("Ed25519_32.verify {0} {1} {2}", ["&[u8]", B32, B64], "bool", fails=True),
    (None, "exchange"): Ext("Ed25519_32.exchange {0} {1}", [B32, B32], B32, fails=True),
    (None, "edwards_to_montgomery_x"): Ext("Ed25519_32.edwards_to_montgomery_x {0}", ["Fe"], "Fe", fails=True),
    # ---- curve25519/mod.rs, x25519.rs (tied below; `curve25519M` = the model with its length proofs supplied, see HEADER)
    (None, "curve25519"): Ext("curve25519M {0} {1}", [B32, B32], B32, fails=True),
    (None, "curve25519_base"): Ext("curve25519_baseM {0}", [B32], B32, fails=True),
    (None, "dh"): Ext("curve25519M {0} {1}", [B32, B32], B32, fails=True),
    (None, "base"): Ext("curve25519_baseM {0}", [B32], B32, fails=True),
}
# operator impls, keyed (op, left type, right type)
OPS = {
    ("+", "Fe", "Fe"): Ext("add {0} {1}", ["Fe", "Fe"], "Fe", fails=True),
    ("-", "Fe", "Fe"): Ext("sub {0} {1}", ["Fe", "Fe"], "Fe", fails=True),
    ("*", "Fe", "Fe"): Ext("mul {0} {1}", ["Fe", "Fe"], "Fe", fails=True),
    ("neg", "Fe", None): Ext("neg {0}", ["Fe"], "Fe", fails=True),
    ("+", "Ge", "GeCached"): Ext("Ge.add_cached {0} {1}", ["Ge", "GeCached"], "GeP1P1", fails=True),
    ("+", "Ge", "GePrecomp"): Ext("Ge.add_precomp {0} {1}", ["Ge", "GePrecomp"], "GeP1P1", fails=True),
    ("-", "Ge", "GeCached"): Ext("Ge.sub_cached {0} {1}", ["Ge", "GeCached"], "GeP1P1", fails=True),
    ("-", "Ge", "GePrecomp"): Ext("Ge.sub_precomp {0} {1}", ["Ge", "GePrecomp"], "GeP1P1", fails=True),
    ("^", "choice", "choice"): Ext("CT.Choice.xor {0} {1}", ["Choice", "Choice"], "Choice"),
}
CONSTS = {
    "Fe::ZERO": ("Fe.ZERO", "Fe"), "Fe::ONE": ("Fe.ONE", "Fe"), "Fe::D": ("Fe.D", "Fe"), "Fe::D2": ("Fe.D2", "Fe"),
    "Fe::SQRTM1": ("Fe.SQRTM1", "Fe"),
    "Ge::ZERO": ("Ge.ZERO", "Ge"), "GePartial::ZERO": ("GePartial.ZERO", "GePartial"), "GePrecomp::ZERO": ("GePrecomp.ZERO", "GePrecomp"),
    "BASE": ("X25519.BASE", "[u8; 32]"),
    "precomp::GE_BASE": ("GE_BASE", "[[GePrecomp; 8]; 32]"), "precomp::BI": ("BI", "[GePrecomp; 8]"),
}
PROG = Program(STRUCTS, EXT, OPS, CONSTS)


# ------------------------------------------------------------------------------------------------ the cfg table of the 32-bit build
class Force32:
    """context manager: the guard's cfg table with `feature = "force-32bits"` switched ON (everything else as in the default table:
    x86_64, sse2, `--cfg cryptoxide_verif`, default cargo features, not test).  tools/ktx_glue_guard.eval_cfg looks the feature set
    up through the module attribute `cargo_default_features`, which is wrapped for the duration of one translation."""

    def __enter__(self):
        self.saved = saved = GUARD.cargo_default_features

        def with_feature(repo=None):
            on, declared = saved(repo)
            if FEATURE not in declared:
                raise TranslateError(f"feature `{FEATURE}` is not declared in Cargo.toml")
            return set(on) | {FEATURE}, declared
        GUARD.cargo_default_features = with_feature
        return self

    def __exit__(self, *exc):
        GUARD.cargo_default_features = self.saved
        return False


class Backend:
    """kind "backend": which backend module a generic file selects.  Every item `mod NAME;` / `pub use NAME::*;` at the top level of
    `file` is collected with its `#[cfg]` attributes evaluated under the table in force; the live `mod`s must be exactly `expect`
    (+ the `also` helpers), the live glob re-exports exactly `expect`, and no other `mod` / `use` item may define the generic name.
    Emitted: `def <lean_name> : String := "<expect>"` (the survivor as found, not the expectation)."""

    def __init__(self, file, expect, also, lean_name, doc):
        self.file = file; self.expect = expect; self.also = set(also); self.lean_name = lean_name; self.doc = doc
        self.params = ""; self.kind = "backend"

    def translate(self):
        text = strip_comments(G.read_src(self.file))
        masked = GUARD.mask_literals(text)
        mods, globs = [], []
        for m in re.finditer(r"\b(?:pub(?:\s*\([^)]*\))?\s+)?(mod|use)\s+([A-Za-z_][\w:]*(?:::\*)?)\s*;", masked):
            pre = masked[:m.start()]
            if pre.count("{") != pre.count("}"):
                continue                                   # inside another item (`mod tests { use super::*; }`)
            live = GUARD.attrs_live(GUARD.attrs_before(text, m.start()), f"{m.group(1)} {m.group(2)}")
            if not live:
                continue
            if m.group(1) == "mod":
                mods.append(m.group(2))
            elif m.group(2).endswith("::*"):
                globs.append(m.group(2)[:-3])
            else:
                raise TranslateError(f"{self.file}: unexpected import `use {m.group(2)}`")
        backends = [x for x in mods if x not in self.also]
        if len(backends) != 1 or len(globs) != 1 or backends != globs:
            raise TranslateError(f"{self.file}: live backend modules {mods}, live glob re-exports {globs}: not exactly one backend")
        return (f"/-- {self.doc} — GENERATED from the `#[cfg]`-attributed `mod` / `pub use` items of {self.file}, evaluated with "
                f"`feature = \"{FEATURE}\"` on -/\n"
                f"def {self.lean_name} : String := \"{backends[0]}\"\n")


_CHECKED = {}


def check_newtypes():
    """the two opaque types are what the models say: `Fe([i32; 10])`, `Scalar([u8; 32])` (checked once per source state)"""
    for (file, name), (elem, n) in NEWTYPES.items():
        src = G.read_src(file)
        if _CHECKED.get((file, name)) == src:
            continue
        decl = G.find_struct_fields(src, name)
        ok = len(decl) == 1 and decl[0][0] == "0" and isinstance(decl[0][1], tuple) and decl[0][1][0] == "arr" \
            and decl[0][1][1] == elem and decl[0][1][2] is not None and decl[0][1][2][0] == "lit" and decl[0][1][2][1] == n
        if not ok:
            raise TranslateError(f"struct {name} of {file} is no longer `{name}([{elem}; {n}])`")
        _CHECKED[(file, name)] = src


def TRANSLATE(spec):
    with Force32():
        if getattr(spec, "kind", None) == "backend":
            return spec.translate()
        check_newtypes()
        return G.translate(spec)


def K(file, scope, fn, owner=None, **kw):
    return Fn(PROG, file, fn, scope=scope, owner=owner, **kw)


def OP(file, scope, fn, name, key, doc):
    return Fn(PROG, file, fn, scope=scope, owner="Ge", name=name, ext_key=key, doc=doc)


def E(fn, hints=None):
    k = Fn(PROG, F_ED, fn, name=f"Ed25519.{fn}_src", doc=f"`ed25519::{fn}`")
    k.hints = hints or {}
    return k


I_AFF, I_P1P1, I_PART, I_GE, I_PRE = r"impl GeAffine \{", r"impl GeP1P1 \{", r"impl GePartial \{", r"impl Ge \{", r"impl GePrecomp \{"

KERNELS = [
    # ---------------------------------------------------------------- which backend the generic names denote in this build
    Backend(F_FE, "fe32", ["load"], "fe_backend_cfg_src", "the module `Fe` (and `precomp`) are re-exported from in src/curve25519/fe/mod.rs"),
    Backend(F_SC, "scalar32", [], "scalar_backend_cfg_src", "the module `Scalar` and `muladd` are re-exported from in src/curve25519/scalar/mod.rs"),
    # ---------------------------------------------------------------- (c) ge.rs: representations and formulas
    K(F_GE, I_AFF, "to_bytes", "GeAffine", doc="`GeAffine::to_bytes`"),
    K(F_GE, I_AFF, "from_bytes", "GeAffine", doc="`GeAffine::from_bytes` (RFC 8032 5.1.3 decompression)"),
    K(F_GE, I_P1P1, "to_partial", "GeP1P1", doc="`GeP1P1::to_partial`"),
    K(F_GE, I_P1P1, "to_full", "GeP1P1", doc="`GeP1P1::to_full`"),
    K(F_GE, I_PART, "ZERO", "GePartial", kind="const", name="GePartial.ZERO_src", doc="`GePartial::ZERO`"),
    K(F_GE, I_PART, "to_bytes", "GePartial", doc="`GePartial::to_bytes`"),
    K(F_GE, I_PART, "double_p1p1", "GePartial", doc="`GePartial::double_p1p1`"),
    K(F_GE, I_PART, "double", "GePartial", doc="`GePartial::double`"),
    K(F_GE, I_PART, "double_full", "GePartial", doc="`GePartial::double_full`"),
    K(F_GE, I_GE, "ZERO", "Ge", kind="const", name="Ge.ZERO_src", doc="`Ge::ZERO`"),
    K(F_GE, I_GE, "from_affine", "Ge", doc="`Ge::from_affine`"),
    K(F_GE, I_GE, "to_affine", "Ge", doc="`Ge::to_affine`"),
    K(F_GE, I_GE, "from_bytes", "Ge", doc="`Ge::from_bytes`"),
    K(F_GE, I_GE, "negate", "Ge", doc="`Ge::negate`"),
    K(F_GE, I_GE, "to_partial", "Ge", doc="`Ge::to_partial`"),
    K(F_GE, I_GE, "to_cached", "Ge", doc="`Ge::to_cached`"),
    K(F_GE, I_GE, "double_p1p1", "Ge", doc="`Ge::double_p1p1`"),
    K(F_GE, I_GE, "double", "Ge", doc="`Ge::double`"),
    K(F_GE, I_GE, "double_partial", "Ge", doc="`Ge::double_partial`"),
    K(F_GE, I_GE, "to_bytes", "Ge", doc="`Ge::to_bytes`"),
    OP(F_GE, r"impl Add<&GeCached> for &Ge", "add", "Ge.add_cached_src", ("+", "Ge", "GeCached"), "`impl Add<&GeCached> for &Ge`"),
    OP(F_GE, r"impl Add<&GePrecomp> for &Ge", "add", "Ge.add_precomp_src", ("+", "Ge", "GePrecomp"), "`impl Add<&GePrecomp> for &Ge`"),
    OP(F_GE, r"impl Sub<&GeCached> for &Ge", "sub", "Ge.sub_cached_src", ("-", "Ge", "GeCached"), "`impl Sub<&GeCached> for &Ge`"),
    OP(F_GE, r"impl Sub<&GePrecomp> for &Ge", "sub", "Ge.sub_precomp_src", ("-", "Ge", "GePrecomp"), "`impl Sub<&GePrecomp> for &Ge`"),
    OP(F_GE, r"impl Sub<GeCached> for Ge", "sub", "Ge.sub_cached_val_src", ("-", "Ge", "GeCached"), "`impl Sub<GeCached> for Ge` (by value)"),
    OP(F_GE, r"impl Sub<GePrecomp> for Ge", "sub", "Ge.sub_precomp_val_src", ("-", "Ge", "GePrecomp"), "`impl Sub<GePrecomp> for Ge` (by value)"),
    K(F_GE, I_PRE, "ZERO", "GePrecomp", kind="const", name="GePrecomp.ZERO_src", doc="`GePrecomp::ZERO`"),
    K(F_GE, I_PRE, "maybe_set", "GePrecomp", doc="`GePrecomp::maybe_set`"),
    K(F_GE, I_PRE, "select", "GePrecomp", doc="`GePrecomp::select` (masked table lookup)"),
    # ---------------------------------------------------------------- (c) ge.rs: the loops
    K(F_GE, I_GE, "scalarmult_base", "Ge", doc="`Ge::scalarmult_base`: signed radix-16 recoding (carry loop), the two comb loops, four doublings"),
    K(F_GE, I_PART, "double_scalarmult_vartime", "GePartial", fuel=["i + 1", "i + 1"],
      doc="`GePartial::double_scalarmult_vartime`: slide recodings, odd multiples table, top-index search loop, window loop"),
    # ---------------------------------------------------------------- (e) ed25519.rs
    E("clamp_scalar"), E("extended_secret"), E("keypair_private"), E("keypair_public"), E("extended_scalar"),
    E("extended_scalar_bytes"), E("extended_to_public"), E("keypair"), E("signature_nonce"),
    E("signature", hints={"signature": "[u8; 64]"}), E("signature_extended", hints={"signature": "[u8; 64]"}),
    E("verify", hints={"d": "u8"}), E("exchange"), E("edwards_to_montgomery_x"),
    # ---------------------------------------------------------------- (a) Fe: the backend-generic compositions of fe/mod.rs
    K(F_FE, r"impl Fe \{", "pow25523", "Fe", doc="`Fe::pow25523`"),
    K(F_FE, r"impl Fe \{", "invert", "Fe", doc="`Fe::invert`"),
    # ---------------------------------------------------------------- (b) Scalar: the backend-generic recoding of scalar/mod.rs
    K(F_SC, r"impl Scalar \{", "slide", "Scalar", doc="`Scalar::slide`: the signed sliding-window recoding (three nested loops) on `scalar32::bits`"),
    # ---------------------------------------------------------------- (d) curve25519/mod.rs, x25519.rs
    Fn(PROG, F_CURVE, "curve25519", name="curve25519_src", doc="`curve25519`: clamping, the 255-step ladder with masked swaps, the final inversion"),
    Fn(PROG, F_CURVE, "curve25519_base", name="curve25519_base_src", doc="`curve25519_base` (the source repeats the ladder)"),
    Fn(PROG, F_X, "dh", name="X25519.dh_src", doc="`x25519::dh`"),
    Fn(PROG, F_X, "base", name="X25519.base_src", doc="`x25519::base`"),
]

HEADER = """import CxVerif.Util.GlueDebug
import CxVerif.Impl.Ge32
import CxVerif.Impl.Ed25519_32
import CxVerif.Impl.X25519_32
/-!
  Extracted.GlueCurve32 — the curve layer (ge.rs, ed25519.rs, curve25519/mod.rs, x25519.rs, the generic Fe / Scalar compositions of
  fe/mod.rs and scalar/mod.rs) as the source says it NOW, for the build with `feature = "force-32bits"` (`Fe = fe32::Fe`,
  `Scalar = scalar32::Scalar`): tools/ktx_glue_curve.py with the specs of tools/kernels/glue_curve32.py.  `Option`: `none` = a Rust
  panic, exactly where Rust panics.  Callees are the model functions of Impl.Fe32 / Impl.Scalar32 (tied by Props/C17/KernelTieB32.lean,
  Props/C20/GlueTieRest.lean) and of Impl.Ge32 / Impl.X25519_32 / Impl.Ed25519_32 (each tied to its own translation).
  Tie theorems: Props/C17/GlueTieCurve32.lean.
-/
set_option linter.unusedVariables false
namespace Cx.Extracted.GlueCurve32
open Cx Cx.Impl Cx.Impl.Fe32 Cx.Impl.Ge32
open Cx.Impl.Scalar64 (ckI8 shlI8)

/-- `x as u8` for an `i8` value (hand-written part of the contract) -/
def i8AsU8 (x : Int) : UInt8 := UInt8.ofNat (x % 256).toNat
/-- `x as i8` for a `u8` value -/
def u8AsI8 (x : UInt8) : Int := if x.toNat < 128 then (x.toNat : Int) else (x.toNat : Int) - 256
/-- `a & b` on `i8`: the bitwise and of the two's complement bytes -/
def i8And (a b : Int) : Int := u8AsI8 (i8AsU8 a &&& i8AsU8 b)
/-- the model of `curve25519(n: &[u8; 32], p: &[u8; 32])` with the length facts of its array types supplied -/
def curve25519M (n p : Bytes) : Option Bytes :=
  if h : n.length = 32 ∧ p.length = 32 then X25519_32.curve25519 n p h.1 h.2 else none
/-- the model of `curve25519_base(n: &[u8; 32])` -/
def curve25519_baseM (n : Bytes) : Option Bytes :=
  if h : n.length = 32 then X25519_32.curve25519_base n h else none
"""
FOOTER = "end Cx.Extracted.GlueCurve32\n"
