#!/usr/bin/env python3
"""writes MANIFEST.json from tools/manifest_data.py (single place to edit claims)"""
import json
import os
import sys
sys.path.insert(0, os.path.dirname(os.path.abspath(__file__)))
from manifest_data import CLAIMS, NOT_YET, HOOK_COMMITS

V = os.path.dirname(os.path.dirname(os.path.abspath(__file__)))
checks = []
for pid, c in sorted(CLAIMS.items()):
    checks.append({
        "property_id": pid,
        "quick_cmd": f"python3 tools/run_check.py {pid} --tier quick",
        "thorough_cmd": f"python3 tools/run_check.py {pid} --tier thorough",
        "evidence_file": f"/verif/evidence/{pid}.json",
        "replay_cmd_template": f"python3 tools/run_check.py {pid} --replay {{path}}",
        "engine": "lean4-proof+correspondence",
        "level_claimed": {"category": "proof", "text": c["text"], "design_ref": c.get("design_ref", "DESIGN.md section 6")},
        "level_note": c["note"],
        "technique": c["technique"],
    })
m = {
    "version": 1,
    "setup_cmd": "python3 tools/setup.py",
    "hooks": {
        "guard": "cryptoxide_verif",
        "enable": "RUSTFLAGS='--cfg cryptoxide_verif' (set by tools/cxlib.py for every harness build)",
        "baseline_off_cmd": "cd /repo && cargo test --workspace --no-fail-fast --offline",
        "source_commits": HOOK_COMMITS,
        "add_only": True,
    },
    "engines": [{
        "name": "lean4-proof+correspondence", "path": "tools/run_check.py",
        "serves_properties": sorted(CLAIMS),
        "kind_free_text": "Lean 4 theorems about code-shaped models (lean/CxVerif), tables re-extracted from /repo/src on every run, "
                          "differential correspondence harness (harness/, lean/Main.lean) between the real crate and the models",
    }],
    "checks": checks,
    "notes": "See DESIGN.md. Known findings in known_findings.json.",
    "not_applicable": [{"property_id": p, "reason": r} for p, r in sorted(NOT_YET.items())],
}
json.dump(m, open(os.path.join(V, "MANIFEST.json"), "w"), indent=1)
print("wrote MANIFEST.json with", len(checks), "checks")
