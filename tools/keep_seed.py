#!/usr/bin/env python3
"""keep_seed.py <seed_out_dir> <N> <name> <props> "<what I ran / result>" — store a confirmed seeded change under /verif/seeded/<name>/"""
import json, os, shutil, sys
src, n, name, props, ran = sys.argv[1], sys.argv[2], sys.argv[3], sys.argv[4], sys.argv[5]
dst = os.path.join("/verif/seeded", name)
os.makedirs(dst, exist_ok=True)
shutil.copy(os.path.join(src, f"mut{n}.diff"), os.path.join(dst, "patch.diff"))
shutil.copy(os.path.join(src, f"demo{n}.rs"), os.path.join(dst, "demo.rs"))
meta = json.load(open(os.path.join(src, f"meta{n}.json")))
meta["detected_by"] = props.split(",")
meta["what_i_ran"] = ran
meta["demo_how"] = "copy demo.rs to tests/demo.rs of a worktree with patch.diff applied: `cargo test --offline --test demo` fails; without the patch it passes; the 63 existing tests pass either way"
json.dump(meta, open(os.path.join(dst, "meta.json"), "w"), indent=1)
print("kept", dst)
