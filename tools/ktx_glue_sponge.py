#!/usr/bin/env python3
"""ktx_glue_sponge — source-level translator for the STATEFUL GLUE of the sponge (src/hashing/sha3.rs `Engine`, the
`sha3_impl!` contexts) and of the BLAKE2 contexts (src/hashing/blake2/mod.rs `EngineB/EngineS`, blake2b.rs / blake2s.rs
`Context<BITS>`, `ContextDyn`, `context_finalize!`): buffering, offsets, flags, length bookkeeping, data-dependent loops.

Used by tools/kernels/glue_sponge.py through `TRANSLATE = ktx_glue_sponge.translate` (kernel_translate.generate_all()).
On every run each registered Rust function is re-read from the CURRENT source and re-emitted as a Lean definition
`<fn>_src` in lean/CxVerif/Extracted/GlueSponge.lean; the theorems `…_src_eq_model` of
lean/CxVerif/Props/C02/GlueTieSponge.lean prove it equal to the hand model (Impl/Sha3.lean, Impl/Blake2.lean).

The translation (an imperative -> monadic translation, the same for every function; nothing is pattern-matched on
the particular functions):

  * every function becomes `def <name>_src <const generics> [self] <params> : Option <result>` written as ONE `do` block
    in the `Option` monad; `none` = the Rust code panics.  The result is the tuple (new `self` if `&mut self`, the new
    value of every `&mut` parameter in order, the returned value), `Unit` components dropped.
  * Rust variables keep their names; re-assignment is Lean `let` shadowing.  `self` is a value of the model's structure;
    `self.f = e` is `let self := { self with f := e }` (field paths are mapped by the spec: `self.t[0]` -> `t0`, the
    tuple-struct field `self.0` -> the value itself, `ContextDyn.buf` -> `ctx.buf`).
  * `usize` is `Nat`; CHECKED arithmetic exactly where an overflow-checked build checks it:
        a + b -> `<- usizechk (a + b)`     a * b -> `<- usizechk (a * b)`     a - b -> `<- usub a b`
        a / b, a % b -> `<- udiv a b`, `<- urem a b` (plain `/`, `%` when the divisor is a non-zero literal)
    `i64` is `Int`: `+ - *` and unary `-` -> `<- i64chk (…)`, `%` -> `<- i64rem a b`, casts `usize_as_i64`, `i64_as_usize`
    (the helpers of Impl/Sha3.lean).  `u8` is `UInt8` (`& | ^ !` -> `&&& ||| ^^^ ~~~`, `<<` -> `<- shlU8 a n`, which fails
    for n >= 8).  `u32/u64` are `UInt32/UInt64` words, except where the spec declares a place a *natural word*
    (the BLAKE2 counters `t[0], t[1]`, `inc`): then `wrapping_add` -> `(a + b) % 2 ^ w`, `as uN` -> `x % 2 ^ w`,
    checked `+ *` -> `<- wordchk w (a + b)`, `-` -> `<- usub a b`.
  * evaluation is three-address code in source order: every operation that can panic is its own `let t <- …`.
    (In `Option` the order of two failing operations is not observable.)  `&&`/`||` operands must be panic-free.
  * slices are `Bytes = List UInt8`:  a[i] -> `<- idx a i`;  a[i] = v -> `<- upd a i v`;  a[lo..hi] -> `<- slice a lo hi`;
    a[lo..] -> `<- sliceFrom a lo`;  d[lo..hi].copy_from_slice(s) -> `<- copyInto d lo hi s` (length mismatch = panic);
    `f(&mut a[lo..hi])` -> slice, call, `copyInto` back;  `[0; n]`, `vec::from_elem(0, n)` -> `zeros n`.
    Fixed arrays of words (`h: [u64; 8]`) are `Vector`s and may only be indexed by literals; `&h[lo..hi]` -> `<- lslice h.toList lo hi`.
  * `assert!(c)` -> `if ¬ (c) then none else …`;  `panic!(…)` -> `none`;  `if` statements: when a branch can leave the
    enclosing loop/function (`break`, `return`) the continuation is placed in the branches, otherwise the variables
    assigned in the branches are joined (`let j <- if c then … pure (x, y) else … pure (x, y)`).
  * loop bodies become their own definitions `<fn>_src_for<k>` / `<fn>_src_while<k>` (parameters: the const generics, every
    variable in scope that the body does not assign, [the index], the tuple `st` of the variables the body assigns):
    `for i in lo..hi { … }` -> `forRange (<fn>_src_for<k> …) (hi - lo) lo st` (structural recursion on the trip count);
    `for b in a[lo..].iter_mut() { *b = e }` -> `sliceFrom` + `List.mapM` + write back;
    `while c { … break … }` -> `whileLoop (<fn>_src_while<k> …) fuel st`, the body returns `(st', continue?)` — structural
    recursion on FUEL, the fuel expression is given by the kernel spec (a bound on the trip count, +1); running out of
    fuel is `none`, so a wrong fuel makes the tie theorem fail, never pass.
  * calls: functions translated by this module are called as `<- f_src generics self args` (signatures are parsed from the
    source; results are re-bound to `self` / the `&mut` places); primitives of other modules are named by the spec
    (`keccak_f`, `Engine::compress` -> the model function that the kernel ties prove equal to the source,
    `zero`, `write_u64v_le`, `cmp::min`).
  * `macro_rules!` bodies (`sha3_impl!`, `context_finalize!`): the function is looked up inside the macro definition and
    the metavariables are substituted by the names given in the spec (`$digestlength` -> `DIGESTLEN`); the macro
    INVOCATIONS (28/32/48/64 …) are covered by the extracted tables (`SHA3_VARIANTS`).
  * `kind="const"`: `const NAME: T = expr;` of an impl block -> `def NAME_src : Nat`.
  * `kind="struct"`: the struct definition (or `use` line naming the primitives / the `EngineB as Engine` alias) must be
    token-identical to the text the spec expects (the field list and types the state mapping was written for) —
    otherwise TranslateError; the generated `…_struct_src : Unit` is referenced by a tie theorem, so the failure stub
    (of another type) breaks the build as well.
  * `assert!(a && b)` is `assert!(a); assert!(b)` (so that `b` may contain checked arithmetic).
  * supported statements: `let [mut] x [: T] = e;` (also `let x = if c { …; a } else { …; b };`), assignment and compound
    assignment to variables / fields / `a[i]` / `*b`, `if`/`else if`/`else`, `while`, `for` (the two forms above), `break`,
    `return [e];`, expression statements (calls, `copy_from_slice`, `assert!`, `panic!`), the trailing expression;
    expressions: literals, paths, const generics, fields, indexing / slicing, `&`/`&mut`/`*`, `as` (usize<->i64, usize->uN),
    `! -` unary, `+ - * / % & | ^ << >> == != < > <= >= && ||`, `.len() .is_empty() .wrapping_add()`, calls (turbofish
    const arguments are passed on), `if` expressions with panic-free branches, `[v; n]`, `&[]`, struct literals `Self { … }`.

Anything else raises TranslateError (-> reported as a broken extraction, the tie theorem then fails): closures,
`match`, `loop`, `continue`, references stored in variables, `cfg` attributes inside a translated body, non-literal
indices into word arrays, shadowing a variable with a different type inside a loop, …  Nothing is skipped silently;
nested `fn` items are accepted only when they are kernels of their own (spec: `outer=<this fn>`), any other nested item is refused.
After audit 3 (tools/ktx_glue_guard.py): the function is the ONE live definition in the live blocks its scope names (item `#[cfg]`
evaluated); inner-block shadowing, `let x = &mut …` aliases, re-bound `&mut` parameters are refused; the trailing expression of a
NESTED block is a statement, not the function's return; an operand / argument / field initialiser with a side effect evaluated after
another operand was read is refused (`Tr.after`).
"""
import os
import re

import kernel_translate as KT
from kernel_translate import P, TranslateError, strip_comments
import ktx_glue_guard as GUARD

LEAN_RESERVED = {"at", "from", "end", "open", "show", "have", "fun", "then", "else", "if", "do", "let", "in", "with",
                 "match", "by", "where", "def", "instance", "structure", "class", "local", "section", "namespace",
                 "variable", "universe", "import", "prefix", "infix", "notation", "macro", "syntax", "deriving",
                 "mutual", "theorem", "example", "abbrev", "axiom", "private", "protected", "return", "for", "unless",
                 "try", "catch", "finally", "Type", "Prop", "Sort", "using", "this", "nomatch", "suffices", "calc",
                 "obtain", "set_option", "attribute",
                 # globals used by the generated code
                 "zeros", "idx", "upd", "slice", "sliceFrom", "copyInto", "min", "usub", "udiv", "urem", "usizechk",
                 "i64chk", "i64rem", "shlU8", "wordchk", "lslice", "forRange", "whileLoop", "some", "none", "pure", "st", "j", "b", "s"}
WORDS = {"u8": "UInt8", "u32": "UInt32", "u64": "UInt64"}
BITS = {"u8": 8, "u32": 32, "u64": 64}


def REPO():
    return os.environ.get("CX_REPO", KT.REPO)


# ------------------------------------------------------------------------------------------------ lexer / source access

TOKEN = re.compile(
    r"\s*(?:"
    r"(0x[0-9a-fA-F_]+|0b[01_]+|[0-9][0-9_]*)((?:_?[ui](?:8|16|32|64|128|size))?)"
    r"|(b?\"(?:[^\"\\]|\\.)*\")"
    r"|([A-Za-z_][A-Za-z0-9_]*)"
    r"|(\.\.=|\.\.|<<=|>>=|<<|>>|\+=|-=|\*=|/=|%=|&=|\|=|\^=|==|!=|<=|>=|&&|\|\||->|=>|::|[-+*/%&|^!=<>()\[\]{};:,.#$?@])"
    r")")


def lex(src):
    out, i = [], 0
    src = strip_comments(src)
    while i < len(src):
        if src[i:].strip() == "":
            break
        m = TOKEN.match(src, i)
        if not m:
            raise TranslateError(f"cannot lex near {src[i:i+30]!r}")
        if m.group(1) is not None:
            out.append(("int", int(m.group(1).replace("_", ""), 0), m.group(2).lstrip("_") or None))
        elif m.group(3) is not None:
            out.append(("str", m.group(3), None))
        elif m.group(4) is not None:
            out.append(("id", m.group(4), None))
        else:
            out.append(("op", m.group(5), None))
        i = m.end()
    return out


def read_src(rel):
    return open(os.path.join(REPO(), rel)).read()


def balanced_end(text, i, op="{", cl="}"):
    """text[i-1] is the opening delimiter; index just after the matching closer"""
    depth = 1
    while i < len(text) and depth:
        c = text[i]
        depth += (c == op) - (c == cl)
        i += 1
    if depth:
        raise TranslateError("unbalanced delimiters")
    return i


def scope_texts(src, scope):
    """texts of the `{ … }` blocks opened after each LIVE match of regex `scope` (an `impl …` / `macro_rules! …` header): the `#[cfg]`
    attributes in front of the item are evaluated with the table of tools/ktx_glue_guard.py; Rust merges the `impl` blocks of a type, so
    together they are the bounded region in which a name is looked up (and must be unique)"""
    text = strip_comments(src)
    if not scope:
        return [text]
    masked = GUARD.mask_literals(text)
    out, n = [], 0
    for m in re.finditer(scope, text):
        n += 1
        hs = max(masked.rfind(";", 0, m.start()), masked.rfind("}", 0, m.start()), masked.rfind("{", 0, m.start())) + 1
        kw = re.search(r"\b(?:unsafe\s+)?(?:impl|trait|mod|macro_rules)\b", masked[hs:m.end()])
        hstart = hs + kw.start() if kw else m.start()
        if not GUARD.attrs_live(GUARD.attrs_before(text, hstart), f"scope {scope!r}"):
            continue
        j = masked.find("{", m.end() - 1 if masked[m.end() - 1] == "{" else m.end())
        if j < 0:
            raise TranslateError(f"scope {scope!r}: no block")
        out.append(text[j + 1:GUARD.close_of(masked, j) - 1])
    if not out:
        raise TranslateError(f"scope {scope!r} not found" + (f" ({n} cfg-disabled)" if n else ""))
    return out


def scope_text(src, scope):
    return "\n".join(scope_texts(src, scope))


def find_fn_in(text, fn, nested=False):
    """(header text, body text) of THE live `fn <fn>` with a body in `text`: item #[cfg] evaluated, the match must be unique; a fn nested
    inside another fn's body is found only with nested=True (then `text` is the body of the enclosing fn and the item must be its own)"""
    found = []
    for b in GUARD.scan_blocks(text):
        if b.kind != "fn" or b.name != fn or not b.all_live():
            continue
        fn_anc = [a for a in GUARD.ancestors(b) if a.kind == "fn"]
        if fn_anc:
            continue                      # an item of some other function's body
        found.append(b)
    if len(found) != 1:
        raise TranslateError(f"fn {fn}: {len(found)} live definitions in its scope; exactly one is required")
    b = found[0]
    hdr = text[b.hstart:b.open]
    return hdr, text[b.open + 1:b.end - 1]


# ------------------------------------------------------------------------------------------------ parser

class PG(P):
    """parser of kernel_translate.py + statements `while`/`if`/`break`/`return`, macro invocations, turbofish,
    struct literals, string literals, explicit deref"""

    nested_ok = ()

    def __init__(self, toks):
        super().__init__(toks)
        self.nostruct = 0

    def expr_nostruct(self):
        self.nostruct += 1
        try:
            return self.expr()
        finally:
            self.nostruct -= 1

    def expr(self, lvl=0):
        if lvl == 0 and self.at("..") and self.peek(1)[1] in ("]", ")"):       # a[..]
            self.eat(); return ("range", None, None)
        return super().expr(lvl)

    def ty(self):
        if self.at("&"):
            self.eat()
            mut = False
            if self.atid("mut"):
                self.eat(); mut = True
            return ("ref", mut, self.ty())
        if self.at("["):
            self.eat(); e = self.ty(); n = None
            if self.at(";"):
                self.eat(); n = self.expr()
            self.eat("]")
            return ("arr", e, n)
        name = self.eat()[1]
        while self.at("::"):
            self.eat(); name += "::" + self.eat()[1]
        args = None
        if self.at("<"):
            self.eat(); args = []
            while not self.at(">"):
                if self.peek()[0] == "int":
                    args.append(("lit", self.eat()[1], None))
                else:
                    args.append(self.ty())
                if self.at(","):
                    self.eat()
            self.eat(">")
        return ("named", name, args) if args is not None else name

    def block(self):
        stmts = []
        while self.peek()[0] != "eof" and not self.at("}"):
            if self.at(";"):
                self.eat(); continue
            if self.at("#"):
                self.eat()
                if self.at("!"):
                    self.eat()
                self.eat("["); d = 1; toks = []
                while d:
                    t = self.eat()[1]; d += (t == "[") - (t == "]"); toks.append(t)
                if "cfg" in toks or "cfg_attr" in toks or (toks and toks[0] not in GUARD.NEUTRAL_ATTRS):
                    raise TranslateError(f"attribute #[{toks[0] if toks else ''}…] inside a translated body")
                continue
            if self.atid("fn") or (self.atid("const") and self.peek(1)[1] == "fn"):     # nested fn: only a kernel of its own
                j = self.i + (1 if self.atid("fn") else 2)
                nm = self.t[j][1] if j < len(self.t) else None
                if nm not in self.nested_ok:
                    raise TranslateError(f"nested `fn {nm}` inside a translated body is not a kernel of its own")
                while not self.at("{"):
                    self.eat()
                self.eat("{"); d = 1
                while d:
                    t = self.eat()[1]; d += (t == "{") - (t == "}")
                continue
            if self.peek()[0] == "id" and self.peek()[1] in ("use", "struct", "impl", "mod", "static", "trait", "enum", "extern", "type", "macro_rules"):
                raise TranslateError(f"nested `{self.peek()[1]}` item inside a translated body")
            stmts.append(self.stmt())
        return stmts

    def braced(self):
        self.eat("{"); b = self.block(); self.eat("}")
        return b

    def if_stmt(self):
        self.eat("if"); c = self.expr_nostruct(); a = self.braced(); b = None
        if self.atid("else"):
            self.eat()
            b = [("ifs",) + self.if_stmt()] if self.atid("if") else self.braced()
        return (c, a, b)

    def stmt(self):
        if self.atid("let"):
            self.eat()
            pat = self.pattern()
            ty = None
            if self.at(":"):
                self.eat(); ty = self.ty()
            init = None
            if self.at("="):
                self.eat(); init = self.expr()
            self.eat(";")
            return ("let", pat, ty, init)
        if self.atid("while"):
            self.eat(); c = self.expr_nostruct(); body = self.braced()
            return ("while", c, body)
        if self.atid("for"):
            self.eat(); var = self.eat()[1]; self.eat("in")
            it = self.expr_nostruct(); body = self.braced()
            return ("for", var, it, body)
        if self.atid("if"):
            c, a, b = self.if_stmt()
            if self.at(";"):
                self.eat()
            return ("ifs", c, a, b)
        if self.atid("break"):
            self.eat(); self.eat(";"); return ("break",)
        if self.atid("return"):
            self.eat(); e = None
            if not self.at(";") and not self.at("}"):
                e = self.expr()
            if self.at(";"):
                self.eat()
            return ("return", e)
        if self.atid("loop") or self.atid("match") or self.atid("continue") or self.atid("unsafe"):
            raise TranslateError(f"unsupported statement `{self.peek()[1]}`")
        e = self.expr()
        if self.at("=", "+=", "-=", "*=", "/=", "%=", "&=", "|=", "^=", "<<=", ">>="):
            op = self.eat()[1]; rhs = self.expr(); self.eat(";")
            return ("assign", e, op, rhs)
        if self.at(";"):
            self.eat(); return ("expr", e)
        return ("ret", e)

    def unary(self):
        if self.at("-"):
            self.eat(); return ("neg", self.unary())
        if self.at("!"):
            self.eat(); return ("not", self.unary())
        if self.at("&"):
            self.eat(); mut = False
            if self.atid("mut"):
                self.eat(); mut = True
            return ("ref", mut, self.unary())
        if self.at("*"):
            self.eat(); return ("deref", self.unary())
        return self.postfix()

    def cast(self):
        e = self.unary()
        while self.atid("as"):
            self.eat(); e = ("cast", e, self.ty())
        return e

    def atom(self):
        p = self.peek()
        if p[0] == "str":
            self.eat(); return ("str", p[1])
        if self.atid("if"):
            c, a, b = self.if_stmt()
            return ("if", c, a, b)
        if p[0] == "id" and p[1] not in ("if",):
            self.eat(); name = p[1]
            while self.at("::"):
                self.eat()
                if self.at("<"):                                   # turbofish
                    self.eat(); targs = []
                    while not self.at(">"):
                        targs.append(self.eat()[1])
                        if self.at(","):
                            self.eat()
                    self.eat(">")
                    name += "::<" + ",".join(str(t) for t in targs) + ">"
                else:
                    name += "::" + self.eat()[1]
            if self.at("!") and self.peek(1)[1] in ("(", "[", "{"):   # macro invocation
                self.eat(); cl = {"(": ")", "[": "]", "{": "}"}[self.eat()[1]]
                args = []
                while not self.at(cl):
                    args.append(self.expr())
                    if self.at(","):
                        self.eat()
                self.eat(cl)
                return ("macro", name, args)
            if self.at("{") and not self.nostruct and name.split("::")[-1][:1].isupper():
                self.eat(); fields = []
                while not self.at("}"):
                    f = self.eat()[1]
                    if self.at(":"):
                        self.eat(); v = self.expr()
                    else:
                        v = ("path", f)
                    fields.append((f, v))
                    if self.at(","):
                        self.eat()
                self.eat("}")
                return ("structlit", name, fields)
            return ("path", name)
        return super().atom()


def parse_sig(hdr, subst_ty=None):
    """`fn name<…>(&mut self, a: T, …) -> R` -> (self mode, [(name, mutable binding?, type)], ret type)"""
    toks = lex(hdr)
    p = PG(toks)
    while not p.atid("fn"):
        p.eat()
    p.eat(); p.eat()
    generics = []
    if p.at("<"):
        p.eat()
        while not p.at(">"):
            if p.atid("const"):
                p.eat(); g = p.eat()[1]; p.eat(":"); p.ty(); generics.append(g)
            else:
                raise TranslateError("type generics")
            if p.at(","):
                p.eat()
        p.eat(">")
    p.eat("(")
    selfm, params = None, []
    while not p.at(")"):
        if p.at("&"):
            p.eat(); m = False
            if p.atid("mut"):
                p.eat(); m = True
            p.eat("self"); selfm = "mut" if m else "ref"
        elif p.atid("mut") and p.peek(1)[1] == "self":
            p.eat(); p.eat(); selfm = "own"
        elif p.atid("self"):
            p.eat(); selfm = "own"
        else:
            mb = False
            if p.atid("mut"):
                p.eat(); mb = True
            name = p.eat()[1]; p.eat(":"); params.append((name, mb, p.ty()))
        if p.at(","):
            p.eat()
    p.eat(")")
    ret = None
    if p.at("->"):
        p.eat(); ret = p.ty()
    return selfm, params, ret, generics


# ------------------------------------------------------------------------------------------------ specs

class Struct:
    """model structure: `lean` type text, fields: rust field -> (type, lean path list), `lit(dict rust field -> text)`;
    arrays of natural words are given as type ("natarr", w) with lean path = list of per-index field names"""

    def __init__(self, lean, fields, lit=None):
        self.lean, self.fields, self.lit = lean, fields, lit


class Callee:
    """primitive not translated here.  tmpl: Lean text with {self} {0} {1} …; selfm/params/ret as for kernels
    (params: [("val"|"mut", type)]); fallible: result in Option; ret_into: index of the `&mut` parameter (or "self")
    that receives the (single) result"""

    def __init__(self, tmpl, params, ret="unit", fallible=False, selfm=None, result="ret"):
        self.tmpl, self.params, self.ret, self.fallible, self.selfm, self.result = tmpl, params, ret, fallible, selfm, result


class World:
    """what the kernels of one spec module share"""

    def __init__(self, structs, consts, callees, aliases=None):
        self.structs, self.consts, self.callees = structs, consts, callees
        self.aliases = aliases or {}
        self.kernels = {}      # (struct or None, fn) -> GK   (filled by GK.__init__)


class GK:
    def __init__(self, world, **kw):
        self.world = world
        self.kind = kw.get("kind", "fn")
        self.file, self.fn, self.scope = kw["file"], kw["fn"], kw.get("scope")
        self.outer = kw.get("outer")              # for nested fns: name of the enclosing fn (looked up in scope first)
        self.lean_name = kw["lean_name"]
        self.struct = kw.get("struct")            # name of the Self type in world.structs
        self.generics = kw.get("generics", [])    # lean names of the const generics (all Nat), in order
        self.subst = kw.get("subst", {})          # macro metavariable -> identifier
        self.fuel = list(kw.get("fuel", []))
        self.param_types = kw.get("param_types", {})   # overrides: rust param -> internal type
        self.ret_type = kw.get("ret_type")             # override of the internal return type
        self.doc = kw.get("doc", "")
        self.expect = kw.get("expect")            # kind="struct": expected normalised token text
        self.ty = kw.get("ty", "usize")           # kind="const"
        self.call_generics = kw.get("call_generics", {})   # struct name -> lean texts passed as its const generics
        self.params = ""                          # (used by generate_all only for the failure stub)
        self._sig = None
        if self.kind == "fn":
            world.kernels[(self.struct, self.fn)] = self

    def source(self):
        text = scope_text(read_src(self.file), self.scope)
        for a, b in self.subst.items():
            text = text.replace(a, b)
        if self.outer:
            _, text = find_fn_in(text, self.outer)
        return text

    def nested_kernels(self):
        """names of the nested `fn` items of this function that are kernels of their own (spec: `outer=<this fn>`, same file and scope):
        only those may be skipped when the body is parsed; a call resolves to them (world.kernels) as in Rust"""
        return tuple(k.fn for k in self.world.kernels.values()
                     if k.outer == self.fn and k.file == self.file and k.scope == self.scope)

    def sig(self):
        if self._sig is None:
            hdr, _ = find_fn_in(self.source(), self.fn)
            self._sig = parse_sig(hdr)
        return self._sig


# ------------------------------------------------------------------------------------------------ translation

def lname(n):
    return n + "'" if n in LEAN_RESERVED else n


def tuple_text(items):
    return items[0] if len(items) == 1 else "(" + ", ".join(items) + ")"


def proj(base, i, n):
    """i-th component of an n-tuple `base` (right-nested pairs)"""
    if n == 1:
        return base
    return base + ".2" * i + (".1" if i < n - 1 else "")


class Env:
    def __init__(self, vars=None):
        self.vars = dict(vars or {})     # rust name -> type

    def copy(self):
        return Env(self.vars)


class Out:
    """lines of a do-block"""

    def __init__(self, ind):
        self.ind, self.lines = ind, []

    def add(self, text):
        self.lines.append(" " * self.ind + text)

    def sub(self, extra=2):
        o = Out(self.ind + extra)
        o.lines = self.lines          # shared: lines appear in emission order
        return o


class Tr:
    def __init__(self, k: GK):
        self.k, self.w = k, k.world
        self.tmp = 0
        self.fuel_i = 0
        self.loop_depth = 0
        self.aux = []
        self.aux_n = 0
        self.epoch = 0        # number of re-bindings of variables emitted so far (see `after`)

    @staticmethod
    def fragile(t):
        """does this value text depend on a variable binding (neither a literal nor a fresh temporary)?"""
        return t is not None and not re.fullmatch(r"t\d+(\.[12])*|\(?-?(0x)?[0-9a-f]+( : \w+)?\)?|true|false|\(\)", t)

    def after(self, earlier, thunk):
        """evaluate the next operand (left to right, as Rust does).  Values are Lean TEXTS over the current bindings and are used after
        everything the later operands emit; a later operand that re-binds a variable (a call with `&mut` effects) would change what an
        earlier operand's text means (audit 3, F8): refused unless the earlier operands are literals / fresh temporaries"""
        e0 = self.epoch
        r = thunk()
        if self.epoch != e0 and any(self.fragile(x) for x in earlier):
            raise TranslateError("an operand with a side effect is evaluated after another operand was read (evaluation order)")
        return r

    def fresh(self):
        self.tmp += 1
        return f"t{self.tmp}"

    # ---- types
    def conv_ty(self, t):
        """parsed Rust type -> internal type"""
        if isinstance(t, tuple):
            if t[0] == "ref":
                return self.conv_ty(t[2])
            if t[0] == "arr":
                e = self.conv_ty(t[1])
                if e == "u8":
                    return "bytes"
                if e in ("u32", "u64") and t[2] is not None and t[2][0] == "lit":
                    return ("vec", e, t[2][1])
                raise TranslateError(f"array type {t}")
            if t[0] == "named":
                return self.conv_ty(t[1])
        if t in ("usize", "i64", "u8", "u32", "u64", "bool"):
            return t
        base = t.split("::")[-1]
        base = self.w.aliases.get(base, base)
        if base == "Self":
            return ("struct", self.k.struct)
        if base in self.w.structs:
            return ("struct", base)
        if base == "LastBlock":
            return ("enum", "LastBlock")
        raise TranslateError(f"unknown type {t}")

    def lean_ty(self, t):
        if t == "usize" or (isinstance(t, tuple) and t[0] == "nat"):
            return "Nat"
        if t == "i64":
            return "Int"
        if t in WORDS:
            return WORDS[t]
        if t == "bool":
            return "Bool"
        if t == "bytes":
            return "Bytes"
        if t == "unit":
            return "Unit"
        if t[0] == "struct":
            return self.w.structs[t[1]].lean
        if t[0] == "vec":
            return f"(Vector {WORDS[t[1]]} {t[2]})"
        if t[0] == "enum":
            return t[1]
        raise TranslateError(f"no Lean type for {t}")

    # ---- places
    def place(self, e, env):
        """lvalue -> (root var, lean path list, type) for variables and (nested) struct fields"""
        if e[0] == "paren":
            return self.place(e[1], env)
        if e[0] in ("ref", "deref"):
            return self.place(e[-1], env)
        if e[0] == "path":
            if e[1] not in env.vars:
                raise TranslateError(f"unknown variable {e[1]}")
            return (e[1], [], env.vars[e[1]])
        if e[0] == "field":
            root, path, ty = self.place(e[1], env)
            if not (isinstance(ty, tuple) and ty[0] == "struct"):
                raise TranslateError(f"field of non-struct {ty}")
            st = self.w.structs[ty[1]]
            if e[2] not in st.fields:
                raise TranslateError(f"unknown field {e[2]} of {ty[1]}")
            fty, fpath = st.fields[e[2]]
            return (root, path + list(fpath), fty)
        if e[0] == "index" and e[2][0] == "lit":
            root, path, ty = self.place(e[1], env)
            if isinstance(ty, tuple) and ty[0] == "natarr":
                names = path[-1]
                if not isinstance(names, tuple) or e[2][1] >= len(names):
                    raise TranslateError("index into word pair out of range")
                return (root, path[:-1] + [names[e[2][1]]], ("nat", ty[1]))
        raise TranslateError(f"unsupported place {e[0]}")

    def place_text(self, pl):
        root, path, _ = pl
        for x in path:
            if isinstance(x, tuple):
                raise TranslateError("word pair used as a whole")
        return ".".join([lname(root)] + path)

    def store(self, pl, text, out):
        root, path, _ = pl
        self.epoch += 1
        m_ = re.fullmatch(r"( *)let (t\d+) (←|:=) (.*)", out.lines[-1]) if out.lines else None
        if not path and m_ and m_.group(2) == text:
            out.lines[-1] = f"{m_.group(1)}let {lname(root)} {m_.group(3)} {m_.group(4)}"
        elif not path:
            out.add(f"let {lname(root)} := {text}")
        else:
            out.add(f"let {lname(root)} := {{ {lname(root)} with {'.'.join(path)} := {text} }}")

    def is_place(self, e, env):
        try:
            self.place(e, env)
            return True
        except TranslateError:
            return False

    # ---- expressions: returns (lean text, type); emits `let t ← …` into out for everything that can panic
    def bind(self, text, out, hint=None):
        n = self.fresh()
        out.add(f"let {n} ← {text}")
        return n

    def par(self, t):
        return t if re.fullmatch(r"[\w.']+|\(.*\)", t) and self.balanced_par(t) else f"({t})"

    @staticmethod
    def balanced_par(t):
        if not t.startswith("("):
            return True
        d = 0
        for i, c in enumerate(t):
            d += (c == "(") - (c == ")")
            if d == 0 and i < len(t) - 1:
                return False
        return True

    def lit(self, v, ty):
        if ty in WORDS:
            return f"({hex(v) if v > 9 else v} : {WORDS[ty]})"
        if ty == "i64":
            return f"({v} : Int)"
        return str(v)

    def const_lookup(self, name):
        for key in (name, name.split("::")[-1]):
            if key in self.w.consts:
                return self.w.consts[key]
        return None

    def ex(self, e, env, out, want=None):
        k = e[0]
        if k == "paren":
            return self.ex(e[1], env, out, want)
        if k == "ref":
            return self.ex(e[2], env, out, want)
        if k == "lit":
            ty = e[2] or (want if want in ("usize", "i64", "u8", "u32", "u64") or (isinstance(want, tuple) and want[0] == "nat") else "usize")
            return (self.lit(e[1], ty), ty)
        if k == "path":
            name = e[1]
            if name in env.vars:
                return (lname(name), env.vars[name])
            if name in self.k.generics:
                return (name, "usize")
            c = self.const_lookup(name)
            if c is not None:
                return c
            if name.split("::")[0] == "LastBlock":
                return ("LastBlock." + name.split("::")[1], ("enum", "LastBlock"))
            raise TranslateError(f"unknown identifier {name}")
        if k == "field":
            pl = self.place(e, env)
            return (self.place_text(pl), pl[2])
        if k == "index":
            return self.index(e, env, out)
        if k == "deref":
            return self.ex(e[1], env, out, want)
        if k == "cast":
            return self.cast(e, env, out, want)
        if k == "neg":
            t, ty = self.ex(e[1], env, out, want)
            if ty != "i64":
                raise TranslateError(f"unary minus on {ty}")
            return (self.bind(f"i64chk (-{self.par(t)})", out), ty)
        if k == "not":
            t, ty = self.ex(e[1], env, out, want)
            if ty == "bool":
                return (f"!{self.par(t)}", "bool")
            if ty == "prop":
                return (f"¬ {self.par(t)}", "prop")
            if ty in WORDS:
                return (f"~~~{self.par(t)}", ty)
            raise TranslateError(f"`!` on {ty}")
        if k == "bin":
            return self.binop(e, env, out, want)
        if k == "method":
            return self.method(e, env, out, want)
        if k == "call":
            r = self.call(e, env, out, stmt=False)
            return r
        if k == "if":
            return self.if_value(e, env, out, want)
        if k == "repeat":
            v, vty = self.ex(e[1], env, out, "u8")
            n, _ = self.ex(e[2], env, out, "usize")
            if vty != "u8":
                raise TranslateError("repeat of non-byte")
            return (f"zeros {self.par(n)}" if e[1][0] == "lit" and e[1][1] == 0 else f"List.replicate {self.par(n)} {self.par(v)}", "bytes")
        if k == "array":
            if not e[1]:
                return ("([] : Bytes)", "bytes")
            raise TranslateError("array literal")
        if k == "structlit":
            return self.structlit(e, env, out)
        if k == "macro":
            raise TranslateError(f"macro {e[1]} in expression position")
        raise TranslateError(f"unsupported expression {k}")

    def pure_ex(self, e, env, want=None):
        """expression that must not emit binds (operands of && / ||, value-if branches)"""
        o = Out(0)
        r = self.ex(e, env, o, want)
        if o.lines:
            raise TranslateError("operand of a short-circuit / conditional expression can panic")
        return r

    def as_prop(self, t, ty):
        if ty == "prop":
            return t
        if ty == "bool":
            if t.startswith("!"):
                return f"¬ ({t[1:]} = true)"
            return f"{t} = true"
        raise TranslateError(f"condition of type {ty}")

    def as_bool(self, t, ty):
        if ty == "bool":
            return t
        if ty == "prop":
            return f"decide ({t})"
        raise TranslateError(f"bool of type {ty}")

    def index(self, e, env, out):
        base, ix = e[1], e[2]
        if ix[0] == "range":
            bt, bty = self.ex(base, env, out)
            if isinstance(bty, tuple) and bty[0] == "vec":            # &h[lo..hi] of a word array: a list of words
                if len(ix) > 3 and ix[3] == "..=":
                    raise TranslateError("inclusive range")
                lo = self.ex(ix[1], env, out, "usize")[0] if ix[1] is not None else "0"
                hi = self.ex(ix[2], env, out, "usize")[0] if ix[2] is not None else str(bty[2])
                return (self.bind(f"lslice {self.par(bt)}.toList {self.par(lo)} {self.par(hi)}", out), ("wlist", bty[1]))
            if bty != "bytes":
                raise TranslateError("slice of non-bytes")
            lo = self.ex(ix[1], env, out, "usize")[0] if ix[1] is not None else None
            hi = self.ex(ix[2], env, out, "usize")[0] if ix[2] is not None else None
            if len(ix) > 3 and ix[3] == "..=":
                raise TranslateError("inclusive range")
            if lo is None and hi is None:
                return (bt, "bytes")
            if hi is None:
                return (self.bind(f"sliceFrom {self.par(bt)} {self.par(lo)}", out), "bytes")
            return (self.bind(f"slice {self.par(bt)} {self.par(lo or '0')} {self.par(hi)}", out), "bytes")
        if self.is_place(e, env):                      # word pair element
            pl = self.place(e, env)
            return (self.place_text(pl), pl[2])
        bt, bty = self.ex(base, env, out)
        if bty == "bytes":
            it, ity = self.ex(ix, env, out, "usize")
            if ity != "usize":
                raise TranslateError("index type")
            return (self.bind(f"idx {self.par(bt)} {self.par(it)}", out), "u8")
        if isinstance(bty, tuple) and bty[0] == "vec":
            if ix[0] != "lit" or ix[1] >= bty[2]:
                raise TranslateError("word arrays may only be indexed by in-range literals")
            return (f"{self.par(bt)}[{ix[1]}]", bty[1])
        raise TranslateError(f"index into {bty}")

    def cast(self, e, env, out, want):
        t, ty = self.ex(e[1], env, out)
        to = e[2] if isinstance(e[2], str) else None
        if to is None:
            raise TranslateError(f"cast to {e[2]}")
        if ty == "usize" and to == "i64":
            return (f"usize_as_i64 {self.par(t)}", "i64")
        if ty == "i64" and to == "usize":
            return (f"i64_as_usize {self.par(t)}", "usize")
        if ty == "usize" and to in ("u32", "u64"):
            if isinstance(want, tuple) and want[0] == "nat":
                if want[1] != BITS[to]:
                    raise TranslateError("natural word width")
                return (f"{self.par(t)} % 2 ^ {BITS[to]}", want)
            return (f"{WORDS[to]}.ofNat {self.par(t)}", to)
        if ty == to:
            return (t, ty)
        raise TranslateError(f"cast {ty} as {to}")

    def binop(self, e, env, out, want):
        op, l, r = e[1], e[2], e[3]
        if op in ("&&", "||"):
            lt, lty = self.pure_ex(l, env)
            rt, rty = self.pure_ex(r, env)
            sym = "∧" if op == "&&" else "∨"
            return (f"{self.par(self.as_prop(lt, lty))} {sym} {self.par(self.as_prop(rt, rty))}", "prop")
        if op in ("==", "!=", "<", ">", "<=", ">="):
            lt, lty = self.operand(l, r, env, out)
            rt, rty = self.after([lt], lambda: self.ex(r, env, out, lty))
            if lty != rty:
                raise TranslateError(f"comparison of {lty} with {rty}")
            if lty not in ("usize", "i64") and not (isinstance(lty, tuple) and lty[0] == "nat"):
                raise TranslateError(f"comparison on {lty}")
            sym = {"==": "=", "!=": "≠", "<": "<", ">": ">", "<=": "≤", ">=": "≥"}[op]
            return (f"{self.par(lt)} {sym} {self.par(rt)}", "prop")
        if op in ("<<", ">>"):
            lt, lty = self.ex(l, env, out, want)
            if lty not in WORDS:
                raise TranslateError(f"shift of {lty}")
            if r[0] == "lit":
                if r[1] >= BITS[lty]:
                    raise TranslateError("shift amount")
                return (f"{self.par(lt)} {'<<<' if op == '<<' else '>>>'} {r[1]}", lty)
            rt, rty = self.after([lt], lambda: self.ex(r, env, out, "usize"))
            if lty != "u8" or op != "<<" or rty != "usize":
                raise TranslateError("variable shift only on u8 <<")
            return (self.bind(f"shlU8 {self.par(lt)} {self.par(rt)}", out), "u8")
        lt, lty = self.operand(l, r, env, out, want)
        rt, rty = self.after([lt], lambda: self.ex(r, env, out, lty))
        if lty != rty:
            raise TranslateError(f"operands {lty} / {rty} of {op}")
        if lty == "usize":
            if op in ("+", "*"):
                return (self.bind(f"usizechk ({self.par(lt)} {op} {self.par(rt)})", out), "usize")
            if op == "-":
                return (self.bind(f"usub {self.par(lt)} {self.par(rt)}", out), "usize")
            if op in ("/", "%"):
                if r[0] == "lit" and r[1] != 0:
                    return (f"{self.par(lt)} {op} {rt}", "usize")
                return (self.bind(f"{'udiv' if op == '/' else 'urem'} {self.par(lt)} {self.par(rt)}", out), "usize")
        if lty == "i64":
            if op in ("+", "-", "*"):
                return (self.bind(f"i64chk ({self.par(lt)} {op} {self.par(rt)})", out), "i64")
            if op == "%":
                return (self.bind(f"i64rem {self.par(lt)} {self.par(rt)}", out), "i64")
        if isinstance(lty, tuple) and lty[0] == "nat":                     # checked arithmetic on a natural word
            if op in ("+", "*"):
                return (self.bind(f"wordchk {lty[1]} ({self.par(lt)} {op} {self.par(rt)})", out), lty)
            if op == "-":
                return (self.bind(f"usub {self.par(lt)} {self.par(rt)}", out), lty)
        if lty in WORDS and op in ("&", "|", "^"):
            sym = {"&": "&&&", "|": "|||", "^": "^^^"}[op]
            return (f"{self.par(lt)} {sym} {self.par(rt)}", lty)
        raise TranslateError(f"operator {op} on {lty}")

    def operand(self, l, r, env, out, want=None):
        """left operand; an untyped literal takes the type of the right operand"""
        if l[0] == "lit" and l[2] is None:
            o = Out(0)
            _, rty = self.ex(r, env, o, want)
            self.tmp -= len(o.lines)
            return self.ex(l, env, out, rty)
        return self.ex(l, env, out, want)

    def if_value(self, e, env, out, want):
        c, a, b = e[1], e[2], e[3]
        if b is None or len(a) != 1 or len(b) != 1 or a[0][0] != "ret" or b[0][0] != "ret":
            raise TranslateError("conditional expression with statements")
        ct, cty = self.ex(c, env, out)
        at, aty = self.pure_ex(a[0][1], env, want)
        bt, bty = self.pure_ex(b[0][1], env, want)
        if aty != bty:
            raise TranslateError("branches of different type")
        return (f"if {self.as_prop(ct, cty)} then {at} else {bt}", aty)

    def structlit(self, e, env, out):
        name = e[1].split("::")[-1]
        name = self.w.aliases.get(name, name)
        if name == "Self":
            name = self.k.struct
        st = self.w.structs.get(name)
        if st is None or st.lit is None:
            raise TranslateError(f"struct literal {name}")
        vals = {}
        seen = []
        for f, v in e[2]:
            if f not in st.fields:
                raise TranslateError(f"unknown field {f}")
            fty = st.fields[f][0]
            if isinstance(fty, tuple) and fty[0] == "natarr":
                if v[0] != "array" or len(v[1]) != len(st.fields[f][1][-1]):
                    raise TranslateError("word pair literal")
                vals[f] = []
                for x in v[1]:
                    vals[f].append(self.after(seen, lambda x=x: self.ex(x, env, out, ("nat", fty[1])))[0])
                    seen.append(vals[f][-1])
            else:
                t, ty = self.after(seen, lambda: self.ex(v, env, out, fty if isinstance(fty, str) else None))
                seen.append(t)
                if ty != fty:
                    raise TranslateError(f"field {f}: {ty} for {fty}")
                vals[f] = t
        if set(vals) != set(st.fields):
            raise TranslateError("struct literal: missing fields")
        return (st.lit(vals), ("struct", name))

    def method(self, e, env, out, want):
        recv, name, args = e[1], e[2], e[3]
        if name in ("len", "is_empty") and not args:
            t, ty = self.ex(recv, env, out)
            if ty != "bytes":
                raise TranslateError(f".{name}() on {ty}")
            return (f"{self.par(t)}.length", "usize") if name == "len" else (f"{self.par(t)}.isEmpty", "bool")
        if name == "wrapping_add" and len(args) == 1:
            t, ty = self.ex(recv, env, out)
            if not (isinstance(ty, tuple) and ty[0] == "nat"):
                raise TranslateError("wrapping_add on a non-natural word")
            a, aty = self.after([t], lambda: self.ex(args[0], env, out, ty))
            if aty != ty:
                raise TranslateError("wrapping_add operand type")
            return (f"({self.par(t)} + {self.par(a)}) % 2 ^ {ty[1]}", ty)
        return self.call(e, env, out, stmt=False)

    # ---- calls
    def resolve_call(self, e, env):
        """-> (callee kind, object, receiver expr or None, args)"""
        if e[0] == "method":
            recv, name, args = e[1], e[2], e[3]
            pl = self.place(recv, env)
            ty = pl[2]
            if not (isinstance(ty, tuple) and ty[0] == "struct"):
                raise TranslateError(f"method {name} on {ty}")
            key = (ty[1], name)
            if key in self.w.kernels:
                return ("kernel", self.w.kernels[key], recv, args)
            if key in self.w.callees:
                return ("prim", self.w.callees[key], recv, args)
            raise TranslateError(f"unknown method {ty[1]}::{name}")
        fn = e[1]
        if fn[0] != "path":
            raise TranslateError("call of a non-path")
        tf = re.search(r"::<([^>]*)>", fn[1])
        self.turbofish = [x for x in tf.group(1).split(",")] if tf else None
        parts = re.sub(r"::<[^>]*>", "", fn[1]).split("::")
        name = parts[-1]
        if len(parts) > 1:
            q = self.w.aliases.get(parts[-2], parts[-2])
            if q == "Self":
                q = self.k.struct
            if (q, name) in self.w.kernels:
                return ("kernel", self.w.kernels[(q, name)], None, e[2])
            if (q, name) in self.w.callees:
                return ("prim", self.w.callees[(q, name)], None, e[2])
            if fn[1] in self.w.callees:
                return ("prim", self.w.callees[fn[1]], None, e[2])
            raise TranslateError(f"unknown function {fn[1]}")
        if (None, name) in self.w.kernels:
            return ("kernel", self.w.kernels[(None, name)], None, e[2])
        if name in self.w.callees:
            return ("prim", self.w.callees[name], None, e[2])
        raise TranslateError(f"unknown function {name}")

    def call(self, e, env, out, stmt):
        """translate a call; re-binds `self`/`&mut` places; returns (text, type) of the returned value"""
        kind, obj, recv, args = self.resolve_call(e, env)
        if kind == "kernel":
            selfm, params, ret, _ = obj.sig()
            ptypes = [(("mut" if (isinstance(t, tuple) and t[0] == "ref" and t[1]) else "val"),
                       obj.param_types.get(n) or Tr(obj).conv_ty(t)) for n, _, t in params]
            rty = obj.ret_type or ("unit" if ret is None else Tr(obj).conv_ty(ret))
            gen = obj.generics
            tfish = getattr(self, "turbofish", None) if e[0] == "call" else None
            if tfish is not None:
                if len(tfish) != len(gen):
                    raise TranslateError("turbofish arity")
                gen = [self.ex(("path", x) if not x.isdigit() else ("lit", int(x), None), env, out, "usize")[0] for x in tfish]
            elif obj.struct is not None and obj.struct in self.k.call_generics:
                gen = self.k.call_generics[obj.struct]
            elif any(g not in self.k.generics for g in gen):
                raise TranslateError(f"const generics of {obj.lean_name} unknown at the call site")
            fallible = True
        else:
            selfm, ptypes, rty, fallible, gen = obj.selfm, obj.params, obj.ret, obj.fallible, []
        if len(args) != len(ptypes):
            raise TranslateError("arity")
        if (selfm is None) != (recv is None):
            if not (selfm is None and recv is None):
                raise TranslateError("receiver mismatch")
        pieces = {}
        outs = []          # places receiving results, in result order
        if recv is not None:
            rpl = self.place(recv, env)
            pieces["self"] = self.place_text(rpl)
            if selfm == "mut":
                outs.append(("place", rpl))
        texts = []
        for a, (mode, pty) in zip(args, ptypes):
            e_arg = self.epoch
            if mode == "mut":
                tgt = a[2] if a[0] == "ref" else a
                if a[0] != "ref" or not a[1]:
                    raise TranslateError("`&mut` argument expected")
                if tgt[0] == "index" and tgt[2][0] == "range":          # &mut a[lo..hi]
                    bpl = self.place(tgt[1], env)
                    bt = self.place_text(bpl)
                    rg = tgt[2]
                    lo = self.ex(rg[1], env, out, "usize")[0] if rg[1] is not None else "0"
                    hi = self.ex(rg[2], env, out, "usize")[0] if rg[2] is not None else f"{bt}.length"
                    s = self.bind(f"slice {bt} {self.par(lo)} {self.par(hi)}", out)
                    texts.append(s)
                    outs.append(("slice", bpl, lo, hi))
                else:
                    pl = self.place(tgt, env)
                    if pl[2] != pty:
                        raise TranslateError(f"argument type {pl[2]} for {pty}")
                    texts.append(self.place_text(pl))
                    outs.append(("place", pl))
            else:
                t, ty = self.ex(a, env, out, pty)
                if isinstance(pty, tuple) and pty[0] == "wlist" and isinstance(ty, tuple) and ty[0] == "vec" and ty[1] == pty[1]:
                    t, ty = f"{self.par(t)}.toList", pty              # `&[uN; k]` coerces to `&[uN]`
                if ty != pty:
                    raise TranslateError(f"argument type {ty} for {pty}")
                texts.append(self.par(t))
            if self.epoch != e_arg and any(self.fragile(x) for x in texts[:-1]):
                raise TranslateError("an argument with a side effect is evaluated after another argument was read (evaluation order)")
        if kind == "kernel":
            app = " ".join([obj.lean_name] + list(gen) + ([pieces["self"]] if recv is not None else []) + texts)
        else:
            app = obj.tmpl.format(*texts, **pieces)
            if obj.result != "ret":                      # the primitive returns the new value of one place only
                outs = [o for i, o in enumerate(outs) if True]
        n_res = len(outs) + (0 if rty == "unit" else 1)
        if n_res == 0:
            if fallible:
                out.add(f"let _ ← {app}")
            return ("()", "unit")
        r = self.fresh()
        out.add(f"let {r} {'←' if fallible else ':='} {app}")
        for i, o in enumerate(outs):
            comp = proj(r, i, n_res)
            if o[0] == "place":
                self.store(o[1], comp, out)
            else:
                _, bpl, lo, hi = o
                w = self.bind(f"copyInto {self.place_text(bpl)} {self.par(lo)} {self.par(hi)} {comp}", out)
                self.store(bpl, w, out)
        if rty == "unit":
            return ("()", "unit")
        return (proj(r, n_res - 1, n_res), rty)

    # ---- statements
    @staticmethod
    def assigned(stmts, acc=None):
        """root variables assigned (or passed as &mut / method receivers) in stmts, in order of first occurrence"""
        acc = acc if acc is not None else []

        def root(e):
            while e[0] in ("field", "index", "paren", "deref", "ref", "method"):
                e = e[-1] if e[0] in ("ref", "deref") else e[1]
            return e[1] if e[0] == "path" else None

        def add(n):
            if n is not None and n not in acc:
                acc.append(n)

        def walk_e(e):
            if not isinstance(e, tuple):
                return
            if e[0] == "method":
                if e[2] not in ("len", "is_empty", "wrapping_add"):     # (read-only methods of the supported subset)
                    add(root(e[1]))
                for a in e[3]:
                    walk_e(a)
                walk_e(e[1])
                return
            if e[0] == "ref" and e[1]:
                add(root(e[2]))
            if e[0] == "if":
                Tr.assigned(e[2], acc)
                if e[3]:
                    Tr.assigned(e[3], acc)
            for x in e[1:]:
                if isinstance(x, tuple):
                    walk_e(x)
                elif isinstance(x, list):
                    for y in x:
                        if isinstance(y, tuple):
                            walk_e(y)
        for s in stmts:
            if s[0] == "assign":
                add(root(s[1])); walk_e(s[3])
            elif s[0] == "let":
                if s[3] is not None:
                    walk_e(s[3])
            elif s[0] in ("expr", "ret"):
                walk_e(s[1])
            elif s[0] == "ifs":
                walk_e(s[1]); Tr.assigned(s[2], acc)
                if s[3]:
                    Tr.assigned(s[3], acc)
            elif s[0] == "while":
                walk_e(s[1]); Tr.assigned(s[2], acc)
            elif s[0] == "for":
                walk_e(s[2]); Tr.assigned(s[3], acc)
            elif s[0] == "return":
                if s[1] is not None:
                    walk_e(s[1])
            elif s[0] != "break":
                raise TranslateError(f"unsupported statement {s[0]}")
        return acc

    @staticmethod
    def declared(stmts):
        return [s[1][1] for s in stmts if s[0] == "let" and s[1][0] == "var"]

    @staticmethod
    def escapes(stmts, in_loop=False):
        """does the block contain `return` (any depth) or a `break` of the enclosing loop?"""
        for s in stmts:
            if s[0] == "return":
                return True
            if s[0] == "break" and not in_loop:
                return True
            if s[0] == "ifs" and (Tr.escapes(s[2], in_loop) or (s[3] and Tr.escapes(s[3], in_loop))):
                return True
            if s[0] in ("while", "for") and Tr.escapes(s[2] if s[0] == "while" else s[3], True):
                return True
        return False

    @staticmethod
    def always_escapes(stmts):
        if not stmts:
            return False
        s = stmts[-1]
        if s[0] in ("return", "break"):
            return True
        if s[0] == "expr" and s[1][0] == "macro" and s[1][1] in ("panic", "unreachable"):
            return True
        if s[0] == "ifs" and s[3] is not None:
            return Tr.always_escapes(s[2]) and Tr.always_escapes(s[3])
        return False

    def state_vars(self, body, env):
        """variables of env assigned in body (loop state / join variables)"""
        decl = set()
        res = []
        for n in self.assigned(body):
            if n in env.vars and n not in res:
                res.append(n)
        # a variable declared inside the body shadows: only if it is declared before its first assignment at top level
        for n in self.declared(body):
            if n in res:
                raise TranslateError(f"`let {n}` shadows a variable assigned in the same block")
        return res

    def seq(self, stmts, i, env, out, tail):
        """translate stmts[i:], then `tail(env, out)`"""
        while i < len(stmts):
            s = stmts[i]
            kind = s[0]
            if kind == "let":
                self.do_let(s, env, out)
            elif kind == "assign":
                self.do_assign(s, env, out)
            elif kind == "expr" or (kind == "ret" and i + 1 < len(stmts)):
                self.do_expr_stmt(s[1], env, out)
                if s[1][0] == "macro" and s[1][1] in ("panic", "unreachable"):
                    return
            elif kind == "ret":
                if stmts is not self.top_stmts:
                    # the value of a NESTED block (a unit call without `;`): a statement, the continuation follows (audit 3, F2)
                    self.do_expr_stmt(s[1], env, out)
                    i += 1
                    continue
                self.ret_tail(s[1], env, out)
                return
            elif kind == "return":
                self.ret_tail(s[1], env, out)
                return
            elif kind == "break":
                if not self.loop_tail:
                    raise TranslateError("break outside a loop")
                self.loop_tail[-1](env, out, False)
                return
            elif kind == "ifs":
                if self.do_if(s, stmts, i, env, out, tail):
                    return
            elif kind == "while":
                self.do_while(s, env, out)
            elif kind == "for":
                self.do_for(s, env, out)
            else:
                raise TranslateError(f"unsupported statement {kind}")
            i += 1
        tail(env, out)

    def do_let(self, s, env, out):
        pat, ty, init = s[1], s[2], s[3]
        if pat[0] != "var":
            raise TranslateError("pattern in let")
        name = pat[1]
        want = self.conv_ty(ty) if ty is not None else None
        if init is None:
            raise TranslateError("let without initialiser")
        if init[0] == "if" and not self.simple_if(init):
            # let x = if c { stmts; a } else { stmts; b }   ==   the if statement with `x = a` / `x = b` at the ends
            if init[3] is None or not init[2] or not init[3] or init[2][-1][0] != "ret" or init[3][-1][0] != "ret":
                raise TranslateError("conditional initialiser")
            o = Out(0)
            _, vty = self.ex(init[3][-1][1], env, o, want)
            self.tmp -= len(o.lines)
            env.vars[name] = vty
            a = init[2][:-1] + [("assign", ("path", name), "=", init[2][-1][1])]
            b = init[3][:-1] + [("assign", ("path", name), "=", init[3][-1][1])]
            self.do_if(("ifs", init[1], a, b), [], 0, env, out, None, force_join=True)
            return
        t, vty = self.ex(init, env, out, want)
        if want is not None and vty != want:
            raise TranslateError(f"let {name}: {vty} for {want}")
        if vty == "prop":
            t, vty = self.as_bool(t, vty), "bool"
        if self.loop_depth and name in env.vars and env.vars[name] != vty:
            raise TranslateError("shadowing with a different type inside a loop")
        env.vars[name] = vty
        m_ = re.fullmatch(r"( *)let (t\d+) (←|:=) (.*)", out.lines[-1]) if out.lines else None
        if m_ and m_.group(2) == t:
            # the value is the temporary bound by the last line: bind the variable directly
            out.lines[-1] = f"{m_.group(1)}let {lname(name)} {m_.group(3)} {m_.group(4)}"
            return
        if t != lname(name):
            asc = f" : {self.lean_ty(vty)}" if ty is not None and vty in ("usize", "i64") else ""
            out.add(f"let {lname(name)}{asc} := {t}")

    @staticmethod
    def simple_if(e):
        return e[3] is not None and len(e[2]) == 1 and len(e[3]) == 1 and e[2][0][0] == "ret" and e[3][0][0] == "ret"

    def do_assign(self, s, env, out):
        lhs, op, rhs = s[1], s[2], s[3]
        if lhs[0] == "deref":
            lhs = lhs[1]
        if lhs[0] == "index" and not self.is_place(lhs, env):
            base, ix = lhs[1], lhs[2]
            bpl = self.place(base, env)
            bt = self.place_text(bpl)
            if bpl[2] == "bytes":
                if ix[0] == "range":
                    raise TranslateError("assignment to a slice")
                if op == "=":
                    v, vty = self.ex(rhs, env, out, "u8")
                else:
                    v, vty = self.ex(("bin", op[:-1], lhs, rhs), env, out, "u8")
                if vty != "u8":
                    raise TranslateError("byte store of non-u8")
                it, _ = self.ex(ix, env, out, "usize")
                w = self.bind(f"upd {bt} {self.par(it)} {self.par(v)}", out)
                self.store(bpl, w, out)
                return
            if isinstance(bpl[2], tuple) and bpl[2][0] == "vec":
                if ix[0] != "lit" or ix[1] >= bpl[2][2]:
                    raise TranslateError("word arrays may only be indexed by in-range literals")
                if op == "=":
                    v, vty = self.ex(rhs, env, out, bpl[2][1])
                else:
                    v, vty = self.ex(("bin", op[:-1], lhs, rhs), env, out, bpl[2][1])
                if vty != bpl[2][1]:
                    raise TranslateError("word store type")
                self.store(bpl, f"{bt}.set {ix[1]} {self.par(v)}", out)
                return
            raise TranslateError(f"indexed store into {bpl[2]}")
        pl = self.place(lhs, env)
        if op == "=":
            v, vty = self.ex(rhs, env, out, pl[2])
        else:
            v, vty = self.ex(("bin", op[:-1], lhs, rhs), env, out, pl[2])
        if vty == "prop":
            v, vty = self.as_bool(v, vty), "bool"
        if vty != pl[2]:
            raise TranslateError(f"assignment of {vty} to {pl[2]}")
        self.store(pl, v, out)

    def do_expr_stmt(self, e, env, out):
        if e[0] == "macro":
            name = e[1]
            if name == "assert":
                if len(e[2]) != 1:
                    raise TranslateError("assert! with a message")
                # assert!(A && B) == assert!(A); assert!(B)   (B is evaluated only when A holds, and may itself panic)
                def conj(c):
                    while c[0] == "paren":
                        c = c[1]
                    return conj(c[2]) + conj(c[3]) if c[0] == "bin" and c[1] == "&&" else [c]
                for c_ in conj(e[2][0]):
                    c, cty = self.ex(c_, env, out)
                    out.add(f"if ¬ ({self.as_prop(c, cty)}) then none else")
                return
            if name in ("panic", "unreachable"):
                out.add("none")
                return
            raise TranslateError(f"macro {name}!")
        if e[0] == "method" and e[2] == "copy_from_slice":
            dst, src = e[1], e[3][0]
            st, sty = self.ex(src, env, out)
            if sty != "bytes":
                raise TranslateError("copy_from_slice source")
            if dst[0] == "index" and dst[2][0] == "range":
                bpl = self.place(dst[1], env)
                bt = self.place_text(bpl)
                rg = dst[2]
                lo = self.ex(rg[1], env, out, "usize")[0] if rg[1] is not None else "0"
                hi = self.ex(rg[2], env, out, "usize")[0] if rg[2] is not None else f"{bt}.length"
            else:
                bpl = self.place(dst, env)
                bt = self.place_text(bpl)
                lo, hi = "0", f"{bt}.length"
            if bpl[2] != "bytes":
                raise TranslateError("copy_from_slice destination")
            w = self.bind(f"copyInto {bt} {self.par(lo)} {self.par(hi)} {self.par(st)}", out)
            self.store(bpl, w, out)
            return
        if e[0] in ("call", "method"):
            self.call(e, env, out, stmt=True)
            return
        raise TranslateError(f"expression statement {e[0]}")

    loop_tail = None
    top_stmts = None

    def join_tail(self, vars_):
        def t(env, out):
            out.add("pure " + tuple_text([lname(v) for v in vars_]) if vars_ else "pure ()")
        return t

    def rebind(self, vars_, r, out):
        if vars_:
            self.epoch += 1
        m_ = re.fullmatch(r"( *)let (t\d+) (←|:=) (.*)", out.lines[-1]) if out.lines else None
        if len(vars_) == 1 and m_ and m_.group(2) == r:
            out.lines[-1] = f"{m_.group(1)}let {lname(vars_[0])} {m_.group(3)} {m_.group(4)}"
            return
        for i, v in enumerate(vars_):
            out.add(f"let {lname(v)} := {proj(r, i, len(vars_))}")

    def do_if(self, s, stmts, i, env, out, tail, force_join=False):
        """returns True when the continuation has been consumed (placed into the branches)"""
        c, a, b = s[1], s[2], s[3] or []
        ct, cty = self.ex(c, env, out)
        cond = self.as_prop(ct, cty)
        if not force_join and (self.escapes(a) or self.escapes(b)):
            rest = lambda e2, o2: self.seq(stmts, i + 1, e2, o2, tail)
            if self.always_escapes(a) or (a and a[-1][0] == "expr" and a[-1][1][0] == "macro" and a[-1][1][1] == "panic"):
                out.add(f"if {cond} then")
                self.seq(a, 0, env.copy(), out.sub(), lambda e2, o2: None)
                out.add("else")
                self.seq(b, 0, env.copy(), out, rest)
                return True
            out.add(f"if {cond} then")
            self.seq(a, 0, env.copy(), out.sub(), rest)
            out.add("else")
            self.seq(b, 0, env.copy(), out.sub(), rest)
            return True
        vars_ = self.state_vars(a + b, env)
        only_panic = lambda blk: len(blk) == 1 and blk[0][0] == "expr" and blk[0][1][0] == "macro" and blk[0][1][1] in ("panic", "unreachable")
        if only_panic(a) and not b:
            out.add(f"if {cond} then none else")
            return False
        r = self.fresh() if vars_ else "_"
        out.add(f"let {r} ← (if {cond} then do")
        self.seq(a, 0, env.copy(), out.sub(4), self.join_tail(vars_))
        out.add("  else do")
        self.seq(b, 0, env.copy(), out.sub(4), self.join_tail(vars_))
        out.lines[-1] += ")"
        self.rebind(vars_, r, out)
        return False

    def ret_tail(self, e, env, out):
        self.fn_tail(e, env, out)

    def aux_open(self, kind, vars_, env, flag, ivar=None):
        """open an auxiliary definition for a loop body: parameters = the const generics and every variable in scope
        that is not part of the loop state, then [the loop index and] the state tuple `st`"""
        self.aux_n += 1
        name = f"{self.k.lean_name}_{kind}{self.aux_n}"
        others = [v for v in env.vars if v not in vars_ and v != ivar]
        binders = ([f"({' '.join(self.k.generics)} : Nat)"] if self.k.generics else []) + \
                  [f"({lname(v)} : {self.lean_ty(env.vars[v])})" for v in others]
        sty = " × ".join(self.lean_ty(env.vars[v]) for v in vars_) if vars_ else "Unit"
        if ivar is not None:
            binders.append(f"({lname(ivar)} : Nat)")
        binders.append(f"(st : {sty})")
        rty = f"({sty}) × {flag}" if flag else sty
        o = Out(2)
        o.header = f"def {name} {' '.join(binders)} : Option ({rty}) := do"
        for i, v in enumerate(vars_):
            o.add(f"let {lname(v)} := {proj('st', i, len(vars_))}")
        args = "".join(" " + a for a in list(self.k.generics) + [lname(v) for v in others])
        return name, args, o

    def aux_close(self, o):
        self.aux.append(f"/-- loop body of `{self.k.lean_name}` (GENERATED) -/\n" + o.header + "\n" + "\n".join(o.lines) + "\n")

    def do_while(self, s, env, out):
        c, body = s[1], s[2]
        if self.fuel_i >= len(self.k.fuel):
            raise TranslateError("while loop without a fuel expression in the kernel spec")
        fuel = self.k.fuel[self.fuel_i]
        self.fuel_i += 1
        vars_ = self.state_vars(body, env)
        if self.escapes_return(body):
            raise TranslateError("return inside a loop")
        st = tuple_text([lname(v) for v in vars_]) if vars_ else "()"
        r = self.fresh()
        name, args, o = self.aux_open("while", vars_, env, "Bool")
        e2 = env.copy()
        ct, cty = self.ex(c, e2, o)
        o.add(f"if {self.as_prop(ct, cty)} then")

        def ltail(e3, o3, cont=True):
            o3.add(f"pure ({st}, {'true' if cont else 'false'})")
        self.loop_tail = (self.loop_tail or []) + [ltail]
        self.loop_depth += 1
        self.seq(body, 0, e2, o.sub(), lambda e3, o3: ltail(e3, o3, True))
        self.loop_depth -= 1
        self.loop_tail = self.loop_tail[:-1]
        o.add(f"else pure ({st}, false)")
        self.aux_close(o)
        out.add(f"let {r} ← whileLoop ({name}{args}) ({fuel}) {st}")
        self.rebind(vars_, r, out)

    def escapes_return(self, stmts):
        for s in stmts:
            if s[0] == "return":
                return True
            if s[0] == "ifs" and (self.escapes_return(s[2]) or (s[3] and self.escapes_return(s[3]))):
                return True
            if s[0] in ("while", "for") and self.escapes_return(s[2] if s[0] == "while" else s[3]):
                return True
        return False

    def do_for(self, s, env, out):
        var, it, body = s[1], s[2], s[3]
        if self.escapes(body, in_loop=False):
            raise TranslateError("break/return inside a for loop")
        if it[0] == "range" and it[1] is not None and it[2] is not None and (len(it) < 4 or it[3] == ".."):
            lo, _ = self.ex(it[1], env, out, "usize")
            hi, _ = self.ex(it[2], env, out, "usize")
            vars_ = self.state_vars(body, env)
            st = tuple_text([lname(v) for v in vars_]) if vars_ else "()"
            r = self.fresh()
            name, args, o = self.aux_open("for", vars_, env, None, ivar=var)
            e2 = env.copy(); e2.vars[var] = "usize"
            self.loop_depth += 1
            saved, self.loop_tail = self.loop_tail, None
            self.seq(body, 0, e2, o, lambda e3, o3: o3.add(f"pure {st}"))
            self.loop_tail = saved
            self.loop_depth -= 1
            self.aux_close(o)
            out.add(f"let {r} ← forRange ({name}{args}) ({self.par(hi)} - {self.par(lo)}) {self.par(lo)} {st}")
            self.rebind(vars_, r, out)
            return
        if it[0] == "method" and it[2] == "iter_mut" and not it[3]:
            tgt = it[1]
            if not (tgt[0] == "index" and tgt[2][0] == "range" and tgt[2][2] is None and tgt[2][1] is not None):
                raise TranslateError("iter_mut over something else than a[lo..]")
            bpl = self.place(tgt[1], env)
            if bpl[2] != "bytes":
                raise TranslateError("iter_mut over non-bytes")
            bt = self.place_text(bpl)
            lo, _ = self.ex(tgt[2][1], env, out, "usize")
            sl = self.bind(f"sliceFrom {bt} {self.par(lo)}", out)
            # body may only assign `*var`
            e2 = Env({var: "u8"})
            o = out.sub(4)
            for st_ in body:
                if not (st_[0] == "assign" and st_[1][0] == "deref" and st_[1][1] == ("path", var)):
                    raise TranslateError("iter_mut body must only assign the element")
            r = self.fresh()
            out.add(f"let {r} ← {sl}.mapM (fun {lname(var)} => do")
            self.seq(body, 0, e2, o, lambda e3, o3: o3.add(f"pure {lname(var)}"))
            o.lines[-1] += ")"
            w = self.bind(f"copyInto {bt} {self.par(lo)} {bt}.length {r}", out)
            self.store(bpl, w, out)
            return
        raise TranslateError("unsupported for loop")

    # ---- whole function
    def run(self):
        k = self.k
        hdr, body = find_fn_in(k.source(), k.fn)
        nested_ok = k.nested_kernels()
        # statement attributes, nested items that are not kernels of their own, inner-block shadowing, `let x = &mut …` aliases and
        # re-bound `&mut` parameters are refused (tools/ktx_glue_guard.py); imports are pinned by the spec's `Imports_src` kernels
        GUARD.lint_fn(hdr + " {", body, what=f"fn {k.fn}", nested_ok=nested_ok)
        selfm, params, ret, fgen = parse_sig(hdr)
        pb = PG(lex(body)); pb.nested_ok = nested_ok
        stmts = pb.block()
        if pb.peek()[0] != "eof":
            raise TranslateError(f"trailing tokens after the body: {pb.peek()[1]!r}")
        self.top_stmts = stmts
        env = Env()
        binders = []
        gens = list(k.generics)
        for g in fgen:
            if g not in gens:
                raise TranslateError(f"const generic {g} of the fn not declared in the spec")
        if gens:
            binders.append("(" + " ".join(gens) + " : Nat)")
        if selfm is not None:
            if k.struct is None:
                raise TranslateError("method without a struct in the spec")
            env.vars["self"] = ("struct", k.struct)
            binders.append(f"(self : {self.w.structs[k.struct].lean})")
        muts = []
        for n, mb, t in params:
            ty = k.param_types.get(n) or self.conv_ty(t)
            env.vars[n] = ty
            binders.append(f"({lname(n)} : {self.lean_ty(ty)})")
            if isinstance(t, tuple) and t[0] == "ref" and t[1]:
                muts.append(n)
        rty = k.ret_type or ("unit" if ret is None else self.conv_ty(ret))
        res_tys = ([self.lean_ty(("struct", k.struct))] if selfm == "mut" else []) + [self.lean_ty(env.vars[m]) for m in muts] \
            + ([] if rty == "unit" else [self.lean_ty(rty)])
        res_ty = " × ".join(res_tys) if res_tys else "Unit"

        def fn_tail(e, env2, out2):
            comps = (["self"] if selfm == "mut" else []) + [lname(m) for m in muts]
            if e is not None:
                t, ty = self.ex(e, env2, out2, rty if isinstance(rty, str) else None)
                if ty == "prop":
                    t, ty = self.as_bool(t, ty), "bool"
                if ty != rty:
                    raise TranslateError(f"returns {ty}, declared {rty}")
                if rty != "unit":
                    comps.append(self.par(t) if len(comps) == 0 else t)
            elif rty != "unit":
                raise TranslateError("missing return value")
            out2.add("pure " + (tuple_text(comps) if comps else "()"))
        self.fn_tail = fn_tail
        out = Out(2)
        self.seq(stmts, 0, env, out, lambda e2, o2: fn_tail(None, e2, o2))
        doc = f"/-- {k.doc + ' — ' if k.doc else ''}GENERATED from `fn {k.fn}` ({k.scope or 'top level'}) in {k.file} -/\n"
        return "\n".join(self.aux) + ("\n" if self.aux else "") + doc + \
            f"def {k.lean_name} {' '.join(binders)} : Option ({res_ty}) := do\n" + "\n".join(out.lines) + "\n"


def normal_tokens(text):
    return " ".join(str(t[1]) for t in lex(text))


def translate(k: GK):
    if k.kind == "struct":
        text = strip_comments(read_src(k.file))
        for a, b in k.subst.items():
            text = text.replace(a, b)
        ms = list(re.finditer(k.scope, text))
        if len(ms) != 1:
            raise TranslateError(f"item {k.scope!r}: {len(ms)} matches; exactly one is required")
        m = ms[0]
        if not GUARD.attrs_live(GUARD.attrs_before(text, m.start()), f"item {k.scope!r}"):
            raise TranslateError(f"item {k.scope!r} is cfg-disabled")
        j = m.end()
        # up to the end of the item: `;` (tuple struct) or the matching `}`
        while text[j] not in ";{":
            j += 1
        endj = j + 1 if text[j] == ";" else balanced_end(text, j + 1)
        got = normal_tokens(text[m.start():endj])
        if got != normal_tokens(k.expect):
            raise TranslateError(f"struct definition changed: {got!r}")
        return f"/-- `{got}` — the definition in {k.file} the state mapping of this file was written for (checked token by token on every run) -/\ndef {k.lean_name} : Unit := ()\n"
    if k.kind == "const":
        text = k.source()
        ms = [m for m in re.finditer(r"\bconst\s+" + re.escape(k.fn) + r"\s*:\s*([^=;]+)=\s*([^;]+);", text)
              if GUARD.attrs_live(GUARD.attrs_before(text, m.start()), f"const {k.fn}")]
        if len(ms) != 1:
            raise TranslateError(f"const {k.fn}: {len(ms)} live definitions in its scope; exactly one is required")
        m = ms[0]
        tr = Tr(k)
        o = Out(2)
        e = PG(lex(m.group(2))).expr()
        t, ty = tr.ex(e, Env(), o, k.ret_type or tr.conv_ty(PG(lex(m.group(1))).ty()))
        if o.lines:
            raise TranslateError("constant expression that can panic")
        return (f"/-- {k.doc + ' — ' if k.doc else ''}GENERATED from `const {k.fn}` ({k.scope}) in {k.file} -/\n"
                f"def {k.lean_name} : {tr.lean_ty(ty)} := {t}\n")
    return Tr(k).run()
