//! unit b32g: the ops `b32g.<op>` are the group- and protocol-level public-API ops `<op>` of units fe64 / ed25519
//! (`x25519.*`, `ge.*`, `ed25519.*`), forwarded unchanged — nothing is cfg-gated.  They exist under a second name so
//! that the Lean driver can answer them with the 32-bit models (Impl/Ge32.lean, Impl/X25519_32.lean,
//! Impl/Ed25519_32.lean) while `<op>` is answered by the 64-bit models; C17 runs both names through the default and
//! the force-32bits builds (the latter executes them on fe32 / scalar32).
pub fn run(op: &str, a: &[&str]) -> Option<String> {
    let inner = op.strip_prefix("b32g.")?;
    match inner {
        "x25519.dh" | "x25519.base" | "x25519.iter" | "x25519.sym" => super::ops_fe64::run(inner, a),
        "ge.prog" | "ge.decode" | "ge.roundtrip" | "ge.base_mul" | "ge.double_mul" | "ge.add" | "ge.sub"
        | "ge.double" | "ge.negate" | "ed25519.keypair" | "ed25519.sign" | "ed25519.sign_kp" | "ed25519.sign_ext"
        | "ed25519.ext_public" | "ed25519.verify" | "ed25519.exchange" | "ed25519.sign_via_ext" | "ed25519.check" => {
            super::ops_ed25519::run(inner, a)
        }
        _ => None,
    }
}
