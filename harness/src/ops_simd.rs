//! unit `simd` (C16): the vectorised SHA-256 / BLAKE2 paths driven through the public hash API so that the number of
//! blocks per internal `digest_block` / `compress` call, the chaining state, the slice alignment (offset 0..=31 from
//! a 32-byte aligned address) and the BLAKE2 counter words are controlled.  See lean Driver/Simd.lean.
//! Which path runs is decided by the `-C target-feature` flags the harness is built with (cxlib.VARIANTS).
use crate::util::*;
use cryptoxide::hashing::sha2::{Context224, Context256};
use cryptoxide::hashing::{blake2b, blake2s};

/// `data` copied into a fresh allocation at an address ≡ off (mod 32); returns (backing store, start index)
fn place(data: &[u8], off: usize) -> (Vec<u8>, usize) {
    assert!(off < 32, "offset out of range");
    let mut v = vec![0x5au8; data.len() + 96];
    let base = v.as_ptr() as usize;
    let start = ((32 - base % 32) % 32) + off;
    debug_assert!((base + start) % 32 == off);
    v[start..start + data.len()].copy_from_slice(data);
    (v, start)
}

fn counter(s: &str) -> Option<(u64, u64)> {
    if s == "-" {
        return None;
    }
    let mut it = s.split(':');
    let t0 = nat(it.next().expect("t0"));
    let t1 = nat(it.next().expect("t1"));
    assert!(it.next().is_none(), "bad counter");
    Some((t0, t1))
}

macro_rules! sha {
    ($ctx:ty, $a:expr) => {{
        let (off, lens, data) = (us($a[0]), natlist($a[1]), unhex($a[2]));
        let (store, start) = place(&data, off);
        let msg = &store[start..start + data.len()];
        let mut c = <$ctx>::new();
        for p in split_at_lens(&lens, msg) {
            c.update_mut(p);
        }
        hex(&c.finalize())
    }};
}

macro_rules! blake2 {
    ($m:ident, $w:ty, $a:expr) => {{
        let (outlen, key, off) = (us($a[0]), unhex($a[1]), us($a[2]));
        let (ctr, lens, data) = (counter($a[3]), natlist($a[4]), unhex($a[5]));
        let (store, start) = place(&data, off);
        let msg = &store[start..start + data.len()];
        let mut c = if key.is_empty() { $m::ContextDyn::new(outlen) } else { $m::ContextDyn::new_keyed(outlen, &key) };
        if let Some((t0, t1)) = ctr {
            c.verif_set_counter(t0 as $w, t1 as $w);
        }
        for p in split_at_lens(&lens, msg) {
            c.update_mut(p);
        }
        let mut out = vec![0xa5u8; outlen.min(1 << 16)];
        c.finalize_at(&mut out);
        hex(&out)
    }};
}

pub fn run(op: &str, a: &[&str]) -> Option<String> {
    Some(match op {
        "simd.sha256" => sha!(Context256, a),
        "simd.sha224" => sha!(Context224, a),
        "simd.blake2b" => blake2!(blake2b, u64, a),
        "simd.blake2s" => blake2!(blake2s, u32, a),
        _ => return None,
    })
}
