//! kernel-level ops: limb kernels on explicit limb states (hooks `verif_from_state`)
use crate::util::*;
use cryptoxide::mac::Mac;

fn u32s<const N: usize>(s: &str) -> [u32; N] {
    let v: Vec<u32> = s.split(',').map(|x| x.parse::<u32>().expect("bad u32")).collect();
    assert!(v.len() == N);
    let mut a = [0u32; N];
    a.copy_from_slice(&v);
    a
}

pub fn run(op: &str, a: &[&str]) -> Option<String> {
    Some(match op {
        "ktie.poly.block" => {
            let mut p = cryptoxide::poly1305::Poly1305::verif_from_state(u32s::<5>(a[0]), u32s::<5>(a[1]), [0; 4]);
            let m = unhex(a[2]);
            assert!(m.len() == 16);
            p.input(&m);
            let h = p.verif_h();
            h.iter().map(|x| x.to_string()).collect::<Vec<_>>().join(",")
        }
        "ktie.poly.finish" => {
            let mut p = cryptoxide::poly1305::Poly1305::verif_from_state(u32s::<5>(a[0]), u32s::<5>(a[1]), u32s::<4>(a[2]));
            let mut out = [0xa5u8; 16];
            p.raw_result(&mut out);
            hex(&out)
        }
        _ => return None,
    })
}
