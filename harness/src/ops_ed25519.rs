//! unit ed25519: the Edwards group layer (`cryptoxide::curve25519::{Ge, GePartial, Scalar}`) and
//! `cryptoxide::ed25519` through their public API.  Op syntax: see lean/CxVerif/Driver/Ed25519.lean.
use crate::util::*;
use cryptoxide::curve25519::{Ge, GePartial, Scalar};
use cryptoxide::ed25519;
use cryptoxide::hashing::sha2::Sha512;

fn pt(s: &str) -> Option<Ge> {
    Ge::from_bytes(&arr::<32>(&unhex(s)))
}
fn sc(s: &str) -> Scalar {
    Scalar::from_bytes(&arr::<32>(&unhex(s)))
}

pub fn run(op: &str, a: &[&str]) -> Option<String> {
    Some(match op {
        "ge.decode" => match pt(a[0]) {
            None => "none".into(),
            Some(g) => format!("some:{}", hex(&g.to_bytes())),
        },
        "ge.roundtrip" => match pt(a[0]) {
            None => "none".into(),
            Some(g) => {
                let e1 = g.to_bytes();
                match Ge::from_bytes(&e1) {
                    None => format!("{},none", hex(&e1)),
                    Some(g2) => format!("{},{}", hex(&e1), hex(&g2.to_bytes())),
                }
            }
        },
        "ge.base_mul" => hex(&Ge::scalarmult_base(&sc(a[0])).to_bytes()),
        "ge.double_mul" => match pt(a[1]) {
            None => "none".into(),
            Some(g) => hex(&GePartial::double_scalarmult_vartime(&sc(a[0]), g, &sc(a[2])).to_bytes()),
        },
        "ge.add" => match (pt(a[0]), pt(a[1])) {
            (Some(p), Some(q)) => hex(&(&p + &q.to_cached()).to_full().to_bytes()),
            _ => "none".into(),
        },
        "ge.sub" => match (pt(a[0]), pt(a[1])) {
            (Some(p), Some(q)) => hex(&(&p - &q.to_cached()).to_full().to_bytes()),
            _ => "none".into(),
        },
        "ge.double" => match pt(a[0]) {
            None => "none".into(),
            Some(p) => format!(
                "{},{}",
                hex(&p.double().to_bytes()),
                hex(&p.clone().to_partial().double().to_bytes())
            ),
        },
        // stack machine over extended points: results are reused as operands in non-normalised representations
        // (z != 1 after scalarmult_base / double / add), which single-operation ops never exercise
        "ge.prog" => {
            let mut st: Vec<Ge> = Vec::new();
            for tok in a[0].split(';') {
                let (c, rest) = tok.split_at(1);
                match c {
                    "b" => match pt(rest) { Some(g) => st.push(g), None => return Some("none".into()) },
                    "m" => st.push(Ge::scalarmult_base(&sc(rest))),
                    "+" => { let q = st.pop()?; let p = st.pop()?; st.push((&p + &q.to_cached()).to_full()) }
                    "-" => { let q = st.pop()?; let p = st.pop()?; st.push((&p - &q.to_cached()).to_full()) }
                    "d" => { let p = st.pop()?; st.push(p.double()) }
                    "D" => { let p = st.pop()?; st.push(p.to_partial().double_full()) }
                    "e" => { let p = st.pop()?; st.push(p.double_partial().double_full()) }
                    "n" => { let p = st.pop()?; st.push(p.negate()) }
                    "c" => { let p = st.last()?.clone(); st.push(p) }
                    "x" => { let n = st.len(); if n < 2 { return Some("bad-args".into()) } st.swap(n - 1, n - 2) }
                    _ => return Some("bad-args".into()),
                }
            }
            match st.last() { Some(g) => hex(&g.to_bytes()), None => "bad-args".into() }
        }
        "ge.negate" => match pt(a[0]) {
            None => "none".into(),
            Some(p) => hex(&p.negate().to_bytes()),
        },
        "ed25519.keypair" => {
            let (kp, pk) = ed25519::keypair(&arr::<32>(&unhex(a[0])));
            format!("{},{}", hex(&kp), hex(&pk))
        }
        "ed25519.sign" => {
            let (kp, _) = ed25519::keypair(&arr::<32>(&unhex(a[0])));
            hex(&ed25519::signature(&unhex(a[1]), &kp))
        }
        "ed25519.sign_kp" => hex(&ed25519::signature(&unhex(a[1]), &arr::<64>(&unhex(a[0])))),
        "ed25519.sign_ext" => hex(&ed25519::signature_extended(&unhex(a[1]), &arr::<64>(&unhex(a[0])))),
        "ed25519.ext_public" => hex(&ed25519::extended_to_public(&arr::<64>(&unhex(a[0])))),
        "ed25519.verify" => boolstr(ed25519::verify(
            &unhex(a[0]),
            &arr::<32>(&unhex(a[1])),
            &arr::<64>(&unhex(a[2])),
        )),
        "ed25519.exchange" => hex(&ed25519::exchange(&arr::<32>(&unhex(a[0])), &arr::<32>(&unhex(a[1])))),
        "ed25519.sign_via_ext" => {
            // the extended secret as a user of the crate derives it: SHA-512 of the seed, low half clamped
            let mut ext = Sha512::new().update(&unhex(a[0])).finalize();
            ext[0] &= 248;
            ext[31] &= 63;
            ext[31] |= 64;
            hex(&ed25519::signature_extended(&unhex(a[1]), &ext))
        }
        "ed25519.check" => {
            let seed = arr::<32>(&unhex(a[0]));
            let msg = unhex(a[1]);
            let (kp, pk) = ed25519::keypair(&seed);
            let sig = ed25519::signature(&msg, &kp);
            let mut want_kp = seed.to_vec();
            want_kp.extend_from_slice(&unhex(a[2]));
            boolstr(
                pk.to_vec() == unhex(a[2])
                    && sig.to_vec() == unhex(a[3])
                    && ed25519::verify(&msg, &pk, &sig)
                    && kp.to_vec() == want_kp,
            )
        }
        _ => return None,
    })
}
