//! cxharness — runs the line protocol against the real cryptoxide crate.
//! `cxharness run` : one case per stdin line, one answer per stdout line.
//! A panic inside the library is reported as `PANIC`.
use std::io::{BufRead, Write};
use std::panic;

mod util;
mod ops_all;
mod ops_trace;
use ops_all::dispatch;

fn main() {
    let mode = std::env::args().nth(1).unwrap_or_else(|| "run".into());
    if mode == "features" {
        println!(
            "sse2={} sse4.1={} avx={} avx2={} force32={} debug_assertions={}",
            cfg!(target_feature = "sse2"),
            cfg!(target_feature = "sse4.1"),
            cfg!(target_feature = "avx"),
            cfg!(target_feature = "avx2"),
            cfg!(feature = "force-32bits"),
            cfg!(debug_assertions)
        );
        return;
    }
    if mode == "trace" {
        let args: Vec<String> = std::env::args().skip(2).collect();
        let a: Vec<&str> = args.iter().map(|s| s.as_str()).collect();
        match ops_trace::run(a[0], &a[1..]) {
            Some(r) => println!("{}", r),
            None => println!("bad-op"),
        }
        return;
    }
    panic::set_hook(Box::new(|_| {}));
    let stdin = std::io::stdin();
    let stdout = std::io::stdout();
    let mut out = std::io::BufWriter::new(stdout.lock());
    for line in stdin.lock().lines() {
        let line = line.unwrap();
        let toks: Vec<&str> = line.trim().split(' ').collect();
        if toks.is_empty() || toks[0].is_empty() {
            writeln!(out, "bad-op").unwrap();
            continue;
        }
        let r = panic::catch_unwind(|| dispatch(toks[0], &toks[1..]));
        match r {
            Ok(s) => writeln!(out, "{}", s).unwrap(),
            Err(_) => writeln!(out, "PANIC").unwrap(),
        }
    }
    out.flush().unwrap();
}
