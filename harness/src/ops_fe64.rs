//! unit fe64: field-expression programs through the public API of `cryptoxide::curve25519::Fe`,
//! X25519 (`curve25519`, `curve25519_base`, `x25519::{dh, base}` and the wrapper types).
//! Op syntax: see lean/CxVerif/Driver/Fe64.lean.
use crate::util::*;
use core::convert::TryFrom;
use cryptoxide::curve25519::{curve25519, curve25519_base, Fe};
use cryptoxide::x25519;

fn fe_prog(prog: &str) -> Option<String> {
    let mut st: Vec<Fe> = Vec::new();
    let mut outs: Vec<String> = Vec::new();
    for tok in prog.split(';') {
        let (head, rest) = match tok.chars().next() {
            Some(c) => (c, &tok[c.len_utf8()..]),
            None => return None,
        };
        match head {
            'b' => {
                let v = unhex(rest);
                if v.len() != 32 { return None; }
                st.push(Fe::from_bytes(&arr::<32>(&v)));
            }
            'c' => st.push(match rest {
                "0" => Fe::ZERO, "1" => Fe::ONE, "s" => Fe::SQRTM1, "d" => Fe::D, "2" => Fe::D2,
                _ => return None,
            }),
            '+' | '-' | '*' if rest.is_empty() => {
                let b = st.pop()?;
                let a = st.pop()?;
                st.push(match head { '+' => &a + &b, '-' => &a - &b, _ => &a * &b });
            }
            '~' if rest.is_empty() => { let a = st.pop()?; st.push(-&a); }
            's' if rest.is_empty() => { let a = st.pop()?; st.push(a.square()); }
            'r' => { let n = rest.parse::<usize>().ok()?; let a = st.pop()?; st.push(a.square_repeatdly(n)); }
            'q' if rest.is_empty() => { let a = st.pop()?; st.push(a.square_and_double()); }
            'i' if rest.is_empty() => { let a = st.pop()?; st.push(a.invert()); }
            'w' if rest.is_empty() => { let a = st.pop()?; st.push(a.pow25523()); }
            'd' if rest.is_empty() => { let a = st.last()?.clone(); st.push(a); }
            'x' if rest.is_empty() => { let b = st.pop()?; let a = st.pop()?; st.push(b); st.push(a); }
            'p' if rest.is_empty() => { st.pop()?; }
            'o' => {
                let k = rest.parse::<usize>().ok()?;
                if k >= st.len() { return None; }
                let v = st[st.len() - 1 - k].clone();
                st.push(v);
            }
            't' if rest.is_empty() => outs.push(hex(&st.last()?.to_bytes())),
            'z' if rest.is_empty() => outs.push(boolstr(st.last()?.is_nonzero())),
            'n' if rest.is_empty() => outs.push(boolstr(st.last()?.is_negative())),
            '=' if rest.is_empty() => {
                if st.len() < 2 { return None; }
                let b = &st[st.len() - 1];
                let a = &st[st.len() - 2];
                outs.push(boolstr(a == b));
            }
            _ => return None,
        }
    }
    Some(if outs.is_empty() { "-".to_string() } else { outs.join(",") })
}

pub fn run(op: &str, a: &[&str]) -> Option<String> {
    Some(match op {
        "fe.prog" => match fe_prog(a[0]) { Some(s) => s, None => "bad-args".to_string() },
        "x25519.dh" => {
            let (n, u) = (arr::<32>(&unhex(a[0])), arr::<32>(&unhex(a[1])));
            let r1 = curve25519(&n, &u);
            let ss: [u8; 32] = x25519::dh(&x25519::SecretKey::from(n), &x25519::PublicKey::from(u)).into();
            format!("{},{}", hex(&r1), hex(&ss))
        }
        "x25519.base" => {
            let n = arr::<32>(&unhex(a[0]));
            let r1 = curve25519_base(&n);
            let pk = x25519::base(&x25519::SecretKey::from(n));
            format!("{},{}", hex(&r1), hex(pk.as_ref()))
        }
        "x25519.iter" => {
            let cnt = us(a[0]);
            let (mut k, mut u) = (arr::<32>(&unhex(a[1])), arr::<32>(&unhex(a[2])));
            for _ in 0..cnt {
                let r = curve25519(&k, &u);
                u = k;
                k = r;
            }
            hex(&k)
        }
        "x25519.sym" => {
            let (x, y) = (arr::<32>(&unhex(a[0])), arr::<32>(&unhex(a[1])));
            let (px, py) = (curve25519_base(&x), curve25519_base(&y));
            format!("{},{}", hex(&curve25519(&x, &py)), hex(&curve25519(&y, &px)))
        }
        "x25519.tryfrom" => {
            let v = unhex(a[0]);
            let f = |ok: bool| if ok { "ok" } else { "err" };
            let sk = match x25519::SecretKey::try_from(&v[..]) {
                Ok(k) => { let b: [u8; 32] = k.into(); b[..] == v[..] }
                Err(()) => false,
            };
            let pk = match x25519::PublicKey::try_from(&v[..]) {
                Ok(k) => k.as_ref() == &v[..],
                Err(()) => false,
            };
            let ss = match x25519::SharedSecret::try_from(&v[..]) {
                Ok(k) => k.as_ref() == &v[..],
                Err(()) => false,
            };
            format!("{},{},{}", f(sk), f(pk), f(ss))
        }
        _ => return None,
    })
}
