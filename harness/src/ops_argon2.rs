//! unit argon2: `cryptoxide::kdf::argon2` through its public API (`Params` builder, `argon2_at`, `argon2::<T>`).
//! See lean/CxVerif/Driver/Argon2.lean for the op table.
use crate::util::*;
use cryptoxide::kdf::argon2::{self, Params};

/// `argon2::<T>` for the const sizes listed in Driver/Argon2.lean `constSizes`
fn fixed(params: &Params, tl: usize, pwd: &[u8], salt: &[u8], key: &[u8], aad: &[u8]) -> Option<Vec<u8>> {
    macro_rules! sizes {
        ($($n:literal),*) => {
            match tl {
                $($n => Some(argon2::argon2::<$n>(params, pwd, salt, key, aad).to_vec()),)*
                _ => None,
            }
        };
    }
    sizes!(1, 4, 5, 16, 31, 32, 33, 63, 64, 65, 96, 128, 300)
}

fn hash(a: &[&str]) -> String {
    let base = match a[0] {
        "d" => Params::argon2d(),
        "i" => Params::argon2i(),
        "id" => Params::argon2id(),
        _ => panic!("bad type"),
    };
    let num = |s: &str| -> u32 {
        let n = nat(s);
        assert!(n < (1u64 << 32), "bad u32");
        n as u32
    };
    let (v, t, m, p) = (num(a[1]), num(a[2]), num(a[3]), num(a[4]));
    let tl = us(a[5]);
    let (pwd, salt, key, aad) = (unhex(a[6]), unhex(a[7]), unhex(a[8]), unhex(a[9]));
    let params = base
        .memory_kb(m)
        .and_then(|s| s.iterations(t))
        .and_then(|s| s.parallelism(p))
        .and_then(|s| s.version(v));
    let params = match params {
        Ok(s) => s,
        Err(e) => return format!("ERR:{:?}", e),
    };
    let mut tag = vec![0xa5u8; tl];
    argon2::argon2_at(&params, &pwd, &salt, &key, &aad, &mut tag);
    match fixed(&params, tl, &pwd, &salt, &key, &aad) {
        Some(t2) => format!("{},{}", hex(&tag), hex(&t2)),
        None => hex(&tag),
    }
}

/// `argon2.build`: the builder calls of `prog` applied in order (see Driver/Argon2.lean)
fn build(a: &[&str]) -> String {
    let mut params = match a[0] {
        "d" => Params::argon2d(),
        "i" => Params::argon2i(),
        "id" => Params::argon2id(),
        _ => panic!("bad type"),
    };
    if a[1] != "-" {
        for call in a[1].split(',') {
            if call.is_empty() || !call.is_ascii() {
                return "bad-args".to_string();
            }
            let (c, n) = call.split_at(1);
            let n = nat(n);
            assert!(n < (1u64 << 32), "bad u32");
            let n = n as u32;
            let r = match c {
                "m" => params.memory_kb(n),
                "p" => params.parallelism(n),
                "t" => params.iterations(n),
                "v" => params.version(n),
                _ => return "bad-args".to_string(),
            };
            params = match r {
                Ok(s) => s,
                Err(e) => return format!("ERR:{:?}", e),
            };
        }
    }
    let tl = us(a[2]);
    let (pwd, salt, key, aad) = (unhex(a[3]), unhex(a[4]), unhex(a[5]), unhex(a[6]));
    let mut tag = vec![0xa5u8; tl];
    argon2::argon2_at(&params, &pwd, &salt, &key, &aad, &mut tag);
    match fixed(&params, tl, &pwd, &salt, &key, &aad) {
        Some(t2) => format!("{},{}", hex(&tag), hex(&t2)),
        None => hex(&tag),
    }
}

pub fn run(op: &str, a: &[&str]) -> Option<String> {
    match op {
        "argon2.hash" if a.len() == 10 => Some(hash(a)),
        "argon2.build" if a.len() == 7 => Some(build(a)),
        _ => None,
    }
}
