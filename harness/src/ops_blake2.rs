//! unit blake2: BLAKE2b / BLAKE2s through the modern API `cryptoxide::hashing::{blake2b, blake2s}`
//! (Context<BITS>, ContextDyn) and the one-shot functions `hashing::blake2b_256` …  See lean Driver/Blake2.lean.
use crate::util::*;
use cryptoxide::hashing::{self, blake2b, blake2s};

/// the operations of a context history, over the three APIs
trait Hctx: Clone {
    fn upd(self, d: &[u8]) -> Self;
    fn updm(&mut self, d: &[u8]);
    fn rst(&mut self);
    fn rkey(&mut self, k: &[u8]);
    fn fin(self) -> Vec<u8>;
    fn finr(&mut self) -> Vec<u8>;
    fn finrk(&mut self, k: &[u8]) -> Vec<u8>;
    fn setc(&mut self, t0: u64, t1: u64);
}

macro_rules! impl_generic {
    ($m:ident, $w:ty) => {
        impl<const BITS: usize> Hctx for $m::Context<BITS> {
            fn upd(self, d: &[u8]) -> Self { self.update(d) }
            fn updm(&mut self, d: &[u8]) { self.update_mut(d) }
            fn rst(&mut self) { self.reset() }
            fn rkey(&mut self, k: &[u8]) { self.reset_with_key(k) }
            fn fin(self) -> Vec<u8> { let mut o = vec![0xa5u8; (BITS + 7) / 8]; self.finalize_at(&mut o); o }
            fn finr(&mut self) -> Vec<u8> { let mut o = vec![0xa5u8; (BITS + 7) / 8]; self.finalize_reset_at(&mut o); o }
            fn finrk(&mut self, k: &[u8]) -> Vec<u8> {
                let mut o = vec![0xa5u8; (BITS + 7) / 8];
                self.finalize_reset_with_key_at(k, &mut o);
                o
            }
            fn setc(&mut self, t0: u64, t1: u64) {
                assert!(t0 <= <$w>::MAX as u64 && t1 <= <$w>::MAX as u64, "bad counter word");
                self.verif_set_counter(t0 as $w, t1 as $w)
            }
        }
        impl Hctx for $m::ContextDyn {
            fn upd(self, d: &[u8]) -> Self { self.update(d) }
            fn updm(&mut self, d: &[u8]) { self.update_mut(d) }
            fn rst(&mut self) { self.reset() }
            fn rkey(&mut self, k: &[u8]) { self.reset_with_key(k) }
            fn fin(self) -> Vec<u8> { let mut o = vec![0xa5u8; self.output_bits() / 8]; self.finalize_at(&mut o); o }
            fn finr(&mut self) -> Vec<u8> { let mut o = vec![0xa5u8; self.output_bits() / 8]; self.finalize_reset_at(&mut o); o }
            fn finrk(&mut self, k: &[u8]) -> Vec<u8> {
                let mut o = vec![0xa5u8; self.output_bits() / 8];
                self.finalize_reset_with_key_at(k, &mut o);
                o
            }
            fn setc(&mut self, t0: u64, t1: u64) {
                assert!(t0 <= <$w>::MAX as u64 && t1 <= <$w>::MAX as u64, "bad counter word");
                self.verif_set_counter(t0 as $w, t1 as $w)
            }
        }
    };
}
impl_generic!(blake2b, u64);
impl_generic!(blake2s, u32);

/// the array-returning functions exist only for the sizes of `context_finalize!`
#[derive(Clone)]
struct Std<T>(T);
macro_rules! impl_std {
    ($t:ty, $w:ty) => {
        impl Hctx for Std<$t> {
            fn upd(self, d: &[u8]) -> Self { Std(self.0.update(d)) }
            fn updm(&mut self, d: &[u8]) { self.0.update_mut(d) }
            fn rst(&mut self) { self.0.reset() }
            fn rkey(&mut self, k: &[u8]) { self.0.reset_with_key(k) }
            fn fin(self) -> Vec<u8> { self.0.finalize().to_vec() }
            fn finr(&mut self) -> Vec<u8> { self.0.finalize_reset().to_vec() }
            fn finrk(&mut self, k: &[u8]) -> Vec<u8> { self.0.finalize_reset_with_key(k).to_vec() }
            fn setc(&mut self, t0: u64, t1: u64) {
                assert!(t0 <= <$w>::MAX as u64 && t1 <= <$w>::MAX as u64, "bad counter word");
                self.0.verif_set_counter(t0 as $w, t1 as $w)
            }
        }
    };
}
impl_std!(blake2b::Context<224>, u64);
impl_std!(blake2b::Context<256>, u64);
impl_std!(blake2b::Context<384>, u64);
impl_std!(blake2b::Context<512>, u64);
impl_std!(blake2s::Context<224>, u32);
impl_std!(blake2s::Context<256>, u32);

fn tokdata(t: &str) -> Vec<u8> {
    if t.len() <= 1 { Vec::new() } else { unhex(&t[1..]) }
}

/// run a history: see the token list in lean Driver/Blake2.lean
fn run_prog<C: Hctx>(ctx: C, prog: &str) -> String {
    let mut cur = ctx;
    let mut stack: Vec<C> = Vec::new();
    let mut outs: Vec<String> = Vec::new();
    for tok in prog.split(';') {
        match tok.as_bytes().first().copied() {
            Some(b'u') => { cur = cur.upd(&tokdata(tok)); }
            Some(b'm') => { cur.updm(&tokdata(tok)); }
            Some(b'c') if tok.len() == 1 => stack.push(cur.clone()),
            Some(b'x') if tok.len() == 1 => {
                if let Some(top) = stack.last_mut() { std::mem::swap(top, &mut cur); }
            }
            Some(b'r') if tok.len() == 1 => cur.rst(),
            Some(b'k') => cur.rkey(&tokdata(tok)),
            Some(b'F') if tok.len() == 1 => outs.push(hex(&cur.finr())),
            Some(b'G') => outs.push(hex(&cur.finrk(&tokdata(tok)))),
            Some(b'd') if tok.len() == 1 => outs.push(hex(&cur.clone().fin())),
            Some(b'T') => {
                let mut it = tok[1..].split(':');
                let (t0, t1) = (nat(it.next().unwrap()), nat(it.next().unwrap()));
                cur.setc(t0, t1);
            }
            _ => return "bad-args".to_string(),
        }
    }
    if outs.is_empty() { "-".to_string() } else { outs.join(",") }
}

macro_rules! family {
    ($m:ident, $hash_ctx:ident, $hctx_ctx:ident, $new_ctx:ident) => {
        fn $new_ctx<const BITS: usize>(key: &[u8]) -> $m::Context<BITS> {
            if key.is_empty() { $m::Context::<BITS>::new() } else { $m::Context::<BITS>::new_keyed(key) }
        }
        fn $hash_ctx<const BITS: usize>(key: &[u8], msg: &[u8]) -> String {
            let mut out = vec![0xa5u8; (BITS + 7) / 8];
            $new_ctx::<BITS>(key).update(msg).finalize_at(&mut out);
            hex(&out)
        }
        fn $hctx_ctx<const BITS: usize>(key: &[u8], prog: &str) -> String {
            run_prog($new_ctx::<BITS>(key), prog)
        }
    };
}
family!(blake2b, hash_ctx_b, hctx_ctx_b, new_ctx_b);
family!(blake2s, hash_ctx_s, hctx_ctx_s, new_ctx_s);

fn new_dyn_b(outlen: usize, key: &[u8]) -> blake2b::ContextDyn {
    if key.is_empty() { blake2b::ContextDyn::new(outlen) } else { blake2b::ContextDyn::new_keyed(outlen, key) }
}
fn new_dyn_s(outlen: usize, key: &[u8]) -> blake2s::ContextDyn {
    if key.is_empty() { blake2s::ContextDyn::new(outlen) } else { blake2s::ContextDyn::new_keyed(outlen, key) }
}
fn hash_dyn_b(outlen: usize, key: &[u8], msg: &[u8]) -> String {
    let c = new_dyn_b(outlen, key).update(msg);
    let mut out = vec![0xa5u8; outlen.min(1 << 20)];
    c.finalize_at(&mut out);
    hex(&out)
}
fn hash_dyn_s(outlen: usize, key: &[u8], msg: &[u8]) -> String {
    let c = new_dyn_s(outlen, key).update(msg);
    let mut out = vec![0xa5u8; outlen.min(1 << 20)];
    c.finalize_at(&mut out);
    hex(&out)
}

pub fn run(op: &str, a: &[&str]) -> Option<String> {
    Some(match op {
        "hash.blake2b" => {
            let (n, key, rest) = (us(a[0]), &unhex(a[1])[..], &unhex(a[2])[..]);
            let first = match n {
                0 => hash_ctx_b::<0>(key, rest),
                1 => hash_ctx_b::<8>(key, rest),
                2 => hash_ctx_b::<16>(key, rest),
                3 => hash_ctx_b::<24>(key, rest),
                4 => hash_ctx_b::<32>(key, rest),
                5 => hash_ctx_b::<40>(key, rest),
                6 => hash_ctx_b::<48>(key, rest),
                7 => hash_ctx_b::<56>(key, rest),
                8 => hash_ctx_b::<64>(key, rest),
                9 => hash_ctx_b::<72>(key, rest),
                10 => hash_ctx_b::<80>(key, rest),
                11 => hash_ctx_b::<88>(key, rest),
                12 => hash_ctx_b::<96>(key, rest),
                13 => hash_ctx_b::<104>(key, rest),
                14 => hash_ctx_b::<112>(key, rest),
                15 => hash_ctx_b::<120>(key, rest),
                16 => hash_ctx_b::<128>(key, rest),
                17 => hash_ctx_b::<136>(key, rest),
                18 => hash_ctx_b::<144>(key, rest),
                19 => hash_ctx_b::<152>(key, rest),
                20 => hash_ctx_b::<160>(key, rest),
                21 => hash_ctx_b::<168>(key, rest),
                22 => hash_ctx_b::<176>(key, rest),
                23 => hash_ctx_b::<184>(key, rest),
                24 => hash_ctx_b::<192>(key, rest),
                25 => hash_ctx_b::<200>(key, rest),
                26 => hash_ctx_b::<208>(key, rest),
                27 => hash_ctx_b::<216>(key, rest),
                28 => hash_ctx_b::<224>(key, rest),
                29 => hash_ctx_b::<232>(key, rest),
                30 => hash_ctx_b::<240>(key, rest),
                31 => hash_ctx_b::<248>(key, rest),
                32 => hash_ctx_b::<256>(key, rest),
                33 => hash_ctx_b::<264>(key, rest),
                34 => hash_ctx_b::<272>(key, rest),
                35 => hash_ctx_b::<280>(key, rest),
                36 => hash_ctx_b::<288>(key, rest),
                37 => hash_ctx_b::<296>(key, rest),
                38 => hash_ctx_b::<304>(key, rest),
                39 => hash_ctx_b::<312>(key, rest),
                40 => hash_ctx_b::<320>(key, rest),
                41 => hash_ctx_b::<328>(key, rest),
                42 => hash_ctx_b::<336>(key, rest),
                43 => hash_ctx_b::<344>(key, rest),
                44 => hash_ctx_b::<352>(key, rest),
                45 => hash_ctx_b::<360>(key, rest),
                46 => hash_ctx_b::<368>(key, rest),
                47 => hash_ctx_b::<376>(key, rest),
                48 => hash_ctx_b::<384>(key, rest),
                49 => hash_ctx_b::<392>(key, rest),
                50 => hash_ctx_b::<400>(key, rest),
                51 => hash_ctx_b::<408>(key, rest),
                52 => hash_ctx_b::<416>(key, rest),
                53 => hash_ctx_b::<424>(key, rest),
                54 => hash_ctx_b::<432>(key, rest),
                55 => hash_ctx_b::<440>(key, rest),
                56 => hash_ctx_b::<448>(key, rest),
                57 => hash_ctx_b::<456>(key, rest),
                58 => hash_ctx_b::<464>(key, rest),
                59 => hash_ctx_b::<472>(key, rest),
                60 => hash_ctx_b::<480>(key, rest),
                61 => hash_ctx_b::<488>(key, rest),
                62 => hash_ctx_b::<496>(key, rest),
                63 => hash_ctx_b::<504>(key, rest),
                64 => hash_ctx_b::<512>(key, rest),
                65 => hash_ctx_b::<520>(key, rest),
                66 => hash_ctx_b::<528>(key, rest),
                _ => return Some("bad-op".to_string()),
            };
            format!("{},{}", first, hash_dyn_b(n, key, rest))
        }
        "hash.blake2s" => {
            let (n, key, rest) = (us(a[0]), &unhex(a[1])[..], &unhex(a[2])[..]);
            let first = match n {
                0 => hash_ctx_s::<0>(key, rest),
                1 => hash_ctx_s::<8>(key, rest),
                2 => hash_ctx_s::<16>(key, rest),
                3 => hash_ctx_s::<24>(key, rest),
                4 => hash_ctx_s::<32>(key, rest),
                5 => hash_ctx_s::<40>(key, rest),
                6 => hash_ctx_s::<48>(key, rest),
                7 => hash_ctx_s::<56>(key, rest),
                8 => hash_ctx_s::<64>(key, rest),
                9 => hash_ctx_s::<72>(key, rest),
                10 => hash_ctx_s::<80>(key, rest),
                11 => hash_ctx_s::<88>(key, rest),
                12 => hash_ctx_s::<96>(key, rest),
                13 => hash_ctx_s::<104>(key, rest),
                14 => hash_ctx_s::<112>(key, rest),
                15 => hash_ctx_s::<120>(key, rest),
                16 => hash_ctx_s::<128>(key, rest),
                17 => hash_ctx_s::<136>(key, rest),
                18 => hash_ctx_s::<144>(key, rest),
                19 => hash_ctx_s::<152>(key, rest),
                20 => hash_ctx_s::<160>(key, rest),
                21 => hash_ctx_s::<168>(key, rest),
                22 => hash_ctx_s::<176>(key, rest),
                23 => hash_ctx_s::<184>(key, rest),
                24 => hash_ctx_s::<192>(key, rest),
                25 => hash_ctx_s::<200>(key, rest),
                26 => hash_ctx_s::<208>(key, rest),
                27 => hash_ctx_s::<216>(key, rest),
                28 => hash_ctx_s::<224>(key, rest),
                29 => hash_ctx_s::<232>(key, rest),
                30 => hash_ctx_s::<240>(key, rest),
                31 => hash_ctx_s::<248>(key, rest),
                32 => hash_ctx_s::<256>(key, rest),
                33 => hash_ctx_s::<264>(key, rest),
                34 => hash_ctx_s::<272>(key, rest),
                _ => return Some("bad-op".to_string()),
            };
            format!("{},{}", first, hash_dyn_s(n, key, rest))
        }
        "hashdyn.blake2b" => hash_dyn_b(us(a[0]), &unhex(a[1]), &unhex(a[2])),
        "hashdyn.blake2s" => hash_dyn_s(us(a[0]), &unhex(a[1]), &unhex(a[2])),
        "finat.blake2b" => {
            let c = new_dyn_b(us(a[0]), &unhex(a[2])).update(&unhex(a[3]));
            let mut out = vec![0xa5u8; us(a[1]).min(1 << 20)];
            c.finalize_at(&mut out);
            hex(&out)
        }
        "finat.blake2s" => {
            let c = new_dyn_s(us(a[0]), &unhex(a[2])).update(&unhex(a[3]));
            let mut out = vec![0xa5u8; us(a[1]).min(1 << 20)];
            c.finalize_at(&mut out);
            hex(&out)
        }
        "hashbits.blake2b" => {
            let (key, rest) = (&unhex(a[1])[..], &unhex(a[2])[..]);
            match us(a[0]) {
                0 => hash_ctx_b::<0>(key, rest),
                1 => hash_ctx_b::<1>(key, rest),
                7 => hash_ctx_b::<7>(key, rest),
                9 => hash_ctx_b::<9>(key, rest),
                15 => hash_ctx_b::<15>(key, rest),
                17 => hash_ctx_b::<17>(key, rest),
                255 => hash_ctx_b::<255>(key, rest),
                257 => hash_ctx_b::<257>(key, rest),
                383 => hash_ctx_b::<383>(key, rest),
                504 => hash_ctx_b::<504>(key, rest),
                505 => hash_ctx_b::<505>(key, rest),
                511 => hash_ctx_b::<511>(key, rest),
                513 => hash_ctx_b::<513>(key, rest),
                519 => hash_ctx_b::<519>(key, rest),
                520 => hash_ctx_b::<520>(key, rest),
                521 => hash_ctx_b::<521>(key, rest),
                1024 => hash_ctx_b::<1024>(key, rest),
                _ => "bad-op".to_string(),
            }
        }
        "hashbits.blake2s" => {
            let (key, rest) = (&unhex(a[1])[..], &unhex(a[2])[..]);
            match us(a[0]) {
                0 => hash_ctx_s::<0>(key, rest),
                1 => hash_ctx_s::<1>(key, rest),
                7 => hash_ctx_s::<7>(key, rest),
                9 => hash_ctx_s::<9>(key, rest),
                15 => hash_ctx_s::<15>(key, rest),
                17 => hash_ctx_s::<17>(key, rest),
                127 => hash_ctx_s::<127>(key, rest),
                129 => hash_ctx_s::<129>(key, rest),
                248 => hash_ctx_s::<248>(key, rest),
                249 => hash_ctx_s::<249>(key, rest),
                255 => hash_ctx_s::<255>(key, rest),
                257 => hash_ctx_s::<257>(key, rest),
                263 => hash_ctx_s::<263>(key, rest),
                264 => hash_ctx_s::<264>(key, rest),
                265 => hash_ctx_s::<265>(key, rest),
                512 => hash_ctx_s::<512>(key, rest),
                _ => "bad-op".to_string(),
            }
        }
        "hash.blake2b_224" => { let m = unhex(a[0]); format!("{},{}", hex(&hashing::blake2b_224(&m)), hex(&blake2b::Blake2b::<224>::new().update(&m).finalize())) }
        "hash.blake2b_256" => { let m = unhex(a[0]); format!("{},{}", hex(&hashing::blake2b_256(&m)), hex(&blake2b::Blake2b::<256>::new().update(&m).finalize())) }
        "hash.blake2b_384" => { let m = unhex(a[0]); format!("{},{}", hex(&hashing::blake2b_384(&m)), hex(&blake2b::Blake2b::<384>::new().update(&m).finalize())) }
        "hash.blake2b_512" => { let m = unhex(a[0]); format!("{},{}", hex(&hashing::blake2b_512(&m)), hex(&blake2b::Blake2b::<512>::new().update(&m).finalize())) }
        "hash.blake2s_224" => { let m = unhex(a[0]); format!("{},{}", hex(&hashing::blake2s_224(&m)), hex(&blake2s::Blake2s::<224>::new().update(&m).finalize())) }
        "hash.blake2s_256" => { let m = unhex(a[0]); format!("{},{}", hex(&hashing::blake2s_256(&m)), hex(&blake2s::Blake2s::<256>::new().update(&m).finalize())) }
        "hctx.blake2b" => {
            let (key, rest) = (&unhex(a[1])[..], a[2]);
            match us(a[0]) {
                0 => hctx_ctx_b::<0>(key, rest),
                1 => hctx_ctx_b::<8>(key, rest),
                2 => hctx_ctx_b::<16>(key, rest),
                3 => hctx_ctx_b::<24>(key, rest),
                4 => hctx_ctx_b::<32>(key, rest),
                5 => hctx_ctx_b::<40>(key, rest),
                6 => hctx_ctx_b::<48>(key, rest),
                7 => hctx_ctx_b::<56>(key, rest),
                8 => hctx_ctx_b::<64>(key, rest),
                9 => hctx_ctx_b::<72>(key, rest),
                10 => hctx_ctx_b::<80>(key, rest),
                11 => hctx_ctx_b::<88>(key, rest),
                12 => hctx_ctx_b::<96>(key, rest),
                13 => hctx_ctx_b::<104>(key, rest),
                14 => hctx_ctx_b::<112>(key, rest),
                15 => hctx_ctx_b::<120>(key, rest),
                16 => hctx_ctx_b::<128>(key, rest),
                17 => hctx_ctx_b::<136>(key, rest),
                18 => hctx_ctx_b::<144>(key, rest),
                19 => hctx_ctx_b::<152>(key, rest),
                20 => hctx_ctx_b::<160>(key, rest),
                21 => hctx_ctx_b::<168>(key, rest),
                22 => hctx_ctx_b::<176>(key, rest),
                23 => hctx_ctx_b::<184>(key, rest),
                24 => hctx_ctx_b::<192>(key, rest),
                25 => hctx_ctx_b::<200>(key, rest),
                26 => hctx_ctx_b::<208>(key, rest),
                27 => hctx_ctx_b::<216>(key, rest),
                28 => hctx_ctx_b::<224>(key, rest),
                29 => hctx_ctx_b::<232>(key, rest),
                30 => hctx_ctx_b::<240>(key, rest),
                31 => hctx_ctx_b::<248>(key, rest),
                32 => hctx_ctx_b::<256>(key, rest),
                33 => hctx_ctx_b::<264>(key, rest),
                34 => hctx_ctx_b::<272>(key, rest),
                35 => hctx_ctx_b::<280>(key, rest),
                36 => hctx_ctx_b::<288>(key, rest),
                37 => hctx_ctx_b::<296>(key, rest),
                38 => hctx_ctx_b::<304>(key, rest),
                39 => hctx_ctx_b::<312>(key, rest),
                40 => hctx_ctx_b::<320>(key, rest),
                41 => hctx_ctx_b::<328>(key, rest),
                42 => hctx_ctx_b::<336>(key, rest),
                43 => hctx_ctx_b::<344>(key, rest),
                44 => hctx_ctx_b::<352>(key, rest),
                45 => hctx_ctx_b::<360>(key, rest),
                46 => hctx_ctx_b::<368>(key, rest),
                47 => hctx_ctx_b::<376>(key, rest),
                48 => hctx_ctx_b::<384>(key, rest),
                49 => hctx_ctx_b::<392>(key, rest),
                50 => hctx_ctx_b::<400>(key, rest),
                51 => hctx_ctx_b::<408>(key, rest),
                52 => hctx_ctx_b::<416>(key, rest),
                53 => hctx_ctx_b::<424>(key, rest),
                54 => hctx_ctx_b::<432>(key, rest),
                55 => hctx_ctx_b::<440>(key, rest),
                56 => hctx_ctx_b::<448>(key, rest),
                57 => hctx_ctx_b::<456>(key, rest),
                58 => hctx_ctx_b::<464>(key, rest),
                59 => hctx_ctx_b::<472>(key, rest),
                60 => hctx_ctx_b::<480>(key, rest),
                61 => hctx_ctx_b::<488>(key, rest),
                62 => hctx_ctx_b::<496>(key, rest),
                63 => hctx_ctx_b::<504>(key, rest),
                64 => hctx_ctx_b::<512>(key, rest),
                65 => hctx_ctx_b::<520>(key, rest),
                66 => hctx_ctx_b::<528>(key, rest),
                _ => "bad-op".to_string(),
            }
        }
        "hctx.blake2s" => {
            let (key, rest) = (&unhex(a[1])[..], a[2]);
            match us(a[0]) {
                0 => hctx_ctx_s::<0>(key, rest),
                1 => hctx_ctx_s::<8>(key, rest),
                2 => hctx_ctx_s::<16>(key, rest),
                3 => hctx_ctx_s::<24>(key, rest),
                4 => hctx_ctx_s::<32>(key, rest),
                5 => hctx_ctx_s::<40>(key, rest),
                6 => hctx_ctx_s::<48>(key, rest),
                7 => hctx_ctx_s::<56>(key, rest),
                8 => hctx_ctx_s::<64>(key, rest),
                9 => hctx_ctx_s::<72>(key, rest),
                10 => hctx_ctx_s::<80>(key, rest),
                11 => hctx_ctx_s::<88>(key, rest),
                12 => hctx_ctx_s::<96>(key, rest),
                13 => hctx_ctx_s::<104>(key, rest),
                14 => hctx_ctx_s::<112>(key, rest),
                15 => hctx_ctx_s::<120>(key, rest),
                16 => hctx_ctx_s::<128>(key, rest),
                17 => hctx_ctx_s::<136>(key, rest),
                18 => hctx_ctx_s::<144>(key, rest),
                19 => hctx_ctx_s::<152>(key, rest),
                20 => hctx_ctx_s::<160>(key, rest),
                21 => hctx_ctx_s::<168>(key, rest),
                22 => hctx_ctx_s::<176>(key, rest),
                23 => hctx_ctx_s::<184>(key, rest),
                24 => hctx_ctx_s::<192>(key, rest),
                25 => hctx_ctx_s::<200>(key, rest),
                26 => hctx_ctx_s::<208>(key, rest),
                27 => hctx_ctx_s::<216>(key, rest),
                28 => hctx_ctx_s::<224>(key, rest),
                29 => hctx_ctx_s::<232>(key, rest),
                30 => hctx_ctx_s::<240>(key, rest),
                31 => hctx_ctx_s::<248>(key, rest),
                32 => hctx_ctx_s::<256>(key, rest),
                33 => hctx_ctx_s::<264>(key, rest),
                34 => hctx_ctx_s::<272>(key, rest),
                _ => "bad-op".to_string(),
            }
        }
        "hctxdyn.blake2b" => run_prog(new_dyn_b(us(a[0]), &unhex(a[1])), a[2]),
        "hctxdyn.blake2s" => run_prog(new_dyn_s(us(a[0]), &unhex(a[1])), a[2]),
        "hctxstd.blake2b" => {
            let key = &unhex(a[1])[..];
            match us(a[0]) {
                28 => run_prog(Std(new_ctx_b::<224>(key)), a[2]),
                32 => run_prog(Std(new_ctx_b::<256>(key)), a[2]),
                48 => run_prog(Std(new_ctx_b::<384>(key)), a[2]),
                64 => run_prog(Std(new_ctx_b::<512>(key)), a[2]),
                _ => "bad-op".to_string(),
            }
        }
        "hctxstd.blake2s" => {
            let key = &unhex(a[1])[..];
            match us(a[0]) {
                28 => run_prog(Std(new_ctx_s::<224>(key)), a[2]),
                32 => run_prog(Std(new_ctx_s::<256>(key)), a[2]),
                _ => "bad-op".to_string(),
            }
        }
        _ => return None,
    })
}
