//! unit b32: the ops `b32.<op>` are the public-API ops `<op>` of units fe64 / scalar64 (`fe.prog`, `scalar.*`),
//! forwarded unchanged — nothing is cfg-gated.  They exist under a second name so that the Lean driver can
//! answer them with the 32-bit limb models (Impl/Fe32.lean, Impl/Scalar32.lean) while `fe.prog` / `scalar.*`
//! are answered by the 64-bit models; C17 runs both names through the default and the force-32bits builds.
pub fn run(op: &str, a: &[&str]) -> Option<String> {
    let inner = op.strip_prefix("b32.")?;
    match inner {
        "fe.prog" => super::ops_fe64::run(inner, a),
        "scalar.const" | "scalar.roundtrip" | "scalar.canonical" | "scalar.reduce_wide"
        | "scalar.reduce_then_canonical" | "scalar.muladd" | "scalar.nibbles" | "scalar.bits" => {
            super::ops_scalar64::run(inner, a)
        }
        _ => None,
    }
}
