//! poly1305 unit: `poly.mac`, `poly.hist`, `poly.output_bytes` on the real `cryptoxide::poly1305::Poly1305`
//! through its public `Mac` interface (see lean/CxVerif/Driver/Poly1305.lean for the op grammar).
use crate::util::*;
use cryptoxide::mac::Mac;
use cryptoxide::poly1305::Poly1305;
use std::panic::{catch_unwind, AssertUnwindSafe};

fn hist(key: &[u8; 32], prog: &str) -> String {
    let mut cur = Poly1305::new(key);
    let mut stack: Vec<Poly1305> = Vec::new();
    let mut outs: Vec<String> = Vec::new();
    if prog != "-" {
        for op in prog.split(';') {
            let r = catch_unwind(AssertUnwindSafe(|| -> Option<String> {
                let (c, rest) = op.split_at(1);
                match c {
                    "i" => {
                        cur.input(&unhex(rest));
                        None
                    }
                    "R" => Some(hex(cur.result().code())),
                    "W" => {
                        let n = if rest.is_empty() { 16 } else { us(rest) };
                        let mut out = vec![0xa5u8; n];
                        cur.raw_result(&mut out);
                        Some(hex(&out[..16]))
                    }
                    "r" => {
                        cur.reset();
                        None
                    }
                    "c" => {
                        stack.push(cur.clone());
                        None
                    }
                    "x" => {
                        if let Some(top) = stack.last_mut() {
                            std::mem::swap(&mut cur, top);
                        }
                        None
                    }
                    _ => panic!("bad history op"),
                }
            }));
            match r {
                Ok(Some(t)) => outs.push(t),
                Ok(None) => {}
                Err(_) => {
                    outs.push("PANIC".to_string());
                    break;
                }
            }
        }
    }
    if outs.is_empty() {
        "-".to_string()
    } else {
        outs.join(",")
    }
}

pub fn run(op: &str, a: &[&str]) -> Option<String> {
    Some(match op {
        "poly.mac" => {
            let key = arr::<32>(&unhex(a[0]));
            let lens = natlist(a[1]);
            let msg = unhex(a[2]);
            let mut p = Poly1305::new(&key);
            for c in split_at_lens(&lens, &msg) {
                p.input(c);
            }
            let mut out = [0xa5u8; 16];
            p.raw_result(&mut out);
            hex(&out)
        }
        "poly.hist" => {
            let key = arr::<32>(&unhex(a[0]));
            hist(&key, a[1])
        }
        "poly.output_bytes" => {
            let key = arr::<32>(&unhex(a[0]));
            format!("{}", Poly1305::new(&key).output_bytes())
        }
        _ => return None,
    })
}
