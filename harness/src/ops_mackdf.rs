//! unit `mackdf`: the legacy `Digest` / `Mac` objects, HMAC, keyed BLAKE2 as `Mac`, HKDF, PBKDF2, scrypt
//! (see lean/CxVerif/Driver/MacKdf.lean for the op list and the history syntax)
use crate::util::*;
use cryptoxide::blake2b::Blake2b;
use cryptoxide::blake2s::Blake2s;
use cryptoxide::digest::Digest;
use cryptoxide::hkdf::{hkdf_expand, hkdf_extract};
use cryptoxide::hmac::Hmac;
use cryptoxide::mac::Mac;
use cryptoxide::pbkdf2::pbkdf2;
use cryptoxide::ripemd160::Ripemd160;
use cryptoxide::scrypt::{scrypt, ScryptParams};
use cryptoxide::sha1::Sha1;
use cryptoxide::sha2::{Sha224, Sha256, Sha384, Sha512, Sha512Trunc224, Sha512Trunc256};
use cryptoxide::sha3::{Keccak224, Keccak256, Keccak384, Keccak512, Sha3_224, Sha3_256, Sha3_384, Sha3_512};
use std::panic::{catch_unwind, AssertUnwindSafe};

enum Op {
    Input(Vec<u8>),
    Result,
    Raw(Option<usize>),
    Reset,
    Rekey(Vec<u8>),
    Clone,
    Swap,
    Sizes,
}

fn parse_prog(s: &str, allow_clone: bool, allow_key: bool) -> Option<Vec<Op>> {
    let mut v = Vec::new();
    if s == "-" {
        return Some(v);
    }
    for op in s.split(';') {
        if op.is_empty() {
            return None;
        }
        let (k, arg) = op.split_at(1);
        let hexok = |a: &str| a == "-" || (a.len() % 2 == 0 && !a.is_empty() && a.bytes().all(|c| c.is_ascii_hexdigit()));
        v.push(match k {
            "i" if hexok(arg) => Op::Input(unhex(arg)),
            "R" if arg.is_empty() => Op::Result,
            "W" if arg.is_empty() => Op::Raw(None),
            "W" => Op::Raw(Some(arg.parse::<usize>().ok()?)),
            "r" if arg.is_empty() => Op::Reset,
            "k" if allow_key && hexok(arg) => Op::Rekey(unhex(arg)),
            "c" if allow_clone && arg.is_empty() => Op::Clone,
            "x" if allow_clone && arg.is_empty() => Op::Swap,
            "o" if arg.is_empty() => Op::Sizes,
            _ => return None,
        });
    }
    Some(v)
}

/// the methods of one object type as the history machine uses them
struct Fam<T> {
    input: fn(&mut T, &[u8]),
    result: fn(&mut T) -> Vec<u8>,
    raw: fn(&mut T, usize) -> Vec<u8>,
    out_bytes: fn(&T) -> usize,
    reset: fn(&mut T),
    rekey: Option<fn(&mut T, &[u8])>,
    clone: Option<fn(&T) -> T>,
    sizes: fn(&T) -> String,
}

fn run_hist<T>(fam: Fam<T>, new: impl FnOnce() -> T, ops: &[Op]) -> String {
    let mut outs: Vec<String> = Vec::new();
    let r = catch_unwind(AssertUnwindSafe(|| {
        let mut cur = new();
        let mut stack: Vec<T> = Vec::new();
        for op in ops {
            match op {
                Op::Input(b) => (fam.input)(&mut cur, b),
                Op::Result => {
                    let v = (fam.result)(&mut cur);
                    outs.push(hex(&v));
                }
                Op::Raw(n) => {
                    let n = n.unwrap_or_else(|| (fam.out_bytes)(&cur));
                    let v = (fam.raw)(&mut cur, n);
                    outs.push(hex(&v));
                }
                Op::Reset => (fam.reset)(&mut cur),
                Op::Rekey(k) => (fam.rekey.expect("no reset_with_key"))(&mut cur, k),
                Op::Clone => stack.push((fam.clone.expect("not Clone"))(&cur)),
                Op::Swap => {
                    if let Some(t) = stack.last_mut() {
                        core::mem::swap(t, &mut cur);
                    }
                }
                Op::Sizes => outs.push((fam.sizes)(&cur)),
            }
        }
    }));
    if r.is_err() {
        outs.push("PANIC".to_string());
    }
    if outs.is_empty() {
        "-".to_string()
    } else {
        outs.join(",")
    }
}

fn dig_fam<D: Digest + Clone>() -> Fam<D> {
    Fam {
        input: |d, b| Digest::input(d, b),
        result: |d| {
            let mut out = vec![0xa5u8; Digest::output_bytes(d)];
            Digest::result(d, &mut out);
            out
        },
        raw: |d, n| {
            let mut out = vec![0xa5u8; n];
            Digest::result(d, &mut out);
            out
        },
        out_bytes: |d| Digest::output_bytes(d),
        reset: |d| Digest::reset(d),
        rekey: None,
        clone: Some(|d| d.clone()),
        sizes: |d| format!("{}/{}/{}", Digest::output_bytes(d), d.output_bits(), d.block_size()),
    }
}

fn mac_fam<M: Mac>() -> Fam<M> {
    Fam {
        input: |m, b| Mac::input(m, b),
        result: |m| Mac::result(m).code().to_vec(),
        raw: |m, n| {
            let mut out = vec![0xa5u8; n];
            Mac::raw_result(m, &mut out);
            out
        },
        out_bytes: |m| Mac::output_bytes(m),
        reset: |m| Mac::reset(m),
        rekey: None,
        clone: None,
        sizes: |m| format!("{}", Mac::output_bytes(m)),
    }
}

/// run `$body` with `$mk` bound to a constructor closure of the legacy digest type named `$name`
macro_rules! with_digest {
    ($name:expr, $mk:ident => $body:expr) => {{
        let name: &str = $name;
        match name {
            "sha1" => { let $mk = || Sha1::new(); Some($body) }
            "sha224" => { let $mk = || Sha224::new(); Some($body) }
            "sha256" => { let $mk = || Sha256::new(); Some($body) }
            "sha384" => { let $mk = || Sha384::new(); Some($body) }
            "sha512" => { let $mk = || Sha512::new(); Some($body) }
            "sha512_224" => { let $mk = || Sha512Trunc224::new(); Some($body) }
            "sha512_256" => { let $mk = || Sha512Trunc256::new(); Some($body) }
            "sha3_224" => { let $mk = || Sha3_224::new(); Some($body) }
            "sha3_256" => { let $mk = || Sha3_256::new(); Some($body) }
            "sha3_384" => { let $mk = || Sha3_384::new(); Some($body) }
            "sha3_512" => { let $mk = || Sha3_512::new(); Some($body) }
            "keccak224" => { let $mk = || Keccak224::new(); Some($body) }
            "keccak256" => { let $mk = || Keccak256::new(); Some($body) }
            "keccak384" => { let $mk = || Keccak384::new(); Some($body) }
            "keccak512" => { let $mk = || Keccak512::new(); Some($body) }
            "ripemd160" => { let $mk = || Ripemd160::new(); Some($body) }
            n if n.starts_with("blake2b_") && n[8..].parse::<usize>().is_ok() => {
                let ol = us(&n[8..]);
                let $mk = move || Blake2b::new(ol);
                Some($body)
            }
            n if n.starts_with("blake2s_") && n[8..].parse::<usize>().is_ok() => {
                let ol = us(&n[8..]);
                let $mk = move || Blake2s::new(ol);
                Some($body)
            }
            _ => None,
        }
    }};
}

fn dig_obj(name: &str, prog: &str) -> Option<String> {
    if name.starts_with("blake2b_") && name[8..].parse::<usize>().is_ok() {
        let ops = parse_prog(prog, true, true)?;
        let ol = us(&name[8..]);
        let mut fam = dig_fam::<Blake2b>();
        fam.rekey = Some(|d, k| d.reset_with_key(k));
        return Some(run_hist(fam, move || Blake2b::new(ol), &ops));
    }
    if name.starts_with("blake2s_") && name[8..].parse::<usize>().is_ok() {
        let ops = parse_prog(prog, true, true)?;
        let ol = us(&name[8..]);
        let mut fam = dig_fam::<Blake2s>();
        fam.rekey = Some(|d, k| d.reset_with_key(k));
        return Some(run_hist(fam, move || Blake2s::new(ol), &ops));
    }
    let ops = parse_prog(prog, true, false)?;
    fn go<D: Digest + Clone>(mk: impl FnOnce() -> D, ops: &[Op]) -> String {
        run_hist(dig_fam::<D>(), mk, ops)
    }
    with_digest!(name, mk => go(mk, &ops))
}

fn mac_hmac(name: &str, key: &[u8], prog: &str) -> Option<String> {
    let ops = parse_prog(prog, false, false)?;
    fn go<D: Digest>(mk: impl FnOnce() -> D, key: &[u8], ops: &[Op]) -> String {
        run_hist(mac_fam::<Hmac<D>>(), move || Hmac::new(mk(), key), ops)
    }
    with_digest!(name, mk => go(mk, key, &ops))
}

fn guarded(f: impl FnOnce() -> String) -> String {
    match catch_unwind(AssertUnwindSafe(f)) {
        Ok(s) => s,
        Err(_) => "PANIC".to_string(),
    }
}

pub fn run(op: &str, a: &[&str]) -> Option<String> {
    Some(match op {
        "dig.obj" => dig_obj(a[0], a[1]).unwrap_or_else(|| "bad-args".to_string()),
        // Digest::input_str + Digest::result_str (the hex convenience API) on a valid UTF-8 string given as hex
        "dig.str" => {
            let bytes = unhex(a[1]);
            let text = match String::from_utf8(bytes) { Ok(t) => t, Err(_) => return Some("bad-args".to_string()) };
            fn go<D: Digest>(mk: impl FnOnce() -> D, t: &str) -> String {
                guarded(|| { let mut d = mk(); d.input_str(t); d.result_str() })
            }
            with_digest!(a[0], mk => go(mk, &text)).unwrap_or_else(|| "bad-args".to_string())
        }
        "dig.blake2b" => {
            let (ol, key, msg) = (us(a[0]), unhex(a[1]), unhex(a[2]));
            guarded(|| {
                let mut out = vec![0xa5u8; ol];
                Blake2b::blake2b(&mut out, &msg, &key);
                hex(&out)
            })
        }
        "dig.blake2s" => {
            let (ol, key, msg) = (us(a[0]), unhex(a[1]), unhex(a[2]));
            guarded(|| {
                let mut out = vec![0xa5u8; ol];
                Blake2s::blake2s(&mut out, &msg, &key);
                hex(&out)
            })
        }
        "mac.hmac" => {
            let key = unhex(a[1]);
            mac_hmac(a[0], &key, a[2]).unwrap_or_else(|| "bad-args".to_string())
        }
        "mac.blake2b" => {
            let (ol, key) = (us(a[0]), unhex(a[1]));
            match parse_prog(a[2], true, true) {
                None => "bad-args".to_string(),
                Some(ops) => {
                    let mut fam = mac_fam::<Blake2b>();
                    fam.rekey = Some(|d, k| d.reset_with_key(k));
                    fam.clone = Some(|d| d.clone());
                    run_hist(fam, move || Blake2b::new_keyed(ol, &key), &ops)
                }
            }
        }
        "mac.blake2s" => {
            let (ol, key) = (us(a[0]), unhex(a[1]));
            match parse_prog(a[2], true, true) {
                None => "bad-args".to_string(),
                Some(ops) => {
                    let mut fam = mac_fam::<Blake2s>();
                    fam.rekey = Some(|d, k| d.reset_with_key(k));
                    fam.clone = Some(|d| d.clone());
                    run_hist(fam, move || Blake2s::new_keyed(ol, &key), &ops)
                }
            }
        }
        "kdf.hkdf_extract" => {
            let (salt, ikm, n) = (unhex(a[1]), unhex(a[2]), us(a[3]));
            fn go<D: Digest>(mk: impl FnOnce() -> D, salt: &[u8], ikm: &[u8], n: usize) -> String {
                guarded(|| {
                    let mut prk = vec![0xa5u8; n];
                    hkdf_extract(mk(), salt, ikm, &mut prk);
                    hex(&prk)
                })
            }
            with_digest!(a[0], mk => go(mk, &salt, &ikm, n)).unwrap_or_else(|| "bad-args".to_string())
        }
        "kdf.hkdf_extract_used" | "kdf.hkdf_expand_used" if a.len() == 5 => {
            let fin = a[1].ends_with('!');
            let pre = unhex(a[1].trim_end_matches('!'));
            let (x, y, n) = (unhex(a[2]), unhex(a[3]), us(a[4]));
            let extract = op == "kdf.hkdf_extract_used";
            fn go<D: Digest>(mk: impl FnOnce() -> D, pre: &[u8], fin: bool, extract: bool, x: &[u8], y: &[u8], n: usize) -> String {
                guarded(|| {
                    let mut d = mk();
                    d.input(pre);
                    if fin {
                        let mut o = vec![0u8; d.output_bytes()];
                        d.result(&mut o);
                    }
                    let mut out = vec![0xa5u8; n];
                    if extract {
                        hkdf_extract(d, x, y, &mut out);
                    } else {
                        hkdf_expand(d, x, y, &mut out);
                    }
                    hex(&out)
                })
            }
            with_digest!(a[0], mk => go(mk, &pre, fin, extract, &x, &y, n)).unwrap_or_else(|| "bad-args".to_string())
        }
        "kdf.hkdf_expand" => {
            let (prk, info, n) = (unhex(a[1]), unhex(a[2]), us(a[3]));
            fn go<D: Digest>(mk: impl FnOnce() -> D, prk: &[u8], info: &[u8], n: usize) -> String {
                guarded(|| {
                    let mut okm = vec![0xa5u8; n];
                    hkdf_expand(mk(), prk, info, &mut okm);
                    hex(&okm)
                })
            }
            with_digest!(a[0], mk => go(mk, &prk, &info, n)).unwrap_or_else(|| "bad-args".to_string())
        }
        "kdf.pbkdf2" => {
            let (pwd, salt, c, n) = (unhex(a[1]), unhex(a[2]), nat(a[3]), us(a[4]));
            if c >= 1 << 32 {
                return Some("bad-args".to_string());
            }
            let c = c as u32;
            let name = a[0];
            if name.starts_with("blake2bmac_") && name[11..].parse::<usize>().is_ok() {
                let ol = us(&name[11..]);
                return Some(guarded(|| {
                    let mut out = vec![0xa5u8; n];
                    let mut m = Blake2b::new_keyed(ol, &pwd);
                    pbkdf2(&mut m, &salt, c, &mut out);
                    hex(&out)
                }));
            }
            if name.starts_with("blake2smac_") && name[11..].parse::<usize>().is_ok() {
                let ol = us(&name[11..]);
                return Some(guarded(|| {
                    let mut out = vec![0xa5u8; n];
                    let mut m = Blake2s::new_keyed(ol, &pwd);
                    pbkdf2(&mut m, &salt, c, &mut out);
                    hex(&out)
                }));
            }
            fn go<D: Digest>(mk: impl FnOnce() -> D, pwd: &[u8], salt: &[u8], c: u32, n: usize) -> String {
                guarded(|| {
                    let mut out = vec![0xa5u8; n];
                    let mut m = Hmac::new(mk(), pwd);
                    pbkdf2(&mut m, salt, c, &mut out);
                    hex(&out)
                })
            }
            with_digest!(name, mk => go(mk, &pwd, &salt, c, n)).unwrap_or_else(|| "bad-args".to_string())
        }
        "kdf.scrypt" => {
            let (pwd, salt, log_n, r, p, n) = (unhex(a[0]), unhex(a[1]), nat(a[2]), nat(a[3]), nat(a[4]), us(a[5]));
            if log_n >= 256 || r >= 1 << 32 || p >= 1 << 32 {
                return Some("bad-args".to_string());
            }
            guarded(|| {
                let params = ScryptParams::new(log_n as u8, r as u32, p as u32);
                let mut out = vec![0xa5u8; n];
                scrypt(&pwd, &salt, &params, &mut out);
                hex(&out)
            })
        }
        "kdf.scrypt_params" => {
            let (log_n, r, p) = (nat(a[0]), nat(a[1]), nat(a[2]));
            if log_n >= 256 || r >= 1 << 32 || p >= 1 << 32 {
                return Some("bad-args".to_string());
            }
            guarded(|| {
                let _ = ScryptParams::new(log_n as u8, r as u32, p as u32);
                "ok".to_string()
            })
        }
        _ => return None,
    })
}
