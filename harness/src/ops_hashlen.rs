//! unit `hashlen`: `hlen.<alg> <N decimal> <msg hex>` — digest of a context whose byte counter was preset to N
//! through the `verif_set_processed_bytes` hook (guard `cryptoxide_verif`), then `update(msg).finalize()`.
//! N must be a multiple of the block size; the chaining state stays the IV.
use crate::util::*;
use cryptoxide::hashing::sha2::{
    Context224, Context256, Context384, Context512, Context512_224, Context512_256,
};
use cryptoxide::hashing::{ripemd160, sha1};

macro_rules! hlen {
    ($ctx:ty, $block:expr, $n:expr, $m:expr) => {{
        let n = match $n {
            Ok(n) if n % $block == 0 => n,
            _ => return Some("bad-args".to_string()),
        };
        let msg = unhex($m);
        let mut c = <$ctx>::new();
        c.verif_set_processed_bytes(n);
        hex(&c.update(&msg).finalize())
    }};
}

pub fn run(op: &str, a: &[&str]) -> Option<String> {
    Some(match op {
        "hlen.sha224" => hlen!(Context224, 64, a[0].parse::<u128>(), a[1]),
        "hlen.sha256" => hlen!(Context256, 64, a[0].parse::<u128>(), a[1]),
        "hlen.sha384" => hlen!(Context384, 128, a[0].parse::<u128>(), a[1]),
        "hlen.sha512" => hlen!(Context512, 128, a[0].parse::<u128>(), a[1]),
        "hlen.sha512_224" => hlen!(Context512_224, 128, a[0].parse::<u128>(), a[1]),
        "hlen.sha512_256" => hlen!(Context512_256, 128, a[0].parse::<u128>(), a[1]),
        "hlen.sha1" => hlen!(sha1::Context, 64, a[0].parse::<u64>(), a[1]),
        "hlen.ripemd160" => hlen!(ripemd160::Context, 64, a[0].parse::<u64>(), a[1]),
        _ => return None,
    })
}
