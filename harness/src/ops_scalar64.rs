//! scalar64: curve25519::scalar::Scalar through its public API, plus the cfg(cryptoxide_verif) wrappers
//! `scalar::verif::{muladd,nibbles,bits,slide}` and `scalar::verif64::{add,mul}` of crate-private functions.
use crate::util::*;
use cryptoxide::curve25519::scalar::{verif, Scalar};
#[cfg(not(feature = "force-32bits"))]
use cryptoxide::curve25519::scalar::verif64;

fn sc(s: &str) -> Scalar {
    Scalar::from_bytes(&arr::<32>(&unhex(s)))
}
fn ints(v: &[i8]) -> String {
    v.iter().map(|x| x.to_string()).collect::<Vec<_>>().join(",")
}
/// Σ r_i 2^i == le(bytes), every non-zero digit odd and |digit| <= 15 (evaluated on 320-bit signed limbs)
fn slide_contract(bytes: &[u8], r: &[i8; 256]) -> bool {
    // acc = Σ r_i 2^i as a little-endian array of i64 "bytes" then normalised
    let mut acc = [0i64; 40];
    for i in 0..256 {
        let d = r[i] as i64;
        if d != 0 && (d % 2 == 0 || d < -15 || d > 15) {
            return false;
        }
        acc[i / 8] += d << (i % 8);
    }
    let mut carry = 0i64;
    for k in 0..40 {
        let v = acc[k] + carry;
        let b = v.rem_euclid(256);
        carry = (v - b) / 256;
        acc[k] = b;
    }
    if carry != 0 {
        return false;
    }
    (0..40).all(|k| acc[k] == if k < 32 { bytes[k] as i64 } else { 0 })
}

pub fn run(op: &str, a: &[&str]) -> Option<String> {
    Some(match op {
        "scalar.const" => match a[0] {
            "zero" => hex(&Scalar::ZERO.to_bytes()),
            "one" => hex(&Scalar::ONE.to_bytes()),
            _ => return None,
        },
        "scalar.roundtrip" => hex(&sc(a[0]).to_bytes()),
        "scalar.canonical" => match Scalar::from_bytes_canonical(&arr::<32>(&unhex(a[0]))) {
            Some(s) => format!("some:{}", hex(&s.to_bytes())),
            None => "none".into(),
        },
        "scalar.reduce_wide" => hex(&Scalar::reduce_from_wide_bytes(&arr::<64>(&unhex(a[0]))).to_bytes()),
        #[cfg(not(feature = "force-32bits"))]
        "scalar.add" => hex(&verif64::add(&sc(a[0]), &sc(a[1])).to_bytes()),
        #[cfg(not(feature = "force-32bits"))]
        "scalar.mul" => hex(&verif64::mul(&sc(a[0]), &sc(a[1])).to_bytes()),
        "scalar.muladd" => hex(&verif::muladd(&sc(a[0]), &sc(a[1]), &sc(a[2])).to_bytes()),
        "scalar.reduce_then_canonical" => {
            let r = Scalar::reduce_from_wide_bytes(&arr::<64>(&unhex(a[0])));
            match Scalar::from_bytes_canonical(&r.to_bytes()) {
                Some(s) => format!("some:{}", hex(&s.to_bytes())),
                None => "none".into(),
            }
        }
        "scalar.nibbles" => ints(&verif::nibbles(&sc(a[0]))),
        "scalar.bits" => ints(&verif::bits(&sc(a[0]))),
        "scalar.slide" => ints(&verif::slide(&sc(a[0]))),
        "scalar.slide_contract" => {
            let b = unhex(a[0]);
            boolstr(slide_contract(&b, &verif::slide(&sc(a[0]))))
        }
        _ => return None,
    })
}
