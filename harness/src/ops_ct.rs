//! C18: constant_time.rs, MacResult ==, Tag ==
use crate::util::*;
use cryptoxide::constant_time::{Choice, CtEqual, CtGreater, CtLesser, CtOption, CtZero};

fn ch(c: Choice) -> String {
    // both observers, so that a Choice that is neither 0 nor 1 is visible
    format!("{}{}", c.is_true() as u8, c.is_false() as u8)
}

macro_rules! with_len {
    ($n:expr, $f:ident, $($args:expr),*) => {
        match $n {
            0 => $f::<0>($($args),*), 1 => $f::<1>($($args),*), 2 => $f::<2>($($args),*), 3 => $f::<3>($($args),*),
            4 => $f::<4>($($args),*), 5 => $f::<5>($($args),*), 6 => $f::<6>($($args),*), 7 => $f::<7>($($args),*),
            8 => $f::<8>($($args),*), 9 => $f::<9>($($args),*), 10 => $f::<10>($($args),*), 11 => $f::<11>($($args),*),
            12 => $f::<12>($($args),*), 13 => $f::<13>($($args),*), 14 => $f::<14>($($args),*), 15 => $f::<15>($($args),*),
            16 => $f::<16>($($args),*), 17 => $f::<17>($($args),*), 18 => $f::<18>($($args),*), 19 => $f::<19>($($args),*),
            20 => $f::<20>($($args),*), 21 => $f::<21>($($args),*), 22 => $f::<22>($($args),*), 23 => $f::<23>($($args),*),
            24 => $f::<24>($($args),*), 25 => $f::<25>($($args),*), 26 => $f::<26>($($args),*), 27 => $f::<27>($($args),*),
            28 => $f::<28>($($args),*), 29 => $f::<29>($($args),*), 30 => $f::<30>($($args),*), 31 => $f::<31>($($args),*),
            32 => $f::<32>($($args),*), 33 => $f::<33>($($args),*), 34 => $f::<34>($($args),*), 35 => $f::<35>($($args),*),
            36 => $f::<36>($($args),*), 37 => $f::<37>($($args),*), 38 => $f::<38>($($args),*), 39 => $f::<39>($($args),*),
            40 => $f::<40>($($args),*),
            _ => "bad-op".to_string(),
        }
    };
}

fn a8_zero<const N: usize>(a: &[u8]) -> String { ch((&arr::<N>(a)).ct_zero()) }
fn a8_nonzero<const N: usize>(a: &[u8]) -> String { ch((&arr::<N>(a)).ct_nonzero()) }
fn a8_eq<const N: usize>(a: &[u8], b: &[u8]) -> String { ch((&arr::<N>(a)).ct_eq(&arr::<N>(b))) }
fn a8_ne<const N: usize>(a: &[u8], b: &[u8]) -> String { ch((&arr::<N>(a)).ct_ne(&arr::<N>(b))) }
fn a8_lt<const N: usize>(a: &[u8], b: &[u8]) -> String {
    ch(<&[u8; N]>::ct_lt(&arr::<N>(a), &arr::<N>(b)))
}
fn a8_ge<const N: usize>(a: &[u8], b: &[u8]) -> String {
    ch(<&[u8; N]>::ct_ge(&arr::<N>(a), &arr::<N>(b)))
}

fn words(v: &[u8]) -> Vec<u64> {
    assert!(v.len() % 8 == 0);
    v.chunks(8).map(|c| u64::from_le_bytes(arr::<8>(c))).collect()
}
fn words32(v: &[u8]) -> Vec<i32> {
    assert!(v.len() % 4 == 0);
    v.chunks(4).map(|c| i32::from_le_bytes(arr::<4>(c))).collect()
}
fn unwords(w: &[u64]) -> String {
    let mut v = Vec::new();
    for x in w { v.extend_from_slice(&x.to_le_bytes()); }
    hex(&v)
}
fn unwords32(w: &[i32]) -> String {
    let mut v = Vec::new();
    for x in w { v.extend_from_slice(&x.to_le_bytes()); }
    hex(&v)
}
fn warr<const N: usize>(v: &[u64]) -> [u64; N] { let mut a = [0u64; N]; a.copy_from_slice(v); a }
fn warr32<const N: usize>(v: &[i32]) -> [i32; N] { let mut a = [0i32; N]; a.copy_from_slice(v); a }

fn a64_zero<const N: usize>(a: &[u64]) -> String { ch((&warr::<N>(a)).ct_zero()) }
fn a64_nonzero<const N: usize>(a: &[u64]) -> String { ch((&warr::<N>(a)).ct_nonzero()) }
fn a64_eq<const N: usize>(a: &[u64], b: &[u64]) -> String { ch((&warr::<N>(a)).ct_eq(&warr::<N>(b))) }
fn a64_ne<const N: usize>(a: &[u64], b: &[u64]) -> String { ch((&warr::<N>(a)).ct_ne(&warr::<N>(b))) }

fn mk(b: &str) -> Choice {
    // the only public constructors of a Choice are the predicates themselves
    if nat(b) != 0 { 1u64.ct_nonzero() } else { 0u64.ct_nonzero() }
}

fn swap64<const N: usize>(a: &[u64], b: &[u64], c: Choice) -> String {
    let (mut x, mut y) = (warr::<N>(a), warr::<N>(b));
    cryptoxide::constant_time::verif::array64_maybe_swap_with(&mut x, &mut y, c);
    format!("{},{}", unwords(&x), unwords(&y))
}
fn set64<const N: usize>(a: &[u64], b: &[u64], c: Choice) -> String {
    let (mut x, y) = (warr::<N>(a), warr::<N>(b));
    cryptoxide::constant_time::verif::array64_maybe_set(&mut x, &y, c);
    unwords(&x)
}
fn swap32<const N: usize>(a: &[i32], b: &[i32], c: Choice) -> String {
    let (mut x, mut y) = (warr32::<N>(a), warr32::<N>(b));
    cryptoxide::constant_time::verif::array32_maybe_swap_with(&mut x, &mut y, c);
    format!("{},{}", unwords32(&x), unwords32(&y))
}
fn set32<const N: usize>(a: &[i32], b: &[i32], c: Choice) -> String {
    let (mut x, y) = (warr32::<N>(a), warr32::<N>(b));
    cryptoxide::constant_time::verif::array32_maybe_set(&mut x, &y, c);
    unwords32(&x)
}

pub fn run(op: &str, a: &[&str]) -> Option<String> {
    Some(match op {
        "ct.u64.zero" => ch(nat(a[0]).ct_zero()),
        "ct.u64.nonzero" => ch(nat(a[0]).ct_nonzero()),
        "ct.u64.eq" => ch(nat(a[0]).ct_eq(nat(a[1]))),
        "ct.u64.ne" => ch(nat(a[0]).ct_ne(nat(a[1]))),
        "ct.u64.lt" => ch(u64::ct_lt(nat(a[0]), nat(a[1]))),
        "ct.u64.gt" => ch(u64::ct_gt(nat(a[0]), nat(a[1]))),
        "ct.u64.le" => ch(u64::ct_le(nat(a[0]), nat(a[1]))),
        "ct.u64.ge" => ch(u64::ct_ge(nat(a[0]), nat(a[1]))),
        "ct.u8.zero" => ch((nat(a[0]) as u8).ct_zero()),
        "ct.u8.nonzero" => ch((nat(a[0]) as u8).ct_nonzero()),
        "ct.u8.eq" => ch((nat(a[0]) as u8).ct_eq(nat(a[1]) as u8)),
        "ct.u8.ne" => ch((nat(a[0]) as u8).ct_ne(nat(a[1]) as u8)),
        "ct.arr8.zero" => { let x = unhex(a[0]); with_len!(x.len(), a8_zero, &x) }
        "ct.arr8.nonzero" => { let x = unhex(a[0]); with_len!(x.len(), a8_nonzero, &x) }
        "ct.arr8.eq" => { let (x, y) = (unhex(a[0]), unhex(a[1])); with_len!(x.len(), a8_eq, &x, &y) }
        "ct.arr8.ne" => { let (x, y) = (unhex(a[0]), unhex(a[1])); with_len!(x.len(), a8_ne, &x, &y) }
        "ct.arr8.lt" => { let (x, y) = (unhex(a[0]), unhex(a[1])); with_len!(x.len(), a8_lt, &x, &y) }
        "ct.arr8.ge" => { let (x, y) = (unhex(a[0]), unhex(a[1])); with_len!(x.len(), a8_ge, &x, &y) }
        "ct.slice8.eq" => { let (x, y) = (unhex(a[0]), unhex(a[1])); ch((&x[..]).ct_eq(&y[..])) }
        "ct.slice8.ne" => { let (x, y) = (unhex(a[0]), unhex(a[1])); ch((&x[..]).ct_ne(&y[..])) }
        "ct.arr64.zero" => { let x = words(&unhex(a[0])); with_len!(x.len(), a64_zero, &x) }
        "ct.arr64.nonzero" => { let x = words(&unhex(a[0])); with_len!(x.len(), a64_nonzero, &x) }
        "ct.arr64.eq" => { let (x, y) = (words(&unhex(a[0])), words(&unhex(a[1]))); with_len!(x.len(), a64_eq, &x, &y) }
        "ct.arr64.ne" => { let (x, y) = (words(&unhex(a[0])), words(&unhex(a[1]))); with_len!(x.len(), a64_ne, &x, &y) }
        "ct.slice64.zero" => { let x = words(&unhex(a[0])); ch((&x[..]).ct_zero()) }
        "ct.slice64.nonzero" => { let x = words(&unhex(a[0])); ch((&x[..]).ct_nonzero()) }
        "ct.slice64.eq" => { let (x, y) = (words(&unhex(a[0])), words(&unhex(a[1]))); ch((&x[..]).ct_eq(&y[..])) }
        "ct.slice64.ne" => { let (x, y) = (words(&unhex(a[0])), words(&unhex(a[1]))); ch((&x[..]).ct_ne(&y[..])) }
        "ct.choice.not" => ch(mk(a[0]).negate()),
        "ct.choice.and" => ch(mk(a[0]) & mk(a[1])),
        "ct.choice.or" => ch(mk(a[0]) | mk(a[1])),
        "ct.choice.xor" => ch(mk(a[0]) ^ mk(a[1])),
        "ct.choice.bool" => boolstr(bool::from(mk(a[0]))),
        "ct.option" => {
            let o: CtOption<u64> = (mk(a[0]), nat(a[1])).into();
            match o.into_option() { Some(v) => format!("some:{}", v), None => "none".into() }
        }
        "ct.swap64" => { let (x, y) = (words(&unhex(a[1])), words(&unhex(a[2]))); with_len!(x.len(), swap64, &x, &y, mk(a[0])) }
        "ct.set64" => { let (x, y) = (words(&unhex(a[1])), words(&unhex(a[2]))); with_len!(x.len(), set64, &x, &y, mk(a[0])) }
        "ct.swap32" => { let (x, y) = (words32(&unhex(a[1])), words32(&unhex(a[2]))); with_len!(x.len(), swap32, &x, &y, mk(a[0])) }
        "ct.set32" => { let (x, y) = (words32(&unhex(a[1])), words32(&unhex(a[2]))); with_len!(x.len(), set32, &x, &y, mk(a[0])) }
        "ct.macresult.eq" => {
            let (x, y) = (unhex(a[0]), unhex(a[1]));
            boolstr(cryptoxide::mac::MacResult::new(&x) == cryptoxide::mac::MacResult::new(&y))
        }
        "ct.tag.eq" => {
            let (x, y) = (unhex(a[0]), unhex(a[1]));
            boolstr(cryptoxide::chacha20poly1305::Tag(arr::<16>(&x)) == cryptoxide::chacha20poly1305::Tag(arr::<16>(&y)))
        }
        "ct.tag.ne" => {
            use cryptoxide::constant_time::CtEqual;
            let (x, y) = (unhex(a[0]), unhex(a[1]));
            let (tx, ty) = (cryptoxide::chacha20poly1305::Tag(arr::<16>(&x)), cryptoxide::chacha20poly1305::Tag(arr::<16>(&y)));
            boolstr((&tx).ct_ne(&ty).is_true())
        }
        _ => return None,
    })
}
