//! stream unit: ChaCha / ChaChaOriginal / XChaCha / Salsa / XSalsa contexts, the ChaCha engines through the
//! verification hooks, and the ChaCha DRG (ops documented in lean/CxVerif/Driver/Stream.lean)
use crate::util::*;
use cryptoxide::chacha::verif::{Native, Portable};
use cryptoxide::chacha20::{ChaCha, ChaChaOriginal, XChaCha};
use cryptoxide::drg::chacha::Drg;
use cryptoxide::salsa20::{Salsa, XSalsa};

fn toks(p: &str) -> Vec<&str> {
    if p == "-" { Vec::new() } else { p.split(';').collect() }
}
fn join(v: Vec<String>) -> String {
    if v.is_empty() { "_".to_string() } else { v.join(",") }
}

/// the lengths for which `Drg::bytes::<N>` / `fill_bytes::<N>` are instantiated
#[allow(dead_code)]
pub const DRG_NS: &[usize] = &[0,1,2,3,4,5,7,8,9,12,15,16,17,24,31,32,33,48,63,64,65,96,100,127,128,129,130,191,192,193,200,255,256,257,300];

// one history interpreter per context type; `$seek` / `$set64` say which of the two positioning methods exist
macro_rules! ctx_runner {
    ($fname:ident, $ty:ident, $mk:expr, seek = $seek:tt, set64 = $set64:tt) => {
        fn $fname<const R: usize>(key: &[u8], nonce: &[u8], prog: &str) -> String {
            let mk: fn(&[u8], &[u8]) -> $ty<R> = $mk;
            let mut cur: $ty<R> = mk(key, nonce);
            let mut stack: Vec<$ty<R>> = Vec::new();
            let mut outs: Vec<String> = Vec::new();
            for t in toks(prog) {
                let (h, r) = t.split_at(1);
                match h {
                    "p" => {
                        let inp = unhex(r);
                        let mut out = vec![0xa5u8; inp.len()];
                        cur.process(&inp, &mut out);
                        outs.push(hex(&out));
                    }
                    "P" => {
                        let mut it = r.split(':');
                        let n = us(it.next().unwrap());
                        let inp = unhex(it.next().unwrap());
                        let mut out = vec![0xa5u8; n];
                        cur.process(&inp, &mut out);
                        outs.push(hex(&out));
                    }
                    "m" => {
                        let mut buf = unhex(r);
                        cur.process_mut(&mut buf);
                        outs.push(hex(&buf));
                    }
                    "i" => {
                        let inp = unhex(r);
                        let mut cl = cur.clone();
                        let mut o1 = vec![0x5au8; inp.len()];
                        cur.process(&inp, &mut o1);
                        cl.process_mut(&mut o1);
                        outs.push(hex(&o1));
                    }
                    "s" => { ctx_runner!(@seek $seek, cur, r); }
                    "S" => { ctx_runner!(@set64 $set64, cur, r); }
                    "c" => stack.push(cur.clone()),
                    "x" => {
                        if stack.is_empty() { return "bad-args".to_string(); }
                        let top = stack.last_mut().unwrap();
                        std::mem::swap(&mut cur, top);
                    }
                    _ => return "bad-args".to_string(),
                }
            }
            join(outs)
        }
    };
    (@seek yes, $cur:ident, $r:ident) => { $cur.seek($r.parse::<u32>().expect("bad u32")) };
    (@seek no, $cur:ident, $r:ident) => { return "bad-args".to_string() };
    (@set64 yes, $cur:ident, $r:ident) => { $cur.verif_set_counter64(nat($r)) };
    (@set64 no, $cur:ident, $r:ident) => { return "bad-args".to_string() };
}

ctx_runner!(run_chacha, ChaCha, |k, n| ChaCha::<R>::new(k, &arr::<12>(n)), seek = yes, set64 = no);
ctx_runner!(run_chachaorig, ChaChaOriginal, |k, n| ChaChaOriginal::<R>::new(k, &arr::<8>(n)), seek = no, set64 = yes);
ctx_runner!(run_xchacha, XChaCha, |k, n| XChaCha::<R>::new(&arr::<32>(k), &arr::<24>(n)), seek = yes, set64 = no);
ctx_runner!(run_salsa, Salsa, |k, n| Salsa::<R>::new(k, &arr::<8>(n)), seek = no, set64 = yes);
ctx_runner!(run_xsalsa, XSalsa, |k, n| XSalsa::<R>::new(&arr::<32>(k), &arr::<24>(n)), seek = no, set64 = yes);

macro_rules! eng_runner {
    ($fname:ident, $ty:ident) => {
        fn $fname<const R: usize>(key: &[u8], nonce: &[u8], prog: &str) -> String {
            let mut e = $ty::<R>::init(key, nonce);
            let mut outs: Vec<String> = Vec::new();
            for t in toks(prog) {
                let (h, r) = t.split_at(1);
                match h {
                    "c" => e.set_counter(r.parse::<u32>().expect("bad u32")),
                    "C" => e.set_counter64(nat(r)),
                    "i" => e.increment(),
                    "I" => e.increment64(),
                    "s" => outs.push(hex(&e.state_bytes())),
                    "b" => outs.push(hex(&e.block())),
                    "h" => outs.push(hex(&e.hblock())),
                    _ => return "bad-args".to_string(),
                }
            }
            join(outs)
        }
    };
}
eng_runner!(run_portable, Portable);
eng_runner!(run_native, Native);

fn run_drg<const R: usize>(seed: &[u8], prog: &str) -> String {
    let mut d = Drg::<R>::new(&arr::<32>(seed));
    let mut outs: Vec<String> = Vec::new();
    for t in toks(prog) {
        let (h, r) = t.split_at(1);
        match h {
            "b" => outs.push(drg_bytes(&mut d, us(r))),
            "f" => outs.push(drg_fill(&mut d, unhex(r))),
            "l" => {
                let mut v = unhex(r);
                d.fill_slice(&mut v);
                outs.push(hex(&v));
            }
            "w" => outs.push(format!("{}", d.u32())),
            "q" => outs.push(format!("{}", d.u64())),
            _ => return "bad-args".to_string(),
        }
    }
    join(outs)
}

fn drg_bytes<const R: usize>(d: &mut Drg<R>, n: usize) -> String {
    match n {
        0 => hex(&d.bytes::<0>()),
        1 => hex(&d.bytes::<1>()),
        2 => hex(&d.bytes::<2>()),
        3 => hex(&d.bytes::<3>()),
        4 => hex(&d.bytes::<4>()),
        5 => hex(&d.bytes::<5>()),
        7 => hex(&d.bytes::<7>()),
        8 => hex(&d.bytes::<8>()),
        9 => hex(&d.bytes::<9>()),
        12 => hex(&d.bytes::<12>()),
        15 => hex(&d.bytes::<15>()),
        16 => hex(&d.bytes::<16>()),
        17 => hex(&d.bytes::<17>()),
        24 => hex(&d.bytes::<24>()),
        31 => hex(&d.bytes::<31>()),
        32 => hex(&d.bytes::<32>()),
        33 => hex(&d.bytes::<33>()),
        48 => hex(&d.bytes::<48>()),
        63 => hex(&d.bytes::<63>()),
        64 => hex(&d.bytes::<64>()),
        65 => hex(&d.bytes::<65>()),
        96 => hex(&d.bytes::<96>()),
        100 => hex(&d.bytes::<100>()),
        127 => hex(&d.bytes::<127>()),
        128 => hex(&d.bytes::<128>()),
        129 => hex(&d.bytes::<129>()),
        130 => hex(&d.bytes::<130>()),
        191 => hex(&d.bytes::<191>()),
        192 => hex(&d.bytes::<192>()),
        193 => hex(&d.bytes::<193>()),
        200 => hex(&d.bytes::<200>()),
        255 => hex(&d.bytes::<255>()),
        256 => hex(&d.bytes::<256>()),
        257 => hex(&d.bytes::<257>()),
        300 => hex(&d.bytes::<300>()),
        _ => panic!("bytes::<N> not instantiated for this N"),
    }
}
fn drg_fill<const R: usize>(d: &mut Drg<R>, v: Vec<u8>) -> String {
    match v.len() {
        0 => { let mut a = arr::<0>(&v); d.fill_bytes::<0>(&mut a); hex(&a) }
        1 => { let mut a = arr::<1>(&v); d.fill_bytes::<1>(&mut a); hex(&a) }
        2 => { let mut a = arr::<2>(&v); d.fill_bytes::<2>(&mut a); hex(&a) }
        3 => { let mut a = arr::<3>(&v); d.fill_bytes::<3>(&mut a); hex(&a) }
        4 => { let mut a = arr::<4>(&v); d.fill_bytes::<4>(&mut a); hex(&a) }
        5 => { let mut a = arr::<5>(&v); d.fill_bytes::<5>(&mut a); hex(&a) }
        7 => { let mut a = arr::<7>(&v); d.fill_bytes::<7>(&mut a); hex(&a) }
        8 => { let mut a = arr::<8>(&v); d.fill_bytes::<8>(&mut a); hex(&a) }
        9 => { let mut a = arr::<9>(&v); d.fill_bytes::<9>(&mut a); hex(&a) }
        12 => { let mut a = arr::<12>(&v); d.fill_bytes::<12>(&mut a); hex(&a) }
        15 => { let mut a = arr::<15>(&v); d.fill_bytes::<15>(&mut a); hex(&a) }
        16 => { let mut a = arr::<16>(&v); d.fill_bytes::<16>(&mut a); hex(&a) }
        17 => { let mut a = arr::<17>(&v); d.fill_bytes::<17>(&mut a); hex(&a) }
        24 => { let mut a = arr::<24>(&v); d.fill_bytes::<24>(&mut a); hex(&a) }
        31 => { let mut a = arr::<31>(&v); d.fill_bytes::<31>(&mut a); hex(&a) }
        32 => { let mut a = arr::<32>(&v); d.fill_bytes::<32>(&mut a); hex(&a) }
        33 => { let mut a = arr::<33>(&v); d.fill_bytes::<33>(&mut a); hex(&a) }
        48 => { let mut a = arr::<48>(&v); d.fill_bytes::<48>(&mut a); hex(&a) }
        63 => { let mut a = arr::<63>(&v); d.fill_bytes::<63>(&mut a); hex(&a) }
        64 => { let mut a = arr::<64>(&v); d.fill_bytes::<64>(&mut a); hex(&a) }
        65 => { let mut a = arr::<65>(&v); d.fill_bytes::<65>(&mut a); hex(&a) }
        96 => { let mut a = arr::<96>(&v); d.fill_bytes::<96>(&mut a); hex(&a) }
        100 => { let mut a = arr::<100>(&v); d.fill_bytes::<100>(&mut a); hex(&a) }
        127 => { let mut a = arr::<127>(&v); d.fill_bytes::<127>(&mut a); hex(&a) }
        128 => { let mut a = arr::<128>(&v); d.fill_bytes::<128>(&mut a); hex(&a) }
        129 => { let mut a = arr::<129>(&v); d.fill_bytes::<129>(&mut a); hex(&a) }
        130 => { let mut a = arr::<130>(&v); d.fill_bytes::<130>(&mut a); hex(&a) }
        191 => { let mut a = arr::<191>(&v); d.fill_bytes::<191>(&mut a); hex(&a) }
        192 => { let mut a = arr::<192>(&v); d.fill_bytes::<192>(&mut a); hex(&a) }
        193 => { let mut a = arr::<193>(&v); d.fill_bytes::<193>(&mut a); hex(&a) }
        200 => { let mut a = arr::<200>(&v); d.fill_bytes::<200>(&mut a); hex(&a) }
        255 => { let mut a = arr::<255>(&v); d.fill_bytes::<255>(&mut a); hex(&a) }
        256 => { let mut a = arr::<256>(&v); d.fill_bytes::<256>(&mut a); hex(&a) }
        257 => { let mut a = arr::<257>(&v); d.fill_bytes::<257>(&mut a); hex(&a) }
        300 => { let mut a = arr::<300>(&v); d.fill_bytes::<300>(&mut a); hex(&a) }
        _ => panic!("fill_bytes::<N> not instantiated for this N"),
    }
}

// R = 10 is there to observe the `assert!(ROUNDS == 8 || ROUNDS == 12 || ROUNDS == 20)` refusal
macro_rules! with_rounds {
    ($r:expr, $f:ident, $($args:expr),*) => {
        match $r {
            8 => $f::<8>($($args),*),
            12 => $f::<12>($($args),*),
            20 => $f::<20>($($args),*),
            10 => $f::<10>($($args),*),
            _ => "bad-op".to_string(),
        }
    };
}

// the context constructors and `Drg::new` with round counts next to the legal ones, zero and a huge one (C20 refusal
// matrix): every one of them is refused by the same `assert!` before anything is computed
macro_rules! with_rounds_ctx {
    ($r:expr, $f:ident, $($args:expr),*) => {
        match $r {
            8 => $f::<8>($($args),*),
            12 => $f::<12>($($args),*),
            20 => $f::<20>($($args),*),
            10 => $f::<10>($($args),*),
            0 => $f::<0>($($args),*),
            1 => $f::<1>($($args),*),
            7 => $f::<7>($($args),*),
            9 => $f::<9>($($args),*),
            11 => $f::<11>($($args),*),
            13 => $f::<13>($($args),*),
            19 => $f::<19>($($args),*),
            21 => $f::<21>($($args),*),
            4294967295 => $f::<4294967295>($($args),*),
            _ => "bad-op".to_string(),
        }
    };
}

pub fn run(op: &str, a: &[&str]) -> Option<String> {
    let r = match op {
        "stream.chacha" | "stream.chachaorig" | "stream.xchacha" | "stream.salsa" | "stream.xsalsa" => {
            if a.len() != 4 { return Some("bad-args".into()); }
            let (rr, key, nonce, prog) = (us(a[0]), unhex(a[1]), unhex(a[2]), a[3]);
            // lengths fixed by the Rust types cannot be passed at all
            let (nlen, k32) = match op {
                "stream.chacha" => (12, false),
                "stream.chachaorig" | "stream.salsa" => (8, false),
                _ => (24, true),
            };
            if nonce.len() != nlen || (k32 && key.len() != 32) { return Some("bad-args".into()); }
            match op {
                "stream.chacha" => with_rounds_ctx!(rr, run_chacha, &key, &nonce, prog),
                "stream.chachaorig" => with_rounds_ctx!(rr, run_chachaorig, &key, &nonce, prog),
                "stream.xchacha" => with_rounds_ctx!(rr, run_xchacha, &key, &nonce, prog),
                "stream.salsa" => with_rounds_ctx!(rr, run_salsa, &key, &nonce, prog),
                _ => with_rounds_ctx!(rr, run_xsalsa, &key, &nonce, prog),
            }
        }
        "stream.eng" => {
            if a.len() != 5 { return Some("bad-args".into()); }
            let (rr, key, nonce, prog) = (us(a[1]), unhex(a[2]), unhex(a[3]), a[4]);
            match a[0] {
                "portable" => with_rounds!(rr, run_portable, &key, &nonce, prog),
                "native" => with_rounds!(rr, run_native, &key, &nonce, prog),
                _ => "bad-args".to_string(),
            }
        }
        "stream.eng2" => {
            if a.len() != 4 { return Some("bad-args".into()); }
            let (rr, key, nonce, prog) = (us(a[0]), unhex(a[1]), unhex(a[2]), a[3]);
            // each engine under its own catch_unwind so that one refusing does not hide the other's answer
            let k2 = key.clone(); let n2 = nonce.clone(); let p2 = prog.to_string();
            let pa = std::panic::catch_unwind(move || with_rounds!(rr, run_portable, &k2, &n2, &p2))
                .unwrap_or_else(|_| "PANIC".to_string());
            let k3 = key.clone(); let n3 = nonce.clone(); let p3 = prog.to_string();
            let na = std::panic::catch_unwind(move || with_rounds!(rr, run_native, &k3, &n3, &p3))
                .unwrap_or_else(|_| "PANIC".to_string());
            format!("{}|{}", pa, na)
        }
        "stream.drg" => {
            if a.len() != 3 { return Some("bad-args".into()); }
            let (rr, seed, prog) = (us(a[0]), unhex(a[1]), a[2]);
            if seed.len() != 32 { return Some("bad-args".into()); }
            with_rounds_ctx!(rr, run_drg, &seed, prog)
        }
        _ => return None,
    };
    Some(r)
}
