//! unit `sha2`: hash.<alg> / hctx.<alg> for sha224 sha256 sha384 sha512 sha512_224 sha512_256 (AGENT_GUIDE §6)
use crate::util::*;
use cryptoxide::hashing::sha2::{
    Context224, Context256, Context384, Context512, Context512_224, Context512_256,
};

/// run a context history: `u<hex>` update (consuming), `m<hex>` update_mut, `c` push a clone, `x` swap with the
/// top of the stack (no-op when empty), `r` reset, `F` finalize_reset (emit), `d` finalize of a clone (emit)
macro_rules! hctx {
    ($fname:ident, $ctx:ty) => {
        fn $fname(prog: &str) -> String {
            let mut cur: $ctx = <$ctx>::new();
            let mut stack: Vec<$ctx> = Vec::new();
            let mut out: Vec<String> = Vec::new();
            if prog != "-" {
                for op in prog.split(';') {
                    let (c, rest) = op.split_at(1);
                    match c {
                        "u" => cur = cur.update(&unhex(rest)),
                        "m" => cur.update_mut(&unhex(rest)),
                        "c" => { assert!(rest.is_empty()); stack.push(cur.clone()) }
                        "x" => {
                            assert!(rest.is_empty());
                            if let Some(top) = stack.last_mut() {
                                core::mem::swap(&mut cur, top);
                            }
                        }
                        "r" => { assert!(rest.is_empty()); cur.reset() }
                        "F" => { assert!(rest.is_empty()); out.push(hex(&cur.finalize_reset())) }
                        "d" => { assert!(rest.is_empty()); out.push(hex(&cur.clone().finalize())) }
                        _ => panic!("bad op"),
                    }
                }
            }
            if out.is_empty() { "-".to_string() } else { out.join(",") }
        }
    };
}

hctx!(hctx224, Context224);
hctx!(hctx256, Context256);
hctx!(hctx384, Context384);
hctx!(hctx512, Context512);
hctx!(hctx512_224, Context512_224);
hctx!(hctx512_256, Context512_256);

pub fn run(op: &str, a: &[&str]) -> Option<String> {
    Some(match op {
        "hash.sha224" => { let m = unhex(a[0]);
            format!("{},{}", hex(&cryptoxide::hashing::sha224(&m)), hex(&Context224::new().update(&m).finalize())) }
        "hash.sha256" => { let m = unhex(a[0]);
            format!("{},{}", hex(&cryptoxide::hashing::sha256(&m)), hex(&Context256::new().update(&m).finalize())) }
        "hash.sha384" => { let m = unhex(a[0]);
            format!("{},{}", hex(&cryptoxide::hashing::sha384(&m)), hex(&Context384::new().update(&m).finalize())) }
        "hash.sha512" => { let m = unhex(a[0]);
            format!("{},{}", hex(&cryptoxide::hashing::sha512(&m)), hex(&Context512::new().update(&m).finalize())) }
        // no one-shot function in hashing/mod.rs for the truncated variants
        "hash.sha512_224" => { let m = unhex(a[0]); hex(&Context512_224::new().update(&m).finalize()) }
        "hash.sha512_256" => { let m = unhex(a[0]); hex(&Context512_256::new().update(&m).finalize()) }
        "hctx.sha224" => hctx224(a[0]),
        "hctx.sha256" => hctx256(a[0]),
        "hctx.sha384" => hctx384(a[0]),
        "hctx.sha512" => hctx512(a[0]),
        "hctx.sha512_224" => hctx512_224(a[0]),
        "hctx.sha512_256" => hctx512_256(a[0]),
        _ => return None,
    })
}
