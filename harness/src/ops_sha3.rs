//! sha3 unit: SHA3-224/256/384/512 and Keccak-224/256/384/512 (C01 one-shot, C02 context histories)
//!   hash.<alg> <msg>  -> `<one-shot fn>,<Context::new().update(msg).finalize()>`
//!   hctx.<alg> <prog> -> digests emitted by the history, joined by `,` (`-` if none); ops separated by `;`:
//!       u<hex> update (consuming)  m<hex> update_mut  c push clone  x swap with top of stack (no-op if empty)
//!       r reset  F finalize_reset (emit)  d finalize of a clone (emit)
use crate::util::*;
use cryptoxide::hashing;

macro_rules! alg {
    ($op:expr, $a:expr, $oneshot:path, $alg:path, $ctx:path) => {{
        match $op {
            "hash" => {
                let msg = unhex($a[0]);
                let one = $oneshot(&msg);
                let ctx = <$alg>::new().update(&msg).finalize();
                format!("{},{}", hex(&one), hex(&ctx))
            }
            "hctx" => {
                let mut cur: $ctx = <$alg>::new();
                let mut stack: Vec<$ctx> = Vec::new();
                let mut out: Vec<String> = Vec::new();
                if $a[0] != "-" {
                    for o in $a[0].split(';') {
                        let (k, rest) = o.split_at(1);
                        match k {
                            "u" => { cur = cur.update(&unhex(rest)); }
                            "m" => { cur.update_mut(&unhex(rest)); }
                            "c" => { assert!(rest.is_empty()); stack.push(cur.clone()); }
                            "x" => {
                                assert!(rest.is_empty());
                                if let Some(top) = stack.last_mut() { std::mem::swap(&mut cur, top); }
                            }
                            "r" => { assert!(rest.is_empty()); cur.reset(); }
                            "F" => { assert!(rest.is_empty()); out.push(hex(&cur.finalize_reset())); }
                            "d" => { assert!(rest.is_empty()); out.push(hex(&cur.clone().finalize())); }
                            _ => return Some("bad-args".to_string()),
                        }
                    }
                }
                if out.is_empty() { "-".to_string() } else { out.join(",") }
            }
            _ => return None,
        }
    }};
}

pub fn run(op: &str, a: &[&str]) -> Option<String> {
    let (kind, alg) = op.split_once('.')?;
    if kind != "hash" && kind != "hctx" {
        return None;
    }
    Some(match alg {
        "sha3_224" => alg!(kind, a, hashing::sha3_224, hashing::sha3::Sha3_224, hashing::sha3::Context224),
        "sha3_256" => alg!(kind, a, hashing::sha3_256, hashing::sha3::Sha3_256, hashing::sha3::Context256),
        "sha3_384" => alg!(kind, a, hashing::sha3_384, hashing::sha3::Sha3_384, hashing::sha3::Context384),
        "sha3_512" => alg!(kind, a, hashing::sha3_512, hashing::sha3::Sha3_512, hashing::sha3::Context512),
        "keccak224" => alg!(kind, a, hashing::keccak224, hashing::keccak::Keccak224, hashing::keccak::Context224),
        "keccak256" => alg!(kind, a, hashing::keccak256, hashing::keccak::Keccak256, hashing::keccak::Context256),
        "keccak384" => alg!(kind, a, hashing::keccak384, hashing::keccak::Keccak384, hashing::keccak::Context384),
        "keccak512" => alg!(kind, a, hashing::keccak512, hashing::keccak::Keccak512, hashing::keccak::Context512),
        _ => return None,
    })
}
