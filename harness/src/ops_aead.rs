//! aead unit: `aead.seal`, `aead.open`, `aead.openbuf`, `aead.inc`, `aead.one` on the real
//! `cryptoxide::chacha20poly1305` (see lean/CxVerif/Driver/Aead.lean for the op grammar).
//! Panics of the crate propagate to the per-case `catch_unwind` of main.rs (answer `PANIC`).
use crate::util::*;
use cryptoxide::chacha20poly1305::{
    ChaChaPoly1305, Context, ContextDecryption, ContextEncryption, DecryptionResult, Tag,
};

fn join(outs: Vec<String>) -> String {
    if outs.is_empty() {
        "_".to_string()
    } else {
        outs.join(",")
    }
}

fn seal<const R: usize>(key: &[u8], nonce: &[u8; 12], aad: &[u8], pt: &[u8]) -> String {
    let mut c = ChaChaPoly1305::<R>::new(key, nonce, aad);
    // a non-zero fill shows that every output byte is written
    let mut out = vec![0xa5u8; pt.len()];
    let mut tag = [0x5au8; 16];
    c.encrypt(pt, &mut out, &mut tag);
    format!("{},{}", hex(&out), hex(&tag))
}

fn open<const R: usize>(buf: bool, key: &[u8], nonce: &[u8; 12], aad: &[u8], ct: &[u8], tag: &[u8]) -> String {
    let mut c = ChaChaPoly1305::<R>::new(key, nonce, aad);
    let mut out = vec![0xa5u8; ct.len()];
    let ok = c.decrypt(ct, &mut out, tag);
    if buf {
        format!("{},{}", hex(&out), boolstr(ok))
    } else if ok {
        format!("{},true", hex(&out))
    } else {
        "false".to_string()
    }
}

enum St<const R: usize> {
    Aad(Context<R>),
    Enc(ContextEncryption<R>),
    Dec(ContextDecryption<R>),
    Done,
}

/// `<hex>[:n]`
fn data_len(rest: &str) -> (Vec<u8>, usize) {
    let mut it = rest.split(':');
    let d = unhex(it.next().unwrap());
    let n = match it.next() {
        Some(s) => us(s),
        None => d.len(),
    };
    (d, n)
}

fn inc<const R: usize>(key: &[u8], nonce: &[u8; 12], prog: &str) -> String {
    let mut st = St::Aad(Context::<R>::new(key, nonce));
    let mut outs: Vec<String> = Vec::new();
    if prog != "_" {
        for op in prog.split(';') {
            let (c, rest) = op.split_at(1);
            st = match (st, c) {
                (St::Aad(mut x), "a") => {
                    x.add_data(&unhex(rest));
                    St::Aad(x)
                }
                (St::Aad(x), "E") => St::Enc(x.to_encryption()),
                (St::Aad(x), "D") => St::Dec(x.to_decryption()),
                (St::Enc(mut x), "e") => {
                    let (d, n) = data_len(rest);
                    let mut out = vec![0xa5u8; n];
                    x.encrypt(&d, &mut out);
                    outs.push(hex(&out));
                    St::Enc(x)
                }
                (St::Enc(mut x), "m") => {
                    let mut d = unhex(rest);
                    x.encrypt_mut(&mut d);
                    outs.push(hex(&d));
                    St::Enc(x)
                }
                (St::Enc(x), "F") => {
                    let Tag(t) = x.finalize();
                    outs.push(hex(&t));
                    St::Done
                }
                (St::Dec(mut x), "d") => {
                    let (d, n) = data_len(rest);
                    let mut out = vec![0xa5u8; n];
                    x.decrypt(&d, &mut out);
                    outs.push(hex(&out));
                    St::Dec(x)
                }
                (St::Dec(mut x), "n") => {
                    let mut d = unhex(rest);
                    x.decrypt_mut(&mut d);
                    outs.push(hex(&d));
                    St::Dec(x)
                }
                (St::Dec(x), "V") => {
                    let t = unhex(rest);
                    if t.len() != 16 {
                        return "bad-args".to_string();
                    }
                    let r = x.finalize(&Tag(arr::<16>(&t)));
                    outs.push(boolstr(r == DecryptionResult::Match));
                    St::Done
                }
                _ => return "bad-prog".to_string(),
            };
        }
    }
    join(outs)
}

fn one<const R: usize>(key: &[u8], nonce: &[u8; 12], aad: &[u8], prog: &str) -> String {
    let mut c = ChaChaPoly1305::<R>::new(key, nonce, aad);
    let mut outs: Vec<String> = Vec::new();
    if prog != "_" {
        for op in prog.split(';') {
            let (k, rest) = op.split_at(1);
            let f: Vec<&str> = rest.split(':').collect();
            match k {
                "e" => {
                    let d = unhex(f[0]);
                    let n = if f.len() > 1 { us(f[1]) } else { d.len() };
                    let l = if f.len() > 2 { us(f[2]) } else { 16 };
                    let mut out = vec![0xa5u8; n];
                    let mut tag = vec![0x5au8; l];
                    c.encrypt(&d, &mut out, &mut tag);
                    outs.push(hex(&out));
                    outs.push(hex(&tag));
                }
                "d" => {
                    let d = unhex(f[0]);
                    let t = unhex(f[1]);
                    let n = if f.len() > 2 { us(f[2]) } else { d.len() };
                    let mut out = vec![0xa5u8; n];
                    if c.decrypt(&d, &mut out, &t) {
                        outs.push(hex(&out));
                        outs.push("true".to_string());
                    } else {
                        outs.push("false".to_string());
                    }
                }
                _ => return "bad-prog".to_string(),
            }
        }
    }
    join(outs)
}

macro_rules! by_rounds {
    ($r:expr, $f:ident, $($a:expr),*) => {
        match $r {
            8 => $f::<8>($($a),*),
            12 => $f::<12>($($a),*),
            20 => $f::<20>($($a),*),
            10 => $f::<10>($($a),*),
            _ => "bad-args".to_string(),
        }
    };
}

fn open_plain<const R: usize>(key: &[u8], nonce: &[u8; 12], aad: &[u8], ct: &[u8], tag: &[u8]) -> String {
    open::<R>(false, key, nonce, aad, ct, tag)
}
fn open_buf<const R: usize>(key: &[u8], nonce: &[u8; 12], aad: &[u8], ct: &[u8], tag: &[u8]) -> String {
    open::<R>(true, key, nonce, aad, ct, tag)
}

pub fn run(op: &str, a: &[&str]) -> Option<String> {
    if !op.starts_with("aead.") {
        return None;
    }
    let r = us(a[0]);
    let key = unhex(a[1]);
    let n = unhex(a[2]);
    if n.len() != 12 {
        return Some("bad-args".to_string());
    }
    let nonce = arr::<12>(&n);
    Some(match op {
        "aead.seal" => by_rounds!(r, seal, &key, &nonce, &unhex(a[3]), &unhex(a[4])),
        "aead.open" => by_rounds!(r, open_plain, &key, &nonce, &unhex(a[3]), &unhex(a[4]), &unhex(a[5])),
        "aead.openbuf" => by_rounds!(r, open_buf, &key, &nonce, &unhex(a[3]), &unhex(a[4]), &unhex(a[5])),
        "aead.inc" => by_rounds!(r, inc, &key, &nonce, a[3]),
        "aead.one" => by_rounds!(r, one, &key, &nonce, &unhex(a[3]), a[4]),
        _ => return None,
    })
}
