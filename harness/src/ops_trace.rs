//! C19: operations traced by tools/pctrace.c.  `cxharness trace <op> <public…> <secret…>` parses its
//! arguments, calls cx_marker_begin(), runs exactly the library operation, calls cx_marker_end()
//! and prints the result.  Everything secret-dependent happens between the two markers.
use crate::util::*;
use cryptoxide::mac::Mac;
use std::hint::black_box;

#[no_mangle]
#[inline(never)]
pub extern "C" fn cx_marker_begin() {
    unsafe { core::arch::asm!("nop", options(nostack)) };
}
#[no_mangle]
#[inline(never)]
pub extern "C" fn cx_marker_end() {
    unsafe { core::arch::asm!("nop", "nop", options(nostack)) };
}

macro_rules! traced {
    ($e:expr) => {{
        cx_marker_begin();
        let r = black_box($e);
        cx_marker_end();
        r
    }};
}

/// a[..]: op-specific. Secrets are always the LAST arguments.
pub fn run(op: &str, a: &[&str]) -> Option<String> {
    Some(match op {
        // x25519.dh <u public> <scalar secret>
        "x25519.dh" => {
            let (u, n) = (arr::<32>(&unhex(a[0])), arr::<32>(&unhex(a[1])));
            hex(&traced!(cryptoxide::curve25519::curve25519(black_box(&n), black_box(&u))))
        }
        "x25519.base" => {
            let n = arr::<32>(&unhex(a[0]));
            hex(&traced!(cryptoxide::curve25519::curve25519_base(black_box(&n))))
        }
        "ed25519.keypair" => {
            let s = arr::<32>(&unhex(a[0]));
            let (kp, _pk) = traced!(cryptoxide::ed25519::keypair(black_box(&s)));
            hex(&kp)
        }
        // ed25519.sign <msg public> <seed secret>   (the keypair is derived outside the markers)
        "ed25519.sign" => {
            let msg = unhex(a[0]);
            let s = arr::<32>(&unhex(a[1]));
            let (kp, _pk) = cryptoxide::ed25519::keypair(&s);
            hex(&traced!(cryptoxide::ed25519::signature(black_box(&msg), black_box(&kp))))
        }
        "ed25519.sign_ext" => {
            let msg = unhex(a[0]);
            let e = arr::<64>(&unhex(a[1]));
            hex(&traced!(cryptoxide::ed25519::signature_extended(black_box(&msg), black_box(&e))))
        }
        // poly1305.tag <msg public> <key secret>
        "poly1305.tag" => {
            let msg = unhex(a[0]);
            let k = arr::<32>(&unhex(a[1]));
            let mut out = [0u8; 16];
            traced!({
                let mut p = cryptoxide::poly1305::Poly1305::new(black_box(&k));
                p.input(black_box(&msg));
                p.raw_result(&mut out);
            });
            hex(&out)
        }
        // poly1305.finish_state <r limbs public> <pad words> <h limbs secret>: the final reduction on an explicit
        // accumulator state (hook verif_from_state): both sides of `h >= p` and every carry pattern
        "poly1305.finish_state" => {
            fn u32s<const N: usize>(s: &str) -> [u32; N] {
                let v: Vec<u32> = s.split(',').map(|x| x.parse::<u32>().expect("bad u32")).collect();
                let mut a = [0u32; N];
                a.copy_from_slice(&v);
                a
            }
            let mut p = cryptoxide::poly1305::Poly1305::verif_from_state(u32s::<5>(a[0]), u32s::<5>(a[2]), u32s::<4>(a[1]));
            let mut out = [0u8; 16];
            traced!({
                p.raw_result(black_box(&mut out));
            });
            hex(&out)
        }
        // hmac.sha256 <msg public> <key secret>   (key length is public)
        "hmac.sha256" => {
            let msg = unhex(a[0]);
            let k = unhex(a[1]);
            let mut out = [0u8; 32];
            traced!({
                let mut h = cryptoxide::hmac::Hmac::new(cryptoxide::sha2::Sha256::new(), black_box(&k));
                h.input(black_box(&msg));
                h.raw_result(&mut out);
            });
            hex(&out)
        }
        "hmac.sha512" => {
            let msg = unhex(a[0]);
            let k = unhex(a[1]);
            let mut out = [0u8; 64];
            traced!({
                let mut h = cryptoxide::hmac::Hmac::new(cryptoxide::sha2::Sha512::new(), black_box(&k));
                h.input(black_box(&msg));
                h.raw_result(&mut out);
            });
            hex(&out)
        }
        // chacha20.enc <nonce public> <len public> <key secret> <plaintext secret>
        "chacha20.enc" => {
            let nonce = arr::<12>(&unhex(a[0]));
            let k = unhex(a[2]);
            let mut data = unhex(a[3]);
            assert!(data.len() == us(a[1]));
            traced!({
                let mut c = cryptoxide::chacha20::ChaCha20::new(black_box(&k), &nonce);
                c.process_mut(black_box(&mut data));
            });
            hex(&data)
        }
        "salsa20.enc" => {
            let nonce = arr::<8>(&unhex(a[0]));
            let k = unhex(a[2]);
            let mut data = unhex(a[3]);
            assert!(data.len() == us(a[1]));
            traced!({
                let mut c = cryptoxide::salsa20::Salsa20::new(black_box(&k), &nonce);
                c.process_mut(black_box(&mut data));
            });
            hex(&data)
        }
        // macresult.eq <expected> <candidate secret>   (both secret in practice; lengths public)
        "macresult.eq" => {
            let x = cryptoxide::mac::MacResult::new(&unhex(a[0]));
            let y = cryptoxide::mac::MacResult::new(&unhex(a[1]));
            boolstr(traced!(black_box(&x) == black_box(&y)))
        }
        "tag.eq" => {
            let x = cryptoxide::chacha20poly1305::Tag(arr::<16>(&unhex(a[0])));
            let y = cryptoxide::chacha20poly1305::Tag(arr::<16>(&unhex(a[1])));
            boolstr(traced!(black_box(&x) == black_box(&y)))
        }
        // aead.decrypt <nonce> <aad> <ct> <key secret> <tag secret>: verdict must not leak via the trace
        // before the final comparison; the tag comparison itself is constant-time
        "aead.decrypt" => {
            let nonce = arr::<12>(&unhex(a[0]));
            let aad = unhex(a[1]);
            let ct = unhex(a[2]);
            let k = unhex(a[3]);
            let tag = unhex(a[4]);
            let mut out = vec![0u8; ct.len()];
            let ok = traced!({
                let mut c = cryptoxide::chacha20poly1305::ChaChaPoly1305::<20>::new(black_box(&k), &nonce, &aad);
                c.decrypt(black_box(&ct), &mut out, black_box(&tag))
            });
            boolstr(ok)
        }
        // CONTROL (tracer sensitivity): a deliberately variable-time operation on its last argument
        "control.verify" => {
            let msg = unhex(a[0]);
            let pk = arr::<32>(&unhex(a[1]));
            let sig = arr::<64>(&unhex(a[2]));
            boolstr(traced!(cryptoxide::ed25519::verify(black_box(&msg), black_box(&pk), black_box(&sig))))
        }
        _ => return None,
    })
}
