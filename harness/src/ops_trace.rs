//! C19: operations traced by tools/pctrace.c.  `cxharness trace <op> <public…> <secret…>` parses its
//! arguments, calls cx_marker_begin(), runs exactly the library operation, calls cx_marker_end()
//! and prints the result.  Everything secret-dependent happens between the two markers.
use crate::util::*;
use cryptoxide::chacha20::{ChaCha, ChaChaOriginal, XChaCha};
use cryptoxide::mac::Mac;
use cryptoxide::salsa20::{Salsa, XSalsa};
use std::hint::black_box;

#[no_mangle]
#[inline(never)]
pub extern "C" fn cx_marker_begin() {
    unsafe { core::arch::asm!("nop", options(nostack)) };
}
#[no_mangle]
#[inline(never)]
pub extern "C" fn cx_marker_end() {
    unsafe { core::arch::asm!("nop", "nop", options(nostack)) };
}

macro_rules! traced {
    ($e:expr) => {{
        cx_marker_begin();
        let r = black_box($e);
        cx_marker_end();
        r
    }};
}

// one traced `new(key, nonce); process_mut(data)` per stream-cipher context type, generic in the round count
macro_rules! stream_enc {
    ($fname:ident, $ty:ident, $mk:expr) => {
        fn $fname<const R: usize>(k: &[u8], nonce: &[u8], data: &mut [u8]) {
            let mk: fn(&[u8], &[u8]) -> $ty<R> = $mk;
            traced!({
                let mut c = mk(black_box(k), nonce);
                c.process_mut(black_box(data));
            });
        }
    };
}
stream_enc!(enc_chacha, ChaCha, |k, n| ChaCha::<R>::new(k, &arr::<12>(n)));
stream_enc!(enc_xchacha, XChaCha, |k, n| XChaCha::<R>::new(&arr::<32>(k), &arr::<24>(n)));
stream_enc!(enc_chachaorig, ChaChaOriginal, |k, n| ChaChaOriginal::<R>::new(k, &arr::<8>(n)));
stream_enc!(enc_salsa, Salsa, |k, n| Salsa::<R>::new(k, &arr::<8>(n)));
stream_enc!(enc_xsalsa, XSalsa, |k, n| XSalsa::<R>::new(&arr::<32>(k), &arr::<24>(n)));

/// a[..]: op-specific. Secrets are always the LAST arguments.
pub fn run(op: &str, a: &[&str]) -> Option<String> {
    Some(match op {
        // x25519.dh <u public> <scalar secret>
        "x25519.dh" => {
            let (u, n) = (arr::<32>(&unhex(a[0])), arr::<32>(&unhex(a[1])));
            hex(&traced!(cryptoxide::curve25519::curve25519(black_box(&n), black_box(&u))))
        }
        "x25519.base" => {
            let n = arr::<32>(&unhex(a[0]));
            hex(&traced!(cryptoxide::curve25519::curve25519_base(black_box(&n))))
        }
        "ed25519.keypair" => {
            let s = arr::<32>(&unhex(a[0]));
            let (kp, _pk) = traced!(cryptoxide::ed25519::keypair(black_box(&s)));
            hex(&kp)
        }
        // ed25519.sign <msg public> <seed secret>   (the keypair is derived outside the markers)
        "ed25519.sign" => {
            let msg = unhex(a[0]);
            let s = arr::<32>(&unhex(a[1]));
            let (kp, _pk) = cryptoxide::ed25519::keypair(&s);
            hex(&traced!(cryptoxide::ed25519::signature(black_box(&msg), black_box(&kp))))
        }
        "ed25519.sign_ext" => {
            let msg = unhex(a[0]);
            let e = arr::<64>(&unhex(a[1]));
            hex(&traced!(cryptoxide::ed25519::signature_extended(black_box(&msg), black_box(&e))))
        }
        // poly1305.tag <msg public> <key secret>
        "poly1305.tag" => {
            let msg = unhex(a[0]);
            let k = arr::<32>(&unhex(a[1]));
            let mut out = [0u8; 16];
            traced!({
                let mut p = cryptoxide::poly1305::Poly1305::new(black_box(&k));
                p.input(black_box(&msg));
                p.raw_result(&mut out);
            });
            hex(&out)
        }
        // poly1305.finish_state <r limbs public> <pad words> <h limbs secret>: the final reduction on an explicit
        // accumulator state (hook verif_from_state): both sides of `h >= p` and every carry pattern
        "poly1305.finish_state" => {
            fn u32s<const N: usize>(s: &str) -> [u32; N] {
                let v: Vec<u32> = s.split(',').map(|x| x.parse::<u32>().expect("bad u32")).collect();
                let mut a = [0u32; N];
                a.copy_from_slice(&v);
                a
            }
            let mut p = cryptoxide::poly1305::Poly1305::verif_from_state(u32s::<5>(a[0]), u32s::<5>(a[2]), u32s::<4>(a[1]));
            let mut out = [0u8; 16];
            traced!({
                p.raw_result(black_box(&mut out));
            });
            hex(&out)
        }
        // hmac.sha256 <msg public> <key secret>   (key length is public)
        "hmac.sha256" => {
            let msg = unhex(a[0]);
            let k = unhex(a[1]);
            let mut out = [0u8; 32];
            traced!({
                let mut h = cryptoxide::hmac::Hmac::new(cryptoxide::sha2::Sha256::new(), black_box(&k));
                h.input(black_box(&msg));
                h.raw_result(&mut out);
            });
            hex(&out)
        }
        "hmac.sha512" => {
            let msg = unhex(a[0]);
            let k = unhex(a[1]);
            let mut out = [0u8; 64];
            traced!({
                let mut h = cryptoxide::hmac::Hmac::new(cryptoxide::sha2::Sha512::new(), black_box(&k));
                h.input(black_box(&msg));
                h.raw_result(&mut out);
            });
            hex(&out)
        }
        // chacha20.enc <nonce public> <len public> <key secret> <plaintext secret>
        "chacha20.enc" => {
            let nonce = arr::<12>(&unhex(a[0]));
            let k = unhex(a[2]);
            let mut data = unhex(a[3]);
            assert!(data.len() == us(a[1]));
            traced!({
                let mut c = cryptoxide::chacha20::ChaCha20::new(black_box(&k), &nonce);
                c.process_mut(black_box(&mut data));
            });
            hex(&data)
        }
        "salsa20.enc" => {
            let nonce = arr::<8>(&unhex(a[0]));
            let k = unhex(a[2]);
            let mut data = unhex(a[3]);
            assert!(data.len() == us(a[1]));
            traced!({
                let mut c = cryptoxide::salsa20::Salsa20::new(black_box(&k), &nonce);
                c.process_mut(black_box(&mut data));
            });
            hex(&data)
        }
        // stream.enc <variant> <rounds> <nonce public> <len public> <key secret> <plaintext secret>
        //   variant: chacha (nonce 12, key 16|32) | xchacha (nonce 24, key 32) | chachaorig (nonce 8) | salsa (nonce 8, key 16|32)
        //            | xsalsa (nonce 24, key 32); rounds 8 | 12 | 20.  Key length is public.
        "stream.enc" => {
            let (variant, rounds) = (a[0], us(a[1]));
            let nonce = unhex(a[2]);
            let k = unhex(a[4]);
            let mut data = unhex(a[5]);
            assert!(data.len() == us(a[3]));
            macro_rules! rounds {
                ($f:ident) => {
                    match rounds {
                        8 => $f::<8>(&k, &nonce, &mut data),
                        12 => $f::<12>(&k, &nonce, &mut data),
                        20 => $f::<20>(&k, &nonce, &mut data),
                        _ => return Some("bad-args".into()),
                    }
                };
            }
            match variant {
                "chacha" => rounds!(enc_chacha),
                "xchacha" => rounds!(enc_xchacha),
                "chachaorig" => rounds!(enc_chachaorig),
                "salsa" => rounds!(enc_salsa),
                "xsalsa" => rounds!(enc_xsalsa),
                _ => return Some("bad-args".into()),
            }
            hex(&data)
        }
        // hmac.<digest> <msg public> <key secret>   (key length is public): sha1, sha3_256, blake2b (HMAC over the legacy
        // Blake2b digest object, 64-byte output)
        "hmac.sha1" => {
            let msg = unhex(a[0]);
            let k = unhex(a[1]);
            let mut out = [0u8; 20];
            traced!({
                let mut h = cryptoxide::hmac::Hmac::new(cryptoxide::sha1::Sha1::new(), black_box(&k));
                h.input(black_box(&msg));
                h.raw_result(&mut out);
            });
            hex(&out)
        }
        "hmac.sha3_256" => {
            let msg = unhex(a[0]);
            let k = unhex(a[1]);
            let mut out = [0u8; 32];
            traced!({
                let mut h = cryptoxide::hmac::Hmac::new(cryptoxide::sha3::Sha3_256::new(), black_box(&k));
                h.input(black_box(&msg));
                h.raw_result(&mut out);
            });
            hex(&out)
        }
        "hmac.blake2b" => {
            let msg = unhex(a[0]);
            let k = unhex(a[1]);
            let mut out = [0u8; 64];
            traced!({
                let mut h = cryptoxide::hmac::Hmac::new(cryptoxide::blake2b::Blake2b::new(64), black_box(&k));
                h.input(black_box(&msg));
                h.raw_result(&mut out);
            });
            hex(&out)
        }
        // blake2b.mac / blake2s.mac <msg public> <key secret>: the keyed BLAKE2 as a MAC (key length public, 1..=64 / 1..=32)
        "blake2b.mac" => {
            let msg = unhex(a[0]);
            let k = unhex(a[1]);
            let mut out = [0u8; 64];
            traced!({
                let mut h = cryptoxide::blake2b::Blake2b::new_keyed(64, black_box(&k));
                Mac::input(&mut h, black_box(&msg));
                Mac::raw_result(&mut h, &mut out);
            });
            hex(&out)
        }
        "blake2s.mac" => {
            let msg = unhex(a[0]);
            let k = unhex(a[1]);
            let mut out = [0u8; 32];
            traced!({
                let mut h = cryptoxide::blake2s::Blake2s::new_keyed(32, black_box(&k));
                Mac::input(&mut h, black_box(&msg));
                Mac::raw_result(&mut h, &mut out);
            });
            hex(&out)
        }
        // macresult.eq <expected> <candidate secret>   (both secret in practice; lengths public)
        "macresult.eq" => {
            let x = cryptoxide::mac::MacResult::new(&unhex(a[0]));
            let y = cryptoxide::mac::MacResult::new(&unhex(a[1]));
            boolstr(traced!(black_box(&x) == black_box(&y)))
        }
        "tag.eq" => {
            let x = cryptoxide::chacha20poly1305::Tag(arr::<16>(&unhex(a[0])));
            let y = cryptoxide::chacha20poly1305::Tag(arr::<16>(&unhex(a[1])));
            boolstr(traced!(black_box(&x) == black_box(&y)))
        }
        // aead.decrypt <nonce> <aad> <ct> <key secret> <tag secret>: verdict must not leak via the trace
        // before the final comparison; the tag comparison itself is constant-time
        "aead.decrypt" => {
            let nonce = arr::<12>(&unhex(a[0]));
            let aad = unhex(a[1]);
            let ct = unhex(a[2]);
            let k = unhex(a[3]);
            let tag = unhex(a[4]);
            let mut out = vec![0u8; ct.len()];
            let ok = traced!({
                let mut c = cryptoxide::chacha20poly1305::ChaChaPoly1305::<20>::new(black_box(&k), &nonce, &aad);
                c.decrypt(black_box(&ct), &mut out, black_box(&tag))
            });
            boolstr(ok)
        }
        // CONTROL (tracer sensitivity): a deliberately variable-time operation on its last argument
        "control.verify" => {
            let msg = unhex(a[0]);
            let pk = arr::<32>(&unhex(a[1]));
            let sig = arr::<64>(&unhex(a[2]));
            boolstr(traced!(cryptoxide::ed25519::verify(black_box(&msg), black_box(&pk), black_box(&sig))))
        }
        _ => return None,
    })
}
