//! C01/C02 for SHA-1 and RIPEMD-160: `hash.<alg> msg` and `hctx.<alg> prog` (AGENT_GUIDE section 6)
use crate::util::*;
use cryptoxide::hashing::{ripemd160, sha1};

/// `hctx.<alg> prog`: ops separated by `;` — `u<hex>` update (consuming), `m<hex>` update_mut, `c` push a clone,
/// `x` swap current with top of stack (no-op on an empty stack), `r` reset, `F` finalize_reset (emit),
/// `d` finalize of a clone (emit).
macro_rules! hctx {
    ($ctx:ty, $new:expr, $prog:expr) => {{
        let mut cur: $ctx = $new;
        let mut stack: Vec<$ctx> = Vec::new();
        let mut outs: Vec<String> = Vec::new();
        for op in $prog.split(';') {
            let (k, arg) = op.split_at(1.min(op.len()));
            match k {
                "u" => { let b = unhex(arg); cur = cur.update(&b); }
                "m" => { let b = unhex(arg); cur.update_mut(&b); }
                "c" if arg.is_empty() => stack.push(cur.clone()),
                "x" if arg.is_empty() => { if let Some(t) = stack.last_mut() { core::mem::swap(t, &mut cur); } }
                "r" if arg.is_empty() => cur.reset(),
                "F" if arg.is_empty() => outs.push(hex(&cur.finalize_reset())),
                "d" if arg.is_empty() => outs.push(hex(&cur.clone().finalize())),
                _ => return Some("bad-args".to_string()),
            }
        }
        if outs.is_empty() { "-".to_string() } else { outs.join(",") }
    }};
}

pub fn run(op: &str, a: &[&str]) -> Option<String> {
    Some(match op {
        "hash.sha1" => {
            let m = unhex(a[0]);
            format!("{},{}", hex(&cryptoxide::hashing::sha1(&m)), hex(&sha1::Context::new().update(&m).finalize()))
        }
        "hash.ripemd160" => {
            let m = unhex(a[0]);
            format!("{},{}", hex(&cryptoxide::hashing::ripemd160(&m)), hex(&ripemd160::Context::new().update(&m).finalize()))
        }
        "hctx.sha1" => hctx!(sha1::Context, sha1::Context::new(), a[0]),
        "hctx.ripemd160" => hctx!(ripemd160::Context, ripemd160::Context::new(), a[0]),
        _ => return None,
    })
}
