//! Long-input metamorphic ops: one big call vs the same bytes fed in small chunks.  The Lean side proves that any
//! chunking gives the same answer (C02/C04/C05/C06/C08 refinement theorems), so the two answers must be equal; the
//! model itself is not run on these megabyte inputs (the driver answers `=`).  The message is generated here from a seed.
use crate::util::*;
use cryptoxide::hashing;
use cryptoxide::mac::Mac;

fn prng(seed: u64, n: usize) -> Vec<u8> {
    let mut s = seed.wrapping_mul(0x9e3779b97f4a7c15) | 1;
    let mut v = Vec::with_capacity(n + 8);
    while v.len() < n {
        s ^= s >> 12;
        s ^= s << 25;
        s ^= s >> 27;
        v.extend_from_slice(&s.wrapping_mul(0x2545f4914f6cdd1d).to_le_bytes());
    }
    v.truncate(n);
    v
}

macro_rules! hash_long {
    ($new:expr, $pre:expr, $big:expr, $chunk:expr) => {{
        let mut a = $new;
        a.update_mut($pre);
        a.update_mut($big);
        let ra = a.finalize().to_vec();
        let mut b = $new;
        b.update_mut($pre);
        for c in $big.chunks($chunk) {
            b.update_mut(c);
        }
        let rb = b.finalize().to_vec();
        let mut whole = $pre.to_vec();
        whole.extend_from_slice($big);
        let rc = $new.update(&whole).finalize().to_vec();
        format!("{},{},{}", hex(&ra), hex(&rb), hex(&rc))
    }};
}

fn sha256hex(v: &[u8]) -> String {
    hex(&hashing::sha256(v)[..8])
}

pub fn run(op: &str, a: &[&str]) -> Option<String> {
    // long.<family> <alg> <seed> <prefix_len> <big_len> <chunk>
    if !op.starts_with("long.") {
        return None;
    }
    let alg = a[0];
    let (seed, pl, bl, chunk) = (nat(a[1]), us(a[2]), us(a[3]), us(a[4]));
    let msg = prng(seed, pl + bl);
    let (pre, big) = msg.split_at(pl);
    Some(match op {
        "long.hash" => match alg {
            "sha1" => hash_long!(hashing::sha1::Context::new(), pre, big, chunk),
            "ripemd160" => hash_long!(hashing::ripemd160::Context::new(), pre, big, chunk),
            "sha224" => hash_long!(hashing::sha2::Context224::new(), pre, big, chunk),
            "sha256" => hash_long!(hashing::sha2::Context256::new(), pre, big, chunk),
            "sha384" => hash_long!(hashing::sha2::Context384::new(), pre, big, chunk),
            "sha512" => hash_long!(hashing::sha2::Context512::new(), pre, big, chunk),
            "sha512_224" => hash_long!(hashing::sha2::Context512_224::new(), pre, big, chunk),
            "sha512_256" => hash_long!(hashing::sha2::Context512_256::new(), pre, big, chunk),
            "sha3_224" => hash_long!(hashing::sha3::Context224::new(), pre, big, chunk),
            "sha3_256" => hash_long!(hashing::sha3::Context256::new(), pre, big, chunk),
            "sha3_384" => hash_long!(hashing::sha3::Context384::new(), pre, big, chunk),
            "sha3_512" => hash_long!(hashing::sha3::Context512::new(), pre, big, chunk),
            "keccak224" => hash_long!(hashing::keccak::Context224::new(), pre, big, chunk),
            "keccak256" => hash_long!(hashing::keccak::Context256::new(), pre, big, chunk),
            "keccak384" => hash_long!(hashing::keccak::Context384::new(), pre, big, chunk),
            "keccak512" => hash_long!(hashing::keccak::Context512::new(), pre, big, chunk),
            "blake2b" => hash_long!(hashing::blake2b::Context::<512>::new(), pre, big, chunk),
            "blake2b_keyed" => hash_long!(hashing::blake2b::Context::<256>::new_keyed(&[7u8; 33]), pre, big, chunk),
            "blake2s" => hash_long!(hashing::blake2s::Context::<256>::new(), pre, big, chunk),
            "blake2s_keyed" => hash_long!(hashing::blake2s::Context::<224>::new_keyed(&[9u8; 17]), pre, big, chunk),
            _ => return Some("bad-args".into()),
        },
        "long.mac" => {
            let key = prng(seed ^ 0x55, 32);
            macro_rules! mac_long {
                ($new:expr, $n:expr) => {{
                    let mut x = $new;
                    x.input(pre);
                    x.input(big);
                    let mut ra = vec![0xa5u8; $n];
                    x.raw_result(&mut ra);
                    let mut y = $new;
                    y.input(pre);
                    for c in big.chunks(chunk) {
                        y.input(c);
                    }
                    let mut rb = vec![0xa5u8; $n];
                    y.raw_result(&mut rb);
                    format!("{},{}", hex(&ra), hex(&rb))
                }};
            }
            match alg {
                "poly1305" => mac_long!(cryptoxide::poly1305::Poly1305::new(&arr::<32>(&key)), 16),
                "hmac_sha256" => mac_long!(cryptoxide::hmac::Hmac::new(cryptoxide::sha2::Sha256::new(), &key), 32),
                "hmac_sha1" => mac_long!(cryptoxide::hmac::Hmac::new(cryptoxide::sha1::Sha1::new(), &key), 20),
                "hmac_sha512" => mac_long!(cryptoxide::hmac::Hmac::new(cryptoxide::sha2::Sha512::new(), &key), 64),
                "hmac_sha3_256" => mac_long!(cryptoxide::hmac::Hmac::new(cryptoxide::sha3::Sha3_256::new(), &key), 32),
                "blake2b_mac" => mac_long!(cryptoxide::blake2b::Blake2b::new_keyed(32, &key), 32),
                "blake2s_mac" => mac_long!(cryptoxide::blake2s::Blake2s::new_keyed(32, &key), 32),
                _ => return Some("bad-args".into()),
            }
        }
        "long.cipher" => {
            let key = prng(seed ^ 0x77, 32);
            macro_rules! cipher_long {
                ($new:expr) => {{
                    let mut x = $new;
                    let mut d1 = msg.clone();
                    let (p1, b1) = d1.split_at_mut(pl);
                    x.process_mut(p1);
                    x.process_mut(b1);
                    let mut y = $new;
                    let mut d2 = msg.clone();
                    let (p2, b2) = d2.split_at_mut(pl);
                    y.process_mut(p2);
                    for c in b2.chunks_mut(chunk) {
                        y.process_mut(c);
                    }
                    let mut z = $new;
                    let mut d3 = vec![0xa5u8; msg.len()];
                    z.process(&msg, &mut d3);
                    format!("{},{},{}", sha256hex(&d1), sha256hex(&d2), sha256hex(&d3))
                }};
            }
            match alg {
                "chacha20" => cipher_long!(cryptoxide::chacha20::ChaCha20::new(&key, &[3u8; 12])),
                "chacha8_k16" => cipher_long!(cryptoxide::chacha20::ChaCha::<8>::new(&key[..16], &[3u8; 12])),
                "chacha20orig" => cipher_long!(cryptoxide::chacha20::ChaChaOriginal::<20>::new(&key, &[4u8; 8])),
                "xchacha20" => cipher_long!(cryptoxide::chacha20::XChaCha::<20>::new(&arr::<32>(&key), &[5u8; 24])),
                "salsa20" => cipher_long!(cryptoxide::salsa20::Salsa20::new(&key, &[6u8; 8])),
                "xsalsa20" => cipher_long!(cryptoxide::salsa20::XSalsa20::new(&arr::<32>(&key), &[7u8; 24])),
                _ => return Some("bad-args".into()),
            }
        }
        "long.aead" => {
            use cryptoxide::chacha20poly1305::{ChaChaPoly1305, Context};
            let key = prng(seed ^ 0x99, 32);
            let nonce = [8u8; 12];
            // one-shot: aad = pre, data = big
            let mut ct1 = vec![0xa5u8; big.len()];
            let mut tag1 = [0x5au8; 16];
            ChaChaPoly1305::<20>::new(&key, &nonce, pre).encrypt(big, &mut ct1, &mut tag1);
            // incremental: aad in two pieces, data in chunks
            let mut c = Context::<20>::new(&key, &nonce);
            let (a1, a2) = pre.split_at(pre.len() / 2);
            c.add_data(a1);
            c.add_data(a2);
            let mut e = c.to_encryption();
            let mut ct2 = big.to_vec();
            for ch in ct2.chunks_mut(chunk) {
                e.encrypt_mut(ch);
            }
            let tag2 = e.finalize();
            format!("{}{},{}{}", sha256hex(&ct1), hex(&tag1), sha256hex(&ct2), hex(&tag2.0))
        }
        _ => return None,
    })
}
