//! argument parsing / formatting shared by all op modules (line protocol, see lean Util/Proto.lean)
#![allow(dead_code)]

pub fn hex(bs: &[u8]) -> String {
    if bs.is_empty() {
        return "-".to_string();
    }
    let mut s = String::with_capacity(bs.len() * 2);
    for b in bs {
        s.push_str(&format!("{:02x}", b));
    }
    s
}

pub fn unhex(s: &str) -> Vec<u8> {
    if s == "-" {
        return Vec::new();
    }
    assert!(s.len() % 2 == 0, "odd hex");
    (0..s.len() / 2)
        .map(|i| u8::from_str_radix(&s[2 * i..2 * i + 2], 16).expect("bad hex"))
        .collect()
}

pub fn nat(s: &str) -> u64 {
    s.parse::<u64>().expect("bad nat")
}
pub fn nat128(s: &str) -> u128 {
    s.parse::<u128>().expect("bad nat")
}
pub fn us(s: &str) -> usize {
    s.parse::<usize>().expect("bad usize")
}

/// comma separated naturals, `-` = empty
pub fn natlist(s: &str) -> Vec<usize> {
    if s == "-" {
        return Vec::new();
    }
    s.split(',').map(us).collect()
}

/// comma separated hex strings, `_` = empty list
pub fn hexlist(s: &str) -> Vec<Vec<u8>> {
    if s == "_" {
        return Vec::new();
    }
    s.split(',').map(unhex).collect()
}

pub fn boolstr(b: bool) -> String {
    if b { "true".into() } else { "false".into() }
}

/// split `bs` at the given piece lengths; remainder is the last piece
pub fn split_at_lens<'a>(lens: &[usize], bs: &'a [u8]) -> Vec<&'a [u8]> {
    let mut out = Vec::new();
    let mut rest = bs;
    for &n in lens {
        let n = n.min(rest.len());
        let (a, b) = rest.split_at(n);
        out.push(a);
        rest = b;
    }
    // the remainder is a further piece only when something is left (or when no piece was asked for): a chunk list
    // that covers the message exactly ends with ITS last piece, so "the call that completes a block is the last call
    // before the result" is reachable; a trailing empty call is written explicitly as a final `0`
    if !rest.is_empty() || out.is_empty() {
        out.push(rest);
    }
    out
}

pub fn arr<const N: usize>(v: &[u8]) -> [u8; N] {
    let mut a = [0u8; N];
    assert!(v.len() == N, "bad array length");
    a.copy_from_slice(v);
    a
}
