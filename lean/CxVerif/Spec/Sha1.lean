/-
  Spec.Sha1 — SHA-1 as defined by FIPS 180-4 (§2.2.2 ROTL, §4.1.1 functions, §4.2.1 constants,
  §5.1.1 padding, §5.2.1 parsing, §5.3.1 initial hash value, §6.1.2 hash computation).
  Executable, import-free.  Words are `UInt32` (addition is modulo 2^32), byte strings `Cx.Bytes`.

  -- API:
  --   Cx.Spec.Sha1.sha1      : Bytes → Bytes            the 20-byte digest of a message (|M| < 2^61 bytes is
  --                                                     the standard's domain; beyond it the length field is
  --                                                     taken modulo 2^64, which the standard does not define)
  --   Cx.Spec.Sha1.compress  : Hash → List UInt32 → Hash  §6.1.2 steps 1–4 for one 16-word block
  --   Cx.Spec.Sha1.pad       : Bytes → Bytes             §5.1.1
  --   Cx.Spec.Sha1.blockBytes = 64, Cx.Spec.Sha1.digestBytes = 20
-/
import CxVerif.Util.Bytes
import CxVerif.Spec.MerkleDamgard
namespace Cx.Spec.Sha1
open Cx

def blockBytes : Nat := 64
def digestBytes : Nat := 20

/-- the five working variables / hash words (a, b, c, d, e) resp. (H0 … H4) -/
structure Hash where
  a : UInt32
  b : UInt32
  c : UInt32
  d : UInt32
  e : UInt32
deriving DecidableEq, Repr, Inhabited

/-- §2.2.2 circular left shift -/
def ROTL (n : Nat) (x : UInt32) : UInt32 := rotl32 x n

/-- §4.1.1 -/
def Ch (x y z : UInt32) : UInt32 := (x &&& y) ^^^ (~~~x &&& z)
def Parity (x y z : UInt32) : UInt32 := x ^^^ y ^^^ z
def Maj (x y z : UInt32) : UInt32 := (x &&& y) ^^^ (x &&& z) ^^^ (y &&& z)

def f (t : Nat) (x y z : UInt32) : UInt32 :=
  if t < 20 then Ch x y z else if t < 40 then Parity x y z else if t < 60 then Maj x y z else Parity x y z

/-- §4.2.1.  (The constants are ⌊2^30·√2⌋, ⌊2^30·√3⌋, ⌊2^30·√5⌋, ⌊2^30·√10⌋: theorem `Proofs.Sha1.K_sqrt`.) -/
def K (t : Nat) : UInt32 :=
  if t < 20 then 0x5a827999 else if t < 40 then 0x6ed9eba1 else if t < 60 then 0x8f1bbcdc else 0xca62c1d6

/-- §5.3.1 -/
def H0 : Hash := ⟨0x67452301, 0xefcdab89, 0x98badcfe, 0x10325476, 0xc3d2e1f0⟩

/-- §6.1.2 step 1, `W_t` for `t = W.length ≥ 16` from the words so far:
    `ROTL¹(W_{t-3} ⊕ W_{t-8} ⊕ W_{t-14} ⊕ W_{t-16})`.
    (`getD` never takes its default when `W.length ≥ 16`; `compress` is only meaningful on 16-word blocks.) -/
def Wnext (W : List UInt32) : UInt32 :=
  let t := W.length
  ROTL 1 (W.getD (t - 3) 0 ^^^ W.getD (t - 8) 0 ^^^ W.getD (t - 14) 0 ^^^ W.getD (t - 16) 0)

/-- extend the schedule by `n` further words -/
def schedule : Nat → List UInt32 → List UInt32
  | 0, W => W
  | n + 1, W => schedule n (W ++ [Wnext W])

/-- §6.1.2 step 3, one iteration `t` with `W_t = w` -/
def round (t : Nat) (w : UInt32) (s : Hash) : Hash :=
  let T := ROTL 5 s.a + f t s.b s.c s.d + s.e + K t + w
  ⟨T, s.a, ROTL 30 s.b, s.c, s.d⟩

/-- iterations `t, t+1, …` over the given schedule words -/
def rounds : Nat → List UInt32 → Hash → Hash
  | _, [], s => s
  | t, w :: ws, s => rounds (t + 1) ws (round t w s)

def Hash.add (x y : Hash) : Hash := ⟨x.a + y.a, x.b + y.b, x.c + y.c, x.d + y.d, x.e + y.e⟩

/-- §6.1.2 steps 1–4 for one block `M` of sixteen 32-bit words -/
def compress (H : Hash) (M : List UInt32) : Hash :=
  H.add (rounds 0 (schedule 64 M) H)

/-- §5.1.1 at byte granularity: the bit "1" (byte 0x80), `k` zero bits, the 64-bit big-endian bit length.
    `Spec.MD.pad 64 8` = `msg ‖ 0x80 ‖ 0^z ‖ be64 (8·|msg|)` with `z` the smallest number of zero bytes such that
    the total is a multiple of 64 (theorem `Proofs.FB.padZeros_spec`: ℓ + 1 + k ≡ 448 mod 512, k least). -/
def pad (msg : Bytes) : Bytes := Cx.Spec.MD.pad 64 8 Cx.Spec.MD.be64 msg

def Hash.toBytes (h : Hash) : Bytes := u32be h.a ++ u32be h.b ++ u32be h.c ++ u32be h.d ++ u32be h.e

/-- one block given as 64 bytes: §5.2.1 parsing into sixteen big-endian words, then §6.1.2 -/
def compressBytes (H : Hash) (blk : Bytes) : Hash := compress H (wordsBE32 blk)

/-- §6.1: pad, parse into 512-bit blocks, iterate from H0 -/
def hashValue (msg : Bytes) : Hash := Cx.Spec.MD.hash 64 8 Cx.Spec.MD.be64 compressBytes H0 msg

/-- the message digest H0‖…‖H4 -/
def sha1 (msg : Bytes) : Bytes := (hashValue msg).toBytes

end Cx.Spec.Sha1
