/-
  Spec.Hmac — HMAC as defined by RFC 2104 (section 2), generic over the hash function `H` and its block
  size `B` (bytes), executable, import-free; plus the ABSTRACT MAC / digest object of property C09
  (key and parameters, bytes fed since the last reset, "already produced its result").

  RFC 2104 §2:  ipad = the byte 0x36 repeated B times, opad = the byte 0x5C repeated B times.
     (1) append zeros to the end of K to create a B byte string; "Applications that use keys longer than B
         bytes will first hash the key using H and then use the resultant L byte string as the actual key"
     (2) XOR the B byte string of (1) with ipad   (3) append the text   (4) apply H
     (5) XOR the B byte string of (1) with opad   (6) append the H result of (4)   (7) apply H.

  -- API:
  --   Cx.Spec.Hmac.hmac (H : Bytes → Bytes) (blockSize : Nat) (key msg : Bytes) : Bytes
  --   Cx.Spec.Hmac.keyBlock H B key : Bytes          the B-byte string K' of step (1)
  --   Cx.Spec.Hmac.ipad / opad : UInt8
  --   Cx.Spec.MacObj.Abs / step                       the abstract object of C09 (see below)
-/
import CxVerif.Util.Bytes
namespace Cx.Spec.Hmac
open Cx

def ipad : UInt8 := 0x36
def opad : UInt8 := 0x5c

/-- XOR every byte of the block with the pad byte (the pad is that byte repeated B times) -/
def xorPad (k : Bytes) (pad : UInt8) : Bytes := k.map (· ^^^ pad)

/-- step (1): K zero-padded to B bytes; a key longer than B bytes is replaced by H(K) first -/
def keyBlock (H : Bytes → Bytes) (B : Nat) (key : Bytes) : Bytes :=
  let k := if key.length ≤ B then key else H key
  k ++ zeros (B - k.length)

/-- H(K' ⊕ opad ‖ H(K' ⊕ ipad ‖ text)) -/
def hmac (H : Bytes → Bytes) (B : Nat) (key msg : Bytes) : Bytes :=
  let k' := keyBlock H B key
  H (xorPad k' opad ++ H (xorPad k' ipad ++ msg))

end Cx.Spec.Hmac

/-!
  ## The abstract MAC / digest object (property C09)

  An object is created with a function `f : Bytes → Bytes` (the MAC under its key and parameters, or the digest)
  and its output length.  Its whole state is: the bytes fed since creation / the last reset, and whether the
  result has been produced.  `input` after a result and a second result are REFUSED (the property allows a
  second result to return the same bytes; every object of this unit refuses, Poly1305 is in its own unit);
  `reset` gives the fresh object with the same function (same key and parameters); asking for the result into a
  buffer whose length is not the output length is refused.
-/
namespace Cx.Spec.MacObj
open Cx

structure Abs where
  /-- MAC under the retained key and parameters / the digest function -/
  f : Bytes → Bytes
  outLen : Nat
  data : Bytes := []
  finished : Bool := false

def fresh (f : Bytes → Bytes) (outLen : Nat) : Abs := { f := f, outLen := outLen }

def input (a : Abs) (b : Bytes) : Option Abs :=
  if a.finished then none else some { a with data := a.data ++ b }

/-- result into a buffer of `n` bytes -/
def resultN (a : Abs) (n : Nat) : Option (Abs × Bytes) :=
  if a.finished then none else if n ≠ a.outLen then none else some ({ a with finished := true }, a.f a.data)

def result (a : Abs) : Option (Abs × Bytes) := resultN a a.outLen

def reset (a : Abs) : Abs := { a with data := [], finished := false }

/-- rekey: fresh object with another function (BLAKE2 `reset_with_key`) -/
def rekey (a : Abs) (f : Bytes → Bytes) : Abs := { a with f := f, data := [], finished := false }

end Cx.Spec.MacObj
