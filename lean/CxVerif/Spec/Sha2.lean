/-
  Spec.Sha2 — FIPS 180-4 SHA-224, SHA-256, SHA-384, SHA-512, SHA-512/224, SHA-512/256, executable,
  written from the text of the standard (byte granularity; bit-level padding is Spec.MerkleDamgard).

  Constants are *defined by the formulas of the standard*, not copied:
    K^{256}_t  = first 32 bits of the fractional part of the cube root of the (t+1)-th prime   (§4.2.2)
    K^{512}_t  = first 64 bits of the fractional part of the cube root of the (t+1)-th prime   (§4.2.3)
    H^{(0)} of SHA-256 / SHA-512 = first 32 / 64 bits of the fractional parts of the square roots of primes 1..8
    H^{(0)} of SHA-384 = first 64 bits … of primes 9..16;  SHA-224 = the *second* 32 bits of those  (§5.3)
    H^{(0)} of SHA-512/t = SHA-512 with IV ⊕ a5a5a5a5a5a5a5a5 applied to the ASCII string "SHA-512/t" (§5.3.6)
  `iroot k x` is the integer k-th root (binary search); Proofs/Sha2Tables proves `c^k ≤ x < (c+1)^k` for every
  value used and that `firstPrimes` lists exactly the first primes.

  -- API:
  --   Cx.Spec.Sha2.sha224 / sha256 / sha384 / sha512 / sha512_224 / sha512_256 : Bytes → Bytes
  --   Cx.Spec.Sha2.blockBytes256 = 64, blockBytes512 = 128
  --   digest sizes: 28 / 32 / 48 / 64 / 28 / 32 bytes
  --   Cx.Spec.Sha2.compress256 : W8 UInt32 → Bytes → W8 UInt32   (one 64-byte block)
  --   Cx.Spec.Sha2.compress512 : W8 UInt64 → Bytes → W8 UInt64   (one 128-byte block)
  --   Cx.Spec.Sha2.K256 H256 H224 : List UInt32 / W8 UInt32, K512 H512 H384 H512_224 H512_256
-/
import CxVerif.Util.Bytes
import CxVerif.Util.Blocks
import CxVerif.Spec.MerkleDamgard
namespace Cx.Spec.Sha2
open Cx

/-! ### primes and integer roots (for the constants) -/

def isPrime (n : Nat) : Bool := decide (2 ≤ n) && (List.range n).all (fun d => decide (d < 2) || n % d != 0)

/-- `primesFrom fuel c k` : the next `k` primes `≥ c` (searching at most `fuel` candidates) -/
def primesFrom : Nat → Nat → Nat → List Nat
  | 0, _, _ => []
  | _, _, 0 => []
  | f + 1, c, k + 1 => if isPrime c then c :: primesFrom f (c + 1) k else primesFrom f (c + 1) (k + 1)

/-- the first `k` primes (k ≤ 80 is all FIPS 180-4 needs; the 80th prime is 409) -/
def firstPrimes (k : Nat) : List Nat := primesFrom 1000 2 k

def irootAux (k x : Nat) : Nat → Nat → Nat
  | 0, r => r
  | b + 1, r => if (r + 2 ^ b) ^ k ≤ x then irootAux k x b (r + 2 ^ b) else irootAux k x b r

/-- ⌊x^(1/k)⌋ by binary search on the bits of the result -/
def iroot (k x : Nat) : Nat := irootAux k x (x.log2 / k + 1) 0

/-- first `bits` bits of the fractional part of the `k`-th root of `p`, as a number `< 2^bits`:
    ⌊p^(1/k)·2^bits⌋ mod 2^bits -/
def fracRoot (k bits p : Nat) : Nat := iroot k (p * 2 ^ (k * bits)) % 2 ^ bits

/-! ### the eight working variables / hash words -/

structure W8 (α : Type) where
  a : α
  b : α
  c : α
  d : α
  e : α
  f : α
  g : α
  h : α
deriving DecidableEq, Repr

def W8.toList {α : Type} (s : W8 α) : List α := [s.a, s.b, s.c, s.d, s.e, s.f, s.g, s.h]

def W8.ofList? {α : Type} : List α → Option (W8 α)
  | [a, b, c, d, e, f, g, h] => some ⟨a, b, c, d, e, f, g, h⟩
  | _ => none

def W8.map {α β : Type} (fn : α → β) (s : W8 α) : W8 β :=
  ⟨fn s.a, fn s.b, fn s.c, fn s.d, fn s.e, fn s.f, fn s.g, fn s.h⟩

def W8.zipWith {α : Type} (op : α → α → α) (x y : W8 α) : W8 α :=
  ⟨op x.a y.a, op x.b y.b, op x.c y.c, op x.d y.d, op x.e y.e, op x.f y.f, op x.g y.g, op x.h y.h⟩

/-- the eight primes-derived words; `none` cannot occur (`firstPrimes` returns the requested count) — the
    table theorems of Proofs/Sha2Tables show the values, so a junk default would be visible there -/
def w8OfNats {α : Type} (mk : Nat → α) (l : List Nat) : W8 α :=
  match l with
  | [a, b, c, d, e, f, g, h] => ⟨mk a, mk b, mk c, mk d, mk e, mk f, mk g, mk h⟩
  | _ => let z := mk 0; ⟨z, z, z, z, z, z, z, z⟩

/-! ### SHA-224 / SHA-256 (FIPS 180-4 §4.1.2, §4.2.2, §5.3.2-3, §6.2) -/

def blockBytes256 : Nat := 64

def ROTR32 (n : UInt32) (x : UInt32) : UInt32 := (x >>> n) ||| (x <<< (32 - n))
def SHR32 (n : UInt32) (x : UInt32) : UInt32 := x >>> n

def Ch32 (x y z : UInt32) : UInt32 := (x &&& y) ^^^ (~~~x &&& z)
def Maj32 (x y z : UInt32) : UInt32 := (x &&& y) ^^^ (x &&& z) ^^^ (y &&& z)
def bigSigma0_256 (x : UInt32) : UInt32 := ROTR32 2 x ^^^ ROTR32 13 x ^^^ ROTR32 22 x
def bigSigma1_256 (x : UInt32) : UInt32 := ROTR32 6 x ^^^ ROTR32 11 x ^^^ ROTR32 25 x
def smallSigma0_256 (x : UInt32) : UInt32 := ROTR32 7 x ^^^ ROTR32 18 x ^^^ SHR32 3 x
def smallSigma1_256 (x : UInt32) : UInt32 := ROTR32 17 x ^^^ ROTR32 19 x ^^^ SHR32 10 x

/-- the sixty-four constants K^{256}: cube roots of the first 64 primes -/
def K256nat : List Nat := (firstPrimes 64).map (fracRoot 3 32)
def K256 : List UInt32 := K256nat.map UInt32.ofNat

def primes9to16 : List Nat := (firstPrimes 16).drop 8

def H256 : W8 UInt32 := w8OfNats UInt32.ofNat ((firstPrimes 8).map (fracRoot 2 32))
/-- SHA-224: the second 32 bits of the fractional parts of the square roots of the 9th..16th primes -/
def H224 : W8 UInt32 := w8OfNats UInt32.ofNat (primes9to16.map (fun p => fracRoot 2 64 p % 2 ^ 32))

/-- message schedule, kept newest-first: `extend256 n r` appends `n` further words
      W_t = σ1(W_{t-2}) + W_{t-7} + σ0(W_{t-15}) + W_{t-16}
    (`schedule_core_shared`: the Rust loop `for i in 16..64` is the literal transcription) -/
def extend256 : Nat → List UInt32 → List UInt32
  | 0, r => r
  | n + 1, r =>
    match r with
    | _ :: w2 :: _ :: _ :: _ :: _ :: w7 :: _ :: _ :: _ :: _ :: _ :: _ :: _ :: w15 :: w16 :: _ =>
      extend256 n ((smallSigma1_256 w2 + w7 + smallSigma0_256 w15 + w16) :: r)
    | _ => r   -- fewer than 16 words: not a message block (never the case for a 64-byte block)

/-- W_0 … W_63 from the sixteen big-endian words of the block -/
def schedule256 (m : List UInt32) : List UInt32 := (extend256 48 m.reverse).reverse

/-- step 3 of §6.2.2 for one `t`; `kw = (K_t, W_t)` -/
def round256 (s : W8 UInt32) (kw : UInt32 × UInt32) : W8 UInt32 :=
  let T1 := s.h + bigSigma1_256 s.e + Ch32 s.e s.f s.g + kw.1 + kw.2
  let T2 := bigSigma0_256 s.a + Maj32 s.a s.b s.c
  ⟨T1 + T2, s.a, s.b, s.c, s.d + T1, s.e, s.f, s.g⟩

/-- §6.2.2 steps 1–4 for one 512-bit block M^{(i)} -/
def compress256 (H : W8 UInt32) (block : Bytes) : W8 UInt32 :=
  let W := schedule256 (wordsBE32 block)
  let r := (K256.zip W).foldl round256 H
  W8.zipWith (· + ·) H r

def hashWords256 (iv : W8 UInt32) (msg : Bytes) : W8 UInt32 :=
  MD.hash blockBytes256 8 MD.be64 compress256 iv msg

def wordsToBytes32 (h : W8 UInt32) : Bytes := h.toList.flatMap u32be

def sha256 (msg : Bytes) : Bytes := wordsToBytes32 (hashWords256 H256 msg)
/-- §6.3: SHA-224 = leftmost 224 bits of the final hash value with the SHA-224 initial value -/
def sha224 (msg : Bytes) : Bytes := (wordsToBytes32 (hashWords256 H224 msg)).take 28

/-! ### SHA-384 / SHA-512 / SHA-512/t (FIPS 180-4 §4.1.3, §4.2.3, §5.3.4-6, §6.4-6.7) -/

def blockBytes512 : Nat := 128

def ROTR64 (n : UInt64) (x : UInt64) : UInt64 := (x >>> n) ||| (x <<< (64 - n))
def SHR64 (n : UInt64) (x : UInt64) : UInt64 := x >>> n

def Ch64 (x y z : UInt64) : UInt64 := (x &&& y) ^^^ (~~~x &&& z)
def Maj64 (x y z : UInt64) : UInt64 := (x &&& y) ^^^ (x &&& z) ^^^ (y &&& z)
def bigSigma0_512 (x : UInt64) : UInt64 := ROTR64 28 x ^^^ ROTR64 34 x ^^^ ROTR64 39 x
def bigSigma1_512 (x : UInt64) : UInt64 := ROTR64 14 x ^^^ ROTR64 18 x ^^^ ROTR64 41 x
def smallSigma0_512 (x : UInt64) : UInt64 := ROTR64 1 x ^^^ ROTR64 8 x ^^^ SHR64 7 x
def smallSigma1_512 (x : UInt64) : UInt64 := ROTR64 19 x ^^^ ROTR64 61 x ^^^ SHR64 6 x

/-- the eighty constants K^{512}: cube roots of the first 80 primes -/
def K512nat : List Nat := (firstPrimes 80).map (fracRoot 3 64)
def K512 : List UInt64 := K512nat.map UInt64.ofNat

def H512 : W8 UInt64 := w8OfNats UInt64.ofNat ((firstPrimes 8).map (fracRoot 2 64))
def H384 : W8 UInt64 := w8OfNats UInt64.ofNat (primes9to16.map (fracRoot 2 64))

def extend512 : Nat → List UInt64 → List UInt64
  | 0, r => r
  | n + 1, r =>
    match r with
    | _ :: w2 :: _ :: _ :: _ :: _ :: w7 :: _ :: _ :: _ :: _ :: _ :: _ :: _ :: w15 :: w16 :: _ =>
      extend512 n ((smallSigma1_512 w2 + w7 + smallSigma0_512 w15 + w16) :: r)
    | _ => r

/-- W_0 … W_79 -/
def schedule512 (m : List UInt64) : List UInt64 := (extend512 64 m.reverse).reverse

def round512 (s : W8 UInt64) (kw : UInt64 × UInt64) : W8 UInt64 :=
  let T1 := s.h + bigSigma1_512 s.e + Ch64 s.e s.f s.g + kw.1 + kw.2
  let T2 := bigSigma0_512 s.a + Maj64 s.a s.b s.c
  ⟨T1 + T2, s.a, s.b, s.c, s.d + T1, s.e, s.f, s.g⟩

def compress512 (H : W8 UInt64) (block : Bytes) : W8 UInt64 :=
  let W := schedule512 (wordsBE64 block)
  let r := (K512.zip W).foldl round512 H
  W8.zipWith (· + ·) H r

def hashWords512 (iv : W8 UInt64) (msg : Bytes) : W8 UInt64 :=
  MD.hash blockBytes512 16 MD.be128 compress512 iv msg

def wordsToBytes64 (h : W8 UInt64) : Bytes := h.toList.flatMap u64be

/-- §5.3.6 "SHA-512/t IV generation function" -/
def sha512tIV (t : Nat) : W8 UInt64 :=
  let iv'' := H512.map (· ^^^ 0xa5a5a5a5a5a5a5a5)
  hashWords512 iv'' ("SHA-512/" ++ toString t).toUTF8.toList

def H512_224 : W8 UInt64 := sha512tIV 224
def H512_256 : W8 UInt64 := sha512tIV 256

def sha512 (msg : Bytes) : Bytes := wordsToBytes64 (hashWords512 H512 msg)
def sha384 (msg : Bytes) : Bytes := (wordsToBytes64 (hashWords512 H384 msg)).take 48
/-- §6.6 / §6.7: leftmost t bits of the final hash value -/
def sha512_224 (msg : Bytes) : Bytes := (wordsToBytes64 (hashWords512 H512_224 msg)).take 28
def sha512_256 (msg : Bytes) : Bytes := (wordsToBytes64 (hashWords512 H512_256 msg)).take 32

end Cx.Spec.Sha2
