/-
  Spec.MerkleDamgard — the padding and iteration scheme common to SHA-1, SHA-2 (FIPS 180-4 §5.1, §5.2, §6)
  and RIPEMD-160, at byte granularity (all messages the crate can be given are whole bytes).

  FIPS 180-4 §5.1.1 (SHA-1/224/256): "append the bit 1 to the end of the message, followed by k zero bits, where k
  is the smallest non-negative solution of l + 1 + k ≡ 448 mod 512; then append the 64-bit block equal to the
  number l expressed using a binary representation".  §5.1.2 (SHA-384/512/…): the same with 896 mod 1024 and a
  128-bit length.  For a message of whole bytes the bit `1` followed by seven `0` bits is the byte 0x80 and the
  remaining zero bits are `padZeros` zero bytes (`k = 8·padZeros + 7`).  RIPEMD-160 uses the MD4 variant: same
  padding, length as a little-endian 64-bit word.

  -- API:
  --   Cx.Spec.MD.padZeros B L len            number of zero bytes (B = block bytes, L = bytes of the length field)
  --   Cx.Spec.MD.pad B L lenEnc msg          padded message
  --   Cx.Spec.MD.hash B L lenEnc compress iv msg   final chaining value
  --   Cx.Spec.MD.be64 / be128 / le64         the length encodings (argument: length in BITS)
-/
import CxVerif.Util.Bytes
import CxVerif.Util.Blocks
namespace Cx.Spec.MD

/-- number of zero bytes after the 0x80 byte: the smallest `z ≥ 0` with `len + 1 + z + L ≡ 0 (mod B)`
    (theorem `Cx.Proofs.MD.padZeros_spec` / `padZeros_least`) -/
def padZeros (B L len : Nat) : Nat := (B - (len + 1 + L) % B) % B

/-- 64-bit big-endian length field (SHA-1, SHA-224/256); the standard's domain is `bits < 2^64` -/
def be64 (bits : Nat) : Bytes := natToBE 8 bits
/-- 128-bit big-endian length field (SHA-384/512/t); domain `bits < 2^128` -/
def be128 (bits : Nat) : Bytes := natToBE 16 bits
/-- 64-bit little-endian length field (MD4 family: RIPEMD-160); domain `bits < 2^64` -/
def le64 (bits : Nat) : Bytes := natToLE 8 bits

/-- message ‖ 0x80 ‖ 0…0 ‖ length-in-bits -/
def pad (B L : Nat) (lenEnc : Nat → Bytes) (msg : Bytes) : Bytes :=
  msg ++ [(0x80 : UInt8)] ++ zeros (padZeros B L msg.length) ++ lenEnc (8 * msg.length)

/-- parse the padded message into `B`-byte blocks and iterate the compression function from `iv` -/
def hash {σ : Type} (B L : Nat) (lenEnc : Nat → Bytes) (compress : σ → Bytes → σ) (iv : σ) (msg : Bytes) : σ :=
  (fullBlocks B (pad B L lenEnc msg)).foldl compress iv

end Cx.Spec.MD
