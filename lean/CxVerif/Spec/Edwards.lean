/-
  Spec.Edwards — the twisted Edwards curve edwards25519 of RFC 8032 §5.1
      −x² + y² = 1 + d·x²·y²      over GF(p), p = 2^255 − 19, d = −121665/121666
  on `Nat` modulo `p` (the field of Spec/Field25519.lean), executable and kernel friendly.

  * `add`     the affine addition law (RFC 8032 §5.1.4 / §6 "for point addition, the following method is
              recommended": x3 = (x1·y2 + x2·y1)/(1 + d·x1·x2·y1·y2), y3 = (y1·y2 + x1·x2)/(1 − d·x1·x2·y1·y2))
  * `smul`    scalar multiplication, the double-and-add loop of the RFC's reference `point_mul`
              (`Q = 0; while s > 0: if s & 1: Q = Q + P; P = P + P; s >>= 1`)
  * `B`       the base point: y = 4/5, x the even ("positive") root
  * `encode`  §5.1.2: 255-bit little-endian y, least significant bit of x in bit 255
  * `decodeStrict` §5.1.3 as written (y ≥ p fails; x = 0 with sign bit 1 fails)
  * `decode`  the lenient decoding this crate (like ref10) implements: the 255-bit y is reduced mod p, and for x = 0
              the sign bit is ignored.  `decodeStrict s = some P → decode s = some P`; they differ exactly on the
              non-canonical encodings.

  Division is multiplication by `Field25519.inv a = a^(p−2)`; that this *is* the inverse needs `Nat.Prime p`
  (a hypothesis of the theorems that use it, never an axiom).

  -- API:
  --   Cx.Spec.Edwards.Point                      structure x y : Nat
  --   Cx.Spec.Edwards.d : Nat                    the curve constant (Field25519.edwardsD)
  --   Cx.Spec.Edwards.onCurve : Point → Bool     coordinates reduced and curve equation
  --   Cx.Spec.Edwards.zero / add / neg / double / sub / smul
  --   Cx.Spec.Edwards.B : Point                  base point
  --   Cx.Spec.Edwards.recoverX : Nat → Bool → Option Nat      square-root step of §5.1.3 (lenient for x = 0)
  --   Cx.Spec.Edwards.encode : Point → Bytes,  decode / decodeStrict : Bytes → Option Point
  --   Cx.Spec.Edwards.precomp : Point → Nat × Nat × Nat       (y+x, y−x, 2dxy) — what the code's tables store
-/
import CxVerif.Spec.Field25519
namespace Cx.Spec.Edwards
open Cx

local infixl:65 " +ₚ " => Field25519.add
local infixl:65 " -ₚ " => Field25519.sub
local infixl:70 " *ₚ " => Field25519.mul

/-- the field prime 2^255 − 19 -/
def p : Nat := Field25519.p

/-- an affine point (no proof of membership attached: see `onCurve`) -/
structure Point where
  x : Nat
  y : Nat
  deriving DecidableEq, Repr, Inhabited

/-- `d = −121665/121666` -/
def d : Nat := Field25519.edwardsD

/-- both coordinates reduced and `−x² + y² = 1 + d x² y²` -/
def onCurve (P : Point) : Bool :=
  decide (P.x < p) && decide (P.y < p) &&
    ((P.y *ₚ P.y) -ₚ (P.x *ₚ P.x) == 1 +ₚ d *ₚ ((P.x *ₚ P.x) *ₚ (P.y *ₚ P.y)))

/-- the neutral element (0, 1) -/
def zero : Point := ⟨0, 1⟩

/-- the affine addition law of the twisted Edwards curve with a = −1 -/
def add (P Q : Point) : Point :=
  let t := d *ₚ ((P.x *ₚ Q.x) *ₚ (P.y *ₚ Q.y))
  ⟨(P.x *ₚ Q.y +ₚ Q.x *ₚ P.y) *ₚ Field25519.inv (1 +ₚ t),
   (P.y *ₚ Q.y +ₚ P.x *ₚ Q.x) *ₚ Field25519.inv (1 -ₚ t)⟩

/-- −(x, y) = (−x, y) -/
def neg (P : Point) : Point := ⟨Field25519.neg P.x, P.y % p⟩

def double (P : Point) : Point := add P P
def sub (P Q : Point) : Point := add P (neg Q)

/-- RFC 8032 reference `point_mul`: `n` is consumed from the least significant bit, `P` is doubled in every
    step, `Q` accumulates.  (`fuel ≥ ` number of bits of `n`.) -/
def smulAux : Nat → Nat → Point → Point → Point
  | 0, _, _, Q => Q
  | fuel + 1, n, P, Q =>
    if n = 0 then Q
    else smulAux fuel (n / 2) (add P P) (if n % 2 = 1 then add Q P else Q)

/-- `[n]P` -/
def smul (n : Nat) (P : Point) : Point := smulAux n n P zero

/-! ### decoding and encoding (RFC 8032 §5.1.2, §5.1.3) -/

/-- §5.1.3 steps 2–4 for a field element `y` and the sign bit `x_0`:
    `u = y² − 1`, `v = d y² + 1`, candidate `x = u v³ (u v⁷)^((p−5)/8)`; if `v x² = u` keep `x`, if `v x² = −u`
    take `x · 2^((p−1)/4)`, otherwise there is no square root.  Finally select the root whose parity is `x_0`.
    (Lenient in one place, like the code: for `x = 0` the sign bit is not checked.) -/
def recoverX (y : Nat) (sign : Bool) : Option Nat :=
  let y2 := y *ₚ y
  let u := y2 -ₚ 1
  let v := d *ₚ y2 +ₚ 1
  let v3 := (v *ₚ v) *ₚ v
  let v7 := (v3 *ₚ v3) *ₚ v
  let x := (u *ₚ v3) *ₚ Field25519.pow25523 (u *ₚ v7)
  let vxx := v *ₚ (x *ₚ x)
  let root : Option Nat :=
    if vxx = u % p then some x
    else if vxx = Field25519.neg u then some (x *ₚ Field25519.sqrtM1)
    else none
  match root with
  | none => none
  | some x => if (x % 2 == 1) != sign then some (Field25519.neg x) else some x

/-- little-endian integer, bit 255 = sign of x, low 255 bits = y -/
def splitEncoding (s : Bytes) : Nat × Bool := (leNat s % 2 ^ 255, leNat s / 2 ^ 255 % 2 == 1)

/-- the decoding implemented by the crate: y reduced modulo p, `x = 0` accepted with either sign bit -/
def decode (s : Bytes) : Option Point :=
  if s.length = 32 then
    let (y255, sign) := splitEncoding s
    let y := y255 % p
    (recoverX y sign).map fun x => ⟨x, y⟩
  else none

/-- RFC 8032 §5.1.3 to the letter: fails for `y ≥ p` (step 1) and for `x = 0` with `x_0 = 1` (step 4) -/
def decodeStrict (s : Bytes) : Option Point :=
  if s.length = 32 then
    let (y, sign) := splitEncoding s
    if y < p then
      match recoverX y sign with
      | none => none
      | some x => if x = 0 && sign then none else some ⟨x, y⟩
    else none
  else none

/-- §5.1.2: the 32-byte little-endian encoding of `y`, with the least significant bit of `x` copied to the most
    significant bit of the last octet -/
def encode (P : Point) : Bytes := natToLE 32 (P.y % p + 2 ^ 255 * (P.x % p % 2))

/-! ### the base point -/

/-- `y(B) = 4/5` -/
def By : Nat := 4 *ₚ Field25519.inv 5

/-- the x-coordinate of B as published in RFC 8032 §5.1; `B_spec` below shows it is the even root for `By` -/
def Bx : Nat := 15112221349535400772501151409588531511454012693041857206046113283949847762202

/-- the base point -/
def B : Point := ⟨Bx, By⟩

/-! ### what the precomputed tables of the code store for a point -/

/-- `(y + x, y − x, 2·d·x·y)` -/
def precomp (P : Point) : Nat × Nat × Nat :=
  (P.y +ₚ P.x, P.y -ₚ P.x, Field25519.edwardsD2 *ₚ (P.x *ₚ P.y))

/-- the eight points of order dividing 8 are exactly the points with `[8]P = 0`; used by generators/tests only -/
def isSmallOrder (P : Point) : Bool := smul 8 P == zero

end Cx.Spec.Edwards
