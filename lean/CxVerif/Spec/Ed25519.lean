/-
  Spec.Ed25519 — PureEdDSA / Ed25519, RFC 8032 §5.1.5 (key generation), §5.1.6 (sign), §5.1.7 (verify),
  written over Spec.Edwards (affine group), Spec.Sha2.sha512 and the integers modulo L.

  Verification is the *cofactorless* equation that this crate (like ref10) implements:
        encode([S]B − [k]A) = R-bytes            (R is never decoded; the 32 bytes are compared)
  together with the crate's documented extra refusal of the all-zero public key.  RFC 8032 §5.1.7 states
  `[8][S]B = [8]R + [8][k]A'` and allows ("it's sufficient, but not required") the cofactorless check
  `[S]B = R + [k]A'`; for a canonical R the two cofactorless forms coincide (group law).
  Public keys are decoded with `Edwards.decode` (lenient: y ≥ p reduced, x = 0 with sign bit tolerated);
  `verifyStrict` is the same predicate with the strict §5.1.3 decoding.

  -- API:
  --   Cx.Spec.Ed25519.clamp : Bytes → Bytes                    (§5.1.5 step 2 on the first 32 bytes)
  --   Cx.Spec.Ed25519.secretScalar / noncePrefix : Bytes → Nat / Bytes
  --   Cx.Spec.Ed25519.publicKey : Bytes → Bytes                seed ↦ A (32 bytes)
  --   Cx.Spec.Ed25519.keypair : Bytes → Bytes × Bytes          seed ↦ (seed ‖ A, A)        (the crate's layout)
  --   Cx.Spec.Ed25519.expandSeed : Bytes → Bytes               seed ↦ clamp(h[0..32]) ‖ h[32..64]
  --   Cx.Spec.Ed25519.sign : Bytes → Bytes → Bytes             seed, message ↦ R ‖ S
  --   Cx.Spec.Ed25519.signWith : Nat → Bytes → Bytes → Bytes → Bytes   (a, prefix, A-bytes, M) the common core
  --   Cx.Spec.Ed25519.signExtended / extendedToPublic          from a 64-byte extended secret
  --   Cx.Spec.Ed25519.verify / verifyStrict : (M A sig : Bytes) → Bool
  --   Cx.Spec.Ed25519.exchange : (pk seed : Bytes) → Bytes     X25519(clamp(h[0..32]), (1+y)/(1−y))
-/
import CxVerif.Spec.Edwards
import CxVerif.Spec.ScalarL
import CxVerif.Spec.Sha2
import CxVerif.Spec.X25519
namespace Cx.Spec.Ed25519
open Cx Cx.Spec.Edwards

def L : Nat := ScalarL.L

/-- the hash function H of Ed25519 -/
def H (m : Bytes) : Bytes := Sha2.sha512 m

/-- §5.1.5 step 2: "Prune the buffer: the lowest three bits of the first octet are cleared, the highest bit of
    the last octet is cleared, and the second highest bit of the last octet is set" (octets 0 and 31) -/
def clamp (h : Bytes) : Bytes :=
  let h := h.modify 0 (· &&& 248)
  let h := h.modify 31 (· &&& 127)
  h.modify 31 (· ||| 64)

/-- §5.1.5 steps 1–3: the secret scalar `s` -/
def secretScalar (seed : Bytes) : Nat := leNat (clamp ((H seed).take 32))

/-- §5.1.6 step 1: `prefix` = the second half of `H(seed)` -/
def noncePrefix (seed : Bytes) : Bytes := (H seed).drop 32

/-- §5.1.5 step 4: `A = ENC([s]B)` -/
def publicKey (seed : Bytes) : Bytes := encode (smul (secretScalar seed) B)

/-- the crate's `keypair`: `(seed ‖ A, A)` -/
def keypair (seed : Bytes) : Bytes × Bytes := (seed ++ publicKey seed, publicKey seed)

/-- the crate's "extended secret": the pruned first half of `H(seed)` followed by the prefix -/
def expandSeed (seed : Bytes) : Bytes := clamp ((H seed).take 32) ++ (H seed).drop 32

/-- §5.1.6 steps 2–6 for a given secret scalar `a`, prefix and public-key bytes `A`:
    `r = H(prefix ‖ M) mod L`, `R = ENC([r]B)`, `k = H(R ‖ A ‖ M) mod L`, `S = (r + k·a) mod L`, output `R ‖ S` -/
def signWith (a : Nat) (pre A M : Bytes) : Bytes :=
  let r := leNat (H (pre ++ M)) % L
  let R := encode (smul r B)
  let k := leNat (H (R ++ A ++ M)) % L
  let S := (r + k * a) % L
  R ++ natToLE 32 S

/-- §5.1.6 -/
def sign (seed M : Bytes) : Bytes := signWith (secretScalar seed) (noncePrefix seed) (publicKey seed) M

/-- the public key of a 64-byte extended secret `a ‖ prefix` -/
def extendedToPublic (ext : Bytes) : Bytes := encode (smul (leNat (ext.take 32)) B)

/-- signing with a 64-byte extended secret `a ‖ prefix` -/
def signExtended (ext M : Bytes) : Bytes :=
  signWith (leNat (ext.take 32)) (ext.drop 32) (extendedToPublic ext) M

/-- the verification predicate, parametrised by the point decoder used for the public key -/
def verifyWith (dec : Bytes → Option Point) (M A sig : Bytes) : Bool :=
  match dec A with
  | none => false
  | some Apt =>
    let Rb := sig.take 32
    let S := leNat (sig.drop 32)
    if sig.length = 64 ∧ S < L ∧ A ≠ zeros 32 then
      let k := leNat (H (Rb ++ A ++ M)) % L
      encode (Edwards.sub (smul S B) (smul k Apt)) == Rb
    else false

/-- §5.1.7, cofactorless, lenient public-key decoding (what this crate implements) -/
def verify (M A sig : Bytes) : Bool := verifyWith decode M A sig

/-- §5.1.7, cofactorless, strict §5.1.3 public-key decoding -/
def verifyStrict (M A sig : Bytes) : Bool := verifyWith decodeStrict M A sig

/-- the birational map Edwards y ↦ Montgomery u = (1 + y)/(1 − y) -/
def edwardsToMontgomeryU (y : Nat) : Nat :=
  Field25519.mul (Field25519.add 1 y) (Field25519.inv (Field25519.sub 1 y))

/-- X25519 between the Ed25519 secret `seed` (its hashed, pruned scalar `s` of §5.1.5; X25519 prunes again,
    which changes nothing) and the Ed25519 public key `pk` mapped to Montgomery form -/
def exchange (pk seed : Bytes) : Bytes :=
  X25519.x25519 (clamp ((H seed).take 32))
    (Field25519.encode (edwardsToMontgomeryU (Field25519.decode pk)))

end Cx.Spec.Ed25519
