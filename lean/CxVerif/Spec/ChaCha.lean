/-
  Spec.ChaCha — ChaCha per RFC 8439 §2.1–2.4 (generalised to R rounds and to the τ constants of 128-bit keys,
  as in Bernstein's "ChaCha, a variant of Salsa20"), Bernstein's original 64-bit-counter/64-bit-nonce layout,
  HChaCha and XChaCha per draft-irtf-cfrg-xchacha-03.

  -- API:
  --   Cx.Spec.ChaCha.State            = Vector UInt32 16
  --   Cx.Spec.ChaCha.quarterRound     : UInt32 → UInt32 → UInt32 → UInt32 → UInt32×UInt32×UInt32×UInt32  (§2.1)
  --   Cx.Spec.ChaCha.block      (R : Nat) (key nonce : Bytes) (counter : UInt32) : Bytes   IETF block (§2.3); key 16|32 B, nonce 12 B
  --   Cx.Spec.ChaCha.blockOrig  (R) (key nonce : Bytes) (counter : UInt64) : Bytes          Bernstein layout; nonce 8 B
  --   Cx.Spec.ChaCha.hchacha    (R) (key nonce16 : Bytes) : Bytes                           32-byte subkey
  --   Cx.Spec.ChaCha.xchachaBlock (R) (key nonce24 : Bytes) (counter : UInt32) : Bytes
  --   Cx.Spec.ChaCha.keystream  (R) (key nonce) (pos len : Nat) : Bytes    IETF keystream at ABSOLUTE byte position
  --   Cx.Spec.ChaCha.encrypt    (R) (key nonce) (pos : Nat) (data : Bytes) : Bytes   (= decrypt); RFC 8439 §2.4 with
  --                                initial counter c is `encrypt 20 key nonce (64*c) data`
  --   likewise keystreamOrig/encryptOrig, keystreamX/encryptX.
  --   Cx.Spec.ChaCha.encryptFast : same value as `encrypt`, one block evaluation per 64 bytes (use this in drivers)
  --   Cx.Spec.ChaCha.validKey / validRounds : the domain guards (key 16 or 32 bytes; R ∈ {8,12,20})
-/
import CxVerif.Util.Bytes
import CxVerif.Spec.Stream
namespace Cx.Spec.ChaCha
open Cx.Spec.Stream

abbrev State := Vector UInt32 16

/-- RFC 8439 §2.1 -/
def quarterRound (a b c d : UInt32) : UInt32 × UInt32 × UInt32 × UInt32 :=
  let a := a + b; let d := rotl32 (d ^^^ a) 16
  let c := c + d; let b := rotl32 (b ^^^ c) 12
  let a := a + b; let d := rotl32 (d ^^^ a) 8
  let c := c + d; let b := rotl32 (b ^^^ c) 7
  (a, b, c, d)

/-- RFC 8439 §2.2: QUARTERROUND(x, y, z, w) on the state -/
def qround (s : State) (i j k l : Fin 16) : State :=
  match quarterRound s[i] s[j] s[k] s[l] with
  | (a, b, c, d) => (((s.set i a).set j b).set k c).set l d

/-- RFC 8439 §2.3 `inner_block`: four column rounds, four diagonal rounds -/
def innerBlock (s : State) : State :=
  let s := qround s 0 4 8 12
  let s := qround s 1 5 9 13
  let s := qround s 2 6 10 14
  let s := qround s 3 7 11 15
  let s := qround s 0 5 10 15
  let s := qround s 1 6 11 12
  let s := qround s 2 7 8 13
  let s := qround s 3 4 9 14
  s

/-- R rounds = R/2 double rounds (R ∈ {8, 12, 20}) -/
def rounds (R : Nat) (s : State) : State := iter innerBlock (R / 2) s

def addState (a b : State) : State := Vector.ofFn fun i => a[i] + b[i]

def serialize (s : State) : Bytes := s.toList.flatMap u32le

/-- "expand 32-byte k" -/
def sigma : Bytes := ascii "expand 32-byte k"
/-- "expand 16-byte k" -/
def tau : Bytes := ascii "expand 16-byte k"

def validKey (key : Bytes) : Prop := key.length = 16 ∨ key.length = 32
def validRounds (R : Nat) : Prop := R = 8 ∨ R = 12 ∨ R = 20
instance (key : Bytes) : Decidable (validKey key) := by unfold validKey; infer_instance
instance (R : Nat) : Decidable (validRounds R) := by unfold validRounds; infer_instance

/-- constants: σ for a 256-bit key, τ for a 128-bit key -/
def constants (key : Bytes) : Bytes := if key.length = 32 then sigma else tau
/-- the 32 key bytes of the state: a 128-bit key is used twice -/
def keyBytes (key : Bytes) : Bytes := if key.length = 32 then key else key ++ key

/-- state with the last row given as four words -/
def initState (key : Bytes) (w12 w13 w14 w15 : UInt32) : State :=
  let c := constants key
  let k := keyBytes key
  #v[word c 0, word c 1, word c 2, word c 3,
     word k 0, word k 1, word k 2, word k 3,
     word k 4, word k 5, word k 6, word k 7,
     w12, w13, w14, w15]

/-- rounds, feed-forward, little-endian serialisation -/
def blockOfState (R : Nat) (s : State) : Bytes := serialize (addState (rounds R s) s)

/-- RFC 8439 §2.3 layout: 32-bit counter, 96-bit nonce -/
def ietfState (key nonce : Bytes) (counter : UInt32) : State :=
  initState key counter (word nonce 0) (word nonce 1) (word nonce 2)

def block (R : Nat) (key nonce : Bytes) (counter : UInt32) : Bytes :=
  blockOfState R (ietfState key nonce counter)

/-- Bernstein's layout: 64-bit counter (low word first), 64-bit nonce -/
def origState (key nonce : Bytes) (counter : UInt64) : State :=
  initState key counter.toUInt32 (counter >>> 32).toUInt32 (word nonce 0) (word nonce 1)

def blockOrig (R : Nat) (key nonce : Bytes) (counter : UInt64) : Bytes :=
  blockOfState R (origState key nonce counter)

/-- words 0..3 and 12..15 after R rounds, NO feed-forward -/
def hOfState (R : Nat) (s : State) : Bytes :=
  let z := rounds R s
  [z[0], z[1], z[2], z[3], z[12], z[13], z[14], z[15]].flatMap u32le

/-- HChaCha: 128-bit input in the last row, R rounds, no feed-forward, words 0..3 and 12..15 -/
def hchacha (R : Nat) (key nonce16 : Bytes) : Bytes :=
  hOfState R (initState key (word nonce16 0) (word nonce16 1) (word nonce16 2) (word nonce16 3))

/-- the three layouts of the last row by nonce length: 16 bytes (HChaCha input), 12 bytes (IETF, counter 0),
    8 bytes (Bernstein, counter 0) -/
def layoutState (key nonce : Bytes) : State :=
  if nonce.length = 16 then initState key (word nonce 0) (word nonce 1) (word nonce 2) (word nonce 3)
  else if nonce.length = 12 then ietfState key nonce 0
  else origState key nonce 0

/-- 32-bit counter := c ; counter + 1 mod 2^32 ; 64-bit counter := c ; counter + 1 mod 2^64 -/
def setCounter32 (s : State) (c : UInt32) : State := s.set 12 c
def incCounter32 (s : State) : State := s.set 12 (s[12] + 1)
def counter64 (s : State) : UInt64 := s[12].toUInt64 ||| (s[13].toUInt64 <<< 32)
def setCounter64 (s : State) (c : UInt64) : State := (s.set 12 c.toUInt32).set 13 (c >>> 32).toUInt32
def incCounter64 (s : State) : State := setCounter64 s (counter64 s + 1)

/-- XChaCha: IETF ChaCha under the HChaCha subkey with nonce 00 00 00 00 ‖ nonce[16..24] -/
def xchachaBlock (R : Nat) (key nonce24 : Bytes) (counter : UInt32) : Bytes :=
  block R (hchacha R key (nonce24.take 16)) (zeros 4 ++ nonce24.drop 16) counter

/-! keystreams as functions of the absolute byte position; the block number is reduced into the counter width -/

def blockAt (R : Nat) (key nonce : Bytes) (n : Nat) : Bytes := block R key nonce (UInt32.ofNat n)
def blockAtOrig (R : Nat) (key nonce : Bytes) (n : Nat) : Bytes := blockOrig R key nonce (UInt64.ofNat n)
def blockAtX (R : Nat) (key nonce24 : Bytes) (n : Nat) : Bytes := xchachaBlock R key nonce24 (UInt32.ofNat n)

def keystream (R : Nat) (key nonce : Bytes) (pos len : Nat) : Bytes := Stream.keystream (blockAt R key nonce) pos len
def encrypt (R : Nat) (key nonce : Bytes) (pos : Nat) (data : Bytes) : Bytes := Stream.encrypt (blockAt R key nonce) pos data
def keystreamOrig (R : Nat) (key nonce : Bytes) (pos len : Nat) : Bytes := Stream.keystream (blockAtOrig R key nonce) pos len
def encryptOrig (R : Nat) (key nonce : Bytes) (pos : Nat) (data : Bytes) : Bytes := Stream.encrypt (blockAtOrig R key nonce) pos data
def keystreamX (R : Nat) (key nonce24 : Bytes) (pos len : Nat) : Bytes := Stream.keystream (blockAtX R key nonce24) pos len
def encryptX (R : Nat) (key nonce24 : Bytes) (pos : Nat) (data : Bytes) : Bytes := Stream.encrypt (blockAtX R key nonce24) pos data

/-- blockwise evaluation of `encrypt` for long messages (equal: `Cx.Props.C03.chacha_encryptFast_eq`) -/
def encryptFast (R : Nat) (key nonce : Bytes) (pos : Nat) (data : Bytes) : Bytes := Stream.encryptFast (blockAt R key nonce) pos data

end Cx.Spec.ChaCha
