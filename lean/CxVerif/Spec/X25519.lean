/-
  Spec.X25519 — RFC 7748 §5, the X25519 function, written from the RFC text on `Nat` mod p.

  -- API:
  --   Cx.Spec.X25519.decodeScalar25519 : Bytes → Nat        clamped little-endian scalar
  --   Cx.Spec.X25519.decodeUCoordinate : Bytes → Nat        bit 255 masked, reduced mod p
  --   Cx.Spec.X25519.ladder            : Nat → Nat → Nat    k, u ↦ x_2 · z_2^(p−2)  (RFC 7748 pseudo-code, bits = 255)
  --   Cx.Spec.X25519.x25519            : Bytes → Bytes → Bytes   32-byte scalar, 32-byte u ↦ 32 bytes
  --   Cx.Spec.X25519.x25519Base        : Bytes → Bytes      X25519(k, 9)
  --   Cx.Spec.X25519.iterate           : Nat → Bytes → Bytes → Bytes   RFC 7748 §5.2 iteration
-/
import CxVerif.Spec.Field25519
namespace Cx.Spec.X25519
open Cx.Spec.Field25519

/-- `a24 = (486662 − 2) / 4` -/
def a24 : Nat := 121665

/-- RFC 7748 `decodeScalar25519`, the byte operations: `k_list[0] &= 248; k_list[31] &= 127; k_list[31] |= 64` -/
def clamp (k : Bytes) : Bytes :=
  let k := k.modify 0 (· &&& 248)
  let k := k.modify 31 (· &&& 127)
  k.modify 31 (· ||| 64)

/-- RFC 7748 `decodeScalar25519`: clamp, then `decodeLittleEndian` -/
def decodeScalar25519 (k : Bytes) : Nat := leNat (clamp k)

/-- RFC 7748: mask the most significant bit of the last byte, decode little-endian; non-canonical
    values are processed as if reduced modulo p -/
def decodeUCoordinate (u : Bytes) : Nat := decode u

def cswap (swap : Nat) (a b : Nat) : Nat × Nat := if swap = 1 then (b, a) else (a, b)

structure State where
  x2 : Nat
  z2 : Nat
  x3 : Nat
  z3 : Nat
  swap : Nat
  deriving DecidableEq, Repr

/-- one iteration of the RFC 7748 loop for bit `t` of `k` -/
def step (k x1 : Nat) (s : State) (t : Nat) : State :=
  let kt := (k / 2^t) % 2
  let swap := (s.swap + kt) % 2            -- swap ^= k_t
  let (x2, x3) := cswap swap s.x2 s.x3
  let (z2, z3) := cswap swap s.z2 s.z3
  let swap := kt
  let A := add x2 z2
  let AA := sq A
  let B := sub x2 z2
  let BB := sq B
  let E := sub AA BB
  let C := add x3 z3
  let D := sub x3 z3
  let DA := mul D A
  let CB := mul C B
  let x3 := sq (add DA CB)
  let z3 := mul x1 (sq (sub DA CB))
  let x2 := mul AA BB
  let z2 := mul E (add AA (mul a24 E))
  ⟨x2, z2, x3, z3, swap⟩

/-- `t = bits−1 down to 0`, `bits = 255` -/
def ladderState (k u : Nat) : State :=
  (List.range 255).reverse.foldl (step k u) ⟨1, 0, u, 1, 0⟩

/-- the RFC 7748 pseudo-code: returns `x_2 · z_2^(p−2)` -/
def ladder (k u : Nat) : Nat :=
  let s := ladderState k u
  let (x2, _) := cswap s.swap s.x2 s.x3
  let (z2, _) := cswap s.swap s.z2 s.z3
  mul x2 (pow z2 (p - 2))

/-- X25519(k, u) on byte strings -/
def x25519 (k u : Bytes) : Bytes :=
  encode (ladder (decodeScalar25519 k) (decodeUCoordinate u))

/-- the base point `u = 9` -/
def basePoint : Bytes := 9 :: List.replicate 31 0

def x25519Base (k : Bytes) : Bytes := x25519 k basePoint

/-- RFC 7748 §5.2: `k = u = 0900…`; repeat `(k, u) := (X25519(k, u), k)` -/
def iterate : Nat → Bytes → Bytes → Bytes
  | 0, k, _ => k
  | n + 1, k, u => iterate n (x25519 k u) k

end Cx.Spec.X25519
