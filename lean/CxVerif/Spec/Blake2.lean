/-
  Spec.Blake2 — BLAKE2b and BLAKE2s as defined by RFC 7693 (written from the RFC text: sections 2.1
  parameters, 2.4 padding/key block, 2.6 IV, 2.7 SIGMA, 3.1 G, 3.2 F, 3.3 BLAKE2), executable.

  -- API:
  --   Cx.Spec.Blake2.blake2b (outlen : Nat) (key msg : Bytes) : Bytes      RFC 7693 BLAKE2b, nn = outlen, kk = key.length
  --   Cx.Spec.Blake2.blake2s (outlen : Nat) (key msg : Bytes) : Bytes      RFC 7693 BLAKE2s
  --   Cx.Spec.Blake2.blake2  (P : Params W) (outlen) (key msg)             the generic definition both instantiate
  --   Cx.Spec.Blake2.validParams P outlen key : Bool                       1 ≤ nn ≤ max ∧ kk ≤ max (the RFC's domain)
  --   Cx.Spec.Blake2.b : Params UInt64, Cx.Spec.Blake2.s : Params UInt32   (bb, rounds, rotations, limits, IV)
  --   Cx.Spec.Blake2.stream P h t data / blake2At P t0 nn key msg         streaming form with chaining value and start counter
  --   Cx.Spec.Blake2.F P h block t last                                    the compression function F
  --   domain of the message length: (if key = [] then 0 else bb) + msg.length < 2^(2w)  (t is a 2w-bit counter)

  Layout: a small word class (`Word`) instantiated by UInt64 (b) and UInt32 (s); a core
  (`G`, `round`, `compressCore`) that is ALSO used by Impl.Blake2 because the Rust reference code
  (`G!`, `round!`, `compressbody!`) transcribes RFC 7693 section 3.1/3.2 literally — core_shared:
  `G_core_shared`, `round_core_shared`, `compressCore_core_shared`.  The Spec instantiates the core
  with its own constants (IV by the SHA-2 formula, the 10-row SIGMA of the RFC used as `SIGMA[i mod 10]`,
  the rotation constants of section 2.1); Impl instantiates it with the tables extracted from /repo and
  the code's 12-row SIGMA indexed directly; their equality is a theorem (Props/C01/Blake2.lean).
  Import-free (core Lean only).
-/
import CxVerif.Util.Bytes
namespace Cx.Spec.Blake2
open Cx

/-- the machine word of a BLAKE2 variant: `w = bits` -/
class Word (W : Type) where
  bits : Nat
  ofNat : Nat → W
  toNat : W → Nat
  add : W → W → W
  xor : W → W → W
  rotr : W → Nat → W
  compl : W → W
  shl : W → Nat → W

instance : Word UInt64 := ⟨64, UInt64.ofNat, UInt64.toNat, (· + ·), (· ^^^ ·), rotr64, (~~~ ·), fun x n => x <<< UInt64.ofNat n⟩
instance : Word UInt32 := ⟨32, UInt32.ofNat, UInt32.toNat, (· + ·), (· ^^^ ·), rotr32, (~~~ ·), fun x n => x <<< UInt32.ofNat n⟩

section generic
variable {W : Type} [Word W]

/-- bytes per word -/
def wbytes (W : Type) [Word W] : Nat := Word.bits W / 8

/-- little-endian bytes of a word -/
def toLE (x : W) : Bytes := natToLE (wbytes W) (Word.toNat x)

/-- word from little-endian bytes -/
def fromLE (bs : Bytes) : W := Word.ofNat (leNat bs)

/-- RFC 7693 section 2.1 / 2.6: the constants of one variant -/
structure Params (W : Type) where
  bb : Nat          -- block bytes
  rounds : Nat      -- r
  r1 : Nat
  r2 : Nat
  r3 : Nat
  r4 : Nat
  maxOut : Nat      -- nn ≤ maxOut
  maxKey : Nat      -- kk ≤ maxKey
  iv : Vector W 8

/-! ### core_shared: G, one round, the compression skeleton (RFC 7693 3.1, 3.2) -/

/-- G_core_shared: the mixing function on the four words it touches and the two message words -/
@[inline] def G (r1 r2 r3 r4 : Nat) (a b c d x y : W) : W × W × W × W :=
  let a := Word.add (Word.add a b) x
  let d := Word.rotr (Word.xor d a) r1
  let c := Word.add c d
  let b := Word.rotr (Word.xor b c) r2
  let a := Word.add (Word.add a b) y
  let d := Word.rotr (Word.xor d a) r3
  let c := Word.add c d
  let b := Word.rotr (Word.xor b c) r4
  (a, b, c, d)

/-- message word selected by entry `j` of the SIGMA row `s` (entries are < 16 and rows have 16 entries:
    table theorems `sigma_rows_perm`) -/
@[inline] def msel (m : Vector W 16) (s : List Nat) (j : Nat) : W := m[Fin.ofNat 16 (s.getD j 0)]

/-- round_core_shared: columns then diagonals -/
def round (r1 r2 r3 r4 : Nat) (m : Vector W 16) (v : Vector W 16) (s : List Nat) : Vector W 16 :=
  let (v0, v4, v8, v12) := G r1 r2 r3 r4 v[0] v[4] v[8] v[12] (msel m s 0) (msel m s 1)
  let (v1, v5, v9, v13) := G r1 r2 r3 r4 v[1] v[5] v[9] v[13] (msel m s 2) (msel m s 3)
  let (v2, v6, v10, v14) := G r1 r2 r3 r4 v[2] v[6] v[10] v[14] (msel m s 4) (msel m s 5)
  let (v3, v7, v11, v15) := G r1 r2 r3 r4 v[3] v[7] v[11] v[15] (msel m s 6) (msel m s 7)
  let (v0, v5, v10, v15) := G r1 r2 r3 r4 v0 v5 v10 v15 (msel m s 8) (msel m s 9)
  let (v1, v6, v11, v12) := G r1 r2 r3 r4 v1 v6 v11 v12 (msel m s 10) (msel m s 11)
  let (v2, v7, v8, v13) := G r1 r2 r3 r4 v2 v7 v8 v13 (msel m s 12) (msel m s 13)
  let (v3, v4, v9, v14) := G r1 r2 r3 r4 v3 v4 v9 v14 (msel m s 14) (msel m s 15)
  #v[v0, v1, v2, v3, v4, v5, v6, v7, v8, v9, v10, v11, v12, v13, v14, v15]

/-- the 16 little-endian message words of a block -/
def loadWords (blk : Bytes) : Vector W 16 :=
  Vector.ofFn fun i => fromLE ((blk.drop (i.val * wbytes W)).take (wbytes W))

/-- compressCore_core_shared: `F` with the constants, the list of SIGMA rows to apply (one per round, in
    order) and the two counter words passed in -/
def compressCore (iv : Vector W 8) (r1 r2 r3 r4 : Nat) (rows : List (List Nat))
    (h : Vector W 8) (blk : Bytes) (t0 t1 : W) (last : Bool) : Vector W 8 :=
  let m : Vector W 16 := loadWords blk
  let v14 := if last then Word.compl iv[6] else iv[6]
  let v : Vector W 16 := #v[h[0], h[1], h[2], h[3], h[4], h[5], h[6], h[7],
                           iv[0], iv[1], iv[2], iv[3], Word.xor iv[4] t0, Word.xor iv[5] t1, v14, iv[7]]
  let v := rows.foldl (round r1 r2 r3 r4 m) v
  #v[Word.xor h[0] (Word.xor v[0] v[8]), Word.xor h[1] (Word.xor v[1] v[9]),
     Word.xor h[2] (Word.xor v[2] v[10]), Word.xor h[3] (Word.xor v[3] v[11]),
     Word.xor h[4] (Word.xor v[4] v[12]), Word.xor h[5] (Word.xor v[5] v[13]),
     Word.xor h[6] (Word.xor v[6] v[14]), Word.xor h[7] (Word.xor v[7] v[15])]

/-! ### RFC 7693 proper -/

/-- section 2.7: the message word schedule (10 rows; round `i` uses `SIGMA[i mod 10]`) -/
def SIGMA : List (List Nat) := [
  [0, 1, 2, 3, 4, 5, 6, 7, 8, 9, 10, 11, 12, 13, 14, 15],
  [14, 10, 4, 8, 9, 15, 13, 6, 1, 12, 0, 2, 11, 7, 5, 3],
  [11, 8, 12, 0, 5, 2, 15, 13, 10, 14, 3, 6, 7, 1, 9, 4],
  [7, 9, 3, 1, 13, 12, 11, 14, 2, 6, 5, 10, 4, 0, 15, 8],
  [9, 0, 5, 7, 2, 4, 10, 15, 14, 1, 11, 12, 6, 8, 3, 13],
  [2, 12, 6, 10, 0, 11, 8, 3, 4, 13, 7, 5, 15, 14, 1, 9],
  [12, 5, 1, 15, 14, 13, 4, 10, 0, 7, 6, 3, 9, 2, 8, 11],
  [13, 11, 7, 14, 12, 1, 3, 9, 5, 0, 15, 4, 8, 6, 2, 10],
  [6, 15, 14, 9, 11, 3, 0, 8, 12, 2, 13, 7, 1, 4, 10, 5],
  [10, 2, 8, 4, 7, 6, 1, 5, 15, 11, 9, 14, 3, 12, 13, 0]]

/-- the rows used by rounds `0 .. r-1` -/
def rows (r : Nat) : List (List Nat) := (List.range r).map fun i => SIGMA.getD (i % 10) []

/-- section 3.2: `F(h, m, t, f)`; `t` is the 2w-bit offset counter, low word into v[12], high word into v[13] -/
def F (P : Params W) (h : Vector W 8) (blk : Bytes) (t : Nat) (f : Bool) : Vector W 8 :=
  compressCore P.iv P.r1 P.r2 P.r3 P.r4 (rows P.rounds) h blk
    (Word.ofNat (t % 2 ^ Word.bits W)) (Word.ofNat (t / 2 ^ Word.bits W % 2 ^ Word.bits W)) f

/-- section 2.5/3.3: `h[0] ^ 0x01010000 ^ (kk << 8) ^ nn` (the parameter block word 0), rest = IV -/
def paramWord (nn kk : Nat) : Nat := 0x01010000 ^^^ (kk <<< 8) ^^^ nn

def init (P : Params W) (nn kk : Nat) : Vector W 8 :=
  P.iv.set 0 (Word.xor P.iv[0] (Word.ofNat (paramWord nn kk)))

/-- pad with zero bytes to a multiple of `bb` (section 3.3: "padded with zeros to a multiple of bb") -/
def padZero (bb : Nat) (bs : Bytes) : Bytes := bs ++ zeros ((bb - bs.length % bb) % bb)

/-- split a string into consecutive `bb`-byte blocks (fuel = length) -/
def splitAux (bb : Nat) : Nat → Bytes → List Bytes
  | 0, _ => []
  | fuel + 1, bs => if bs.isEmpty then [] else bs.take bb :: splitAux bb fuel (bs.drop bb)

def split (bb : Nat) (bs : Bytes) : List Bytes := splitAux bb bs.length bs

/-- section 3.3: the data blocks `d[0..dd-1]`: the key block (key padded to `bb`) if `kk > 0`, then the
    zero-padded message; if that is empty (unkeyed empty message) one all-zero block -/
def dataBlocks (bb : Nat) (key msg : Bytes) : List Bytes :=
  let kd := if key.isEmpty then [] else [key ++ zeros (bb - key.length)]
  let d := kd ++ split bb (padZero bb msg)
  if d.isEmpty then [zeros bb] else d

/-- the loop of section 3.3 over `d[i..dd-1]`: all blocks but the last with `t = (i+1)·bb`,
    the last with `t = total` and the final flag -/
def absorb (P : Params W) (total : Nat) : Vector W 8 → Nat → List Bytes → Vector W 8
  | h, _, [] => h
  | h, _, [d] => F P h d total true
  | h, i, d :: rest => absorb P total (F P h d ((i + 1) * P.bb) false) (i + 1) rest

/-- first `nn` bytes of the little-endian encoding of `h` -/
def output (h : Vector W 8) (nn : Nat) : Bytes := (h.toList.flatMap toLE).take nn

/-- RFC 7693 section 3.3 `BLAKE2(d, ll, kk, nn)` -/
def blake2 (P : Params W) (nn : Nat) (key msg : Bytes) : Bytes :=
  let kk := key.length
  let ll := msg.length
  let total := if kk = 0 then ll else ll + P.bb
  output (absorb P total (init P nn kk) 0 (dataBlocks P.bb key msg)) nn

/-- Streaming formulation with an explicit chaining value `h` and offset counter `t` (bytes already
    compressed): every full block that is followed by more data is compressed with the flag off, the last
    1..bb bytes (or the empty string) are zero-padded and compressed with the flag on.  `blake2` is
    `stream` from `(init nn kk, 0)` over `keyblock ++ msg` (theorem `Proofs.Blake2.blake2_eq_stream`); with a
    non-zero start `t` it is the meaning of a context whose counter was preset (C20: `t` is a 2w-bit
    counter, `F` reduces it mod 2^(2w)).  Fuel = data length. -/
def streamAux (P : Params W) : Nat → Vector W 8 → Nat → Bytes → Vector W 8
  | 0, h, t, data => F P h (data ++ zeros (P.bb - data.length)) (t + data.length) true
  | fuel + 1, h, t, data =>
    if data.length ≤ P.bb then F P h (data ++ zeros (P.bb - data.length)) (t + data.length) true
    else streamAux P fuel (F P h (data.take P.bb) (t + P.bb) false) (t + P.bb) (data.drop P.bb)

def stream (P : Params W) (h : Vector W 8) (t : Nat) (data : Bytes) : Vector W 8 :=
  streamAux P data.length h t data

/-- the key block of section 3.3 (empty string when there is no key) -/
def keyBlock (bb : Nat) (key : Bytes) : Bytes := if key.isEmpty then [] else key ++ zeros (bb - key.length)

/-- BLAKE2 whose offset counter starts at `t0` instead of 0 (`blake2At P 0 = blake2 P`) -/
def blake2At (P : Params W) (t0 : Nat) (nn : Nat) (key msg : Bytes) : Bytes :=
  output (stream P (init P nn key.length) t0 (keyBlock P.bb key ++ msg)) nn

/-- the RFC's parameter domain -/
def validParams (P : Params W) (nn : Nat) (key : Bytes) : Bool :=
  decide (1 ≤ nn ∧ nn ≤ P.maxOut ∧ key.length ≤ P.maxKey)

end generic

/-! ### the two variants -/

/-- the first eight primes -/
def primes8 : List Nat := [2, 3, 5, 7, 11, 13, 17, 19]

/-- integer square root by binary search over the bits `k-1 … 0` (characterised in Proofs.Blake2Tables.isqrt_spec_iv) -/
def isqrtAux (n : Nat) : Nat → Nat → Nat
  | 0, r => r
  | k + 1, r => isqrtAux n k (if (r + 2 ^ k) * (r + 2 ^ k) ≤ n then r + 2 ^ k else r)

def isqrt (n : Nat) : Nat := isqrtAux n (n.log2 / 2 + 1) 0

/-- section 2.6: IV[i] = floor(2^w · frac(sqrt(prime(i+1)))) — the SHA-512 / SHA-256 initial values -/
def ivNat (w : Nat) (i : Nat) : Nat := isqrt (primes8.getD i 0 * 2 ^ (2 * w)) % 2 ^ w

def ivB : Vector UInt64 8 := Vector.ofFn fun i => UInt64.ofNat (ivNat 64 i.val)
def ivS : Vector UInt32 8 := Vector.ofFn fun i => UInt32.ofNat (ivNat 32 i.val)

/-- BLAKE2b: w = 64, r = 12, bb = 128, rotations (32, 24, 16, 63), nn ≤ 64, kk ≤ 64 -/
def b : Params UInt64 :=
  { bb := 128, rounds := 12, r1 := 32, r2 := 24, r3 := 16, r4 := 63, maxOut := 64, maxKey := 64, iv := ivB }

/-- BLAKE2s: w = 32, r = 10, bb = 64, rotations (16, 12, 8, 7), nn ≤ 32, kk ≤ 32 -/
def s : Params UInt32 :=
  { bb := 64, rounds := 10, r1 := 16, r2 := 12, r3 := 8, r4 := 7, maxOut := 32, maxKey := 32, iv := ivS }

def blake2b (outlen : Nat) (key msg : Bytes) : Bytes := blake2 b outlen key msg
def blake2s (outlen : Nat) (key msg : Bytes) : Bytes := blake2 s outlen key msg

end Cx.Spec.Blake2
