/-
  Spec.ScalarL — arithmetic modulo the Ed25519 group order (RFC 8032 §5.1):
      L = 2^252 + 27742317777372353535851937790883648493
  Scalars are plain `Nat`; byte strings are little-endian (RFC 8032 §5.1.2 "interpreted as a
  little-endian integer").  Executable, import-free (core Lean only).

  -- API:
  --   Cx.Spec.ScalarL.L            : Nat                       the group order
  --   Cx.Spec.ScalarL.reduce       : Nat → Nat                 n mod L
  --   Cx.Spec.ScalarL.add/mul      : Nat → Nat → Nat           (a+b) mod L, (a*b) mod L
  --   Cx.Spec.ScalarL.muladd       : Nat → Nat → Nat → Nat     (a*b+c) mod L
  --   Cx.Spec.ScalarL.decode       : Bytes → Nat               little-endian value (any length)
  --   Cx.Spec.ScalarL.encode       : Nat → Bytes               32 little-endian bytes
  --   Cx.Spec.ScalarL.isCanonical  : Bytes → Bool              32 bytes and value < L   (RFC 8032 §5.1.7 step 1: 0 ≤ S < L)
  --   Cx.Spec.ScalarL.decodeCanonical : Bytes → Option Nat
  --   Cx.Spec.ScalarL.reduceWide   : Bytes → Bytes             encode (decode s mod L)   (64-byte hash → scalar)
  --   Cx.Spec.ScalarL.radix16 / bitsLE : Nat → List Nat        the 64 nibbles / 256 bits of a < 2^256
  --   Cx.Spec.ScalarL.evalDigits   : Nat → List Int → Int      Σ e_i·base^i
-/
import CxVerif.Util.Bytes
namespace Cx.Spec.ScalarL
open Cx

/-- the order of the prime-order subgroup of edwards25519 (RFC 8032 §5.1) -/
def L : Nat := 2 ^ 252 + 27742317777372353535851937790883648493

def reduce (n : Nat) : Nat := n % L
def add (a b : Nat) : Nat := (a + b) % L
def mul (a b : Nat) : Nat := (a * b) % L
def muladd (a b c : Nat) : Nat := (a * b + c) % L

/-- little-endian integer of a byte string -/
def decode (s : Bytes) : Nat := leNat s
/-- 32-byte little-endian encoding -/
def encode (n : Nat) : Bytes := natToLE 32 n

/-- a 32-byte string that encodes an integer in `[0, L)` -/
def isCanonical (s : Bytes) : Bool := s.length == 32 && decide (decode s < L)

def decodeCanonical (s : Bytes) : Option Nat :=
  if isCanonical s then some (decode s) else none

/-- a (64-byte) string read as a little-endian integer and reduced modulo L -/
def reduceWide (s : Bytes) : Bytes := encode (decode s % L)

/-- `n` digits of `a` in base `b`, least significant first -/
def digits (b : Nat) : Nat → Nat → List Nat
  | 0, _ => []
  | n + 1, a => a % b :: digits b n (a / b)

/-- the 64 nibbles of a 256-bit number -/
def radix16 (a : Nat) : List Nat := digits 16 64 a
/-- the 256 bits of a 256-bit number -/
def bitsLE (a : Nat) : List Nat := digits 2 256 a

/-- `Σ e_i · base^i` -/
def evalDigits (base : Nat) : List Int → Int
  | [] => 0
  | e :: es => e + (base : Int) * evalDigits base es

/-- the contract of a width-5 sliding-window (signed, odd digits) recoding of `a`:
    it denotes `a`, every non-zero digit is odd and at most 15 in absolute value -/
def isSlideOf (a : Nat) (r : List Int) : Bool :=
  r.length == 256 && evalDigits 2 r == (a : Int) &&
    r.all (fun d => d == 0 || (d % 2 != 0 && decide (-15 ≤ d) && decide (d ≤ 15)))

end Cx.Spec.ScalarL
