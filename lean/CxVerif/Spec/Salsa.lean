/-
  Spec.Salsa — Salsa20 per Bernstein's "Salsa20 specification" (quarterround, rowround, columnround,
  doubleround, the Salsa20 hash function, the expansion function with σ/τ, the encryption function with a
  64-bit little-endian block counter), generalised to R rounds (Salsa20/8, /12, /20), and HSalsa20/XSalsa20
  per "Extending the Salsa20 nonce".

  -- API:
  --   Cx.Spec.Salsa.block     (R) (key nonce8 : Bytes) (counter : UInt64) : Bytes   Salsa20_k(nonce ‖ counter)
  --   Cx.Spec.Salsa.hsalsa    (R) (key nonce16 : Bytes) : Bytes                      32-byte subkey
  --   Cx.Spec.Salsa.xsalsaBlock (R) (key nonce24) (counter : UInt64) : Bytes
  --   Cx.Spec.Salsa.keystream / encrypt / keystreamX / encryptX at an absolute byte position
-/
import CxVerif.Util.Bytes
import CxVerif.Spec.Stream
namespace Cx.Spec.Salsa
open Cx.Spec.Stream

abbrev State := Vector UInt32 16

/-- §3 quarterround(y0,y1,y2,y3) = (z0,z1,z2,z3) -/
def quarterRound (y0 y1 y2 y3 : UInt32) : UInt32 × UInt32 × UInt32 × UInt32 :=
  let z1 := y1 ^^^ rotl32 (y0 + y3) 7
  let z2 := y2 ^^^ rotl32 (z1 + y0) 9
  let z3 := y3 ^^^ rotl32 (z2 + z1) 13
  let z0 := y0 ^^^ rotl32 (z3 + z2) 18
  (z0, z1, z2, z3)

/-- (z_i, z_j, z_k, z_l) = quarterround(y_i, y_j, y_k, y_l), other words unchanged -/
def qround (s : State) (i j k l : Fin 16) : State :=
  match quarterRound s[i] s[j] s[k] s[l] with
  | (a, b, c, d) => (((s.set i a).set j b).set k c).set l d

/-- §4 rowround -/
def rowRound (y : State) : State :=
  let y := qround y 0 1 2 3
  let y := qround y 5 6 7 4
  let y := qround y 10 11 8 9
  let y := qround y 15 12 13 14
  y

/-- §5 columnround -/
def columnRound (x : State) : State :=
  let x := qround x 0 4 8 12
  let x := qround x 5 9 13 1
  let x := qround x 10 14 2 6
  let x := qround x 15 3 7 11
  x

/-- §6 doubleround(x) = rowround(columnround(x)) -/
def doubleRound (x : State) : State := rowRound (columnRound x)

def rounds (R : Nat) (s : State) : State := iter doubleRound (R / 2) s

def addState (a b : State) : State := Vector.ofFn fun i => a[i] + b[i]
def serialize (s : State) : Bytes := s.toList.flatMap u32le

/-- §8 Salsa20(x) = x + doubleround^(R/2)(x) -/
def hash (R : Nat) (x : State) : Bytes := serialize (addState (rounds R x) x)

def sigma : Bytes := ascii "expand 32-byte k"
def tau : Bytes := ascii "expand 16-byte k"

def constants (key : Bytes) : Bytes := if key.length = 32 then sigma else tau
/-- k0 ‖ k1 for a 32-byte key, k ‖ k for a 16-byte key -/
def keyBytes (key : Bytes) : Bytes := if key.length = 32 then key else key ++ key

/-- §9 expansion: (σ0, k0, σ1, n, σ2, k1, σ3) with the 16-byte `n` given as four words -/
def expand (key : Bytes) (n0 n1 n2 n3 : UInt32) : State :=
  let c := constants key
  let k := keyBytes key
  #v[word c 0, word k 0, word k 1, word k 2,
     word k 3, word c 1, n0, n1,
     n2, n3, word c 2, word k 4,
     word k 5, word k 6, word k 7, word c 3]

/-- §10: block `counter` of the keystream: Salsa20_k(nonce ‖ counter as 8 little-endian bytes) -/
def block (R : Nat) (key nonce : Bytes) (counter : UInt64) : Bytes :=
  hash R (expand key (word nonce 0) (word nonce 1) counter.toUInt32 (counter >>> 32).toUInt32)

/-- HSalsa20: words 0,5,10,15,6,7,8,9 of doubleround^(R/2), no feed-forward -/
def hsalsa (R : Nat) (key nonce16 : Bytes) : Bytes :=
  let z := rounds R (expand key (word nonce16 0) (word nonce16 1) (word nonce16 2) (word nonce16 3))
  [z[0], z[5], z[10], z[15], z[6], z[7], z[8], z[9]].flatMap u32le

def xsalsaBlock (R : Nat) (key nonce24 : Bytes) (counter : UInt64) : Bytes :=
  block R (hsalsa R key (nonce24.take 16)) (nonce24.drop 16) counter

def blockAt (R : Nat) (key nonce : Bytes) (n : Nat) : Bytes := block R key nonce (UInt64.ofNat n)
def blockAtX (R : Nat) (key nonce24 : Bytes) (n : Nat) : Bytes := xsalsaBlock R key nonce24 (UInt64.ofNat n)

def keystream (R : Nat) (key nonce : Bytes) (pos len : Nat) : Bytes := Stream.keystream (blockAt R key nonce) pos len
def encrypt (R : Nat) (key nonce : Bytes) (pos : Nat) (data : Bytes) : Bytes := Stream.encrypt (blockAt R key nonce) pos data
def keystreamX (R : Nat) (key nonce24 : Bytes) (pos len : Nat) : Bytes := Stream.keystream (blockAtX R key nonce24) pos len
def encryptX (R : Nat) (key nonce24 : Bytes) (pos : Nat) (data : Bytes) : Bytes := Stream.encrypt (blockAtX R key nonce24) pos data

end Cx.Spec.Salsa
