/-
  Spec.Field25519 — the prime field GF(2^255 − 19) on `Nat` (values are residues `< p`).
  Import-free (core only): linked into `cxdrv`, evaluated by the kernel in table theorems.

  -- API:
  --   Cx.Spec.Field25519.p        : Nat                       2^255 − 19
  --   Cx.Spec.Field25519.add/sub/neg/mul/sq : Nat → … → Nat   results reduced mod p (inputs need not be)
  --   Cx.Spec.Field25519.pow      : Nat → Nat → Nat           square-and-multiply, structural on a fuel (kernel friendly);
  --                                                           `Cx.Proofs.Field25519.pow_eq : pow a e = a ^ e % p`
  --   Cx.Spec.Field25519.inv      : Nat → Nat                 a^(p−2) mod p  (0 ↦ 0)
  --   Cx.Spec.Field25519.pow25523 : Nat → Nat                 a^((p−5)/8) mod p
  --   Cx.Spec.Field25519.decode   : Bytes → Nat               RFC 7748 decodeUCoordinate / RFC 8032 field decoding:
  --                                                           little-endian value with bit 255 masked, reduced mod p
  --   Cx.Spec.Field25519.encode   : Nat → Bytes               32 little-endian bytes of (a mod p)
  --   Cx.Spec.Field25519.isNegative / isNonzero : Nat → Bool  parity / non-zero test of (a mod p)
  --   Cx.Spec.Field25519.edwardsD / edwardsD2 / sqrtM1 : Nat  d = −121665/121666, 2d, √−1 = 2^((p−1)/4) (by formula)
-/
import CxVerif.Util.Bytes
namespace Cx.Spec.Field25519

/-- the field prime -/
def p : Nat := 2^255 - 19

def add (a b : Nat) : Nat := (a + b) % p
/-- `a − b (mod p)` without leaving `Nat` -/
def sub (a b : Nat) : Nat := (a + (p - b % p)) % p
def neg (a : Nat) : Nat := (p - a % p) % p
def mul (a b : Nat) : Nat := (a * b) % p
def sq (a : Nat) : Nat := (a * a) % p

/-- square-and-multiply; `fuel ≥ e` suffices (the exponent is halved in every step) -/
def powAux (a : Nat) : Nat → Nat → Nat
  | 0, _ => 1 % p
  | fuel + 1, e =>
    if e = 0 then 1 % p
    else
      let h := powAux a fuel (e / 2)
      let s := (h * h) % p
      if e % 2 = 1 then (s * a) % p else s

/-- `a ^ e mod p` -/
def pow (a e : Nat) : Nat := powAux a e e

/-- multiplicative inverse by Fermat (needs primality of `p` to *be* the inverse); `inv 0 = 0` -/
def inv (a : Nat) : Nat := pow a (p - 2)

/-- the exponentiation used for square roots: `a ^ ((p − 5) / 8)`, `(p − 5) / 8 = 2^252 − 3` -/
def pow25523 (a : Nat) : Nat := pow a ((p - 5) / 8)

/-- field decoding of 32 bytes: little-endian, most significant bit of the last byte ignored
    (RFC 7748 §5 `decodeUCoordinate` for 255 bits), non-canonical values accepted and reduced -/
def decode (b : Bytes) : Nat := (leNat b % 2^255) % p

/-- canonical encoding: 32 little-endian bytes of the reduced value -/
def encode (a : Nat) : Bytes := natToLE 32 (a % p)

def isNegative (a : Nat) : Bool := (a % p) % 2 == 1
def isNonzero (a : Nat) : Bool := a % p != 0

/-! curve constants, from their defining formulas (RFC 8032 §5.1) -/

/-- `d = −121665/121666` -/
def edwardsD : Nat := mul (neg 121665) (inv 121666)
/-- `2d` -/
def edwardsD2 : Nat := mul 2 edwardsD
/-- `√−1 = 2^((p−1)/4)` -/
def sqrtM1 : Nat := pow 2 ((p - 1) / 4)

end Cx.Spec.Field25519
