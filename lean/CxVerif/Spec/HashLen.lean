/-
  Spec.HashLen — what the Merkle–Damgård hashes (SHA-1, SHA-224/256, SHA-384/512/512-224/512-256, RIPEMD-160) do to
  the LAST blocks of a long message, as a function of the TOTAL length: unit `hashlen` (length counters, C01/C20).

  FIPS 180-4 §5.1.1 / §5.1.2 (and the MD4-style padding of RIPEMD-160): a message M of ℓ bits is followed by the bit
  "1", k zero bits (k ≥ 0 least with ℓ + 1 + k ≡ 448 mod 512, resp. 896 mod 1024) and the 64-bit (128-bit) block that
  is the binary representation of ℓ; §6: the padded message is parsed into blocks which are fed, in order, to the
  compression function.  So if the message is `P ‖ m` with `|P| = N` bytes a whole number of blocks, the blocks after
  those of `P` are the blocks of

        m ‖ 0x80 ‖ 0^z ‖ lenEnc (8·(N + |m|))          z = padZeros B L (N + |m|)

  and they depend on `P` only through N and through the chaining value reached after `P`.  `tailHash` iterates the
  compression function over exactly these blocks from a given chaining value; `tailDigest alg N m` starts it from the
  algorithm's IV (the verification hook of the crate presets only the byte counter, the chaining value stays the IV)
  and applies the algorithm's output truncation.

  The standards define the length field for ℓ < 2^64 (2^128) only.  For larger totals — which no message of the
  standards' domain has — the field is written here as the low 64 (128) bits of ℓ (`% 2^(8·L)`); inside the domain
  the reduction is the identity (theorem `Cx.Props.C20.HashLen.lenField_in_domain`).  Theorem
  `Cx.Props.C20.HashLen.tailHash_is_hash_of_whole_message`: for block-aligned `P` inside the domain,
  `tailHash … (chain after P) |P| m = Spec.MD.hash … (P ‖ m)`; `tailDigest alg 0 m` is the standard digest of `m`.

  -- API:
  --   Cx.Spec.HashLen.tailPad B L lenEnc N m, tailHash B L lenEnc compress cv N m
  --   Cx.Spec.HashLen.Alg (sha1 sha224 sha256 sha384 sha512 sha512_224 sha512_256 ripemd160), Alg.block, Alg.ofName?
  --   Cx.Spec.HashLen.tailDigest : Alg → Nat → Bytes → Bytes
-/
import CxVerif.Spec.MerkleDamgard
import CxVerif.Spec.Sha1
import CxVerif.Spec.Sha2
import CxVerif.Spec.Ripemd160
namespace Cx.Spec.HashLen
open Cx Cx.Spec

/-- the part of the padded message that follows the first `N` bytes (`N` a multiple of `B`), for a message of
    `N + |m|` bytes ending in `m`: the rest of the message, the "1" bit, the zero bits, the length field of the TOTAL
    bit length -/
def tailPad (B L : Nat) (lenEnc : Nat → Bytes) (N : Nat) (m : Bytes) : Bytes :=
  m ++ [(0x80 : UInt8)] ++ zeros (MD.padZeros B L (N + m.length)) ++ lenEnc ((8 * (N + m.length)) % 2 ^ (8 * L))

/-- iterate the compression function over the blocks of `tailPad`, from the chaining value `cv` -/
def tailHash {σ : Type} (B L : Nat) (lenEnc : Nat → Bytes) (compress : σ → Bytes → σ) (cv : σ) (N : Nat)
    (m : Bytes) : σ :=
  (fullBlocks B (tailPad B L lenEnc N m)).foldl compress cv

inductive Alg where
  | sha1 | sha224 | sha256 | sha384 | sha512 | sha512_224 | sha512_256 | ripemd160
deriving DecidableEq, Repr

/-- block size in bytes -/
def Alg.block : Alg → Nat
  | .sha1 | .sha224 | .sha256 | .ripemd160 => 64
  | .sha384 | .sha512 | .sha512_224 | .sha512_256 => 128

/-- bytes of the length field -/
def Alg.lenBytes : Alg → Nat
  | .sha1 | .sha224 | .sha256 | .ripemd160 => 8
  | .sha384 | .sha512 | .sha512_224 | .sha512_256 => 16

/-- the standard's domain: total bit length < 2^64 (2^128), i.e. total bytes < 2^61 (2^125) -/
def Alg.maxBytes : Alg → Nat
  | .sha1 | .sha224 | .sha256 | .ripemd160 => 2 ^ 61
  | .sha384 | .sha512 | .sha512_224 | .sha512_256 => 2 ^ 125

def Alg.ofName? : String → Option Alg
  | "sha1" => some .sha1 | "sha224" => some .sha224 | "sha256" => some .sha256 | "sha384" => some .sha384
  | "sha512" => some .sha512 | "sha512_224" => some .sha512_224 | "sha512_256" => some .sha512_256
  | "ripemd160" => some .ripemd160 | _ => none

def tail256 (iv : Sha2.W8 UInt32) (N : Nat) (m : Bytes) : Sha2.W8 UInt32 :=
  tailHash 64 8 MD.be64 Sha2.compress256 iv N m
def tail512 (iv : Sha2.W8 UInt64) (N : Nat) (m : Bytes) : Sha2.W8 UInt64 :=
  tailHash 128 16 MD.be128 Sha2.compress512 iv N m

/-- the digest of the chain that starts at the IV and runs over the blocks following the first `N` bytes of a
    message of `N + |m|` bytes ending in `m` -/
def tailDigest : Alg → Nat → Bytes → Bytes
  | .sha1, N, m => (tailHash 64 8 MD.be64 Sha1.compressBytes Sha1.H0 N m).toBytes
  | .ripemd160, N, m => (tailHash 64 8 MD.le64 Ripemd160.compressBytes Ripemd160.H0 N m).toBytes
  | .sha256, N, m => Sha2.wordsToBytes32 (tail256 Sha2.H256 N m)
  | .sha224, N, m => (Sha2.wordsToBytes32 (tail256 Sha2.H224 N m)).take 28
  | .sha512, N, m => Sha2.wordsToBytes64 (tail512 Sha2.H512 N m)
  | .sha384, N, m => (Sha2.wordsToBytes64 (tail512 Sha2.H384 N m)).take 48
  | .sha512_224, N, m => (Sha2.wordsToBytes64 (tail512 Sha2.H512_224 N m)).take 28
  | .sha512_256, N, m => (Sha2.wordsToBytes64 (tail512 Sha2.H512_256 N m)).take 32

end Cx.Spec.HashLen
