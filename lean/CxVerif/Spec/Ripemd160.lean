/-
  Spec.Ripemd160 — RIPEMD-160 as defined by Dobbertin, Bosselaers, Preneel, "RIPEMD-160: a strengthened
  version of RIPEMD" (FSE 1996; also ISO/IEC 10118-3).  Executable, import-free.

  The paper defines the algorithm by (its Table "the compression function"):
    * five boolean functions f_1..f_5, used in order 1..5 by the left line and 5..1 by the right line;
    * constants K = ⌊2^30·√n⌋ (left) and K' = ⌊2^30·∛n⌋ (right), n = 2,3,5,7, and 0 for round 1 (left) / 5 (right);
    * selection of message word: r(j) = ρ^(round)(j mod 16) and r'(j) = ρ^(round)(π(j mod 16)) with
      π(i) = 9i+5 mod 16 and ρ the fixed permutation below;
    * amount of rotation: a table indexed by (round, *message word*), the same for both lines;
    * pseudo-code (appendix A) of the two lines and their combination;
    * MD4-style padding (bit "1", zeros, 64-bit little-endian bit length), little-endian words.
  The flat 80-entry tables r, r', s, s' of the appendix are derived here from those definitions; that the derived
  tables equal the appendix listings is theorem `Proofs.Ripemd160.tables_eq_appendix`.

  -- API:
  --   Cx.Spec.Ripemd160.ripemd160 : Bytes → Bytes          the 20-byte digest (domain: |M| < 2^61 bytes)
  --   Cx.Spec.Ripemd160.compress  : Hash → List UInt32 → Hash   one 16-word block
  --   Cx.Spec.Ripemd160.pad       : Bytes → Bytes
-/
import CxVerif.Util.Bytes
import CxVerif.Spec.MerkleDamgard
namespace Cx.Spec.Ripemd160
open Cx

def blockBytes : Nat := 64
def digestBytes : Nat := 20

/-- (A, B, C, D, E) resp. (h0 … h4) -/
structure Hash where
  a : UInt32
  b : UInt32
  c : UInt32
  d : UInt32
  e : UInt32
deriving DecidableEq, Repr, Inhabited

def rol (n : Nat) (x : UInt32) : UInt32 := rotl32 x n

/-- nonlinear functions at bit level, `f(j, x, y, z)` for step `j` (0 ≤ j ≤ 79) -/
def f (j : Nat) (x y z : UInt32) : UInt32 :=
  if j < 16 then x ^^^ y ^^^ z
  else if j < 32 then (x &&& y) ||| (~~~x &&& z)
  else if j < 48 then (x ||| ~~~y) ^^^ z
  else if j < 64 then (x &&& z) ||| (y &&& ~~~z)
  else x ^^^ (y ||| ~~~z)

/-- added constants, left line: 0, ⌊2^30·√2⌋, ⌊2^30·√3⌋, ⌊2^30·√5⌋, ⌊2^30·√7⌋ (theorem `Proofs.Ripemd160.K_sqrt`) -/
def K (j : Nat) : UInt32 :=
  if j < 16 then 0x00000000 else if j < 32 then 0x5a827999 else if j < 48 then 0x6ed9eba1
  else if j < 64 then 0x8f1bbcdc else 0xa953fd4e

/-- added constants, right line: ⌊2^30·∛2⌋, ⌊2^30·∛3⌋, ⌊2^30·∛5⌋, ⌊2^30·∛7⌋, 0 (theorem `Proofs.Ripemd160.K'_cbrt`) -/
def K' (j : Nat) : UInt32 :=
  if j < 16 then 0x50a28be6 else if j < 32 then 0x5c4dd124 else if j < 48 then 0x6d703ef3
  else if j < 64 then 0x7a6d76e9 else 0x00000000

/-- the permutation ρ -/
def rho : List Nat := [7, 4, 13, 1, 10, 6, 15, 3, 12, 0, 9, 5, 2, 14, 11, 8]
/-- the permutation π(i) = 9i + 5 (mod 16) -/
def ppi (i : Nat) : Nat := (9 * i + 5) % 16

/-- ρ applied `n` times -/
def rhoPow : Nat → Nat → Nat
  | 0, i => i
  | n + 1, i => rhoPow n (rho.getD i 0)

/-- selection of message word: round `j/16` uses ρ^(j/16) (left) and ρ^(j/16)·π (right) -/
def r (j : Nat) : Nat := rhoPow (j / 16) (j % 16)
def r' (j : Nat) : Nat := rhoPow (j / 16) (ppi (j % 16))

/-- amount of rotation for message word `X_i` in round 1..5 (rows), both lines -/
def shiftTab : List (List Nat) :=
  [ [11, 14, 15, 12,  5,  8,  7,  9, 11, 13, 14, 15,  6,  7,  9,  8],
    [12, 13, 11, 15,  6,  9,  9,  7, 12, 15, 11, 13,  7,  8,  7,  7],
    [13, 15, 14, 11,  7,  7,  6,  8, 13, 14, 13, 12,  5,  5,  6,  9],
    [14, 11, 12, 14,  8,  6,  5,  5, 15, 12, 15, 14,  9,  9,  8,  6],
    [15, 12, 13, 13,  9,  5,  8,  6, 14, 11, 12, 11,  8,  6,  5,  5] ]

def s (j : Nat) : Nat := (shiftTab.getD (j / 16) []).getD (r j) 0
def s' (j : Nat) : Nat := (shiftTab.getD (j / 16) []).getD (r' j) 0

/-- initial value -/
def H0 : Hash := ⟨0x67452301, 0xefcdab89, 0x98badcfe, 0x10325476, 0xc3d2e1f0⟩

/-- one step of either line (appendix A):
    `T := rol_s(A + f(B, C, D) + X + K) + E; A := E; E := D; D := rol_10(C); C := B; B := T` -/
def step (fv : UInt32 → UInt32 → UInt32 → UInt32) (x k : UInt32) (sh : Nat) (v : Hash) : Hash :=
  let T := rol sh (v.a + fv v.b v.c v.d + x + k) + v.e
  ⟨v.e, T, v.b, rol 10 v.c, v.d⟩

/-- word `X_i` of the block (`getD` never takes its default for 16-word blocks: all r, r' are < 16) -/
def X (M : List UInt32) (i : Nat) : UInt32 := M.getD i 0

def leftStep (M : List UInt32) (v : Hash) (j : Nat) : Hash := step (f j) (X M (r j)) (K j) (s j) v
def rightStep (M : List UInt32) (v : Hash) (j : Nat) : Hash := step (f (79 - j)) (X M (r' j)) (K' j) (s' j) v

def leftLine (M : List UInt32) (h : Hash) : Hash := (List.range 80).foldl (leftStep M) h
def rightLine (M : List UInt32) (h : Hash) : Hash := (List.range 80).foldl (rightStep M) h

/-- `T := h1 + C + D'; h1 := h2 + D + E'; h2 := h3 + E + A'; h3 := h4 + A + B'; h4 := h0 + B + C'; h0 := T` -/
def combine (h l r : Hash) : Hash :=
  ⟨h.b + l.c + r.d, h.c + l.d + r.e, h.d + l.e + r.a, h.e + l.a + r.b, h.a + l.b + r.c⟩

/-- compression of one block `M` of sixteen little-endian words -/
def compress (h : Hash) (M : List UInt32) : Hash :=
  combine h (leftLine M h) (rightLine M h)

/-- MD4-style padding: bit "1" (byte 0x80), zero bits up to 448 mod 512, 64-bit little-endian bit length -/
def pad (msg : Bytes) : Bytes := Cx.Spec.MD.pad 64 8 Cx.Spec.MD.le64 msg

def Hash.toBytes (h : Hash) : Bytes := u32le h.a ++ u32le h.b ++ u32le h.c ++ u32le h.d ++ u32le h.e

/-- one block given as 64 bytes: sixteen little-endian words -/
def compressBytes (H : Hash) (blk : Bytes) : Hash := compress H (wordsLE32 blk)

def hashValue (msg : Bytes) : Hash := Cx.Spec.MD.hash 64 8 Cx.Spec.MD.le64 compressBytes H0 msg

def ripemd160 (msg : Bytes) : Bytes := (hashValue msg).toBytes

end Cx.Spec.Ripemd160
