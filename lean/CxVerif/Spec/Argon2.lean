/-
  Spec.Argon2 — Argon2d / Argon2i / Argon2id as defined by RFC 9106 section 3 (written from the RFC text:
  3.1 inputs, 3.2 operation, 3.3 variable-length hash H', 3.4 indexing, 3.5 compression function G,
  3.6 permutation P), executable.  Built on Spec.Blake2 (`H^x` = BLAKE2b with x-byte output, RFC 7693).

  -- API:
  --   Cx.Spec.Argon2.Ty (.d | .i | .id),  Ty.y : Nat  (0, 1, 2)
  --   Cx.Spec.Argon2.Params  { y : Ty, v t m p T : Nat }     (type, version, passes, memory KiB, lanes, tag bytes)
  --   Cx.Spec.Argon2.argon2 (c : Params) (pwd salt key aad : Bytes) : Bytes          the tag (RFC 9106 3.2)
  --   Cx.Spec.Argon2.valid c pwd salt key aad : Bool        the RFC's input domain (3.1; salt length not included)
  --   Cx.Spec.Argon2.H0, Hprime (T) (A), G (X Y : Block), P, GB, refSet (the set W of 3.4.2), mapJ1 (x, y, zz)
  --   Block = Vector UInt64 128 (a 1024-byte block as its 128 little-endian 64-bit words)

  Version: RFC 9106 specifies version 0x13 only.  Version 0x10 (Argon2 1.0, the PHC submission) differs in one
  place: on passes r > 0 the new block REPLACES B[i][j] instead of being XORed into it (step 6 of 3.2).  This
  is the only use of `c.v` besides the H_0 field.

  Words: the RFC treats a block as 1024 bytes; G views it as 64 16-byte registers, each of which is the pair of
  64-bit words S_i = (v_{2i+1} || v_{2i}) (3.6).  We keep blocks as the 128 words v (little-endian byte order,
  as fixed by the RFC's test vectors) and convert at the H' boundaries (`blockOfBytes`, `bytesOfBlock`).

  Arithmetic of GB is written on UInt64 (all operations are mod 2^64 by definition of the type); its reading on
  naturals is theorem `Proofs.Argon2.fBlaMka_toNat`.  Import-free (core Lean only).
-/
import CxVerif.Spec.Blake2
namespace Cx.Spec.Argon2
open Cx

/-- 3.1: the type y -/
inductive Ty
  | d
  | i
  | id
  deriving DecidableEq, Repr

def Ty.y : Ty → Nat
  | .d => 0
  | .i => 1
  | .id => 2

/-- 3.1: the numeric inputs (the byte-string inputs P, S, K, X are separate arguments) -/
structure Params where
  y : Ty      -- type
  v : Nat     -- version number (0x13; 0x10 see header)
  t : Nat     -- number of passes
  m : Nat     -- memory size in KiB
  p : Nat     -- degree of parallelism (lanes)
  T : Nat     -- tag length in bytes
  deriving Repr

/-- number of slices SL -/
def SL : Nat := 4

/-- 3.1: the input domain (message, nonce, secret, associated data lengths 0..2^32−1; p 1..2^24−1; T 4..2^32−1;
    m 8p..2^32−1; t 1..2^32−1).  The RFC additionally says the nonce S "MUST be unique", 16 bytes RECOMMENDED;
    no length bound on S is part of the function's definition and none is imposed here. -/
def valid (c : Params) (pwd salt key aad : Bytes) : Bool :=
  decide (1 ≤ c.p ∧ c.p < 2 ^ 24 ∧ 4 ≤ c.T ∧ c.T < 2 ^ 32 ∧ 8 * c.p ≤ c.m ∧ c.m < 2 ^ 32 ∧
          1 ≤ c.t ∧ c.t < 2 ^ 32 ∧ (c.v = 0x13 ∨ c.v = 0x10) ∧
          pwd.length < 2 ^ 32 ∧ salt.length < 2 ^ 32 ∧ key.length < 2 ^ 32 ∧ aad.length < 2 ^ 32)

/-! ### notation of the RFC -/

/-- `H^x(a)`: BLAKE2b with an x-byte digest, no key -/
def H (x : Nat) (a : Bytes) : Bytes := Spec.Blake2.blake2b x [] a

def LE32 (n : Nat) : Bytes := natToLE 4 n
def LE64 (n : Nat) : Bytes := natToLE 8 n

/-- a 1024-byte block as 128 64-bit words -/
abbrev Block := Vector UInt64 128

def zeroBlock : Block := Vector.replicate 128 0

def blockOfBytes (bs : Bytes) : Block := Vector.ofFn fun k => leU64 (bs.drop (8 * k.val))
def bytesOfBlock (b : Block) : Bytes := b.toList.flatMap u64le

def xorBlock (a b : Block) : Block := Vector.zipWith (· ^^^ ·) a b

/-! ### 3.2 step 1: H_0 -/

def H0 (c : Params) (pwd salt key aad : Bytes) : Bytes :=
  H 64 (LE32 c.p ++ LE32 c.T ++ LE32 c.m ++ LE32 c.t ++ LE32 c.v ++ LE32 c.y.y ++
        LE32 pwd.length ++ pwd ++ LE32 salt.length ++ salt ++
        LE32 key.length ++ key ++ LE32 aad.length ++ aad)

/-! ### 3.3: variable-length hash function H' -/

/-- `W_i || W_{i+1} || … || W_r || V_{r+1}` given `V_i` and `n = r − i`: W_i is the first 32 bytes of V_i,
    `V_{i+1} = H^64(V_i)`, and `V_{r+1} = H^last(V_r)` -/
def Hchain (last : Nat) : Nat → Bytes → Bytes
  | 0, Vr => Vr.take 32 ++ H last Vr
  | n + 1, Vi => Vi.take 32 ++ Hchain last n (H 64 Vi)

/-- `H'^T(A)`: if T ≤ 64 then `H^T(LE32(T) || A)`, else with `r = ceil(T/32) − 2`:
    `V_1 = H^64(LE32(T) || A)`, `V_{i+1} = H^64(V_i)`, `V_{r+1} = H^(T−32r)(V_r)`, result `W_1 || … || W_r || V_{r+1}` -/
def Hprime (T : Nat) (A : Bytes) : Bytes :=
  if T ≤ 64 then H T (LE32 T ++ A)
  else
    let r := (T + 31) / 32 - 2
    Hchain (T - 32 * r) (r - 1) (H 64 (LE32 T ++ A))

/-! ### 3.6: permutation P -/

/-- low 32 bits of a 64-bit word ("trunc") -/
def trunc (a : UInt64) : UInt64 := a % 0x100000000

/-- `(a + b + 2 * trunc(a) * trunc(b)) mod 2^64` -/
def fBlaMka (a b : UInt64) : UInt64 := a + b + 2 * trunc a * trunc b

/-- `GB(a, b, c, d)` on the positions a b c d of the 4×4 word matrix v -/
def GB (v : Vector UInt64 16) (a b c d : Fin 16) : Vector UInt64 16 :=
  let v := v.set a (fBlaMka v[a] v[b])
  let v := v.set d (rotr64 (v[d] ^^^ v[a]) 32)
  let v := v.set c (fBlaMka v[c] v[d])
  let v := v.set b (rotr64 (v[b] ^^^ v[c]) 24)
  let v := v.set a (fBlaMka v[a] v[b])
  let v := v.set d (rotr64 (v[d] ^^^ v[a]) 16)
  let v := v.set c (fBlaMka v[c] v[d])
  let v := v.set b (rotr64 (v[b] ^^^ v[c]) 63)
  v

/-- `P(S_0 … S_7)` on the 16 words `v_0 … v_15`, `S_i = (v_{2i+1} || v_{2i})` -/
def P (v : Vector UInt64 16) : Vector UInt64 16 :=
  let v := GB v 0 4 8 12
  let v := GB v 1 5 9 13
  let v := GB v 2 6 10 14
  let v := GB v 3 7 11 15
  let v := GB v 0 5 10 15
  let v := GB v 1 6 11 12
  let v := GB v 2 7 8 13
  let v := GB v 3 4 9 14
  v

/-! ### 3.5: compression function G -/

/-- word `h` (0 or 1) of the 16-byte register `R_k` -/
def wordOf (k : Fin 64) (h : Fin 2) : Fin 128 := ⟨2 * k.val + h.val, by omega⟩

/-- the `c`-th register of row `i` of the 8×8 register matrix: `R_{8i+c}` -/
def rowReg (i c : Fin 8) : Fin 64 := ⟨8 * i.val + c.val, by omega⟩

/-- the `r`-th register of column `i`: `R_{i+8r}` -/
def colReg (i r : Fin 8) : Fin 64 := ⟨i.val + 8 * r.val, by omega⟩

/-- position in the block of the `k`-th word handed to P when P is applied to the 8 registers `reg 0 … reg 7`
    (`v_k` lies in `S_{k/2}`, word `k mod 2`) -/
def wordIdx (reg : Fin 8 → Fin 64) (k : Fin 16) : Fin 128 :=
  wordOf (reg ⟨k.val / 2, by omega⟩) ⟨k.val % 2, by omega⟩

/-- `(R_{reg 0} … R_{reg 7}) ← P(R_{reg 0} … R_{reg 7})` -/
def applyP (R : Block) (reg : Fin 8 → Fin 64) : Block :=
  let out := P (Vector.ofFn fun k => R[wordIdx reg k])
  (List.finRange 16).foldl (fun B k => B.set (wordIdx reg k) out[k]) R

/-- `G(X, Y)`: `R = X xor Y`; P on every row of R gives Q; P on every column of Q gives Z; result `Z xor R` -/
def G (X Y : Block) : Block :=
  let R := xorBlock X Y
  let Q := (List.finRange 8).foldl (fun B i => applyP B (rowReg i)) R
  let Z := (List.finRange 8).foldl (fun B i => applyP B (colReg i)) Q
  xorBlock Z R

/-! ### 3.2 step 2 / 3.4: memory layout -/

/-- `m' = 4 * p * floor(m / 4p)` blocks -/
def mPrime (c : Params) : Nat := 4 * c.p * (c.m / (4 * c.p))

/-- `q = m' / p` columns -/
def q (c : Params) : Nat := mPrime c / c.p

/-- segment length `q / SL` -/
def segLen (c : Params) : Nat := q c / SL

/-- the memory: `B[i][j]` is stored at `i * q + j` -/
abbrev Memory := Array Block

def getB (c : Params) (B : Memory) (i j : Nat) : Block := B.getD (i * q c + j) zeroBlock
def setB (c : Params) (B : Memory) (i j : Nat) (x : Block) : Memory := B.setIfInBounds (i * q c + j) x

/-! ### 3.4.1: J_1, J_2 -/

/-- 3.4.1.3 (and .1, .2): Argon2i always, Argon2id in pass 0 and slices 0 and 1, use data-independent addressing -/
def dataIndependent (y : Ty) (r sl : Nat) : Bool :=
  match y with
  | .i => true
  | .d => false
  | .id => r == 0 && (sl == 0 || sl == 1)

/-- 3.4.1.2: `Z || LE64(i) || ZERO(968)` with `Z = LE64(r) || LE64(l) || LE64(sl) || LE64(m') || LE64(t) || LE64(y)` -/
def addrInput (c : Params) (r l sl i : Nat) : Block :=
  blockOfBytes (LE64 r ++ LE64 l ++ LE64 sl ++ LE64 (mPrime c) ++ LE64 c.t ++ LE64 c.y.y ++ LE64 i ++ zeros 968)

/-- the `i`-th (i ≥ 1) 1024-byte value `G(ZERO(1024), G(ZERO(1024), Z || LE64(i) || ZERO(968)))` -/
def addrBlock (c : Params) (r l sl i : Nat) : Block :=
  G zeroBlock (G zeroBlock (addrInput c r l sl i))

/-- all address blocks of a segment: `ceil(segLen / 128)` of them, each holding 128 8-byte values X -/
def addrBlocks (c : Params) (r l sl : Nat) : Array Block :=
  ((List.range ((segLen c + 127) / 128)).map fun n => addrBlock c r l sl (n + 1)).toArray

/-- the 8-byte value X = X1 || X2 for the `k`-th block of the segment; `J_1 = int32(X1)`, `J_2 = int32(X2)` -/
def splitX (x : UInt64) : Nat × Nat := (x.toNat % 2 ^ 32, x.toNat / 2 ^ 32)

/-! ### 3.4.2: mapping J_1, J_2 to the reference block index [l][z] -/

/-- columns of slice `sl`, in order of construction -/
def sliceCols (c : Params) (sl : Nat) : List Nat := List.range' (sl * segLen c) (segLen c)

/-- the segments of a lane that are "computed and finished" when pass `r`, slice `sl` is being filled, in order
    of construction: in pass 0 the slices before `sl`; later the last SL − 1 = 3 segments, i.e. slices
    `sl+1, sl+2, sl+3 (mod 4)` -/
def finishedCols (c : Params) (r sl : Nat) : List Nat :=
  if r = 0 then (List.range sl).flatMap (sliceCols c)
  else [(sl + 1) % SL, (sl + 2) % SL, (sl + 3) % SL].flatMap (sliceCols c)

/-- the set W of column indices of lane `l` that block `B[i][j]`, `j = sl * segLen + k`, may reference,
    enumerated in the order of construction:
    1. `l = i`: all blocks of the finished segments and the blocks already computed in the current segment,
       excluding `B[i][j−1]`;
    2. `l ≠ i`: all blocks of the finished segments of lane l; if `B[i][j]` is the first block of a segment,
       the very last index is excluded. -/
def refSet (c : Params) (r sl k : Nat) (sameLane : Bool) : List Nat :=
  let j := sl * segLen c + k
  if sameLane then
    (finishedCols c r sl ++ List.range' (sl * segLen c) k).filter (· != (j + q c - 1) % q c)
  else if k = 0 then (finishedCols c r sl).dropLast
  else finishedCols c r sl

/-- `x = J_1^2 / 2^32; y = (|W| * x) / 2^32; zz = |W| − 1 − y` -/
def mapJ1 (J1 : Nat) (size : Nat) : Nat :=
  let x := J1 * J1 / 2 ^ 32
  let y := size * x / 2 ^ 32
  size - 1 - y

/-- the reference lane: `l = J_2 mod p`, except in the first slice of the first pass, where it is the current lane -/
def refLane (c : Params) (r sl i J2 : Nat) : Nat := if r = 0 ∧ sl = 0 then i else J2 % c.p

/-- `z`: the `zz`-th element of W -/
def refCol (c : Params) (r sl k : Nat) (sameLane : Bool) (J1 : Nat) : Nat :=
  let W := refSet c r sl k sameLane
  W.getD (mapJ1 J1 W.length) 0

/-! ### 3.2 steps 3–8 -/

/-- steps 3, 4: `B[i][0] = H'^1024(H_0 || LE32(0) || LE32(i))`, `B[i][1] = H'^1024(H_0 || LE32(1) || LE32(i))` -/
def firstBlocks (c : Params) (h0 : Bytes) : Memory :=
  (List.range c.p).foldl (fun B i =>
    let B := setB c B i 0 (blockOfBytes (Hprime 1024 (h0 ++ LE32 0 ++ LE32 i)))
    setB c B i 1 (blockOfBytes (Hprime 1024 (h0 ++ LE32 1 ++ LE32 i))))
    (Array.replicate (mPrime c) zeroBlock)

/-- steps 5, 6 for one block `B[i][j]`, `j = sl * segLen + k` in pass `r` (`addrs` = the segment's address
    blocks when addressing is data-independent) -/
def fillBlock (c : Params) (r sl i : Nat) (addrs : Array Block) (B : Memory) (k : Nat) : Memory :=
  let j := sl * segLen c + k
  if r = 0 ∧ j < 2 then B
  else
    let prev := getB c B i ((j + q c - 1) % q c)
    let X := if dataIndependent c.y r sl then (addrs.getD (k / 128) zeroBlock)[k % 128]'(Nat.mod_lt _ (by omega))
             else prev[0]
    let (J1, J2) := splitX X
    let l := refLane c r sl i J2
    let z := refCol c r sl k (l == i) J1
    let new := G prev (getB c B l z)
    if r = 0 ∨ c.v = 0x10 then setB c B i j new
    else setB c B i j (xorBlock new (getB c B i j))

/-- one segment (lane `i` of slice `sl` in pass `r`) -/
def fillSegment (c : Params) (r sl : Nat) (B : Memory) (i : Nat) : Memory :=
  let addrs := if dataIndependent c.y r sl then addrBlocks c r i sl else #[]
  (List.range (segLen c)).foldl (fillBlock c r sl i addrs) B

/-- all passes, slice by slice; the segments of one slice do not reference each other, so their order is immaterial -/
def fillMemory (c : Params) (B : Memory) : Memory :=
  (List.range c.t).foldl (fun B r =>
    (List.range SL).foldl (fun B sl =>
      (List.range c.p).foldl (fillSegment c r sl) B) B) B

/-- step 7: `C = B[0][q−1] xor … xor B[p−1][q−1]` -/
def finalBlock (c : Params) (B : Memory) : Block :=
  (List.range c.p).foldl (fun C i => xorBlock C (getB c B i (q c - 1))) zeroBlock

/-- RFC 9106 3.2: the tag `H'^T(C)` -/
def argon2 (c : Params) (pwd salt key aad : Bytes) : Bytes :=
  let h0 := H0 c pwd salt key aad
  let B := fillMemory c (firstBlocks c h0)
  Hprime c.T (bytesOfBlock (finalBlock c B))

end Cx.Spec.Argon2
