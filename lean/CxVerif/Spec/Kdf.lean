/-
  Spec.Kdf — the three key-derivation functions, executable, written from the RFC texts:
    * HKDF        RFC 5869 §2.2 (Extract), §2.3 (Expand)
    * PBKDF2      RFC 8018 §5.2
    * scrypt      RFC 7914 §3 (Salsa20/8 Core), §4 (scryptBlockMix), §5 (scryptROMix), §6 (scrypt), §2 (parameters)
  HKDF and PBKDF2 are generic in the pseudo-random function `prf : key → message → output`
  (HKDF: HMAC-Hash; PBKDF2: any PRF), with the H-instantiated forms exported for the other units.
  Import-free (core Lean only).

  -- API:
  --   Cx.Spec.Kdf.hkdfExtract (H) (B : Nat) (salt ikm : Bytes) : Bytes                      PRK = HMAC-Hash(salt, IKM)
  --   Cx.Spec.Kdf.hkdfExpand  (H) (B hashLen : Nat) (prk info : Bytes) (L : Nat) : Option Bytes
  --                                      `none` ⇔ |PRK| < HashLen ∨ L > 255·HashLen   (the two input constraints of §2.3)
  --   Cx.Spec.Kdf.hkdfExpandPrf (prf) (hashLen) (prk info) (L)                               the same for an arbitrary PRF
  --   Cx.Spec.Kdf.hkdfOkm (prf) (hashLen) (prk info) (L) : Bytes                             the value: first L octets of T(1) | T(2) | …
  --   Cx.Spec.Kdf.pbkdf2 (prf : Bytes → Bytes → Bytes) (hLen : Nat) (P S : Bytes) (c dkLen : Nat) : Option Bytes
  --                                      `none` ⇔ c = 0 ∨ dkLen > (2^32 − 1)·hLen  ("derived key too long")
  --   Cx.Spec.Kdf.pbkdf2Hmac (H) (B hLen) (P S) (c dkLen)                                    PBKDF2 with PRF = HMAC-H
  --   Cx.Spec.Kdf.scrypt (P S : Bytes) (N r p dkLen : Nat) : Option Bytes                     `none` ⇔ ¬ scryptValid N r p dkLen
  --   Cx.Spec.Kdf.scryptValid N r p dkLen : Bool          the parameter constraints of RFC 7914 §2 / §6
  --   Cx.Spec.Kdf.salsa20_8 / blockMix r / roMix r N / integerify
-/
import CxVerif.Util.Bytes
import CxVerif.Util.Blocks
import CxVerif.Spec.Hmac
import CxVerif.Spec.Salsa
import CxVerif.Spec.Sha2
namespace Cx.Spec.Kdf
open Cx

/-! ## HKDF (RFC 5869) -/

/-- §2.2  PRK = HMAC-Hash(salt, IKM)  ("salt … if not provided, it is set to a string of HashLen zeros": the
    zero padding of HMAC makes the empty salt the same key) -/
def hkdfExtract (H : Bytes → Bytes) (B : Nat) (salt ikm : Bytes) : Bytes := Hmac.hmac H B salt ikm

/-- §2.3  the list T(i), T(i+1), …, T(i+k−1) given T(i−1):  T(i) = PRF(PRK, T(i−1) | info | i)  (i one octet) -/
def hkdfTs (prf : Bytes → Bytes) (info : Bytes) : Nat → Nat → Bytes → List Bytes
  | 0, _, _ => []
  | k + 1, i, prev =>
    let t := prf (prev ++ info ++ [UInt8.ofNat i])
    t :: hkdfTs prf info k (i + 1) t

/-- ⌈a / b⌉ -/
def ceilDiv (a b : Nat) : Nat := (a + b - 1) / b

/-- §2.3  N = ceil(L/HashLen);  T = T(1) | T(2) | … | T(N), T(0) = empty;  OKM = first L octets of T -/
def hkdfOkm (prf : Bytes → Bytes → Bytes) (hashLen : Nat) (prk info : Bytes) (L : Nat) : Bytes :=
  ((hkdfTs (prf prk) info (ceilDiv L hashLen) 1 []).flatten).take L

/-- §2.3  Inputs: "PRK  a pseudorandom key of at least HashLen octets (usually, the output from the extract step)";
    "L  length of output keying material in octets (<= 255*HashLen)".  Outside these two constraints the function is
    not defined (`none`); inside, OKM = `hkdfOkm`. -/
def hkdfExpandPrf (prf : Bytes → Bytes → Bytes) (hashLen : Nat) (prk info : Bytes) (L : Nat) : Option Bytes :=
  if prk.length < hashLen then none
  else if L ≤ 255 * hashLen then some (hkdfOkm prf hashLen prk info L)
  else none

def hkdfExpand (H : Bytes → Bytes) (B hashLen : Nat) (prk info : Bytes) (L : Nat) : Option Bytes :=
  hkdfExpandPrf (Hmac.hmac H B) hashLen prk info L

/-! ## PBKDF2 (RFC 8018 §5.2) -/

/-- INT (i): "a four-octet encoding of the integer i, most significant octet first" -/
def INT (i : Nat) : Bytes := natToBE 4 i

/-- U_1 = PRF (P, S || INT (i)),  U_j = PRF (P, U_{j-1});  `U prf S i k` = U_{k+1}  (`prf` is PRF(P, ·)) -/
def U (prf : Bytes → Bytes) (S : Bytes) (i : Nat) : Nat → Bytes
  | 0 => prf (S ++ INT i)
  | k + 1 => prf (U prf S i k)

/-- F (P, S, c, i) = U_1 \xor U_2 \xor ... \xor U_c — the textbook form (quadratic if evaluated naively) -/
def Fxor (prf : Bytes → Bytes) (S : Bytes) (c i : Nat) : Bytes :=
  ((List.range (c - 1)).map fun k => U prf S i (k + 1)).foldl xorBytes (U prf S i 0)

/-- the same chain evaluated once: `k` further iterations from U_j = `u` with the running XOR `acc` -/
def Fiter (prf : Bytes → Bytes) : Nat → Bytes → Bytes → Bytes
  | 0, _, acc => acc
  | k + 1, u, acc => let u' := prf u; Fiter prf k u' (xorBytes acc u')

/-- F (P, S, c, i) for c ≥ 1 (theorem `Proofs.Kdf.F_eq_Fxor`: equal to the textbook form) -/
def F (prf : Bytes → Bytes) (S : Bytes) (c i : Nat) : Bytes :=
  let u1 := prf (S ++ INT i)
  Fiter prf (c - 1) u1 u1

/-- §5.2: 1. "If dkLen > (2^32 - 1) * hLen, output 'derived key too long' and stop."
    2. l = CEIL (dkLen / hLen)   3. T_i = F (P, S, c, i)   4. DK = T_1 || … || T_l<0..r-1> (the first dkLen octets).
    The iteration count `c` is "a positive integer". -/
def pbkdf2 (prf : Bytes → Bytes → Bytes) (hLen : Nat) (P S : Bytes) (c dkLen : Nat) : Option Bytes :=
  if c = 0 then none
  else if dkLen > (2 ^ 32 - 1) * hLen then none
  else some (((List.range (ceilDiv dkLen hLen)).flatMap fun i => F (prf P) S c (i + 1)).take dkLen)

def pbkdf2Hmac (H : Bytes → Bytes) (B hLen : Nat) (P S : Bytes) (c dkLen : Nat) : Option Bytes :=
  pbkdf2 (Hmac.hmac H B) hLen P S c dkLen

/-! ## scrypt (RFC 7914) -/

/-- §3 Salsa20/8 Core: "a round-reduced variant of the Salsa20 Core … a hash function from 64-octet strings to
    64-octet strings": the 64 octets are 16 little-endian words, `Spec.Salsa.hash 8` is x + doubleround^4(x)
    (Bernstein's Salsa20 specification §8 with 8 rounds), serialised little-endian. -/
def salsa20_8 (B : Bytes) : Bytes :=
  Salsa.hash 8 (Vector.ofFn fun (i : Fin 16) => Stream.word B i.val)

def evens {α : Type} : List α → List α
  | [] => []
  | [a] => [a]
  | a :: _ :: t => a :: evens t

def odds {α : Type} : List α → List α
  | [] => []
  | [_] => []
  | _ :: b :: t => b :: odds t

/-- §4 step 2: `for i = 0 to 2r−1: T = X xor B[i]; X = Salsa (T); Y[i] = X` — returns Y[0..] for the given blocks -/
def blockMixYs : Bytes → List Bytes → List Bytes
  | _, [] => []
  | X, Bi :: rest =>
    let X' := salsa20_8 (xorBytes X Bi)
    X' :: blockMixYs X' rest

/-- §4 scryptBlockMix: B = B[0] ‖ … ‖ B[2r−1] (64-octet blocks); 1. X = B[2r−1]; 2. (above);
    3. B' = (Y[0], Y[2], …, Y[2r−2], Y[1], Y[3], …, Y[2r−1]) -/
def blockMix (r : Nat) (B : Bytes) : Bytes :=
  let blocks := takeBlocks 64 (2 * r) B
  let X := (B.drop (64 * (2 * r - 1))).take 64
  let Y := blockMixYs X blocks
  (evens Y).flatten ++ (odds Y).flatten

/-- §4/§5 Integerify (B[0] … B[2r−1]) = "the result of interpreting B[2r−1] as a little-endian integer" -/
def integerify (r : Nat) (B : Bytes) : Nat := leNat ((B.drop (64 * (2 * r - 1))).take 64)

/-- §5 step 3, one iteration: j = Integerify (X) mod N; T = X xor V[j]; X = scryptBlockMix (T) -/
def roMixStep (r : Nat) (V : List Bytes) (hV : V ≠ []) (X : Bytes) : Bytes :=
  let j := integerify r X % V.length
  blockMix r (xorBytes X (V[j]'(Nat.mod_lt _ (List.length_pos_iff.mpr hV))))

/-- [a, f a, f (f a), …]  (n entries) -/
def iterates {α : Type} (f : α → α) : Nat → α → List α
  | 0, _ => []
  | n + 1, a => a :: iterates f n (f a)

theorem iterates_length {α : Type} (f : α → α) (n : Nat) (a : α) : (iterates f n a).length = n := by
  induction n generalizing a with
  | zero => rfl
  | succ n ih => simp [iterates, ih]

/-- §5 scryptROMix: 1. X = B   2. for i = 0 to N−1: V[i] = X; X = scryptBlockMix (X)
    3. for i = 0 to N−1: (step above)   4. B' = X.   (V = [B, BlockMix B, …, BlockMix^{N−1} B], N entries) -/
def roMix (r N : Nat) (B : Bytes) : Bytes :=
  if hN : N = 0 then B else
    let V := iterates (blockMix r) N B
    have hV : V ≠ [] := by
      intro h
      have : V.length = N := iterates_length ..
      rw [h] at this
      exact hN this.symm
    Stream.iter (roMixStep r V hV) N (Stream.iter (blockMix r) N B)

def isPow2 (N : Nat) : Bool := N > 0 && (List.range (N.log2 + 1)).any fun k => N == 2 ^ k

/-- §2 / §6: "N … must be larger than 1, a power of 2, and less than 2^(128 * r / 8)";
    "p … a positive integer less than or equal to ((2^32-1) * hLen) / MFLen where hLen is 32 and MFlen is 128 * r";
    "dkLen … a positive integer less than or equal to (2^32 - 1) * hLen"; r is a positive block size parameter. -/
def scryptValid (N r p dkLen : Nat) : Bool :=
  -- `N < 2^(128·r/8)` is evaluated as `log2 N < 128·r/8` (same thing for N > 0: `Proofs.Kdf.scryptValid_iff`)
  decide (N > 1) && isPow2 N && decide (0 < r) && decide (N.log2 < 128 * r / 8)
    && decide (0 < p) && decide (p ≤ ((2 ^ 32 - 1) * 32) / (128 * r))
    && decide (0 < dkLen) && decide (dkLen ≤ (2 ^ 32 - 1) * 32)

def hmacSha256 : Bytes → Bytes → Bytes := Hmac.hmac Sha2.sha256 64

/-- §6: 1. B[0] ‖ … ‖ B[p−1] = PBKDF2-HMAC-SHA256 (P, S, 1, p·128·r)   2. B[i] = scryptROMix (r, B[i], N)
    3. DK = PBKDF2-HMAC-SHA256 (P, B[0] ‖ … ‖ B[p−1], 1, dkLen) -/
def scrypt (P S : Bytes) (N r p dkLen : Nat) : Option Bytes :=
  if scryptValid N r p dkLen then
    match pbkdf2 hmacSha256 32 P S 1 (p * (128 * r)) with
    | none => none
    | some B =>
      let Bs := (takeBlocks (128 * r) p B).map (roMix r N)
      pbkdf2 hmacSha256 32 P Bs.flatten 1 dkLen
  else none

end Cx.Spec.Kdf
