/-
  Spec.Stream — what "a stream cipher with 64-byte blocks" means, independent of the block function.
  The keystream is the concatenation of the blocks `blk 0 ‖ blk 1 ‖ blk 2 ‖ …`; byte `q` of the keystream is
  therefore byte `q % 64` of block `q / 64`.  The block functions of the individual ciphers reduce the block
  number into their counter width themselves (`UInt32.ofNat` / `UInt64.ofNat`, i.e. mod 2^32 / mod 2^64).

  -- API:
  --   Cx.Spec.Stream.iter       : (α → α) → Nat → α → α        n-fold application
  --   Cx.Spec.Stream.ksByte     : (Nat → Bytes) → Nat → UInt8   keystream byte at an absolute position
  --   Cx.Spec.Stream.keystream  : (Nat → Bytes) → (pos len : Nat) → Bytes
  --   Cx.Spec.Stream.keystreamFast (same value, blockwise; theorem `Cx.Proofs.Stream.keystreamFast_eq` in Proofs/StreamFast.lean)
  --   Cx.Spec.Stream.encrypt    : (Nat → Bytes) → (pos : Nat) → Bytes → Bytes     data ⊕ KS[pos, pos+len)
-/
import CxVerif.Util.Bytes
namespace Cx.Spec.Stream

/-- `f` applied `n` times -/
def iter {α : Type} (f : α → α) : Nat → α → α
  | 0, x => x
  | n + 1, x => iter f n (f x)

/-- byte at absolute position `q` of the stream whose `n`-th 64-byte block is `blk n`.
    (`getD` never takes its default when `(blk n).length = 64`; every block function below has that
    length theorem: `Cx.Proofs.Stream*.…_length`.) -/
def ksByte (blk : Nat → Bytes) (q : Nat) : UInt8 := (blk (q / 64)).getD (q % 64) 0

/-- keystream bytes `[pos, pos+len)` -/
def keystream (blk : Nat → Bytes) (pos len : Nat) : Bytes := (List.range' pos len).map (ksByte blk)

/-- the same bytes computed block by block (each block evaluated once) -/
def keystreamFast (blk : Nat → Bytes) (pos len : Nat) : Bytes :=
  (((List.range' (pos / 64) ((pos % 64 + len + 63) / 64)).flatMap blk).drop (pos % 64)).take len

/-- stream encryption = decryption: data ⊕ keystream from absolute position `pos` -/
def encrypt (blk : Nat → Bytes) (pos : Nat) (data : Bytes) : Bytes :=
  xorBytes data (keystream blk pos data.length)

def encryptFast (blk : Nat → Bytes) (pos : Nat) (data : Bytes) : Bytes :=
  xorBytes data (keystreamFast blk pos data.length)

/-- ASCII bytes of a string constant -/
def ascii (s : String) : Bytes := s.toList.map (fun c => UInt8.ofNat c.toNat)

/-- `i`-th little-endian 32-bit word of a byte string -/
def word (bs : Bytes) (i : Nat) : UInt32 := leU32 (bs.drop (4 * i))

end Cx.Spec.Stream
