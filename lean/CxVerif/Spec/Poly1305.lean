/-
  Spec.Poly1305 — RFC 8439 §2.5 ("The Poly1305 Algorithm"), on `Nat`, executable.

  -- API:
  --   Cx.Spec.Poly1305.mac (key msg : Bytes) : Bytes      -- 16-byte tag; key is 32 bytes (r ‖ s)
  --   Cx.Spec.Poly1305.tagNat (key msg : Bytes) : Nat     -- the tag as a number < 2^128
  --   Cx.Spec.Poly1305.p, clamp, rOf, sOf, blockNat, step, poly

  RFC 8439 §2.5.1 pseudo code, transcribed:

      clamp(r): r &= 0x0ffffffc0ffffffc0ffffffc0fffffff
      poly1305_mac(msg, key):
         r = le_bytes_to_num(key[0..15]); clamp(r)
         s = le_bytes_to_num(key[16..31])
         a = 0; p = (1<<130)-5
         for i=1 upto ceil(msg length in bytes / 16)
            n = le_bytes_to_num(msg[((i-1)*16)..(i*16)] | [0x01])
            a += n
            a = (r * a) % p
         a += s
         return num_to_16_le_bytes(a)
-/
import CxVerif.Util.Bytes
namespace Cx.Spec.Poly1305
open Cx

/-- the prime 2^130 − 5 -/
def p : Nat := 2 ^ 130 - 5

def clampMask : Nat := 0x0ffffffc0ffffffc0ffffffc0fffffff

/-- `clamp(r)` of RFC 8439 §2.5 -/
def clamp (r : Nat) : Nat := r &&& clampMask

/-- `r = clamp(le_bytes_to_num(key[0..15]))` -/
def rOf (key : Bytes) : Nat := clamp (leNat (key.take 16))

/-- `s = le_bytes_to_num(key[16..31])` -/
def sOf (key : Bytes) : Nat := leNat ((key.drop 16).take 16)

/-- `n = le_bytes_to_num(block | [0x01])`: the block with one extra byte 0x01 appended (the high marker:
    2^128 for a full block, 2^(8·len) for the final partial block) -/
def blockNat (b : Bytes) : Nat := leNat (b ++ [(1 : UInt8)])

/-- one iteration: `a += n; a = (r * a) % p` -/
def step (r acc : Nat) (b : Bytes) : Nat := ((acc + blockNat b) * r) % p

/-- the accumulator after all ⌈len/16⌉ blocks -/
def poly (r : Nat) (msg : Bytes) : Nat := (chunks 16 msg).foldl (step r) 0

/-- `a += s`, truncated to 16 bytes -/
def tagNat (key msg : Bytes) : Nat := (poly (rOf key) msg + sOf key) % 2 ^ 128

/-- `poly1305_mac(msg, key)` -/
def mac (key msg : Bytes) : Bytes := natToLE 16 (tagNat key msg)

end Cx.Spec.Poly1305
