/-
  Spec.Aead — AEAD_CHACHA20_POLY1305 per RFC 8439 §2.6 (key generation) and §2.8 (construction), executable,
  generalised exactly as the crate allows: R ∈ {8, 12, 20} rounds and 128- or 256-bit keys (a 128-bit key uses the
  τ constants and the key twice, see Spec.ChaCha).  RFC 8439 itself is R = 20 with a 256-bit key.

  -- API:
  --   Cx.Spec.Aead.polyKeyGen (R) (key nonce : Bytes) : Bytes          §2.6  first 32 bytes of block 0
  --   Cx.Spec.Aead.pad16 (x : Bytes) : Bytes                            §2.8  0..15 zero bytes up to a multiple of 16
  --   Cx.Spec.Aead.le64 (n : Nat) : Bytes                               8-byte little-endian (mod 2^64)
  --   Cx.Spec.Aead.macData (aad ct : Bytes) : Bytes                     §2.8  aad ‖ pad16 ‖ ct ‖ pad16 ‖ le64|aad| ‖ le64|ct|
  --   Cx.Spec.Aead.tag (R) (key nonce aad ct : Bytes) : Bytes           Poly1305(otk, macData aad ct)
  --   Cx.Spec.Aead.cipher (R) (key nonce data : Bytes) : Bytes          ChaCha encryption with initial counter 1
  --   Cx.Spec.Aead.encrypt (R) (key nonce aad pt) : Bytes × Bytes       (ciphertext, tag)
  --   Cx.Spec.Aead.decrypt (R) (key nonce aad ct tag) : Option Bytes    plaintext iff the tag is the right one
  --   Cx.Spec.Aead.Valid (R) (key nonce aad data) : Prop                the domain guards (decidable)
  --   …Fast variants: same values computed blockwise (driver only; equality `Cx.Proofs.Aead.encryptFast_eq`)

  RFC 8439 §2.8, pseudo code, transcribed:

      chacha20_aead_encrypt(aad, key, iv, constant, plaintext):
         nonce = constant | iv
         otk = poly1305_key_gen(key, nonce)
         ciphertext = chacha20_encrypt(key, 1, nonce, plaintext)
         mac_data = aad | pad16(aad)
         mac_data |= ciphertext | pad16(ciphertext)
         mac_data |= num_to_8_le_bytes(aad.length)
         mac_data |= num_to_8_le_bytes(ciphertext.length)
         tag = poly1305_mac(mac_data, otk)
         return (ciphertext, tag)

      poly1305_key_gen(key, nonce):  counter = 0; block = chacha20_block(key, counter, nonce); return block[0..31]

  Domain.  RFC 8439 §2.8 limits the plaintext to 2^38 − 64 bytes (the 32-bit block counter starts at 1) and AAD and
  ciphertext lengths to 2^64 − 1.  The crate enforces neither limit (beyond u64 arithmetic); its ChaCha counter wraps
  mod 2^32, and so does `Spec.ChaCha.blockAt`, so the Spec below is defined — and the theorems hold — for all data
  lengths < 2^64, but it IS RFC 8439 only for data of at most 2^38 − 64 bytes (longer data would reuse block 0, the
  one-time-key block, as keystream; callers must not do that).

  Decryption (§2.8, text): same construction on the received ciphertext; "the calculated tag is compared
  bitwise with the received tag"; the plaintext is released only if they are equal.
-/
import CxVerif.Util.Bytes
import CxVerif.Spec.ChaCha
import CxVerif.Spec.Poly1305
namespace Cx.Spec.Aead
open Cx

/-- §2.6 `poly1305_key_gen`: the first 32 bytes of the ChaCha block with counter 0 -/
def polyKeyGen (R : Nat) (key nonce : Bytes) : Bytes := (Spec.ChaCha.block R key nonce 0).take 32

/-- §2.8 `pad16(x)`: "up to 15 zero bytes, and it brings the total length so far to an integral multiple of 16.
    If the length was already an integral multiple of 16 bytes, this field is zero-length." -/
def pad16 (x : Bytes) : Bytes := zeros ((16 - x.length % 16) % 16)

/-- `num_to_8_le_bytes` -/
def le64 (n : Nat) : Bytes := natToLE 8 n

/-- §2.8 `mac_data` -/
def macData (aad ct : Bytes) : Bytes :=
  aad ++ pad16 aad ++ ct ++ pad16 ct ++ le64 aad.length ++ le64 ct.length

/-- §2.8 `chacha20_encrypt(key, 1, nonce, data)`: the keystream starts at block 1 = absolute byte position 64 -/
def cipher (R : Nat) (key nonce data : Bytes) : Bytes := Spec.ChaCha.encrypt R key nonce 64 data

/-- the tag of (aad, ciphertext) -/
def tag (R : Nat) (key nonce aad ct : Bytes) : Bytes :=
  Spec.Poly1305.mac (polyKeyGen R key nonce) (macData aad ct)

/-- §2.8 `chacha20_aead_encrypt` : (ciphertext, tag) -/
def encrypt (R : Nat) (key nonce aad pt : Bytes) : Bytes × Bytes :=
  let ct := cipher R key nonce pt
  (ct, tag R key nonce aad ct)

/-- §2.8 decryption: the plaintext, released only when the received tag equals the calculated one -/
def decrypt (R : Nat) (key nonce aad ct t : Bytes) : Option Bytes :=
  if t = tag R key nonce aad ct then some (cipher R key nonce ct) else none

/-- domain guards: what the crate accepts (key 16 or 32 bytes, R ∈ {8,12,20}), the 96-bit nonce, and the RFC's
    length limits as far as they are needed for the encoding (|aad|, |data| < 2^64) -/
def Valid (R : Nat) (key nonce aad data : Bytes) : Prop :=
  Spec.ChaCha.validRounds R ∧ Spec.ChaCha.validKey key ∧ nonce.length = 12 ∧ aad.length < 2 ^ 64 ∧ data.length < 2 ^ 64
instance (R : Nat) (key nonce aad data : Bytes) : Decidable (Valid R key nonce aad data) := by
  unfold Valid; infer_instance

/-! blockwise evaluation for the driver (each ChaCha block computed once) -/

def cipherFast (R : Nat) (key nonce data : Bytes) : Bytes := Spec.ChaCha.encryptFast R key nonce 64 data
def encryptFast (R : Nat) (key nonce aad pt : Bytes) : Bytes × Bytes :=
  let ct := cipherFast R key nonce pt
  (ct, tag R key nonce aad ct)
def decryptFast (R : Nat) (key nonce aad ct t : Bytes) : Option Bytes :=
  if t = tag R key nonce aad ct then some (cipherFast R key nonce ct) else none

end Cx.Spec.Aead
