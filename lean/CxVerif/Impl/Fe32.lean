/-
  Impl.Fe32 — model of /repo/src/curve25519/fe/fe32/mod.rs (+ `load_3i`/`load_4i` of fe/load.rs and `invert`,
  `pow25523` of fe/mod.rs): `Fe([i32; 10])`, ref10 representation
      t[0] + 2^26 t[1] + 2^51 t[2] + 2^77 t[3] + 2^102 t[4] + 2^128 t[5] + 2^153 t[6] + 2^179 t[7] + 2^204 t[8] + 2^230 t[9]
  with SIGNED limbs of alternating 26/25 bits.  One definition per Rust function, same statement order.

  Modelling (DESIGN 2.1): limbs are `Int`.  Every Rust `+ - *` on `i32`/`i64` is a CHECKED operation (`add32`,
  `sub32`, `mul32`, `add64`, `sub64`, `mul64` return `none` where an overflow-checked build panics; a
  left-to-right sum `a+b+c+…` checks every partial sum: `sum64`).  What Rust does NOT check is written as the
  wrap it is: `x << k` on i32/i64 drops the bits shifted out (`shl32`, `shl64` = two's-complement wrap of `x·2^k`),
  `as i32` truncates (`wrap32`), `as u8` keeps the low byte (`u8of`).  `>>` on signed integers is the arithmetic
  shift = floor division (`Int./` with a positive divisor is floor division), `&` with `2^k − 1` is `% 2^k`
  (Euclidean remainder: also right for negative two's-complement values).
  `emul(a, b) = (a as i64) * (b as i64)` cannot overflow for i32 operands (|a·b| ≤ 2^62) and is the plain product.
  A function therefore returns `Option …`; `none` = arithmetic-overflow panic of the debug profile.
  The refinement theorems (Proofs/Fe32*.lean, Props/C17/B32.lean) show `= some …` under the ref10 limb bounds.

  Shared tails (the Rust source repeats the lines verbatim in every function; written once here):
    `carry_mul`  the 12 rounded carries + `as i32` casts that end `Mul`, `square`, `square_and_double`
    `carry_par`  the 10 rounded carries (9,1,3,5,7 then 0,2,4,6,8) + casts that end `from_bytes`, `mul_small`
    `sq_cols`    the 13 precomputations, 55 products and 10 column sums common to `square`/`square_and_double`

  -- API:
  --   Cx.Impl.Fe32.Fe                        structure, limbs l0..l9 : Int (also used for the ten i64 columns)
  --   Fe.ZERO Fe.ONE Fe.SQRTM1 Fe.D Fe.D2    constants (limbs re-extracted from the source: Extracted.B32)
  --   add sub mul : Fe → Fe → Option Fe;  neg, negate_mut, square, square_and_double : Fe → Option Fe
  --   square_repeatdly : Fe → Nat → Option Fe;   mul_small : Fe → Nat → Option Fe   (`mul_small::<S0>`, S0 : u32)
  --   from_bytes : (b : Bytes) → b.length = 32 → Option Fe;  fromBytes : Bytes → Option Fe (none: not 32 bytes OR panic —
  --                                                           the latter never: Proofs.Fe32.from_bytes_spec)
  --   to_bytes : Fe → Option Bytes;  is_nonzero, is_negative : Fe → Option Bool
  --   ct_eq : Fe → Fe → Option CT.Choice;  eq : Fe → Fe → Option Bool
  --   maybe_swap_with : Fe → Fe → CT.Choice → Fe × Fe;  maybe_set : Fe → Fe → CT.Choice → Fe
  --   invert, pow25523 : Fe → Option Fe
-/
import CxVerif.Util.Bytes
import CxVerif.Impl.ConstantTime
import CxVerif.Extracted.B32
namespace Cx.Impl.Fe32
open Cx

/-- `pub struct Fe(pub(crate) [i32; 10])` -/
structure Fe where
  l0 : Int
  l1 : Int
  l2 : Int
  l3 : Int
  l4 : Int
  l5 : Int
  l6 : Int
  l7 : Int
  l8 : Int
  l9 : Int
  deriving DecidableEq, Repr, Inhabited

def Fe.ofList : List Int → Fe
  | [a, b, c, d, e, f, g, h, i, j] => ⟨a, b, c, d, e, f, g, h, i, j⟩
  | _ => ⟨0, 0, 0, 0, 0, 0, 0, 0, 0, 0⟩   -- only reached when the extraction failed; every constant theorem then fails
def Fe.toList (f : Fe) : List Int := [f.l0, f.l1, f.l2, f.l3, f.l4, f.l5, f.l6, f.l7, f.l8, f.l9]

def Fe.ZERO : Fe := Fe.ofList Extracted.B32.FE_ZERO
def Fe.ONE : Fe := Fe.ofList Extracted.B32.FE_ONE
def Fe.SQRTM1 : Fe := Fe.ofList Extracted.B32.FE_SQRTM1
def Fe.D : Fe := Fe.ofList Extracted.B32.FE_D
def Fe.D2 : Fe := Fe.ofList Extracted.B32.FE_D2

/-! ## checked / wrapping machine arithmetic on `Int` -/

/-- a value of type `i32` / `i64` -/
def ck32 (v : Int) : Option Int := if -2^31 ≤ v ∧ v < 2^31 then some v else none
def ck64 (v : Int) : Option Int := if -2^63 ≤ v ∧ v < 2^63 then some v else none
/-- two's-complement truncation to 32 / 64 bits (`as i32`, the result of a wrapping shift) -/
def wrap32 (v : Int) : Int := (v + 2^31) % 2^32 - 2^31
def wrap64 (v : Int) : Int := (v + 2^63) % 2^64 - 2^63

def add32 (a b : Int) : Option Int := ck32 (a + b)
def sub32 (a b : Int) : Option Int := ck32 (a - b)
def mul32 (a b : Int) : Option Int := ck32 (a * b)
def neg32 (a : Int) : Option Int := ck32 (-a)
def add64 (a b : Int) : Option Int := ck64 (a + b)
def sub64 (a b : Int) : Option Int := ck64 (a - b)
def mul64 (a b : Int) : Option Int := ck64 (a * b)
/-- `x << k` on i32 / i64 (`k` < width): bits shifted out are dropped, no overflow check -/
def shl32 (x : Int) (k : Nat) : Int := wrap32 (x * 2^k)
def shl64 (x : Int) (k : Nat) : Int := wrap64 (x * 2^k)
/-- `x >> k` on a signed integer: arithmetic shift = floor division -/
def shr (x : Int) (k : Nat) : Int := x / 2^k

/-- `fn emul(a: i32, b: i32) -> i64 { (a as i64) * (b as i64) }` -/
def emul (a b : Int) : Int := a * b

/-- `a + b + c + …` on i64, evaluated left to right, every partial sum checked -/
def sum64 : List Int → Option Int
  | [] => some 0
  | x :: xs => xs.foldlM (fun acc y => add64 acc y) x

/-- `x as u8` -/
def u8of (x : Int) : UInt8 := UInt8.ofNat (x % 256).toNat
/-- `(x | y) as u8` for i32 `x`, `y`: the low byte of the OR is the OR of the low bytes -/
def u8or (x y : Int) : UInt8 := u8of x ||| u8of y

/-- one rounded carry on i64 columns:
    `carry = (h + (1 << (k-1))) >> k; hn += carry; h -= carry << k;`  — returns `(h, hn)` -/
def carryR (k : Nat) (h hn : Int) : Option (Int × Int) := do
  let t ← add64 h (2^(k-1))
  let carry := shr t k
  let hn ← add64 hn carry
  let h ← sub64 h (shl64 carry k)
  pure (h, hn)

/-- `carry9 = (h9 + (1<<24)) >> 25; h0 += carry9 * 19; h9 -= carry9 << 25;` — returns `(h9, h0)` -/
def carryR19 (h9 h0 : Int) : Option (Int × Int) := do
  let t ← add64 h9 (2^24)
  let carry9 := shr t 25
  let c19 ← mul64 carry9 19
  let h0 ← add64 h0 c19
  let h9 ← sub64 h9 (shl64 carry9 25)
  pure (h9, h0)

/-- `Fe([h0 as i32, …, h9 as i32])` -/
def castFe (h : Fe) : Fe :=
  ⟨wrap32 h.l0, wrap32 h.l1, wrap32 h.l2, wrap32 h.l3, wrap32 h.l4, wrap32 h.l5, wrap32 h.l6, wrap32 h.l7,
   wrap32 h.l8, wrap32 h.l9⟩

/-! ## Add / Sub / Neg -/

/-- `impl Add for &Fe` (ten checked i32 additions, no carry) -/
def add (f g : Fe) : Option Fe := do
  let h0 ← add32 f.l0 g.l0
  let h1 ← add32 f.l1 g.l1
  let h2 ← add32 f.l2 g.l2
  let h3 ← add32 f.l3 g.l3
  let h4 ← add32 f.l4 g.l4
  let h5 ← add32 f.l5 g.l5
  let h6 ← add32 f.l6 g.l6
  let h7 ← add32 f.l7 g.l7
  let h8 ← add32 f.l8 g.l8
  let h9 ← add32 f.l9 g.l9
  pure ⟨h0, h1, h2, h3, h4, h5, h6, h7, h8, h9⟩

/-- `impl Sub for &Fe` -/
def sub (f g : Fe) : Option Fe := do
  let h0 ← sub32 f.l0 g.l0
  let h1 ← sub32 f.l1 g.l1
  let h2 ← sub32 f.l2 g.l2
  let h3 ← sub32 f.l3 g.l3
  let h4 ← sub32 f.l4 g.l4
  let h5 ← sub32 f.l5 g.l5
  let h6 ← sub32 f.l6 g.l6
  let h7 ← sub32 f.l7 g.l7
  let h8 ← sub32 f.l8 g.l8
  let h9 ← sub32 f.l9 g.l9
  pure ⟨h0, h1, h2, h3, h4, h5, h6, h7, h8, h9⟩

/-- `impl Neg for &Fe` (`-x` on i32 panics for `i32::MIN`) -/
def neg (f : Fe) : Option Fe := do
  let h0 ← neg32 f.l0
  let h1 ← neg32 f.l1
  let h2 ← neg32 f.l2
  let h3 ← neg32 f.l3
  let h4 ← neg32 f.l4
  let h5 ← neg32 f.l5
  let h6 ← neg32 f.l6
  let h7 ← neg32 f.l7
  let h8 ← neg32 f.l8
  let h9 ← neg32 f.l9
  pure ⟨h0, h1, h2, h3, h4, h5, h6, h7, h8, h9⟩

/-- `pub(crate) fn negate_mut(&mut self)`: the same ten negations, in place -/
def negate_mut (f : Fe) : Option Fe := neg f

/-! ## the two carry tails -/

/-- the 12 carries that end `Mul`, `square` and `square_and_double`, then the `as i32` casts -/
def carry_mul (h : Fe) : Option Fe := do
  let h0 := h.l0; let h1 := h.l1; let h2 := h.l2; let h3 := h.l3; let h4 := h.l4
  let h5 := h.l5; let h6 := h.l6; let h7 := h.l7; let h8 := h.l8; let h9 := h.l9
  let (h0, h1) ← carryR 26 h0 h1
  let (h4, h5) ← carryR 26 h4 h5
  let (h1, h2) ← carryR 25 h1 h2
  let (h5, h6) ← carryR 25 h5 h6
  let (h2, h3) ← carryR 26 h2 h3
  let (h6, h7) ← carryR 26 h6 h7
  let (h3, h4) ← carryR 25 h3 h4
  let (h7, h8) ← carryR 25 h7 h8
  let (h4, h5) ← carryR 26 h4 h5
  let (h8, h9) ← carryR 26 h8 h9
  let (h9, h0) ← carryR19 h9 h0
  let (h0, h1) ← carryR 26 h0 h1
  pure (castFe ⟨h0, h1, h2, h3, h4, h5, h6, h7, h8, h9⟩)

/-- the 10 carries that end `from_bytes` and `mul_small`, then the `as i32` casts -/
def carry_par (h : Fe) : Option Fe := do
  let h0 := h.l0; let h1 := h.l1; let h2 := h.l2; let h3 := h.l3; let h4 := h.l4
  let h5 := h.l5; let h6 := h.l6; let h7 := h.l7; let h8 := h.l8; let h9 := h.l9
  let (h9, h0) ← carryR19 h9 h0
  let (h1, h2) ← carryR 25 h1 h2
  let (h3, h4) ← carryR 25 h3 h4
  let (h5, h6) ← carryR 25 h5 h6
  let (h7, h8) ← carryR 25 h7 h8
  let (h0, h1) ← carryR 26 h0 h1
  let (h2, h3) ← carryR 26 h2 h3
  let (h4, h5) ← carryR 26 h4 h5
  let (h6, h7) ← carryR 26 h6 h7
  let (h8, h9) ← carryR 26 h8 h9
  pure (castFe ⟨h0, h1, h2, h3, h4, h5, h6, h7, h8, h9⟩)

/-! ## Mul -/

/-- `impl Mul for &Fe`, first part: the 14 i32 precomputations (checked), the 100 `emul` products and the ten
    column sums (i64, every partial sum checked) -/
def mul_cols (f g : Fe) : Option Fe := do
  let f0 := f.l0; let f1 := f.l1; let f2 := f.l2; let f3 := f.l3; let f4 := f.l4
  let f5 := f.l5; let f6 := f.l6; let f7 := f.l7; let f8 := f.l8; let f9 := f.l9
  let g0 := g.l0; let g1 := g.l1; let g2 := g.l2; let g3 := g.l3; let g4 := g.l4
  let g5 := g.l5; let g6 := g.l6; let g7 := g.l7; let g8 := g.l8; let g9 := g.l9
  let g1_19 ← mul32 19 g1
  let g2_19 ← mul32 19 g2
  let g3_19 ← mul32 19 g3
  let g4_19 ← mul32 19 g4
  let g5_19 ← mul32 19 g5
  let g6_19 ← mul32 19 g6
  let g7_19 ← mul32 19 g7
  let g8_19 ← mul32 19 g8
  let g9_19 ← mul32 19 g9
  let f1_2 ← mul32 2 f1
  let f3_2 ← mul32 2 f3
  let f5_2 ← mul32 2 f5
  let f7_2 ← mul32 2 f7
  let f9_2 ← mul32 2 f9
  let f0g0 := emul f0 g0
  let f0g1 := emul f0 g1
  let f0g2 := emul f0 g2
  let f0g3 := emul f0 g3
  let f0g4 := emul f0 g4
  let f0g5 := emul f0 g5
  let f0g6 := emul f0 g6
  let f0g7 := emul f0 g7
  let f0g8 := emul f0 g8
  let f0g9 := emul f0 g9
  let f1g0 := emul f1 g0
  let f1g1_2 := emul f1_2 g1
  let f1g2 := emul f1 g2
  let f1g3_2 := emul f1_2 g3
  let f1g4 := emul f1 g4
  let f1g5_2 := emul f1_2 g5
  let f1g6 := emul f1 g6
  let f1g7_2 := emul f1_2 g7
  let f1g8 := emul f1 g8
  let f1g9_38 := emul f1_2 g9_19
  let f2g0 := emul f2 g0
  let f2g1 := emul f2 g1
  let f2g2 := emul f2 g2
  let f2g3 := emul f2 g3
  let f2g4 := emul f2 g4
  let f2g5 := emul f2 g5
  let f2g6 := emul f2 g6
  let f2g7 := emul f2 g7
  let f2g8_19 := emul f2 g8_19
  let f2g9_19 := emul f2 g9_19
  let f3g0 := emul f3 g0
  let f3g1_2 := emul f3_2 g1
  let f3g2 := emul f3 g2
  let f3g3_2 := emul f3_2 g3
  let f3g4 := emul f3 g4
  let f3g5_2 := emul f3_2 g5
  let f3g6 := emul f3 g6
  let f3g7_38 := emul f3_2 g7_19
  let f3g8_19 := emul f3 g8_19
  let f3g9_38 := emul f3_2 g9_19
  let f4g0 := emul f4 g0
  let f4g1 := emul f4 g1
  let f4g2 := emul f4 g2
  let f4g3 := emul f4 g3
  let f4g4 := emul f4 g4
  let f4g5 := emul f4 g5
  let f4g6_19 := emul f4 g6_19
  let f4g7_19 := emul f4 g7_19
  let f4g8_19 := emul f4 g8_19
  let f4g9_19 := emul f4 g9_19
  let f5g0 := emul f5 g0
  let f5g1_2 := emul f5_2 g1
  let f5g2 := emul f5 g2
  let f5g3_2 := emul f5_2 g3
  let f5g4 := emul f5 g4
  let f5g5_38 := emul f5_2 g5_19
  let f5g6_19 := emul f5 g6_19
  let f5g7_38 := emul f5_2 g7_19
  let f5g8_19 := emul f5 g8_19
  let f5g9_38 := emul f5_2 g9_19
  let f6g0 := emul f6 g0
  let f6g1 := emul f6 g1
  let f6g2 := emul f6 g2
  let f6g3 := emul f6 g3
  let f6g4_19 := emul f6 g4_19
  let f6g5_19 := emul f6 g5_19
  let f6g6_19 := emul f6 g6_19
  let f6g7_19 := emul f6 g7_19
  let f6g8_19 := emul f6 g8_19
  let f6g9_19 := emul f6 g9_19
  let f7g0 := emul f7 g0
  let f7g1_2 := emul f7_2 g1
  let f7g2 := emul f7 g2
  let f7g3_38 := emul f7_2 g3_19
  let f7g4_19 := emul f7 g4_19
  let f7g5_38 := emul f7_2 g5_19
  let f7g6_19 := emul f7 g6_19
  let f7g7_38 := emul f7_2 g7_19
  let f7g8_19 := emul f7 g8_19
  let f7g9_38 := emul f7_2 g9_19
  let f8g0 := emul f8 g0
  let f8g1 := emul f8 g1
  let f8g2_19 := emul f8 g2_19
  let f8g3_19 := emul f8 g3_19
  let f8g4_19 := emul f8 g4_19
  let f8g5_19 := emul f8 g5_19
  let f8g6_19 := emul f8 g6_19
  let f8g7_19 := emul f8 g7_19
  let f8g8_19 := emul f8 g8_19
  let f8g9_19 := emul f8 g9_19
  let f9g0 := emul f9 g0
  let f9g1_38 := emul f9_2 g1_19
  let f9g2_19 := emul f9 g2_19
  let f9g3_38 := emul f9_2 g3_19
  let f9g4_19 := emul f9 g4_19
  let f9g5_38 := emul f9_2 g5_19
  let f9g6_19 := emul f9 g6_19
  let f9g7_38 := emul f9_2 g7_19
  let f9g8_19 := emul f9 g8_19
  let f9g9_38 := emul f9_2 g9_19
  let h0 ← sum64 [f0g0, f1g9_38, f2g8_19, f3g7_38, f4g6_19, f5g5_38, f6g4_19, f7g3_38, f8g2_19, f9g1_38]
  let h1 ← sum64 [f0g1, f1g0, f2g9_19, f3g8_19, f4g7_19, f5g6_19, f6g5_19, f7g4_19, f8g3_19, f9g2_19]
  let h2 ← sum64 [f0g2, f1g1_2, f2g0, f3g9_38, f4g8_19, f5g7_38, f6g6_19, f7g5_38, f8g4_19, f9g3_38]
  let h3 ← sum64 [f0g3, f1g2, f2g1, f3g0, f4g9_19, f5g8_19, f6g7_19, f7g6_19, f8g5_19, f9g4_19]
  let h4 ← sum64 [f0g4, f1g3_2, f2g2, f3g1_2, f4g0, f5g9_38, f6g8_19, f7g7_38, f8g6_19, f9g5_38]
  let h5 ← sum64 [f0g5, f1g4, f2g3, f3g2, f4g1, f5g0, f6g9_19, f7g8_19, f8g7_19, f9g6_19]
  let h6 ← sum64 [f0g6, f1g5_2, f2g4, f3g3_2, f4g2, f5g1_2, f6g0, f7g9_38, f8g8_19, f9g7_38]
  let h7 ← sum64 [f0g7, f1g6, f2g5, f3g4, f4g3, f5g2, f6g1, f7g0, f8g9_19, f9g8_19]
  let h8 ← sum64 [f0g8, f1g7_2, f2g6, f3g5_2, f4g4, f5g3_2, f6g2, f7g1_2, f8g0, f9g9_38]
  let h9 ← sum64 [f0g9, f1g8, f2g7, f3g6, f4g5, f5g4, f6g3, f7g2, f8g1, f9g0]
  pure ⟨h0, h1, h2, h3, h4, h5, h6, h7, h8, h9⟩

/-- `impl Mul for &Fe` -/
def mul (f g : Fe) : Option Fe := do
  let h ← mul_cols f g
  carry_mul h

/-- `pub const fn mul_small<const S0: u32>(&self) -> Fe`: `(f[i] as i64) * (S0 as i64)` checked, then `carry_par` -/
def mul_small (f : Fe) (S0 : Nat) : Option Fe := do
  let s0 : Int := ((S0 % 2^32 : Nat) : Int)          -- `S0: u32`, `S0 as i64`
  let h0 ← mul64 f.l0 s0
  let h1 ← mul64 f.l1 s0
  let h2 ← mul64 f.l2 s0
  let h3 ← mul64 f.l3 s0
  let h4 ← mul64 f.l4 s0
  let h5 ← mul64 f.l5 s0
  let h6 ← mul64 f.l6 s0
  let h7 ← mul64 f.l7 s0
  let h8 ← mul64 f.l8 s0
  let h9 ← mul64 f.l9 s0
  carry_par ⟨h0, h1, h2, h3, h4, h5, h6, h7, h8, h9⟩

/-! ## square -/

/-- the 13 i32 precomputations, the 55 products and the ten column sums of `square` / `square_and_double` -/
def sq_cols (f : Fe) : Option Fe := do
  let f0 := f.l0; let f1 := f.l1; let f2 := f.l2; let f3 := f.l3; let f4 := f.l4
  let f5 := f.l5; let f6 := f.l6; let f7 := f.l7; let f8 := f.l8; let f9 := f.l9
  let f0_2 ← mul32 2 f0
  let f1_2 ← mul32 2 f1
  let f2_2 ← mul32 2 f2
  let f3_2 ← mul32 2 f3
  let f4_2 ← mul32 2 f4
  let f5_2 ← mul32 2 f5
  let f6_2 ← mul32 2 f6
  let f7_2 ← mul32 2 f7
  let f5_38 ← mul32 38 f5
  let f6_19 ← mul32 19 f6
  let f7_38 ← mul32 38 f7
  let f8_19 ← mul32 19 f8
  let f9_38 ← mul32 38 f9
  let f0f0 := emul f0 f0
  let f0f1_2 := emul f0_2 f1
  let f0f2_2 := emul f0_2 f2
  let f0f3_2 := emul f0_2 f3
  let f0f4_2 := emul f0_2 f4
  let f0f5_2 := emul f0_2 f5
  let f0f6_2 := emul f0_2 f6
  let f0f7_2 := emul f0_2 f7
  let f0f8_2 := emul f0_2 f8
  let f0f9_2 := emul f0_2 f9
  let f1f1_2 := emul f1_2 f1
  let f1f2_2 := emul f1_2 f2
  let f1f3_4 := emul f1_2 f3_2
  let f1f4_2 := emul f1_2 f4
  let f1f5_4 := emul f1_2 f5_2
  let f1f6_2 := emul f1_2 f6
  let f1f7_4 := emul f1_2 f7_2
  let f1f8_2 := emul f1_2 f8
  let f1f9_76 := emul f1_2 f9_38
  let f2f2 := emul f2 f2
  let f2f3_2 := emul f2_2 f3
  let f2f4_2 := emul f2_2 f4
  let f2f5_2 := emul f2_2 f5
  let f2f6_2 := emul f2_2 f6
  let f2f7_2 := emul f2_2 f7
  let f2f8_38 := emul f2_2 f8_19
  let f2f9_38 := emul f2 f9_38
  let f3f3_2 := emul f3_2 f3
  let f3f4_2 := emul f3_2 f4
  let f3f5_4 := emul f3_2 f5_2
  let f3f6_2 := emul f3_2 f6
  let f3f7_76 := emul f3_2 f7_38
  let f3f8_38 := emul f3_2 f8_19
  let f3f9_76 := emul f3_2 f9_38
  let f4f4 := emul f4 f4
  let f4f5_2 := emul f4_2 f5
  let f4f6_38 := emul f4_2 f6_19
  let f4f7_38 := emul f4 f7_38
  let f4f8_38 := emul f4_2 f8_19
  let f4f9_38 := emul f4 f9_38
  let f5f5_38 := emul f5 f5_38
  let f5f6_38 := emul f5_2 f6_19
  let f5f7_76 := emul f5_2 f7_38
  let f5f8_38 := emul f5_2 f8_19
  let f5f9_76 := emul f5_2 f9_38
  let f6f6_19 := emul f6 f6_19
  let f6f7_38 := emul f6 f7_38
  let f6f8_38 := emul f6_2 f8_19
  let f6f9_38 := emul f6 f9_38
  let f7f7_38 := emul f7 f7_38
  let f7f8_38 := emul f7_2 f8_19
  let f7f9_76 := emul f7_2 f9_38
  let f8f8_19 := emul f8 f8_19
  let f8f9_38 := emul f8 f9_38
  let f9f9_38 := emul f9 f9_38
  let h0 ← sum64 [f0f0, f1f9_76, f2f8_38, f3f7_76, f4f6_38, f5f5_38]
  let h1 ← sum64 [f0f1_2, f2f9_38, f3f8_38, f4f7_38, f5f6_38]
  let h2 ← sum64 [f0f2_2, f1f1_2, f3f9_76, f4f8_38, f5f7_76, f6f6_19]
  let h3 ← sum64 [f0f3_2, f1f2_2, f4f9_38, f5f8_38, f6f7_38]
  let h4 ← sum64 [f0f4_2, f1f3_4, f2f2, f5f9_76, f6f8_38, f7f7_38]
  let h5 ← sum64 [f0f5_2, f1f4_2, f2f3_2, f6f9_38, f7f8_38]
  let h6 ← sum64 [f0f6_2, f1f5_4, f2f4_2, f3f3_2, f7f9_76, f8f8_19]
  let h7 ← sum64 [f0f7_2, f1f6_2, f2f5_2, f3f4_2, f8f9_38]
  let h8 ← sum64 [f0f8_2, f1f7_4, f2f6_2, f3f5_4, f4f4, f9f9_38]
  let h9 ← sum64 [f0f9_2, f1f8_2, f2f7_2, f3f6_2, f4f5_2]
  pure ⟨h0, h1, h2, h3, h4, h5, h6, h7, h8, h9⟩

/-- `pub fn square(&self) -> Fe` -/
def square (f : Fe) : Option Fe := do
  let h ← sq_cols f
  carry_mul h

/-- `pub fn square_repeatdly(&self, n: usize) -> Fe`: `acc = self.clone(); for _ in 0..n { acc = acc.square() }` -/
def square_repeatdly (f : Fe) : Nat → Option Fe
  | 0 => some f
  | n + 1 => match square f with
    | none => none
    | some g => square_repeatdly g n

/-- `pub fn square_and_double(&self) -> Fe`: the columns of `square`, `h_i += h_i` (checked), `carry_mul` -/
def square_and_double (f : Fe) : Option Fe := do
  let h ← sq_cols f
  let h0 := h.l0; let h1 := h.l1; let h2 := h.l2; let h3 := h.l3; let h4 := h.l4
  let h5 := h.l5; let h6 := h.l6; let h7 := h.l7; let h8 := h.l8; let h9 := h.l9
  let h0 ← add64 h0 h0
  let h1 ← add64 h1 h1
  let h2 ← add64 h2 h2
  let h3 ← add64 h3 h3
  let h4 ← add64 h4 h4
  let h5 ← add64 h5 h5
  let h6 ← add64 h6 h6
  let h7 ← add64 h7 h7
  let h8 ← add64 h8 h8
  let h9 ← add64 h9 h9
  carry_mul ⟨h0, h1, h2, h3, h4, h5, h6, h7, h8, h9⟩

/-! ## bytes -/

/-- `load_3u(s)` / `load_3i(s)` of fe/load.rs on `s = b[i..i+3]` (`u64` OR of shifted bytes, `as i64` of a value < 2^24) -/
def load_3i (b : Bytes) (h : b.length = 32) (i : Nat) (hi : i + 2 < 32) : Int :=
  (((b[i]'(by omega)).toNat ||| ((b[i + 1]'(by omega)).toNat <<< 8) ||| ((b[i + 2]'(by omega)).toNat <<< 16) : Nat) : Int)

/-- `load_4u(s)` / `load_4i(s)` on `s = b[i..i+4]` (value < 2^32, so `as i64` is the identity) -/
def load_4i (b : Bytes) (h : b.length = 32) (i : Nat) (hi : i + 3 < 32) : Int :=
  (((b[i]'(by omega)).toNat ||| ((b[i + 1]'(by omega)).toNat <<< 8) ||| ((b[i + 2]'(by omega)).toNat <<< 16)
    ||| ((b[i + 3]'(by omega)).toNat <<< 24) : Nat) : Int)

/-- `pub fn from_bytes(s: &[u8; 32]) -> Fe`: ten loads (`<<` on i64 wraps — never: the values are < 2^31),
    `& 8388607` on the top load (bit 255 ignored), then `carry_par` -/
def from_bytes (b : Bytes) (h : b.length = 32) : Option Fe :=
  let h0 := load_4i b h 0 (by omega)
  let h1 := shl64 (load_3i b h 4 (by omega)) 6
  let h2 := shl64 (load_3i b h 7 (by omega)) 5
  let h3 := shl64 (load_3i b h 10 (by omega)) 3
  let h4 := shl64 (load_3i b h 13 (by omega)) 2
  let h5 := load_4i b h 16 (by omega)
  let h6 := shl64 (load_3i b h 20 (by omega)) 7
  let h7 := shl64 (load_3i b h 23 (by omega)) 5
  let h8 := shl64 (load_3i b h 26 (by omega)) 4
  let h9 := shl64 (load_3i b h 29 (by omega) % 2^23) 2      -- `& 8388607`
  carry_par ⟨h0, h1, h2, h3, h4, h5, h6, h7, h8, h9⟩

/-- `from_bytes` for an untyped byte string (the `[u8; 32]` type is the length test) -/
def fromBytes (b : Bytes) : Option Fe :=
  if h : b.length = 32 then from_bytes b h else none

/-- one plain carry of `to_bytes` on i32 limbs: `carry = h >> k; hn += carry; h -= carry << k;` — returns `(h, hn)` -/
def carryF32 (k : Nat) (h hn : Int) : Option (Int × Int) := do
  let carry := shr h k
  let hn ← add32 hn carry
  let h ← sub32 h (shl32 carry k)
  pure (h, hn)

/-- `q = (h_i + q) >> k` of `to_bytes` -/
def qstep (k : Nat) (h q : Int) : Option Int := do
  let t ← add32 h q
  pure (shr t k)

/-- `pub fn to_bytes(&self) -> [u8; 32]`, first part: the estimate of `q = ⌊h/p⌋`, `h0 += 19 q`, the ten plain
    carries (the last carry is dropped) — all on i32 -/
def to_bytes_limbs (f : Fe) : Option Fe := do
  let h0 := f.l0; let h1 := f.l1; let h2 := f.l2; let h3 := f.l3; let h4 := f.l4
  let h5 := f.l5; let h6 := f.l6; let h7 := f.l7; let h8 := f.l8; let h9 := f.l9
  let a ← mul32 19 h9
  let a ← add32 a (2^24)
  let q := shr a 25
  let q ← qstep 26 h0 q
  let q ← qstep 25 h1 q
  let q ← qstep 26 h2 q
  let q ← qstep 25 h3 q
  let q ← qstep 26 h4 q
  let q ← qstep 25 h5 q
  let q ← qstep 26 h6 q
  let q ← qstep 25 h7 q
  let q ← qstep 26 h8 q
  let q ← qstep 25 h9 q
  let q19 ← mul32 19 q
  let h0 ← add32 h0 q19
  let (h0, h1) ← carryF32 26 h0 h1
  let (h1, h2) ← carryF32 25 h1 h2
  let (h2, h3) ← carryF32 26 h2 h3
  let (h3, h4) ← carryF32 25 h3 h4
  let (h4, h5) ← carryF32 26 h4 h5
  let (h5, h6) ← carryF32 25 h5 h6
  let (h6, h7) ← carryF32 26 h6 h7
  let (h7, h8) ← carryF32 25 h7 h8
  let (h8, h9) ← carryF32 26 h8 h9
  let carry9 := shr h9 25
  let h9 ← sub32 h9 (shl32 carry9 25)
  pure ⟨h0, h1, h2, h3, h4, h5, h6, h7, h8, h9⟩

/-- second part of `to_bytes`: the 32 output bytes (`>>` arithmetic, `<<` wrapping, `|`, `as u8`) -/
def pack (h : Fe) : Bytes :=
  let h0 := h.l0; let h1 := h.l1; let h2 := h.l2; let h3 := h.l3; let h4 := h.l4
  let h5 := h.l5; let h6 := h.l6; let h7 := h.l7; let h8 := h.l8; let h9 := h.l9
  [ u8of (shr h0 0),
    u8of (shr h0 8),
    u8of (shr h0 16),
    u8or (shr h0 24) (shl32 h1 2),
    u8of (shr h1 6),
    u8of (shr h1 14),
    u8or (shr h1 22) (shl32 h2 3),
    u8of (shr h2 5),
    u8of (shr h2 13),
    u8or (shr h2 21) (shl32 h3 5),
    u8of (shr h3 3),
    u8of (shr h3 11),
    u8or (shr h3 19) (shl32 h4 6),
    u8of (shr h4 2),
    u8of (shr h4 10),
    u8of (shr h4 18),
    u8of (shr h5 0),
    u8of (shr h5 8),
    u8of (shr h5 16),
    u8or (shr h5 24) (shl32 h6 1),
    u8of (shr h6 7),
    u8of (shr h6 15),
    u8or (shr h6 23) (shl32 h7 3),
    u8of (shr h7 5),
    u8of (shr h7 13),
    u8or (shr h7 21) (shl32 h8 4),
    u8of (shr h8 4),
    u8of (shr h8 12),
    u8or (shr h8 20) (shl32 h9 6),
    u8of (shr h9 2),
    u8of (shr h9 10),
    u8of (shr h9 18) ]

/-- `pub fn to_bytes(&self) -> [u8; 32]` -/
def to_bytes (f : Fe) : Option Bytes := do
  let h ← to_bytes_limbs f
  pure (pack h)

/-- `pub fn is_nonzero(&self) -> bool { CtEqual::ct_ne(&self.to_bytes(), &[0; 32]).into() }` -/
def is_nonzero (f : Fe) : Option Bool := do
  let b ← to_bytes f
  pure (CT.array_u8_ct_ne b (zeros 32)).isTrue

/-- `pub fn is_negative(&self) -> bool { (self.to_bytes()[0] & 1) != 0 }` -/
def is_negative (f : Fe) : Option Bool := do
  let b ← to_bytes f
  match b with
  | b0 :: _ => pure ((b0 &&& 1) != 0)
  | [] => none

/-- `impl CtEqual for &Fe` (after fix h): `ct_eq` of the two canonical encodings -/
def ct_eq (f g : Fe) : Option CT.Choice := do
  let p1 ← to_bytes f
  let p2 ← to_bytes g
  pure (CT.array_u8_ct_eq p1 p2)

/-- `impl PartialEq for Fe` -/
def eq (f g : Fe) : Option Bool := do
  let c ← ct_eq f g
  pure c.isTrue

/-- the ORIGINAL `impl PartialEq for Fe` (before fix dbb08a7): limb-wise comparison of the two arrays
    (kept for the witness theorem `original_eq_not_value_equality`) -/
def eqOld (f g : Fe) : Bool := f.toList == g.toList

/-- the `u32` bit pattern of an `i32` and back -/
def toU32 (x : Int) : UInt32 := UInt32.ofNat (x % 2^32).toNat
def ofU32 (w : UInt32) : Int := wrap32 (w.toNat : Int)
def Fe.toWords (f : Fe) : List UInt32 := f.toList.map toU32
def Fe.ofWords (w : List UInt32) : Fe := Fe.ofList (w.map ofU32)

/-- `pub(crate) fn maybe_swap_with(&mut self, rhs: &mut Fe, do_swap: Choice)` -/
def maybe_swap_with (f g : Fe) (do_swap : CT.Choice) : Fe × Fe :=
  let r := CT.ct_array32_maybe_swap_with f.toWords g.toWords do_swap
  (Fe.ofWords r.1, Fe.ofWords r.2)

/-- `pub(crate) fn maybe_set(&mut self, rhs: &Fe, do_swap: Choice)` -/
def maybe_set (f g : Fe) (do_swap : CT.Choice) : Fe :=
  Fe.ofWords (CT.ct_array32_maybe_set f.toWords g.toWords do_swap)

/-! ## fe/mod.rs: addition chains (shared source with the 64-bit backend) -/

/-- the common prefix of `pow25523` and `invert` up to `z_250_0`; returns `(z11, z_250_0)` -/
def chain250 (z1 : Fe) : Option (Fe × Fe) := do
  let z2 ← square z1
  let z8 ← square_repeatdly z2 2
  let z9 ← mul z1 z8
  let z11 ← mul z2 z9
  let z22 ← square z11
  let z_5_0 ← mul z9 z22
  let z_10_5 ← square_repeatdly z_5_0 5
  let z_10_0 ← mul z_10_5 z_5_0
  let z_20_10 ← square_repeatdly z_10_0 10
  let z_20_0 ← mul z_20_10 z_10_0
  let z_40_20 ← square_repeatdly z_20_0 20
  let z_40_0 ← mul z_40_20 z_20_0
  let z_50_10 ← square_repeatdly z_40_0 10
  let z_50_0 ← mul z_50_10 z_10_0
  let z_100_50 ← square_repeatdly z_50_0 50
  let z_100_0 ← mul z_100_50 z_50_0
  let z_200_100 ← square_repeatdly z_100_0 100
  let z_200_0 ← mul z_200_100 z_100_0
  let z_250_50 ← square_repeatdly z_200_0 50
  let z_250_0 ← mul z_250_50 z_50_0
  pure (z11, z_250_0)

/-- `pub fn pow25523(&self) -> Fe` -/
def pow25523 (z : Fe) : Option Fe := do
  let (_, z_250_0) ← chain250 z
  let z_252_2 ← square_repeatdly z_250_0 2
  mul z_252_2 z

/-- `pub fn invert(&self) -> Fe` -/
def invert (z : Fe) : Option Fe := do
  let (z11, z_250_0) ← chain250 z
  let z_255_5 ← square_repeatdly z_250_0 5
  mul z_255_5 z11

end Cx.Impl.Fe32
