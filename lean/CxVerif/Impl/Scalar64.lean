/-
  Impl.Scalar64 — code-shaped model of /repo/src/curve25519/scalar/scalar64.rs (64-bit backend of the
  arithmetic modulo the Ed25519 group order; port of ed25519-donna modm-donna-64bit.h) and of
  `Scalar::slide` in /repo/src/curve25519/scalar/mod.rs.

  One `def` per Rust fn, same names, same statement order.  `u64`/`u128` values are `Nat`; EVERY machine
  truncation is written out:
    * wrapping ops      `wsub64`, `wadd64`                      (`wrapping_sub`, `wrapping_add`)
    * shifts            `shl64 a k = (a <<< k) % 2^64`, `shr64`  (`<<` drops the bits shifted out, never panics for k < 64)
    * casts             `asU64 c = c % 2^64`, `shr128 v s = (v >>> s) % 2^64`   (`as u64`)
    * bit ops           `&&&`, `|||`, `^^^` on Nat
    * checked ops       plain `+` on u64 / u128 panics on overflow in a checked build: `ck64` / `ck128` return
                        `none` (= PANIC) when the mathematical result does not fit.  A left-to-right sum of
                        non-negative terms overflows somewhere iff its total overflows, so one check per
                        Rust statement is exact.  "No overflow" is therefore the theorem `f … = some …`.
    * `mul128 a b = a * b` never overflows (u64 × u64 fits u128).
  Fixed-size byte arrays `[u8; N]` are `Vector UInt8 N` (indexing with constant offsets cannot fail, as in Rust).
  `i8` digit arrays are `Int` values; `i8` arithmetic of `slide` is checked (`ckI8`).

  -- API:
  --   Cx.Impl.Scalar64.Scalar                 : Type       structure l0..l4 : Nat   (`Scalar([u64; 5])`, 56-bit limbs)
  --   Cx.Impl.Scalar64.Scalar.val             : Scalar → Nat    Σ l_i·2^(56 i)   (denotation used by the theorems)
  --   Cx.Impl.Scalar64.ZERO / ONE             : Scalar
  --   Cx.Impl.Scalar64.from_bytes             : Vector UInt8 32 → Scalar
  --   Cx.Impl.Scalar64.from_bytes_canonical   : Vector UInt8 32 → Option (Option Scalar)   outer none = PANIC (never: theorem)
  --   Cx.Impl.Scalar64.to_bytes               : Scalar → Bytes                             (32 bytes)
  --   Cx.Impl.Scalar64.reduce_from_wide_bytes : Vector UInt8 64 → Option Scalar            none = PANIC (never: theorem)
  --   Cx.Impl.Scalar64.add / mul              : Scalar → Scalar → Option Scalar            none = PANIC
  --   Cx.Impl.Scalar64.muladd                 : Scalar → Scalar → Scalar → Option Scalar   (a*b + c)
  --   Cx.Impl.Scalar64.bits / nibbles         : Scalar → List Int                          (256 bits / 64 nibbles)
  --   Cx.Impl.Scalar64.slide                  : Scalar → Option (List Int)                 none = PANIC
  --   list-based convenience wrappers (length check = Rust's `try_from(..).unwrap()`):
  --   Cx.Impl.Scalar64.fromBytes : Bytes → Option Scalar,  fromBytesCanonical : Bytes → Option (Option Scalar),
  --   toBytes : Scalar → Bytes,  reduceFromWideBytes : Bytes → Option Scalar   (none = wrong length or PANIC)
-/
import CxVerif.Util.Bytes
import CxVerif.Extracted.Scalar64
namespace Cx.Impl.Scalar64
open Cx

/-! ### machine arithmetic on `Nat` -/

/-- checked u64 result: `none` = overflow panic -/
def ck64 (v : Nat) : Option Nat := if v < 2 ^ 64 then some v else none
/-- checked u128 result -/
def ck128 (v : Nat) : Option Nat := if v < 2 ^ 128 then some v else none
/-- `a.wrapping_sub(b)` on u64 (for `a, b < 2^64`) -/
def wsub64 (a b : Nat) : Nat := (a + 2 ^ 64 - b) % 2 ^ 64
/-- `a.wrapping_add(b)` on u64 -/
def wadd64 (a b : Nat) : Nat := (a + b) % 2 ^ 64
/-- `a << k` on u64 (`k < 64`): bits shifted out are dropped -/
def shl64 (a k : Nat) : Nat := (a <<< k) % 2 ^ 64
/-- `a >> k` on u64 -/
def shr64 (a k : Nat) : Nat := a >>> k
/-- `a >> k` on u128 (`k < 128`; every shift amount in scalar64.rs is a literal ≤ 56) -/
def shrU128 (a k : Nat) : Nat := a >>> k
/-- `c as u64` for a u128 -/
def asU64 (c : Nat) : Nat := c % 2 ^ 64
/-- `const fn mul128(a: u64, b: u64) -> u128 { a as u128 * b as u128 }` -/
def mul128 (a b : Nat) : Nat := a * b
/-- `const fn shr128(value: u128, shift: usize) -> u64 { (value >> shift) as u64 }` -/
def shr128 (value shift : Nat) : Nat := (value >>> shift) % 2 ^ 64

/-! ### constants (from `Extracted/Scalar64.lean`, regenerated from the source on every run) -/

def MASK16 : Nat := Extracted.Scalar64.MASK16
def MASK40 : Nat := Extracted.Scalar64.MASK40
def MASK56 : Nat := Extracted.Scalar64.MASK56

/-- `pub struct Scalar([u64; 5])`; also used for the bare `[u64; 5]` arrays of the private functions -/
structure Scalar where
  l0 : Nat
  l1 : Nat
  l2 : Nat
  l3 : Nat
  l4 : Nat
  deriving DecidableEq, Repr, Inhabited

/-- the integer a limb vector denotes: `Σ l_i · 2^(56 i)` -/
def Scalar.val (s : Scalar) : Nat :=
  s.l0 + s.l1 * 2 ^ 56 + s.l2 * 2 ^ 112 + s.l3 * 2 ^ 168 + s.l4 * 2 ^ 224

/-- a `[u64; 5]` table of the source as a limb vector (fails to build if the table has not 5 entries) -/
def ofTable (t : List Nat) (h : t.length = 5) : Scalar :=
  ⟨t[0], t[1], t[2], t[3], t[4]⟩

/-- `const M: [u64; 5]` — the order L -/
def M : Scalar := ofTable Extracted.Scalar64.M (by decide)
/-- `const MU: [u64; 5]` — the Barrett constant -/
def MU : Scalar := ofTable Extracted.Scalar64.MU (by decide)
/-- `Scalar::ZERO` -/
def ZERO : Scalar := ofTable Extracted.Scalar64.ZERO (by decide)
/-- `Scalar::ONE` -/
def ONE : Scalar := ofTable Extracted.Scalar64.ONE (by decide)

/-! ### comparison with the order -/

/-- `const fn lt(a: u64, b: u64) -> u64 { (a.wrapping_sub(b)) >> 63 }` -/
def lt (a b : Nat) : Nat := shr64 (wsub64 a b) 63

/-- `const fn lt_order(v: &[u64; 5]) -> bool` -/
def lt_order (v : Scalar) : Option Bool := do
  let b := lt v.l0 M.l0
  let b := lt v.l1 (← ck64 (b + M.l1))
  let b := lt v.l2 (← ck64 (b + M.l2))
  let b := lt v.l3 (← ck64 (b + M.l3))
  let b := lt v.l4 (← ck64 (b + M.l4))
  pure (b == 1)

/-- `const fn reduce256(mut r: [u64; 5]) -> [u64;5]`: one conditional subtraction of M -/
def reduce256 (r : Scalar) : Option Scalar := do
  -- t = r - m
  let b := lt r.l0 M.l0
  let t0 := wadd64 (wsub64 r.l0 M.l0) (shl64 b 56)
  let pb ← ck64 (b + M.l1)
  let b := lt r.l1 pb
  let t1 := wadd64 (wsub64 r.l1 pb) (shl64 b 56)
  let pb ← ck64 (b + M.l2)
  let b := lt r.l2 pb
  let t2 := wadd64 (wsub64 r.l2 pb) (shl64 b 56)
  let pb ← ck64 (b + M.l3)
  let b := lt r.l3 pb
  let t3 := wadd64 (wsub64 r.l3 pb) (shl64 b 56)
  let pb ← ck64 (b + M.l4)
  let b := lt r.l4 pb
  let t4 := wadd64 (wsub64 r.l4 pb) (shl64 b 32)
  -- keep r if r was smaller than m
  let mask := wsub64 b 1
  pure ⟨r.l0 ^^^ (mask &&& (r.l0 ^^^ t0)),
        r.l1 ^^^ (mask &&& (r.l1 ^^^ t1)),
        r.l2 ^^^ (mask &&& (r.l2 ^^^ t2)),
        r.l3 ^^^ (mask &&& (r.l3 ^^^ t3)),
        r.l4 ^^^ (mask &&& (r.l4 ^^^ t4))⟩

/-! ### bytes -/

/-- `load` of `from_bytes`: 8 bytes at `ofs`, little endian, as the OR of shifted bytes -/
def load32 (bytes : Vector UInt8 32) (ofs : Nat) (h : ofs + 7 < 32) : Nat :=
  (bytes[ofs]).toNat
    ||| shl64 (bytes[ofs + 1]).toNat 8
    ||| shl64 (bytes[ofs + 2]).toNat 16
    ||| shl64 (bytes[ofs + 3]).toNat 24
    ||| shl64 (bytes[ofs + 4]).toNat 32
    ||| shl64 (bytes[ofs + 5]).toNat 40
    ||| shl64 (bytes[ofs + 6]).toNat 48
    ||| shl64 (bytes[ofs + 7]).toNat 56

/-- `pub const fn from_bytes(bytes: &[u8; 32]) -> Self` -/
def from_bytes (bytes : Vector UInt8 32) : Scalar :=
  let x0 := load32 bytes 0 (by decide)
  let x1 := load32 bytes 8 (by decide)
  let x2 := load32 bytes 16 (by decide)
  let x3 := load32 bytes 24 (by decide)
  let out0 := x0 &&& MASK56
  let out1 := (shr64 x0 56 ||| shl64 x1 8) &&& MASK56
  let out2 := (shr64 x1 48 ||| shl64 x2 16) &&& MASK56
  let out3 := (shr64 x2 40 ||| shl64 x3 24) &&& MASK56
  let out4 := shr64 x3 32
  ⟨out0, out1, out2, out3, out4⟩

/-- `pub fn from_bytes_canonical(bytes: &[u8; 32]) -> Option<Self>`; the outer `Option` is the panic channel -/
def from_bytes_canonical (bytes : Vector UInt8 32) : Option (Option Scalar) := do
  let scalar := from_bytes bytes
  if (← lt_order scalar) then pure (some scalar) else pure none

/-- `u64::to_le_bytes` -/
def to_le_bytes (x : Nat) : Bytes := natToLE 8 x

/-- `pub const fn to_bytes(&self) -> [u8; 32]` -/
def to_bytes (s : Scalar) : Bytes :=
  -- contract limbs into saturated limbs
  let c0 := shl64 s.l1 56 ||| s.l0
  let c1 := shl64 s.l2 48 ||| shr64 s.l1 8
  let c2 := shl64 s.l3 40 ||| shr64 s.l2 16
  let c3 := shl64 s.l4 32 ||| shr64 s.l3 24
  to_le_bytes c0 ++ to_le_bytes c1 ++ to_le_bytes c2 ++ to_le_bytes c3

/-- the four saturated words `c[0..4]` of `bits` / `nibbles` -/
def contract (s : Scalar) : Vector Nat 4 :=
  #v[shl64 s.l1 56 ||| s.l0, shl64 s.l2 48 ||| shr64 s.l1 8,
     shl64 s.l3 40 ||| shr64 s.l2 16, shl64 s.l4 32 ||| shr64 s.l3 24]

/-- `pub(crate) fn bits(&self) -> [i8; 256]` -/
def bits (s : Scalar) : Vector Int 256 :=
  let c := contract s
  Vector.ofFn fun (i : Fin 256) =>
    ((1 &&& shr64 (c[i.val >>> 6]'(by have := i.isLt; simp only [Nat.shiftRight_eq_div_pow]; omega)) (i.val &&& 0x3f) : Nat) : Int)

/-- `pub(crate) fn nibbles(&self) -> [i8; 64]`; entry `16*b + k` is `(c[b] >> 4k) & 0b1111` -/
def nibbles (s : Scalar) : Vector Int 64 :=
  let c := contract s
  Vector.ofFn fun (i : Fin 64) =>
    ((shr64 (c[i.val / 16]'(by have := i.isLt; omega)) (4 * (i.val % 16)) &&& 0b1111 : Nat) : Int)

/-! ### Barrett reduction -/

/-- `const fn barrett_reduce256(q1: &[u64; 5], r1: &[u64; 5]) -> [u64; 5]`
    (`q1 = x >> 248`, `r1 = x mod 2^264` of the 512-bit `x`) -/
def barrett_reduce256 (q1 r1 : Scalar) : Option Scalar := do
  -- q3 = (mu * q1) >> 264   (columns 0..2 of the product are not computed)
  let c ← ck128 (mul128 MU.l0 q1.l3 + mul128 MU.l3 q1.l0 + mul128 MU.l1 q1.l2 + mul128 MU.l2 q1.l1)
  let f := shr128 c 56
  let c ← ck128 (mul128 MU.l0 q1.l4 + f + mul128 MU.l4 q1.l0 + mul128 MU.l3 q1.l1 + mul128 MU.l1 q1.l3 + mul128 MU.l2 q1.l2)
  let f := asU64 c
  let q30 := shr64 f 40 &&& MASK16
  let f := shr128 c 56
  let c ← ck128 (mul128 MU.l4 q1.l1 + f + mul128 MU.l1 q1.l4 + mul128 MU.l2 q1.l3 + mul128 MU.l3 q1.l2)
  let f := asU64 c
  let q30 := q30 ||| (shl64 f 16 &&& MASK56)
  let q31 := shr64 f 40 &&& MASK16
  let f := shr128 c 56
  let c ← ck128 (mul128 MU.l4 q1.l2 + f + mul128 MU.l2 q1.l4 + mul128 MU.l3 q1.l3)
  let f := asU64 c
  let q31 := q31 ||| (shl64 f 16 &&& MASK56)
  let q32 := shr64 f 40 &&& MASK16
  let f := shr128 c 56
  let c ← ck128 (mul128 MU.l4 q1.l3 + f + mul128 MU.l3 q1.l4)
  let f := asU64 c
  let q32 := q32 ||| (shl64 f 16 &&& MASK56)
  let q33 := shr64 f 40 &&& MASK16
  let f := shr128 c 56
  let c ← ck128 (mul128 MU.l4 q1.l4 + f)
  let f := asU64 c
  let q33 := q33 ||| (shl64 f 16 &&& MASK56)
  let q34 := shr64 f 40 &&& MASK16
  let f := shr128 c 56
  let q34 := q34 ||| shl64 f 16
  -- r2 = (q3 * m) mod 2^264
  let c := mul128 M.l0 q30
  let r20 := asU64 c &&& MASK56
  let f := shr128 c 56
  let c ← ck128 (mul128 M.l0 q31 + f + mul128 M.l1 q30)
  let r21 := asU64 c &&& MASK56
  let f := shr128 c 56
  let c ← ck128 (mul128 M.l0 q32 + f + mul128 M.l2 q30 + mul128 M.l1 q31)
  let r22 := asU64 c &&& MASK56
  let f := shr128 c 56
  let c ← ck128 (mul128 M.l0 q33 + f + mul128 M.l3 q30 + mul128 M.l1 q32 + mul128 M.l2 q31)
  let r23 := asU64 c &&& MASK56
  let f := shr128 c 56
  let c ← ck128 (mul128 M.l0 q34 + f + mul128 M.l4 q30 + mul128 M.l3 q31 + mul128 M.l1 q33 + mul128 M.l2 q32)
  let r24 := asU64 c &&& MASK40
  -- out = (r1 - r2) mod 2^264
  let pb ← ck64 (0 + r20)
  let b := lt r1.l0 pb
  let out0 := wadd64 (wsub64 r1.l0 pb) (shl64 b 56)
  let pb ← ck64 (b + r21)
  let b := lt r1.l1 pb
  let out1 := wadd64 (wsub64 r1.l1 pb) (shl64 b 56)
  let pb ← ck64 (b + r22)
  let b := lt r1.l2 pb
  let out2 := wadd64 (wsub64 r1.l2 pb) (shl64 b 56)
  let pb ← ck64 (b + r23)
  let b := lt r1.l3 pb
  let out3 := wadd64 (wsub64 r1.l3 pb) (shl64 b 56)
  let pb ← ck64 (b + r24)
  let b := lt r1.l4 pb
  let out4 := wadd64 (wsub64 r1.l4 pb) (shl64 b 40)
  let out ← reduce256 ⟨out0, out1, out2, out3, out4⟩
  reduce256 out

/-- `load` of `reduce_from_wide_bytes` -/
def load64 (bytes : Vector UInt8 64) (ofs : Nat) (h : ofs + 7 < 64) : Nat :=
  (bytes[ofs]).toNat
    ||| shl64 (bytes[ofs + 1]).toNat 8
    ||| shl64 (bytes[ofs + 2]).toNat 16
    ||| shl64 (bytes[ofs + 3]).toNat 24
    ||| shl64 (bytes[ofs + 4]).toNat 32
    ||| shl64 (bytes[ofs + 5]).toNat 40
    ||| shl64 (bytes[ofs + 6]).toNat 48
    ||| shl64 (bytes[ofs + 7]).toNat 56

/-- `pub const fn reduce_from_wide_bytes(s: &[u8; 64]) -> Scalar` -/
def reduce_from_wide_bytes (s : Vector UInt8 64) : Option Scalar :=
  let x0 := load64 s 0 (by decide)
  let x1 := load64 s 8 (by decide)
  let x2 := load64 s 16 (by decide)
  let x3 := load64 s 24 (by decide)
  let x4 := load64 s 32 (by decide)
  let x5 := load64 s 40 (by decide)
  let x6 := load64 s 48 (by decide)
  let x7 := load64 s 56 (by decide)
  -- r1 = x mod 2^264
  let out0 := x0 &&& MASK56
  let out1 := (shr64 x0 56 ||| shl64 x1 8) &&& MASK56
  let out2 := (shr64 x1 48 ||| shl64 x2 16) &&& MASK56
  let out3 := (shr64 x2 40 ||| shl64 x3 24) &&& MASK56
  let out4 := (shr64 x3 32 ||| shl64 x4 32) &&& MASK40
  -- q1 = x >> 248
  let q10 := (shr64 x3 56 ||| shl64 x4 8) &&& MASK56
  let q11 := (shr64 x4 48 ||| shl64 x5 16) &&& MASK56
  let q12 := (shr64 x5 40 ||| shl64 x6 24) &&& MASK56
  let q13 := (shr64 x6 32 ||| shl64 x7 32) &&& MASK56
  let q14 := shr64 x7 24
  barrett_reduce256 ⟨q10, q11, q12, q13, q14⟩ ⟨out0, out1, out2, out3, out4⟩

/-! ### add, mul, muladd -/

/-- `const fn add(Scalar(x): &Scalar, Scalar(y): &Scalar) -> Scalar` -/
def add (x y : Scalar) : Option Scalar := do
  let c ← ck64 (x.l0 + y.l0)
  let r0 := c &&& MASK56
  let c := shr64 c 56
  let c ← ck64 (c + (← ck64 (x.l1 + y.l1)))
  let r1 := c &&& MASK56
  let c := shr64 c 56
  let c ← ck64 (c + (← ck64 (x.l2 + y.l2)))
  let r2 := c &&& MASK56
  let c := shr64 c 56
  let c ← ck64 (c + (← ck64 (x.l3 + y.l3)))
  let r3 := c &&& MASK56
  let c := shr64 c 56
  let c ← ck64 (c + (← ck64 (x.l4 + y.l4)))
  let r4 := c
  reduce256 ⟨r0, r1, r2, r3, r4⟩

/-- `const fn mul(Scalar(x): &Scalar, Scalar(y): &Scalar) -> Scalar` -/
def mul (x y : Scalar) : Option Scalar := do
  let c := mul128 x.l0 y.l0
  let r10 := asU64 c &&& MASK56
  let f := shr128 c 56
  let c ← ck128 (mul128 x.l0 y.l1 + f + mul128 x.l1 y.l0)
  let r11 := asU64 c &&& MASK56
  let f := shr128 c 56
  let c ← ck128 (mul128 x.l0 y.l2 + f + mul128 x.l2 y.l0 + mul128 x.l1 y.l1)
  let r12 := asU64 c &&& MASK56
  let f := shr128 c 56
  let c ← ck128 (mul128 x.l0 y.l3 + f + mul128 x.l3 y.l0 + mul128 x.l1 y.l2 + mul128 x.l2 y.l1)
  let r13 := asU64 c &&& MASK56
  let f := shr128 c 56
  let c ← ck128 (mul128 x.l0 y.l4 + f + mul128 x.l4 y.l0 + mul128 x.l3 y.l1 + mul128 x.l1 y.l3 + mul128 x.l2 y.l2)
  let r14 := asU64 c &&& MASK40
  let q10 := shr64 (asU64 c) 24 &&& 0xffffffff
  let f := shr128 c 56
  let c ← ck128 (mul128 x.l4 y.l1 + f + mul128 x.l1 y.l4 + mul128 x.l2 y.l3 + mul128 x.l3 y.l2)
  let f := asU64 c
  let q10 := q10 ||| (shl64 f 32 &&& MASK56)
  let q11 := shr64 f 24 &&& 0xffffffff
  let f := shr128 c 56
  let c ← ck128 (mul128 x.l4 y.l2 + f + mul128 x.l2 y.l4 + mul128 x.l3 y.l3)
  let f := asU64 c
  let q11 := q11 ||| (shl64 f 32 &&& MASK56)
  let q12 := shr64 f 24 &&& 0xffffffff
  let f := shr128 c 56
  let c ← ck128 (mul128 x.l4 y.l3 + f + mul128 x.l3 y.l4)
  let f := asU64 c
  let q12 := q12 ||| (shl64 f 32 &&& MASK56)
  let q13 := shr64 f 24 &&& 0xffffffff
  let f := shr128 c 56
  let c ← ck128 (mul128 x.l4 y.l4 + f)
  let f := asU64 c
  let q13 := q13 ||| (shl64 f 32 &&& MASK56)
  let q14 := shr64 f 24 &&& 0xffffffff
  let f := shr128 c 56
  let q14 := q14 ||| shl64 f 32
  barrett_reduce256 ⟨q10, q11, q12, q13, q14⟩ ⟨r10, r11, r12, r13, r14⟩

/-- `pub(crate) fn muladd(a: &Scalar, b: &Scalar, c: &Scalar) -> Scalar` = `a*b + c` -/
def muladd (a b c : Scalar) : Option Scalar := do
  let m ← mul a b
  let r ← add m c
  pure r

/-! ### `slide` (scalar/mod.rs): signed sliding-window recoding, digits in `i8` -/

/-- checked `i8` result -/
def ckI8 (v : Int) : Option Int := if -128 ≤ v ∧ v ≤ 127 then some v else none
/-- `v << b` on `i8` (`b < 8`): two's-complement wrap of `v · 2^b` -/
def shlI8 (v : Int) (b : Nat) : Int := ((v * 2 ^ b + 128) % 256) - 128

/-- `for k in i + b..256 { if r[k] == 0 { r[k] = 1; break; } r[k] = 0; }`  (fuel = 256 - k) -/
def slideCarry : Nat → Nat → Vector Int 256 → Vector Int 256
  | 0, _, r => r
  | fuel + 1, k, r =>
    if h : k < 256 then
      if r[k] == 0 then r.set k 1 else slideCarry fuel (k + 1) (r.set k 0)
    else r

/-- `for b in 1..min(7, 256 - i) { … }` from `b` on (fuel = bound - b) -/
def slideInner (i bound : Nat) : Nat → Nat → Vector Int 256 → Option (Vector Int 256)
  | 0, _, r => some r
  | fuel + 1, b, r =>
    if hb : b < bound ∧ i + b < 256 then
      have hi : i < 256 := by omega
      if r[i + b] != 0 then
        let sh := shlI8 r[i + b] b
        match ckI8 (r[i] + sh) with
        | none => none
        | some s =>
          if s ≤ 15 then
            slideInner i bound fuel (b + 1) ((r.set i s).set (i + b) 0)
          else
            match ckI8 (r[i] - sh) with
            | none => none
            | some d =>
              if d ≥ -15 then
                slideInner i bound fuel (b + 1) (slideCarry (256 - (i + b)) (i + b) (r.set i d))
              else some r   -- break
      else slideInner i bound fuel (b + 1) r
    else some r

/-- `for i in 0..256 { if r[i] != 0 { … } }` from `i` on (fuel = 256 - i) -/
def slideOuter : Nat → Nat → Vector Int 256 → Option (Vector Int 256)
  | 0, _, r => some r
  | fuel + 1, i, r =>
    if h : i < 256 then
      if r[i] != 0 then
        match slideInner i (min 7 (256 - i)) 7 1 r with
        | none => none
        | some r' => slideOuter fuel (i + 1) r'
      else slideOuter fuel (i + 1) r
    else some r

/-- `pub(crate) fn slide(&self) -> [i8; 256]` -/
def slide (s : Scalar) : Option (Vector Int 256) := slideOuter 256 0 (bits s)

/-! ### list-based wrappers (the conversions `<&[u8; N]>::try_from(slice)`) -/

def toArr (n : Nat) (b : Bytes) : Option (Vector UInt8 n) :=
  if h : b.length = n then some ⟨b.toArray, by simp [h]⟩ else none

def fromBytes (b : Bytes) : Option Scalar := (toArr 32 b).map from_bytes
def fromBytesCanonical (b : Bytes) : Option (Option Scalar) := (toArr 32 b).bind from_bytes_canonical
def toBytes (s : Scalar) : Bytes := to_bytes s
def reduceFromWideBytes (b : Bytes) : Option Scalar := (toArr 64 b).bind reduce_from_wide_bytes

end Cx.Impl.Scalar64
