/-
  Impl.LeakModelSym — the leakage-instrumented models (see Impl/LeakModel.lean for the semantics) of the symmetric
  part of C19:  (e) ChaCha / Salsa encryption (`process`, `process_mut`, `update`, the engines' `rounds` loop and
  counter increments),  (d) HMAC (`expand_key`, `derive_key`, `create_keys`, `new`, `input`, `raw_result`) over an
  instrumented digest, and the buffering of the Merkle–Damgård hash engines (`FixedBuffer::input`,
  `standard_padding`).
-/
import CxVerif.Impl.LeakModel
import CxVerif.Impl.ChaCha
import CxVerif.Impl.Salsa
import CxVerif.Impl.Hmac
import CxVerif.Impl.MdEngine
namespace Cx.Impl.LeakModel
open Cx Cx.Impl Cx.Impl.StreamCtx

/-! ## (e) chacha20.rs / salsa20.rs: the five context types share this text -/
section Stream
variable {σ : Type}

/-- the instrumented block generator of a context type: `blockL s` = `let mut state = self.state.clone();
    state.rounds(); state.add_back(&self.state); state.output_bytes(&mut self.output)`, `incrementL` = the increment
    this context type calls -/
structure BlockGenL (σ : Type) where
  blockL : σ → LeakM Bytes
  incrementL : σ → LeakM σ

/-- `fn update(&mut self)` -/
def updateL (G : BlockGenL σ) (c : Ctx σ) : LeakM (Ctx σ) := do
  let out ← G.blockL c.state
  let s ← G.incrementL c.state
  pure { state := s, output := out, offset := 0 }

/-- `cryptoutil::xor_keystream_mut(buf, keystream)`: `assert!(buf.len() <= keystream.len())` and a zip loop over
    `buf.len()` bytes: both LENGTHS, the bytes are xored -/
def xor_keystream_mutL (buf keystream : Bytes) : LeakM (Except String Bytes) := do
  emit (.length buf.length)
  emit (.length keystream.length)
  pure (xor_keystream_mut buf keystream)

/-- `fn process_mut(&mut self, data: &mut [u8])`:
    `while i < len { if self.offset == 64 { self.update(); } let count = min(64 - self.offset, len - i);
       xor_keystream_mut(&mut data[i..i + count], &self.output[self.offset..]); i += count; self.offset += count; }` -/
def process_mutL (G : BlockGenL σ) (c : Ctx σ) (data : Bytes) : LeakM (Except String (Ctx σ × Bytes)) :=
  match data with
  | [] => do
    emit (.branch false)                                   -- `i < len`
    pure (.ok (c, []))
  | d :: ds => do
    emit (.branch true)
    emit (.branch (decide (c.offset = 64)))
    let c1 ← (if c.offset = 64 then updateL G c else pure c)
    if _hlt : c1.offset < 64 then
      let count := min (64 - c1.offset) (ds.length + 1)
      match ← xor_keystream_mutL ((d :: ds).take count) (c1.output.drop c1.offset) with
      | .error e => pure (.error e)
      | .ok out =>
        match ← process_mutL G { c1 with offset := c1.offset + count } ((d :: ds).drop count) with
        | .error e => pure (.error e)
        | .ok (c', rest) => pure (.ok (c', out ++ rest))
    else pure (.error "PANIC")
termination_by data.length
decreasing_by
  simp only [List.length_drop, List.length_cons]
  have key : ∀ o : Nat, o < 64 → ds.length + 1 - min (64 - o) (ds.length + 1) < ds.length + 1 := by omega
  exact key _ _hlt

/-- `fn process(&mut self, input: &[u8], output: &mut [u8])`: `assert_eq!(input.len(), output.len())` -/
def processL (G : BlockGenL σ) (c : Ctx σ) (input : Bytes) (outputLen : Nat) :
    LeakM (Except String (Ctx σ × Bytes)) := do
  emit (.branch (decide (input.length = outputLen)))
  if input.length = outputLen then process_mutL G c input else pure (.error "PANIC")

end Stream

/-! ### the engines: `rounds` is `for _ in 0..(ROUNDS / 2) { QR!… }` (a constant-bound loop of additions, xors and
    constant rotations on the sixteen words: the key only enters arithmetic); `add_back`, `output_bytes`: constant loops -/

namespace ChaChaL
open Cx.Impl.ChaCha

/-- `rounds(); add_back(); output_bytes()` of the portable engine -/
def refBlockL (R : Nat) (s : W16) : LeakM Bytes := do
  emit (.loopBound (R / 2))
  pure (referenceEngine.block R s)

/-- `rounds(); add_back(); output_bytes()` of the SSE2 engine -/
def sse2BlockL (R : Nat) (s : Sse2.State) : LeakM Bytes := do
  emit (.loopBound (R / 2))
  pure (sse2Engine.block R s)

/-- `ChaCha<R>` / `XChaCha<R>` (IETF): `increment` = `state[12] = state[12].wrapping_add(1)`, no branch -/
def refGenL (R : Nat) : BlockGenL W16 := { blockL := refBlockL R, incrementL := fun s => pure (Reference.increment s) }
def sse2GenL (R : Nat) : BlockGenL Sse2.State :=
  { blockL := sse2BlockL R, incrementL := fun s => pure (Sse2.increment s) }

/-- `ChaChaOriginal<R>`: `increment64` = `state[12] += 1; if self.state[12] == 0 { state[13] += 1 }` — a branch on
    the block COUNTER (public: position in the stream) -/
def refIncrement64L (s : W16) : LeakM W16 := do
  emit (.branch (s.x12 + 1 == 0))
  pure (Reference.increment64 s)

/-- SSE2: `let (a, overflowed) = align.0[0].overflowing_add(1); if overflowed { … }` -/
def sse2Increment64L (s : Sse2.State) : LeakM Sse2.State := do
  emit (.branch (s.d.l0 == 0xFFFFFFFF))
  pure (Sse2.increment64 s)

def refGen64L (R : Nat) : BlockGenL W16 := { blockL := refBlockL R, incrementL := refIncrement64L }
def sse2Gen64L (R : Nat) : BlockGenL Sse2.State := { blockL := sse2BlockL R, incrementL := sse2Increment64L }

end ChaChaL

namespace SalsaL
open Cx.Impl.Salsa

def blockL (R : Nat) (s : W16) : LeakM Bytes := do
  emit (.loopBound (R / 2))
  pure (Salsa.block R s)

/-- `increment`: `state[8] += 1; if self.state[8] == 0 { state[9] += 1 }` — a branch on the block COUNTER -/
def incrementL (s : W16) : LeakM W16 := do
  emit (.branch (s.x8 + 1 == 0))
  pure (Salsa.increment s)

def genL (R : Nat) : BlockGenL W16 := { blockL := blockL R, incrementL := incrementL }

end SalsaL

/-- NEGATIVE CONTROL (not in the crate): a keystream generator with a table lookup indexed by a key byte
    (an "S-box" cipher step) -/
def sboxBlockL (s : W16) : LeakM Bytes := do
  emit (.index (s.x4.toNat % 256))
  pure (W16.output_bytes s)

/-! ## (d) hmac.rs, generic in the digest type `D: Digest` -/
section Hmac
open Cx.Impl.Digest Cx.Impl.Hmac
variable {δ : Type}

/-- the instrumented methods of the digest type parameter (`input`, `result`, `reset` of `trait Digest`) -/
structure DigestL (δ : Type) where
  inputL : δ → Bytes → LO δ
  resultL : δ → Nat → LO (δ × Bytes)
  resetL : δ → LO δ

/-- `fn derive_key(key: &mut [u8], mask: u8) { for elem in key.iter_mut() { *elem ^= mask; } }`: a loop over the
    (block-size many) key bytes, xor only -/
def derive_keyL (key : Bytes) (mask : UInt8) : LeakM Bytes :=
  forL key ([] : Bytes) (fun acc b => pure (acc ++ [b ^^^ mask]))

/-- `fn expand_key<D: Digest>(digest: &mut D, key: &[u8]) -> Vec<u8>`: the only test is `key.len() <= bs` -/
def expand_keyL (D : DigestModel δ) (DL : DigestL δ) (digest : δ) (key : Bytes) : LO (δ × Bytes) := do
  let bs := D.block_size digest
  LO.emit (.length bs)                                      -- `repeat(0).take(bs).collect()`
  let expanded_key : Bytes := zeros bs
  LO.emit (.branch (decide (key.length ≤ bs)))
  if key.length ≤ bs then do
    LO.emit (.length key.length)                            -- `expanded_key[0..key.len()].copy_from_slice(key)`
    pure (digest, copy_prefix expanded_key key)
  else do
    let output_size := D.output_bytes digest
    let digest ← DL.inputL digest key
    LO.emit (.length output_size)                           -- `&mut expanded_key[..output_size]`
    if ¬ output_size ≤ bs then LO.lift none
    else do
      let r ← DL.resultL digest output_size
      let digest ← DL.resetL r.1
      pure (digest, copy_prefix expanded_key r.2)

/-- `fn create_keys<D: Digest>(digest: &mut D, key: &[u8]) -> (Vec<u8>, Vec<u8>)` -/
def create_keysL (D : DigestModel δ) (DL : DigestL δ) (digest : δ) (key : Bytes) : LO (δ × Bytes × Bytes) := do
  let r ← expand_keyL D DL digest key
  LO.emit (.length r.2.length)                              -- `i_key.clone()`
  let i ← LO.ofLeakM (derive_keyL r.2 IPAD)
  let o ← LO.ofLeakM (derive_keyL r.2 OPAD)
  pure (r.1, i, o)

/-- `pub fn new(mut digest: D, key: &[u8]) -> Hmac<D>` -/
def Hmac.newL (D : DigestModel δ) (DL : DigestL δ) (digest : δ) (key : Bytes) : LO (Hmac δ) := do
  let r ← create_keysL D DL digest key
  let digest ← DL.inputL r.1 r.2.1
  pure { digest := digest, i_key := r.2.1, o_key := r.2.2, finished := false }

/-- `fn input(&mut self, data: &[u8]) { assert!(!self.finished); self.digest.input(data); }` -/
def Hmac.inputL (DL : DigestL δ) (self : Hmac δ) (data : Bytes) : LO (Hmac δ) := do
  LO.emit (.branch self.finished)
  if self.finished then LO.lift none
  else do
    let d ← DL.inputL self.digest data
    pure { self with digest := d }

/-- `fn raw_result(&mut self, output: &mut [u8])` -/
def Hmac.raw_resultL (DL : DigestL δ) (self : Hmac δ) (outputLen : Nat) : LO (Hmac δ × Bytes) := do
  LO.emit (.branch (!self.finished))
  let self ←
    (if !self.finished then do
      let r ← DL.resultL self.digest outputLen
      let d ← DL.resetL r.1
      let d ← DL.inputL d self.o_key
      let d ← DL.inputL d r.2
      pure { self with digest := d, finished := true }
    else pure self : LO (Hmac δ))
  let r ← DL.resultL self.digest outputLen
  pure ({ self with digest := r.1 }, r.2)

/-- `fn result(&mut self) -> MacResult`: a vector of `output_bytes()` zeros, then `raw_result` -/
def Hmac.resultL (D : DigestModel δ) (DL : DigestL δ) (self : Hmac δ) : LO (Hmac δ × Bytes) := do
  let output_size := D.output_bytes self.digest
  LO.emit (.length output_size)
  Hmac.raw_resultL DL self output_size

/-- `let mut h = Hmac::new(digest, key); h.input(msg); h.result().code()` -/
def hmacOneShotL (D : DigestModel δ) (DL : DigestL δ) (digest : δ) (key msg : Bytes) : LO Bytes := do
  let h ← Hmac.newL D DL digest key
  let h ← Hmac.inputL DL h msg
  let r ← Hmac.resultL D DL h
  pure r.2

end Hmac

/-! ## (d) the buffering of the Merkle–Damgård hash engines: `cryptoutil::FixedBuffer<N>` (SHA-1, SHA-2, RIPEMD-160)

  `funcL` is the instrumented compression callback (`|input| self_state.blocks(input)`). -/
section FixedBuf
variable {σ : Type}

/-- the part of `FixedBuffer::input` after the first `if`:
    `if input.len() - i >= N { let remaining = input.len() - i; let block_bytes = (remaining / N) * N;
       func(&input[i..i + block_bytes]); i += block_bytes; }
     let input_remaining = input.len() - i;
     self.buffer[0..input_remaining].copy_from_slice(&input[i..]); self.buffer_idx += input_remaining;` -/
def FixedBuffer.input_restL (N : Nat) (self : FixedBuffer) (inp : Bytes) (i : Nat)
    (funcL : σ → Bytes → LO σ) (st : σ) : LO (FixedBuffer × σ) := do
  LO.emit (.length inp.length)
  if inp.length < i then LO.lift none
  else do
    LO.emit (.branch (decide (inp.length - i ≥ N)))
    let step ← (if inp.length - i ≥ N then do
        LO.emit (.index i)
        LO.emit (.length ((inp.length - i) / N * N))
        let blocks ← LO.lift (slice inp i (i + (inp.length - i) / N * N))
        let st' ← funcL st blocks
        pure (st', i + (inp.length - i) / N * N)
      else pure (st, i) : LO (σ × Nat))
    if inp.length < step.2 then LO.lift none
    else do
      LO.emit (.length (inp.length - step.2))
      let rest ← LO.lift (slice inp step.2 inp.length)
      let buffer ← LO.lift (copy_from_slice self.buffer 0 (inp.length - step.2) rest)
      pure (⟨buffer, self.buffer_idx + (inp.length - step.2)⟩, step.1)

/-- `FixedBuffer::input(&mut self, input, func)`: three regimes, selected by `buffer_idx` and LENGTHS -/
def FixedBuffer.inputL (N : Nat) (self : FixedBuffer) (inp : Bytes) (funcL : σ → Bytes → LO σ) (st : σ) :
    LO (FixedBuffer × σ) := do
  LO.emit (.branch (self.buffer_idx != 0))
  if self.buffer_idx != 0 then
    if N < self.buffer_idx then LO.lift none
    else do
      LO.emit (.branch (decide (inp.length ≥ N - self.buffer_idx)))
      if inp.length ≥ N - self.buffer_idx then do
        LO.emit (.index self.buffer_idx)
        let head ← LO.lift (slice inp 0 (N - self.buffer_idx))
        let buffer ← LO.lift (copy_from_slice self.buffer self.buffer_idx N head)
        let st' ← funcL st buffer
        FixedBuffer.input_restL N ⟨buffer, 0⟩ inp (N - self.buffer_idx) funcL st'
      else do
        LO.emit (.index self.buffer_idx)
        LO.emit (.length inp.length)
        let buffer ← LO.lift (copy_from_slice self.buffer self.buffer_idx (self.buffer_idx + inp.length) inp)
        pure (⟨buffer, self.buffer_idx + inp.length⟩, st)
  else FixedBuffer.input_restL N self inp 0 funcL st

end FixedBuf

end Cx.Impl.LeakModel
