/-
  Impl.Drg — code-shaped model of src/drg/chacha.rs: `Drg<R>(ChaCha<R>)`.
  `bytes::<N>` runs the cipher over a fresh zero array; `fill_bytes`/`fill_slice` zero the caller's buffer and
  run the cipher over it.  `…Old` = the behaviour before /repo commit 1b3253e (keystream XORed into whatever
  the buffer held), kept for the witness theorems.
-/
import CxVerif.Impl.ChaCha
namespace Cx.Impl.Drg
open Cx.Impl Cx.Impl.StreamCtx Cx.Impl.ChaCha

variable {σ : Type}

/-- `Drg::new(seed: &[u8; 32])` = `ChaCha::new(seed, &[0; 12])` -/
def new (E : Engine σ) (R : Nat) (seed : Bytes) : Except String (Ctx σ) :=
  if seed.length ≠ 32 then .error "bad-args" else ChaCha.new E R seed (zeros 12)

/-- `bytes::<N>()` -/
def bytes (E : Engine σ) (R : Nat) (c : Ctx σ) (N : Nat) : Except String (Ctx σ × Bytes) :=
  ChaCha.process_mut E R c (zeros N)

/-- `fill_bytes::<N>(out)` : `*out = [0; N]; self.0.process_mut(out)` (as repaired by /repo commit 1b3253e) -/
def fill_bytes (E : Engine σ) (R : Nat) (c : Ctx σ) (out : Bytes) : Except String (Ctx σ × Bytes) :=
  ChaCha.process_mut E R c (zeros out.length)

/-- `fill_slice(out)` : `out.fill(0); self.0.process_mut(out)` -/
def fill_slice (E : Engine σ) (R : Nat) (c : Ctx σ) (out : Bytes) : Except String (Ctx σ × Bytes) :=
  ChaCha.process_mut E R c (zeros out.length)

/-- `fill_bytes` / `fill_slice` BEFORE the repair (defect b): the cipher ran over the caller's buffer, i.e. the
    keystream was XORed into whatever the buffer held.  Kept for the witness theorems. -/
def fill_bytesOld (E : Engine σ) (R : Nat) (c : Ctx σ) (out : Bytes) : Except String (Ctx σ × Bytes) :=
  ChaCha.process_mut E R c out
def fill_sliceOld (E : Engine σ) (R : Nat) (c : Ctx σ) (out : Bytes) : Except String (Ctx σ × Bytes) :=
  ChaCha.process_mut E R c out

/-- `u64()` = `u64::from_be_bytes(self.bytes())` -/
def u64 (E : Engine σ) (R : Nat) (c : Ctx σ) : Except String (Ctx σ × UInt64) :=
  match bytes E R c 8 with
  | .ok (c, b) => .ok (c, beU64 b)
  | .error e => .error e

/-- `u32()` = `u32::from_be_bytes(self.bytes())` -/
def u32 (E : Engine σ) (R : Nat) (c : Ctx σ) : Except String (Ctx σ × UInt32) :=
  match bytes E R c 4 with
  | .ok (c, b) => .ok (c, beU32 b)
  | .error e => .error e

/-! ### request histories -/
inductive Req where
  | bytes (N : Nat)
  | fillBytes (prior : Bytes)
  | fillSlice (prior : Bytes)
  | u32
  | u64
deriving Repr

/-- what a request hands back to the caller -/
inductive Out where
  | buf (b : Bytes)
  | w32 (v : UInt32)
  | w64 (v : UInt64)
deriving Repr, DecidableEq

def step (E : Engine σ) (R : Nat) (old : Bool) (c : Ctx σ) : Req → Except String (Ctx σ × Out)
  | .bytes N => match bytes E R c N with
    | .ok (c, b) => .ok (c, .buf b) | .error e => .error e
  | .fillBytes p => match (if old then fill_bytesOld E R c p else fill_bytes E R c p) with
    | .ok (c, b) => .ok (c, .buf b) | .error e => .error e
  | .fillSlice p => match (if old then fill_sliceOld E R c p else fill_slice E R c p) with
    | .ok (c, b) => .ok (c, .buf b) | .error e => .error e
  | .u32 => match u32 E R c with
    | .ok (c, v) => .ok (c, .w32 v) | .error e => .error e
  | .u64 => match u64 E R c with
    | .ok (c, v) => .ok (c, .w64 v) | .error e => .error e

/-- `old = true` selects the pre-repair `fill_*` (witness theorems only) -/
def run (E : Engine σ) (R : Nat) (old : Bool) (c : Ctx σ) : List Req → Except String (Ctx σ × List Out)
  | [] => .ok (c, [])
  | r :: rs =>
    match step E R old c r with
    | .error e => .error e
    | .ok (c, o) =>
      match run E R old c rs with
      | .error e => .error e
      | .ok (c, os) => .ok (c, o :: os)

end Cx.Impl.Drg
