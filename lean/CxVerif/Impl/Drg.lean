/-
  Impl.Drg — code-shaped model of src/drg/chacha.rs: `Drg<R>(ChaCha<R>)`.
  `bytes::<N>` runs the cipher over a fresh zero array; `fill_bytes`/`fill_slice` run it over the CALLER's
  buffer (AS IS: the keystream is XORed into whatever the buffer held).  `…Fixed` = overwrite semantics
  (the repaired behaviour: zero the buffer first).
-/
import CxVerif.Impl.ChaCha
namespace Cx.Impl.Drg
open Cx.Impl Cx.Impl.StreamCtx Cx.Impl.ChaCha

variable {σ : Type}

/-- `Drg::new(seed: &[u8; 32])` = `ChaCha::new(seed, &[0; 12])` -/
def new (E : Engine σ) (R : Nat) (seed : Bytes) : Except String (Ctx σ) :=
  if seed.length ≠ 32 then .error "bad-args" else ChaCha.new E R seed (zeros 12)

/-- `bytes::<N>()` -/
def bytes (E : Engine σ) (R : Nat) (c : Ctx σ) (N : Nat) : Except String (Ctx σ × Bytes) :=
  ChaCha.process_mut E R c (zeros N)

/-- `fill_bytes::<N>(out)` AS IS: `self.0.process_mut(out)` -/
def fill_bytes (E : Engine σ) (R : Nat) (c : Ctx σ) (out : Bytes) : Except String (Ctx σ × Bytes) :=
  ChaCha.process_mut E R c out

/-- `fill_slice(out)` AS IS -/
def fill_slice (E : Engine σ) (R : Nat) (c : Ctx σ) (out : Bytes) : Except String (Ctx σ × Bytes) :=
  ChaCha.process_mut E R c out

/-- repaired `fill_bytes` / `fill_slice`: the destination is zeroed before the cipher runs over it -/
def fill_bytesFixed (E : Engine σ) (R : Nat) (c : Ctx σ) (out : Bytes) : Except String (Ctx σ × Bytes) :=
  ChaCha.process_mut E R c (zeros out.length)
def fill_sliceFixed (E : Engine σ) (R : Nat) (c : Ctx σ) (out : Bytes) : Except String (Ctx σ × Bytes) :=
  ChaCha.process_mut E R c (zeros out.length)

/-- `u64()` = `u64::from_be_bytes(self.bytes())` -/
def u64 (E : Engine σ) (R : Nat) (c : Ctx σ) : Except String (Ctx σ × UInt64) :=
  match bytes E R c 8 with
  | .ok (c, b) => .ok (c, beU64 b)
  | .error e => .error e

/-- `u32()` = `u32::from_be_bytes(self.bytes())` -/
def u32 (E : Engine σ) (R : Nat) (c : Ctx σ) : Except String (Ctx σ × UInt32) :=
  match bytes E R c 4 with
  | .ok (c, b) => .ok (c, beU32 b)
  | .error e => .error e

/-! ### request histories -/
inductive Req where
  | bytes (N : Nat)
  | fillBytes (prior : Bytes)
  | fillSlice (prior : Bytes)
  | u32
  | u64
deriving Repr

/-- what a request hands back to the caller -/
inductive Out where
  | buf (b : Bytes)
  | w32 (v : UInt32)
  | w64 (v : UInt64)
deriving Repr, DecidableEq

def step (E : Engine σ) (R : Nat) (fixed : Bool) (c : Ctx σ) : Req → Except String (Ctx σ × Out)
  | .bytes N => match bytes E R c N with
    | .ok (c, b) => .ok (c, .buf b) | .error e => .error e
  | .fillBytes p => match (if fixed then fill_bytesFixed E R c p else fill_bytes E R c p) with
    | .ok (c, b) => .ok (c, .buf b) | .error e => .error e
  | .fillSlice p => match (if fixed then fill_sliceFixed E R c p else fill_slice E R c p) with
    | .ok (c, b) => .ok (c, .buf b) | .error e => .error e
  | .u32 => match u32 E R c with
    | .ok (c, v) => .ok (c, .w32 v) | .error e => .error e
  | .u64 => match u64 E R c with
    | .ok (c, v) => .ok (c, .w64 v) | .error e => .error e

def run (E : Engine σ) (R : Nat) (fixed : Bool) (c : Ctx σ) : List Req → Except String (Ctx σ × List Out)
  | [] => .ok (c, [])
  | r :: rs =>
    match step E R fixed c r with
    | .error e => .error e
    | .ok (c, o) =>
      match run E R fixed c rs with
      | .error e => .error e
      | .ok (c, os) => .ok (c, o :: os)

end Cx.Impl.Drg
