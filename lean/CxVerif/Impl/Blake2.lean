/-
  Impl.Blake2 — code-shaped model of /repo/src/hashing/blake2/{mod,reference,common}.rs and of
  /repo/src/hashing/blake2b.rs, blake2s.rs (Context<BITS>, ContextDyn), generic over the b/s parameters.

  -- API:
  --   Cx.Impl.Blake2.blake2b (pr : Profile) (outlen : Nat) (key msg : Bytes) : Option Bytes
  --        = ContextDyn::new_keyed(outlen, key).update(msg).finalize_at(out[outlen]); `none` = panic
  --   Cx.Impl.Blake2.hashing_blake2 P pr BITS input = hashing::blake2b_256(input) etc. (P = b or s)
  --   Cx.Impl.Blake2.blake2s likewise;   blake2b_ctx / blake2s_ctx (bits) = the same through Context<BITS>
  --   Profile.wrapping = THE CODE AS IT IS (since /repo commit ca094bf `increment_counter` uses `wrapping_add`,
  --                      in every build profile; also what the old `+=` did in builds without overflow checks)
  --   Profile.checked  = the old `t[0] += inc; t[1] += carry` in an overflow-checked build (panic at 2^32 / 2^64
  --                      bytes; defect (i), kept as documentation together with its witness theorems)
  --   Context API (state = `Ctx W`; W = UInt64 with `b`, UInt32 with `s`); every fn takes the params `P`:
  --     ContextDyn.new P outlen, ContextDyn.new_keyed P outlen key          : Option (ContextDyn W)
  --     ContextDyn.update / update_mut P pr c input                         : Option (ContextDyn W)
  --     ContextDyn.finalize_at P pr c outLen                                : Option Bytes
  --     ContextDyn.finalize_reset_at P pr c outLen                          : Option (ContextDyn W × Bytes)
  --     ContextDyn.finalize_reset_with_key_at P pr c key outLen             : Option (ContextDyn W × Bytes)
  --     ContextDyn.reset P c : ContextDyn W,  ContextDyn.reset_with_key P c key : Option (ContextDyn W)
  --     ContextDyn.output_bits c : Nat
  --     Context.* (const generic BITS as explicit argument) with the same names, state `Ctx W`
  --   theorems: Cx.Props.C01.blake2b_eq_spec … (Props/C01/Blake2.lean), refinement in Props/C02/Blake2.lean

  Conventions: word-level code (compress) on UInt64/UInt32 through `Spec.Blake2.Word`; the two counter words
  `t[0], t[1]` are naturals `< 2^w` with the checked/wrapping `+=` written out (DESIGN 2.1); `buf` is the
  whole `[u8; BLOCK_BYTES]` array including stale bytes; a Rust panic is `none`.
  The compression core (`G!`, `round!`, `compressbody!`) is the shared core of Spec.Blake2 (literal
  transcription); here it is instantiated with the EXTRACTED tables and the code's 12-row SIGMA.
-/
import CxVerif.Spec.Blake2
import CxVerif.Extracted.Blake2
namespace Cx.Impl.Blake2
open Cx
open Cx.Spec.Blake2 (Word Params wbytes toLE fromLE compressCore)

/-- arithmetic of the byte counter: `.wrapping` = `wrapping_add` (the current code, all builds);
    `.checked` = the former `+=` compiled with overflow checks (historic, defect (i)) -/
inductive Profile
  | checked
  | wrapping
  deriving DecidableEq, Repr

/-- `common::LastBlock` -/
inductive LastBlock
  | Yes
  | No
  deriving DecidableEq, Repr

/-- `common::b` -/
def b : Params UInt64 :=
  { bb := Extracted.Blake2.B_BLOCK_BYTES, rounds := Extracted.Blake2.B_ROUNDS,
    r1 := Extracted.Blake2.B_R1, r2 := Extracted.Blake2.B_R2, r3 := Extracted.Blake2.B_R3, r4 := Extracted.Blake2.B_R4,
    maxOut := Extracted.Blake2.B_MAX_OUTLEN, maxKey := Extracted.Blake2.B_MAX_KEYLEN,
    iv := Vector.ofFn fun i => UInt64.ofNat (Extracted.Blake2.B_IV.getD i.val 0) }

/-- `common::s` -/
def s : Params UInt32 :=
  { bb := Extracted.Blake2.S_BLOCK_BYTES, rounds := Extracted.Blake2.S_ROUNDS,
    r1 := Extracted.Blake2.S_R1, r2 := Extracted.Blake2.S_R2, r3 := Extracted.Blake2.S_R3, r4 := Extracted.Blake2.S_R4,
    maxOut := Extracted.Blake2.S_MAX_OUTLEN, maxKey := Extracted.Blake2.S_MAX_KEYLEN,
    iv := Vector.ofFn fun i => UInt32.ofNat (Extracted.Blake2.S_IV.getD i.val 0) }

/-- `SIGMA[r]` of common.rs -/
def sigmaRow (r : Nat) : List Nat := Extracted.Blake2.SIGMA.getD r []

section generic
variable {W : Type} [Word W]

/-- the rounds of `compressbody!`: `round!(0..9)`, then `if ROUNDS == 12 { round!(10); round!(11) }` -/
def compressRows (P : Params W) : List (List Nat) :=
  [sigmaRow 0, sigmaRow 1, sigmaRow 2, sigmaRow 3, sigmaRow 4, sigmaRow 5, sigmaRow 6, sigmaRow 7,
   sigmaRow 8, sigmaRow 9] ++ (if P.rounds == 12 then [sigmaRow 10, sigmaRow 11] else [])

/-- `reference::compress_b` / `compress_s` (`compressbody!`): returns the new `h` -/
def reference_compress (P : Params W) (h : Vector W 8) (t0 t1 : Nat) (buf : Bytes) (last : LastBlock) : Vector W 8 :=
  compressCore P.iv P.r1 P.r2 P.r3 P.r4 (compressRows P) h buf (Word.ofNat t0) (Word.ofNat t1)
    (decide (last = LastBlock.Yes))

/-- `EngineB` / `EngineS`: `h` and the two counter words (`t0, t1 < 2^w`) -/
structure Engine (W : Type) where
  h : Vector W 8
  t0 : Nat
  t1 : Nat

/-- `h = IV; h[0] ^= 0x01010000 ^ ((keylen as uN) << 8) ^ outlen as uN` -/
def initH (P : Params W) (outlen keylen : Nat) : Vector W 8 :=
  P.iv.set 0 (Word.xor P.iv[0]
    (Word.xor (Word.xor (Word.ofNat 0x01010000) (Word.shl (Word.ofNat (W := W) keylen) 8)) (Word.ofNat outlen)))

/-- `Engine::new`: two asserts -/
def Engine.new (P : Params W) (outlen keylen : Nat) : Option (Engine W) :=
  if ¬ (outlen > 0 ∧ outlen ≤ P.maxOut) then none
  else if ¬ (keylen ≤ P.maxKey) then none
  else some { h := initH P outlen keylen, t0 := 0, t1 := 0 }

/-- `Engine::reset` (no asserts) -/
def Engine.reset (P : Params W) (_e : Engine W) (outlen keylen : Nat) : Engine W :=
  { h := initH P outlen keylen, t0 := 0, t1 := 0 }

/-- `a += b` on a `w`-bit word in the given build profile -/
def addAssign (w : Nat) (pr : Profile) (a b : Nat) : Option Nat :=
  match pr with
  | .checked => if a + b < 2 ^ w then some (a + b) else none
  | .wrapping => some ((a + b) % 2 ^ w)

/-- `Engine::increment_counter`: `t[0] = t[0].wrapping_add(inc); t[1] = t[1].wrapping_add(if t[0] < inc { 1 } else { 0 })`
    (`.wrapping`); before commit ca094bf `t[0] += inc; t[1] += if t[0] < inc { 1 } else { 0 }` (`.checked` in
    an overflow-checked build) -/
def Engine.increment_counter (pr : Profile) (e : Engine W) (inc : Nat) : Option (Engine W) :=
  match addAssign (Word.bits W) pr e.t0 inc with
  | none => none
  | some t0 =>
    match addAssign (Word.bits W) pr e.t1 (if t0 < inc then 1 else 0) with
    | none => none
    | some t1 => some { e with t0 := t0, t1 := t1 }

/-- `Engine::compress` (dispatches to `reference::compress_*` on a build without AVX) -/
def Engine.compress (P : Params W) (e : Engine W) (buf : Bytes) (last : LastBlock) : Engine W :=
  { e with h := reference_compress P e.h e.t0 e.t1 buf last }

/-- `buf[off .. off + src.len()].copy_from_slice(src)` -/
def setSlice (buf : Bytes) (off : Nat) (src : Bytes) : Bytes :=
  buf.take off ++ src ++ buf.drop (off + src.length)

/-- `zero(&mut buf[off..])` -/
def zeroFrom (buf : Bytes) (off : Nat) : Bytes := buf.take off ++ zeros (buf.length - off)

/-- the fields `Context<BITS>` and `ContextDyn` share -/
structure Ctx (W : Type) where
  eng : Engine W
  buf : Bytes          -- [u8; BLOCK_BYTES], stale bytes included
  buflen : Nat

/-- hook `verif_set_counter(t0, t1)` (cfg cryptoxide_verif): `self.eng.t = [t0, t1]`; the arguments are machine words -/
def Ctx.verif_set_counter (c : Ctx W) (t0 t1 : Nat) : Ctx W :=
  { c with eng := { c.eng with t0 := t0 % 2 ^ Word.bits W, t1 := t1 % 2 ^ Word.bits W } }

/-- body of `new_keyed` with `outlen = (BITS + 7) / 8` resp. `output_bytes` -/
def Ctx.new_keyed (P : Params W) (outlen : Nat) (key : Bytes) : Option (Ctx W) :=
  if ¬ (outlen > 0 ∧ outlen ≤ P.maxOut) then none
  else if ¬ (key.length ≤ P.maxKey) then none
  else
    let buf := zeros P.bb
    match Engine.new P outlen key.length with
    | none => none
    | some eng =>
      if ¬ key.isEmpty then some { eng := eng, buf := setSlice buf 0 key, buflen := P.bb }
      else some { eng := eng, buf := buf, buflen := 0 }

/-- the `while input.len() > BLOCK_BYTES` loop of `update_mut` (fuel = input length) -/
def Ctx.update_loop (P : Params W) (pr : Profile) : Nat → Engine W → Bytes → Option (Engine W × Bytes)
  | 0, e, input => some (e, input)
  | fuel + 1, e, input =>
    if input.length > P.bb then
      match e.increment_counter pr P.bb with
      | none => none
      | some e => Ctx.update_loop P pr fuel (e.compress P (input.take P.bb) .No) (input.drop P.bb)
    else some (e, input)

/-- `update_mut` -/
def Ctx.update_mut (P : Params W) (pr : Profile) (c : Ctx W) (input : Bytes) : Option (Ctx W) :=
  if input.isEmpty then some c
  else
    let fill := P.bb - c.buflen
    if input.length > fill then
      let buf := setSlice c.buf c.buflen (input.take fill)
      match c.eng.increment_counter pr P.bb with
      | none => none
      | some e =>
        let e := e.compress P (buf.take P.bb) .No
        let input := input.drop fill
        match Ctx.update_loop P pr input.length e input with
        | none => none
        | some (e, input) => some { eng := e, buf := setSlice buf 0 input, buflen := 0 + input.length }
    else some { c with buf := setSlice c.buf c.buflen input, buflen := c.buflen + input.length }

/-- `internal_final`: counter += buflen, zero the tail, compress with the last flag, `h` (LE) into `buf[0..8·wbytes]` -/
def Ctx.internal_final (P : Params W) (pr : Profile) (c : Ctx W) : Option (Ctx W) :=
  match c.eng.increment_counter pr (c.buflen % 2 ^ Word.bits W) with
  | none => none
  | some e =>
    let buf := zeroFrom c.buf c.buflen
    let e := e.compress P (buf.take P.bb) .Yes
    some { eng := e, buf := setSlice buf 0 (e.h.toList.flatMap toLE), buflen := c.buflen }

/-- `reset` with the context's output length -/
def Ctx.reset (P : Params W) (c : Ctx W) (outlen : Nat) : Ctx W :=
  { eng := c.eng.reset P outlen 0, buflen := 0, buf := zeroFrom c.buf 0 }

/-- `reset_with_key` -/
def Ctx.reset_with_key (P : Params W) (c : Ctx W) (outlen : Nat) (key : Bytes) : Option (Ctx W) :=
  if ¬ (key.length ≤ P.maxKey) then none
  else
    let eng := c.eng.reset P outlen key.length
    let buf := zeroFrom c.buf 0
    if ¬ key.isEmpty then some { eng := eng, buf := setSlice buf 0 key, buflen := P.bb }
    else some { eng := eng, buf := zeros P.bb, buflen := 0 }

/-- `finalize_at` with the expected output length -/
def Ctx.finalize_at (P : Params W) (pr : Profile) (c : Ctx W) (outlen outLen : Nat) : Option Bytes :=
  if outLen ≠ outlen then none
  else match c.internal_final P pr with
    | none => none
    | some c => some (c.buf.take outLen)

def Ctx.finalize_reset_at (P : Params W) (pr : Profile) (c : Ctx W) (outlen outLen : Nat) : Option (Ctx W × Bytes) :=
  if outLen ≠ outlen then none
  else match c.internal_final P pr with
    | none => none
    | some c => some (c.reset P outlen, c.buf.take outLen)

def Ctx.finalize_reset_with_key_at (P : Params W) (pr : Profile) (c : Ctx W) (outlen : Nat) (key : Bytes) (outLen : Nat) :
    Option (Ctx W × Bytes) :=
  if outLen ≠ outlen then none
  else match c.internal_final P pr with
    | none => none
    | some c' =>
      match c'.reset_with_key P outlen key with
      | none => none
      | some c'' => some (c'', c'.buf.take outLen)

/-! ### `Context<BITS>`: the const generic is an explicit argument, `outlen = (BITS + 7) / 8` -/

abbrev Context (W : Type) := Ctx W

def Context.outlen (BITS : Nat) : Nat := (BITS + 7) / 8

/-- `assert!(BITS > 0 && ((BITS + 7) / 8) <= MAX_OUTLEN); assert!(key.len() <= MAX_KEYLEN)` -/
def Context.new_keyed (P : Params W) (BITS : Nat) (key : Bytes) : Option (Context W) :=
  if ¬ (BITS > 0 ∧ Context.outlen BITS ≤ P.maxOut) then none
  else Ctx.new_keyed P (Context.outlen BITS) key

def Context.new (P : Params W) (BITS : Nat) : Option (Context W) :=
  if ¬ (BITS > 0 ∧ Context.outlen BITS ≤ P.maxOut) then none
  else Context.new_keyed P BITS []

def Context.update_mut (P : Params W) (pr : Profile) (c : Context W) (input : Bytes) : Option (Context W) :=
  Ctx.update_mut P pr c input
def Context.update (P : Params W) (pr : Profile) (c : Context W) (input : Bytes) : Option (Context W) :=
  Ctx.update_mut P pr c input
def Context.finalize_at (P : Params W) (pr : Profile) (BITS : Nat) (c : Context W) (outLen : Nat) : Option Bytes :=
  Ctx.finalize_at P pr c (Context.outlen BITS) outLen
def Context.finalize_reset_at (P : Params W) (pr : Profile) (BITS : Nat) (c : Context W) (outLen : Nat) :
    Option (Context W × Bytes) :=
  Ctx.finalize_reset_at P pr c (Context.outlen BITS) outLen
def Context.finalize_reset_with_key_at (P : Params W) (pr : Profile) (BITS : Nat) (c : Context W) (key : Bytes)
    (outLen : Nat) : Option (Context W × Bytes) :=
  Ctx.finalize_reset_with_key_at P pr c (Context.outlen BITS) key outLen
def Context.reset (P : Params W) (BITS : Nat) (c : Context W) : Context W := Ctx.reset P c (Context.outlen BITS)
def Context.reset_with_key (P : Params W) (BITS : Nat) (c : Context W) (key : Bytes) : Option (Context W) :=
  Ctx.reset_with_key P c (Context.outlen BITS) key
/-- `finalize()` / `finalize_reset()` / `finalize_reset_with_key()` of `context_finalize!($size)`: `out = [0; $size / 8]` -/
def Context.finalize (P : Params W) (pr : Profile) (BITS : Nat) (c : Context W) : Option Bytes :=
  Context.finalize_at P pr BITS c (BITS / 8)
def Context.finalize_reset (P : Params W) (pr : Profile) (BITS : Nat) (c : Context W) : Option (Context W × Bytes) :=
  Context.finalize_reset_at P pr BITS c (BITS / 8)
def Context.finalize_reset_with_key (P : Params W) (pr : Profile) (BITS : Nat) (c : Context W) (key : Bytes) :
    Option (Context W × Bytes) :=
  Context.finalize_reset_with_key_at P pr BITS c key (BITS / 8)

/-! ### `ContextDyn` -/

structure ContextDyn (W : Type) where
  ctx : Ctx W
  outlen : Nat

def ContextDyn.new_keyed (P : Params W) (output_bytes : Nat) (key : Bytes) : Option (ContextDyn W) :=
  match Ctx.new_keyed P output_bytes key with
  | none => none
  | some c => some { ctx := c, outlen := output_bytes }

def ContextDyn.new (P : Params W) (output_bytes : Nat) : Option (ContextDyn W) :=
  if ¬ (output_bytes > 0 ∧ output_bytes ≤ P.maxOut) then none
  else ContextDyn.new_keyed P output_bytes []

def ContextDyn.update_mut (P : Params W) (pr : Profile) (c : ContextDyn W) (input : Bytes) : Option (ContextDyn W) :=
  match c.ctx.update_mut P pr input with
  | none => none
  | some x => some { c with ctx := x }
def ContextDyn.update (P : Params W) (pr : Profile) (c : ContextDyn W) (input : Bytes) : Option (ContextDyn W) :=
  ContextDyn.update_mut P pr c input
def ContextDyn.finalize_at (P : Params W) (pr : Profile) (c : ContextDyn W) (outLen : Nat) : Option Bytes :=
  c.ctx.finalize_at P pr c.outlen outLen
def ContextDyn.finalize_reset_at (P : Params W) (pr : Profile) (c : ContextDyn W) (outLen : Nat) :
    Option (ContextDyn W × Bytes) :=
  match c.ctx.finalize_reset_at P pr c.outlen outLen with
  | none => none
  | some (x, out) => some ({ c with ctx := x }, out)
def ContextDyn.finalize_reset_with_key_at (P : Params W) (pr : Profile) (c : ContextDyn W) (key : Bytes) (outLen : Nat) :
    Option (ContextDyn W × Bytes) :=
  match c.ctx.finalize_reset_with_key_at P pr c.outlen key outLen with
  | none => none
  | some (x, out) => some ({ c with ctx := x }, out)
def ContextDyn.reset (P : Params W) (c : ContextDyn W) : ContextDyn W := { c with ctx := c.ctx.reset P c.outlen }
def ContextDyn.reset_with_key (P : Params W) (c : ContextDyn W) (key : Bytes) : Option (ContextDyn W) :=
  match c.ctx.reset_with_key P c.outlen key with
  | none => none
  | some x => some { c with ctx := x }
def ContextDyn.output_bits (c : ContextDyn W) : Nat := c.outlen * 8

/-- one-shot through `ContextDyn`: `new_keyed(outlen, key).update(msg).finalize_at(&mut [0; outlen])` -/
def blake2_dyn (P : Params W) (pr : Profile) (outlen : Nat) (key msg : Bytes) : Option Bytes :=
  match ContextDyn.new_keyed P outlen key with
  | none => none
  | some c =>
    match c.update P pr msg with
    | none => none
    | some c => c.finalize_at P pr outlen

/-- one-shot through `Context<BITS>`: `new_keyed(key).update(msg).finalize_at(&mut [0; (BITS+7)/8])` -/
def blake2_ctx (P : Params W) (pr : Profile) (BITS : Nat) (key msg : Bytes) : Option Bytes :=
  match Context.new_keyed P BITS key with
  | none => none
  | some c =>
    match Context.update P pr c msg with
    | none => none
    | some c => Context.finalize_at P pr BITS c (Context.outlen BITS)

/-- `hashing::blake2b_224 … blake2b_512, blake2s_224, blake2s_256`: `Blake2x::<BITS>::new().update(input).finalize()` -/
def hashing_blake2 (P : Params W) (pr : Profile) (BITS : Nat) (input : Bytes) : Option Bytes :=
  match Context.new P BITS with
  | none => none
  | some c =>
    match Context.update P pr c input with
    | none => none
    | some c => Context.finalize P pr BITS c

end generic

def blake2b (pr : Profile) (outlen : Nat) (key msg : Bytes) : Option Bytes := blake2_dyn b pr outlen key msg
def blake2s (pr : Profile) (outlen : Nat) (key msg : Bytes) : Option Bytes := blake2_dyn s pr outlen key msg
def blake2b_ctx (pr : Profile) (BITS : Nat) (key msg : Bytes) : Option Bytes := blake2_ctx b pr BITS key msg
def blake2s_ctx (pr : Profile) (BITS : Nat) (key msg : Bytes) : Option Bytes := blake2_ctx s pr BITS key msg

end Cx.Impl.Blake2
