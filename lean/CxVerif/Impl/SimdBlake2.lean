/-
  Impl.SimdBlake2 — lane model of the vectorised BLAKE2 compressions of /repo/src/hashing/blake2/
    avx.rs   `compress_b` / `compress_b_avx` (BLAKE2b on eight `__m128i` = 2 × u64 half rows) and
             `compress_s` / `compress_s_avx` (BLAKE2s on four `__m128i` = 4 × u32 rows)
    avx2.rs  `compress_b` / `compress_b_avx2` (BLAKE2b on four `__m256i` = 4 × u64 rows, rotating a, c, d)
    mod.rs   the compile-time dispatch of `EngineB::compress` / `EngineS::compress`
  One `def` per Rust fn / macro, same names.  A `__m128i` is `V2x64` (two u64 lanes) or `V4x32` (four u32 lanes), a
  `__m256i` is `V4x64` (lanes 0,1 = low 128-bit half); every intrinsic is a function on lanes, with its immediate.
  Everything that is *data* in the source is taken from Extracted/Simd.lean (re-extracted on every run): the pshufb
  masks and immediates of the rotations, the `_MM_SHUFFLE` immediates of DIAGONALIZE/UNDIAGONALIZE, the
  message-gathering macros `load0! … load9!` (postfix programs over the shuffle intrinsics, run by `runProg`) and the
  sequence of `ROUND!` invocations.  `none` = the model refuses (malformed extracted program); Props/C16/Blake2.lean
  proves this never happens and that every compression equals `Impl.Blake2.reference_compress`.

  Memory: `_mm_loadu_si128(block.add(k))` of a little-endian machine = message words 2k, 2k+1 (`Spec.Blake2.loadWords`);
  `_mm_load_si128(h.add(k))` / `_mm256_load_si256` (ALIGNED loads of the chaining value; alignment is promised by
  `#[repr(align(32))]` on EngineB/EngineS) are modelled as plain loads — a misaligned `h` would fault in the real
  binary, which only the correspondence run can observe.

  -- API:
  --   Cx.Impl.SimdBlake2.avx_compress_b / avx2_compress_b : Vector UInt64 8 → Nat → Nat → Bytes → LastBlock → Option (Vector UInt64 8)
  --   Cx.Impl.SimdBlake2.avx_compress_s                   : Vector UInt32 8 → Nat → Nat → Bytes → LastBlock → Option (Vector UInt32 8)
  --   EngineB.compress / EngineS.compress (ft : Features)  the dispatch of mod.rs
  --   CtxW.* : the Context/ContextDyn paths of Impl.Blake2 with the compression function as a parameter
  --   blake2b_with / blake2s_with ft outlen key counter pieces : Option Bytes   (what op `simd.blake2b/s` runs)
-/
import CxVerif.Impl.Blake2
import CxVerif.Impl.SimdLanes
import CxVerif.Extracted.Simd
namespace Cx.Impl.SimdBlake2
open Cx Cx.Impl.Simd
open Cx.Spec.Blake2 (Word Params loadWords toLE)
open Cx.Impl.Blake2 (LastBlock Profile Engine Ctx setSlice zeroFrom)

/-! ## lane vectors -/

/-- `__m128i` as two 64-bit lanes (lane 0 = low half) -/
structure V2x64 where
  l0 : UInt64
  l1 : UInt64
deriving DecidableEq, Repr

/-- `__m128i` as four 32-bit lanes -/
structure V4x32 where
  l0 : UInt32
  l1 : UInt32
  l2 : UInt32
  l3 : UInt32
deriving DecidableEq, Repr

/-- `__m256i` as four 64-bit lanes; lanes 0,1 are the low 128-bit half, lanes 2,3 the high half -/
structure V4x64 where
  l0 : UInt64
  l1 : UInt64
  l2 : UInt64
  l3 : UInt64
deriving DecidableEq, Repr

/-- the generic postfix machine of the message-gathering programs: `[0, k]` pushes `m_k`, any other `[op, imm]` is an
    intrinsic applied to the top of the stack (`step`); a program must leave exactly one value -/
def runProg {V : Type} (m : Nat → Option V) (step : Nat → Nat → List V → Option (List V)) :
    List (List Nat) → List V → Option V
  | [], [v] => some v
  | [], _ => none
  | [op, imm] :: rest, st =>
    if op = 0 then
      match m imm with
      | some v => runProg m step rest (v :: st)
      | none => none
    else
      match step op imm st with
      | some st' => runProg m step rest st'
      | none => none
  | _ :: _, _ => none

/-- all programs of one `loadN!` -/
def runLoad {V : Type} (m : Nat → Option V) (step : Nat → Nat → List V → Option (List V))
    (progs : List (List (List Nat))) : Option (List V) :=
  progs.mapM fun p => runProg m step p []

/-! ## `__m128i` = 2 × u64  (BLAKE2b, avx.rs) -/
namespace V2x64

def add (a b : V2x64) : V2x64 := ⟨a.l0 + b.l0, a.l1 + b.l1⟩            -- _mm_add_epi64
def xor (a b : V2x64) : V2x64 := ⟨a.l0 ^^^ b.l0, a.l1 ^^^ b.l1⟩        -- _mm_xor_si128
def or (a b : V2x64) : V2x64 := ⟨a.l0 ||| b.l0, a.l1 ||| b.l1⟩         -- _mm_or_si128
/-- `_mm_srli_epi64(a, n)`: counts above 63 give zero -/
def srli (a : V2x64) (n : Nat) : V2x64 :=
  if n ≥ 64 then ⟨0, 0⟩ else ⟨a.l0 >>> UInt64.ofNat n, a.l1 >>> UInt64.ofNat n⟩
def slli (a : V2x64) (n : Nat) : V2x64 :=
  if n ≥ 64 then ⟨0, 0⟩ else ⟨a.l0 <<< UInt64.ofNat n, a.l1 <<< UInt64.ofNat n⟩
def alg : ShiftAlg V2x64 := ⟨srli, slli, add, xor, or⟩

def toNat128 (v : V2x64) : Nat := v.l0.toNat + 2 ^ 64 * v.l1.toNat
def ofNat128 (n : Nat) : V2x64 := ⟨UInt64.ofNat (n % 2 ^ 64), UInt64.ofNat (n / 2 ^ 64 % 2 ^ 64)⟩

def unpacklo_epi64 (a b : V2x64) : V2x64 := ⟨a.l0, b.l0⟩
def unpackhi_epi64 (a b : V2x64) : V2x64 := ⟨a.l1, b.l1⟩

/-- `_mm_alignr_epi8(a, b, imm)`: the 32-byte value `a:b` shifted right by `imm` bytes, low 16 bytes
    (`imm = 8`, the only count the source uses, is the lane move `⟨b.l1, a.l0⟩`) -/
def alignr_epi8 (a b : V2x64) (imm : Nat) : V2x64 :=
  if imm = 8 then ⟨b.l1, a.l0⟩
  else ofNat128 ((toNat128 a * 2 ^ 128 + toNat128 b) / 2 ^ (8 * imm))

/-- the 16-bit word mask selected by four immediate bits -/
def mask16 (nib : Nat) : UInt64 :=
  (if nib.testBit 0 then 0xFFFF else 0) ||| (if nib.testBit 1 then 0xFFFF0000 else 0) |||
  (if nib.testBit 2 then 0xFFFF00000000 else 0) ||| (if nib.testBit 3 then 0xFFFF000000000000 else 0)

/-- one 64-bit lane of `_mm_blend_epi16`: immediate bits `nib` choose each of the four 16-bit words from `b` (1) or `a` (0) -/
def blendLane (a b : UInt64) (nib : Nat) : UInt64 :=
  if nib = 0 then a else if nib = 15 then b else (a &&& ~~~ mask16 nib) ||| (b &&& mask16 nib)

def blend_epi16 (a b : V2x64) (imm : Nat) : V2x64 :=
  ⟨blendLane a.l0 b.l0 (imm % 16), blendLane a.l1 b.l1 (imm / 16 % 16)⟩

def lane (v : V2x64) (i : Nat) : UInt64 := if i = 0 then v.l0 else v.l1
/-- 32-bit element `i` (0..3), zero-extended -/
def dword (v : V2x64) (i : Nat) : UInt64 :=
  match i with
  | 0 => v.l0 &&& 0xFFFFFFFF
  | 1 => v.l0 >>> 32
  | 2 => v.l1 &&& 0xFFFFFFFF
  | _ => v.l1 >>> 32
/-- a 64-bit result lane made of source dwords `i` (low half) and `j` (high half); an aligned pair is the lane itself -/
def pick (v : V2x64) (i j : Nat) : UInt64 :=
  if i % 2 = 0 ∧ j = i + 1 then lane v (i / 2) else dword v i ||| (dword v j <<< 32)

/-- `_mm_shuffle_epi32(v, imm)`: result dword k = source dword `(imm >> 2k) & 3` -/
def shuffle_epi32 (v : V2x64) (imm : Nat) : V2x64 :=
  ⟨pick v (imm % 4) (imm / 4 % 4), pick v (imm / 16 % 4) (imm / 64 % 4)⟩

/-- `_mm_shuffle_epi8(v, mask)` -/
def shuffle_epi8 (v : V2x64) (mask : List Nat) : V2x64 :=
  let r := pshufb16 (bytes64 v.l0 ++ bytes64 v.l1) mask
  ⟨ofBytes64 (r.take 8), ofBytes64 (r.drop 8)⟩

/-- the intrinsics of the gather programs of `compress_b_avx` -/
def step (op imm : Nat) (st : List V2x64) : Option (List V2x64) :=
  match op, st with
  | 1, b :: a :: r => some (unpacklo_epi64 a b :: r)
  | 2, b :: a :: r => some (unpackhi_epi64 a b :: r)
  | 3, b :: a :: r => some (alignr_epi8 a b imm :: r)
  | 4, b :: a :: r => some (blend_epi16 a b imm :: r)
  | 5, a :: r => some (shuffle_epi32 a imm :: r)
  | _, _ => none

end V2x64

/-! ## `__m128i` = 4 × u32  (BLAKE2s, avx.rs) -/
namespace V4x32

def add (a b : V4x32) : V4x32 := ⟨a.l0 + b.l0, a.l1 + b.l1, a.l2 + b.l2, a.l3 + b.l3⟩          -- _mm_add_epi32
def xor (a b : V4x32) : V4x32 := ⟨a.l0 ^^^ b.l0, a.l1 ^^^ b.l1, a.l2 ^^^ b.l2, a.l3 ^^^ b.l3⟩  -- _mm_xor_si128
def or (a b : V4x32) : V4x32 := ⟨a.l0 ||| b.l0, a.l1 ||| b.l1, a.l2 ||| b.l2, a.l3 ||| b.l3⟩
def map (f : UInt32 → UInt32) (a : V4x32) : V4x32 := ⟨f a.l0, f a.l1, f a.l2, f a.l3⟩
def srli (a : V4x32) (n : Nat) : V4x32 := if n ≥ 32 then ⟨0, 0, 0, 0⟩ else map (· >>> UInt32.ofNat n) a
def slli (a : V4x32) (n : Nat) : V4x32 := if n ≥ 32 then ⟨0, 0, 0, 0⟩ else map (· <<< UInt32.ofNat n) a
def alg : ShiftAlg V4x32 := ⟨srli, slli, add, xor, or⟩

def get (v : V4x32) (i : Nat) : UInt32 :=
  match i with
  | 0 => v.l0
  | 1 => v.l1
  | 2 => v.l2
  | _ => v.l3

def toNat128 (v : V4x32) : Nat := v.l0.toNat + 2 ^ 32 * v.l1.toNat + 2 ^ 64 * v.l2.toNat + 2 ^ 96 * v.l3.toNat
def ofNat128 (n : Nat) : V4x32 :=
  ⟨UInt32.ofNat (n % 2 ^ 32), UInt32.ofNat (n / 2 ^ 32 % 2 ^ 32), UInt32.ofNat (n / 2 ^ 64 % 2 ^ 32),
   UInt32.ofNat (n / 2 ^ 96 % 2 ^ 32)⟩

def shuffle_epi32 (v : V4x32) (imm : Nat) : V4x32 :=
  ⟨get v (imm % 4), get v (imm / 4 % 4), get v (imm / 16 % 4), get v (imm / 64 % 4)⟩
/-- `_mm_shuffle_ps(a, b, imm)` through the casts: two elements of `a`, then two of `b` -/
def shuffle_ps (a b : V4x32) (imm : Nat) : V4x32 :=
  ⟨get a (imm % 4), get a (imm / 4 % 4), get b (imm / 16 % 4), get b (imm / 64 % 4)⟩

def unpacklo_epi64 (a b : V4x32) : V4x32 := ⟨a.l0, a.l1, b.l0, b.l1⟩
def unpackhi_epi64 (a b : V4x32) : V4x32 := ⟨a.l2, a.l3, b.l2, b.l3⟩
def unpacklo_epi32 (a b : V4x32) : V4x32 := ⟨a.l0, b.l0, a.l1, b.l1⟩
def unpackhi_epi32 (a b : V4x32) : V4x32 := ⟨a.l2, b.l2, a.l3, b.l3⟩

/-- one 32-bit lane of `_mm_blend_epi16`: two immediate bits (low word, high word) -/
def blendLane (a b : UInt32) (p : Nat) : UInt32 :=
  if p = 0 then a else if p = 3 then b
  else if p = 1 then (a &&& 0xFFFF0000) ||| (b &&& 0xFFFF)
  else (a &&& 0xFFFF) ||| (b &&& 0xFFFF0000)

def blend_epi16 (a b : V4x32) (imm : Nat) : V4x32 :=
  ⟨blendLane a.l0 b.l0 (imm % 4), blendLane a.l1 b.l1 (imm / 4 % 4),
   blendLane a.l2 b.l2 (imm / 16 % 4), blendLane a.l3 b.l3 (imm / 64 % 4)⟩

/-- `_mm_slli_si128(v, n)`: the whole register shifted left by `n` BYTES -/
def slli_si128 (v : V4x32) (n : Nat) : V4x32 :=
  if n = 0 then v else if n = 4 then ⟨0, v.l0, v.l1, v.l2⟩ else if n = 8 then ⟨0, 0, v.l0, v.l1⟩
  else if n = 12 then ⟨0, 0, 0, v.l0⟩ else if n ≥ 16 then ⟨0, 0, 0, 0⟩
  else ofNat128 (toNat128 v * 2 ^ (8 * n) % 2 ^ 128)

/-- `_mm_srli_si128(v, n)`: shifted right by `n` bytes -/
def srli_si128 (v : V4x32) (n : Nat) : V4x32 :=
  if n = 0 then v else if n = 4 then ⟨v.l1, v.l2, v.l3, 0⟩ else if n = 8 then ⟨v.l2, v.l3, 0, 0⟩
  else if n = 12 then ⟨v.l3, 0, 0, 0⟩ else if n ≥ 16 then ⟨0, 0, 0, 0⟩
  else ofNat128 (toNat128 v / 2 ^ (8 * n))

/-- 16-bit word `i` (0..3) of the high 64 bits, zero-extended -/
def hiword (v : V4x32) (i : Nat) : UInt32 :=
  match i with
  | 0 => v.l2 &&& 0xFFFF
  | 1 => v.l2 >>> 16
  | 2 => v.l3 &&& 0xFFFF
  | _ => v.l3 >>> 16
def pick16 (v : V4x32) (i j : Nat) : UInt32 :=
  if i % 2 = 0 ∧ j = i + 1 then (if i / 2 = 0 then v.l2 else v.l3) else hiword v i ||| (hiword v j <<< 16)
/-- `_mm_shufflehi_epi16(v, imm)`: low 64 bits copied, the four high 16-bit words selected by `imm` -/
def shufflehi_epi16 (v : V4x32) (imm : Nat) : V4x32 :=
  ⟨v.l0, v.l1, pick16 v (imm % 4) (imm / 4 % 4), pick16 v (imm / 16 % 4) (imm / 64 % 4)⟩

def shuffle_epi8 (v : V4x32) (mask : List Nat) : V4x32 :=
  let r := pshufb16 (bytes32 v.l0 ++ bytes32 v.l1 ++ bytes32 v.l2 ++ bytes32 v.l3) mask
  ⟨ofBytes32 (r.take 4), ofBytes32 ((r.drop 4).take 4), ofBytes32 ((r.drop 8).take 4), ofBytes32 (r.drop 12)⟩

/-- the intrinsics of the gather programs of `compress_s_avx` -/
def step (op imm : Nat) (st : List V4x32) : Option (List V4x32) :=
  match op, st with
  | 1, b :: a :: r => some (unpacklo_epi64 a b :: r)
  | 2, b :: a :: r => some (unpackhi_epi64 a b :: r)
  | 4, b :: a :: r => some (blend_epi16 a b imm :: r)
  | 5, a :: r => some (shuffle_epi32 a imm :: r)
  | 6, a :: r => some (slli_si128 a imm :: r)
  | 7, a :: r => some (srli_si128 a imm :: r)
  | 8, b :: a :: r => some (unpacklo_epi32 a b :: r)
  | 9, b :: a :: r => some (unpackhi_epi32 a b :: r)
  | 10, b :: a :: r => some (shuffle_ps a b imm :: r)
  | 11, a :: r => some (shufflehi_epi16 a imm :: r)
  | _, _ => none

end V4x32

/-! ## `__m256i` = 4 × u64  (BLAKE2b, avx2.rs); most intrinsics act on the two 128-bit halves separately -/
namespace V4x64

def lo (v : V4x64) : V2x64 := ⟨v.l0, v.l1⟩
def hi (v : V4x64) : V2x64 := ⟨v.l2, v.l3⟩
def ofHalves (l h : V2x64) : V4x64 := ⟨l.l0, l.l1, h.l0, h.l1⟩

def add (a b : V4x64) : V4x64 := ⟨a.l0 + b.l0, a.l1 + b.l1, a.l2 + b.l2, a.l3 + b.l3⟩          -- _mm256_add_epi64
def xor (a b : V4x64) : V4x64 := ⟨a.l0 ^^^ b.l0, a.l1 ^^^ b.l1, a.l2 ^^^ b.l2, a.l3 ^^^ b.l3⟩  -- _mm256_xor_si256
def or (a b : V4x64) : V4x64 := ⟨a.l0 ||| b.l0, a.l1 ||| b.l1, a.l2 ||| b.l2, a.l3 ||| b.l3⟩   -- _mm256_or_si256
def srli (a : V4x64) (n : Nat) : V4x64 := ofHalves (V2x64.srli a.lo n) (V2x64.srli a.hi n)
def slli (a : V4x64) (n : Nat) : V4x64 := ofHalves (V2x64.slli a.lo n) (V2x64.slli a.hi n)
def alg : ShiftAlg V4x64 := ⟨srli, slli, add, xor, or⟩

def get (v : V4x64) (i : Nat) : UInt64 :=
  match i with
  | 0 => v.l0
  | 1 => v.l1
  | 2 => v.l2
  | _ => v.l3

/-- `_mm256_broadcastsi128_si256` -/
def broadcastsi128 (x : V2x64) : V4x64 := ⟨x.l0, x.l1, x.l0, x.l1⟩
/-- `_mm256_permute4x64_epi64(v, imm)`: lane k = source lane `(imm >> 2k) & 3` (crosses the halves) -/
def permute4x64_epi64 (v : V4x64) (imm : Nat) : V4x64 :=
  ⟨get v (imm % 4), get v (imm / 4 % 4), get v (imm / 16 % 4), get v (imm / 64 % 4)⟩

def unpacklo_epi64 (a b : V4x64) : V4x64 := ⟨a.l0, b.l0, a.l2, b.l2⟩
def unpackhi_epi64 (a b : V4x64) : V4x64 := ⟨a.l1, b.l1, a.l3, b.l3⟩
def alignr_epi8 (a b : V4x64) (imm : Nat) : V4x64 :=
  ofHalves (V2x64.alignr_epi8 a.lo b.lo imm) (V2x64.alignr_epi8 a.hi b.hi imm)
def shuffle_epi32 (v : V4x64) (imm : Nat) : V4x64 :=
  ofHalves (V2x64.shuffle_epi32 v.lo imm) (V2x64.shuffle_epi32 v.hi imm)

/-- one 64-bit lane of `_mm256_blend_epi32`: two immediate bits (low dword, high dword) -/
def blendLane (a b : UInt64) (p : Nat) : UInt64 :=
  if p = 0 then a else if p = 3 then b
  else if p = 1 then (a &&& 0xFFFFFFFF00000000) ||| (b &&& 0xFFFFFFFF)
  else (a &&& 0xFFFFFFFF) ||| (b &&& 0xFFFFFFFF00000000)
def blend_epi32 (a b : V4x64) (imm : Nat) : V4x64 :=
  ⟨blendLane a.l0 b.l0 (imm % 4), blendLane a.l1 b.l1 (imm / 4 % 4),
   blendLane a.l2 b.l2 (imm / 16 % 4), blendLane a.l3 b.l3 (imm / 64 % 4)⟩

/-- `_mm256_shuffle_epi8(v, mask)`: each 128-bit half is shuffled by its own 16 selectors, within itself -/
def shuffle_epi8 (v : V4x64) (mask : List Nat) : V4x64 :=
  ofHalves (V2x64.shuffle_epi8 v.lo (mask.take 16)) (V2x64.shuffle_epi8 v.hi (mask.drop 16))

/-- the intrinsics of the gather programs of `compress_b_avx2` -/
def step (op imm : Nat) (st : List V4x64) : Option (List V4x64) :=
  match op, st with
  | 1, b :: a :: r => some (unpacklo_epi64 a b :: r)
  | 2, b :: a :: r => some (unpackhi_epi64 a b :: r)
  | 3, b :: a :: r => some (alignr_epi8 a b imm :: r)
  | 5, a :: r => some (shuffle_epi32 a imm :: r)
  | 12, b :: a :: r => some (blend_epi32 a b imm :: r)
  | _, _ => none

end V4x64

open Extracted.Simd

/-! ## avx.rs — BLAKE2b -/
namespace AvxB

def rotate16_epi64 (r : V2x64) : V2x64 := r.shuffle_epi8 B_ROT16_MASK
def rotate24_epi64 (r : V2x64) : V2x64 := r.shuffle_epi8 B_ROT24_MASK
def rotate32_epi64 (r : V2x64) : V2x64 := r.shuffle_epi32 B_ROT32_IMM
/-- `_mm_xor_si128(_mm_srli_epi64(r, 63), _mm_slli_epi64(r, 64 - 63))` -/
def rotate63_epi64 (r : V2x64) : Option V2x64 := shiftTerms V2x64.alg (ROT_KINDS.getD 0 9) B_ROT63 r

/-- the eight row registers of `compress_b_avx` -/
structure Rows where
  row1l : V2x64
  row1h : V2x64
  row2l : V2x64
  row2h : V2x64
  row3l : V2x64
  row3h : V2x64
  row4l : V2x64
  row4h : V2x64
deriving DecidableEq, Repr

/-- macro `G!($b0, $b1, $rot1, $rot2)` -/
def G (s : Rows) (b0 b1 : V2x64) (rot1 rot2 : V2x64 → V2x64) : Rows :=
  let row1l := (s.row1l.add b0).add s.row2l
  let row1h := (s.row1h.add b1).add s.row2h
  let row4l := s.row4l.xor row1l
  let row4h := s.row4h.xor row1h
  let row4l := rot1 row4l
  let row4h := rot1 row4h
  let row3l := s.row3l.add row4l
  let row3h := s.row3h.add row4h
  let row2l := s.row2l.xor row3l
  let row2h := s.row2h.xor row3h
  let row2l := rot2 row2l
  let row2h := rot2 row2h
  ⟨row1l, row1h, row2l, row2h, row3l, row3h, row4l, row4h⟩

/-- `G1!` = `G!(b0, b1, rotate32_epi64, rotate24_epi64)` -/
def G1 (s : Rows) (b0 b1 : V2x64) : Rows := G s b0 b1 rotate32_epi64 rotate24_epi64
/-- `G2!` = `G!(b0, b1, rotate16_epi64, rotate63_epi64)`; `rot63` is the (total) value of `rotate63_epi64` -/
def G2 (rot63 : V2x64 → V2x64) (s : Rows) (b0 b1 : V2x64) : Rows := G s b0 b1 rotate16_epi64 rot63

/-- macro `DIAGONALIZE!()` -/
def DIAGONALIZE (s : Rows) : Rows :=
  let t0 := V2x64.alignr_epi8 s.row2h s.row2l 8
  let t1 := V2x64.alignr_epi8 s.row2l s.row2h 8
  let row2l := t0
  let row2h := t1
  let t0 := s.row3l
  let row3l := s.row3h
  let row3h := t0
  let t0 := V2x64.alignr_epi8 s.row4h s.row4l 8
  let t1 := V2x64.alignr_epi8 s.row4l s.row4h 8
  let row4l := t1
  let row4h := t0
  ⟨s.row1l, s.row1h, row2l, row2h, row3l, row3h, row4l, row4h⟩

/-- macro `UNDIAGONALIZE!()` -/
def UNDIAGONALIZE (s : Rows) : Rows :=
  let t0 := V2x64.alignr_epi8 s.row2l s.row2h 8
  let t1 := V2x64.alignr_epi8 s.row2h s.row2l 8
  let row2l := t0
  let row2h := t1
  let t0 := s.row3l
  let row3l := s.row3h
  let row3h := t0
  let t0 := V2x64.alignr_epi8 s.row4l s.row4h 8
  let t1 := V2x64.alignr_epi8 s.row4h s.row4l 8
  let row4l := t1
  let row4h := t0
  ⟨s.row1l, s.row1h, row2l, row2h, row3l, row3h, row4l, row4h⟩

/-- macro `ROUND!($load)` with the eight gathered vectors -/
def ROUND (rot63 : V2x64 → V2x64) (s : Rows) (b : List V2x64) : Option Rows :=
  match b with
  | [b0, b1, b2, b3, b4, b5, b6, b7] =>
    let s := G1 s b0 b1
    let s := G2 rot63 s b2 b3
    let s := DIAGONALIZE s
    let s := G1 s b4 b5
    let s := G2 rot63 s b6 b7
    some (UNDIAGONALIZE s)
  | _ => none

/-- `m0 … m7` = `_mm_loadu_si128(block.add(k))` -/
def msgVecs (w : Vector UInt64 16) : List V2x64 :=
  [⟨w[0], w[1]⟩, ⟨w[2], w[3]⟩, ⟨w[4], w[5]⟩, ⟨w[6], w[7]⟩, ⟨w[8], w[9]⟩, ⟨w[10], w[11]⟩, ⟨w[12], w[13]⟩, ⟨w[14], w[15]⟩]

/-- macro `loadR!()` -/
def load (m : List V2x64) (r : Nat) : Option (List V2x64) :=
  match B_AVX_LOADS[r]? with
  | none => none
  | some progs => runLoad (fun k => m[k]?) V2x64.step progs

/-- the sequence `ROUND!(load0!()); … ROUND!(load1!());` -/
def rounds (rot63 : V2x64 → V2x64) (m : List V2x64) : Rows → List Nat → Option Rows
  | s, [] => some s
  | s, r :: rs =>
    match load m r with
    | none => none
    | some b =>
      match ROUND rot63 s b with
      | none => none
      | some s => rounds rot63 m s rs

/-- `compress_b_avx(h, block, iv, t, f)` -/
def compress_b_avx (h : Vector UInt64 8) (block : Bytes) (iv : Vector UInt64 8) (t f : V2x64) : Option (Vector UInt64 8) :=
  -- `rotate63_epi64` must be well formed on every input; probe it once to obtain the total function
  match rotate63_epi64 ⟨0, 0⟩ with
  | none => none
  | some _ =>
    let rot63 : V2x64 → V2x64 := fun r => (rotate63_epi64 r).getD r
    let m := msgVecs (loadWords block)
    let row1l : V2x64 := ⟨h[0], h[1]⟩
    let row1h : V2x64 := ⟨h[2], h[3]⟩
    let row2l : V2x64 := ⟨h[4], h[5]⟩
    let row2h : V2x64 := ⟨h[6], h[7]⟩
    let row3l : V2x64 := ⟨iv[0], iv[1]⟩
    let row3h : V2x64 := ⟨iv[2], iv[3]⟩
    let row4l : V2x64 := V2x64.xor ⟨iv[4], iv[5]⟩ t
    let row4h : V2x64 := V2x64.xor ⟨iv[6], iv[7]⟩ f
    let orig_a0 := row1l
    let orig_a1 := row1h
    let orig_b0 := row2l
    let orig_b1 := row2h
    match rounds rot63 m ⟨row1l, row1h, row2l, row2h, row3l, row3h, row4l, row4h⟩ B_AVX_ROUNDS with
    | none => none
    | some s =>
      let row1l := s.row3l.xor s.row1l
      let row1h := s.row3h.xor s.row1h
      let o0 := orig_a0.xor row1l
      let o1 := orig_a1.xor row1h
      let row2l := s.row4l.xor s.row2l
      let row2h := s.row4h.xor s.row2h
      let o2 := orig_b0.xor row2l
      let o3 := orig_b1.xor row2h
      some #v[o0.l0, o0.l1, o1.l0, o1.l1, o2.l0, o2.l1, o3.l0, o3.l1]

end AvxB

/-- `avx::compress_b(h, t, buf, last)`: `t` is loaded as the two u64 lanes of `[u64; 2]`;
    `f = _mm_set_epi64x(0, -1i64)` (high lane 0, low lane all ones) for the last block, zero otherwise -/
def avx_compress_b (h : Vector UInt64 8) (t0 t1 : Nat) (buf : Bytes) (last : LastBlock) : Option (Vector UInt64 8) :=
  let t : V2x64 := ⟨UInt64.ofNat t0, UInt64.ofNat t1⟩
  let f : V2x64 := if last = LastBlock.Yes then ⟨0xFFFFFFFFFFFFFFFF, 0⟩ else ⟨0, 0⟩
  AvxB.compress_b_avx h buf Impl.Blake2.b.iv t f

/-! ## avx.rs — BLAKE2s -/
namespace AvxS

def rotate7_epi32 (r : V4x32) : Option V4x32 := shiftTerms V4x32.alg (ROT_KINDS.getD 1 9) S_ROT7 r
def rotate12_epi32 (r : V4x32) : Option V4x32 := shiftTerms V4x32.alg (ROT_KINDS.getD 2 9) S_ROT12 r
def rotate8_epi32 (r : V4x32) : V4x32 := r.shuffle_epi8 S_ROT8_MASK
def rotate16_epi32 (r : V4x32) : V4x32 := r.shuffle_epi8 S_ROT16_MASK

structure Rows where
  row1 : V4x32
  row2 : V4x32
  row3 : V4x32
  row4 : V4x32
deriving DecidableEq, Repr

/-- macro `G!($b, $rol1, $rol2)` -/
def G (s : Rows) (b : V4x32) (rol1 rol2 : V4x32 → V4x32) : Rows :=
  let row1 := (s.row1.add b).add s.row2
  let row4 := s.row4.xor row1
  let row4 := rol1 row4
  let row3 := s.row3.add row4
  let row2 := s.row2.xor row3
  let row2 := rol2 row2
  ⟨row1, row2, row3, row4⟩

/-- the two shift-xor rotations as total functions (see `compress_s_avx`) -/
structure Rots where
  rot7 : V4x32 → V4x32
  rot12 : V4x32 → V4x32

def G1 (R : Rots) (s : Rows) (b : V4x32) : Rows := G s b rotate16_epi32 R.rot12
def G2 (R : Rots) (s : Rows) (b : V4x32) : Rows := G s b rotate8_epi32 R.rot7

/-- `rowK = _mm_shuffle_epi32(rowK, imm)` for the extracted `[K, imm]` -/
def shuffleRow (s : Rows) (e : List Nat) : Option Rows :=
  match e with
  | [2, imm] => some { s with row2 := s.row2.shuffle_epi32 imm }
  | [3, imm] => some { s with row3 := s.row3.shuffle_epi32 imm }
  | [4, imm] => some { s with row4 := s.row4.shuffle_epi32 imm }
  | _ => none

def shuffleRows : Rows → List (List Nat) → Option Rows
  | s, [] => some s
  | s, e :: es =>
    match shuffleRow s e with
    | none => none
    | some s => shuffleRows s es

def DIAGONALIZE (s : Rows) : Option Rows := shuffleRows s S_DIAG
def UNDIAGONALIZE (s : Rows) : Option Rows := shuffleRows s S_UNDIAG

/-- macro `ROUND!($r, $load)` -/
def ROUND (R : Rots) (s : Rows) (b : List V4x32) : Option Rows :=
  match b with
  | [b0, b1, b2, b3] =>
    let s := G1 R s b0
    let s := G2 R s b1
    match DIAGONALIZE s with
    | none => none
    | some s =>
      let s := G1 R s b2
      let s := G2 R s b3
      UNDIAGONALIZE s
  | _ => none

def msgVecs (w : Vector UInt32 16) : List V4x32 :=
  [⟨w[0], w[1], w[2], w[3]⟩, ⟨w[4], w[5], w[6], w[7]⟩, ⟨w[8], w[9], w[10], w[11]⟩, ⟨w[12], w[13], w[14], w[15]⟩]

def load (m : List V4x32) (r : Nat) : Option (List V4x32) :=
  match S_AVX_LOADS[r]? with
  | none => none
  | some progs => runLoad (fun k => m[k]?) V4x32.step progs

def rounds (R : Rots) (m : List V4x32) : Rows → List Nat → Option Rows
  | s, [] => some s
  | s, r :: rs =>
    match load m r with
    | none => none
    | some b =>
      match ROUND R s b with
      | none => none
      | some s => rounds R m s rs

/-- `compress_s_avx(h, block, iv, t)` -/
def compress_s_avx (h : Vector UInt32 8) (block : Bytes) (iv : Vector UInt32 8) (t : V4x32) : Option (Vector UInt32 8) :=
  match rotate7_epi32 ⟨0, 0, 0, 0⟩, rotate12_epi32 ⟨0, 0, 0, 0⟩ with
  | some _, some _ =>
    let R : Rots := ⟨fun r => (rotate7_epi32 r).getD r, fun r => (rotate12_epi32 r).getD r⟩
    let m := msgVecs (loadWords block)
    let row1 : V4x32 := ⟨h[0], h[1], h[2], h[3]⟩
    let row2 : V4x32 := ⟨h[4], h[5], h[6], h[7]⟩
    let row3 : V4x32 := ⟨iv[0], iv[1], iv[2], iv[3]⟩
    let row4 : V4x32 := V4x32.xor ⟨iv[4], iv[5], iv[6], iv[7]⟩ t
    let orig_a := row1
    let orig_b := row2
    match rounds R m ⟨row1, row2, row3, row4⟩ S_AVX_ROUNDS with
    | none => none
    | some s =>
      let o0 := orig_a.xor (s.row1.xor s.row3)
      let o1 := orig_b.xor (s.row2.xor s.row4)
      some #v[o0.l0, o0.l1, o0.l2, o0.l3, o1.l0, o1.l1, o1.l2, o1.l3]
  | _, _ => none

end AvxS

/-- `avx::compress_s(h, t, buf, last)`: `t = _mm_set_epi32(0, -1i32 or 0, t[1] as i32, t[0] as i32)`
    (arguments highest lane first): lanes `[t0, t1, f, 0]` -/
def avx_compress_s (h : Vector UInt32 8) (t0 t1 : Nat) (buf : Bytes) (last : LastBlock) : Option (Vector UInt32 8) :=
  let t : V4x32 :=
    if last = LastBlock.Yes then ⟨UInt32.ofNat t0, UInt32.ofNat t1, 0xFFFFFFFF, 0⟩
    else ⟨UInt32.ofNat t0, UInt32.ofNat t1, 0, 0⟩
  AvxS.compress_s_avx h buf Impl.Blake2.s.iv t

/-! ## avx2.rs — BLAKE2b -/
namespace Avx2B

def rot32 (v : V4x64) : V4x64 := v.shuffle_epi32 B2_ROT32_IMM
def rot16 (v : V4x64) : V4x64 := v.shuffle_epi8 B2_ROT16_MASK
def rot24 (v : V4x64) : V4x64 := v.shuffle_epi8 B2_ROT24_MASK
/-- `_mm256_or_si256(_mm256_srli_epi64(v, 63), _mm256_add_epi64(v, v))` -/
def rot63 (v : V4x64) : Option V4x64 := shiftTerms V4x64.alg (ROT_KINDS.getD 3 9) B2_ROT63 v

structure Rows where
  a : V4x64
  b : V4x64
  c : V4x64
  d : V4x64
deriving DecidableEq, Repr

/-- macro `G!($m, $rot1, $rot2)` -/
def G (s : Rows) (m : V4x64) (r1 r2 : V4x64 → V4x64) : Rows :=
  let a := s.a.add m
  let a := a.add s.b
  let d := s.d.xor a
  let d := r1 d
  let c := s.c.add d
  let b := s.b.xor c
  let b := r2 b
  ⟨a, b, c, d⟩

def G1 (s : Rows) (m : V4x64) : Rows := G s m rot32 rot24
def G2 (r63 : V4x64 → V4x64) (s : Rows) (m : V4x64) : Rows := G s m rot16 r63

/-- `x = _mm256_permute4x64_epi64(x, imm)` for the extracted `[x, imm]` (1 = a, 2 = b, 3 = c, 4 = d) -/
def permuteRow (s : Rows) (e : List Nat) : Option Rows :=
  match e with
  | [1, imm] => some { s with a := s.a.permute4x64_epi64 imm }
  | [2, imm] => some { s with b := s.b.permute4x64_epi64 imm }
  | [3, imm] => some { s with c := s.c.permute4x64_epi64 imm }
  | [4, imm] => some { s with d := s.d.permute4x64_epi64 imm }
  | _ => none

def permuteRows : Rows → List (List Nat) → Option Rows
  | s, [] => some s
  | s, e :: es =>
    match permuteRow s e with
    | none => none
    | some s => permuteRows s es

def DIAGONALIZE (s : Rows) : Option Rows := permuteRows s B2_DIAG
def UNDIAGONALIZE (s : Rows) : Option Rows := permuteRows s B2_UNDIAG

/-- macro `ROUND!($r, $load)` -/
def ROUND (r63 : V4x64 → V4x64) (s : Rows) (b : List V4x64) : Option Rows :=
  match b with
  | [b0, b1, b2, b3] =>
    let s := G1 s b0
    let s := G2 r63 s b1
    match DIAGONALIZE s with
    | none => none
    | some s =>
      let s := G1 s b2
      let s := G2 r63 s b3
      UNDIAGONALIZE s
  | _ => none

/-- `m0 … m7` = `_mm256_broadcastsi128_si256(_mm_loadu_si128(m.add(k)))` -/
def msgVecs (w : Vector UInt64 16) : List V4x64 := (AvxB.msgVecs w).map V4x64.broadcastsi128

def load (m : List V4x64) (r : Nat) : Option (List V4x64) :=
  match B_AVX2_LOADS[r]? with
  | none => none
  | some progs => runLoad (fun k => m[k]?) V4x64.step progs

def rounds (r63 : V4x64 → V4x64) (m : List V4x64) : Rows → List Nat → Option Rows
  | s, [] => some s
  | s, r :: rs =>
    match load m r with
    | none => none
    | some b =>
      match ROUND r63 s b with
      | none => none
      | some s => rounds r63 m s rs

/-- `compress_b_avx2(h, m, iv, f_and_t)` -/
def compress_b_avx2 (h : Vector UInt64 8) (block : Bytes) (iv : Vector UInt64 8) (f_and_t : V4x64) : Option (Vector UInt64 8) :=
  match rot63 ⟨0, 0, 0, 0⟩ with
  | none => none
  | some _ =>
    let r63 : V4x64 → V4x64 := fun v => (rot63 v).getD v
    let m := msgVecs (loadWords block)
    let a : V4x64 := ⟨h[0], h[1], h[2], h[3]⟩
    let b : V4x64 := ⟨h[4], h[5], h[6], h[7]⟩
    let c : V4x64 := ⟨iv[0], iv[1], iv[2], iv[3]⟩
    let d : V4x64 := V4x64.xor ⟨iv[4], iv[5], iv[6], iv[7]⟩ f_and_t
    let state_a := a
    let state_b := b
    match rounds r63 m ⟨a, b, c, d⟩ B_AVX2_ROUNDS with
    | none => none
    | some s =>
      let a := s.a.xor s.c
      let b := s.b.xor s.d
      let a := a.xor state_a
      let b := b.xor state_b
      some #v[a.l0, a.l1, a.l2, a.l3, b.l0, b.l1, b.l2, b.l3]

end Avx2B

/-- `avx2::compress_b(h, t, buf, last)`: `t_and_f = _mm256_set_epi64x(0, -1i64 or 0, t[1] as i64, t[0] as i64)` -/
def avx2_compress_b (h : Vector UInt64 8) (t0 t1 : Nat) (buf : Bytes) (last : LastBlock) : Option (Vector UInt64 8) :=
  let t_and_f : V4x64 :=
    if last = LastBlock.Yes then ⟨UInt64.ofNat t0, UInt64.ofNat t1, 0xFFFFFFFFFFFFFFFF, 0⟩
    else ⟨UInt64.ofNat t0, UInt64.ofNat t1, 0, 0⟩
  Avx2B.compress_b_avx2 h buf Impl.Blake2.b.iv t_and_f

/-! ## mod.rs — compile-time dispatch -/

/-- a compression function: `(h, t[0], t[1], buf, last) ↦ new h` (`none` = the model refuses) -/
abbrev Cmp (W : Type) := Vector W 8 → Nat → Nat → Bytes → LastBlock → Option (Vector W 8)

def reference_b : Cmp UInt64 := fun h t0 t1 buf last => some (Impl.Blake2.reference_compress Impl.Blake2.b h t0 t1 buf last)
def reference_s : Cmp UInt32 := fun h t0 t1 buf last => some (Impl.Blake2.reference_compress Impl.Blake2.s h t0 t1 buf last)

def refused {W : Type} : Cmp W := fun _ _ _ _ _ => none

/-- `EngineB::compress`: `if HAS_AVX2 { return avx2::compress_b(…) }`, then `if HAS_AVX { return avx::compress_b(…) }`,
    else `reference::compress_b(…)` — order and gating of the blocks = the extracted table DISPATCH_BLAKE2B -/
def EngineB.compress (ft : Features) : Cmp UInt64 :=
  match selectPath ft DISPATCH_BLAKE2B with
  | 0 => reference_b
  | 2 => avx_compress_b
  | 3 => avx2_compress_b
  | _ => refused

/-- `EngineS::compress`: `if HAS_AVX { return avx::compress_s(…) }` else `reference::compress_s(…)` (DISPATCH_BLAKE2S) -/
def EngineS.compress (ft : Features) : Cmp UInt32 :=
  match selectPath ft DISPATCH_BLAKE2S with
  | 0 => reference_s
  | 2 => avx_compress_s
  | _ => refused

/-! ## the context paths of Impl.Blake2 with the compression function as a parameter
    (`Impl.Blake2.Ctx.update_mut` etc. call `reference_compress` directly; these are the same statements with `cmp`;
    Proofs/SimdBlake2Ctx.lean: with `cmp = reference` they ARE the functions of Impl.Blake2; profile = wrapping) -/
section ctx
variable {W : Type} [Word W]

def Engine.compress_with (cmp : Cmp W) (e : Engine W) (buf : Bytes) (last : LastBlock) : Option (Engine W) :=
  match cmp e.h e.t0 e.t1 buf last with
  | none => none
  | some h => some { e with h := h }

def CtxW.update_loop (P : Params W) (cmp : Cmp W) : Nat → Engine W → Bytes → Option (Engine W × Bytes)
  | 0, e, input => some (e, input)
  | fuel + 1, e, input =>
    if input.length > P.bb then
      match e.increment_counter .wrapping P.bb with
      | none => none
      | some e =>
        match Engine.compress_with cmp e (input.take P.bb) .No with
        | none => none
        | some e => CtxW.update_loop P cmp fuel e (input.drop P.bb)
    else some (e, input)

def CtxW.update_mut (P : Params W) (cmp : Cmp W) (c : Ctx W) (input : Bytes) : Option (Ctx W) :=
  if input.isEmpty then some c
  else
    let fill := P.bb - c.buflen
    if input.length > fill then
      let buf := setSlice c.buf c.buflen (input.take fill)
      match c.eng.increment_counter .wrapping P.bb with
      | none => none
      | some e =>
        match Engine.compress_with cmp e (buf.take P.bb) .No with
        | none => none
        | some e =>
          let input := input.drop fill
          match CtxW.update_loop P cmp input.length e input with
          | none => none
          | some (e, input) => some { eng := e, buf := setSlice buf 0 input, buflen := 0 + input.length }
    else some { c with buf := setSlice c.buf c.buflen input, buflen := c.buflen + input.length }

def CtxW.internal_final (P : Params W) (cmp : Cmp W) (c : Ctx W) : Option (Ctx W) :=
  match c.eng.increment_counter .wrapping (c.buflen % 2 ^ Word.bits W) with
  | none => none
  | some e =>
    let buf := zeroFrom c.buf c.buflen
    match Engine.compress_with cmp e (buf.take P.bb) .Yes with
    | none => none
    | some e => some { eng := e, buf := setSlice buf 0 (e.h.toList.flatMap toLE), buflen := c.buflen }

def CtxW.finalize_at (P : Params W) (cmp : Cmp W) (c : Ctx W) (outlen outLen : Nat) : Option Bytes :=
  if outLen ≠ outlen then none
  else match CtxW.internal_final P cmp c with
    | none => none
    | some c => some (c.buf.take outLen)

def CtxW.updates (P : Params W) (cmp : Cmp W) : Ctx W → List Bytes → Option (Ctx W)
  | c, [] => some c
  | c, p :: ps =>
    match CtxW.update_mut P cmp c p with
    | none => none
    | some c => CtxW.updates P cmp c ps

/-- the history of op `simd.blake2b/s`: `ContextDyn::new_keyed(outlen, key)`, optionally the hook
    `verif_set_counter(t0, t1)`, one `update_mut` per piece, `finalize_at(&mut [0; outlen])` -/
def hash_with (P : Params W) (cmp : Cmp W) (outlen : Nat) (key : Bytes) (counter : Option (Nat × Nat))
    (pieces : List Bytes) : Option Bytes :=
  match Ctx.new_keyed P outlen key with
  | none => none
  | some c =>
    let c := match counter with
      | none => c
      | some (t0, t1) => c.verif_set_counter t0 t1
    match CtxW.updates P cmp c pieces with
    | none => none
    | some c => CtxW.finalize_at P cmp c outlen outlen

end ctx

def blake2b_with (ft : Features) (outlen : Nat) (key : Bytes) (counter : Option (Nat × Nat)) (pieces : List Bytes) :
    Option Bytes :=
  hash_with Impl.Blake2.b (EngineB.compress ft) outlen key counter pieces

def blake2s_with (ft : Features) (outlen : Nat) (key : Bytes) (counter : Option (Nat × Nat)) (pieces : List Bytes) :
    Option Bytes :=
  hash_with Impl.Blake2.s (EngineS.compress ft) outlen key counter pieces

end Cx.Impl.SimdBlake2
