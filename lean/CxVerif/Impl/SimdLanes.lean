/-
  Impl.SimdLanes — what the SIMD models of unit `simd` share (Impl.SimdSha256, Impl.SimdBlake2):
  the compile-time feature set, bytes of 32/64-bit lanes, `pshufb`, and the "tree of shifts" evaluator for the
  rotation / sigma helpers whose shift amounts are extracted from the source.

  -- API:
  --   Cx.Impl.Simd.Features                      { sse41, avx, avx2 : Bool }  = `cfg!(target_feature = …)` of the build
  --   Features.none / .sse41 / .avx / .avx2      the four builds of the correspondence (cxlib.VARIANTS)
  --   Features.has, selectPath                  the module selected by an extracted dispatch table
  --   byte32 / bytes32 / ofBytes32, byte64 / bytes64 / ofBytes64   little-endian bytes of a lane
  --   pshufb16 src mask                          `_mm_shuffle_epi8` on one 128-bit lane (16 bytes)
  --   ShiftAlg, shiftTerms                       `srli`/`slli`/`v+v` terms combined by xor / or
-/
import CxVerif.Util.Bytes
namespace Cx.Impl.Simd
open Cx

/-- the target features the crate is compiled with (`-C target-feature=…` on x86/x86_64) -/
structure Features where
  sse41 : Bool
  avx : Bool
  avx2 : Bool
deriving DecidableEq, Repr

def Features.none : Features := ⟨false, false, false⟩
def Features.sse41Only : Features := ⟨true, false, false⟩
def Features.avxOnly : Features := ⟨true, true, false⟩
def Features.avx2All : Features := ⟨true, true, true⟩

/-- the four builds of the C16 correspondence, in the order of `cxlib.VARIANTS`: default, sse41, avx, avx2 -/
def Features.builds : List Features := [Features.none, Features.sse41Only, Features.avxOnly, Features.avx2All]

/-- `cfg!(target_feature = …)` by the feature code of the extracted dispatch tables: 1 sse4.1, 2 avx, 3 avx2 -/
def Features.has (ft : Features) (code : Nat) : Bool :=
  match code with
  | 1 => ft.sse41
  | 2 => ft.avx
  | 3 => ft.avx2
  | _ => false

/-- the module a dispatch function selects: the extracted `[feature, module]` blocks
    `#[cfg(target_feature = F)] { if HAS_F { return M::f(…) } }` are tried in source order, the fall-through is the
    portable `reference` module (0); module codes 1 sse41, 2 avx, 3 avx2; 99 = malformed table -/
def selectPath (ft : Features) : List (List Nat) → Nat
  | [] => 0
  | [f, m] :: rest => if ft.has f then m else selectPath ft rest
  | _ :: _ => 99

/-! ### bytes of lanes (x86 is little-endian: byte k of a lane is bits 8k … 8k+7) -/

def byte32 (x : UInt32) (k : Nat) : UInt8 := (x >>> UInt32.ofNat (8 * k)).toUInt8
def bytes32 (x : UInt32) : List UInt8 := [byte32 x 0, byte32 x 1, byte32 x 2, byte32 x 3]
def ofBytes32 (bs : List UInt8) : UInt32 := bs.foldr (fun b acc => b.toUInt32 ||| (acc <<< 8)) 0

def byte64 (x : UInt64) (k : Nat) : UInt8 := (x >>> UInt64.ofNat (8 * k)).toUInt8
def bytes64 (x : UInt64) : List UInt8 :=
  [byte64 x 0, byte64 x 1, byte64 x 2, byte64 x 3, byte64 x 4, byte64 x 5, byte64 x 6, byte64 x 7]
def ofBytes64 (bs : List UInt8) : UInt64 := bs.foldr (fun b acc => b.toUInt64 ||| (acc <<< 8)) 0

/-- `pshufb` on one 128-bit lane: destination byte `i` is 0 when bit 7 of selector `mask[i]` is set, otherwise source
    byte `mask[i] & 15` (`src` has 16 entries; the default of `getD` is never used) -/
def pshufb16 (src : List UInt8) (mask : List Nat) : List UInt8 :=
  mask.map fun s => if s % 256 ≥ 128 then 0 else src.getD (s % 16) 0

/-! ### `srli`/`slli`/`v + v` terms combined by xor or by or (sigma0/sigma1, rotateN_epiM, rot63) -/

/-- what a lane vector type offers to the shift trees -/
structure ShiftAlg (V : Type) where
  srli : V → Nat → V
  slli : V → Nat → V
  add : V → V → V
  xor : V → V → V
  or : V → V → V

/-- one extracted term `[dir, n]`: dir 0 = `srli(v, n)`, 1 = `slli(v, n)`, 2 = `add(v, v)` -/
def shiftTerm {V : Type} (A : ShiftAlg V) (v : V) (t : List Nat) : Option V :=
  match t with
  | [0, n] => some (A.srli v n)
  | [1, n] => some (A.slli v n)
  | [2, _] => some (A.add v v)
  | _ => none

def shiftFold {V : Type} (A : ShiftAlg V) (kind : Nat) (v : V) : V → List (List Nat) → Option V
  | acc, [] => some acc
  | acc, t :: ts =>
    match shiftTerm A v t with
    | none => none
    | some x => shiftFold A kind v (if kind = 0 then A.xor acc x else A.or acc x) ts

/-- the value of an extracted shift tree: `kind` 0 = all inner nodes xor, 1 = all or (anything else is refused);
    xor / or are associative and commutative, so the list of leaves in source order determines the value -/
def shiftTerms {V : Type} (A : ShiftAlg V) (kind : Nat) (terms : List (List Nat)) (v : V) : Option V :=
  if kind ≥ 2 then none else
  match terms with
  | [] => none
  | t :: ts =>
    match shiftTerm A v t with
    | none => none
    | some x => shiftFold A kind v x ts

end Cx.Impl.Simd
