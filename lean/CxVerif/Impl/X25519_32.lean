/-
  Impl.X25519_32 — model of /repo/src/curve25519/mod.rs (`curve25519`, `curve25519_base`) and of the wrapper
  /repo/src/x25519.rs compiled against the 32-bit field backend `fe32::Fe` (Impl/Fe32.lean; `feature = "force-32bits"` /
  `target_arch = "arm"`).  mod.rs is backend-generic Rust: this is the SAME model text as Impl/X25519.lean with the
  32-bit field operations; what mentions no `Fe` (`clampE`, `bitChoice`, the constants `A24P1`, `A24P1_BASE`, `NINE`,
  `BASE` re-extracted from mod.rs, `tryFrom`) is reused from there.  The only API difference: `Fe::from_bytes` of fe32
  is a checked computation (`Option`; `none` never happens: Proofs.Fe32.from_bytes_spec).

  -- API (namespace Cx.Impl.X25519_32): curve25519, curve25519_base, dh, base — same signatures as Impl/X25519.lean
  --   (`none` = i32/i64 overflow panic of an overflow-checked build; proved impossible: Props/C17/Group32.lean)
-/
import CxVerif.Impl.Fe32
import CxVerif.Impl.X25519
namespace Cx.Impl.X25519_32
open Cx Cx.Impl.Fe32 Cx.Impl.CT
open Cx.Impl.X25519 (A24P1 A24P1_BASE NINE BASE BASE_length clampE clampE_length bitChoice)

/-- the ladder registers `x2 z2 x3 z3` and the pending `swap` -/
structure Ladder where
  x2 : Fe
  z2 : Fe
  x3 : Fe
  z3 : Fe
  swap : Choice
  deriving Repr

/-- how `z5` is computed: `&x1 * &t2` in `curve25519`, `t2.mul_small::<9>()` in `curve25519_base` -/
inductive Z5 where
  | mulX1 (x1 : Fe)
  | small (s : Nat)

/-- `let z5 = &x1 * &t2;` (curve25519) / `let z5 = t2.mul_small::<9>();` (curve25519_base) -/
def z5Of (z5k : Z5) (t2 : Fe) : Option Fe :=
  match z5k with
  | .mulX1 x1 => mul x1 t2
  | .small k => mul_small t2 k

/-- the field arithmetic of one loop iteration (`let d = &x3 - &z3; … let z4 = &e * &t4;`),
    on the registers after the conditional swaps; returns `(x4, z4, x5, z5)` -/
def ladderArith (a24p1 : Nat) (z5k : Z5) (x2 z2 x3 z3 : Fe) : Option (Fe × Fe × Fe × Fe) := do
  let d ← sub x3 z3
  let b ← sub x2 z2
  let a ← add x2 z2
  let c ← add x3 z3
  let da ← mul d a
  let cb ← mul c b
  let bb ← square b
  let aa ← square a
  let t0 ← add da cb
  let t1 ← sub da cb
  let x4 ← mul aa bb
  let e ← sub aa bb
  let t2 ← square t1
  let t3 ← mul_small e a24p1
  let x5 ← square t0
  let t4 ← add bb t3
  let z5 ← z5Of z5k t2
  let z4 ← mul e t4
  pure (x4, z4, x5, z5)

/-- the body of `for pos in (0usize..255).rev()` once the bit `b` is extracted: the two masked swaps
    (`swap ^ b`), the arithmetic, `z2 = z4; z3 = z5; x2 = x4; x3 = x5; swap = b` -/
def ladderStepCore (a24p1 : Nat) (z5k : Z5) (s : Ladder) (b : Choice) : Option Ladder :=
  (ladderArith a24p1 z5k
      (maybe_swap_with s.x2 s.x3 (s.swap.xor b)).1 (maybe_swap_with s.z2 s.z3 (s.swap.xor b)).1
      (maybe_swap_with s.x2 s.x3 (s.swap.xor b)).2 (maybe_swap_with s.z2 s.z3 (s.swap.xor b)).2).map
    fun r => ⟨r.1, r.2.1, r.2.2.1, r.2.2.2, b⟩

/-- the body of `for pos in (0usize..255).rev()` -/
def ladderStep (e : Bytes) (he : e.length = 32) (a24p1 : Nat) (z5k : Z5)
    (s : Ladder) (pos : Nat) (hp : pos < 255) : Option Ladder :=
  ladderStepCore a24p1 z5k s (bitChoice e he pos hp)

/-- the loop, `pos = 254 down to 0` (`k` = number of iterations still to do) -/
def ladderLoop (e : Bytes) (he : e.length = 32) (a24p1 : Nat) (z5k : Z5) :
    (k : Nat) → k ≤ 255 → Ladder → Option Ladder
  | 0, _, s => some s
  | k + 1, hk, s =>
    (ladderStep e he a24p1 z5k s k (by omega)).bind fun s' => ladderLoop e he a24p1 z5k k (by omega) s'

/-- the statements shared by `curve25519` and `curve25519_base` after `x1` is known -/
def ladderMain (n : Bytes) (hn : n.length = 32) (x1 : Fe) (a24p1 : Nat) (z5k : Z5) : Option Bytes := do
  let e := clampE n
  let x2 := Fe.ONE
  let z2 := Fe.ZERO
  let x3 := x1
  let z3 := Fe.ONE
  let swap := u64_ct_zero 1
  let s ← ladderLoop e (by rw [clampE_length]; exact hn) a24p1 z5k 255 (by omega) ⟨x2, z2, x3, z3, swap⟩
  let x2 := (maybe_swap_with s.x2 s.x3 s.swap).1
  let z2 := (maybe_swap_with s.z2 s.z3 s.swap).1
  let zi ← invert z2
  let r ← mul zi x2
  to_bytes r

/-- `pub fn curve25519(n: &[u8; 32], p: &[u8; 32]) -> [u8; 32]` -/
def curve25519 (n p : Bytes) (hn : n.length = 32) (hp : p.length = 32) : Option Bytes :=
  (from_bytes p hp).bind fun x1 =>
  ladderMain n hn x1 A24P1 (.mulX1 x1)

/-- `pub fn curve25519_base(n: &[u8; 32]) -> [u8; 32]` — the source repeats the ladder with
    `x1 = Fe::from_bytes(&BASE)` and `z5 = t2.mul_small::<9>()` -/
def curve25519_base (n : Bytes) (hn : n.length = 32) : Option Bytes :=
  (from_bytes BASE BASE_length).bind fun x1 =>
  ladderMain n hn x1 A24P1_BASE (.small NINE)

/-- `x25519::dh(n: &SecretKey, p: &PublicKey) -> SharedSecret` -/
def dh (n p : Bytes) (hn : n.length = 32) (hp : p.length = 32) : Option Bytes := curve25519 n p hn hp
/-- `x25519::base(x: &SecretKey) -> PublicKey` -/
def base (x : Bytes) (hx : x.length = 32) : Option Bytes := curve25519_base x hx

end Cx.Impl.X25519_32
