/-
  Impl.LeakModelHash — the leakage-instrumented models (semantics: Impl/LeakModel.lean) of everything HMAC calls in the
  digest type parameter, for the digests of the crate:

    (g) the rest of `cryptoutil::FixedBuffer<N>` (`next`, `zero_until`, `full_buffer`, `standard_padding`;
        `FixedBuffer::input` is in Impl/LeakModelSym.lean),
    (h) SHA-2: `eng256/eng512::Engine::blocks`, `Engine256/512::{input, finish}`, the `digest!` contexts
        (`update_mut`, `finalize_reset`, `reset`),
    (i) SHA-1 and RIPEMD-160: `digest_block(s)` / `process_msg_block(s)`, the contexts,
    (l) SHA-3 / Keccak: the sponge `Engine::{process, finalize, output}` with `pad_len`, `set_domain_sep`, `set_pad`,
        the contexts,
    (m) BLAKE2b / BLAKE2s: `increment_counter`, `update_mut`, `internal_final`, `finalize_reset_at`, `reset`,
        `reset_with_key` of `Context` / `ContextDyn`, the legacy wrappers of src/blake2b.rs, src/blake2s.rs,
    (j) the macro-generated legacy `Digest` wrappers (`input`, `result`, `reset`), generic in the wrapped context,
    (k) HMAC fed in several `input` calls (`new`, `input` per chunk, `raw_result`),
    (n) the ChaCha20-Poly1305 AEAD: the incremental `Context` (`add_data`, `to_encryption`, `encrypt`, `decrypt`,
        `finalize`) and the one-shot object.

  Conventions (as in Impl/LeakModel.lean): an event at every data-dependent branch (`assert!`s included), computed
  index / slice bound, loop bound and run-time length.  The COMPRESSION FUNCTIONS (`digest_block_u32`,
  `digest_block_u64`, SHA-1 `digest_block_u32`, RIPEMD `process_block!`) are straight-line word arithmetic with constant
  loop bounds, constant rotation counts and constant table indices (`K32[i]`, `w[i]` with the loop counter): they emit
  nothing and are embedded with `LO.lift`; what IS emitted is the loop that calls them once per block — a `loopBound`
  with the number of blocks — and the length assertion in front of it.  The words-to-bytes conversions
  (`read_u32v_be`, `write_u32v_be`, `to_be_bytes`) run over constant-size arrays.

  A panic cuts the trace: after a failed `assert!` no further event is emitted.
-/
import CxVerif.Impl.LeakModelSym
import CxVerif.Impl.Digest
import CxVerif.Impl.Aead
namespace Cx.Impl.LeakModel
open Cx Cx.Impl

/-! ## (g) cryptoutil.rs: the rest of `FixedBuffer<N>` -/
section FixedBuf
variable {σ : Type}

/-- `*self.next::<I>() = v`:
    `let start = self.buffer_idx; self.buffer_idx += I; <&mut [u8; I]>::try_from(&mut self.buffer[start..self.buffer_idx])`
    — the slice starts at the FILL; `I` is a const generic -/
def FixedBuffer.next_writeL (self : FixedBuffer) (I : Nat) (v : Bytes) : LO FixedBuffer := do
  LO.emit (.index self.buffer_idx)
  LO.lift (self.next_write I v)

/-- `fn zero_until(&mut self, idx)`: `assert!(idx >= self.buffer_idx); zero(&mut self.buffer[self.buffer_idx..idx]);` -/
def FixedBuffer.zero_untilL (self : FixedBuffer) (idx : Nat) : LO FixedBuffer := do
  LO.emit (.branch (decide (idx < self.buffer_idx)))
  if idx < self.buffer_idx then LO.lift none
  else do
    LO.emit (.index self.buffer_idx)
    LO.emit (.length (idx - self.buffer_idx))               -- `ptr::write_bytes(dst, 0, dst.len())`
    LO.lift (self.zero_until idx)

/-- `fn full_buffer(&mut self) -> &[u8; N]`: `assert!(self.buffer_idx == N); self.buffer_idx = 0; &self.buffer` -/
def FixedBuffer.full_bufferL (N : Nat) (self : FixedBuffer) : LO (FixedBuffer × Bytes) := do
  LO.emit (.branch (decide (self.buffer_idx ≠ N)))
  LO.lift (self.full_buffer N)

/-- `fn standard_padding(&mut self, rem, func)`:
    `self.next::<1>()[0] = 128; if (N - self.buffer_idx) < rem { self.zero_until(N); func(self.full_buffer()); }
     self.zero_until(N - rem);` — which of the two shapes runs is decided by the FILL -/
def FixedBuffer.standard_paddingL (N : Nat) (self : FixedBuffer) (rem : Nat) (funcL : σ → Bytes → LO σ) (st : σ) :
    LO (FixedBuffer × σ) := do
  let self ← FixedBuffer.next_writeL self 1 [(128 : UInt8)]
  if N < self.buffer_idx then LO.lift none                  -- `N - self.buffer_idx` (usize)
  else do
    LO.emit (.branch (decide (N - self.buffer_idx < rem)))
    let r ← (if N - self.buffer_idx < rem then do
        let self ← FixedBuffer.zero_untilL self N
        let fb ← FixedBuffer.full_bufferL N self
        let st' ← funcL st fb.2
        pure (fb.1, st')
      else pure (self, st) : LO (FixedBuffer × σ))
    if N < rem then LO.lift none                            -- `N - rem` (constants)
    else do
      let self ← FixedBuffer.zero_untilL r.1 (N - rem)
      pure (self, r.2)

end FixedBuf

/-! ## (h) hashing/sha2 -/
namespace Sha2L
open Cx.Impl.Sha2

/-- `eng256::Engine::blocks`: `assert_eq!(block.len() % BLOCK_LEN_BYTES, 0); digest_block(&mut self.h, block)` where
    `digest_block` is `while i < block.len() { digest_block_u32(state, &block[i..i + 64]); i += 64; }`: the number of
    iterations is `block.len() / 64`; each iteration is the straight-line compression -/
def blocks256L (self : Eng256.Engine) (block : Bytes) : LO Eng256.Engine := do
  LO.emit (.branch (decide (block.length % Eng256.BLOCK_LEN_BYTES ≠ 0)))
  if block.length % Eng256.BLOCK_LEN_BYTES ≠ 0 then LO.lift none
  else do
    LO.emit (.loopBound (block.length / 64))
    LO.lift (self.blocks block)

/-- `eng512::Engine::blocks`: the same with 128-byte blocks (`while !block.is_empty() { …; block = &block[128..]; }`) -/
def blocks512L (self : Eng512.Engine) (block : Bytes) : LO Eng512.Engine := do
  LO.emit (.branch (decide (block.length % Eng512.BLOCK_LEN_BYTES ≠ 0)))
  if block.length % Eng512.BLOCK_LEN_BYTES ≠ 0 then LO.lift none
  else do
    LO.emit (.loopBound (block.length / 128))
    LO.lift (self.blocks block)

/-- `Engine256::input`: `assert!(!self.finished); self.processed_bytes += input.len() as u64;
    self.buffer.input(input, |input| self_state.blocks(input));` -/
def Engine256.inputL (self : Engine256) (inp : Bytes) : LO Engine256 := do
  LO.emit (.branch self.finished)
  if self.finished then LO.lift none
  else do
    let r ← FixedBuffer.inputL 64 self.buffer inp blocks256L self.state
    pure ⟨(self.processed_bytes + inp.length) % 2 ^ 64, r.1, r.2, self.finished⟩

/-- `Engine256::finish`: `if self.finished { return; }  standard_padding(8, …);
    *self.buffer.next::<8>() = (self.processed_bytes << 3).to_be_bytes(); self.state.blocks(self.buffer.full_buffer());
    self.finished = true;` — the length field is 8 bytes whatever the count -/
def Engine256.finishL (self : Engine256) : LO Engine256 := do
  LO.emit (.branch self.finished)
  if self.finished then pure self
  else do
    let r ← FixedBuffer.standard_paddingL 64 self.buffer 8 blocks256L self.state
    let buffer ← FixedBuffer.next_writeL r.1 8 (len_be64 self.processed_bytes)
    let fb ← FixedBuffer.full_bufferL 64 buffer
    let state ← blocks256L r.2 fb.2
    pure ⟨self.processed_bytes, fb.1, state, true⟩

/-- `Engine512::input` (no `finished` flag in this engine) -/
def Engine512.inputL (self : Engine512) (inp : Bytes) : LO Engine512 := do
  let r ← FixedBuffer.inputL 128 self.buffer inp blocks512L self.state
  pure ⟨(self.processed_bytes + inp.length) % 2 ^ 128, r.1, r.2⟩

/-- `Engine512::finish` -/
def Engine512.finishL (self : Engine512) : LO Engine512 := do
  let r ← FixedBuffer.standard_paddingL 128 self.buffer 16 blocks512L self.state
  let buffer ← FixedBuffer.next_writeL r.1 16 (len_be128 self.processed_bytes)
  let fb ← FixedBuffer.full_bufferL 128 buffer
  let state ← blocks512L r.2 fb.2
  pure ⟨self.processed_bytes, fb.1, state⟩

/-- `$ctxname::update_mut` -/
def Ctx256.update_mutL (self : Ctx256) (inp : Bytes) : LO Ctx256 := do
  let e ← Engine256.inputL self.engine inp
  pure ⟨e⟩

/-- `$ctxname::finalize_reset`: `let mut out = [0; $output_bits / 8]; self.engine.finish();
    self.engine.state.$output_fn(&mut out); self.reset(); out` — `$output_fn` writes the state words big-endian into
    constant ranges of the constant-size array -/
def Ctx256.finalize_resetL (A : Alg256) (self : Ctx256) : LO (Ctx256 × Bytes) := do
  let e ← Engine256.finishL self.engine
  let out ← LO.lift (A.output_fn e.state (zeros (A.output_bits / 8)))
  pure (Ctx256.reset A ⟨e⟩, out)

/-- `$ctxname::reset`: assignments -/
def Ctx256.resetL (A : Alg256) (self : Ctx256) : LO Ctx256 := pure (Ctx256.reset A self)

def Ctx512.update_mutL (self : Ctx512) (inp : Bytes) : LO Ctx512 := do
  let e ← Engine512.inputL self.engine inp
  pure ⟨e⟩

def Ctx512.finalize_resetL (A : Alg512) (self : Ctx512) : LO (Ctx512 × Bytes) := do
  let e ← Engine512.finishL self.engine
  let out ← LO.lift (A.output_fn e.state (zeros (A.output_bits / 8)))
  pure (Ctx512.reset A ⟨e⟩, out)

def Ctx512.resetL (A : Alg512) (self : Ctx512) : LO Ctx512 := pure (Ctx512.reset A self)

end Sha2L

/-! ## (i) hashing/sha1.rs, hashing/ripemd160.rs -/
namespace Sha1L
open Cx.Impl.Sha1
open Cx.Spec.Sha1 (Hash)

/-- `fn digest_block(state, block)`: `assert_eq!(block.len(), BLOCK_LEN * 4); read_u32v_be(…); digest_block_u32(…)` -/
def digest_blockL (state : Hash) (block : Bytes) : LO Hash := do
  LO.emit (.branch (decide (block.length = BLOCK_BYTES)))
  LO.lift (digest_block state block)

/-- the iterations of `for b in block.chunks(BLOCK_LEN * 4) { digest_block(state, b); }` -/
def digest_blocks_goL (state : Hash) : List Bytes → LO Hash
  | [] => pure state
  | b :: bs => do
    let st ← digest_blockL state b
    digest_blocks_goL st bs

/-- `fn digest_blocks(state, block)`: the number of chunks is a function of `block.len()` -/
def digest_blocksL (state : Hash) (block : Bytes) : LO Hash := do
  LO.emit (.loopBound (chunks BLOCK_BYTES block).length)
  digest_blocks_goL state (chunks BLOCK_BYTES block)

/-- `Context::update_mut`: `self.processed_bytes += input.len() as u64; self.buffer.input(input, |d| digest_blocks(h, d));` -/
def Context.update_mutL (self : Context) (input : Bytes) : LO Context := do
  let r ← FixedBuffer.inputL 64 self.buffer input digest_blocksL self.h
  pure ⟨r.2, self.processed_bytes + UInt64.ofNat input.length, r.1⟩

/-- `fn mk_result(st, rs)`: padding, the 8-byte length field, the last block, five `write_u32_be` at constant offsets -/
def Context.mk_resultL (st : Context) : LO (Context × Bytes) := do
  let r ← FixedBuffer.standard_paddingL 64 st.buffer 8 digest_blockL st.h
  let buffer ← FixedBuffer.next_writeL r.1 8 (u64be (st.processed_bytes <<< 3))
  let fb ← FixedBuffer.full_bufferL 64 buffer
  let h ← digest_blockL r.2 fb.2
  pure (⟨h, st.processed_bytes, fb.1⟩,
        Sha1.write_u32_be h.a ++ Sha1.write_u32_be h.b ++ Sha1.write_u32_be h.c ++ Sha1.write_u32_be h.d ++ Sha1.write_u32_be h.e)

/-- `Context::finalize_reset`: `mk_result(self, &mut out); self.reset(); out` -/
def Context.finalize_resetL (self : Context) : LO (Context × Bytes) := do
  let r ← Context.mk_resultL self
  pure (r.1.reset, r.2)

def Context.resetL (self : Context) : LO Context := pure self.reset

end Sha1L

namespace Ripemd160L
open Cx.Impl.Ripemd160
open Cx.Spec.Ripemd160 (Hash)

/-- `fn process_msg_block(data, h)`: `read_u32v_le(&mut w[0..16], data)` asserts `16 * 4 == data.len()`; then the
    `process_block!` macro (80 + 80 straight-line steps) -/
def process_msg_blockL (h : Hash) (data : Bytes) : LO Hash := do
  LO.emit (.branch (decide (data.length = 64)))
  LO.lift (process_msg_block data h)

def process_msg_blocks_goL (h : Hash) : List Bytes → LO Hash
  | [] => pure h
  | b :: bs => do
    let h ← process_msg_blockL h b
    process_msg_blocks_goL h bs

/-- `fn process_msg_blocks(data, h) { for chunk in data.chunks(64) { process_msg_block(&chunk, h); } }` -/
def process_msg_blocksL (h : Hash) (data : Bytes) : LO Hash := do
  LO.emit (.loopBound (chunks 64 data).length)
  process_msg_blocks_goL h (chunks 64 data)

def Context.update_mutL (self : Context) (msg : Bytes) : LO Context := do
  let r ← FixedBuffer.inputL 64 self.buffer msg process_msg_blocksL self.h
  pure ⟨r.2, self.processed_bytes + UInt64.ofNat msg.length, r.1⟩

/-- `Context::finalize_reset`: padding, two `next::<4>()` words of the bit count, the last block, the five output
    words, `self.reset()` -/
def Context.finalize_resetL (self : Context) : LO (Context × Bytes) := do
  let r ← FixedBuffer.standard_paddingL 64 self.buffer 8 process_msg_blockL self.h
  let buffer ← FixedBuffer.next_writeL r.1 4 (Ripemd160.write_u32_le (self.processed_bytes <<< 3).toUInt32)
  let buffer ← FixedBuffer.next_writeL buffer 4 (Ripemd160.write_u32_le (self.processed_bytes >>> 29).toUInt32)
  let fb ← FixedBuffer.full_bufferL 64 buffer
  let h ← process_msg_blockL r.2 fb.2
  pure ((Context.mk h self.processed_bytes fb.1).reset,
        Ripemd160.write_u32_le h.a ++ Ripemd160.write_u32_le h.b ++ Ripemd160.write_u32_le h.c ++ Ripemd160.write_u32_le h.d ++ Ripemd160.write_u32_le h.e)

def Context.resetL (self : Context) : LO Context := pure self.reset

end Ripemd160L

/-! ## (l) hashing/sha3.rs: the sponge `Engine<DIGESTLEN, DSLEN>` (SHA-3 and Keccak contexts)

  `keccak_f` (θ ρ π χ ι, 24 rounds: constant loop bounds, rotation counts from the constant table `ROTC`, lane indices
  from the constant tables `PIL` / `M5` at loop-counter positions, byte/lane conversions over the fixed 200-byte array)
  emits nothing; what is emitted is every call site's control flow: the absorb / squeeze loops, their slice bounds,
  the assertions.  `DIGESTLEN` / `DSLEN` are const generics: tests on them alone (`if DSLEN != 0`, `if DIGESTLEN != 0`)
  are resolved at compile time and are not events. -/
namespace Sha3L
open Cx.Impl.Sha3
set_option linter.unusedVariables false

/-- `for i in 0..nread { self.state[offset + i] ^= data[in_pos + i]; }` (`data` = `data[in_pos..in_pos + nread]`) -/
def xor_inL (state : Bytes) (offset : Nat) (data : Bytes) : LO Bytes := do
  LO.emit (.loopBound data.length)
  LO.emit (.index offset)
  LO.lift (xor_in state offset data)

/-- the `while in_pos < in_len` loop of `process`:
    `let nread = min(r - offset, in_len - in_pos); <xor loop>; in_pos += nread;
     if offset + nread != r { self.offset += nread; break; }  self.offset = 0; keccak_f(&mut self.state);` -/
def absorb_loopL (r : Nat) (state : Bytes) (offset : Nat) (data : Bytes) : LO (Bytes × Nat) :=
  if hd : data = [] then do
    LO.emit (.branch false)                                 -- `in_pos < in_len`
    pure (state, offset)
  else if hr : offset < r then do
    LO.emit (.branch true)
    let state' ← xor_inL state offset (data.take (min (r - offset) data.length))
    LO.emit (.branch (decide (offset + min (r - offset) data.length ≠ r)))
    if offset + min (r - offset) data.length = r then do
      let state'' ← LO.lift (keccak_f state')
      absorb_loopL r state'' 0 (data.drop (min (r - offset) data.length))
    else pure (state', offset + min (r - offset) data.length)
  else LO.lift none                                         -- `r - offset` (usize); excluded by the assert of `process`
termination_by data.length
decreasing_by
  have : 0 < data.length := List.length_pos_iff.mpr hd
  simp only [List.length_drop]
  omega

/-- `pub(super) fn process(&mut self, data: &[u8])`: `if !self.can_absorb { panic!(…) }`, `assert!(self.offset < r)`,
    the loop -/
def Engine.processL (DIGESTLEN : Nat) (e : Engine) (data : Bytes) : LO Engine := do
  LO.emit (.branch (!e.can_absorb))
  if !e.can_absorb then LO.lift none
  else do
    let r ← LO.lift (rate DIGESTLEN)                        -- `B - DIGESTLEN * 2`: constants
    LO.emit (.branch (decide (¬ e.offset < r)))
    if ¬ e.offset < r then LO.lift none
    else do
      let p ← absorb_loopL r e.state e.offset data
      pure { e with state := p.1, offset := p.2 }

/-- `fn pad_len<DSLEN>(offset, rate)`: `assert!(rate % 8 == 0 && offset % 8 == 0)`, then i64 / usize arithmetic on the
    two numbers (the position in the block and the rate) and a second assertion on the result of that arithmetic -/
def pad_lenL (DSLEN offset rate : Nat) : LO Nat := do
  LO.emit (.branch (decide (¬ (rate % 8 = 0 ∧ offset % 8 = 0))))
  LO.lift (pad_len DSLEN offset rate)

/-- `fn set_domain_sep(out_len, buf)`: `assert!(!buf.is_empty())`; `buf[0]` (constant index), masks -/
def set_domain_sepL (out_len : Nat) (buf : Bytes) : LO Bytes := do
  LO.emit (.branch buf.isEmpty)
  LO.lift (set_domain_sep out_len buf)

/-- `fn set_pad<DSLEN>(buf)`: `buf[s]` with `s = DSLEN / 8` (constant; bounds check against `buf.len()`), a constant
    loop of masks, `for b in buf[s + 1..].iter_mut() { *b = 0; }`, `buf[buflen - 1] |= 0x80` -/
def set_padL (DSLEN : Nat) (buf : Bytes) : LO Bytes := do
  LO.emit (.length buf.length)
  LO.emit (.loopBound (buf.length - (DSLEN / 8 + 1)))
  LO.emit (.index (buf.length - 1))
  LO.lift (set_pad DSLEN buf)

/-- `pub(super) fn finalize(&mut self)`: `assert!(self.can_absorb)`, `pad_len(self.offset * 8, self.rate() * 8)`,
    `vec::from_elem(0, p_len)`, `set_domain_sep`, `set_pad`, `self.process(&p)`, `self.can_absorb = false` — the
    padding is a function of the POSITION in the block -/
def Engine.finalizeL (DIGESTLEN DSLEN : Nat) (e : Engine) : LO Engine := do
  LO.emit (.branch (!e.can_absorb))
  if !e.can_absorb then LO.lift none
  else do
    let r ← LO.lift (rate DIGESTLEN)
    let o8 ← LO.lift (usizechk (e.offset * 8))
    let r8 ← LO.lift (usizechk (r * 8))
    let p_len ← pad_lenL DSLEN o8 r8
    LO.emit (.length p_len)
    let p ← (if DSLEN != 0 then set_domain_sepL (DIGESTLEN * 8) (zeros p_len) else pure (zeros p_len) : LO Bytes)
    let p ← set_padL DSLEN p
    let e ← Engine.processL DIGESTLEN e p
    pure { e with can_absorb := false }

/-- the `while in_pos < in_len` loop of `output`:
    `let offset = self.offset % r; let mut nread = min(r - offset, in_len - in_pos);
     if DIGESTLEN != 0 { nread = min(nread, DIGESTLEN - self.offset); }
     out[in_pos..(nread + in_pos)].copy_from_slice(&self.state[offset..(nread + offset)]); in_pos += nread;
     if offset + nread != r { self.offset += nread; break; }  …; keccak_f(&mut self.state);` -/
def squeeze_loopL (DIGESTLEN r : Nat) (e : Engine) (in_len in_pos : Nat) (out : Bytes) : LO (Engine × Bytes) :=
  if hlt : in_pos < in_len then do
    LO.emit (.branch true)
    if hr0 : r = 0 then LO.lift none                        -- `self.offset % r`
    else do
      let nread ← LO.lift (squeeze_nread DIGESTLEN r e.offset in_len in_pos)
      LO.emit (.index in_pos)
      LO.emit (.index (e.offset % r))
      LO.emit (.length nread)
      if e.state.length < nread + e.offset % r ∨ out.length < nread + in_pos then LO.lift none
      else do
        LO.emit (.branch (decide (e.offset % r + nread ≠ r)))
        if hfull : e.offset % r + nread = r then do
          let st ← LO.lift (keccak_f e.state)
          squeeze_loopL DIGESTLEN r
            { e with state := st, offset := if DIGESTLEN = 0 then 0 else e.offset + nread } in_len (in_pos + nread)
            (out.take in_pos ++ (e.state.drop (e.offset % r)).take nread ++ out.drop (in_pos + nread))
        else pure ({ e with offset := e.offset + nread },
                   out.take in_pos ++ (e.state.drop (e.offset % r)).take nread ++ out.drop (in_pos + nread))
  else do
    LO.emit (.branch false)
    pure (e, out)
termination_by in_len - in_pos
decreasing_by
  have : e.offset % r < r := Nat.mod_lt _ (Nat.pos_of_ne_zero hr0)
  omega

/-- `pub(super) fn output(&mut self, out: &mut [u8])` -/
def Engine.outputL (DIGESTLEN DSLEN : Nat) (e : Engine) (out_len : Nat) : LO (Engine × Bytes) := do
  LO.emit (.branch (!e.can_squeeze))
  if !e.can_squeeze then LO.lift none
  else do
    LO.emit (.branch e.can_absorb)
    let e ← (if e.can_absorb then Engine.finalizeL DIGESTLEN DSLEN e else pure e : LO Engine)
    let r ← LO.lift (rate DIGESTLEN)
    LO.emit (.branch (decide (¬ (if DIGESTLEN != 0 then e.offset < DIGESTLEN else e.offset < r))))
    if ¬ (if DIGESTLEN != 0 then e.offset < DIGESTLEN else e.offset < r) then LO.lift none
    else do
      LO.emit (.length out_len)
      let p ← squeeze_loopL DIGESTLEN r e out_len 0 (zeros out_len)
      LO.emit (.branch (DIGESTLEN != 0 && DIGESTLEN == p.1.offset))
      pure (if DIGESTLEN != 0 && DIGESTLEN == p.1.offset then { p.1 with can_squeeze := false } else p.1, p.2)

/-- `$context::update_mut` -/
def Context.update_mutL (dl : Nat) (c : Context) (data : Bytes) : LO Context := Engine.processL dl c data

/-- `$context::finalize_reset`: `let mut out = [0; $digestlength]; self.0.output(&mut out); self.0.reset(); out`
    (`reset`: three assignments and `zero(&mut self.state)` on the fixed 200-byte array) -/
def Context.finalize_resetL (dl ds : Nat) (c : Context) : LO (Context × Bytes) := do
  let p ← Engine.outputL dl ds c dl
  pure (p.1.reset, p.2)

def Context.resetL (c : Context) : LO Context := pure (Engine.reset c)

end Sha3L

/-! ## (m) hashing/blake2: `EngineB/S`, `blake2b/blake2s::{Context, ContextDyn}`, the legacy wrappers src/blake2b.rs, src/blake2s.rs

  `compress` (`reference::compress_b/s`: `G!`, `round!` with the constant `SIGMA` rows, 10 / 12 rounds) is straight-line
  word arithmetic and emits nothing; it is called once per block by the loops instrumented below.  The byte counter
  `t` is PUBLIC (number of bytes hashed so far): `increment_counter` contains a source-level `if self.t[0] < inc` on it. -/
namespace Blake2L
open Cx.Impl.Blake2
open Cx.Spec.Blake2 (Word Params toLE)
variable {W : Type} [Word W]

/-- `Engine::increment_counter`: `self.t[0] = self.t[0].wrapping_add(inc);
    self.t[1] = self.t[1].wrapping_add(if self.t[0] < inc { 1 } else { 0 });` -/
def increment_counterL (pr : Profile) (e : Engine W) (inc : Nat) : LO (Engine W) := do
  let t0 ← LO.lift (addAssign (Word.bits W) pr e.t0 inc)
  LO.emit (.branch (decide (t0 < inc)))
  let t1 ← LO.lift (addAssign (Word.bits W) pr e.t1 (if t0 < inc then 1 else 0))
  pure { e with t0 := t0, t1 := t1 }

/-- `while input.len() > BLOCK_BYTES { increment_counter(BLOCK_BYTES); compress(&input[0..BLOCK_BYTES], No);
    input = &input[BLOCK_BYTES..]; }` -/
def update_loopL (P : Params W) (pr : Profile) : Nat → Engine W → Bytes → LO (Engine W × Bytes)
  | 0, e, input => do
    LO.emit (.branch (decide (input.length > P.bb)))         -- (fuel = the input length: reached with no input left)
    pure (e, input)
  | fuel + 1, e, input => do
    LO.emit (.branch (decide (input.length > P.bb)))
    if input.length > P.bb then do
      let e ← increment_counterL pr e P.bb
      update_loopL P pr fuel (e.compress P (input.take P.bb) .No) (input.drop P.bb)
    else pure (e, input)

/-- `update_mut(&mut self, input)`: `if input.is_empty() { return; }  let fill = BLOCK_BYTES - self.buflen;
    if input.len() > fill { <fill the buffer, compress it, the loop> }  <buffer the rest>` -/
def Ctx.update_mutL (P : Params W) (pr : Profile) (c : Ctx W) (input : Bytes) : LO (Ctx W) := do
  LO.emit (.branch input.isEmpty)
  if input.isEmpty then pure c
  else do
    LO.emit (.branch (decide (input.length > P.bb - c.buflen)))
    if input.length > P.bb - c.buflen then do
      LO.emit (.index c.buflen)                             -- `self.buf[buflen..buflen + fill].copy_from_slice(&input[0..fill])`
      LO.emit (.length (P.bb - c.buflen))
      let e ← increment_counterL pr c.eng P.bb
      let r ← update_loopL P pr (input.drop (P.bb - c.buflen)).length
        (e.compress P ((setSlice c.buf c.buflen (input.take (P.bb - c.buflen))).take P.bb) .No)
        (input.drop (P.bb - c.buflen))
      LO.emit (.length r.2.length)                          -- `self.buf[0..input.len()].copy_from_slice(input)`
      pure { eng := r.1, buf := setSlice (setSlice c.buf c.buflen (input.take (P.bb - c.buflen))) 0 r.2,
             buflen := 0 + r.2.length }
    else do
      LO.emit (.index c.buflen)
      LO.emit (.length input.length)
      pure { c with buf := setSlice c.buf c.buflen input, buflen := c.buflen + input.length }

/-- `fn internal_final(&mut self)`: `increment_counter(self.buflen)`, `zero(&mut self.buf[self.buflen..])`,
    `compress(&self.buf[0..BLOCK_BYTES], Yes)`, `write_u64v_le(&mut self.buf[0..64], &self.eng.h)` -/
def Ctx.internal_finalL (P : Params W) (pr : Profile) (c : Ctx W) : LO (Ctx W) := do
  let e ← increment_counterL pr c.eng (c.buflen % 2 ^ Word.bits W)
  LO.emit (.index c.buflen)
  LO.emit (.length (c.buf.length - c.buflen))
  pure { eng := e.compress P ((zeroFrom c.buf c.buflen).take P.bb) .Yes,
         buf := setSlice (zeroFrom c.buf c.buflen) 0
           ((e.compress P ((zeroFrom c.buf c.buflen).take P.bb) .Yes).h.toList.flatMap toLE),
         buflen := c.buflen }

/-- `reset`: `self.eng.reset(self.outlen, 0); self.buflen = 0; zero(&mut self.buf[..]);` -/
def Ctx.resetL (P : Params W) (c : Ctx W) (outlen : Nat) : LO (Ctx W) := do
  LO.emit (.length c.buf.length)
  pure (c.reset P outlen)

/-- `reset_with_key(&mut self, key)`: `assert!(key.len() <= MAX_KEYLEN)`, `eng.reset`, `zero(&mut self.buf[..])`,
    `if !key.is_empty() { self.buf[0..key.len()].copy_from_slice(key); self.buflen = BLOCK_BYTES; } else { … }` -/
def Ctx.reset_with_keyL (P : Params W) (c : Ctx W) (outlen : Nat) (key : Bytes) : LO (Ctx W) := do
  LO.emit (.branch (decide (¬ key.length ≤ P.maxKey)))
  if ¬ key.length ≤ P.maxKey then LO.lift none
  else do
    LO.emit (.length c.buf.length)
    LO.emit (.branch (!key.isEmpty))
    if ¬ key.isEmpty then do
      LO.emit (.length key.length)
      LO.lift (c.reset_with_key P outlen key)
    else LO.lift (c.reset_with_key P outlen key)

/-- `finalize_reset_at(&mut self, out)`: `assert!(out.len() == self.outlen); self.internal_final();
    out.copy_from_slice(&self.buf[0..out.len()]); self.reset();` -/
def Ctx.finalize_reset_atL (P : Params W) (pr : Profile) (c : Ctx W) (outlen outLen : Nat) : LO (Ctx W × Bytes) := do
  LO.emit (.branch (decide (outLen ≠ outlen)))
  if outLen ≠ outlen then LO.lift none
  else do
    let c ← Ctx.internal_finalL P pr c
    LO.emit (.length outLen)
    let c' ← Ctx.resetL P c outlen
    pure (c', c.buf.take outLen)

/-- `ContextDyn::update_mut` -/
def ContextDyn.update_mutL (P : Params W) (pr : Profile) (c : ContextDyn W) (input : Bytes) : LO (ContextDyn W) := do
  let x ← Ctx.update_mutL P pr c.ctx input
  pure { c with ctx := x }

/-- `ContextDyn::finalize_reset_at` -/
def ContextDyn.finalize_reset_atL (P : Params W) (pr : Profile) (c : ContextDyn W) (outLen : Nat) :
    LO (ContextDyn W × Bytes) := do
  let r ← Ctx.finalize_reset_atL P pr c.ctx c.outlen outLen
  pure ({ c with ctx := r.1 }, r.2)

def ContextDyn.resetL (P : Params W) (c : ContextDyn W) : LO (ContextDyn W) := do
  let x ← Ctx.resetL P c.ctx c.outlen
  pure { c with ctx := x }

def ContextDyn.reset_with_keyL (P : Params W) (c : ContextDyn W) (key : Bytes) : LO (ContextDyn W) := do
  let x ← Ctx.reset_with_keyL P c.ctx c.outlen key
  pure { c with ctx := x }

open Cx.Impl.Digest (CodeVariant blakeProfile)

/-- legacy `Blake2b::update` / `Blake2s::update`: `assert!(!self.computed, …); self.ctx.update_mut(input);` -/
def updateL (P : Params W) (self : Digest.Blake2 W) (input : Bytes) : LO (Digest.Blake2 W) := do
  LO.emit (.branch self.computed)
  if self.computed then LO.lift none
  else do
    let c ← ContextDyn.update_mutL P blakeProfile self.ctx input
    pure { self with ctx := c }

/-- legacy `finalize`: `assert!(!self.computed, …); self.ctx.finalize_reset_at(slice); self.computed = true;` -/
def finalizeL (P : Params W) (self : Digest.Blake2 W) (sliceLen : Nat) : LO (Digest.Blake2 W × Bytes) := do
  LO.emit (.branch self.computed)
  if self.computed then LO.lift none
  else do
    let r ← ContextDyn.finalize_reset_atL P blakeProfile self.ctx sliceLen
    pure ({ self with ctx := r.1, computed := true }, r.2)

/-- legacy `reset` (the tree as it is, `.repaired`): `if self.keylen > 0 { self.ctx.reset_with_key(&self.key[..self.keylen]); }
    else { self.ctx.reset(); }  self.computed = false;` — a branch on the key LENGTH; `.current`: the text before
    commit c8ec1e5 -/
def resetL (v : CodeVariant) (P : Params W) (self : Digest.Blake2 W) : LO (Digest.Blake2 W) :=
  match v with
  | .current => do
    let c ← ContextDyn.resetL P self.ctx
    pure { self with ctx := c, computed := false }
  | .repaired => do
    LO.emit (.branch (decide (self.key.length > 0)))
    if self.key.length > 0 then do
      let c ← ContextDyn.reset_with_keyL P self.ctx self.key
      pure { self with ctx := c, computed := false }
    else do
      let c ← ContextDyn.resetL P self.ctx
      pure { self with ctx := c, computed := false }

end Blake2L

/-! ## (j) the legacy `Digest` wrappers (`digest!` of src/sha2.rs, src/sha3.rs; src/sha1.rs; src/ripemd160.rs) -/
section Legacy
open Cx.Impl.Digest
variable {γ : Type}

/-- the instrumented methods of the wrapped `hashing::…::Context` type -/
structure CtxL (γ : Type) where
  update_mutL : γ → Bytes → LO γ
  resetL : γ → LO γ
  finalize_resetL : γ → LO (γ × Bytes)

/-- `fn input(&mut self, msg: &[u8]) { assert!(!self.computed, …); self.ctx.update_mut(msg); }` -/
def Legacy.inputL (ML : CtxL γ) (self : Legacy γ) (msg : Bytes) : LO (Legacy γ) := do
  LO.emit (.branch self.computed)
  if self.computed then LO.lift none
  else do
    let c ← ML.update_mutL self.ctx msg
    pure { self with ctx := c }

/-- `fn result(&mut self, slice: &mut [u8]) { assert!(!self.computed, …); self.computed = true;
    slice.copy_from_slice(&self.ctx.finalize_reset()); }` — `copy_from_slice` compares the two LENGTHS -/
def Legacy.resultL (ML : CtxL γ) (self : Legacy γ) (sliceLen : Nat) : LO (Legacy γ × Bytes) := do
  LO.emit (.branch self.computed)
  if self.computed then LO.lift none
  else do
    let r ← ML.finalize_resetL self.ctx
    LO.emit (.length sliceLen)
    LO.emit (.length r.2.length)
    if sliceLen = r.2.length then pure ({ ctx := r.1, computed := true }, r.2) else LO.lift none

/-- `fn reset(&mut self) { self.ctx.reset(); self.computed = false; }` -/
def Legacy.resetL (ML : CtxL γ) (self : Legacy γ) : LO (Legacy γ) := do
  let c ← ML.resetL self.ctx
  pure { ctx := c, computed := false }

/-- `impl Digest for $name`, instrumented -/
def legacyDigestL (ML : CtxL γ) : DigestL (Legacy γ) :=
  { inputL := Legacy.inputL ML, resultL := Legacy.resultL ML, resetL := Legacy.resetL ML }

/-! ### the instantiations -/

def sha2Ctx256L (A : Sha2.Alg256) : CtxL Sha2.Ctx256 :=
  { update_mutL := Sha2L.Ctx256.update_mutL, resetL := Sha2L.Ctx256.resetL A, finalize_resetL := Sha2L.Ctx256.finalize_resetL A }

def sha2Ctx512L (A : Sha2.Alg512) : CtxL Sha2.Ctx512 :=
  { update_mutL := Sha2L.Ctx512.update_mutL, resetL := Sha2L.Ctx512.resetL A, finalize_resetL := Sha2L.Ctx512.finalize_resetL A }

def sha224CtxL := sha2Ctx256L Sha2.Sha224
def sha256CtxL := sha2Ctx256L Sha2.Sha256
def sha384CtxL := sha2Ctx512L Sha2.Sha384
def sha512CtxL := sha2Ctx512L Sha2.Sha512
def sha512_224CtxL := sha2Ctx512L Sha2.Sha512Trunc224
def sha512_256CtxL := sha2Ctx512L Sha2.Sha512Trunc256

def sha1CtxL : CtxL Sha1.Context :=
  { update_mutL := Sha1L.Context.update_mutL, resetL := Sha1L.Context.resetL, finalize_resetL := Sha1L.Context.finalize_resetL }

def ripemd160CtxL : CtxL Ripemd160.Context :=
  { update_mutL := Ripemd160L.Context.update_mutL, resetL := Ripemd160L.Context.resetL,
    finalize_resetL := Ripemd160L.Context.finalize_resetL }

/-- `sha3::Context<bits>` / `keccak::Context<bits>` -/
def sha3CtxL (dl ds : Nat) : CtxL Sha3.Context :=
  { update_mutL := Sha3L.Context.update_mutL dl, resetL := Sha3L.Context.resetL,
    finalize_resetL := Sha3L.Context.finalize_resetL dl ds }

def sha3_224CtxL := sha3CtxL 28 2
def sha3_256CtxL := sha3CtxL 32 2
def sha3_384CtxL := sha3CtxL 48 2
def sha3_512CtxL := sha3CtxL 64 2
def keccak224CtxL := sha3CtxL 28 0
def keccak256CtxL := sha3CtxL 32 0
def keccak384CtxL := sha3CtxL 48 0
def keccak512CtxL := sha3CtxL 64 0

/-- `impl Digest for Blake2b` / `Blake2s`, instrumented -/
def blake2DigestL {W : Type} [Spec.Blake2.Word W] (v : CodeVariant) (P : Spec.Blake2.Params W) : DigestL (Blake2 W) :=
  { inputL := Blake2L.updateL P, resultL := Blake2L.finalizeL P, resetL := Blake2L.resetL v P }

def blake2bDigestL (v : CodeVariant) := blake2DigestL v Impl.Blake2.b
def blake2sDigestL (v : CodeVariant) := blake2DigestL v Impl.Blake2.s

end Legacy

/-! ## (k) HMAC fed in several `input` calls -/
section HmacChunks
open Cx.Impl.Digest Cx.Impl.Hmac
variable {δ : Type}

/-- one `Hmac::input` call per chunk (plain model) -/
def Hmac.inputs (D : DigestModel δ) : Hmac δ → List Bytes → Option (Hmac δ)
  | h, [] => some h
  | h, c :: cs =>
    match Hmac.input D h c with
    | none => none
    | some h' => Hmac.inputs D h' cs

/-- `let mut h = Hmac::new(digest, key); for c in chunks { h.input(c); } h.raw_result(&mut out[..outLen]); out`
    (plain model) -/
def hmacChunks (D : DigestModel δ) (digest : δ) (key : Bytes) (chunks : List Bytes) (outLen : Nat) : Option Bytes :=
  match Hmac.new D digest key with
  | none => none
  | some h =>
    match Hmac.inputs D h chunks with
    | none => none
    | some h => (Hmac.raw_result D h outLen).map (·.2)

/-- `let mut h = Hmac::new(digest, key); for c in chunks { h.input(c); } h.result().code()` (plain model; the sequence
    of calls of `Props.C08.hmac_generic`) -/
def hmacChunksResult (D : DigestModel δ) (digest : δ) (key : Bytes) (chunks : List Bytes) : Option Bytes :=
  match Hmac.new D digest key with
  | none => none
  | some h =>
    match Hmac.inputs D h chunks with
    | none => none
    | some h => (Hmac.result D h).map (·.2)

/-- one `Hmac::input` call per chunk -/
def Hmac.inputsL (DL : DigestL δ) : Hmac δ → List Bytes → LO (Hmac δ)
  | h, [] => pure h
  | h, c :: cs => do
    let h' ← Hmac.inputL DL h c
    Hmac.inputsL DL h' cs

/-- `Hmac::new(digest, key)`, `input` per chunk, `raw_result` -/
def hmacChunksL (D : DigestModel δ) (DL : DigestL δ) (digest : δ) (key : Bytes) (chunks : List Bytes) (outLen : Nat) :
    LO Bytes := do
  let h ← Hmac.newL D DL digest key
  let h ← Hmac.inputsL DL h chunks
  let r ← Hmac.raw_resultL DL h outLen
  pure r.2

/-- `Hmac::new(digest, key)`, `input` per chunk, `result()` -/
def hmacChunksResultL (D : DigestModel δ) (DL : DigestL δ) (digest : δ) (key : Bytes) (chunks : List Bytes) : LO Bytes := do
  let h ← Hmac.newL D DL digest key
  let h ← Hmac.inputsL DL h chunks
  let r ← Hmac.resultL D DL h
  pure r.2

/-! NEGATIVE CONTROL (not in the crate): a toy digest object (`input` appends, `result` returns zeros) with an
    instrumented `input` that tests the first byte of its argument ("skip a leading zero byte") -/

def toyDigest : DigestModel Bytes :=
  { input := fun d b => some (d ++ b), result := fun d n => some (d, zeros n), reset := fun _ => some [],
    output_bits := fun _ => 256, block_size := fun _ => 64 }

def leakyInputL (d : Bytes) (b : Bytes) : LO Bytes := do
  LO.emit (.branch (b.head? == some 0))
  pure (d ++ b)

def leakyDigestL : DigestL Bytes :=
  { inputL := leakyInputL, resultL := fun d n => LO.lift (some (d, zeros n)), resetL := fun _ => LO.lift (some []) }

end HmacChunks

/-! ## (n) chacha20poly1305.rs: the incremental `Context<ROUNDS>` / `ContextEncryption` / `ContextDecryption` and the
       one-shot `ChaChaPoly1305<ROUNDS>`

  Built on the instrumented ChaCha context (`processL`, `process_mutL`: Impl/LeakModelSym.lean) and Poly1305 object
  (`inputL`, `raw_resultL`: Impl/LeakModel.lean), in the same writer monad `LeakM` with `Except` values; `bindE` is the
  `?`-style sequencing (a panic of a callee ends the caller).  The checked `+=` on the two `u64` length counters is
  straight-line arithmetic on PUBLIC lengths (its overflow check is not an event).  The tag comparison of
  `ContextDecryption::finalize` is `tagEqL` (constant time: Props.C19 §(f)). -/
namespace AeadL
open Cx.Impl.Aead Cx.Impl.StreamCtx
variable {σ : Type}

/-- run `k` on the result of `m` unless `m` panicked -/
def bindE {α β : Type} (m : LeakM (Except String α)) (k : α → LeakM (Except String β)) : LeakM (Except String β) :=
  m >>= fun r => match r with
    | .error e => pure (.error e)
    | .ok a => k a

/-- a call into the Poly1305 layer -/
def liftPL {α : Type} (m : LeakM (Except Poly1305.Panic α)) : LeakM (Except String α) := m >>= fun r => pure (liftP r)

/-- `fn pad16(mac, len)`: `if (len % 16) != 0 { let padding = [0u8; 15]; let sz = 16 - (len % 16) as usize;
    mac.input(&padding[0..sz]); }` — a branch on a LENGTH counter -/
def pad16L (mac : Poly1305.State) (len : Nat) : LeakM (Except String Poly1305.State) := do
  emit (.branch (decide (len % 16 ≠ 0)))
  if len % 16 ≠ 0 then do
    emit (.length (16 - len % 16))
    liftPL (inputL mac ((zeros 15).take (16 - len % 16)))
  else pure (.ok mac)

/-- `fn add_encrypted(&mut self, encrypted)`: `self.mac.input(encrypted); self.data_len += encrypted.len() as u64;` -/
def add_encryptedL (c : Context σ) (encrypted : Bytes) : LeakM (Except String (Context σ)) :=
  bindE (liftPL (inputL c.mac encrypted)) fun mac =>
    pure (match addU64 c.data_len encrypted.length with
      | .error e => .error e
      | .ok n => .ok { c with mac := mac, data_len := n })

/-- `pub fn add_data(&mut self, aad)`: `self.aad_len += aad.len() as u64; self.mac.input(aad);` -/
def add_dataL (c : Context σ) (aad : Bytes) : LeakM (Except String (Context σ)) :=
  match addU64 c.aad_len aad.length with
  | .error e => pure (.error e)
  | .ok n => bindE (liftPL (inputL c.mac aad)) fun mac => pure (.ok { c with mac := mac, aad_len := n })

/-- `pub fn to_encryption(mut self)` / `to_decryption`: `pad16(&mut self.mac, self.aad_len)` -/
def to_encryptionL (c : Context σ) : LeakM (Except String (Context σ)) :=
  bindE (pad16L c.mac c.aad_len) fun mac => pure (.ok { c with mac := mac })

def to_decryptionL (c : Context σ) : LeakM (Except String (Context σ)) :=
  bindE (pad16L c.mac c.aad_len) fun mac => pure (.ok { c with mac := mac })

/-- `fn finalize_raw(inner)`: `pad16(&mut inner.mac, inner.data_len)`, the two `write_u64_le` at constant offsets,
    `inner.mac.input(&len_buf); inner.mac.raw_result(&mut tag);` -/
def finalize_rawL (inner : Context σ) : LeakM (Except String (Context σ × Bytes)) :=
  bindE (pad16L inner.mac inner.data_len) fun mac =>
    bindE (liftPL (inputL mac (natToLE 8 inner.aad_len ++ natToLE 8 inner.data_len))) fun mac =>
      bindE (liftPL (raw_resultL Poly1305.codeVariant mac 16)) fun r =>
        pure (.ok ({ inner with mac := r.1 }, r.2))

/-- `ContextEncryption::encrypt_mut(&mut self, buf)`: `self.0.cipher.process_mut(buf); self.0.add_encrypted(buf);` -/
def encrypt_mutL (G : BlockGenL σ) (c : Context σ) (buf : Bytes) : LeakM (Except String (Context σ × Bytes)) :=
  bindE (process_mutL G c.cipher buf) fun r =>
    bindE (add_encryptedL { c with cipher := r.1 } r.2) fun c' => pure (.ok (c', r.2))

/-- `ContextEncryption::encrypt(&mut self, input, output)`: `assert_eq!(input.len(), output.len());
    self.0.cipher.process(input, output); self.0.add_encrypted(output);` -/
def encryptL (G : BlockGenL σ) (c : Context σ) (input : Bytes) (outputLen : Nat) :
    LeakM (Except String (Context σ × Bytes)) := do
  emit (.branch (decide (input.length ≠ outputLen)))
  if input.length ≠ outputLen then pure (.error "PANIC")
  else bindE (processL G c.cipher input outputLen) fun r =>
    bindE (add_encryptedL { c with cipher := r.1 } r.2) fun c' => pure (.ok (c', r.2))

/-- `ContextEncryption::finalize(mut self) -> Tag` -/
def enc_finalizeL (c : Context σ) : LeakM (Except String Bytes) :=
  bindE (finalize_rawL c) fun r => pure (.ok r.2)

/-- `ContextDecryption::decrypt_mut(&mut self, buf)`: `self.0.add_encrypted(buf); self.0.cipher.process_mut(buf);` -/
def decrypt_mutL (G : BlockGenL σ) (c : Context σ) (buf : Bytes) : LeakM (Except String (Context σ × Bytes)) :=
  bindE (add_encryptedL c buf) fun c' =>
    bindE (process_mutL G c'.cipher buf) fun r => pure (.ok ({ c' with cipher := r.1 }, r.2))

/-- `ContextDecryption::decrypt(&mut self, input, output)` -/
def decryptL (G : BlockGenL σ) (c : Context σ) (input : Bytes) (outputLen : Nat) :
    LeakM (Except String (Context σ × Bytes)) := do
  emit (.branch (decide (input.length ≠ outputLen)))
  if input.length ≠ outputLen then pure (.error "PANIC")
  else bindE (add_encryptedL c input) fun c' =>
    bindE (processL G c'.cipher input outputLen) fun r => pure (.ok ({ c' with cipher := r.1 }, r.2))

/-- `ContextDecryption::finalize(mut self, expected_tag: &Tag) -> DecryptionResult`:
    `let got_tag = Tag(finalize_raw(&mut self.0)); if &got_tag == expected_tag { Match } else { MisMatch }` — the
    comparison is the constant-time `Tag ==`; its OUTCOME (the verdict) is the public result of the call -/
def dec_finalizeL (c : Context σ) (expected_tag : Bytes) : LeakM (Except String Bool) :=
  if expected_tag.length ≠ 16 then pure (.error "bad-args")      -- `Tag([u8; 16])`: a type
  else bindE (finalize_rawL c) fun r => do
    let b ← tagEqL r.2 expected_tag
    pure (.ok b)

/-- `Context::new(key, nonce)`: `assert!(key.len() == 16 || key.len() == 32)`, `ChaCha::new` (loads of key and nonce
    words at constant offsets; `match key.len()`), one keystream block for the one-time Poly1305 key, `Poly1305::new` -/
def newL (E : ChaCha.Engine σ) (R : Nat) (G : BlockGenL σ) (key nonce : Bytes) : LeakM (Except String (Context σ)) :=
  if nonce.length ≠ 12 then pure (.error "bad-args")              -- `&[u8; 12]`: a type
  else do
    emit (.length key.length)
    if ¬ (key.length = 16 ∨ key.length = 32) then pure (.error "PANIC")
    else
      match ChaCha.ChaCha.new E R key nonce with
      | .error e => pure (.error e)
      | .ok cipher =>
        bindE (processL G cipher (zeros 64) 64) fun r =>
          pure (.ok { cipher := r.1, mac := Poly1305.new (r.2.take 32), aad_len := 0, data_len := 0 })

/-- `ChaChaPoly1305::new(key, nonce, aad)` -/
def oneShotNewL (E : ChaCha.Engine σ) (R : Nat) (G : BlockGenL σ) (key nonce aad : Bytes) :
    LeakM (Except String (ChaChaPoly1305 σ)) :=
  bindE (newL E R G key nonce) fun context =>
    bindE (add_dataL context aad) fun context => pure (.ok { context := context, finished := false })

/-- `ChaChaPoly1305::encrypt(&mut self, input, output, out_tag)`: three assertions (two on lengths, one on the
    `finished` flag), `self.context.clone().to_encryption()`, `encrypt`, `finalize` -/
def oneShotEncryptL (G : BlockGenL σ) (self : ChaChaPoly1305 σ) (input : Bytes) (outputLen outTagLen : Nat) :
    LeakM (Except String (ChaChaPoly1305 σ × Bytes × Bytes)) := do
  emit (.branch (decide (input.length ≠ outputLen)))
  if input.length ≠ outputLen then pure (.error "PANIC")
  else do
    emit (.branch self.finished)
    if self.finished then pure (.error "PANIC")
    else do
      emit (.branch (decide (outTagLen ≠ 16)))
      if outTagLen ≠ 16 then pure (.error "PANIC")
      else
        bindE (to_encryptionL self.context) fun ctx =>
          bindE (encryptL G ctx input outputLen) fun r =>
            bindE (enc_finalizeL r.1) fun tag => pure (.ok ({ self with finished := true }, r.2, tag))

/-- `ChaChaPoly1305::decrypt(&mut self, input, output, tag) -> bool` -/
def oneShotDecryptL (G : BlockGenL σ) (self : ChaChaPoly1305 σ) (input : Bytes) (outputLen : Nat) (tag : Bytes) :
    LeakM (Except String (ChaChaPoly1305 σ × Bytes × Bool)) := do
  emit (.branch (decide (tag.length ≠ 16)))
  if tag.length ≠ 16 then pure (.error "PANIC")
  else do
    emit (.branch (decide (input.length ≠ outputLen)))
    if input.length ≠ outputLen then pure (.error "PANIC")
    else do
      emit (.branch self.finished)
      if self.finished then pure (.error "PANIC")
      else
        bindE (to_decryptionL self.context) fun ctx =>
          bindE (decryptL G ctx input outputLen) fun r =>
            bindE (dec_finalizeL r.1 tag) fun verdict => pure (.ok ({ self with finished := true }, r.2, verdict))

end AeadL

end Cx.Impl.LeakModel
