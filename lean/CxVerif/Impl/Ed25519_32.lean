/-
  Impl.Ed25519_32 — code-shaped model of /repo/src/ed25519.rs compiled against the 32-bit curve backends
  (`feature = "force-32bits"` / `target_arch = "arm"`): `Fe = fe32::Fe`, `Scalar = scalar32::Scalar` (`[u8; 32]`),
  group layer Impl/Ge32.lean, ladder Impl/X25519_32.lean.  ed25519.rs is backend-generic Rust: this is the SAME model
  text as Impl/Ed25519.lean with the 32-bit callees; the functions that mention neither `Fe`, `Scalar` nor `Ge`
  (`sha512_1/2/3`, `clamp_scalar`, `extended_secret`, `keypair_private`, `keypair_public`, `extended_scalar_bytes`) are
  reused from there, not copied.  Backend API differences (the Rust call sites are identical, the callee types differ):
    `Scalar::from_bytes` is the identity on `[u8; 32]`;  `Scalar::from_bytes_canonical` returns `Option<Scalar>` without
    a panic path;  `Scalar::reduce_from_wide_bytes` and `scalar::muladd` are ref10 `sc_reduce` / `sc_muladd` on i64 limbs
    (`none` = overflow panic; never: Props/C17/Sc32.lean);  `Fe::from_bytes` is a checked computation.

  -- API (namespace Cx.Impl.Ed25519_32): extended_to_public, keypair, signature, signature_extended, verify, exchange
  --   with the signatures of Impl/Ed25519.lean (a wrong argument length and every panic give `none`)
-/
import CxVerif.Impl.Ge32
import CxVerif.Impl.Ed25519
import CxVerif.Impl.X25519_32
namespace Cx.Impl.Ed25519_32
open Cx Cx.Impl.Ge32
open Cx.Impl.Scalar32 (Scalar)
open Cx.Impl.Ed25519 (sha512_1 sha512_2 sha512_3 clamp_scalar extended_secret keypair_private keypair_public
  extended_scalar_bytes)

/-- `extended_scalar`: `Scalar::from_bytes(&extended_secret[0..32])` -/
def extended_scalar (extended_secret : Bytes) : Option Scalar :=
  if extended_secret.length = 64 then Scalar32.fromBytes (extended_secret.take 32) else none

/-- `pub fn extended_to_public(extended_secret: &[u8; 64]) -> [u8; 32]` -/
def extended_to_public (extended_secret : Bytes) : Option Bytes := do
  let a ← Ge.scalarmult_base (← extended_scalar extended_secret)
  a.to_bytes

/-- `pub fn keypair(secret_key: &[u8; 32]) -> ([u8; 64], [u8; 32])` -/
def keypair (secret_key : Bytes) : Option (Bytes × Bytes) := do
  let extended_secret ← extended_secret secret_key
  let public_key ← extended_to_public extended_secret
  -- output[0..32].copy_from_slice(secret_key); output[32..64].copy_from_slice(&public_key);
  let output := secret_key ++ extended_secret.drop 32
  let output := output.take 32 ++ public_key
  pure (output, public_key)

/-- `Scalar::reduce_from_wide_bytes(&hash_output)` on a slice converted to `[u8; 64]` (wrong length / panic: `none`) -/
def reduceWide (h : Bytes) : Option Scalar := (Scalar32.reduceFromWideBytes h).bind id

/-- `fn signature_nonce(extended_secret: &[u8; 64], message: &[u8]) -> Scalar` -/
def signature_nonce (extended_secret message : Bytes) : Option Scalar :=
  if extended_secret.length = 64 then do
    let hash_output ← sha512_2 (extended_secret.drop 32) message
    reduceWide hash_output
  else none

/-- the statements shared verbatim by `signature` and `signature_extended` after `public_key`, `az` and `nonce`
    are known -/
def signature_tail (message public_key az : Bytes) (nonce : Scalar) : Option Bytes := do
  let r ← Ge.scalarmult_base nonce
  let rb ← r.to_bytes
  -- signature[0..32] = r.to_bytes(); signature[32..64] = public_key
  let signature := rb ++ public_key
  let hram ← sha512_2 signature message
  let hram ← reduceWide hram
  let s ← Scalar32.muladd hram (← extended_scalar az) nonce
  pure (signature.take 32 ++ Scalar32.to_bytes s)

/-- `pub fn signature(message: &[u8], keypair: &[u8; 64]) -> [u8; 64]` -/
def signature (message keypair : Bytes) : Option Bytes := do
  let private_key ← keypair_private keypair
  let public_key ← keypair_public keypair
  let az ← extended_secret private_key
  let nonce ← signature_nonce az message
  signature_tail message public_key az nonce

/-- `pub fn signature_extended(message: &[u8], extended_secret: &[u8; 64]) -> [u8; 64]` -/
def signature_extended (message extended_secret : Bytes) : Option Bytes := do
  let public_key ← extended_to_public extended_secret
  let nonce ← signature_nonce extended_secret message
  signature_tail message public_key extended_secret nonce

/-- `pub fn verify(message: &[u8], public_key: &[u8; 32], signature: &[u8; 64]) -> bool` -/
def verify (message public_key signature : Bytes) : Option Bool :=
  if public_key.length = 32 ∧ signature.length = 64 then do
    let signature_left := signature.take 32
    let signature_right := signature.drop 32
    match ← Ge.from_bytes public_key with
    | none => pure false
    | some g =>
      let a ← g.negate
      match ← Scalar32.fromBytesCanonical signature_right with
      | none => pure false
      | some signature_scalar =>
        -- reject all-0 public keys
        let d : UInt8 := public_key.foldl (· ||| ·) 0
        if d == 0 then pure false
        else
          let hash ← sha512_3 signature_left public_key message
          let a_scalar ← reduceWide hash
          let r ← GePartial.double_scalarmult_vartime a_scalar a signature_scalar
          let rcheck ← r.to_bytes
          pure (CT.array_u8_ct_eq rcheck signature_left).isTrue
  else none

/-- `fn edwards_to_montgomery_x(ed_y: &Fe) -> Fe` -/
def edwards_to_montgomery_x (ed_y : Fe32.Fe) : Option Fe32.Fe := do
  let ed_z := Fe32.Fe.ONE
  let temp_x ← Fe32.add ed_z ed_y
  let temp_z ← Fe32.sub ed_z ed_y
  let temp_z_inv ← Fe32.invert temp_z
  Fe32.mul temp_x temp_z_inv

/-- `pub fn exchange(public_key: &[u8; 32], private_key: &[u8; 32]) -> [u8; 32]` -/
def exchange (public_key private_key : Bytes) : Option Bytes := do
  let ed_y ← Fe32.fromBytes public_key
  let mont_x ← edwards_to_montgomery_x ed_y
  let extended_secret ← extended_secret private_key
  let n ← extended_scalar_bytes extended_secret
  let u ← Fe32.to_bytes mont_x
  if h : n.length = 32 ∧ u.length = 32 then X25519_32.curve25519 n u h.1 h.2 else none

end Cx.Impl.Ed25519_32
