/-
  Impl.MdEngine — the statement sequence every Merkle–Damgård `finish` of the crate consists of, as one
  generic definition, so that the padding theorem (Proofs/FixedBuffer.lean `md_finish_spec`) is proved once:

      self.buffer.standard_padding(rem, |d| func(d));
      *self.buffer.next::<L>() = <length bytes>;            // or two `next::<4>()` (RIPEMD-160: `next_write_twice`)
      func(self.buffer.full_buffer());

  Used (each engine's own `finish` is written out statement by statement in its Impl file and shown equal to
  `md_finish` by unfolding): sha2 `Engine256::finish` (N=64, rem=8, BE-64 of `processed_bytes << 3`),
  `Engine512::finish` (N=128, rem=16, BE-128), sha1 `mk_result` (64, 8, BE-64), ripemd160 `finalize_reset`
  (64, 8, LE-32 low word `(pb << 3) as u32` then LE-32 high word `(pb >> 29) as u32`).

  -- API:
  --   Cx.Impl.md_input  N buf inp func st   = FixedBuffer.input (alias kept for symmetry)
  --   Cx.Impl.md_finish N rem lenBytes buf func st : Option (FixedBuffer × σ)
  --   Cx.Impl.md_finish_with N rem wr buf func st, Cx.Impl.next_write_twice I lo hi   (two-word length field)
  --   Cx.Impl.len_be64 pb, len_be128 pb, len_le64_split pb : the length fields as the code computes them
-/
import CxVerif.Impl.FixedBuffer
namespace Cx.Impl

def md_input {σ : Type} (N : Nat) (buf : FixedBuffer) (inp : Bytes)
    (func : σ → Bytes → Option σ) (st : σ) : Option (FixedBuffer × σ) :=
  buf.input N inp func st

/-- the finish sequence with an arbitrary way `wr` of writing the `rem` length bytes (`next::<8>()`, `next::<16>()`,
    or RIPEMD-160's two `next::<4>()`) -/
def md_finish_with {σ : Type} (N rem : Nat) (wr : FixedBuffer → Option FixedBuffer) (buf : FixedBuffer)
    (func : σ → Bytes → Option σ) (st : σ) : Option (FixedBuffer × σ) :=
  match buf.standard_padding N rem func st with
  | none => none
  | some (buf, st) =>
    match wr buf with
    | none => none
    | some buf =>
      match buf.full_buffer N with
      | none => none
      | some (buf, block) =>
        match func st block with
        | none => none
        | some st => some (buf, st)

def md_finish {σ : Type} (N rem : Nat) (lenBytes : Bytes) (buf : FixedBuffer)
    (func : σ → Bytes → Option σ) (st : σ) : Option (FixedBuffer × σ) :=
  md_finish_with N rem (fun b => b.next_write rem lenBytes) buf func st

/-- RIPEMD-160 style: two consecutive `next::<4>()` writes -/
def next_write_twice (I : Nat) (lo hi : Bytes) (buf : FixedBuffer) : Option FixedBuffer :=
  match buf.next_write I lo with
  | none => none
  | some buf => buf.next_write I hi

/-- `(self.processed_bytes << 3).to_be_bytes()` for `processed_bytes : u64` (the shift drops the top 3 bits) -/
def len_be64 (processed_bytes : Nat) : Bytes := natToBE 8 ((processed_bytes * 8) % 2 ^ 64)

/-- `(self.processed_bytes << 3).to_be_bytes()` for `processed_bytes : u128` -/
def len_be128 (processed_bytes : Nat) : Bytes := natToBE 16 ((processed_bytes * 8) % 2 ^ 128)

/-- RIPEMD-160: `write_u32_le(next::<4>(), (pb << 3) as u32); write_u32_le(next::<4>(), (pb >> 29) as u32)` -/
def len_le64_split (processed_bytes : Nat) : Bytes × Bytes :=
  (natToLE 4 ((processed_bytes * 8) % 2 ^ 64 % 2 ^ 32), natToLE 4 ((processed_bytes / 2 ^ 29) % 2 ^ 32))

end Cx.Impl
