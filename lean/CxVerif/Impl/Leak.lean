/-
  Impl.Leak — leakage-instrumented models for C19.

  A computation in `L α` carries, next to its value, the list of *observable events* it produced: the outcome of
  every conditional branch, every loop bound and every memory index — exactly what determines the sequence of
  instruction addresses (and, for `index`, the data addresses) of straight-line machine code.  Arithmetic,
  bitwise operations and masked selects produce no event.  The instrumented functions below follow the Rust
  code statement by statement; `Props/C19/Leak.lean` proves (1) erasing the trace gives back the plain model of
  Impl.ConstantTime / Impl.X25519 and (2) the trace is a function of the public inputs (lengths, positions) only.
-/
import CxVerif.Impl.ConstantTime
namespace Cx.Impl.Leak
open Cx.Impl.CT

inductive Ev where
  | branch (taken : Bool)      -- a conditional jump and its outcome
  | bound (n : Nat)            -- a loop executed n times
  | index (i : Nat)            -- a memory access at a computed index i
  deriving DecidableEq, Repr

abbrev Trace := List Ev

structure L (α : Type) where
  val : α
  tr : Trace

instance : Monad L where
  pure a := ⟨a, []⟩
  bind m f := let r := f m.val; ⟨r.val, m.tr ++ r.tr⟩

def emit (e : Ev) : L Unit := ⟨(), [e]⟩

@[simp] theorem pure_val {α : Type} (a : α) : (pure a : L α).val = a := rfl
@[simp] theorem pure_tr {α : Type} (a : α) : (pure a : L α).tr = [] := rfl
@[simp] theorem bind_val {α β : Type} (m : L α) (f : α → L β) : (m >>= f).val = (f m.val).val := rfl
@[simp] theorem bind_tr {α β : Type} (m : L α) (f : α → L β) : (m >>= f).tr = m.tr ++ (f m.val).tr := rfl
@[simp] theorem emit_tr (e : Ev) : (emit e).tr = [e] := rfl

/-- the iterations of a loop over a list -/
def iter {σ α : Type} (body : σ → α → L σ) : List α → σ → L σ
  | [], s => pure s
  | x :: xs, s => body s x >>= iter body xs

/-- a loop over a list: emits its bound once, then runs the body for every element -/
def forEach {σ α : Type} (xs : List α) (s : σ) (body : σ → α → L σ) : L σ :=
  emit (.bound xs.length) >>= fun _ => iter body xs s

/-! ### constant_time.rs -/

/-- `impl CtEqual for &[u8; N]`: `for (x, y) in zip { acc |= x ^ y }` — no data-dependent event -/
def array_u8_ct_eqL (a b : List UInt8) : L Choice := do
  let acc ← forEach (a.zip b) (0 : UInt64) (fun acc p => pure (acc ||| (p.1.toUInt64 ^^^ p.2.toUInt64)))
  pure (u64_ct_zero acc)

/-- negative control: an early-exit comparison (`memcmp` style) leaks the first mismatch position -/
def earlyExitEq : List UInt8 → List UInt8 → L Bool
  | x :: xs, y :: ys => do
    emit (.branch (x == y))
    if x == y then earlyExitEq xs ys else pure false
  | _, _ => pure true

/-- `impl CtLesser for &[u8; N]`: the borrow chain over all bytes -/
def array_u8_ct_ltL (a b : List UInt8) : L Choice := do
  let borrow ← forEach (a.reverse.zip b.reverse) (0 : UInt8) (fun bo p => pure (borrowStep bo p.1 p.2))
  let bw := borrow.toUInt64
  pure ⟨(bw ||| wneg bw) >>> 63⟩

/-- `ct_array64_maybe_swap_with`: three loops over the limbs, masks only -/
def ct_array64_maybe_swap_withL (a b : List UInt64) (swap : Choice) : L (List UInt64 × List UInt64) := do
  let tmp ← forEach (a.zip b) ([] : List UInt64) (fun t p => pure (t ++ [(p.1 ^^^ p.2) &&& maskOf swap]))
  let a' ← forEach (a.zip tmp) ([] : List UInt64) (fun t p => pure (t ++ [p.1 ^^^ p.2]))
  let b' ← forEach (b.zip tmp) ([] : List UInt64) (fun t p => pure (t ++ [p.1 ^^^ p.2]))
  pure (a', b')

/-! ### table selection (`GePrecomp::select`) — generic in the entry type -/

/-- one iteration of the constant-time selection: row `k` is read (public index) and merged under the mask
    `ct_eq(babs, k+1)`; `set t row c` is the masked assignment (`maybe_set`) -/
def selectBody {α : Type} (set : α → α → Choice → α) (table : List α) (babs : UInt64) (t : α) (k : Nat) : L α :=
  emit (.index k) >>= fun _ =>
    match table[k]? with
    | some row => pure (set t row (u64_ct_eq babs (UInt64.ofNat (k + 1))))
    | none => pure t

/-- constant-time selection (`GePrecomp::select`): every table row is read, in order -/
def selectCt {α : Type} (set : α → α → Choice → α) (table : List α) (zero : α) (babs : UInt64) : L α :=
  forEach (List.range table.length) zero (selectBody set table babs)

/-- negative control: direct indexing `table[babs-1]` leaks the secret digit through the index -/
def selectDirect {α : Type} (table : List α) (zero : α) (babs : UInt64) : L α := do
  emit (.branch (babs == 0))
  if babs == 0 then pure zero else do
    emit (.index (babs.toNat - 1))
    pure (table.getD (babs.toNat - 1) zero)

/-! ### scalar loops (Montgomery ladder, fixed-base comb) — generic in the state and step -/

/-- `for pos in (0..n).rev() { let b = bit(e, pos); step(s, b) }`: the position is public (loop counter), the
    scalar byte is read at the public index `pos / 8`, the bit only feeds masks inside `step` -/
def ladder {σ : Type} (bit : Nat → Bool) (step : σ → Bool → σ) : Nat → σ → L σ
  | 0, s => pure s
  | k + 1, s => do
    emit (.branch true)                 -- loop condition `pos >= 0`, public
    emit (.index (k / 8))               -- e[pos / 8]
    ladder bit step k (step s (bit k))

/-- negative control: a double-and-add loop that branches on the scalar bit -/
def doubleAndAdd {σ : Type} (bit : Nat → Bool) (dbl add : σ → σ) : Nat → σ → L σ
  | 0, s => pure s
  | k + 1, s => do
    emit (.index (k / 8))
    emit (.branch (bit k))
    doubleAndAdd bit dbl add k (if bit k then add (dbl s) else dbl s)

end Cx.Impl.Leak
