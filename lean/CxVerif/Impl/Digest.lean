/-
  Impl.Digest — code-shaped model of the LEGACY object API of /repo:
    * `trait Digest` (src/digest.rs) and `trait Mac` (src/mac.rs) as records of methods over a state type
      (`&mut self` method = `State → Args → Option (State × Out)`, `none` = the Rust code panics);
    * the macro-generated legacy digest wrappers of src/sha1.rs, src/sha2.rs, src/sha3.rs, src/ripemd160.rs
      (`struct $name { ctx: …::$ctx, computed: bool }`), generic over a model `CtxModel γ` of the wrapped
      `hashing::…::Context` type;
    * the legacy BLAKE2 wrappers src/blake2b.rs / src/blake2s.rs (`Blake2b`, `Blake2s`: inherent methods,
      `impl Digest`, `impl Mac`), with the switch `codeVariant` (finding (d), see below);
    * the operation-history machine of the `dig.obj`, `mac.hmac`, `mac.blake2b`, `mac.blake2s` ops.
  Import-free (core Lean + the hash units' Impl models).

  Output buffers.  `result(&mut self, out: &mut [u8])` / `raw_result(&mut self, output: &mut [u8])` write into a
  caller-supplied slice.  Every implementation either overwrites the whole slice or panics
  (`copy_from_slice` / `assert!(out.len() == …)`), so the model takes the slice LENGTH and returns the new contents.

  Finding (d), fixed in /repo by commit c8ec1e5.  Before: `impl Mac for Blake2b { fn reset(&mut self)
  { Blake2b::reset(self) } }` and `Blake2b::reset` was `self.ctx.reset()` — the UNKEYED initial state: the key block
  was not fed again (the object did not retain the key), so after `reset` a keyed MAC object computed the unkeyed
  hash.  `CodeVariant.current` models exactly that old text; `.repaired` models the tree as it is now: the struct has
  `key: [u8; 64], keylen: usize` (model: `key : Bytes` = `key[..keylen]`), `new_keyed` / `reset_with_key` store the
  key and the inherent `reset()` (called by both `Digest::reset` and `Mac::reset`) re-keys when `keylen > 0`.

  -- API:
  --   Cx.Impl.Digest.DigestModel δ   input / result / reset / output_bits / block_size  (+ output_bytes)
  --   Cx.Impl.Digest.MacModel μ      input / reset / result / raw_result / output_bytes
  --   Cx.Impl.Digest.CtxModel γ      new / update_mut / reset / finalize_reset / OUTPUT_BITS / BLOCK_BYTES
  --   Cx.Impl.Digest.Legacy γ, Legacy.new M, legacyDigest M : DigestModel (Legacy γ)
  --   Cx.Impl.Digest.Blake2 W, Blake2.new / new_keyed / update / finalize / reset / reset_with_key / oneShot,
  --       blake2Digest v P : DigestModel (Blake2 W), blake2Mac v P : MacModel (Blake2 W)
  --   Cx.Impl.Digest.CodeVariant, codeVariant
  --   Cx.Impl.Digest.Op, ObjFam σ, runHist           the history machine (see Driver/MacKdf.lean)
  --   the 16 context models sha1Ctx … keccak512Ctx
-/
import CxVerif.Util.Bytes
import CxVerif.Impl.Sha1
import CxVerif.Impl.Ripemd160
import CxVerif.Impl.Sha2
import CxVerif.Impl.Sha3
import CxVerif.Impl.Blake2
import CxVerif.Extracted.MacKdf
import CxVerif.Spec.Hmac
namespace Cx.Impl.Digest
open Cx

/-! ## the two traits -/

/-- `trait Digest` (src/digest.rs) for one implementing type `δ` -/
structure DigestModel (δ : Type) where
  /-- `fn input(&mut self, input: &[u8])` -/
  input : δ → Bytes → Option δ
  /-- `fn result(&mut self, out: &mut [u8])` with `out.len()` given; returns the new contents of `out` -/
  result : δ → Nat → Option (δ × Bytes)
  /-- `fn reset(&mut self)` (never panics for the macro-generated wrappers) -/
  reset : δ → Option δ
  output_bits : δ → Nat
  block_size : δ → Nat

/-- the provided method `fn output_bytes(&self) -> usize { (self.output_bits() + 7) / 8 }` -/
def DigestModel.output_bytes {δ : Type} (D : DigestModel δ) (d : δ) : Nat := (D.output_bits d + 7) / 8

/-- `trait Mac` (src/mac.rs) for one implementing type `μ` -/
structure MacModel (μ : Type) where
  input : μ → Bytes → Option μ
  reset : μ → Option μ
  /-- `fn result(&mut self) -> MacResult`; the bytes are `MacResult::code()` -/
  result : μ → Option (μ × Bytes)
  /-- `fn raw_result(&mut self, output: &mut [u8])` with `output.len()` given -/
  raw_result : μ → Nat → Option (μ × Bytes)
  output_bytes : μ → Nat

/-! ## the macro-generated wrappers (`digest!` of src/sha2.rs, src/sha3.rs; src/sha1.rs; src/ripemd160.rs) -/

/-- what a wrapper uses of `hashing::<alg>::<Context>` and of the algorithm type's associated constants -/
structure CtxModel (γ : Type) where
  new : γ
  update_mut : γ → Bytes → Option γ
  reset : γ → γ
  finalize_reset : γ → Option (γ × Bytes)
  OUTPUT_BITS : Nat
  BLOCK_BYTES : Nat

/-- `pub struct $name { ctx: …, computed: bool }` -/
structure Legacy (γ : Type) where
  ctx : γ
  computed : Bool

namespace Legacy
variable {γ : Type}

/-- `pub const fn new() -> Self` -/
def new (M : CtxModel γ) : Legacy γ := { ctx := M.new, computed := false }

/-- `fn reset(&mut self) { self.ctx.reset(); self.computed = false; }` -/
def reset (M : CtxModel γ) (self : Legacy γ) : Legacy γ := { ctx := M.reset self.ctx, computed := false }

/-- `fn input(&mut self, msg: &[u8]) { assert!(!self.computed, …); self.ctx.update_mut(msg); }` -/
def input (M : CtxModel γ) (self : Legacy γ) (msg : Bytes) : Option (Legacy γ) :=
  if self.computed then none
  else match M.update_mut self.ctx msg with
    | none => none
    | some c => some { self with ctx := c }

/-- `fn result(&mut self, slice: &mut [u8]) { assert!(!self.computed, …); self.computed = true;
    slice.copy_from_slice(&self.ctx.finalize_reset()); }` — `copy_from_slice` panics unless the lengths are equal -/
def result (M : CtxModel γ) (self : Legacy γ) (sliceLen : Nat) : Option (Legacy γ × Bytes) :=
  if self.computed then none
  else match M.finalize_reset self.ctx with
    | none => none
    | some (c, d) => if sliceLen = d.length then some ({ ctx := c, computed := true }, d) else none

def output_bits (M : CtxModel γ) (_self : Legacy γ) : Nat := M.OUTPUT_BITS
def block_size (M : CtxModel γ) (_self : Legacy γ) : Nat := M.BLOCK_BYTES

end Legacy

/-- `impl Digest for $name` -/
def legacyDigest {γ : Type} (M : CtxModel γ) : DigestModel (Legacy γ) :=
  { input := Legacy.input M, result := Legacy.result M, reset := fun d => some (Legacy.reset M d),
    output_bits := Legacy.output_bits M, block_size := Legacy.block_size M }

/-! ### the 16 instantiations

  `OUTPUT_BITS` / `BLOCK_BYTES` are the numbers the wrappers' `output_bits()` / `block_size()` return; they are
  re-extracted from /repo on every run (`Extracted.MacKdf.LEGACY_DIGESTS`, rows `[id, OUTPUT_BITS, BLOCK_BYTES,
  paired]`) — the wrapper `digest!(Sha384, Context384)` returns `sha2::Sha384::OUTPUT_BITS`, and the extractor
  follows that path into src/hashing.  Theorem `Props.C08.legacy_sizes_table` says these are the standard values. -/

/-- look a legacy digest up in the extracted table by its id; absent rows give 0 (no object can then be used:
    `result` refuses every buffer) -/
def tableRow (id : Nat) : List Nat :=
  match Extracted.MacKdf.LEGACY_DIGESTS.find? (fun row => row.head? == some id) with
  | some row => row
  | none => []

def tblBits (id : Nat) : Nat := (tableRow id).getD 1 0
def tblBlock (id : Nat) : Nat := (tableRow id).getD 2 0

/- ids (fixed by tools/extractors/mackdf.py): 0 sha1, 1 sha224, 2 sha256, 3 sha384, 4 sha512, 5 sha512_224,
   6 sha512_256, 7 sha3_224, 8 sha3_256, 9 sha3_384, 10 sha3_512, 11 keccak224, 12 keccak256, 13 keccak384,
   14 keccak512, 15 ripemd160 -/

def sha1Ctx : CtxModel Sha1.Context :=
  { new := Sha1.Context.new, update_mut := Sha1.Context.update_mut, reset := Sha1.Context.reset,
    finalize_reset := Sha1.Context.finalize_reset, OUTPUT_BITS := tblBits 0, BLOCK_BYTES := tblBlock 0 }

def ripemd160Ctx : CtxModel Ripemd160.Context :=
  { new := Ripemd160.Context.new, update_mut := Ripemd160.Context.update_mut, reset := Ripemd160.Context.reset,
    finalize_reset := Ripemd160.Context.finalize_reset, OUTPUT_BITS := tblBits 15, BLOCK_BYTES := tblBlock 15 }

def sha2Ctx256 (A : Sha2.Alg256) (id : Nat) : CtxModel Sha2.Ctx256 :=
  { new := Sha2.Ctx256.new A, update_mut := Sha2.Ctx256.update_mut, reset := Sha2.Ctx256.reset A,
    finalize_reset := Sha2.Ctx256.finalize_reset A, OUTPUT_BITS := tblBits id, BLOCK_BYTES := tblBlock id }

def sha2Ctx512 (A : Sha2.Alg512) (id : Nat) : CtxModel Sha2.Ctx512 :=
  { new := Sha2.Ctx512.new A, update_mut := Sha2.Ctx512.update_mut, reset := Sha2.Ctx512.reset A,
    finalize_reset := Sha2.Ctx512.finalize_reset A, OUTPUT_BITS := tblBits id, BLOCK_BYTES := tblBlock id }

def sha224Ctx := sha2Ctx256 Sha2.Sha224 1
def sha256Ctx := sha2Ctx256 Sha2.Sha256 2
def sha384Ctx := sha2Ctx512 Sha2.Sha384 3
def sha512Ctx := sha2Ctx512 Sha2.Sha512 4
def sha512_224Ctx := sha2Ctx512 Sha2.Sha512Trunc224 5
def sha512_256Ctx := sha2Ctx512 Sha2.Sha512Trunc256 6

/-- `sha3::Context<bits>` / `keccak::Context<bits>`: `Engine<DIGESTLEN, DSLEN>` with DSLEN = 2 (SHA-3) or 0 (Keccak) -/
def sha3Ctx (dl ds id : Nat) : CtxModel Sha3.Context :=
  { new := Sha3.Context.new, update_mut := Sha3.Context.update_mut dl, reset := Sha3.Context.reset,
    finalize_reset := Sha3.Context.finalize_reset dl ds, OUTPUT_BITS := tblBits id, BLOCK_BYTES := tblBlock id }

def sha3_224Ctx := sha3Ctx 28 2 7
def sha3_256Ctx := sha3Ctx 32 2 8
def sha3_384Ctx := sha3Ctx 48 2 9
def sha3_512Ctx := sha3Ctx 64 2 10
def keccak224Ctx := sha3Ctx 28 0 11
def keccak256Ctx := sha3Ctx 32 0 12
def keccak384Ctx := sha3Ctx 48 0 13
def keccak512Ctx := sha3Ctx 64 0 14

/-! ## the legacy BLAKE2 wrappers (src/blake2b.rs, src/blake2s.rs — the same text up to b/s) -/

inductive CodeVariant
  /-- the code as it is: `reset` = unkeyed initial state -/
  | current
  /-- repaired: the object retains the key and `reset` re-keys -/
  | repaired
deriving DecidableEq, Repr

/-- THE SWITCH: which behaviour of `Blake2b::reset` / `Blake2s::reset` the driver models.
    `.repaired` since /repo commit c8ec1e5 "fix: keyed Blake2b/Blake2s objects lost their key on reset";
    `.current` (the tree before that commit) is kept as documentation with its witness theorems (Props/C09). -/
def codeVariant : CodeVariant := .repaired

/-- the byte-counter arithmetic of the BLAKE2 engine in the tree as it is (see Impl.Blake2) -/
def blakeProfile : Blake2.Profile := .wrapping

/-- `pub struct Blake2b { ctx: blake2b::ContextDyn, computed: bool, key: [u8; 64], keylen: usize }`;
    `key` = `self.key[..self.keylen]` (in `.current`, the old tree, the field did not exist: no method reads it there) -/
structure Blake2 (W : Type) where
  ctx : Blake2.ContextDyn W
  computed : Bool
  key : Bytes

namespace Blake2
variable {W : Type} [Spec.Blake2.Word W]

/-- `pub fn new(outlen: usize) -> Self` -/
def new (P : Spec.Blake2.Params W) (outlen : Nat) : Option (Blake2 W) :=
  match Impl.Blake2.ContextDyn.new P outlen with
  | none => none
  | some ctx => some { ctx := ctx, computed := false, key := [] }

/-- `pub fn new_keyed(outlen: usize, key: &[u8]) -> Self { assert!(key.len() <= 64); …ContextDyn::new_keyed(outlen, key) … }`
    (`keyAssert` = that literal, extracted: 64 in both files; BLAKE2s keys of 33..64 bytes are then refused by
    `ContextDyn::new_keyed`) -/
def new_keyed (P : Spec.Blake2.Params W) (keyAssert : Nat) (outlen : Nat) (key : Bytes) : Option (Blake2 W) :=
  if ¬ key.length ≤ keyAssert then none
  else match Impl.Blake2.ContextDyn.new_keyed P outlen key with
    | none => none
    | some ctx => some { ctx := ctx, computed := false, key := key }

/-- `fn update(&mut self, input: &[u8]) { assert!(!self.computed, …); self.ctx.update_mut(input); }` -/
def update (P : Spec.Blake2.Params W) (self : Blake2 W) (input : Bytes) : Option (Blake2 W) :=
  if self.computed then none
  else match self.ctx.update_mut P blakeProfile input with
    | none => none
    | some c => some { self with ctx := c }

/-- `fn finalize(&mut self, slice: &mut [u8]) { assert!(!self.computed, …); self.ctx.finalize_reset_at(slice);
    self.computed = true; }` -/
def finalize (P : Spec.Blake2.Params W) (self : Blake2 W) (sliceLen : Nat) : Option (Blake2 W × Bytes) :=
  if self.computed then none
  else match self.ctx.finalize_reset_at P blakeProfile sliceLen with
    | none => none
    | some (c, out) => some ({ self with ctx := c, computed := true }, out)

/-- `pub fn reset_with_key(&mut self, key: &[u8]) { self.ctx.reset_with_key(key); self.key = [0; 64];
    self.key[..key.len()].copy_from_slice(key); self.keylen = key.len(); self.computed = false; }`
    (`ctx.reset_with_key` asserts `key.len() <= MAX_KEYLEN <= 64` first, so the copy cannot fail) -/
def reset_with_key (P : Spec.Blake2.Params W) (self : Blake2 W) (key : Bytes) : Option (Blake2 W) :=
  match self.ctx.reset_with_key P key with
  | none => none
  | some c => some { ctx := c, computed := false, key := key }

/-- `.repaired` (THE CODE AS IT IS since /repo commit c8ec1e5):
      `pub fn reset(&mut self) { if self.keylen > 0 { self.ctx.reset_with_key(&self.key[..self.keylen]); }
                                 else { self.ctx.reset(); }  self.computed = false; }`
    `.current` (the code before that commit): `pub fn reset(&mut self) { self.ctx.reset(); self.computed = false; }` -/
def reset (v : CodeVariant) (P : Spec.Blake2.Params W) (self : Blake2 W) : Option (Blake2 W) :=
  match v with
  | .current => some { self with ctx := self.ctx.reset P, computed := false }
  | .repaired =>
    if self.key.length > 0 then
      match self.ctx.reset_with_key P self.key with
      | none => none
      | some c => some { self with ctx := c, computed := false }
    else some { self with ctx := self.ctx.reset P, computed := false }

/-- `pub fn blake2b(out: &mut [u8], input: &[u8], key: &[u8])` -/
def oneShot (P : Spec.Blake2.Params W) (keyAssert : Nat) (outLen : Nat) (input key : Bytes) : Option Bytes :=
  match (if !key.isEmpty then new_keyed P keyAssert outLen key else new P outLen) with
  | none => none
  | some hasher =>
    match update P hasher input with
    | none => none
    | some hasher =>
      match finalize P hasher outLen with
      | none => none
      | some (_, out) => some out

end Blake2

section
variable {W : Type} [Spec.Blake2.Word W]

/-- `impl Digest for Blake2b`: `block_size` is `blake2b::Blake2b::<0>::BLOCK_BYTES` = `Engine::BLOCK_BYTES` -/
def blake2Digest (v : CodeVariant) (P : Spec.Blake2.Params W) (blockBytes : Nat) : DigestModel (Blake2 W) :=
  { input := Blake2.update P
    result := Blake2.finalize P
    reset := Blake2.reset v P
    output_bits := fun o => o.ctx.output_bits
    block_size := fun _ => blockBytes }

/-- `impl Mac for Blake2b`: `result` allocates `output_bits() / 8` bytes and calls `raw_result` = `finalize` -/
def blake2Mac (v : CodeVariant) (P : Spec.Blake2.Params W) : MacModel (Blake2 W) :=
  { input := Blake2.update P
    reset := Blake2.reset v P
    result := fun o => Blake2.finalize P o (o.ctx.output_bits / 8)
    raw_result := Blake2.finalize P
    output_bytes := fun o => o.ctx.output_bits / 8 }

end

def blake2bDigest (v : CodeVariant) := blake2Digest v Impl.Blake2.b Extracted.Blake2.B_BLOCK_BYTES
def blake2sDigest (v : CodeVariant) := blake2Digest v Impl.Blake2.s Extracted.Blake2.S_BLOCK_BYTES
def blake2bMac (v : CodeVariant) := blake2Mac v Impl.Blake2.b
def blake2sMac (v : CodeVariant) := blake2Mac v Impl.Blake2.s
def bKeyAssert : Nat := Extracted.MacKdf.BLAKE2_KEY_ASSERT.getD 0 0
def sKeyAssert : Nat := Extracted.MacKdf.BLAKE2_KEY_ASSERT.getD 1 0

/-! ## operation histories (ops `dig.obj`, `mac.hmac`, `mac.blake2b`, `mac.blake2s`) -/

inductive Op where
  /-- `i<hex>` `input` -/
  | input (b : Bytes)
  /-- `R` `Mac::result()` / `Digest::result(&mut [0; output_bytes()])` -/
  | result
  /-- `W` / `W<n>` `Mac::raw_result(&mut [0; n])` / `Digest::result(&mut [0; n])`; `none` = `output_bytes()` -/
  | rawResult (n : Option Nat)
  /-- `r` the trait's `reset` -/
  | reset
  /-- `k<hex>` `reset_with_key` (BLAKE2 objects only) -/
  | resetWithKey (k : Bytes)
  /-- `c` push a clone of the current object (types that are `Clone`) -/
  | clone
  /-- `x` swap the current object with the top of the stack (no-op on an empty stack) -/
  | swap
  /-- `o` emit the reported sizes -/
  | sizes
deriving Repr

/-- one emitted value -/
inductive Out where
  | bytes (b : Bytes)
  | nums (l : List Nat)
deriving Repr, DecidableEq

/-- an object type as the history machine sees it (`none` = panic) -/
structure ObjFam (σ : Type) where
  input : σ → Bytes → Option σ
  result : σ → Option (σ × Bytes)
  raw_result : σ → Nat → Option (σ × Bytes)
  output_bytes : σ → Nat
  reset : σ → Option σ
  reset_with_key : σ → Bytes → Option σ
  sizes : σ → List Nat

/-- run a history; answer: the values emitted (in order) and whether the history ended in a panic
    (the ops after a panic are not executed) -/
def runHist {σ : Type} (F : ObjFam σ) : List Op → σ → List σ → List Out → List Out × Bool
  | [], _, _, out => (out.reverse, false)
  | op :: ops, cur, stack, out =>
    match op with
    | .input b => match F.input cur b with
      | none => (out.reverse, true)
      | some c => runHist F ops c stack out
    | .result => match F.result cur with
      | none => (out.reverse, true)
      | some (c, d) => runHist F ops c stack (.bytes d :: out)
    | .rawResult n => match F.raw_result cur (n.getD (F.output_bytes cur)) with
      | none => (out.reverse, true)
      | some (c, d) => runHist F ops c stack (.bytes d :: out)
    | .reset => match F.reset cur with
      | none => (out.reverse, true)
      | some c => runHist F ops c stack out
    | .resetWithKey k => match F.reset_with_key cur k with
      | none => (out.reverse, true)
      | some c => runHist F ops c stack out
    | .clone => runHist F ops cur (cur :: stack) out
    | .swap => match stack with
      | [] => runHist F ops cur [] out
      | t :: st => runHist F ops t (cur :: st) out
    | .sizes => runHist F ops cur stack (.nums (F.sizes cur) :: out)

/-- a `Digest` object in the history machine: `R` and `W` are both `Digest::result`;
    sizes = `output_bytes()/output_bits()/block_size()` -/
def digestFam {δ : Type} (D : DigestModel δ) : ObjFam δ :=
  { input := D.input
    result := fun d => D.result d (D.output_bytes d)
    raw_result := D.result
    output_bytes := D.output_bytes
    reset := D.reset
    reset_with_key := fun _ _ => none
    sizes := fun d => [D.output_bytes d, D.output_bits d, D.block_size d] }

/-- a `Mac` object in the history machine; sizes = `output_bytes()` -/
def macFam {μ : Type} (M : MacModel μ) : ObjFam μ :=
  { input := M.input, result := M.result, raw_result := M.raw_result, output_bytes := M.output_bytes,
    reset := M.reset, reset_with_key := fun _ _ => none, sizes := fun m => [M.output_bytes m] }

/-- the ABSTRACT object (Spec.MacObj) in the history machine: `sizes` = what `o` reports,
    `rekey k` = the function of the object re-keyed with `k` (`none`: not admissible / no such method) -/
def absFam (sizes : List Nat) (rekey : Bytes → Option (Bytes → Bytes)) : ObjFam Spec.MacObj.Abs :=
  { input := Spec.MacObj.input
    result := Spec.MacObj.result
    raw_result := Spec.MacObj.resultN
    output_bytes := fun a => a.outLen
    reset := fun a => some (Spec.MacObj.reset a)
    reset_with_key := fun a k => (rekey k).map (Spec.MacObj.rekey a)
    sizes := fun _ => sizes }

end Cx.Impl.Digest
