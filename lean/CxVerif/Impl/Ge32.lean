/-
  Impl.Ge32 — code-shaped model of /repo/src/curve25519/ge.rs (Edwards group layer) compiled against the 32-bit
  backends (`feature = "force-32bits"` / `target_arch = "arm"`): `Fe = fe32::Fe` (Impl/Fe32.lean, ten signed i32
  limbs, every `+ - *` checked) and `Scalar = scalar32::Scalar` (Impl/Scalar32.lean, `[u8; 32]`).
  ge.rs is backend-generic Rust: this file is the SAME model text as Impl/Ge.lean (one `def` per Rust fn, same
  names, same statement order) with the 32-bit field operations; the definitions of Impl/Ge.lean that mention neither
  `Fe` nor `Scalar` (`setSign`, `bnegativeOf`, `babsOf`, `recodeLoop`, `recode`, `topIndex`) and the generic
  `Scalar::slide` loops of scalar/mod.rs (`Impl.Scalar64.slideOuter` on a `[i8; 256]`) are reused, not copied.
  Differences forced by the backend API:  `Fe::from_bytes` of fe32 is a checked computation (`Option`);
  `Scalar::nibbles` / `bits` return `List Int` (64 / 256 entries); tables `GE_BASE`, `BI` are those of
  fe32/precomp.rs (Extracted/B32Tables.lean, re-extracted on every run).
  Every function returns `Option`: `none` = a Rust panic (i32/i64 overflow of an overflow-checked build inside the
  field arithmetic, `i8` overflow, an out-of-range table index, or the `debug_assert!` of `GePrecomp::select`).

  -- API (namespace Cx.Impl.Ge32): the same names as Impl/Ge.lean —
  --   Ge / GePartial / GeP1P1 / GePrecomp / GeAffine / GeCached,  GE_BASE, BI,
  --   GeAffine.to_bytes / from_bytes, GeP1P1.to_partial / to_full, GePrecomp.ZERO / maybe_set / select,
  --   Ge.ZERO / from_affine / to_affine / from_bytes / negate / to_partial / to_cached / double_p1p1 / double /
  --   double_partial / to_bytes / add_cached / add_precomp / sub_cached / sub_precomp / scalarmult_base,
  --   GePartial.ZERO / to_bytes / double_p1p1 / double / double_full / double_scalarmult_vartime,
  --   slide : Scalar → Option (Vector Int 256)     `Scalar::slide` of scalar/mod.rs on `scalar32::bits`
-/
import CxVerif.Impl.Fe32
import CxVerif.Impl.Scalar32
import CxVerif.Impl.Ge
import CxVerif.Extracted.B32Tables
namespace Cx.Impl.Ge32
open Cx Cx.Impl.Fe32
open Cx.Impl.Scalar32 (Scalar)
open Cx.Impl.Scalar64 (ckI8 shlI8)
open Cx.Impl.Ge (setSign bnegativeOf babsOf recodeLoop recode topIndex)

/-- `pub struct Ge { x, y, z, t }` — extended homogeneous coordinates: X = x/z, Y = y/z, X·Y = t/z -/
structure Ge where
  x : Fe
  y : Fe
  z : Fe
  t : Fe
  deriving DecidableEq, Repr

/-- `pub struct GePartial { x, y, z }` -/
structure GePartial where
  x : Fe
  y : Fe
  z : Fe
  deriving DecidableEq, Repr

/-- `pub struct GeP1P1 { x, y, z, t }` — completed point: X = x/z, Y = y/t -/
structure GeP1P1 where
  x : Fe
  y : Fe
  z : Fe
  t : Fe
  deriving DecidableEq, Repr

/-- `pub struct GePrecomp { y_plus_x, y_minus_x, xy2d }` -/
structure GePrecomp where
  y_plus_x : Fe
  y_minus_x : Fe
  xy2d : Fe
  deriving DecidableEq, Repr

/-- `struct GeAffine { x, y }` -/
structure GeAffine where
  x : Fe
  y : Fe
  deriving DecidableEq, Repr

/-- `pub struct GeCached { y_plus_x, y_minus_x, z, t2d }` -/
structure GeCached where
  y_plus_x : Fe
  y_minus_x : Fe
  z : Fe
  t2d : Fe
  deriving DecidableEq, Repr

/-! ### precomp.rs tables -/

/-- one `GePrecomp { y_plus_x: Fe([..]), y_minus_x: Fe([..]), xy2d: Fe([..]) }` literal -/
def GePrecomp.ofLimbs : List (List Int) → GePrecomp
  | [a, b, c] => ⟨Fe.ofList a, Fe.ofList b, Fe.ofList c⟩
  | _ => ⟨Fe.ofList [], Fe.ofList [], Fe.ofList []⟩   -- only when the extraction failed (shape is checked there)

/-- `pub(crate) const GE_BASE: [[GePrecomp; 8]; 32]` -/
def GE_BASE : List (List GePrecomp) := Extracted.B32Tables.GE_BASE.map (·.map GePrecomp.ofLimbs)
/-- `pub(crate) const BI: [GePrecomp; 8]` -/
def BI : List GePrecomp := Extracted.B32Tables.BI.map GePrecomp.ofLimbs

/-! ### GeAffine  (`setSign` = `bs[31] ^= (if x.is_negative() { 1 } else { 0 }) << 7`: Impl.Ge.setSign) -/

/-- `GeAffine::to_bytes` -/
def GeAffine.to_bytes (self : GeAffine) : Option Bytes := do
  let bs ← Fe32.to_bytes self.y
  let n ← is_negative self.x
  pure (setSign bs n)

/-- `GeAffine::from_bytes(s: &[u8; 32]) -> Option<Self>` (outer `none`: wrong length / panic) -/
def GeAffine.from_bytes (s : Bytes) : Option (Option GeAffine) :=
  if h : s.length = 32 then do
    let y ← Fe32.from_bytes s h
    let y2 ← square y
    let u ← sub y2 Fe.ONE
    let yd ← mul y2 Fe.D
    let v ← add yd Fe.ONE
    let vv ← square v
    let v3 ← mul vv v
    let v3v3 ← square v3
    let v7 ← mul v3v3 v
    let uv7 ← mul v7 u
    let pw ← pow25523 uv7
    let pv ← mul pw v3
    let x ← mul pv u
    let xx ← square x
    let vxx ← mul xx v
    let check ← sub vxx u
    let signbit : Bool := ((s[31]'(by omega)) >>> 7) != 0
    let finish (x : Fe) : Option (Option GeAffine) := do
      let n ← is_negative x
      let x ← if n != signbit then negate_mut x else pure x
      pure (some ⟨x, y⟩)
    if (← is_nonzero check) then
      let check2 ← add vxx u
      if (← is_nonzero check2) then pure none
      else
        let x ← mul x Fe.SQRTM1
        finish x
    else finish x
  else none

/-! ### GeP1P1 -/

/-- `GeP1P1::to_partial` -/
def GeP1P1.to_partial (self : GeP1P1) : Option GePartial := do
  let x ← mul self.x self.t
  let y ← mul self.y self.z
  let z ← mul self.z self.t
  pure ⟨x, y, z⟩

/-- `GeP1P1::to_full` -/
def GeP1P1.to_full (self : GeP1P1) : Option Ge := do
  let x ← mul self.x self.t
  let y ← mul self.y self.z
  let z ← mul self.z self.t
  let t ← mul self.x self.y
  pure ⟨x, y, z, t⟩

/-- the body shared verbatim by `GePartial::double_p1p1` and `Ge::double_p1p1` -/
def double_p1p1_xyz (x y z : Fe) : Option GeP1P1 := do
  let xx ← square x
  let yy ← square y
  let b ← square_and_double z
  let a ← add x y
  let aa ← square a
  let y3 ← add yy xx
  let z3 ← sub yy xx
  let x3 ← sub aa y3
  let t3 ← sub b z3
  pure ⟨x3, y3, z3, t3⟩

/-! ### GePrecomp -/

/-- `GePrecomp::ZERO` -/
def GePrecomp.ZERO : GePrecomp := ⟨Fe.ONE, Fe.ONE, Fe.ZERO⟩

/-- `GePrecomp::maybe_set` -/
def GePrecomp.maybe_set (self other : GePrecomp) (do_swap : CT.Choice) : GePrecomp :=
  ⟨Fe32.maybe_set self.y_plus_x other.y_plus_x do_swap,
   Fe32.maybe_set self.y_minus_x other.y_minus_x do_swap,
   Fe32.maybe_set self.xy2d other.xy2d do_swap⟩

/-- `GePrecomp::select(pos: usize, b: i8)`: the table row is read with bounds check, the eight masked sets
    follow in source order, then the conditional negation -/
def GePrecomp.select (pos : Nat) (b : Int) : Option GePrecomp := do
  if b < -8 ∨ b > 8 then none        -- debug_assert!(b >= -8 && b <= 8)
  else
    let bnegative := bnegativeOf b
    let babs ← babsOf b
    let row ← GE_BASE[pos]?
    let babs8 := UInt8.ofNat babs
    let step (t : GePrecomp) (k : Nat) : Option GePrecomp := do
      let e ← row[k]?
      pure (t.maybe_set e (CT.u8_ct_eq babs8 (UInt8.ofNat (k + 1))))
    let t := GePrecomp.ZERO
    let t ← step t 0
    let t ← step t 1
    let t ← step t 2
    let t ← step t 3
    let t ← step t 4
    let t ← step t 5
    let t ← step t 6
    let t ← step t 7
    let nxy ← neg t.xy2d
    let minus_t : GePrecomp := ⟨t.y_minus_x, t.y_plus_x, nxy⟩
    pure (t.maybe_set minus_t (CT.u8_ct_nonzero (UInt8.ofNat bnegative)))

/-! ### Ge -/

namespace Ge

/-- `Ge::ZERO` -/
def ZERO : Ge := ⟨Fe.ZERO, Fe.ONE, Fe.ONE, Fe.ZERO⟩

/-- `Ge::from_affine` -/
def from_affine (affine : GeAffine) : Option Ge := do
  let t ← mul affine.x affine.y
  pure ⟨affine.x, affine.y, Fe.ONE, t⟩

/-- `Ge::to_affine` -/
def to_affine (self : Ge) : Option GeAffine := do
  let recip ← invert self.z
  let x ← mul self.x recip
  let y ← mul self.y recip
  pure ⟨x, y⟩

/-- `Ge::from_bytes(s: &[u8; 32]) -> Option<Ge>` -/
def from_bytes (s : Bytes) : Option (Option Ge) :=
  match GeAffine.from_bytes s with
  | none => none
  | some none => some none
  | some (some a) => match from_affine a with
    | none => none
    | some g => some (some g)

/-- `Ge::negate` -/
def negate (self : Ge) : Option Ge := do
  let x ← neg self.x
  let t ← neg self.t
  pure ⟨x, self.y, self.z, t⟩

/-- `Ge::to_partial` -/
def to_partial (self : Ge) : GePartial := ⟨self.x, self.y, self.z⟩

/-- `Ge::to_cached` -/
def to_cached (self : Ge) : Option GeCached := do
  let ypx ← add self.y self.x
  let ymx ← sub self.y self.x
  let t2d ← mul self.t Fe.D2
  pure ⟨ypx, ymx, self.z, t2d⟩

/-- `Ge::double_p1p1` -/
def double_p1p1 (self : Ge) : Option GeP1P1 := double_p1p1_xyz self.x self.y self.z

/-- `Ge::double` -/
def double (self : Ge) : Option Ge := do (← self.double_p1p1).to_full

/-- `Ge::double_partial` -/
def double_partial (self : Ge) : Option GePartial := do (← self.double_p1p1).to_partial

/-- `Ge::to_bytes` -/
def to_bytes (self : Ge) : Option Bytes := do (← self.to_affine).to_bytes

/-- `impl Add<&GeCached> for &Ge` -/
def add_cached (self : Ge) (rhs : GeCached) : Option GeP1P1 := do
  let y1_plus_x1 ← add self.y self.x
  let y1_minus_x1 ← sub self.y self.x
  let a ← mul y1_plus_x1 rhs.y_plus_x
  let b ← mul y1_minus_x1 rhs.y_minus_x
  let c ← mul rhs.t2d self.t
  let zz ← mul self.z rhs.z
  let d ← add zz zz
  let x3 ← sub a b
  let y3 ← add a b
  let z3 ← add d c
  let t3 ← sub d c
  pure ⟨x3, y3, z3, t3⟩

/-- `impl Add<&GePrecomp> for &Ge` -/
def add_precomp (self : Ge) (rhs : GePrecomp) : Option GeP1P1 := do
  let y1_plus_x1 ← add self.y self.x
  let y1_minus_x1 ← sub self.y self.x
  let a ← mul y1_plus_x1 rhs.y_plus_x
  let b ← mul y1_minus_x1 rhs.y_minus_x
  let c ← mul rhs.xy2d self.t
  let d ← add self.z self.z
  let x3 ← sub a b
  let y3 ← add a b
  let z3 ← add d c
  let t3 ← sub d c
  pure ⟨x3, y3, z3, t3⟩

/-- `impl Sub<&GeCached> for &Ge` -/
def sub_cached (self : Ge) (rhs : GeCached) : Option GeP1P1 := do
  let y1_plus_x1 ← add self.y self.x
  let y1_minus_x1 ← sub self.y self.x
  let a ← mul y1_plus_x1 rhs.y_minus_x
  let b ← mul y1_minus_x1 rhs.y_plus_x
  let c ← mul rhs.t2d self.t
  let zz ← mul self.z rhs.z
  let d ← add zz zz
  let x3 ← sub a b
  let y3 ← add a b
  let z3 ← sub d c
  let t3 ← add d c
  pure ⟨x3, y3, z3, t3⟩

/-- `impl Sub<&GePrecomp> for &Ge` -/
def sub_precomp (self : Ge) (rhs : GePrecomp) : Option GeP1P1 := do
  let y1_plus_x1 ← add self.y self.x
  let y1_minus_x1 ← sub self.y self.x
  let a ← mul y1_plus_x1 rhs.y_minus_x
  let b ← mul y1_minus_x1 rhs.y_plus_x
  let c ← mul rhs.xy2d self.t
  let d ← add self.z self.z
  let x3 ← sub a b
  let y3 ← add a b
  let z3 ← sub d c
  let t3 ← add d c
  pure ⟨x3, y3, z3, t3⟩

end Ge

/-! ### GePartial -/

namespace GePartial

/-- `GePartial::ZERO` -/
def ZERO : GePartial := ⟨Fe.ZERO, Fe.ONE, Fe.ONE⟩

/-- `GePartial::to_bytes` -/
def to_bytes (self : GePartial) : Option Bytes := do
  let recip ← invert self.z
  let x ← mul self.x recip
  let y ← mul self.y recip
  let bs ← Fe32.to_bytes y
  let n ← is_negative x
  pure (setSign bs n)

/-- `GePartial::double_p1p1` -/
def double_p1p1 (self : GePartial) : Option GeP1P1 := double_p1p1_xyz self.x self.y self.z

/-- `GePartial::double` -/
def double (self : GePartial) : Option GePartial := do (← self.double_p1p1).to_partial

/-- `GePartial::double_full` -/
def double_full (self : GePartial) : Option Ge := do (← self.double_p1p1).to_full

end GePartial

/-! ### scalarmult_base -/

/-- `for j in 0..32 { let i = j * 2 + off; t = GePrecomp::select(j, es[i]); r = &h + &t; h = r.to_full(); }`
    from `j` on (`n` iterations left) -/
def combLoop (es : List Int) (off : Nat) : Nat → Nat → Ge → Option Ge
  | 0, _, h => some h
  | n + 1, j, h => do
    let e ← es[j * 2 + off]?
    let t ← GePrecomp.select j e
    let r ← h.add_precomp t
    let h ← r.to_full
    combLoop es off n (j + 1) h

/-- `Ge::scalarmult_base(a: &Scalar) -> Ge` -/
def Ge.scalarmult_base (a : Scalar) : Option Ge := do
  let es ← recode (Scalar32.nibbles a)
  let h ← combLoop es 1 32 0 Ge.ZERO
  let h ← h.double_partial
  let h ← h.double
  let h ← h.double
  let h ← h.double_full
  combLoop es 0 32 0 h

/-! ### double_scalarmult_vartime -/

theorem bits_length (s : Scalar) : (Scalar32.bits s).length = 256 := by
  simp [Scalar32.bits]

/-- `Scalar::bits()` of scalar32 as the `[i8; 256]` array it is -/
def bitsArr (s : Scalar) : Vector Int 256 := ⟨(Scalar32.bits s).toArray, by simp [bits_length]⟩

/-- `pub(crate) fn slide(&self) -> [i8; 256]` (scalar/mod.rs, generic in the backend): `let mut r = self.bits();`
    followed by the three nested loops (`Impl.Scalar64.slideOuter`, which only sees the `[i8; 256]`) -/
def slide (s : Scalar) : Option (Vector Int 256) := Scalar64.slideOuter 256 0 (bitsArr s)


/-- one pass of the second loop body for index `i` -/
def dsmStep (ai : List GeCached) (aslide bslide : List Int) (r : GePartial) (i : Nat) : Option GePartial := do
  let t ← r.double_p1p1
  let ad ← aslide[i]?
  let t ←
    if ad > 0 then do
      let c ← ai[(Int.tdiv ad 2).toNat]?
      (← t.to_full).add_cached c
    else if ad < 0 then do
      let nd ← ckI8 (-ad)
      let c ← ai[(Int.tdiv nd 2).toNat]?
      (← t.to_full).sub_cached c
    else pure t
  let bd ← bslide[i]?
  let t ←
    if bd > 0 then do
      let c ← BI[(Int.tdiv bd 2).toNat]?
      (← t.to_full).add_precomp c
    else if bd < 0 then do
      let nd ← ckI8 (-bd)
      let c ← BI[(Int.tdiv nd 2).toNat]?
      (← t.to_full).sub_precomp c
    else pure t
  t.to_partial

/-- the second loop: indices `n-1, …, 0` -/
def dsmLoop (ai : List GeCached) (aslide bslide : List Int) : Nat → GePartial → Option GePartial
  | 0, r => some r
  | n + 1, r => do
    let r ← dsmStep ai aslide bslide r n
    dsmLoop ai aslide bslide n r

/-- `a_{k+2} = (&a2 + &a_k).to_full().to_cached()` -/
def nextOdd (a2 : Ge) (ak : GeCached) : Option GeCached := do
  let s ← a2.add_cached ak
  let f ← s.to_full
  f.to_cached

/-- `GePartial::double_scalarmult_vartime(a_scalar, a_point, b_scalar)` -/
def GePartial.double_scalarmult_vartime (a_scalar : Scalar) (a_point : Ge) (b_scalar : Scalar) :
    Option GePartial := do
  let aslide := (← slide a_scalar).toList
  let bslide := (← slide b_scalar).toList
  let a1 ← a_point.to_cached
  let a2 ← (← a_point.double_p1p1).to_full
  let a3 ← nextOdd a2 a1
  let a5 ← nextOdd a2 a3
  let a7 ← nextOdd a2 a5
  let a9 ← nextOdd a2 a7
  let a11 ← nextOdd a2 a9
  let a13 ← nextOdd a2 a11
  let a15 ← nextOdd a2 a13
  let ai := [a1, a3, a5, a7, a9, a11, a13, a15]
  let r := GePartial.ZERO
  match topIndex aslide bslide 256 with
  | none => pure r
  | some i => dsmLoop ai aslide bslide (i + 1) r

end Cx.Impl.Ge32
