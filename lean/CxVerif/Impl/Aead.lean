/-
  Impl.Aead — code-shaped model of /repo/src/chacha20poly1305.rs: the incremental `Context<ROUNDS>`,
  `ContextEncryption`, `ContextDecryption`, `Tag`, and the one-shot `ChaChaPoly1305<ROUNDS>`.
  One `def` per Rust fn, same names; builds on Impl.ChaCha (`ChaCha<R>` context: cached block + offset),
  Impl.Poly1305 (donna-32 limbs) and Impl.ConstantTime (`[u8; 16]` equality).

  -- API:
  --   Cx.Impl.Aead.Context σ                      struct Context { cipher, mac, aad_len : u64, data_len : u64 }
  --   Cx.Impl.Aead.Context.new (E) (R) (key nonce)         : Except String (Context σ)
  --   Cx.Impl.Aead.Context.add_data (c) (aad)               : Except String (Context σ)
  --   Cx.Impl.Aead.Context.to_encryption / to_decryption    : Except String (Context σ)
  --   Cx.Impl.Aead.ContextEncryption.encrypt_mut (E) (R) (c) (buf)            : Except String (Context σ × Bytes)
  --   Cx.Impl.Aead.ContextEncryption.encrypt (E) (R) (c) (input) (outputLen)  : Except String (Context σ × Bytes)
  --   Cx.Impl.Aead.ContextEncryption.finalize (c)                              : Except String Bytes      (Tag)
  --   Cx.Impl.Aead.ContextDecryption.decrypt_mut / decrypt / finalize (c) (expected_tag) : … Bool
  --   Cx.Impl.Aead.ChaChaPoly1305.new (E) (R) (key nonce aad) / encrypt / decrypt
  --   Cx.Impl.Aead.Tag.eq : Bytes → Bytes → Bool               `impl PartialEq for Tag` through `CtEqual for &[u8; 16]`

  Conventions: a Rust panic (assert!, checked `+=` on u64, a panic of the ChaCha / Poly1305 layer) is
  `Except.error "PANIC"`; what the Rust *type system* refuses (`nonce : &[u8; 12]`, `Tag([u8; 16])`) is
  `Except.error "bad-args"`.  `aad_len`/`data_len` are `Nat` with the u64 overflow check written out.
  The three wrapper types `Context`/`ContextEncryption`/`ContextDecryption` share the representation
  (`ContextEncryption(Context)`); which methods exist on which wrapper is the typing of the operation histories
  (`Phase`, `step`) below.
-/
import CxVerif.Util.Bytes
import CxVerif.Impl.ChaCha
import CxVerif.Impl.Poly1305
import CxVerif.Impl.ConstantTime
namespace Cx.Impl.Aead
open Cx Cx.Impl Cx.Impl.StreamCtx

/-- a panic of the Poly1305 layer is a panic -/
def liftP {α : Type} : Except Poly1305.Panic α → Except String α
  | .ok a => .ok a
  | .error _ => .error "PANIC"

/-- `pub struct Context<const ROUNDS: usize>` -/
structure Context (σ : Type) where
  cipher : Ctx σ
  mac : Poly1305.State
  aad_len : Nat      -- u64
  data_len : Nat     -- u64

/-- `x += n as u64` on a u64 (overflow-checked build) -/
def addU64 (x n : Nat) : Except String Nat := if x + n < 2 ^ 64 then .ok (x + n) else .error "PANIC"

/-- `fn pad16(mac: &mut Poly1305, len: u64)` -/
def pad16 (mac : Poly1305.State) (len : Nat) : Except String Poly1305.State :=
  if len % 16 ≠ 0 then
    let padding := zeros 15
    let sz := 16 - len % 16
    liftP (Poly1305.input mac (padding.take sz))
  else .ok mac

namespace Context
variable {σ : Type}

/-- `Context::new(key: &[u8], nonce: &[u8; 12])` -/
def new (E : ChaCha.Engine σ) (R : Nat) (key nonce : Bytes) : Except String (Context σ) :=
  if nonce.length ≠ 12 then .error "bad-args"
  else if ¬ (key.length = 16 ∨ key.length = 32) then .error "PANIC"     -- assert!
  else match ChaCha.ChaCha.new E R key nonce with
    | .error e => .error e
    | .ok cipher =>
      let zero_key := zeros 64
      -- cipher.process(&zero_key, &mut mac_key)   (mac_key : [u8; 64])
      match ChaCha.ChaCha.process E R cipher zero_key 64 with
      | .error e => .error e
      | .ok (cipher, mac_key) =>
        -- Poly1305::new(<&[u8; 32]>::try_from(&mac_key[..32]).unwrap())
        let mac := Poly1305.new (mac_key.take 32)
        .ok { cipher := cipher, mac := mac, aad_len := 0, data_len := 0 }

/-- `fn add_encrypted(&mut self, encrypted: &[u8])` -/
def add_encrypted (c : Context σ) (encrypted : Bytes) : Except String (Context σ) :=
  match liftP (Poly1305.input c.mac encrypted) with
  | .error e => .error e
  | .ok mac =>
    match addU64 c.data_len encrypted.length with
    | .error e => .error e
    | .ok n => .ok { c with mac := mac, data_len := n }

/-- `pub fn add_data(&mut self, aad: &[u8])` -/
def add_data (c : Context σ) (aad : Bytes) : Except String (Context σ) :=
  match addU64 c.aad_len aad.length with
  | .error e => .error e
  | .ok n =>
    match liftP (Poly1305.input c.mac aad) with
    | .error e => .error e
    | .ok mac => .ok { c with mac := mac, aad_len := n }

/-- `pub fn to_encryption(mut self) -> ContextEncryption<ROUNDS>` -/
def to_encryption (c : Context σ) : Except String (Context σ) :=
  match pad16 c.mac c.aad_len with
  | .error e => .error e
  | .ok mac => .ok { c with mac := mac }

/-- `pub fn to_decryption(mut self) -> ContextDecryption<ROUNDS>` -/
def to_decryption (c : Context σ) : Except String (Context σ) :=
  match pad16 c.mac c.aad_len with
  | .error e => .error e
  | .ok mac => .ok { c with mac := mac }

end Context

variable {σ : Type}

/-- `fn finalize_raw(inner: &mut Context<ROUNDS>) -> [u8; 16]` -/
def finalize_raw (inner : Context σ) : Except String (Context σ × Bytes) :=
  match pad16 inner.mac inner.data_len with
  | .error e => .error e
  | .ok mac =>
    -- write_u64_le(&mut len_buf[0..8], aad_len); write_u64_le(&mut len_buf[8..16], data_len)
    let len_buf := natToLE 8 inner.aad_len ++ natToLE 8 inner.data_len
    match liftP (Poly1305.input mac len_buf) with
    | .error e => .error e
    | .ok mac =>
      match liftP (Poly1305.raw_result Poly1305.codeVariant mac 16) with
      | .error e => .error e
      | .ok (mac, tag) => .ok ({ inner with mac := mac }, tag)

namespace Tag
/-- `impl PartialEq for Tag`: `self.ct_eq(other).is_true()` with `ct_eq` of `&[u8; 16]` -/
def eq (a b : Bytes) : Bool := (CT.array_u8_ct_eq a b).isTrue
end Tag

namespace ContextEncryption

/-- `pub fn encrypt_mut(&mut self, buf: &mut [u8])` : the context and the new contents of `buf` -/
def encrypt_mut (E : ChaCha.Engine σ) (R : Nat) (c : Context σ) (buf : Bytes) : Except String (Context σ × Bytes) :=
  match ChaCha.ChaCha.process_mut E R c.cipher buf with
  | .error e => .error e
  | .ok (cipher, buf) =>
    match Context.add_encrypted { c with cipher := cipher } buf with
    | .error e => .error e
    | .ok c => .ok (c, buf)

/-- `pub fn encrypt(&mut self, input: &[u8], output: &mut [u8])` : the context and what was written to `output` -/
def encrypt (E : ChaCha.Engine σ) (R : Nat) (c : Context σ) (input : Bytes) (outputLen : Nat) :
    Except String (Context σ × Bytes) :=
  if input.length ≠ outputLen then .error "PANIC"        -- assert_eq!
  else match ChaCha.ChaCha.process E R c.cipher input outputLen with
    | .error e => .error e
    | .ok (cipher, output) =>
      match Context.add_encrypted { c with cipher := cipher } output with
      | .error e => .error e
      | .ok c => .ok (c, output)

/-- `pub fn finalize(mut self) -> Tag` -/
def finalize (c : Context σ) : Except String Bytes :=
  match finalize_raw c with
  | .error e => .error e
  | .ok (_, tag) => .ok tag

end ContextEncryption

namespace ContextDecryption

/-- `pub fn decrypt_mut(&mut self, buf: &mut [u8])` -/
def decrypt_mut (E : ChaCha.Engine σ) (R : Nat) (c : Context σ) (buf : Bytes) : Except String (Context σ × Bytes) :=
  match Context.add_encrypted c buf with
  | .error e => .error e
  | .ok c =>
    match ChaCha.ChaCha.process_mut E R c.cipher buf with
    | .error e => .error e
    | .ok (cipher, buf) => .ok ({ c with cipher := cipher }, buf)

/-- `pub fn decrypt(&mut self, input: &[u8], output: &mut [u8])` -/
def decrypt (E : ChaCha.Engine σ) (R : Nat) (c : Context σ) (input : Bytes) (outputLen : Nat) :
    Except String (Context σ × Bytes) :=
  if input.length ≠ outputLen then .error "PANIC"        -- assert_eq!
  else match Context.add_encrypted c input with
    | .error e => .error e
    | .ok c =>
      match ChaCha.ChaCha.process E R c.cipher input outputLen with
      | .error e => .error e
      | .ok (cipher, output) => .ok ({ c with cipher := cipher }, output)

/-- `pub fn finalize(mut self, expected_tag: &Tag) -> DecryptionResult` : `true` = `Match`.
    `Tag([u8; 16])`: another length cannot be passed. -/
def finalize (c : Context σ) (expected_tag : Bytes) : Except String Bool :=
  if expected_tag.length ≠ 16 then .error "bad-args"
  else match finalize_raw c with
    | .error e => .error e
    | .ok (_, got_tag) => .ok (Tag.eq got_tag expected_tag)

end ContextDecryption

/-- `pub struct ChaChaPoly1305<const ROUNDS: usize> { finished: bool, context: Context<ROUNDS> }` -/
structure ChaChaPoly1305 (σ : Type) where
  finished : Bool
  context : Context σ

namespace ChaChaPoly1305

/-- `ChaChaPoly1305::new(key: &[u8], nonce: &[u8; 12], aad: &[u8])` -/
def new (E : ChaCha.Engine σ) (R : Nat) (key nonce aad : Bytes) : Except String (ChaChaPoly1305 σ) :=
  match Context.new E R key nonce with
  | .error e => .error e
  | .ok context =>
    match Context.add_data context aad with
    | .error e => .error e
    | .ok context => .ok { context := context, finished := false }

/-- `pub fn encrypt(&mut self, input: &[u8], output: &mut [u8], out_tag: &mut [u8])` :
    the object, what was written to `output`, what was written to `out_tag` -/
def encrypt (E : ChaCha.Engine σ) (R : Nat) (self : ChaChaPoly1305 σ) (input : Bytes) (outputLen outTagLen : Nat) :
    Except String (ChaChaPoly1305 σ × Bytes × Bytes) :=
  if input.length ≠ outputLen then .error "PANIC"        -- assert!(input.len() == output.len())
  else if self.finished then .error "PANIC"               -- assert!(!self.finished)
  else if outTagLen ≠ 16 then .error "PANIC"              -- assert!(out_tag.len() == 16)
  else
    let self' := { self with finished := true }
    -- self.context.clone().to_encryption()
    match Context.to_encryption self'.context with
    | .error e => .error e
    | .ok ctx =>
      match ContextEncryption.encrypt E R ctx input outputLen with
      | .error e => .error e
      | .ok (ctx, output) =>
        match ContextEncryption.finalize ctx with
        | .error e => .error e
        | .ok tag => .ok (self', output, tag)

/-- `pub fn decrypt(&mut self, input: &[u8], output: &mut [u8], tag: &[u8]) -> bool` :
    the object, what was written to `output` (whatever the verdict), the verdict -/
def decrypt (E : ChaCha.Engine σ) (R : Nat) (self : ChaChaPoly1305 σ) (input : Bytes) (outputLen : Nat) (tag : Bytes) :
    Except String (ChaChaPoly1305 σ × Bytes × Bool) :=
  if tag.length ≠ 16 then .error "PANIC"                  -- assert!(tag.len() == 16)
  else if input.length ≠ outputLen then .error "PANIC"    -- assert!(input.len() == output.len())
  else if self.finished then .error "PANIC"               -- assert!(!self.finished)
  else
    let self' := { self with finished := true }
    -- tag_data.copy_from_slice(tag)
    let tag_data := tag
    match Context.to_decryption self'.context with
    | .error e => .error e
    | .ok ctx =>
      match ContextDecryption.decrypt E R ctx input outputLen with
      | .error e => .error e
      | .ok (ctx, output) =>
        match ContextDecryption.finalize ctx tag_data with
        | .error e => .error e
        | .ok verdict => .ok (self', output, verdict)

end ChaChaPoly1305

/-! ### operation histories of the incremental interface

  The typing of the Rust API as a phase: `Context` (only `add_data`, `to_encryption`, `to_decryption`),
  `ContextEncryption` (`encrypt`, `encrypt_mut`, `finalize`), `ContextDecryption` (`decrypt`, `decrypt_mut`,
  `finalize(&Tag)`); `finalize` consumes the object.  A history that the Rust type checker would reject is
  answered `bad-prog` (never compared as a behaviour of the code). -/

inductive Phase where
  | aad | enc | dec | done
deriving DecidableEq, Repr

inductive Op where
  | addData (d : Bytes)                 -- Context::add_data
  | toEnc                               -- Context::to_encryption
  | toDec                               -- Context::to_decryption
  | encrypt (d : Bytes) (outLen : Nat)  -- ContextEncryption::encrypt into an output buffer of `outLen` bytes
  | encryptMut (d : Bytes)              -- ContextEncryption::encrypt_mut
  | decrypt (d : Bytes) (outLen : Nat)  -- ContextDecryption::decrypt
  | decryptMut (d : Bytes)              -- ContextDecryption::decrypt_mut
  | finalizeEnc                         -- ContextEncryption::finalize -> Tag
  | finalizeDec (tag : Bytes)           -- ContextDecryption::finalize(&Tag) -> DecryptionResult
deriving Repr

/-- what a call hands back to the caller -/
inductive Out where
  | bytes (b : Bytes)
  | verdict (b : Bool)
deriving DecidableEq, Repr

/-- one call; `[]` = the call returns nothing -/
def step (E : ChaCha.Engine σ) (R : Nat) (st : Phase × Context σ) (op : Op) :
    Except String ((Phase × Context σ) × List Out) :=
  match st.1, op with
  | .aad, .addData d =>
    match Context.add_data st.2 d with
    | .error e => .error e
    | .ok c => .ok ((.aad, c), [])
  | .aad, .toEnc =>
    match Context.to_encryption st.2 with
    | .error e => .error e
    | .ok c => .ok ((.enc, c), [])
  | .aad, .toDec =>
    match Context.to_decryption st.2 with
    | .error e => .error e
    | .ok c => .ok ((.dec, c), [])
  | .enc, .encrypt d n =>
    match ContextEncryption.encrypt E R st.2 d n with
    | .error e => .error e
    | .ok (c, out) => .ok ((.enc, c), [.bytes out])
  | .enc, .encryptMut d =>
    match ContextEncryption.encrypt_mut E R st.2 d with
    | .error e => .error e
    | .ok (c, out) => .ok ((.enc, c), [.bytes out])
  | .enc, .finalizeEnc =>
    match ContextEncryption.finalize st.2 with
    | .error e => .error e
    | .ok t => .ok ((.done, st.2), [.bytes t])
  | .dec, .decrypt d n =>
    match ContextDecryption.decrypt E R st.2 d n with
    | .error e => .error e
    | .ok (c, out) => .ok ((.dec, c), [.bytes out])
  | .dec, .decryptMut d =>
    match ContextDecryption.decrypt_mut E R st.2 d with
    | .error e => .error e
    | .ok (c, out) => .ok ((.dec, c), [.bytes out])
  | .dec, .finalizeDec t =>
    match ContextDecryption.finalize st.2 t with
    | .error e => .error e
    | .ok v => .ok ((.done, st.2), [.verdict v])
  | _, _ => .error "bad-prog"

def run (E : ChaCha.Engine σ) (R : Nat) (st : Phase × Context σ) : List Op →
    Except String ((Phase × Context σ) × List Out)
  | [] => .ok (st, [])
  | op :: ops =>
    match step E R st op with
    | .error e => .error e
    | .ok (st', o) =>
      match run E R st' ops with
      | .error e => .error e
      | .ok (st'', os) => .ok (st'', o ++ os)

/-- `Context::<R>::new(key, nonce)` followed by the history -/
def runNew (E : ChaCha.Engine σ) (R : Nat) (key nonce : Bytes) (ops : List Op) : Except String (List Out) :=
  match Context.new E R key nonce with
  | .error e => .error e
  | .ok c =>
    match run E R (.aad, c) ops with
    | .error e => .error e
    | .ok (_, outs) => .ok outs

/-! ### operation histories of the one-shot object (reuse is refused) -/

inductive OneOp where
  | encrypt (input : Bytes) (outLen tagLen : Nat)
  | decrypt (input : Bytes) (outLen : Nat) (tag : Bytes)
deriving Repr

/-- `encrypt` hands back (output, tag); `decrypt` hands back (output, verdict) -/
def oneStep (E : ChaCha.Engine σ) (R : Nat) (o : ChaChaPoly1305 σ) : OneOp →
    Except String (ChaChaPoly1305 σ × List Out)
  | .encrypt input outLen tagLen =>
    match ChaChaPoly1305.encrypt E R o input outLen tagLen with
    | .error e => .error e
    | .ok (o, out, tag) => .ok (o, [.bytes out, .bytes tag])
  | .decrypt input outLen tag =>
    match ChaChaPoly1305.decrypt E R o input outLen tag with
    | .error e => .error e
    | .ok (o, out, v) => .ok (o, [.bytes out, .verdict v])

def oneRun (E : ChaCha.Engine σ) (R : Nat) (o : ChaChaPoly1305 σ) : List OneOp → Except String (List Out)
  | [] => .ok []
  | op :: ops =>
    match oneStep E R o op with
    | .error e => .error e
    | .ok (o, outs) =>
      match oneRun E R o ops with
      | .error e => .error e
      | .ok rest => .ok (outs ++ rest)

end Cx.Impl.Aead
