/-
  Impl.Ed25519 — code-shaped model of /repo/src/ed25519.rs on the models of its callees:
  Impl.Sha2 (`Sha512::new().update(..).update(..).finalize()` as the context history the code runs),
  Impl.Scalar64 (`from_bytes`, `from_bytes_canonical`, `reduce_from_wide_bytes`, `muladd`, `to_bytes`),
  Impl.Ge (`scalarmult_base`, `from_bytes`, `negate`, `double_scalarmult_vartime`, `to_bytes`),
  Impl.Fe64 and Impl.X25519 (`exchange`).

  Arguments typed `&[u8; N]` in Rust are `Bytes` here; a wrong length (not expressible in Rust) and every
  panic give `none`.

  -- API:
  --   Cx.Impl.Ed25519.clamp_scalar : Bytes → Option Bytes
  --   Cx.Impl.Ed25519.extended_secret : Bytes → Option Bytes            (32 → 64 bytes)
  --   Cx.Impl.Ed25519.extended_to_public : Bytes → Option Bytes         (64 → 32)
  --   Cx.Impl.Ed25519.keypair : Bytes → Option (Bytes × Bytes)          (32 → (64, 32))
  --   Cx.Impl.Ed25519.signature : (message keypair : Bytes) → Option Bytes
  --   Cx.Impl.Ed25519.signature_extended : (message extended_secret : Bytes) → Option Bytes
  --   Cx.Impl.Ed25519.verify : (message public_key signature : Bytes) → Option Bool
  --   Cx.Impl.Ed25519.exchange : (public_key private_key : Bytes) → Option Bytes
-/
import CxVerif.Impl.Ge
import CxVerif.Impl.Sha2
import CxVerif.Impl.X25519
namespace Cx.Impl.Ed25519
open Cx Cx.Impl.Ge
open Cx.Impl.Scalar64 (Scalar)

/-- `Sha512::new().update(a).finalize()` -/
def sha512_1 (a : Bytes) : Option Bytes := do
  let c ← (Sha2.Ctx512.new Sha2.Sha512).update a
  c.finalize Sha2.Sha512

/-- `Sha512::new().update(a).update(b).finalize()` -/
def sha512_2 (a b : Bytes) : Option Bytes := do
  let c ← (Sha2.Ctx512.new Sha2.Sha512).update a
  let c ← c.update b
  c.finalize Sha2.Sha512

/-- `Sha512::new().update(a).update(b).update(c).finalize()` -/
def sha512_3 (a b c : Bytes) : Option Bytes := do
  let x ← (Sha2.Ctx512.new Sha2.Sha512).update a
  let x ← x.update b
  let x ← x.update c
  x.finalize Sha2.Sha512

/-- `fn clamp_scalar(scalar: &mut [u8])`: indexing `scalar[31]` panics on a shorter slice -/
def clamp_scalar (scalar : Bytes) : Option Bytes :=
  if scalar.length < 32 then none
  else
    let s := scalar.modify 0 (· &&& 0b11111000)
    let s := s.modify 31 (· &&& 0b00111111)
    some (s.modify 31 (· ||| 0b01000000))

/-- `fn extended_secret(private_key: &[u8; 32]) -> [u8; 64]` -/
def extended_secret (private_key : Bytes) : Option Bytes :=
  if private_key.length = 32 then do
    let hash_output ← sha512_1 private_key
    clamp_scalar hash_output
  else none

/-- `keypair_private`: `&keypair[0..32]` -/
def keypair_private (keypair : Bytes) : Option Bytes :=
  if keypair.length = 64 then some (keypair.take 32) else none
/-- `keypair_public`: `&keypair[32..64]` -/
def keypair_public (keypair : Bytes) : Option Bytes :=
  if keypair.length = 64 then some ((keypair.drop 32).take 32) else none

/-- `extended_scalar`: `Scalar::from_bytes(&extended_secret[0..32])` -/
def extended_scalar (extended_secret : Bytes) : Option Scalar :=
  if extended_secret.length = 64 then Scalar64.fromBytes (extended_secret.take 32) else none
/-- `extended_scalar_bytes` -/
def extended_scalar_bytes (extended_secret : Bytes) : Option Bytes :=
  if extended_secret.length = 64 then some (extended_secret.take 32) else none

/-- `pub fn extended_to_public(extended_secret: &[u8; 64]) -> [u8; 32]` -/
def extended_to_public (extended_secret : Bytes) : Option Bytes := do
  let a ← Ge.scalarmult_base (← extended_scalar extended_secret)
  a.to_bytes

/-- `pub fn keypair(secret_key: &[u8; 32]) -> ([u8; 64], [u8; 32])` -/
def keypair (secret_key : Bytes) : Option (Bytes × Bytes) := do
  let extended_secret ← extended_secret secret_key
  let public_key ← extended_to_public extended_secret
  -- output[0..32].copy_from_slice(secret_key); output[32..64].copy_from_slice(&public_key);
  let output := secret_key ++ extended_secret.drop 32
  let output := output.take 32 ++ public_key
  pure (output, public_key)

/-- `fn signature_nonce(extended_secret: &[u8; 64], message: &[u8]) -> Scalar` -/
def signature_nonce (extended_secret message : Bytes) : Option Scalar :=
  if extended_secret.length = 64 then do
    let hash_output ← sha512_2 (extended_secret.drop 32) message
    Scalar64.reduceFromWideBytes hash_output
  else none

/-- the statements shared verbatim by `signature` and `signature_extended` after `public_key`, `az` and `nonce`
    are known -/
def signature_tail (message public_key az : Bytes) (nonce : Scalar) : Option Bytes := do
  let r ← Ge.scalarmult_base nonce
  let rb ← r.to_bytes
  -- signature[0..32] = r.to_bytes(); signature[32..64] = public_key
  let signature := rb ++ public_key
  let hram ← sha512_2 signature message
  let hram ← Scalar64.reduceFromWideBytes hram
  let s ← Scalar64.muladd hram (← extended_scalar az) nonce
  pure (signature.take 32 ++ Scalar64.to_bytes s)

/-- `pub fn signature(message: &[u8], keypair: &[u8; 64]) -> [u8; 64]` -/
def signature (message keypair : Bytes) : Option Bytes := do
  let private_key ← keypair_private keypair
  let public_key ← keypair_public keypair
  let az ← extended_secret private_key
  let nonce ← signature_nonce az message
  signature_tail message public_key az nonce

/-- `pub fn signature_extended(message: &[u8], extended_secret: &[u8; 64]) -> [u8; 64]` -/
def signature_extended (message extended_secret : Bytes) : Option Bytes := do
  let public_key ← extended_to_public extended_secret
  let nonce ← signature_nonce extended_secret message
  signature_tail message public_key extended_secret nonce

/-- `pub fn verify(message: &[u8], public_key: &[u8; 32], signature: &[u8; 64]) -> bool` -/
def verify (message public_key signature : Bytes) : Option Bool :=
  if public_key.length = 32 ∧ signature.length = 64 then do
    let signature_left := signature.take 32
    let signature_right := signature.drop 32
    match ← Ge.from_bytes public_key with
    | none => pure false
    | some g =>
      let a ← g.negate
      match ← Scalar64.fromBytesCanonical signature_right with
      | none => pure false
      | some signature_scalar =>
        -- reject all-0 public keys
        let d : UInt8 := public_key.foldl (· ||| ·) 0
        if d == 0 then pure false
        else
          let hash ← sha512_3 signature_left public_key message
          let a_scalar ← Scalar64.reduceFromWideBytes hash
          let r ← GePartial.double_scalarmult_vartime a_scalar a signature_scalar
          let rcheck ← r.to_bytes
          pure (CT.array_u8_ct_eq rcheck signature_left).isTrue
  else none

/-- `fn edwards_to_montgomery_x(ed_y: &Fe) -> Fe` -/
def edwards_to_montgomery_x (ed_y : Fe64.Fe) : Option Fe64.Fe := do
  let ed_z := Fe64.Fe.ONE
  let temp_x ← Fe64.add ed_z ed_y
  let temp_z ← Fe64.sub ed_z ed_y
  let temp_z_inv ← Fe64.invert temp_z
  Fe64.mul temp_x temp_z_inv

/-- `pub fn exchange(public_key: &[u8; 32], private_key: &[u8; 32]) -> [u8; 32]` -/
def exchange (public_key private_key : Bytes) : Option Bytes := do
  let ed_y ← Fe64.fromBytes public_key
  let mont_x ← edwards_to_montgomery_x ed_y
  let extended_secret ← extended_secret private_key
  let n ← extended_scalar_bytes extended_secret
  let u ← Fe64.to_bytes mont_x
  if h : n.length = 32 ∧ u.length = 32 then X25519.curve25519 n u h.1 h.2 else none

end Cx.Impl.Ed25519
