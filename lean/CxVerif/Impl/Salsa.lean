/-
  Impl.Salsa — code-shaped model of src/salsa20.rs: `State<R>` (init, rounds, add_back, increment, output_bytes,
  output_ad_bytes, verification hook) and the context types `Salsa<R>`, `XSalsa<R>` (generic part: Impl.StreamCtx).

  -- API:
  --   Cx.Impl.Salsa.Salsa.new (R) (key nonce : Bytes) : Except String (Ctx W16)  / process_mut / process / verif_set_counter64
  --   Cx.Impl.Salsa.XSalsa.new … likewise
-/
import CxVerif.Util.Bytes
import CxVerif.Impl.StreamCtx
import CxVerif.Extracted.Stream
namespace Cx.Impl.Salsa
open Cx.Impl Cx.Impl.StreamCtx

/-- `QR!(a, b, c, d)` -/
def QR (a b c d : UInt32) : UInt32 × UInt32 × UInt32 × UInt32 :=
  let b := b ^^^ rotl32 (a + d) 7
  let c := c ^^^ rotl32 (b + a) 9
  let d := d ^^^ rotl32 (c + b) 13
  let a := a ^^^ rotl32 (d + c) 18
  (a, b, c, d)

/-- `State::init(key, nonce)`.  `key[0..16]`, `key[16..32]`, `nonce[0..8]` are slice accesses: a nonce shorter than
    8 bytes panics; key lengths other than 16/32 hit `unreachable!()` -/
def init (key nonce : Bytes) : Except String W16 :=
  if key.length = 16 ∨ key.length = 32 then
    let constant := if key.length = 16 then Cx.Extracted.Stream.SALSA_CST16 else Cx.Extracted.Stream.SALSA_CST32
    let key_tail := if key.length = 16 then key else (key.drop 16).take 16
    if nonce.length < 8 then .error "PANIC" else
    let x8 := if nonce.length = 16 then read_u32_le nonce 8 else 0
    let x9 := if nonce.length = 16 then read_u32_le nonce 12 else 0
    .ok ⟨read_u32_le constant 0,
         read_u32_le key 0, read_u32_le key 4, read_u32_le key 8, read_u32_le key 12,
         read_u32_le constant 4,
         read_u32_le nonce 0, read_u32_le nonce 4,
         x8, x9,
         read_u32_le constant 8,
         read_u32_le key_tail 0, read_u32_le key_tail 4, read_u32_le key_tail 8, read_u32_le key_tail 12,
         read_u32_le constant 12⟩
  else .error "PANIC"

/-- one iteration of the loop in `rounds` -/
def doubleRound (w : W16) : W16 :=
  match w with
  | ⟨x0,x1,x2,x3,x4,x5,x6,x7,x8,x9,x10,x11,x12,x13,x14,x15⟩ =>
  match QR x0 x4 x8 x12 with
  | (x0, x4, x8, x12) =>
  match QR x5 x9 x13 x1 with
  | (x5, x9, x13, x1) =>
  match QR x10 x14 x2 x6 with
  | (x10, x14, x2, x6) =>
  match QR x15 x3 x7 x11 with
  | (x15, x3, x7, x11) =>
  match QR x0 x1 x2 x3 with
  | (x0, x1, x2, x3) =>
  match QR x5 x6 x7 x4 with
  | (x5, x6, x7, x4) =>
  match QR x10 x11 x8 x9 with
  | (x10, x11, x8, x9) =>
  match QR x15 x12 x13 x14 with
  | (x15, x12, x13, x14) =>
  ⟨x0,x1,x2,x3,x4,x5,x6,x7,x8,x9,x10,x11,x12,x13,x14,x15⟩

def loop (f : W16 → W16) : Nat → W16 → W16
  | 0, w => w
  | n + 1, w => loop f n (f w)

def rounds (R : Nat) (w : W16) : W16 := loop doubleRound (R / 2) w
def add_back (s initial : W16) : W16 := W16.add_back s initial
def verif_set_counter64 (w : W16) (counter : UInt64) : W16 :=
  { w with x8 := counter.toUInt32, x9 := (counter >>> 32).toUInt32 }
def increment (w : W16) : W16 :=
  let x8 := w.x8 + 1
  if x8 = 0 then { w with x8 := x8, x9 := w.x9 + 1 } else { w with x8 := x8 }
def output_bytes (w : W16) : Bytes := W16.output_bytes w
def output_ad_bytes (w : W16) : Bytes := [w.x0, w.x5, w.x10, w.x15, w.x6, w.x7, w.x8, w.x9].flatMap u32le

def block (R : Nat) (s : W16) : Bytes := output_bytes (add_back (rounds R s) s)
def roundsOk (R : Nat) : Bool := R == 8 || R == 12 || R == 20
def gen (R : Nat) : BlockGen W16 := { block := block R, increment := increment }
def methods (R : Nat) : Methods W16 := { gen := gen R, seek := none, setCounter64 := some verif_set_counter64 }

namespace Salsa
def new (R : Nat) (key nonce : Bytes) : Except String (Ctx W16) :=
  if nonce.length ≠ 8 then .error "bad-args"
  else if ¬ (key.length = 16 ∨ key.length = 32) then .error "PANIC"
  else if ¬ roundsOk R then .error "PANIC"
  else match init key nonce with
    | .ok s => .ok (StreamCtx.mk s)
    | .error e => .error e
def verif_set_counter64 (c : Ctx W16) (counter : UInt64) : Ctx W16 := StreamCtx.seek _root_.Cx.Impl.Salsa.verif_set_counter64 c counter
def process_mut (R : Nat) (c : Ctx W16) (data : Bytes) := StreamCtx.process_mut (gen R) c data
def process (R : Nat) (c : Ctx W16) (input : Bytes) (outputLen : Nat) := StreamCtx.process (gen R) c input outputLen
end Salsa

namespace XSalsa
def new (R : Nat) (key nonce : Bytes) : Except String (Ctx W16) :=
  if key.length ≠ 32 ∨ nonce.length ≠ 24 then .error "bad-args"
  else if ¬ roundsOk R then .error "PANIC"
  else match init key (nonce.take 16) with
    | .error e => .error e
    | .ok hsalsa =>
      let new_key := output_ad_bytes (rounds R hsalsa)
      match init new_key ((nonce.drop 16).take 8) with
      | .ok s => .ok (StreamCtx.mk s)
      | .error e => .error e
def verif_set_counter64 (c : Ctx W16) (counter : UInt64) : Ctx W16 := StreamCtx.seek _root_.Cx.Impl.Salsa.verif_set_counter64 c counter
def process_mut (R : Nat) (c : Ctx W16) (data : Bytes) := StreamCtx.process_mut (gen R) c data
def process (R : Nat) (c : Ctx W16) (input : Bytes) (outputLen : Nat) := StreamCtx.process (gen R) c input outputLen
end XSalsa

end Cx.Impl.Salsa
