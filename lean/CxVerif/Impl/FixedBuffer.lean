/-
  Impl.FixedBuffer — code-shaped model of `cryptoutil::FixedBuffer<N>` (src/cryptoutil.rs l.120-207) and of the
  byte writers the Merkle–Damgård engines use.  One `def` per Rust fn, same names.

  * `buffer : [u8; N]` is modelled as the WHOLE array (a `Bytes` of length `N`), including the stale bytes
    beyond `buffer_idx` that earlier inputs left behind; `buffer_idx : usize` is a `Nat`.
  * Every Rust panic is `none`: slice ranges outside the array, `copy_from_slice` length mismatch, the
    `assert!`s of `zero_until` / `full_buffer`, `usize` subtraction underflow (`N - buffer_idx`, `N - rem`,
    `input.len() - i`; these underflows panic in overflow-checked builds and would index out of range otherwise).
  * The `FnMut(&[u8])` callback is `func : σ → Bytes → Option σ` threaded through (σ = what the closure
    captures mutably: the chaining state); it may itself panic (`Engine::blocks` asserts `len % 64 == 0`).
  * `*self.next::<I>() = v` is `next_write I v`.

  HOW TO INSTANTIATE (units `sha1ripemd`, `sha2`): see the header of Proofs/FixedBuffer.lean — give the block size
  `N`, the compression function `compress : σ → Bytes → σ`, prove `FuncIsBlocks N func compress` for the closure you
  pass to `input` and `standard_padding`, and you get `input_spec`, `inputs_spec` (any chunking) and
  `md_finish_spec` (padding = Spec.MD.pad for BE-64, BE-128 and LE-64 length fields).

  -- API:
  --   Cx.Impl.FixedBuffer (structure), .new N, .input N self inp func st, .reset, .zero_until, .next_write,
  --   .full_buffer N, .standard_padding N self rem func st, .data (live bytes = buffer[0..buffer_idx])
  --   Cx.Impl.slice, Cx.Impl.copy_from_slice
-/
import CxVerif.Util.Bytes
namespace Cx.Impl

/-- `&b[lo..hi]` — panics unless `lo ≤ hi ≤ b.len()` -/
def slice (b : Bytes) (lo hi : Nat) : Option Bytes :=
  if lo ≤ hi ∧ hi ≤ b.length then some ((b.drop lo).take (hi - lo)) else none

/-- `dst[lo..hi].copy_from_slice(src)` — panics unless the range is inside `dst` and `src.len() == hi - lo` -/
def copy_from_slice (dst : Bytes) (lo hi : Nat) (src : Bytes) : Option Bytes :=
  if lo ≤ hi ∧ hi ≤ dst.length ∧ src.length = hi - lo then some (dst.take lo ++ src ++ dst.drop hi) else none

structure FixedBuffer where
  buffer : Bytes        -- [u8; N]
  buffer_idx : Nat      -- usize
deriving DecidableEq, Repr

namespace FixedBuffer

/-- the bytes received but not yet compressed: `buffer[0..buffer_idx]` -/
def data (self : FixedBuffer) : Bytes := self.buffer.take self.buffer_idx

/-- `FixedBuffer::new()` -/
def new (N : Nat) : FixedBuffer := ⟨zeros N, 0⟩

/-- the part of `input` after the first `if` (with the local `i` and the callback state threaded) -/
def input_rest {σ : Type} (N : Nat) (self : FixedBuffer) (inp : Bytes) (i : Nat)
    (func : σ → Bytes → Option σ) (st : σ) : Option (FixedBuffer × σ) :=
  -- `input.len() - i`
  if inp.length < i then none else
  -- if input.len() - i >= N { let remaining = …; let block_bytes = (remaining / N) * N;
  --                           func(&input[i..i + block_bytes]); i += block_bytes; }
  let step : Option (σ × Nat) :=
    if inp.length - i ≥ N then
      let remaining := inp.length - i
      let block_bytes := (remaining / N) * N
      match slice inp i (i + block_bytes) with
      | none => none
      | some blocks =>
        match func st blocks with
        | none => none
        | some st' => some (st', i + block_bytes)
    else some (st, i)
  match step with
  | none => none
  | some (st, i) =>
    if inp.length < i then none else
    -- let input_remaining = input.len() - i;
    let input_remaining := inp.length - i
    -- self.buffer[0..input_remaining].copy_from_slice(&input[i..]);
    match slice inp i inp.length with
    | none => none
    | some rest =>
      match copy_from_slice self.buffer 0 input_remaining rest with
      | none => none
      | some buffer =>
        -- self.buffer_idx += input_remaining;
        some (⟨buffer, self.buffer_idx + input_remaining⟩, st)

/-- `FixedBuffer::input(&mut self, input, func)` -/
def input {σ : Type} (N : Nat) (self : FixedBuffer) (inp : Bytes)
    (func : σ → Bytes → Option σ) (st : σ) : Option (FixedBuffer × σ) :=
  -- let mut i = 0;
  if self.buffer_idx != 0 then
    -- let buffer_remaining = N - self.buffer_idx;
    if N < self.buffer_idx then none else
    let buffer_remaining := N - self.buffer_idx
    if inp.length ≥ buffer_remaining then
      -- self.buffer[self.buffer_idx..N].copy_from_slice(&input[..buffer_remaining]);
      match slice inp 0 buffer_remaining with
      | none => none
      | some head =>
        match copy_from_slice self.buffer self.buffer_idx N head with
        | none => none
        | some buffer =>
          -- self.buffer_idx = 0; func(&self.buffer); i += buffer_remaining;
          match func st buffer with
          | none => none
          | some st' => input_rest N ⟨buffer, 0⟩ inp buffer_remaining func st'
    else
      -- self.buffer[self.buffer_idx..self.buffer_idx + input.len()].copy_from_slice(&input);
      -- self.buffer_idx += input.len(); return;
      match copy_from_slice self.buffer self.buffer_idx (self.buffer_idx + inp.length) inp with
      | none => none
      | some buffer => some (⟨buffer, self.buffer_idx + inp.length⟩, st)
  else
    input_rest N self inp 0 func st

/-- `FixedBuffer::reset` — only the index; the array keeps its (now dead) contents -/
def reset (self : FixedBuffer) : FixedBuffer := { self with buffer_idx := 0 }

/-- `zero_until(idx)`: `assert!(idx >= self.buffer_idx); zero(&mut self.buffer[self.buffer_idx..idx]); self.buffer_idx = idx` -/
def zero_until (self : FixedBuffer) (idx : Nat) : Option FixedBuffer :=
  if idx < self.buffer_idx then none else
  match copy_from_slice self.buffer self.buffer_idx idx (zeros (idx - self.buffer_idx)) with
  | none => none
  | some buffer => some ⟨buffer, idx⟩

/-- `*self.next::<I>() = v` (v : [u8; I]):
    `let start = self.buffer_idx; self.buffer_idx += I; &mut self.buffer[start..self.buffer_idx]` -/
def next_write (self : FixedBuffer) (I : Nat) (v : Bytes) : Option FixedBuffer :=
  if v.length ≠ I then none else   -- statically excluded by the array type `[u8; I]`
  match copy_from_slice self.buffer self.buffer_idx (self.buffer_idx + I) v with
  | none => none
  | some buffer => some ⟨buffer, self.buffer_idx + I⟩

/-- `full_buffer()`: `assert!(self.buffer_idx == N); self.buffer_idx = 0; &self.buffer` -/
def full_buffer (N : Nat) (self : FixedBuffer) : Option (FixedBuffer × Bytes) :=
  if self.buffer_idx ≠ N then none else some ({ self with buffer_idx := 0 }, self.buffer)

/-- `standard_padding(rem, func)` -/
def standard_padding {σ : Type} (N : Nat) (self : FixedBuffer) (rem : Nat)
    (func : σ → Bytes → Option σ) (st : σ) : Option (FixedBuffer × σ) :=
  -- self.next::<1>()[0] = 128;
  match self.next_write 1 [(128 : UInt8)] with
  | none => none
  | some self =>
    -- if (N - self.buffer_idx) < rem { self.zero_until(N); func(self.full_buffer()); }
    if N < self.buffer_idx then none else
    let r : Option (FixedBuffer × σ) :=
      if N - self.buffer_idx < rem then
        match self.zero_until N with
        | none => none
        | some self =>
          match self.full_buffer N with
          | none => none
          | some (self, block) =>
            match func st block with
            | none => none
            | some st' => some (self, st')
      else some (self, st)
    match r with
    | none => none
    | some (self, st) =>
      -- self.zero_until(N - rem);
      if N < rem then none else
      match self.zero_until (N - rem) with
      | none => none
      | some self => some (self, st)

end FixedBuffer

/-! ### byte writers / readers of cryptoutil.rs used by the engines -/

/-- `write_u32v_be(dst, input)`: `assert!(dst.len() == 4 * input.len())`, result = the new contents of `dst` -/
def write_u32v_be (dstLen : Nat) (input : List UInt32) : Option Bytes :=
  if dstLen ≠ 4 * input.length then none else some (input.flatMap u32be)

/-- `write_u64v_be(dst, input)`: `assert!(dst.len() == 8 * input.len())` -/
def write_u64v_be (dstLen : Nat) (input : List UInt64) : Option Bytes :=
  if dstLen ≠ 8 * input.length then none else some (input.flatMap u64be)

/-- `write_u32_be(dst, input)`: `<&mut [u8; 4]>::try_from(dst).unwrap()` panics unless `dst.len() == 4` -/
def write_u32_be (dstLen : Nat) (input : UInt32) : Option Bytes :=
  if dstLen ≠ 4 then none else some (u32be input)

/-- `read_u32v_be(dst, input)`: `assert!(dst.len() * 4 == input.len())` -/
def read_u32v_be (dstLen : Nat) (input : Bytes) : Option (List UInt32) :=
  if dstLen * 4 ≠ input.length then none else some (wordsBE32 input)

/-- `read_u64v_be(dst, input)`: `assert!(dst.len() * 8 == input.len())` -/
def read_u64v_be (dstLen : Nat) (input : Bytes) : Option (List UInt64) :=
  if dstLen * 8 ≠ input.length then none else some (wordsBE64 input)

end Cx.Impl
