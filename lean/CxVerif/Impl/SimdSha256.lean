/-
  Impl.SimdSha256 — lane model of the vectorised SHA-256 block functions of /repo/src/hashing/sha2/impl256/
    sse41.rs  `gather`, `sigma0`, `sigma1`, `SCHEDULE_ROUND!`, `message_schedule_4ways`, `compress_4ways`, `digest_block`
    avx.rs    the same 8 ways (`__m256i`), `digest_block` falling back to `sse41::digest_block`
    mod.rs    `digest_block`: the compile-time dispatch
  A `__m128i` / `__m256i` of u32 is `Lanes n = Vector UInt32 n` (n = 4 / 8, lane 0 = lowest); every intrinsic is a
  function on lanes.  The two files are the same program up to `n`, so both are instances (`Sse41.cfg`, `Avx.cfg`)
  of one model whose *data* comes from Extracted/Simd.lean (re-extracted from the source on every run): the gather
  word offsets, the pshufb byte-swap mask, the shift amounts of sigma0/sigma1, the register arguments of every
  `SCHEDULE_ROUND[_INC]!` invocation of the loop and of the tail with its `schedule[k] = …` stores, the loop bound,
  the `compress_once!(j)` lanes and the batch size.  The schedule is written once over an abstract register
  algebra (`RegAlg`), instantiated with lanes (the code) and with single words (the per-block view used by the
  lane lemma of Proofs/SimdSha256*.lean).

  `none` = Rust panic (`schedule[$i]` / `K32[$i]` out of range, the slice panics of `reference::digest_block`) or a
  refused read outside the message (`gather` reads through raw pointers: out of range would be UB, not a panic).
  Memory: `read(block as *const i32)` is modelled as the little-endian value of four bytes at ANY address; the
  source uses `core::ptr::read` on a `*const i32` that is in general not 4-aligned (see the unit report).

  -- API:
  --   Cx.Impl.SimdSha256.Sse41.digest_block / Avx.digest_block : W8 UInt32 → Bytes → Option (W8 UInt32)
  --   Cx.Impl.SimdSha256.digest_block (ft : Features)          mod.rs dispatch
  --   Engine256W.* / sha256_with / sha224_with ft pieces        the hashing contexts over the dispatched block function
-/
import CxVerif.Impl.Sha2
import CxVerif.Impl.SimdLanes
import CxVerif.Extracted.Simd
namespace Cx.Impl.SimdSha256
open Cx Cx.Impl Cx.Impl.Simd
open Cx.Spec.Sha2 (W8)
open Cx.Impl.Sha2

/-! ## lanes -/

abbrev Lanes (n : Nat) := Vector UInt32 n

namespace Lanes
variable {n : Nat}
def add (a b : Lanes n) : Lanes n := Vector.zipWith (· + ·) a b        -- _mm_add_epi32 / _mm256_add_epi32
def xor (a b : Lanes n) : Lanes n := Vector.zipWith (· ^^^ ·) a b      -- _mm_xor_si128 / _mm256_xor_si256
def or (a b : Lanes n) : Lanes n := Vector.zipWith (· ||| ·) a b
/-- `_mm_srli_epi32(a, k)`: counts above 31 give zero -/
def srli (a : Lanes n) (k : Nat) : Lanes n := a.map fun x => if k ≥ 32 then 0 else x >>> UInt32.ofNat k
def slli (a : Lanes n) (k : Nat) : Lanes n := a.map fun x => if k ≥ 32 then 0 else x <<< UInt32.ofNat k
/-- `_mm_set1_epi32(k as i32)` -/
def set1 (k : UInt32) : Lanes n := Vector.replicate n k
def alg : ShiftAlg (Lanes n) := ⟨srli, slli, add, xor, or⟩

/-- `_mm_shuffle_epi8` / `_mm256_shuffle_epi8`: every 128-bit group of four lanes is shuffled within itself by its own
    sixteen selectors -/
def shuffle_epi8 (v : Lanes n) (mask : List Nat) : Lanes n :=
  Vector.ofFn fun (j : Fin n) =>
    let g := j.val / 4
    let src := ((List.range 4).map fun k => bytes32 (v.toList.getD (4 * g + k) 0)).flatten
    let r := pshufb16 src ((mask.drop (16 * g)).take 16)
    ofBytes32 ((r.drop (4 * (j.val % 4))).take 4)
end Lanes

/-- the single-word counterpart of the lane operations -/
def wordAlg : ShiftAlg UInt32 :=
  ⟨fun x k => if k ≥ 32 then 0 else x >>> UInt32.ofNat k, fun x k => if k ≥ 32 then 0 else x <<< UInt32.ofNat k,
   (· + ·), (· ^^^ ·), (· ||| ·)⟩

/-! ## the extracted data of one file -/

structure Cfg where
  n : Nat                          -- lanes per vector
  gather : List Nat                -- i32 word offset read into lane j
  msgOffsets : List Nat            -- byte offset `message.add(k)` of w0 … w15
  bswapMask : List Nat
  sigma0 : List (List Nat)
  sigma1 : List (List Nat)
  sigmaKinds : List Nat
  loopBound : Nat
  loopBody : List (List Nat)
  tail : List (List Nat)
  compressLanes : List Nat
  batchBytes : Nat

open Extracted.Simd in
def Sse41.cfg : Cfg :=
  { n := 4, gather := SSE41_GATHER, msgOffsets := SSE41_MSG_OFFSETS, bswapMask := SSE41_BSWAP_MASK,
    sigma0 := SSE41_SIGMA0, sigma1 := SSE41_SIGMA1, sigmaKinds := SSE41_SIGMA_KINDS, loopBound := SSE41_LOOP_BOUND,
    loopBody := SSE41_LOOP_BODY, tail := SSE41_TAIL, compressLanes := SSE41_COMPRESS_LANES,
    batchBytes := SSE41_BATCH_BYTES }

open Extracted.Simd in
def Avx.cfg : Cfg :=
  { n := 8, gather := AVX_GATHER, msgOffsets := AVX_MSG_OFFSETS, bswapMask := AVX_BSWAP_MASK,
    sigma0 := AVX_SIGMA0, sigma1 := AVX_SIGMA1, sigmaKinds := AVX_SIGMA_KINDS, loopBound := AVX_LOOP_BOUND,
    loopBody := AVX_LOOP_BODY, tail := AVX_TAIL, compressLanes := AVX_COMPRESS_LANES,
    batchBytes := AVX_BATCH_BYTES }

/-! ## the message schedule over an abstract register algebra -/

/-- what `SCHEDULE_ROUND!` needs from the register type -/
structure RegAlg (V : Type) where
  sh : ShiftAlg V
  set1 : UInt32 → V

def lanesAlg (n : Nat) : RegAlg (Lanes n) := ⟨Lanes.alg, Lanes.set1⟩
def wordRegAlg : RegAlg UInt32 := ⟨wordAlg, id⟩

section sched
variable {V : Type} (A : RegAlg V) (C : Cfg)

/-- `sigma0(w)` -/
def sigma0 (w : V) : Option V := shiftTerms A.sh (C.sigmaKinds.getD 0 9) C.sigma0 w
/-- `sigma1(w)` -/
def sigma1 (w : V) : Option V := shiftTerms A.sh (C.sigmaKinds.getD 1 9) C.sigma1 w

/-- the locals of `message_schedule_Nways`: registers `w0 … w15`, the `schedule` array, the counter `i` -/
structure Sched (V : Type) where
  w : List V
  schedule : List V
  i : Nat

/-- `$schedule[$k] = add($wc, set1(K32[$k] as i32))` (array and table indices are bounds-checked) -/
def storeSchedule (s : Sched V) (k c : Nat) : Option (Sched V) :=
  match s.w[c]?, Impl256.K32[k]? with
  | some wc, some kk =>
    if k < s.schedule.length then some { s with schedule := s.schedule.set k (A.sh.add wc (A.set1 kk)) } else none
  | _, _ => none

/-- macro `SCHEDULE_ROUND!(schedule, i, w1, w2, w3, w4)` with register numbers `[r1, r2, r3, r4]` -/
def SCHEDULE_ROUND (s : Sched V) (regs : List Nat) : Option (Sched V) :=
  match regs with
  | [r1, r2, r3, r4] =>
    match s.w[r1]?, s.w[r2]?, s.w[r3]?, s.w[r4]? with
    | some w1, some w2, some w3, some w4 =>
      match sigma0 A C w1, sigma1 A C w2 with
      | some s0, some s1 =>
        match storeSchedule A s s.i r3 with
        | none => none
        | some s => some { s with w := s.w.set r3 (A.sh.add (A.sh.add w3 w4) (A.sh.add s0 s1)) }
      | _, _ => none
    | _, _, _, _ => none
  | _ => none

/-- macro `SCHEDULE_ROUND_INC!` -/
def SCHEDULE_ROUND_INC (s : Sched V) (regs : List Nat) : Option (Sched V) :=
  match SCHEDULE_ROUND A C s regs with
  | none => none
  | some s => some { s with i := s.i + 1 }

/-- the statements of the loop body, in order -/
def loopBody : Sched V → List (List Nat) → Option (Sched V)
  | s, [] => some s
  | s, r :: rs =>
    match SCHEDULE_ROUND_INC A C s r with
    | none => none
    | some s => loopBody s rs

/-- `while i < BOUND { body }` (fuel = BOUND suffices when the body increments `i`; running out of fuel = no
    termination within BOUND iterations = refused) -/
def whileLoop : Nat → Sched V → Option (Sched V)
  | 0, s => if s.i < C.loopBound then none else some s
  | fuel + 1, s =>
    if s.i < C.loopBound then
      match loopBody A C s C.loopBody with
      | none => none
      | some s => whileLoop fuel s
    else some s

/-- the tail: `SCHEDULE_ROUND_INC!(…); schedule[k] = wk + K32[k];` sixteen times, the last round without increment -/
def tailLoop : Sched V → List (List Nat) → Option (Sched V)
  | s, [] => some s
  | s, [r1, r2, r3, r4, k, wk] :: rest =>
    match (if rest.isEmpty then SCHEDULE_ROUND A C s [r1, r2, r3, r4] else SCHEDULE_ROUND_INC A C s [r1, r2, r3, r4]) with
    | none => none
    | some s =>
      match storeSchedule A s k wk with
      | none => none
      | some s => tailLoop s rest
  | _, _ => none

/-- `message_schedule_Nways` after the loads: from the sixteen byte-swapped registers to the array `schedule`
    (initially `[set1(0); 64]`) -/
def scheduleFromRegs (w : List V) : Option (List V) :=
  match whileLoop A C C.loopBound ⟨w, List.replicate 64 (A.set1 0), 0⟩ with
  | none => none
  | some s =>
    match tailLoop A C s C.tail with
    | none => none
    | some s => some s.schedule

end sched

/-! ## loads -/

/-- `read(p as *const i32)` at byte offset `off` of the message: four bytes, little-endian -/
def readI32 (message : Bytes) (off : Nat) : Option UInt32 :=
  if off + 4 ≤ message.length then some (ofBytes32 ((message.drop off).take 4)) else none

/-- `gather(message.add(off))`: lane j = the i32 at word offset `gather[j]` from `message + off` -/
def gather (C : Cfg) (message : Bytes) (off : Nat) : Option (Lanes C.n) :=
  match C.gather.mapM fun g => readI32 message (off + 4 * g) with
  | none => none
  | some ws => if h : ws.length = C.n then some ⟨ws.toArray, by simpa using h⟩ else none

/-- `wK = gather(message.add(4K)); … wK = shuffle_epi8(wK, bswap_mask)` for K = 0 … 15 -/
def loadRegs (C : Cfg) (message : Bytes) : Option (List (Lanes C.n)) :=
  C.msgOffsets.mapM fun off => (gather C message off).map fun w => Lanes.shuffle_epi8 w C.bswapMask

/-- `message_schedule_4ways` / `message_schedule_8ways` -/
def message_schedule (C : Cfg) (message : Bytes) : Option (List (Lanes C.n)) :=
  match loadRegs C message with
  | none => none
  | some w => scheduleFromRegs (lanesAlg C.n) C w

/-! ## compression with the precomputed `K + W` -/

/-- macro `round!($a … $h, $i, $j)` of compress_Nways: `kwi = extract_epi32(schedule[$i], $j)`; returns the new `($d, $h)` -/
def round (a b c d e f g h : UInt32) (kwi : UInt32) : UInt32 × UInt32 :=
  let t1 := h + Impl256.e1 e + (g ^^^ (e &&& (f ^^^ g))) + kwi
  let t2 := Impl256.e0 a + ((a &&& b) ||| (c &&& (a ||| b)))
  (d + t1, t1 + t2)

/-- one iteration of `while i != 64 { round!(a,b,c,d,e,f,g,h,i+0,j); round!(h,a,b,c,d,e,f,g,i+1,j); …; i += 8 }` -/
def rounds8 (s : W8 UInt32) (k0 k1 k2 k3 k4 k5 k6 k7 : UInt32) : W8 UInt32 :=
  let a := s.a; let b := s.b; let c := s.c; let d := s.d
  let e := s.e; let f := s.f; let g := s.g; let h := s.h
  let (d, h) := round a b c d e f g h k0
  let (c, g) := round h a b c d e f g k1
  let (b, f) := round g h a b c d e f k2
  let (a, e) := round f g h a b c d e k3
  let (h, d) := round e f g h a b c d k4
  let (g, c) := round d e f g h a b c k5
  let (f, b) := round c d e f g h a b k6
  let (e, a) := round b c d e f g h a k7
  ⟨a, b, c, d, e, f, g, h⟩

/-- the `while i != 64` loop over the remaining `kwi` values -/
def rounds_loop : W8 UInt32 → List UInt32 → Option (W8 UInt32)
  | s, [] => some s
  | s, k0 :: k1 :: k2 :: k3 :: k4 :: k5 :: k6 :: k7 :: rest => rounds_loop (rounds8 s k0 k1 k2 k3 k4 k5 k6 k7) rest
  | _, _ => none

/-- `_mm_extract_epi32(v, j)` -/
def extract_epi32 {n : Nat} (v : Lanes n) (j : Nat) : Option UInt32 := v.toList[j]?

/-- macro `compress_once!($j)` -/
def compress_once {n : Nat} (state : W8 UInt32) (schedule : List (Lanes n)) (j : Nat) : Option (W8 UInt32) :=
  match schedule.mapM fun v => extract_epi32 v j with
  | none => none
  | some kw =>
    if kw.length ≠ 64 then none else
    match rounds_loop state kw with
    | none => none
    | some r =>
      some ⟨state.a + r.a, state.b + r.b, state.c + r.c, state.d + r.d,
            state.e + r.e, state.f + r.f, state.g + r.g, state.h + r.h⟩

/-- `compress_4ways` / `compress_8ways`: `compress_once!(0); compress_once!(1); …` -/
def compress_nways {n : Nat} (schedule : List (Lanes n)) : W8 UInt32 → List Nat → Option (W8 UInt32)
  | state, [] => some state
  | state, j :: js =>
    match compress_once state schedule j with
    | none => none
    | some state => compress_nways schedule state js

/-- `while block.len() >= BATCH { message_schedule(&mut schedule, &block); compress(state, &schedule); block = &block[BATCH..] }`;
    returns the state and the remaining slice (fuel = number of bytes) -/
def batch_loop (C : Cfg) : Nat → W8 UInt32 → Bytes → Option (W8 UInt32 × Bytes)
  | 0, state, block => if block.length ≥ C.batchBytes then none else some (state, block)
  | fuel + 1, state, block =>
    if block.length ≥ C.batchBytes then
      match message_schedule C block with
      | none => none
      | some schedule =>
        match compress_nways schedule state C.compressLanes with
        | none => none
        | some state => batch_loop C fuel state (block.drop C.batchBytes)
    else some (state, block)

/-- `sse41::digest_block(state, block)` -/
def Sse41.digest_block (state : W8 UInt32) (block : Bytes) : Option (W8 UInt32) :=
  match batch_loop Sse41.cfg block.length state block with
  | none => none
  | some (state, block) =>
    -- if block.len() > 0 { reference::digest_block(state, block) }
    if block.length > 0 then Impl256.digest_block state block else some state

/-- `avx::digest_block(state, block)` -/
def Avx.digest_block (state : W8 UInt32) (block : Bytes) : Option (W8 UInt32) :=
  match batch_loop Avx.cfg block.length state block with
  | none => none
  | some (state, block) => Sse41.digest_block state block

/-- `impl256::digest_block` (mod.rs): `if HAS_AVX { return avx::… }`, then `if HAS_SSE41 { return sse41::… }`,
    else `reference::digest_block` — the order and gating of the blocks is the extracted table DISPATCH_SHA256 -/
def digest_block (ft : Features) (state : W8 UInt32) (block : Bytes) : Option (W8 UInt32) :=
  match selectPath ft Extracted.Simd.DISPATCH_SHA256 with
  | 0 => Impl256.digest_block state block
  | 1 => Sse41.digest_block state block
  | 2 => Avx.digest_block state block
  | _ => none

/-! ## the engine and context of Impl.Sha2 over the dispatched block function
    (`Impl.Sha2.Eng256.Engine.blocks` is the portable instance; `blocks_eq`, `hash_with_eq_spec` of Proofs/SimdSha256Batch.lean) -/

/-- `Engine::blocks` -/
def Engine.blocks (ft : Features) (self : Eng256.Engine) (block : Bytes) : Option Eng256.Engine :=
  if block.length % Eng256.BLOCK_LEN_BYTES ≠ 0 then none else
  match digest_block ft self.h block with
  | none => none
  | some h => some ⟨h⟩

namespace Engine256W

def input (blocks : Eng256.Engine → Bytes → Option Eng256.Engine) (self : Engine256) (inp : Bytes) : Option Engine256 :=
  if self.finished then none else
  let processed_bytes := (self.processed_bytes + inp.length) % 2 ^ 64
  match self.buffer.input 64 inp blocks self.state with
  | none => none
  | some (buffer, state) => some ⟨processed_bytes, buffer, state, self.finished⟩

def finish (blocks : Eng256.Engine → Bytes → Option Eng256.Engine) (self : Engine256) : Option Engine256 :=
  if self.finished then some self else
  match self.buffer.standard_padding 64 8 blocks self.state with
  | none => none
  | some (buffer, state) =>
    match buffer.next_write 8 (len_be64 self.processed_bytes) with
    | none => none
    | some buffer =>
      match buffer.full_buffer 64 with
      | none => none
      | some (buffer, block) =>
        match blocks state block with
        | none => none
        | some state => some ⟨self.processed_bytes, buffer, state, true⟩

def inputs (blocks : Eng256.Engine → Bytes → Option Eng256.Engine) : Engine256 → List Bytes → Option Engine256
  | e, [] => some e
  | e, p :: ps =>
    match input blocks e p with
    | none => none
    | some e => inputs blocks e ps

end Engine256W

/-- `Ctx::new()`, one `update_mut` per piece, `finalize()` — over an arbitrary `Engine::blocks` -/
def hash_with (blocks : Eng256.Engine → Bytes → Option Eng256.Engine) (A : Impl.Sha2.Alg256) (pieces : List Bytes) :
    Option Bytes :=
  match Engine256W.inputs blocks (Engine256.new A.state) pieces with
  | none => none
  | some e =>
    match Engine256W.finish blocks e with
    | none => none
    | some e => A.output_fn e.state (zeros (A.output_bits / 8))

def sha256_with (ft : Features) (pieces : List Bytes) : Option Bytes := hash_with (Engine.blocks ft) Impl.Sha2.Sha256 pieces
def sha224_with (ft : Features) (pieces : List Bytes) : Option Bytes := hash_with (Engine.blocks ft) Impl.Sha2.Sha224 pieces

end Cx.Impl.SimdSha256
