/-
  Impl.Sha2 — code-shaped model of src/hashing/sha2/{mod,eng256,eng512,initials}.rs and of the portable block
  functions impl256/reference.rs, impl512/reference.rs.  One `def` per Rust fn, same names; Rust modules are
  Lean namespaces (`Impl256`, `Impl512`, `Eng256`, `Eng512`).

  Widths.  Words are `UInt32`/`UInt64` (wrapping `+` = `wrapping_add`).  `[u32; 8]`/`[u64; 8]` states are the
  record `W8`.  `processed_bytes : u64` (Engine256) and `: u128` (Engine512) are `Nat` with the truncation written:
  `+=` is modelled as wrapping (`% 2^64`, `% 2^128`) — release semantics; an overflow-checked build panics instead
  when more than 2^64−1 (2^128−1) bytes have been fed, which no theorem below reaches (domain guards 2^61 / 2^125).
  `(processed_bytes << 3)` drops the top three bits in every profile.

  Panics are `none`: `assert!(!self.finished)`, `assert_eq!(block.len() % BLOCK_LEN_BYTES, 0)`, slice ranges,
  `read_*`/`write_*` length asserts.  `get_unchecked` indices (K32[i], w[i]) are in range by construction; the model
  refuses (`none`) instead of reading out of range.

  Shared with the Spec (`…_core_shared`): the SHA-256 message schedule loop `for i in 16..64` (literal
  transcription of FIPS W_t) = `Spec.Sha2.schedule256`; `rotate_right/rotate_left` are the machine rotations.
  NOT shared, proved equal in Proofs/Sha2Compress.lean / Proofs/Sha2Compress512.lean: the 8-way unrolled/renamed SHA-256 rounds with
  `g ^ (e & (f ^ g))`, `(a & b) | (c & (a | b))`; the SHA-512 u64x2 pair-lane rounds with the sliding schedule.

  -- API:
  --   Cx.Impl.Sha2.sha224? / sha256? / sha384? / sha512? / sha512_224? / sha512_256? : Bytes → Option Bytes
  --       (= `Context::new().update(msg).finalize()`, `none` = panic)
  --   Cx.Impl.Sha2.sha224 / sha256 / sha384 / sha512 / sha512_224 / sha512_256 : Bytes → Bytes  (total form)
  --   block sizes: Sha256.BLOCK_BYTES = Sha224.BLOCK_BYTES = 64, Sha512/384/512_224/512_256 = 128
  --   digest sizes: OUTPUT_BITS / 8 = 28, 32, 48, 64, 28, 32
  --   Cx.Impl.Sha2.fam256 A / fam512 A : Cx.HashProg.Family (for `runProg`)
  --   Cx.Impl.Sha2.Alg256 / Alg512 descriptors (`digest!` macro arguments) and `Ctx256.*` / `Ctx512.*` methods
-/
import CxVerif.Util.Bytes
import CxVerif.Spec.Sha2
import CxVerif.Impl.FixedBuffer
import CxVerif.Impl.MdEngine
import CxVerif.Impl.HashProg
import CxVerif.Extracted.Sha2
namespace Cx.Impl.Sha2
open Cx Cx.Impl
open Cx.Spec.Sha2 (W8)

/-- `[T; 8]` constant from an extracted table; the length proof is re-checked on every build -/
def w8OfList8 {α : Type} (l : List α) (h : l.length = 8) : W8 α :=
  ⟨l[0], l[1], l[2], l[3], l[4], l[5], l[6], l[7]⟩

/-! ### initials.rs -/
def H512 : W8 UInt64 := w8OfList8 Extracted.Sha2.H512 (by decide)
def H384 : W8 UInt64 := w8OfList8 Extracted.Sha2.H384 (by decide)
def H512_TRUNC_256 : W8 UInt64 := w8OfList8 Extracted.Sha2.H512_TRUNC_256 (by decide)
def H512_TRUNC_224 : W8 UInt64 := w8OfList8 Extracted.Sha2.H512_TRUNC_224 (by decide)
def H256 : W8 UInt32 := w8OfList8 Extracted.Sha2.H256 (by decide)
def H224 : W8 UInt32 := w8OfList8 Extracted.Sha2.H224 (by decide)

/-! ### impl256/reference.rs -/
namespace Impl256

/-- `u32::rotate_right` -/
def rotate_right (x : UInt32) (n : UInt32) : UInt32 := Spec.Sha2.ROTR32 n x

def e0 (x : UInt32) : UInt32 := rotate_right x 2 ^^^ rotate_right x 13 ^^^ rotate_right x 22
def e1 (x : UInt32) : UInt32 := rotate_right x 6 ^^^ rotate_right x 11 ^^^ rotate_right x 25
def s0 (x : UInt32) : UInt32 := rotate_right x 7 ^^^ rotate_right x 18 ^^^ (x >>> 3)
def s1 (x : UInt32) : UInt32 := rotate_right x 17 ^^^ rotate_right x 19 ^^^ (x >>> 10)

def K32 : List UInt32 := Extracted.Sha2.K32

/-- the macro `round!($a,$b,$c,$d,$e,$f,$g,$h,$i)`; `k = K32[$i]`, `w = w[$i]`; returns the new `($d, $h)` -/
def round (a b c d e f g h : UInt32) (k w : UInt32) : UInt32 × UInt32 :=
  let t1 := h + e1 e + (g ^^^ (e &&& (f ^^^ g))) + k + w
  let t2 := e0 a + ((a &&& b) ||| (c &&& (a ||| b)))
  (d + t1, t1 + t2)

/-- one iteration of `while i != 64 { round!(a,b,c,d,e,f,g,h,i+0); round!(h,a,b,c,d,e,f,g,i+1); … ; i += 8 }` -/
def rounds8 (s : W8 UInt32) (kw0 kw1 kw2 kw3 kw4 kw5 kw6 kw7 : UInt32 × UInt32) : W8 UInt32 :=
  let a := s.a; let b := s.b; let c := s.c; let d := s.d
  let e := s.e; let f := s.f; let g := s.g; let h := s.h
  let (d, h) := round a b c d e f g h kw0.1 kw0.2
  let (c, g) := round h a b c d e f g kw1.1 kw1.2
  let (b, f) := round g h a b c d e f kw2.1 kw2.2
  let (a, e) := round f g h a b c d e kw3.1 kw3.2
  let (h, d) := round e f g h a b c d kw4.1 kw4.2
  let (g, c) := round d e f g h a b c kw5.1 kw5.2
  let (f, b) := round c d e f g h a b kw6.1 kw6.2
  let (e, a) := round b c d e f g h a kw7.1 kw7.2
  ⟨a, b, c, d, e, f, g, h⟩

/-- the `while i != 64` loop over the remaining `(K32[i], w[i])` pairs; leaves the loop when none remain -/
def rounds_loop : W8 UInt32 → List (UInt32 × UInt32) → Option (W8 UInt32)
  | s, [] => some s
  | s, kw0 :: kw1 :: kw2 :: kw3 :: kw4 :: kw5 :: kw6 :: kw7 :: rest =>
    rounds_loop (rounds8 s kw0 kw1 kw2 kw3 kw4 kw5 kw6 kw7) rest
  | _, _ => none   -- an index i+j ≥ 64 (impossible for 64 entries)

/-- `digest_block_u32(state, buf)` -/
def digest_block_u32 (state : W8 UInt32) (buf : Bytes) : Option (W8 UInt32) :=
  -- let mut w = [0u32; 64]; read_u32v_be(&mut w[0..16], buf);
  match read_u32v_be 16 buf with
  | none => none
  | some w16 =>
    -- for i in 16..64 { w[i] = s1(w[i-2]) + w[i-7] + s0(w[i-15]) + w[i-16] }     (schedule_core_shared)
    let w := Spec.Sha2.schedule256 w16
    if K32.length ≠ 64 ∨ w.length ≠ 64 then none else
    match rounds_loop state (K32.zip w) with
    | none => none
    | some r =>
      -- state[j] = state[j].wrapping_add(…)
      some ⟨state.a + r.a, state.b + r.b, state.c + r.c, state.d + r.d,
            state.e + r.e, state.f + r.f, state.g + r.g, state.h + r.h⟩

/-- `while i < block.len() { digest_block_u32(state, &block[i..i + 64]); i += 64; }` — `rest = block[i..]` -/
def digest_block_loop : Nat → W8 UInt32 → Bytes → Option (W8 UInt32)
  | 0, state, _ => some state
  | fuel + 1, state, rest =>
    if rest.length = 0 then some state else
    match slice rest 0 64 with
    | none => none
    | some blk =>
      match digest_block_u32 state blk with
      | none => none
      | some state => digest_block_loop fuel state (rest.drop 64)

/-- `reference::digest_block(state, block)`; at most `block.len()/64 + 1` loop tests -/
def digest_block (state : W8 UInt32) (block : Bytes) : Option (W8 UInt32) :=
  digest_block_loop (block.length / 64 + 1) state block

end Impl256

/-! ### impl512/reference.rs -/
namespace Impl512

/-- `simd::u64x2(pub u64, pub u64)` (portable definition) -/
structure u64x2 where
  _0 : UInt64
  _1 : UInt64
deriving DecidableEq, Repr

instance : Add u64x2 := ⟨fun x y => ⟨x._0 + y._0, x._1 + y._1⟩⟩

def rotate_left (x : UInt64) (n : UInt64) : UInt64 := (x <<< n) ||| (x >>> (64 - n))
def rotate_right (x : UInt64) (n : UInt64) : UInt64 := Spec.Sha2.ROTR64 n x

def sha512load (v0 v1 : u64x2) : u64x2 := ⟨v1._1, v0._0⟩

def sigma0 (x : UInt64) : UInt64 := rotate_left x 63 ^^^ rotate_left x 56 ^^^ (x >>> 7)
def sigma1 (x : UInt64) : UInt64 := rotate_left x 45 ^^^ rotate_left x 3 ^^^ (x >>> 6)

def schedule_x2 (v0 v1 v4to5 v7 : u64x2) : u64x2 :=
  let w1 := v0._0; let w0 := v0._1
  let w2 := v1._1
  let w10 := v4to5._0; let w9 := v4to5._1
  let w15 := v7._0; let w14 := v7._1
  let w16 := sigma1 w14 + w9 + sigma0 w1 + w0
  let w17 := sigma1 w15 + w10 + sigma0 w2 + w1
  ⟨w17, w16⟩

def big_sigma0 (a : UInt64) : UInt64 := rotate_right a 28 ^^^ rotate_right a 34 ^^^ rotate_right a 39
def big_sigma1 (a : UInt64) : UInt64 := rotate_right a 14 ^^^ rotate_right a 18 ^^^ rotate_right a 41
def bool3ary_202 (a b c : UInt64) : UInt64 := c ^^^ (a &&& (b ^^^ c))
def bool3ary_232 (a b c : UInt64) : UInt64 := (a &&& b) ^^^ (a &&& c) ^^^ (b &&& c)

def digest_round (ae bf cg dh : u64x2) (wk0 : UInt64) : u64x2 :=
  let a0 := ae._0; let e0 := ae._1
  let b0 := bf._0; let f0 := bf._1
  let c0 := cg._0; let g0 := cg._1
  let d0 := dh._0; let h0 := dh._1
  let x0 := big_sigma1 e0 + bool3ary_202 e0 f0 g0 + wk0 + h0
  let y0 := big_sigma0 a0 + bool3ary_232 a0 b0 c0
  ⟨x0 + y0, x0 + d0⟩

/-- the four lane registers -/
structure Lanes where
  ae : u64x2
  bf : u64x2
  cg : u64x2
  dh : u64x2
deriving DecidableEq, Repr

/-- macro `rounds4!(ae, bf, cg, dh, wk0, wk1)` -/
def rounds4 (r : Lanes) (wk0 wk1 : u64x2) : Lanes :=
  let u := wk0._0; let t := wk0._1
  let w := wk1._0; let v := wk1._1
  let dh := digest_round r.ae r.bf r.cg r.dh t
  let cg := digest_round dh r.ae r.bf r.cg u
  let bf := digest_round cg dh r.ae r.bf v
  let ae := digest_round bf cg dh r.ae w
  ⟨ae, bf, cg, dh⟩

/-- macro `schedule!(v0, v1, v4, v5, v7)` -/
def schedule (v0 v1 v4 v5 v7 : u64x2) : u64x2 := schedule_x2 v0 v1 (sha512load v4 v5) v7

theorem K64X2_length : Extracted.Sha2.K64X2.length = 80 := by decide

/-- `K64X2[i]` for a literal index `i < 40` -/
def k (i : Nat) (h : i < 40 := by decide) : u64x2 :=
  ⟨Extracted.Sha2.K64X2[2 * i]'(by have := K64X2_length; omega),
   Extracted.Sha2.K64X2[2 * i + 1]'(by have := K64X2_length; omega)⟩

/-- `digest_block_u64(state, block)`; `block : &[u64; 16]` -/
def digest_block_u64 (state : W8 UInt64) (block : List UInt64) : Option (W8 UInt64) :=
  match block with
  | [b0, b1, b2, b3, b4, b5, b6, b7, b8, b9, b10, b11, b12, b13, b14, b15] =>
    let r : Lanes := ⟨⟨state.a, state.e⟩, ⟨state.b, state.f⟩, ⟨state.c, state.g⟩, ⟨state.d, state.h⟩⟩
    -- Rounds 0..20
    let w1 : u64x2 := ⟨b3, b2⟩; let w0 : u64x2 := ⟨b1, b0⟩
    let r := rounds4 r (k 0 + w0) (k 1 + w1)
    let w3 : u64x2 := ⟨b7, b6⟩; let w2 : u64x2 := ⟨b5, b4⟩
    let r := rounds4 r (k 2 + w2) (k 3 + w3)
    let w5 : u64x2 := ⟨b11, b10⟩; let w4 : u64x2 := ⟨b9, b8⟩
    let r := rounds4 r (k 4 + w4) (k 5 + w5)
    let w7 : u64x2 := ⟨b15, b14⟩; let w6 : u64x2 := ⟨b13, b12⟩
    let r := rounds4 r (k 6 + w6) (k 7 + w7)
    let w8 := schedule w0 w1 w4 w5 w7
    let w9 := schedule w1 w2 w5 w6 w8
    let r := rounds4 r (k 8 + w8) (k 9 + w9)
    -- Rounds 20..40
    let w0 := schedule w2 w3 w6 w7 w9
    let w1 := schedule w3 w4 w7 w8 w0
    let r := rounds4 r (k 10 + w0) (k 11 + w1)
    let w2 := schedule w4 w5 w8 w9 w1
    let w3 := schedule w5 w6 w9 w0 w2
    let r := rounds4 r (k 12 + w2) (k 13 + w3)
    let w4 := schedule w6 w7 w0 w1 w3
    let w5 := schedule w7 w8 w1 w2 w4
    let r := rounds4 r (k 14 + w4) (k 15 + w5)
    let w6 := schedule w8 w9 w2 w3 w5
    let w7 := schedule w9 w0 w3 w4 w6
    let r := rounds4 r (k 16 + w6) (k 17 + w7)
    let w8 := schedule w0 w1 w4 w5 w7
    let w9 := schedule w1 w2 w5 w6 w8
    let r := rounds4 r (k 18 + w8) (k 19 + w9)
    -- Rounds 40..60
    let w0 := schedule w2 w3 w6 w7 w9
    let w1 := schedule w3 w4 w7 w8 w0
    let r := rounds4 r (k 20 + w0) (k 21 + w1)
    let w2 := schedule w4 w5 w8 w9 w1
    let w3 := schedule w5 w6 w9 w0 w2
    let r := rounds4 r (k 22 + w2) (k 23 + w3)
    let w4 := schedule w6 w7 w0 w1 w3
    let w5 := schedule w7 w8 w1 w2 w4
    let r := rounds4 r (k 24 + w4) (k 25 + w5)
    let w6 := schedule w8 w9 w2 w3 w5
    let w7 := schedule w9 w0 w3 w4 w6
    let r := rounds4 r (k 26 + w6) (k 27 + w7)
    let w8 := schedule w0 w1 w4 w5 w7
    let w9 := schedule w1 w2 w5 w6 w8
    let r := rounds4 r (k 28 + w8) (k 29 + w9)
    -- Rounds 60..80
    let w0 := schedule w2 w3 w6 w7 w9
    let w1 := schedule w3 w4 w7 w8 w0
    let r := rounds4 r (k 30 + w0) (k 31 + w1)
    let w2 := schedule w4 w5 w8 w9 w1
    let w3 := schedule w5 w6 w9 w0 w2
    let r := rounds4 r (k 32 + w2) (k 33 + w3)
    let w4 := schedule w6 w7 w0 w1 w3
    let w5 := schedule w7 w8 w1 w2 w4
    let r := rounds4 r (k 34 + w4) (k 35 + w5)
    let w6 := schedule w8 w9 w2 w3 w5
    let w7 := schedule w9 w0 w3 w4 w6
    let r := rounds4 r (k 36 + w6) (k 37 + w7)
    let w8 := schedule w0 w1 w4 w5 w7
    let w9 := schedule w1 w2 w5 w6 w8
    let r := rounds4 r (k 38 + w8) (k 39 + w9)
    let a := r.ae._0; let e := r.ae._1
    let b := r.bf._0; let f := r.bf._1
    let c := r.cg._0; let g := r.cg._1
    let d := r.dh._0; let h := r.dh._1
    some ⟨state.a + a, state.b + b, state.c + c, state.d + d,
          state.e + e, state.f + f, state.g + g, state.h + h⟩
  | _ => none

/-- `while !block.is_empty() { read_u64v_be(&mut block2[..], &block[0..128]); digest_block_u64(state, &block2);
    block = &block[128..]; }` -/
def digest_block_loop : Nat → W8 UInt64 → Bytes → Option (W8 UInt64)
  | 0, state, _ => some state
  | fuel + 1, state, block =>
    if block.length = 0 then some state else
    match slice block 0 128 with
    | none => none
    | some blk =>
      match read_u64v_be 16 blk with
      | none => none
      | some block2 =>
        match digest_block_u64 state block2 with
        | none => none
        | some state => digest_block_loop fuel state (block.drop 128)

def digest_block (state : W8 UInt64) (block : Bytes) : Option (W8 UInt64) :=
  digest_block_loop (block.length / 128 + 1) state block

end Impl512

/-! ### eng256.rs -/
namespace Eng256

def STATE_LEN : Nat := 8
def BLOCK_LEN : Nat := Extracted.Sha2.BLOCK_LEN_256
def BLOCK_LEN_BYTES : Nat := BLOCK_LEN * 4

structure Engine where
  h : W8 UInt32
deriving DecidableEq, Repr

def Engine.new (h : W8 UInt32) : Engine := ⟨h⟩
def Engine.reset (_self : Engine) (h : W8 UInt32) : Engine := ⟨h⟩

/-- `blocks`: `assert_eq!(block.len() % BLOCK_LEN_BYTES, 0); digest_block(&mut self.h, block)`
    (portable dispatch: `impl256::digest_block` → `reference::digest_block`; SIMD variants are unit `simd`) -/
def Engine.blocks (self : Engine) (block : Bytes) : Option Engine :=
  if block.length % BLOCK_LEN_BYTES ≠ 0 then none else
  match Impl256.digest_block self.h block with
  | none => none
  | some h => some ⟨h⟩

/-- `output_224bits_at(out)`: `write_u32v_be(&mut out[0..28], &self.h[0..7])` -/
def Engine.output_224bits_at (self : Engine) (out : Bytes) : Option Bytes :=
  match slice out 0 28 with
  | none => none
  | some dst =>
    match write_u32v_be dst.length (self.h.toList.take 7) with
    | none => none
    | some bs => copy_from_slice out 0 28 bs

/-- `output_256bits_at(out)`: `write_u32v_be(&mut out[0..32], &self.h)` -/
def Engine.output_256bits_at (self : Engine) (out : Bytes) : Option Bytes :=
  match slice out 0 32 with
  | none => none
  | some dst =>
    match write_u32v_be dst.length self.h.toList with
    | none => none
    | some bs => copy_from_slice out 0 32 bs

end Eng256

/-! ### eng512.rs -/
namespace Eng512

def STATE_LEN : Nat := 8
def BLOCK_LEN : Nat := Extracted.Sha2.BLOCK_LEN_512
def BLOCK_LEN_BYTES : Nat := BLOCK_LEN * 8

structure Engine where
  h : W8 UInt64
deriving DecidableEq, Repr

def Engine.new (h : W8 UInt64) : Engine := ⟨h⟩
def Engine.reset (_self : Engine) (h : W8 UInt64) : Engine := ⟨h⟩

def Engine.blocks (self : Engine) (block : Bytes) : Option Engine :=
  if block.length % BLOCK_LEN_BYTES ≠ 0 then none else
  match Impl512.digest_block self.h block with
  | none => none
  | some h => some ⟨h⟩

/-- `output_224bits_at(out)`: `write_u64v_be(&mut out[0..24], &self.h[0..3]);
    write_u32_be(&mut out[24..28], (self.h[3] >> 32) as u32)` -/
def Engine.output_224bits_at (self : Engine) (out : Bytes) : Option Bytes :=
  match slice out 0 24 with
  | none => none
  | some dst =>
    match write_u64v_be dst.length (self.h.toList.take 3) with
    | none => none
    | some bs =>
      match copy_from_slice out 0 24 bs with
      | none => none
      | some out =>
        match slice out 24 28 with
        | none => none
        | some dst2 =>
          match write_u32_be dst2.length (self.h.d >>> 32).toUInt32 with
          | none => none
          | some bs2 => copy_from_slice out 24 28 bs2

/-- `output_256bits_at(out)`: `write_u64v_be(out, &self.h[0..4])` (asserts `out.len() == 32`) -/
def Engine.output_256bits_at (self : Engine) (out : Bytes) : Option Bytes :=
  write_u64v_be out.length (self.h.toList.take 4)

def Engine.output_384bits_at (self : Engine) (out : Bytes) : Option Bytes :=
  write_u64v_be out.length (self.h.toList.take 6)

def Engine.output_512bits_at (self : Engine) (out : Bytes) : Option Bytes :=
  write_u64v_be out.length (self.h.toList.take 8)

end Eng512

/-! ### mod.rs: Engine512 -/

structure Engine512 where
  processed_bytes : Nat     -- u128
  buffer : FixedBuffer      -- FixedBuffer<128>
  state : Eng512.Engine
deriving DecidableEq, Repr

namespace Engine512

def new (h : W8 UInt64) : Engine512 := ⟨0, FixedBuffer.new 128, Eng512.Engine.new h⟩

def reset (self : Engine512) (h : W8 UInt64) : Engine512 :=
  ⟨0, self.buffer.reset, self.state.reset h⟩

def input (self : Engine512) (inp : Bytes) : Option Engine512 :=
  -- self.processed_bytes += input.len() as u128;
  let processed_bytes := (self.processed_bytes + inp.length) % 2 ^ 128
  -- self.buffer.input(input, |input| self_state.blocks(input));
  match self.buffer.input 128 inp Eng512.Engine.blocks self.state with
  | none => none
  | some (buffer, state) => some ⟨processed_bytes, buffer, state⟩

def finish (self : Engine512) : Option Engine512 :=
  -- self.buffer.standard_padding(16, |input| self_state.blocks(input));
  match self.buffer.standard_padding 128 16 Eng512.Engine.blocks self.state with
  | none => none
  | some (buffer, state) =>
    -- *self.buffer.next::<16>() = (self.processed_bytes << 3).to_be_bytes();
    match buffer.next_write 16 (len_be128 self.processed_bytes) with
    | none => none
    | some buffer =>
      -- self.state.blocks(self.buffer.full_buffer());
      match buffer.full_buffer 128 with
      | none => none
      | some (buffer, block) =>
        match state.blocks block with
        | none => none
        | some state => some ⟨self.processed_bytes, buffer, state⟩

end Engine512

/-! ### mod.rs: Engine256 -/

structure Engine256 where
  processed_bytes : Nat     -- u64
  buffer : FixedBuffer      -- FixedBuffer<64>
  state : Eng256.Engine
  finished : Bool
deriving DecidableEq, Repr

namespace Engine256

def new (h : W8 UInt32) : Engine256 := ⟨0, FixedBuffer.new 64, Eng256.Engine.new h, false⟩

def reset (self : Engine256) (h : W8 UInt32) : Engine256 :=
  ⟨0, self.buffer.reset, self.state.reset h, false⟩

def input (self : Engine256) (inp : Bytes) : Option Engine256 :=
  -- assert!(!self.finished);
  if self.finished then none else
  -- self.processed_bytes += input.len() as u64;
  let processed_bytes := (self.processed_bytes + inp.length) % 2 ^ 64
  match self.buffer.input 64 inp Eng256.Engine.blocks self.state with
  | none => none
  | some (buffer, state) => some ⟨processed_bytes, buffer, state, self.finished⟩

def finish (self : Engine256) : Option Engine256 :=
  -- if self.finished { return; }
  if self.finished then some self else
  match self.buffer.standard_padding 64 8 Eng256.Engine.blocks self.state with
  | none => none
  | some (buffer, state) =>
    -- *self.buffer.next::<8>() = (self.processed_bytes << 3).to_be_bytes();
    match buffer.next_write 8 (len_be64 self.processed_bytes) with
    | none => none
    | some buffer =>
      match buffer.full_buffer 64 with
      | none => none
      | some (buffer, block) =>
        match state.blocks block with
        | none => none
        | some state =>
          -- self.finished = true;
          some ⟨self.processed_bytes, buffer, state, true⟩

end Engine256

/-! ### mod.rs: the `digest!` macro.  Its arguments are the fields of `Alg256` / `Alg512`. -/

structure Alg256 where
  state : W8 UInt32                                    -- $state
  output_bits : Nat                                    -- $output_bits
  output_fn : Eng256.Engine → Bytes → Option Bytes     -- $output_fn

structure Alg512 where
  state : W8 UInt64
  output_bits : Nat
  output_fn : Eng512.Engine → Bytes → Option Bytes

/-- `$ctxname { engine: Engine256 }` -/
structure Ctx256 where
  engine : Engine256
deriving DecidableEq, Repr

structure Ctx512 where
  engine : Engine512
deriving DecidableEq, Repr

namespace Ctx256
def new (A : Alg256) : Ctx256 := ⟨Engine256.new A.state⟩
def update_mut (self : Ctx256) (inp : Bytes) : Option Ctx256 :=
  match self.engine.input inp with
  | none => none
  | some e => some ⟨e⟩
def update (self : Ctx256) (inp : Bytes) : Option Ctx256 :=
  match self.engine.input inp with
  | none => none
  | some e => some ⟨e⟩
/-- `finalize(mut self)`: `let mut out = [0; bits/8]; self.engine.finish(); self.engine.state.$output_fn(&mut out); out` -/
def finalize (A : Alg256) (self : Ctx256) : Option Bytes :=
  let out := zeros (A.output_bits / 8)
  match self.engine.finish with
  | none => none
  | some e => A.output_fn e.state out
def reset (A : Alg256) (self : Ctx256) : Ctx256 := ⟨self.engine.reset A.state⟩
/-- `finalize_reset(&mut self)`: finish; output; `self.reset()` -/
def finalize_reset (A : Alg256) (self : Ctx256) : Option (Ctx256 × Bytes) :=
  let out := zeros (A.output_bits / 8)
  match self.engine.finish with
  | none => none
  | some e =>
    match A.output_fn e.state out with
    | none => none
    | some out => some (reset A ⟨e⟩, out)
end Ctx256

namespace Ctx512
def new (A : Alg512) : Ctx512 := ⟨Engine512.new A.state⟩
def update_mut (self : Ctx512) (inp : Bytes) : Option Ctx512 :=
  match self.engine.input inp with
  | none => none
  | some e => some ⟨e⟩
def update (self : Ctx512) (inp : Bytes) : Option Ctx512 :=
  match self.engine.input inp with
  | none => none
  | some e => some ⟨e⟩
def finalize (A : Alg512) (self : Ctx512) : Option Bytes :=
  let out := zeros (A.output_bits / 8)
  match self.engine.finish with
  | none => none
  | some e => A.output_fn e.state out
def reset (A : Alg512) (self : Ctx512) : Ctx512 := ⟨self.engine.reset A.state⟩
def finalize_reset (A : Alg512) (self : Ctx512) : Option (Ctx512 × Bytes) :=
  let out := zeros (A.output_bits / 8)
  match self.engine.finish with
  | none => none
  | some e =>
    match A.output_fn e.state out with
    | none => none
    | some out => some (reset A ⟨e⟩, out)
end Ctx512

/-! ### the six `digest!` invocations -/

/-- `digest!(512 Sha512, Context512, output_512bits_at, 512, H512)` -/
def Sha512 : Alg512 := ⟨H512, 512, Eng512.Engine.output_512bits_at⟩
/-- `digest!(512 Sha384, Context384, output_384bits_at, 384, H384)` -/
def Sha384 : Alg512 := ⟨H384, 384, Eng512.Engine.output_384bits_at⟩
/-- `digest!(512 Sha512Trunc256, Context512_256, output_256bits_at, 256, H512_TRUNC_256)` -/
def Sha512Trunc256 : Alg512 := ⟨H512_TRUNC_256, 256, Eng512.Engine.output_256bits_at⟩
/-- `digest!(512 Sha512Trunc224, Context512_224, output_224bits_at, 224, H512_TRUNC_224)` -/
def Sha512Trunc224 : Alg512 := ⟨H512_TRUNC_224, 224, Eng512.Engine.output_224bits_at⟩
/-- `digest!(256 Sha256, Context256, output_256bits_at, 256, H256)` -/
def Sha256 : Alg256 := ⟨H256, 256, Eng256.Engine.output_256bits_at⟩
/-- `digest!(256 Sha224, Context224, output_224bits_at, 224, H224)` -/
def Sha224 : Alg256 := ⟨H224, 224, Eng256.Engine.output_224bits_at⟩

def Alg256.BLOCK_BYTES (_ : Alg256) : Nat := 64
def Alg512.BLOCK_BYTES (_ : Alg512) : Nat := 128

/-! ### hashing/mod.rs one-shot functions: `sha2::ShaNNN::new().update(input).finalize()` -/

def oneShot256 (A : Alg256) (input : Bytes) : Option Bytes :=
  match (Ctx256.new A).update input with
  | none => none
  | some c => c.finalize A

def oneShot512 (A : Alg512) (input : Bytes) : Option Bytes :=
  match (Ctx512.new A).update input with
  | none => none
  | some c => c.finalize A

def sha224? : Bytes → Option Bytes := oneShot256 Sha224
def sha256? : Bytes → Option Bytes := oneShot256 Sha256
def sha384? : Bytes → Option Bytes := oneShot512 Sha384
def sha512? : Bytes → Option Bytes := oneShot512 Sha512
/-- no one-shot function exists in hashing/mod.rs; this is `Context512_224::new().update(m).finalize()` -/
def sha512_224? : Bytes → Option Bytes := oneShot512 Sha512Trunc224
def sha512_256? : Bytes → Option Bytes := oneShot512 Sha512Trunc256

/-- total forms for later units; a panic (impossible inside the standard's length domain: theorems
    `Cx.Props.C01.sha256_eq_spec` …) shows up as the empty digest, which no caller can mistake for a digest -/
def orEmpty (o : Option Bytes) : Bytes := match o with | some d => d | none => []

def sha224 (m : Bytes) : Bytes := orEmpty (sha224? m)
def sha256 (m : Bytes) : Bytes := orEmpty (sha256? m)
def sha384 (m : Bytes) : Bytes := orEmpty (sha384? m)
def sha512 (m : Bytes) : Bytes := orEmpty (sha512? m)
def sha512_224 (m : Bytes) : Bytes := orEmpty (sha512_224? m)
def sha512_256 (m : Bytes) : Bytes := orEmpty (sha512_256? m)

/-! ### the context families as the op-history machine (`Cx.HashProg.runProg`) sees them -/

open Cx.HashProg (Family) in
def fam256 (A : Alg256) : Family Ctx256 :=
  ⟨Ctx256.new A, Ctx256.update, Ctx256.update_mut, Ctx256.reset A,
   Ctx256.finalize_reset A, Ctx256.finalize A⟩

open Cx.HashProg (Family) in
def fam512 (A : Alg512) : Family Ctx512 :=
  ⟨Ctx512.new A, Ctx512.update, Ctx512.update_mut, Ctx512.reset A,
   Ctx512.finalize_reset A, Ctx512.finalize A⟩

end Cx.Impl.Sha2
