/-
  Impl.Ripemd160 — code-shaped model of /repo/src/hashing/ripemd160.rs.
  `process_block!` is one macro invocation with 160 argument lines; the model *interprets* the extracted argument
  list (`Extracted.Sha1Ripemd.RIPEMD_LEFT/RIGHT`, rows `[o0,o1,o2,o3,o4,data_index,roll_shift,add,fn]`) with the
  `round!` macro body as the step function, on the two 5-word arrays `bb` / `bbb`, and ends with the
  "Combine results" block.  The extractor pins the text of `round!` and of the combine block.
  `FixedBuffer<64>` is the generic `Cx.Impl.FixedBuffer` with `N = 64`.  `Option`: `none` = panic.
  `processed_bytes += len` is modelled wrapping (see Impl/Sha1.lean).

  -- API:
  --   Cx.Impl.Ripemd160.ripemd160 : Bytes → Option Bytes    `cryptoxide::hashing::ripemd160`
  --   Cx.Impl.Ripemd160.Context   with new / update / update_mut / finalize / reset / finalize_reset
  --   Cx.Impl.Ripemd160.fam       : Cx.HashProg.Family Context   (the `hctx.ripemd160` machine)
  --   Cx.Impl.Ripemd160.process_msg_block : Bytes → Hash → Option Hash
-/
import CxVerif.Util.Bytes
import CxVerif.Spec.Ripemd160
import CxVerif.Impl.FixedBuffer
import CxVerif.Impl.HashProg
import CxVerif.Extracted.Sha1Ripemd

namespace Cx.Impl.Ripemd160
open Cx Cx.Impl
open Cx.Spec.Ripemd160 (Hash)

/-- `[u32; 5]` indexed by a literal: the record type of the Spec is shared as a data type; fields a..e = [0]..[4] -/
def get (h : Hash) : Nat → UInt32
  | 0 => h.a | 1 => h.b | 2 => h.c | 3 => h.d | _ => h.e
def set (h : Hash) (i : Nat) (v : UInt32) : Hash :=
  match i with
  | 0 => { h with a := v } | 1 => { h with b := v } | 2 => { h with c := v } | 3 => { h with d := v }
  | _ => { h with e := v }
-- (indices ≥ 5 do not occur: theorem `Proofs.Ripemd160.schedule_wellformed`; in Rust they would not compile)

def rotate_left (x : UInt32) (n : Nat) : UInt32 := rotl32 x n

/-- the five boolean expressions passed as `$round`, numbered by the extractor (b, c, d = registers 1, 2, 3) -/
def fnEval (fn : Nat) (b c d : UInt32) : UInt32 :=
  match fn with
  | 0 => b ^^^ c ^^^ d
  | 1 => (b &&& c) ||| (~~~b &&& d)
  | 2 => (b ||| ~~~c) ^^^ d
  | 3 => (b &&& d) ||| (c &&& ~~~d)
  | _ => b ^^^ (c ||| ~~~d)

/-- one schedule line -/
structure Line where
  o0 : Nat
  o1 : Nat
  o2 : Nat
  o3 : Nat
  o4 : Nat
  data_index : Nat
  roll_shift : Nat
  add : Nat
  fn : Nat
deriving DecidableEq, Repr

def Line.ofRow : List Nat → Option Line
  | [o0, o1, o2, o3, o4, i, s, k, f] => some ⟨o0, o1, o2, o3, o4, i, s, k, f⟩
  | _ => none

/-- `none` iff a row is malformed (theorem `Proofs.Ripemd160.lines_ok`: it is `some` of 80 lines each) -/
def leftLines : Option (List Line) := Cx.Extracted.Sha1Ripemd.RIPEMD_LEFT.mapM Line.ofRow
def rightLines : Option (List Line) := Cx.Extracted.Sha1Ripemd.RIPEMD_RIGHT.mapM Line.ofRow

/-- `round!($a, $b, $c, $d, $e, $x, $bits, $add, $round)` on the array `bb` with `$a = bb[o0]` … -/
def round (bb : Hash) (l : Line) (data : List UInt32) : Hash :=
  let rnd := fnEval l.fn (get bb l.o1) (get bb l.o2) (get bb l.o3)
  let x := data.getD l.data_index 0      -- `$data[$data_index]`, `data : [u32; 16]`, all indices < 16
  let a := get bb l.o0 + rnd + x + UInt32.ofNat l.add
  let a := rotate_left a l.roll_shift + get bb l.o4
  let bb := set bb l.o0 a
  set bb l.o2 (rotate_left (get bb l.o2) 10)

def H : Hash :=
  match Cx.Extracted.Sha1Ripemd.RIPEMD_H with
  | [h0, h1, h2, h3, h4] => ⟨h0, h1, h2, h3, h4⟩
  | _ => ⟨0, 0, 0, 0, 0⟩   -- unreachable: `[u32; 5]`; theorem `Proofs.Ripemd160.H_eq` pins the value

/-- the expansion of `process_block!(h, w[..], …)` -/
def process_block (h : Hash) (data : List UInt32) : Option Hash :=
  match leftLines, rightLines with
  | some ll, some rl =>
    let bb := ll.foldl (fun bb l => round bb l data) h
    let bbb := rl.foldl (fun bb l => round bb l data) h
    -- Combine results
    let bbb3 := get bbb 3 + get h 1 + get bb 2
    let h1 := get h 2 + get bb 3 + get bbb 4
    let h2 := get h 3 + get bb 4 + get bbb 0
    let h3 := get h 4 + get bb 0 + get bbb 1
    let h4 := get h 0 + get bb 1 + get bbb 2
    some ⟨bbb3, h1, h2, h3, h4⟩
  | _, _ => none

/-- `process_msg_block(data: &[u8], h)`: `read_u32v_le(&mut w[0..16], data)` asserts `16 * 4 == data.len()` -/
def process_msg_block (data : Bytes) (h : Hash) : Option Hash :=
  if data.length = 64 then process_block h (wordsLE32 data) else none

def process_msg_blocks_go (h : Hash) : List Bytes → Option Hash
  | [] => some h
  | b :: bs => match process_msg_block b h with
    | none => none
    | some h => process_msg_blocks_go h bs

/-- `for chunk in data.chunks(64) { process_msg_block(&chunk, h) }` -/
def process_msg_blocks (data : Bytes) (h : Hash) : Option Hash := process_msg_blocks_go h (chunks 64 data)

structure Context where
  h : Hash
  processed_bytes : UInt64
  buffer : FixedBuffer
deriving DecidableEq, Repr

def write_u32_le (x : UInt32) : Bytes := u32le x

namespace Context

def new : Context := ⟨H, 0, FixedBuffer.new 64⟩

def update_mut (self : Context) (msg : Bytes) : Option Context :=
  let processed_bytes := self.processed_bytes + UInt64.ofNat msg.length
  match self.buffer.input 64 msg (fun h d => process_msg_blocks d h) self.h with
  | none => none
  | some (buffer, h) => some ⟨h, processed_bytes, buffer⟩

def update (self : Context) (input : Bytes) : Option Context := self.update_mut input

def reset (self : Context) : Context := ⟨H, 0, self.buffer.reset⟩

def finalize_reset (self : Context) : Option (Context × Bytes) :=
  match self.buffer.standard_padding 64 8 (fun h d => process_msg_block d h) self.h with
  | none => none
  | some (buffer, h) =>
    -- `(self.processed_bytes << 3) as u32`, `(self.processed_bytes >> 29) as u32`
    match buffer.next_write 4 (write_u32_le (self.processed_bytes <<< 3).toUInt32) with
    | none => none
    | some buffer =>
      match buffer.next_write 4 (write_u32_le (self.processed_bytes >>> 29).toUInt32) with
      | none => none
      | some buffer =>
        match buffer.full_buffer 64 with
        | none => none
        | some (buffer, blk) =>
          match process_msg_block blk h with
          | none => none
          | some h =>
            let out := write_u32_le h.a ++ write_u32_le h.b ++ write_u32_le h.c ++ write_u32_le h.d ++ write_u32_le h.e
            some ((Context.mk h self.processed_bytes buffer).reset, out)

def finalize (self : Context) : Option Bytes := (finalize_reset self).map (·.2)

end Context

/-- `cryptoxide::hashing::ripemd160(input)` = `Ripemd160::new().update(input).finalize()` -/
def ripemd160 (input : Bytes) : Option Bytes :=
  match Context.new.update input with
  | none => none
  | some c => c.finalize

/-- the context family run by the `hctx.ripemd160` op -/
def fam : Cx.HashProg.Family Context :=
  ⟨Context.new, Context.update, Context.update_mut, Context.reset, Context.finalize_reset, Context.finalize⟩

end Cx.Impl.Ripemd160
