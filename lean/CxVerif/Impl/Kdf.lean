/-
  Impl.Kdf — code-shaped models of /repo/src/hkdf.rs (`hkdf_extract`, `hkdf_expand`), /repo/src/pbkdf2.rs
  (`calculate_block`, `pbkdf2`) and /repo/src/scrypt.rs (`salsa20_8`, `xor`, `scrypt_block_mix`, `integerify`,
  `scrypt_ro_mix`, `ScryptParams::new`, `scrypt`).  One `def` per Rust fn, same names; `none` = panic.
  HKDF is generic over the digest model (`DigestModel δ`), PBKDF2 over the MAC model (`MacModel μ`), as in Rust.
  Import-free.

  Conventions.  Output buffers (`okm`, `output`, `prk`) are passed as their LENGTH; the functions return the
  final contents (every byte of them is written before the function returns, or the function panics).
  `for chunk in buf.chunks_mut(os)` iterates over the chunk lengths `chunkLens os buf.len()` (and panics for
  `os = 0`).  `usize` is 64 bits (the harness runs on x86-64); `u8`/`u32` counters are `Nat` with the checked
  increment written out.  In `scrypt_ro_mix` the scratch vector `v` (`n` chunks of `len` bytes, only ever accessed
  as `v.chunks_mut(len)` and `v[j*len..(j+1)*len]`) is modelled as the list of its `n` chunks.

  -- API:
  --   Cx.Impl.Kdf.hkdf_extract D digest salt ikm prkLen : Option Bytes
  --   Cx.Impl.Kdf.hkdf_expand  D digest prk info okmLen : Option Bytes
  --   Cx.Impl.Kdf.hkdf_expand_old  (the function before `assert!(prk.len() >= digest.output_bytes())`; witness theorems only)
  --   Cx.Impl.Kdf.calculate_block M mac salt c idx scratch blockLen : Option (μ × Bytes × Bytes)
  --   Cx.Impl.Kdf.pbkdf2 M mac salt c outputLen : Option (μ × Bytes)
  --   Cx.Impl.Kdf.salsa20_8 / xor / scrypt_block_mix / integerify / scrypt_ro_mix
  --   Cx.Impl.Kdf.ScryptParams, ScryptParams.new log_n r p : Option ScryptParams
  --   Cx.Impl.Kdf.scrypt password salt params outputLen : Option Bytes
-/
import CxVerif.Util.Bytes
import CxVerif.Util.Blocks
import CxVerif.Impl.Digest
import CxVerif.Impl.Hmac
namespace Cx.Impl.Kdf
open Cx Cx.Impl.Digest Cx.Impl.Hmac

/-- the chunk lengths of `buf.chunks_mut(os)` for `buf.len() = len`, `os > 0` -/
def chunkLens (os len : Nat) : List Nat :=
  List.replicate (len / os) os ++ (if len % os = 0 then [] else [len % os])

/-! ## src/hkdf.rs -/

section hkdf
variable {δ : Type} (D : DigestModel δ)

/-- `pub fn hkdf_extract<D: Digest>(mut digest: D, salt: &[u8], ikm: &[u8], prk: &mut [u8])` -/
def hkdf_extract (digest : δ) (salt ikm : Bytes) (prkLen : Nat) : Option Bytes :=
  if ¬ prkLen = D.output_bytes digest then none     -- assert!(prk.len() == digest.output_bytes());
  else match D.reset digest with                     -- digest.reset();
    | none => none
    | some digest =>
      match Hmac.new D digest salt with              -- let mut mac = Hmac::new(digest, salt);
      | none => none
      | some mac =>
        match Hmac.input D mac ikm with              -- mac.input(ikm);
        | none => none
        | some mac =>
          match Hmac.raw_result D mac prkLen with    -- mac.raw_result(prk);
          | none => none
          | some (mac, prk) =>
            match Hmac.reset D mac with              -- mac.reset();
            | none => none
            | some _ => some prk

/-- the body of `for chunk in okm.chunks_mut(os)`: state `mac`, `t`, `n : u8`; `acc` = the chunks written so far -/
def hkdf_expand_loop (info : Bytes) : List Nat → Hmac δ → Bytes → Nat → Bytes → Option Bytes
  | [], _, _, _, acc => some acc
  | chunk_len :: rest, mac, t, n, acc =>
    -- n = n.checked_add(1).expect("HKDF size limit exceeded.");
    if ¬ n + 1 ≤ 255 then none else
    let n := n + 1
    -- if n != 1 { mac.input(&t[..]); }
    match (if n ≠ 1 then Hmac.input D mac t else some mac) with
    | none => none
    | some mac =>
      match Hmac.input D mac info with                       -- mac.input(info);
      | none => none
      | some mac =>
        match Hmac.input D mac [UInt8.ofNat n] with          -- mac.input(&nbuf);
        | none => none
        | some mac =>
          match Hmac.raw_result D mac t.length with          -- mac.raw_result(&mut t);
          | none => none
          | some (mac, t) =>
            match Hmac.reset D mac with                      -- mac.reset();
            | none => none
            | some mac =>
              -- chunk[0..chunk_len].copy_from_slice(&t[..chunk_len]);
              if ¬ chunk_len ≤ t.length then none
              else hkdf_expand_loop info rest mac t n (acc ++ t.take chunk_len)

/-- `pub fn hkdf_expand<D: Digest>(mut digest: D, prk: &[u8], info: &[u8], okm: &mut [u8])` -/
def hkdf_expand (digest : δ) (prk info : Bytes) (okmLen : Nat) : Option Bytes :=
  match D.reset digest with                                  -- digest.reset();
  | none => none
  | some digest =>
    if ¬ prk.length ≥ D.output_bytes digest then none else   -- assert!(prk.len() >= digest.output_bytes());
    match Hmac.new D digest prk with                         -- let mut mac = Hmac::new(digest, prk);
    | none => none
    | some mac =>
      let os := Hmac.output_bytes D mac
      let t : Bytes := zeros os
      if os = 0 then none                                    -- chunks_mut(0) panics
      else hkdf_expand_loop D info (chunkLens os okmLen) mac t 0 []

/-- `hkdf_expand` as it was before the repair of defect (m) (no `assert!(prk.len() >= digest.output_bytes())`): the
    documented domain "prk - The pseudorandom key of at least `digest.output_bytes()` octets" was not checked, a
    shorter PRK was used as the HMAC key and a value returned.  Kept as documentation together with its witness
    theorems (`Props.C10.hkdf_expand_old_accepts_short_prk`, `Props.C20.Refusal.hkdf_expand_old_accepts_short_prk`). -/
def hkdf_expand_old (digest : δ) (prk info : Bytes) (okmLen : Nat) : Option Bytes :=
  match D.reset digest with                                  -- digest.reset();
  | none => none
  | some digest =>
    match Hmac.new D digest prk with                         -- let mut mac = Hmac::new(digest, prk);
    | none => none
    | some mac =>
      let os := Hmac.output_bytes D mac
      let t : Bytes := zeros os
      if os = 0 then none                                    -- chunks_mut(0) panics
      else hkdf_expand_loop D info (chunkLens os okmLen) mac t 0 []

end hkdf

/-! ## src/pbkdf2.rs -/

section pbkdf2
variable {μ : Type} (M : MacModel μ)

/-- `for (output, &input) in block.iter_mut().zip(scratch.iter()) { *output ^= input; }` -/
def xor_into (block scratch : Bytes) : Bytes :=
  List.zipWith (· ^^^ ·) block scratch ++ block.drop scratch.length

/-- one pass of `for _ in 2..c { mac.input(scratch); mac.raw_result(scratch); mac.reset(); block ^= scratch }` -/
def calculate_block_loop : Nat → μ → Bytes → Bytes → Option (μ × Bytes × Bytes)
  | 0, mac, scratch, block => some (mac, scratch, block)
  | k + 1, mac, scratch, block =>
    match M.input mac scratch with
    | none => none
    | some mac =>
      match M.raw_result mac scratch.length with
      | none => none
      | some (mac, scratch) =>
        match M.reset mac with
        | none => none
        | some mac => calculate_block_loop k mac scratch (xor_into block scratch)

/-- `fn calculate_block<M: Mac>(mac, salt, c: u32, idx: u32, scratch: &mut [u8], block: &mut [u8])`;
    returns (mac, scratch, block) -/
def calculate_block (mac : μ) (salt : Bytes) (c idx : Nat) (scratch : Bytes) (blockLen : Nat) :
    Option (μ × Bytes × Bytes) :=
  -- Perform the 1st iteration. The output goes directly into block
  match M.input mac salt with
  | none => none
  | some mac =>
    match M.input mac (natToBE 4 idx) with                   -- idx.to_be_bytes()
    | none => none
    | some mac =>
      match M.raw_result mac blockLen with
      | none => none
      | some (mac, block) =>
        match M.reset mac with
        | none => none
        | some mac =>
          -- Perform the 2nd iteration
          let second : Option (μ × Bytes × Bytes) :=
            if c > 1 then
              match M.input mac block with
              | none => none
              | some mac =>
                match M.raw_result mac scratch.length with
                | none => none
                | some (mac, scratch) =>
                  match M.reset mac with
                  | none => none
                  | some mac => some (mac, scratch, xor_into block scratch)
            else some (mac, scratch, block)
          match second with
          | none => none
          | some (mac, scratch, block) =>
            -- Perform all remaining iterations: `for _ in 2..c`
            calculate_block_loop M (c - 2) mac scratch block

/-- the body of `for chunk in output.chunks_mut(os)` -/
def pbkdf2_loop (salt : Bytes) (c os : Nat) : List Nat → μ → Bytes → Nat → Bytes → Option (μ × Bytes)
  | [], mac, _, _, acc => some (mac, acc)
  | chunk_len :: rest, mac, scratch, idx, acc =>
    -- idx = idx.checked_add(1).expect("PBKDF2 size limit exceeded.");
    if ¬ idx + 1 < 2 ^ 32 then none else
    let idx := idx + 1
    if chunk_len = os then
      match calculate_block M mac salt c idx scratch chunk_len with
      | none => none
      | some (mac, scratch, chunk) => pbkdf2_loop salt c os rest mac scratch idx (acc ++ chunk)
    else
      match calculate_block M mac salt c idx scratch os with      -- tmp: os zero bytes
      | none => none
      | some (mac, scratch, tmp) =>
        -- chunk[0..chunk_len].copy_from_slice(&tmp[..chunk_len]);
        if ¬ chunk_len ≤ tmp.length then none
        else pbkdf2_loop salt c os rest mac scratch idx (acc ++ tmp.take chunk_len)

/-- `pub fn pbkdf2<M: Mac>(mac: &mut M, salt: &[u8], c: u32, output: &mut [u8])` -/
def pbkdf2 (mac : μ) (salt : Bytes) (c : Nat) (outputLen : Nat) : Option (μ × Bytes) :=
  if ¬ c > 0 then none                                       -- assert!(c > 0);
  else
    let os := M.output_bytes mac
    let scratch : Bytes := zeros os
    if os = 0 then none                                      -- chunks_mut(0) panics
    else pbkdf2_loop M salt c os (chunkLens os outputLen) mac scratch 0 []

end pbkdf2

/-! ## src/scrypt.rs -/

/-- one statement `x[set_idx] ^= x[idx_a].wrapping_add(x[idx_b]).rotate_left(rot);` of `run_round!`,
    driven by an extracted row `[set_idx, idx_a, idx_b, rot]` -/
def run_round_row (x : Vector UInt32 16) (row : List Nat) : Option (Vector UInt32 16) :=
  match row with
  | [s, a, b, rot] =>
    if h : s < 16 ∧ a < 16 ∧ b < 16 then
      some (x.set s (x[s]'h.1 ^^^ rotl32 (x[a]'h.2.1 + x[b]'h.2.2) rot) h.1)
    else none
  | _ => none

/-- the `run_round!( … )` invocation: the 32 extracted rows in order -/
def run_round (x : Vector UInt32 16) : Option (Vector UInt32 16) :=
  Extracted.MacKdf.SCRYPT_SALSA.foldlM run_round_row x

def salsa_rounds : Nat → Vector UInt32 16 → Option (Vector UInt32 16)
  | 0, x => some x
  | k + 1, x => match run_round x with
    | none => none
    | some x => salsa_rounds k x

/-- `fn salsa20_8(input: &[u8], output: &mut [u8])` for a 64-byte `output` -/
def salsa20_8 (input : Bytes) : Option Bytes :=
  -- read_u32v_le(&mut x, input): assert!(dst.len() * 4 == input.len())
  if ¬ 16 * 4 = input.length then none else
  let x : Vector UInt32 16 := Vector.ofFn fun (i : Fin 16) => leU32 (input.drop (4 * i.val))
  let rounds := Extracted.MacKdf.SCRYPT_ROUNDS
  match salsa_rounds (rounds / 2) x with                      -- for _ in 0..rounds / 2
  | none => none
  | some x' =>
    -- output[i*4..(i+1)*4] = x[i].wrapping_add(read_u32_le(&input[i*4..(i+1)*4]))
    some ((List.finRange 16).flatMap fun i => u32le (x'[i] + leU32 (input.drop (4 * i.val))))

/-- `fn xor(x: &[u8], y: &[u8], output: &mut [u8])`: the three-way zip stops at the shortest -/
def xor (x y output : Bytes) : Bytes :=
  let z := (List.zipWith (· ^^^ ·) x y).take output.length
  z ++ output.drop z.length

/-- `dst[pos..pos + src.len()].copy_from_slice(src)` -/
def write_at (dst : Bytes) (pos : Nat) (src : Bytes) : Option Bytes :=
  if pos + src.length ≤ dst.length then some (dst.take pos ++ src ++ dst.drop (pos + src.length)) else none

/-- the body of `for (i, chunk) in input.chunks(64).enumerate()` -/
def scrypt_block_mix_loop (inputLen : Nat) : List Bytes → Nat → Bytes → Bytes → Bytes → Option Bytes
  | [], _, _, _, output => some output
  | chunk :: rest, i, x, t, output =>
    let t := xor x chunk t
    match salsa20_8 t with
    | none => none
    | some x =>
      let pos := if i % 2 = 0 then (i / 2) * 64 else (i / 2) * 64 + inputLen / 2
      match write_at output pos x with
      | none => none
      | some output => scrypt_block_mix_loop inputLen rest (i + 1) x t output

/-- `fn scrypt_block_mix(input: &[u8], output: &mut [u8])`; returns the new contents of `output` -/
def scrypt_block_mix (input output : Bytes) : Option Bytes :=
  -- `&input[input.len() - 64..]`
  if input.length < 64 then none else
  let left_over := input.length % 64
  -- `x[0..left_over].copy_from_slice(&input[input.len() - 64..])` copies 64 bytes into `left_over < 64`: panics
  if left_over > 0 then none else
  let x : Bytes := input.drop (input.length - 64)
  let t : Bytes := zeros 64
  -- `input.chunks(64)`: here the length is a multiple of 64, all chunks are full
  scrypt_block_mix_loop input.length (takeBlocks 64 (input.length / 64) input) 0 x t output

/-- the nested `fn integerify(x: &[u8], n: usize) -> usize` -/
def integerify (x : Bytes) (n : Nat) : Option Nat :=
  if n = 0 then none                                          -- `n - 1` underflows
  else if x.length < 64 then none                             -- `x.len() - 64`
  else
    let mask := n - 1
    -- (read_u32_le(&x[x.len() - 64..x.len() - 60]) as usize) & mask
    some ((leU32 (x.drop (x.length - 64))).toNat &&& mask)

/-- first loop of `scrypt_ro_mix`: `for chunk in v.chunks_mut(len) { chunk[0..b.len()].copy_from_slice(b);
    scrypt_block_mix(chunk, b); }`; returns (b, the chunks of v in reverse order) -/
def ro_mix_fill : List Bytes → Bytes → List Bytes → Option (Bytes × List Bytes)
  | [], b, done => some (b, done)
  | chunk :: rest, b, done =>
    if ¬ b.length ≤ chunk.length then none else
    let chunk := copy_prefix chunk b
    match scrypt_block_mix chunk b with
    | none => none
    | some b => ro_mix_fill rest b (chunk :: done)

/-- second loop: `for _ in 0..n { let j = integerify(b, n); xor(b, &v[j*len..(j+1)*len], t); scrypt_block_mix(t, b); }` -/
def ro_mix_walk (v : List Bytes) (n : Nat) : Nat → Bytes → Bytes → Option (Bytes × Bytes)
  | 0, b, t => some (b, t)
  | k + 1, b, t =>
    match integerify b n with
    | none => none
    | some j =>
      match v[j]? with                                        -- slice `v[j * len..(j + 1) * len]`
      | none => none
      | some vj =>
        let t := xor b vj t
        match scrypt_block_mix t b with
        | none => none
        | some b => ro_mix_walk v n k b t

/-- `fn scrypt_ro_mix(b: &mut [u8], v: &mut [u8], t: &mut [u8], n: usize)`; returns (b, v, t) -/
def scrypt_ro_mix (b : Bytes) (v : List Bytes) (t : Bytes) (n : Nat) : Option (Bytes × List Bytes × Bytes) :=
  match ro_mix_fill v b [] with
  | none => none
  | some (b, vrev) =>
    let v := vrev.reverse
    match ro_mix_walk v n n b t with
    | none => none
    | some (b, t) => some (b, v, t)

/-- `pub struct ScryptParams { log_n: u8, r: u32, p: u32 }` -/
structure ScryptParams where
  log_n : Nat
  r : Nat
  p : Nat
deriving Repr, DecidableEq

def USIZE_BITS : Nat := 64

/-- `usize::checked_mul` -/
def checked_mul (a b : Nat) : Option Nat := if a * b < 2 ^ USIZE_BITS then some (a * b) else none

/-- `pub fn new(log_n: u8, r: u32, p: u32) -> ScryptParams` (arguments within their types: log_n < 2^8, r, p < 2^32) -/
def ScryptParams.new (log_n r p : Nat) : Option ScryptParams :=
  if ¬ r > 0 then none                                        -- assert!(r > 0);
  else if ¬ p > 0 then none                                   -- assert!(p > 0);
  else if ¬ log_n > 0 then none                               -- assert!(log_n > 0);
  else if ¬ log_n < USIZE_BITS then none                      -- assert!((log_n as usize) < size_of::<usize>() * 8);
  -- assert!(size_of::<usize>() >= size_of::<u32>() || …): true on a 64-bit target
  else
    let n := 1 <<< log_n                                      -- let n: usize = 1 << log_n;
    match checked_mul r 128 with                              -- check that r * 128 doesn't overflow
    | none => none
    | some r128 =>
      match checked_mul r128 n with                           -- check that n * r * 128 doesn't overflow
      | none => none
      | some _ =>
        match checked_mul r128 p with                         -- check that p * r * 128 doesn't overflow
        | none => none
        | some _ =>
          if ¬ log_n < r * 16 then none                       -- assert!((log_n as usize) < r * 16);
          else if ¬ r * p < 0x40000000 then none              -- assert!(r * p < 0x40000000);
          else some { log_n := log_n, r := r, p := p }

/-- the legacy wrapper `sha2::Sha256` -/
abbrev Sha256Obj := Legacy Sha2.Ctx256
def sha256Digest : DigestModel Sha256Obj := legacyDigest sha256Ctx

/-- `for chunk in &mut b.chunks_mut(r128) { scrypt_ro_mix(chunk, &mut v, &mut t, n); }`; `acc` = the chunks done -/
def scrypt_chunks (n : Nat) : List Bytes → List Bytes → Bytes → Bytes → Option Bytes
  | [], _, _, acc => some acc
  | chunk :: rest, v, t, acc =>
    match scrypt_ro_mix chunk v t n with
    | none => none
    | some (chunk, v, t) => scrypt_chunks n rest v t (acc ++ chunk)

/-- `pub fn scrypt(password: &[u8], salt: &[u8], params: &ScryptParams, output: &mut [u8])` -/
def scrypt (password salt : Bytes) (params : ScryptParams) (outputLen : Nat) : Option Bytes :=
  if ¬ outputLen > 0 then none                                -- assert!(output.len() > 0);
  else if ¬ outputLen / 32 ≤ 0xffffffff then none             -- assert!(output.len() / 32 <= 0xffffffff);
  else
    let n := 1 <<< params.log_n
    let r128 := params.r * 128
    let pr128 := params.p * r128
    let nr128 := n * r128
    match Hmac.new sha256Digest (Legacy.new sha256Ctx) password with   -- Hmac::new(Sha256::new(), password)
    | none => none
    | some mac =>
      match pbkdf2 (hmacMac sha256Digest) mac salt 1 pr128 with        -- pbkdf2(&mut mac, salt, 1, &mut b);
      | none => none
      | some (mac, b) =>
        -- `v`: nr128 zero bytes, as n chunks of r128; `t`: r128 zero bytes
        let v : List Bytes := List.replicate (nr128 / r128) (zeros r128)
        let t : Bytes := zeros r128
        if r128 = 0 then none else                                     -- chunks_mut(0)
        match scrypt_chunks n (takeBlocks r128 (pr128 / r128) b) v t [] with
        | none => none
        | some b =>
          (pbkdf2 (hmacMac sha256Digest) mac b 1 outputLen).map (·.2)  -- pbkdf2(&mut mac, &*b, 1, output);

end Cx.Impl.Kdf
