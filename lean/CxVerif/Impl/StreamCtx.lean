/-
  Impl.StreamCtx — the part of chacha20.rs / salsa20.rs that is textually identical in the five context types
  `ChaCha<R>`, `XChaCha<R>`, `ChaChaOriginal<R>`, `Salsa<R>`, `XSalsa<R>`:

      struct { state, output: [u8; 64], offset: usize }      update / process_mut / process / seek

  The five Rust copies differ only in the engine state type and in which increment `update` calls; the model is
  therefore ONE generic definition, instantiated five times (Impl.ChaCha, Impl.Salsa).  Also: `[u32; 16]` as a
  16-field record (`W16`), `cryptoutil::xor_keystream_mut`, and the operation histories used by C04.
  A Rust panic is `Except.error`.
-/
import CxVerif.Util.Bytes
namespace Cx.Impl

/-- `[u32; 16]` -/
structure W16 where
  (x0 x1 x2 x3 x4 x5 x6 x7 x8 x9 x10 x11 x12 x13 x14 x15 : UInt32)
deriving Repr, DecidableEq

namespace W16
def zero : W16 := ⟨0,0,0,0,0,0,0,0,0,0,0,0,0,0,0,0⟩
def toList (w : W16) : List UInt32 :=
  [w.x0,w.x1,w.x2,w.x3,w.x4,w.x5,w.x6,w.x7,w.x8,w.x9,w.x10,w.x11,w.x12,w.x13,w.x14,w.x15]
/-- `for i in 0..16 { self.state[i] = self.state[i].wrapping_add(initial.state[i]) }` -/
def add_back (s i : W16) : W16 :=
  ⟨s.x0+i.x0, s.x1+i.x1, s.x2+i.x2, s.x3+i.x3, s.x4+i.x4, s.x5+i.x5, s.x6+i.x6, s.x7+i.x7,
   s.x8+i.x8, s.x9+i.x9, s.x10+i.x10, s.x11+i.x11, s.x12+i.x12, s.x13+i.x13, s.x14+i.x14, s.x15+i.x15⟩
/-- `write_u32v_le(output, &self.state)` -/
def output_bytes (w : W16) : Bytes := w.toList.flatMap u32le
end W16

/-- `read_u32_le(&bs[i..i+4])`; callers establish `i+4 ≤ bs.length` (otherwise the slice panics) -/
def read_u32_le (bs : Bytes) (i : Nat) : UInt32 := leU32 ((bs.drop i).take 4)

namespace StreamCtx

/-- `cryptoutil::xor_keystream_mut(buf, keystream)` : `assert!(buf.len() <= keystream.len())`, bytewise xor -/
def xor_keystream_mut (buf keystream : Bytes) : Except String Bytes :=
  if buf.length ≤ keystream.length then .ok (List.zipWith (· ^^^ ·) buf keystream) else .error "PANIC"

/-- what `update` needs from the engine: `block s` = clone; rounds; add_back(&self.state); output_bytes,
    `increment` = the increment this context type calls -/
structure BlockGen (σ : Type) where
  block : σ → Bytes
  increment : σ → σ

structure Ctx (σ : Type) where
  state : σ
  output : Bytes     -- [u8; 64]
  offset : Nat       -- usize

variable {σ : Type}

/-- `Self { state, output: [0u8; 64], offset: 64 }` -/
def mk (s : σ) : Ctx σ := { state := s, output := zeros 64, offset := 64 }

/-- `fn update(&mut self)` -/
def update (g : BlockGen σ) (c : Ctx σ) : Ctx σ :=
  { state := g.increment c.state, output := g.block c.state, offset := 0 }

/-- `fn process_mut(&mut self, data: &mut [u8])` : returns the context and the new contents of `data`.
    One recursion step = one iteration of the `while i < len` loop on the unprocessed rest of `data`.
    `64 - self.offset` with `offset > 64` is an arithmetic-overflow panic (unreachable, see the invariant). -/
def process_mut (g : BlockGen σ) (c : Ctx σ) (data : Bytes) : Except String (Ctx σ × Bytes) :=
  match data with
  | [] => .ok (c, [])
  | d :: ds =>
    let c1 := if c.offset = 64 then update g c else c
    if _hlt : c1.offset < 64 then
      let count := min (64 - c1.offset) (ds.length + 1)
      match xor_keystream_mut ((d :: ds).take count) (c1.output.drop c1.offset) with
      | .error e => .error e
      | .ok out =>
        match process_mut g { c1 with offset := c1.offset + count } ((d :: ds).drop count) with
        | .error e => .error e
        | .ok (c', rest) => .ok (c', out ++ rest)
    else .error "PANIC"
termination_by data.length
decreasing_by
  simp only [List.length_drop, List.length_cons]
  have key : ∀ o : Nat, o < 64 → ds.length + 1 - min (64 - o) (ds.length + 1) < ds.length + 1 := by omega
  exact key _ _hlt

/-- `fn process(&mut self, input: &[u8], output: &mut [u8])` : `assert_eq!(input.len(), output.len())`,
    `output.copy_from_slice(input); self.process_mut(output)` -/
def process (g : BlockGen σ) (c : Ctx σ) (input : Bytes) (outputLen : Nat) : Except String (Ctx σ × Bytes) :=
  if input.length = outputLen then process_mut g c input else .error "PANIC"

/-- `fn seek(&mut self, position: u32)` given the engine's `set_counter` (also the 64-bit verification hook) -/
def seek {τ : Type} (setCounter : σ → τ → σ) (c : Ctx σ) (position : τ) : Ctx σ :=
  { c with state := setCounter c.state position, offset := 64 }

/-! ### operation histories (C04) -/

inductive Op where
  | process (data : Bytes)            -- buffer-to-buffer, output buffer of the same length
  | processBad (data : Bytes) (outLen : Nat)   -- output buffer of another length (refused)
  | processMut (data : Bytes)
  | seek (n : UInt32)
  | setCounter64 (n : UInt64)         -- verification hook
  | clone                             -- push a clone of the current context
  | swap                              -- exchange the current context with the top of the stack
deriving Repr

/-- the methods a context type offers (`none` = the Rust type has no such method) -/
structure Methods (σ : Type) where
  gen : BlockGen σ
  seek : Option (σ → UInt32 → σ)
  setCounter64 : Option (σ → UInt64 → σ)

/-- one step of a history on (current context, stack of clones); emits the bytes the call wrote -/
def step (m : Methods σ) (st : Ctx σ × List (Ctx σ)) (op : Op) : Except String ((Ctx σ × List (Ctx σ)) × List Bytes) :=
  match op with
  | .process data =>
    match process m.gen st.1 data data.length with
    | .ok (c, out) => .ok ((c, st.2), [out])
    | .error e => .error e
  | .processBad data n =>
    match process m.gen st.1 data n with
    | .ok (c, out) => .ok ((c, st.2), [out])
    | .error e => .error e
  | .processMut data =>
    match process_mut m.gen st.1 data with
    | .ok (c, out) => .ok ((c, st.2), [out])
    | .error e => .error e
  | .seek n =>
    match m.seek with
    | some f => .ok ((seek f st.1 n, st.2), [])
    | none => .error "bad-args"
  | .setCounter64 n =>
    match m.setCounter64 with
    | some f => .ok ((seek f st.1 n, st.2), [])
    | none => .error "bad-args"
  | .clone => .ok ((st.1, st.1 :: st.2), [])
  | .swap =>
    match st.2 with
    | t :: rest => .ok ((t, st.1 :: rest), [])
    | [] => .error "bad-args"

def run (m : Methods σ) (st : Ctx σ × List (Ctx σ)) : List Op → Except String ((Ctx σ × List (Ctx σ)) × List Bytes)
  | [] => .ok (st, [])
  | op :: ops =>
    match step m st op with
    | .error e => .error e
    | .ok (st', o) =>
      match run m st' ops with
      | .error e => .error e
      | .ok (st'', os) => .ok (st'', o ++ os)

end StreamCtx
end Cx.Impl
