/-
  Impl.Scalar32 — model of /repo/src/curve25519/scalar/scalar32.rs: `Scalar([u8; 32])`, the 32-bit backend of the
  arithmetic modulo the Ed25519 group order (ref10 `sc_reduce` / `sc_muladd` on 21-bit signed limbs in i64).
  One definition per Rust function, same statement order.

  Modelling (DESIGN 2.1): a scalar is its 32 bytes (`Vector UInt8 32`); the i64 limbs are `Int`.  Every Rust
  `+ - *` on i64 is CHECKED (`add64`, `sub64`, `mul64`: `none` = overflow panic of a checked build); `s_i += s_j * c`
  is a checked product followed by a checked sum (`mac`, `msc`).  `x << k` wraps (`shl64`), `x >> k` is the
  arithmetic shift = floor division, `2097151 & x` = `x % 2^21` (Euclidean: right for negative values too),
  `as u8` = low byte.  The loads are `u64` ORs of shifted bytes cast to i64 (values < 2^32).
  `check_s_lt_l` works on `u8`/`i32`: `((s[i] as i32 − L[i] as i32) >> 8) as u8` is 0xff/0x00, modelled on `Int`/`Nat`
  with the `as u8` cast written `% 256`.

  -- API:
  --   Cx.Impl.Scalar32.Scalar                 := Vector UInt8 32          (`Scalar([u8; 32])`)
  --   ZERO ONE : Scalar;  L : List UInt8        (re-extracted: Extracted.B32.SC_ZERO / SC_ONE / SC_L)
  --   from_bytes : Vector UInt8 32 → Scalar;  to_bytes : Scalar → Bytes
  --   check_s_lt_l : Vector UInt8 32 → Bool     (true = NOT below L: the Rust name is misleading, see below)
  --   check_with : List UInt8 → Vector UInt8 32 → Bool     the same loop against an arbitrary 32-byte constant
  --   from_bytes_canonical : Vector UInt8 32 → Option Scalar
  --   bits / nibbles : Scalar → List Int         (256 bits / 64 nibbles)
  --   reduce_from_wide_bytes : Vector UInt8 64 → Option Scalar           none = PANIC (never: theorem)
  --   muladd : Scalar → Scalar → Scalar → Option Scalar                  (a*b + c) mod L
  --   list wrappers: fromBytes, fromBytesCanonical, reduceFromWideBytes (none = wrong length)
-/
import CxVerif.Util.Bytes
import CxVerif.Impl.Fe32
import CxVerif.Extracted.B32
namespace Cx.Impl.Scalar32
open Cx
open Cx.Impl.Fe32 (ck64 add64 sub64 mul64 shl64 shr u8of u8or)

/-- `pub struct Scalar([u8; 32])` -/
abbrev Scalar := Vector UInt8 32

def toArr (n : Nat) (b : Bytes) : Option (Vector UInt8 n) :=
  if h : b.length = n then some ⟨b.toArray, by simpa using h⟩ else none

def ZERO : Scalar := (toArr 32 Extracted.B32.SC_ZERO).getD (Vector.replicate 32 0xff)   -- 0xff…: extraction failure, every theorem fails
def ONE : Scalar := (toArr 32 Extracted.B32.SC_ONE).getD (Vector.replicate 32 0xff)
/-- `const L: [u8; 32]` inside `from_bytes_canonical` -/
def L : List UInt8 := Extracted.B32.SC_L

/-- `pub const fn from_bytes(bytes: &[u8; 32]) -> Self { Scalar(*bytes) }` -/
def from_bytes (b : Vector UInt8 32) : Scalar := b
/-- `pub const fn to_bytes(&self) -> [u8; 32] { self.0 }` -/
def to_bytes (s : Scalar) : Bytes := s.toList

/-! ### canonical decoding -/

/-- one iteration of the loop of `check_s_lt_l` on bytes `s = s[i]`, `l = L[i]`, state `(c, n) : u8 × u8`:
    `c |= ((((s as i32) - (l as i32)) >> 8) as u8) & n;  n &= ((((s ^ l) as i32) - 1) >> 8) as u8;` -/
def checkStep (cn : Nat × Nat) (s l : UInt8) : Nat × Nat :=
  let c := cn.1
  let n := cn.2
  let lt : Nat := ((((s.toNat : Int) - (l.toNat : Int)) / 256) % 256).toNat       -- 0xff if s < l else 0
  let eq : Nat := (((((s ^^^ l).toNat : Int) - 1) / 256) % 256).toNat            -- 0xff if s = l else 0
  (c ||| (lt &&& n), n &&& eq)

/-- `fn check_s_lt_l(s: &[u8; 32]) -> bool` against a constant `l`: `i` runs from 31 down to 0; result `c == 0`.
    (`c == 0` means "no byte position decided s < l", i.e. s ≥ l: the function answers TRUE when s is NOT below l.) -/
def check_with (l : List UInt8) (s : Vector UInt8 32) : Bool :=
  let cn := (s.toList.reverse.zip l.reverse).foldl (fun cn p => checkStep cn p.1 p.2) (0, 1)
  cn.1 == 0

def check_s_lt_l (s : Vector UInt8 32) : Bool := check_with L s

/-- `pub fn from_bytes_canonical(bytes: &[u8; 32]) -> Option<Self>`:
    `if check_s_lt_l(bytes) { None } else { Some(Scalar::from_bytes(bytes)) }` -/
def from_bytes_canonical (b : Vector UInt8 32) : Option Scalar :=
  if check_s_lt_l b then none else some (from_bytes b)

/-- the constant as it was written before fix d43d00b: the bytes of L in BIG-endian order, compared with the
    little-endian `s` (witness theorem `original_constant_accepted_L`) -/
def L_bigendian : List UInt8 := L.reverse
def from_bytes_canonical_old (b : Vector UInt8 32) : Option Scalar :=
  if check_with L_bigendian b then none else some (from_bytes b)

/-! ### digits -/

/-- `pub(crate) fn bits(&self) -> [i8; 256]`: `r[i] = (1 & (a[i >> 3] >> (i & 7))) as i8` -/
def bits (s : Scalar) : List Int :=
  (List.range 256).map fun i => ((((1 : UInt8) &&& ((s.toList.getD (i >>> 3) 0) >>> (UInt8.ofNat (i &&& 7)))).toNat : Nat) : Int)

/-- `pub(crate) fn nibbles(&self) -> [i8; 64]`: `es[2i] = (a[i] >> 0) & 15`, `es[2i+1] = (a[i] >> 4) & 15` -/
def nibbles (s : Scalar) : List Int :=
  s.toList.flatMap fun a => [((((a >>> (0 : UInt8)) &&& (0b1111 : UInt8)).toNat : Nat) : Int), ((((a >>> (4 : UInt8)) &&& (0b1111 : UInt8)).toNat : Nat) : Int)]

/-! ### loads and the shared carry / multiply-accumulate statements -/

/-- `load_3i(&s[o..o+3])` -/
def load_3 {n : Nat} (s : Vector UInt8 n) (o : Nat) : Int :=
  ((((s.toList.getD o 0).toNat ||| ((s.toList.getD (o + 1) 0).toNat <<< 8) ||| ((s.toList.getD (o + 2) 0).toNat <<< 16)) : Nat) : Int)
/-- `load_4i(&s[o..o+4])` -/
def load_4 {n : Nat} (s : Vector UInt8 n) (o : Nat) : Int :=
  ((((s.toList.getD o 0).toNat ||| ((s.toList.getD (o + 1) 0).toNat <<< 8) ||| ((s.toList.getD (o + 2) 0).toNat <<< 16)
    ||| ((s.toList.getD (o + 3) 0).toNat <<< 24)) : Nat) : Int)

/-- `s_i += s_j * c;` -/
def mac (si sj c : Int) : Option Int := do
  let t ← mul64 sj c
  add64 si t
/-- `s_i -= s_j * c;` -/
def msc (si sj c : Int) : Option Int := do
  let t ← mul64 sj c
  sub64 si t

/-- `carry = (s + (1<<20)) >> 21; sn += carry; s -= carry << 21;` — returns `(s, sn)` -/
def carryR (s sn : Int) : Option (Int × Int) := do
  let t ← add64 s (2^20)
  let carry := shr t 21
  let sn ← add64 sn carry
  let s ← sub64 s (shl64 carry 21)
  pure (s, sn)

/-- `carry = s >> 21; sn += carry; s -= carry << 21;` — returns `(s, sn)` -/
def carryF (s sn : Int) : Option (Int × Int) := do
  let carry := shr s 21
  let sn ← add64 sn carry
  let s ← sub64 s (shl64 carry 21)
  pure (s, sn)

/-- `x + y + z + …` on i64 where the terms are themselves checked products: left to right, every step checked -/
def sum64o : List (Option Int) → Option Int
  | [] => some 0
  | x :: xs => xs.foldlM (fun acc y => y.bind (add64 acc)) =<< x

/-- the twelve 21-bit limbs after reduction (also used for the 24 input limbs: `S24`) -/
structure S12 where
  s0 : Int
  s1 : Int
  s2 : Int
  s3 : Int
  s4 : Int
  s5 : Int
  s6 : Int
  s7 : Int
  s8 : Int
  s9 : Int
  s10 : Int
  s11 : Int
  deriving DecidableEq, Repr

/-- the 32 output bytes of `reduce_from_wide_bytes` / `muladd` -/
def pack (t : S12) : Scalar :=
  #v[
    u8of (shr t.s0 0),
    u8of (shr t.s0 8),
    u8or (shr t.s0 16) (shl64 t.s1 5),
    u8of (shr t.s1 3),
    u8of (shr t.s1 11),
    u8or (shr t.s1 19) (shl64 t.s2 2),
    u8of (shr t.s2 6),
    u8or (shr t.s2 14) (shl64 t.s3 7),
    u8of (shr t.s3 1),
    u8of (shr t.s3 9),
    u8or (shr t.s3 17) (shl64 t.s4 4),
    u8of (shr t.s4 4),
    u8of (shr t.s4 12),
    u8or (shr t.s4 20) (shl64 t.s5 1),
    u8of (shr t.s5 7),
    u8or (shr t.s5 15) (shl64 t.s6 6),
    u8of (shr t.s6 2),
    u8of (shr t.s6 10),
    u8or (shr t.s6 18) (shl64 t.s7 3),
    u8of (shr t.s7 5),
    u8of (shr t.s7 13),
    u8of (shr t.s8 0),
    u8of (shr t.s8 8),
    u8or (shr t.s8 16) (shl64 t.s9 5),
    u8of (shr t.s9 3),
    u8of (shr t.s9 11),
    u8or (shr t.s9 19) (shl64 t.s10 2),
    u8of (shr t.s10 6),
    u8or (shr t.s10 14) (shl64 t.s11 7),
    u8of (shr t.s11 1),
    u8of (shr t.s11 9),
    u8of (shr t.s11 17) ]

/-! ### sc_reduce -/

set_option maxRecDepth 100000 in
/-- the body of `reduce_from_wide_bytes` after the loads: from `s11 += s23 * 666643;` to the last carry -/
def reduce_limbs (s0 s1 s2 s3 s4 s5 s6 s7 s8 s9 s10 s11 s12 s13 s14 s15 s16 s17 s18 s19 s20 s21 s22 s23 : Int) :
    Option S12 := do
  let s11 ← mac s11 s23 666643
  let s12 ← mac s12 s23 470296
  let s13 ← mac s13 s23 654183
  let s14 ← msc s14 s23 997805
  let s15 ← mac s15 s23 136657
  let s16 ← msc s16 s23 683901
  let s10 ← mac s10 s22 666643
  let s11 ← mac s11 s22 470296
  let s12 ← mac s12 s22 654183
  let s13 ← msc s13 s22 997805
  let s14 ← mac s14 s22 136657
  let s15 ← msc s15 s22 683901
  let s9 ← mac s9 s21 666643
  let s10 ← mac s10 s21 470296
  let s11 ← mac s11 s21 654183
  let s12 ← msc s12 s21 997805
  let s13 ← mac s13 s21 136657
  let s14 ← msc s14 s21 683901
  let s8 ← mac s8 s20 666643
  let s9 ← mac s9 s20 470296
  let s10 ← mac s10 s20 654183
  let s11 ← msc s11 s20 997805
  let s12 ← mac s12 s20 136657
  let s13 ← msc s13 s20 683901
  let s7 ← mac s7 s19 666643
  let s8 ← mac s8 s19 470296
  let s9 ← mac s9 s19 654183
  let s10 ← msc s10 s19 997805
  let s11 ← mac s11 s19 136657
  let s12 ← msc s12 s19 683901
  let s6 ← mac s6 s18 666643
  let s7 ← mac s7 s18 470296
  let s8 ← mac s8 s18 654183
  let s9 ← msc s9 s18 997805
  let s10 ← mac s10 s18 136657
  let s11 ← msc s11 s18 683901
  let (s6, s7) ← carryR s6 s7
  let (s8, s9) ← carryR s8 s9
  let (s10, s11) ← carryR s10 s11
  let (s12, s13) ← carryR s12 s13
  let (s14, s15) ← carryR s14 s15
  let (s16, s17) ← carryR s16 s17
  let (s7, s8) ← carryR s7 s8
  let (s9, s10) ← carryR s9 s10
  let (s11, s12) ← carryR s11 s12
  let (s13, s14) ← carryR s13 s14
  let (s15, s16) ← carryR s15 s16
  let s5 ← mac s5 s17 666643
  let s6 ← mac s6 s17 470296
  let s7 ← mac s7 s17 654183
  let s8 ← msc s8 s17 997805
  let s9 ← mac s9 s17 136657
  let s10 ← msc s10 s17 683901
  let s4 ← mac s4 s16 666643
  let s5 ← mac s5 s16 470296
  let s6 ← mac s6 s16 654183
  let s7 ← msc s7 s16 997805
  let s8 ← mac s8 s16 136657
  let s9 ← msc s9 s16 683901
  let s3 ← mac s3 s15 666643
  let s4 ← mac s4 s15 470296
  let s5 ← mac s5 s15 654183
  let s6 ← msc s6 s15 997805
  let s7 ← mac s7 s15 136657
  let s8 ← msc s8 s15 683901
  let s2 ← mac s2 s14 666643
  let s3 ← mac s3 s14 470296
  let s4 ← mac s4 s14 654183
  let s5 ← msc s5 s14 997805
  let s6 ← mac s6 s14 136657
  let s7 ← msc s7 s14 683901
  let s1 ← mac s1 s13 666643
  let s2 ← mac s2 s13 470296
  let s3 ← mac s3 s13 654183
  let s4 ← msc s4 s13 997805
  let s5 ← mac s5 s13 136657
  let s6 ← msc s6 s13 683901
  let s0 ← mac s0 s12 666643
  let s1 ← mac s1 s12 470296
  let s2 ← mac s2 s12 654183
  let s3 ← msc s3 s12 997805
  let s4 ← mac s4 s12 136657
  let s5 ← msc s5 s12 683901
  let s12 : Int := 0
  let (s0, s1) ← carryR s0 s1
  let (s2, s3) ← carryR s2 s3
  let (s4, s5) ← carryR s4 s5
  let (s6, s7) ← carryR s6 s7
  let (s8, s9) ← carryR s8 s9
  let (s10, s11) ← carryR s10 s11
  let (s1, s2) ← carryR s1 s2
  let (s3, s4) ← carryR s3 s4
  let (s5, s6) ← carryR s5 s6
  let (s7, s8) ← carryR s7 s8
  let (s9, s10) ← carryR s9 s10
  let (s11, s12) ← carryR s11 s12
  let s0 ← mac s0 s12 666643
  let s1 ← mac s1 s12 470296
  let s2 ← mac s2 s12 654183
  let s3 ← msc s3 s12 997805
  let s4 ← mac s4 s12 136657
  let s5 ← msc s5 s12 683901
  let s12 : Int := 0
  let (s0, s1) ← carryF s0 s1
  let (s1, s2) ← carryF s1 s2
  let (s2, s3) ← carryF s2 s3
  let (s3, s4) ← carryF s3 s4
  let (s4, s5) ← carryF s4 s5
  let (s5, s6) ← carryF s5 s6
  let (s6, s7) ← carryF s6 s7
  let (s7, s8) ← carryF s7 s8
  let (s8, s9) ← carryF s8 s9
  let (s9, s10) ← carryF s9 s10
  let (s10, s11) ← carryF s10 s11
  let (s11, s12) ← carryF s11 s12
  let s0 ← mac s0 s12 666643
  let s1 ← mac s1 s12 470296
  let s2 ← mac s2 s12 654183
  let s3 ← msc s3 s12 997805
  let s4 ← mac s4 s12 136657
  let s5 ← msc s5 s12 683901
  let (s0, s1) ← carryF s0 s1
  let (s1, s2) ← carryF s1 s2
  let (s2, s3) ← carryF s2 s3
  let (s3, s4) ← carryF s3 s4
  let (s4, s5) ← carryF s4 s5
  let (s5, s6) ← carryF s5 s6
  let (s6, s7) ← carryF s6 s7
  let (s7, s8) ← carryF s7 s8
  let (s8, s9) ← carryF s8 s9
  let (s9, s10) ← carryF s9 s10
  let (s10, s11) ← carryF s10 s11
  pure ⟨s0, s1, s2, s3, s4, s5, s6, s7, s8, s9, s10, s11⟩

/-- `pub fn reduce_from_wide_bytes(s: &[u8; 64]) -> Scalar` -/
def reduce_from_wide_bytes (s : Vector UInt8 64) : Option Scalar := do
  let s0 : Int := (load_3 s 0) % 2^21
  let s1 : Int := (shr (load_4 s 2) 5) % 2^21
  let s2 : Int := (shr (load_3 s 5) 2) % 2^21
  let s3 : Int := (shr (load_4 s 7) 7) % 2^21
  let s4 : Int := (shr (load_4 s 10) 4) % 2^21
  let s5 : Int := (shr (load_3 s 13) 1) % 2^21
  let s6 : Int := (shr (load_4 s 15) 6) % 2^21
  let s7 : Int := (shr (load_3 s 18) 3) % 2^21
  let s8 : Int := (load_3 s 21) % 2^21
  let s9 : Int := (shr (load_4 s 23) 5) % 2^21
  let s10 : Int := (shr (load_3 s 26) 2) % 2^21
  let s11 : Int := (shr (load_4 s 28) 7) % 2^21
  let s12 : Int := (shr (load_4 s 31) 4) % 2^21
  let s13 : Int := (shr (load_3 s 34) 1) % 2^21
  let s14 : Int := (shr (load_4 s 36) 6) % 2^21
  let s15 : Int := (shr (load_3 s 39) 3) % 2^21
  let s16 : Int := (load_3 s 42) % 2^21
  let s17 : Int := (shr (load_4 s 44) 5) % 2^21
  let s18 : Int := (shr (load_3 s 47) 2) % 2^21
  let s19 : Int := (shr (load_4 s 49) 7) % 2^21
  let s20 : Int := (shr (load_4 s 52) 4) % 2^21
  let s21 : Int := (shr (load_3 s 55) 1) % 2^21
  let s22 : Int := (shr (load_4 s 57) 6) % 2^21
  let s23 : Int := shr (load_4 s 60) 3
  let t ← reduce_limbs s0 s1 s2 s3 s4 s5 s6 s7 s8 s9 s10 s11 s12 s13 s14 s15 s16 s17 s18 s19 s20 s21 s22 s23
  pure (pack t)

/-! ### sc_muladd -/

set_option maxRecDepth 100000 in
/-- the body of `muladd` after the loads -/
def muladd_limbs (a0 a1 a2 a3 a4 a5 a6 a7 a8 a9 a10 a11 b0 b1 b2 b3 b4 b5 b6 b7 b8 b9 b10 b11
    c0 c1 c2 c3 c4 c5 c6 c7 c8 c9 c10 c11 : Int) : Option S12 := do
  let s0 ← sum64o [some c0, mul64 a0 b0]
  let s1 ← sum64o [some c1, mul64 a0 b1, mul64 a1 b0]
  let s2 ← sum64o [some c2, mul64 a0 b2, mul64 a1 b1, mul64 a2 b0]
  let s3 ← sum64o [some c3, mul64 a0 b3, mul64 a1 b2, mul64 a2 b1, mul64 a3 b0]
  let s4 ← sum64o [some c4, mul64 a0 b4, mul64 a1 b3, mul64 a2 b2, mul64 a3 b1, mul64 a4 b0]
  let s5 ← sum64o [some c5, mul64 a0 b5, mul64 a1 b4, mul64 a2 b3, mul64 a3 b2, mul64 a4 b1, mul64 a5 b0]
  let s6 ← sum64o [some c6, mul64 a0 b6, mul64 a1 b5, mul64 a2 b4, mul64 a3 b3, mul64 a4 b2, mul64 a5 b1, mul64 a6 b0]
  let s7 ← sum64o [some c7, mul64 a0 b7, mul64 a1 b6, mul64 a2 b5, mul64 a3 b4, mul64 a4 b3, mul64 a5 b2, mul64 a6 b1, mul64 a7 b0]
  let s8 ← sum64o [some c8, mul64 a0 b8, mul64 a1 b7, mul64 a2 b6, mul64 a3 b5, mul64 a4 b4, mul64 a5 b3, mul64 a6 b2, mul64 a7 b1, mul64 a8 b0]
  let s9 ← sum64o [some c9, mul64 a0 b9, mul64 a1 b8, mul64 a2 b7, mul64 a3 b6, mul64 a4 b5, mul64 a5 b4, mul64 a6 b3, mul64 a7 b2, mul64 a8 b1, mul64 a9 b0]
  let s10 ← sum64o [some c10, mul64 a0 b10, mul64 a1 b9, mul64 a2 b8, mul64 a3 b7, mul64 a4 b6, mul64 a5 b5, mul64 a6 b4, mul64 a7 b3, mul64 a8 b2, mul64 a9 b1, mul64 a10 b0]
  let s11 ← sum64o [some c11, mul64 a0 b11, mul64 a1 b10, mul64 a2 b9, mul64 a3 b8, mul64 a4 b7, mul64 a5 b6, mul64 a6 b5, mul64 a7 b4, mul64 a8 b3, mul64 a9 b2, mul64 a10 b1, mul64 a11 b0]
  let s12 ← sum64o [mul64 a1 b11, mul64 a2 b10, mul64 a3 b9, mul64 a4 b8, mul64 a5 b7, mul64 a6 b6, mul64 a7 b5, mul64 a8 b4, mul64 a9 b3, mul64 a10 b2, mul64 a11 b1]
  let s13 ← sum64o [mul64 a2 b11, mul64 a3 b10, mul64 a4 b9, mul64 a5 b8, mul64 a6 b7, mul64 a7 b6, mul64 a8 b5, mul64 a9 b4, mul64 a10 b3, mul64 a11 b2]
  let s14 ← sum64o [mul64 a3 b11, mul64 a4 b10, mul64 a5 b9, mul64 a6 b8, mul64 a7 b7, mul64 a8 b6, mul64 a9 b5, mul64 a10 b4, mul64 a11 b3]
  let s15 ← sum64o [mul64 a4 b11, mul64 a5 b10, mul64 a6 b9, mul64 a7 b8, mul64 a8 b7, mul64 a9 b6, mul64 a10 b5, mul64 a11 b4]
  let s16 ← sum64o [mul64 a5 b11, mul64 a6 b10, mul64 a7 b9, mul64 a8 b8, mul64 a9 b7, mul64 a10 b6, mul64 a11 b5]
  let s17 ← sum64o [mul64 a6 b11, mul64 a7 b10, mul64 a8 b9, mul64 a9 b8, mul64 a10 b7, mul64 a11 b6]
  let s18 ← sum64o [mul64 a7 b11, mul64 a8 b10, mul64 a9 b9, mul64 a10 b8, mul64 a11 b7]
  let s19 ← sum64o [mul64 a8 b11, mul64 a9 b10, mul64 a10 b9, mul64 a11 b8]
  let s20 ← sum64o [mul64 a9 b11, mul64 a10 b10, mul64 a11 b9]
  let s21 ← sum64o [mul64 a10 b11, mul64 a11 b10]
  let s22 ← sum64o [mul64 a11 b11]
  let s23 : Int := 0
  let (s0, s1) ← carryR s0 s1
  let (s2, s3) ← carryR s2 s3
  let (s4, s5) ← carryR s4 s5
  let (s6, s7) ← carryR s6 s7
  let (s8, s9) ← carryR s8 s9
  let (s10, s11) ← carryR s10 s11
  let (s12, s13) ← carryR s12 s13
  let (s14, s15) ← carryR s14 s15
  let (s16, s17) ← carryR s16 s17
  let (s18, s19) ← carryR s18 s19
  let (s20, s21) ← carryR s20 s21
  let (s22, s23) ← carryR s22 s23
  let (s1, s2) ← carryR s1 s2
  let (s3, s4) ← carryR s3 s4
  let (s5, s6) ← carryR s5 s6
  let (s7, s8) ← carryR s7 s8
  let (s9, s10) ← carryR s9 s10
  let (s11, s12) ← carryR s11 s12
  let (s13, s14) ← carryR s13 s14
  let (s15, s16) ← carryR s15 s16
  let (s17, s18) ← carryR s17 s18
  let (s19, s20) ← carryR s19 s20
  let (s21, s22) ← carryR s21 s22
  let s11 ← mac s11 s23 666643
  let s12 ← mac s12 s23 470296
  let s13 ← mac s13 s23 654183
  let s14 ← msc s14 s23 997805
  let s15 ← mac s15 s23 136657
  let s16 ← msc s16 s23 683901
  let s10 ← mac s10 s22 666643
  let s11 ← mac s11 s22 470296
  let s12 ← mac s12 s22 654183
  let s13 ← msc s13 s22 997805
  let s14 ← mac s14 s22 136657
  let s15 ← msc s15 s22 683901
  let s9 ← mac s9 s21 666643
  let s10 ← mac s10 s21 470296
  let s11 ← mac s11 s21 654183
  let s12 ← msc s12 s21 997805
  let s13 ← mac s13 s21 136657
  let s14 ← msc s14 s21 683901
  let s8 ← mac s8 s20 666643
  let s9 ← mac s9 s20 470296
  let s10 ← mac s10 s20 654183
  let s11 ← msc s11 s20 997805
  let s12 ← mac s12 s20 136657
  let s13 ← msc s13 s20 683901
  let s7 ← mac s7 s19 666643
  let s8 ← mac s8 s19 470296
  let s9 ← mac s9 s19 654183
  let s10 ← msc s10 s19 997805
  let s11 ← mac s11 s19 136657
  let s12 ← msc s12 s19 683901
  let s6 ← mac s6 s18 666643
  let s7 ← mac s7 s18 470296
  let s8 ← mac s8 s18 654183
  let s9 ← msc s9 s18 997805
  let s10 ← mac s10 s18 136657
  let s11 ← msc s11 s18 683901
  let (s6, s7) ← carryR s6 s7
  let (s8, s9) ← carryR s8 s9
  let (s10, s11) ← carryR s10 s11
  let (s12, s13) ← carryR s12 s13
  let (s14, s15) ← carryR s14 s15
  let (s16, s17) ← carryR s16 s17
  let (s7, s8) ← carryR s7 s8
  let (s9, s10) ← carryR s9 s10
  let (s11, s12) ← carryR s11 s12
  let (s13, s14) ← carryR s13 s14
  let (s15, s16) ← carryR s15 s16
  let s5 ← mac s5 s17 666643
  let s6 ← mac s6 s17 470296
  let s7 ← mac s7 s17 654183
  let s8 ← msc s8 s17 997805
  let s9 ← mac s9 s17 136657
  let s10 ← msc s10 s17 683901
  let s4 ← mac s4 s16 666643
  let s5 ← mac s5 s16 470296
  let s6 ← mac s6 s16 654183
  let s7 ← msc s7 s16 997805
  let s8 ← mac s8 s16 136657
  let s9 ← msc s9 s16 683901
  let s3 ← mac s3 s15 666643
  let s4 ← mac s4 s15 470296
  let s5 ← mac s5 s15 654183
  let s6 ← msc s6 s15 997805
  let s7 ← mac s7 s15 136657
  let s8 ← msc s8 s15 683901
  let s2 ← mac s2 s14 666643
  let s3 ← mac s3 s14 470296
  let s4 ← mac s4 s14 654183
  let s5 ← msc s5 s14 997805
  let s6 ← mac s6 s14 136657
  let s7 ← msc s7 s14 683901
  let s1 ← mac s1 s13 666643
  let s2 ← mac s2 s13 470296
  let s3 ← mac s3 s13 654183
  let s4 ← msc s4 s13 997805
  let s5 ← mac s5 s13 136657
  let s6 ← msc s6 s13 683901
  let s0 ← mac s0 s12 666643
  let s1 ← mac s1 s12 470296
  let s2 ← mac s2 s12 654183
  let s3 ← msc s3 s12 997805
  let s4 ← mac s4 s12 136657
  let s5 ← msc s5 s12 683901
  let s12 : Int := 0
  let (s0, s1) ← carryR s0 s1
  let (s2, s3) ← carryR s2 s3
  let (s4, s5) ← carryR s4 s5
  let (s6, s7) ← carryR s6 s7
  let (s8, s9) ← carryR s8 s9
  let (s10, s11) ← carryR s10 s11
  let (s1, s2) ← carryR s1 s2
  let (s3, s4) ← carryR s3 s4
  let (s5, s6) ← carryR s5 s6
  let (s7, s8) ← carryR s7 s8
  let (s9, s10) ← carryR s9 s10
  let (s11, s12) ← carryR s11 s12
  let s0 ← mac s0 s12 666643
  let s1 ← mac s1 s12 470296
  let s2 ← mac s2 s12 654183
  let s3 ← msc s3 s12 997805
  let s4 ← mac s4 s12 136657
  let s5 ← msc s5 s12 683901
  let s12 : Int := 0
  let (s0, s1) ← carryF s0 s1
  let (s1, s2) ← carryF s1 s2
  let (s2, s3) ← carryF s2 s3
  let (s3, s4) ← carryF s3 s4
  let (s4, s5) ← carryF s4 s5
  let (s5, s6) ← carryF s5 s6
  let (s6, s7) ← carryF s6 s7
  let (s7, s8) ← carryF s7 s8
  let (s8, s9) ← carryF s8 s9
  let (s9, s10) ← carryF s9 s10
  let (s10, s11) ← carryF s10 s11
  let (s11, s12) ← carryF s11 s12
  let s0 ← mac s0 s12 666643
  let s1 ← mac s1 s12 470296
  let s2 ← mac s2 s12 654183
  let s3 ← msc s3 s12 997805
  let s4 ← mac s4 s12 136657
  let s5 ← msc s5 s12 683901
  let (s0, s1) ← carryF s0 s1
  let (s1, s2) ← carryF s1 s2
  let (s2, s3) ← carryF s2 s3
  let (s3, s4) ← carryF s3 s4
  let (s4, s5) ← carryF s4 s5
  let (s5, s6) ← carryF s5 s6
  let (s6, s7) ← carryF s6 s7
  let (s7, s8) ← carryF s7 s8
  let (s8, s9) ← carryF s8 s9
  let (s9, s10) ← carryF s9 s10
  let (s10, s11) ← carryF s10 s11
  pure ⟨s0, s1, s2, s3, s4, s5, s6, s7, s8, s9, s10, s11⟩

/-- `pub(crate) fn muladd(a, b, c) -> Scalar` -/
def muladd (a b c : Scalar) : Option Scalar := do
  let a0 : Int := (load_3 a 0) % 2^21
  let a1 : Int := (shr (load_4 a 2) 5) % 2^21
  let a2 : Int := (shr (load_3 a 5) 2) % 2^21
  let a3 : Int := (shr (load_4 a 7) 7) % 2^21
  let a4 : Int := (shr (load_4 a 10) 4) % 2^21
  let a5 : Int := (shr (load_3 a 13) 1) % 2^21
  let a6 : Int := (shr (load_4 a 15) 6) % 2^21
  let a7 : Int := (shr (load_3 a 18) 3) % 2^21
  let a8 : Int := (load_3 a 21) % 2^21
  let a9 : Int := (shr (load_4 a 23) 5) % 2^21
  let a10 : Int := (shr (load_3 a 26) 2) % 2^21
  let a11 : Int := shr (load_4 a 28) 7
  let b0 : Int := (load_3 b 0) % 2^21
  let b1 : Int := (shr (load_4 b 2) 5) % 2^21
  let b2 : Int := (shr (load_3 b 5) 2) % 2^21
  let b3 : Int := (shr (load_4 b 7) 7) % 2^21
  let b4 : Int := (shr (load_4 b 10) 4) % 2^21
  let b5 : Int := (shr (load_3 b 13) 1) % 2^21
  let b6 : Int := (shr (load_4 b 15) 6) % 2^21
  let b7 : Int := (shr (load_3 b 18) 3) % 2^21
  let b8 : Int := (load_3 b 21) % 2^21
  let b9 : Int := (shr (load_4 b 23) 5) % 2^21
  let b10 : Int := (shr (load_3 b 26) 2) % 2^21
  let b11 : Int := shr (load_4 b 28) 7
  let c0 : Int := (load_3 c 0) % 2^21
  let c1 : Int := (shr (load_4 c 2) 5) % 2^21
  let c2 : Int := (shr (load_3 c 5) 2) % 2^21
  let c3 : Int := (shr (load_4 c 7) 7) % 2^21
  let c4 : Int := (shr (load_4 c 10) 4) % 2^21
  let c5 : Int := (shr (load_3 c 13) 1) % 2^21
  let c6 : Int := (shr (load_4 c 15) 6) % 2^21
  let c7 : Int := (shr (load_3 c 18) 3) % 2^21
  let c8 : Int := (load_3 c 21) % 2^21
  let c9 : Int := (shr (load_4 c 23) 5) % 2^21
  let c10 : Int := (shr (load_3 c 26) 2) % 2^21
  let c11 : Int := shr (load_4 c 28) 7
  let t ← muladd_limbs a0 a1 a2 a3 a4 a5 a6 a7 a8 a9 a10 a11 b0 b1 b2 b3 b4 b5 b6 b7 b8 b9 b10 b11
    c0 c1 c2 c3 c4 c5 c6 c7 c8 c9 c10 c11
  pure (pack t)

/-! ### list wrappers -/

def fromBytes (b : Bytes) : Option Scalar := (toArr 32 b).map from_bytes
def fromBytesCanonical (b : Bytes) : Option (Option Scalar) := (toArr 32 b).map from_bytes_canonical
def reduceFromWideBytes (b : Bytes) : Option (Option Scalar) := (toArr 64 b).map reduce_from_wide_bytes

end Cx.Impl.Scalar32
