/-
  Impl.Hmac — code-shaped model of /repo/src/hmac.rs: `derive_key`, `expand_key`, `create_keys`, `Hmac::new` and
  `impl Mac for Hmac<D>` (input / reset / result / raw_result / output_bytes), generic over the model
  `D : DigestModel δ` of the digest type parameter.  One `def` per Rust fn, same names; `none` = panic.
  Import-free.

  -- API:
  --   Cx.Impl.Hmac.Hmac δ                     { digest, i_key, o_key, finished }
  --   Cx.Impl.Hmac.Hmac.new D digest key      : Option (Hmac δ)
  --   Cx.Impl.Hmac.Hmac.input / reset / result / raw_result / output_bytes
  --   Cx.Impl.Hmac.hmacMac D                  : MacModel (Hmac δ)      (`impl Mac for Hmac<D>`)
  --   Cx.Impl.Hmac.oneShot D digest key msg   : Option Bytes           new; input msg; result
-/
import CxVerif.Util.Bytes
import CxVerif.Impl.Digest
namespace Cx.Impl.Hmac
open Cx Cx.Impl.Digest

/-- `pub struct Hmac<D> { digest: D, i_key: Vec<u8>, o_key: Vec<u8>, finished: bool }` -/
structure Hmac (δ : Type) where
  digest : δ
  i_key : Bytes
  o_key : Bytes
  finished : Bool

/-- the two masks of `create_keys` (extracted from src/hmac.rs) -/
def IPAD : UInt8 := UInt8.ofNat (Extracted.MacKdf.HMAC_PADS.getD 0 0)
def OPAD : UInt8 := UInt8.ofNat (Extracted.MacKdf.HMAC_PADS.getD 1 0)

/-- `fn derive_key(key: &mut [u8], mask: u8) { for elem in key.iter_mut() { *elem ^= mask; } }` -/
def derive_key (key : Bytes) (mask : UInt8) : Bytes := key.map (· ^^^ mask)

/-- `dst[0..src.len()].copy_from_slice(src)` for `src.len() ≤ dst.len()` (guarded by the callers) -/
def copy_prefix (dst src : Bytes) : Bytes := src ++ dst.drop src.length

section
variable {δ : Type} (D : DigestModel δ)

/-- `fn expand_key<D: Digest>(digest: &mut D, key: &[u8]) -> Vec<u8>` -/
def expand_key (digest : δ) (key : Bytes) : Option (δ × Bytes) :=
  let bs := D.block_size digest
  let expanded_key : Bytes := zeros bs
  if key.length ≤ bs then
    some (digest, copy_prefix expanded_key key)
  else
    let output_size := D.output_bytes digest
    match D.input digest key with
    | none => none
    | some digest =>
      -- `&mut expanded_key[..output_size]` panics when `output_size > bs`
      if ¬ output_size ≤ bs then none
      else match D.result digest output_size with
        | none => none
        | some (digest, out) =>
          match D.reset digest with
          | none => none
          | some digest => some (digest, copy_prefix expanded_key out)

/-- `fn create_keys<D: Digest>(digest: &mut D, key: &[u8]) -> (Vec<u8>, Vec<u8>)` -/
def create_keys (digest : δ) (key : Bytes) : Option (δ × Bytes × Bytes) :=
  match expand_key D digest key with
  | none => none
  | some (digest, i_key) =>
    let o_key := i_key
    some (digest, derive_key i_key IPAD, derive_key o_key OPAD)

/-- `pub fn new(mut digest: D, key: &[u8]) -> Hmac<D>` -/
def Hmac.new (digest : δ) (key : Bytes) : Option (Hmac δ) :=
  match create_keys D digest key with
  | none => none
  | some (digest, i_key, o_key) =>
    match D.input digest i_key with
    | none => none
    | some digest => some { digest := digest, i_key := i_key, o_key := o_key, finished := false }

/-- `fn input(&mut self, data: &[u8]) { assert!(!self.finished); self.digest.input(data); }` -/
def Hmac.input (self : Hmac δ) (data : Bytes) : Option (Hmac δ) :=
  if self.finished then none
  else match D.input self.digest data with
    | none => none
    | some d => some { self with digest := d }

/-- `fn reset(&mut self) { self.digest.reset(); self.digest.input(&self.i_key[..]); self.finished = false; }` -/
def Hmac.reset (self : Hmac δ) : Option (Hmac δ) :=
  match D.reset self.digest with
  | none => none
  | some d =>
    match D.input d self.i_key with
    | none => none
    | some d => some { self with digest := d, finished := false }

/-- `fn raw_result(&mut self, output: &mut [u8])`:
    `if !self.finished { self.digest.result(output); self.digest.reset(); self.digest.input(&self.o_key[..]);
                          self.digest.input(output); self.finished = true; }  self.digest.result(output);` -/
def Hmac.raw_result (self : Hmac δ) (outputLen : Nat) : Option (Hmac δ × Bytes) :=
  let step1 : Option (Hmac δ) :=
    if !self.finished then
      match D.result self.digest outputLen with
      | none => none
      | some (d, output) =>
        match D.reset d with
        | none => none
        | some d =>
          match D.input d self.o_key with
          | none => none
          | some d =>
            match D.input d output with
            | none => none
            | some d => some { self with digest := d, finished := true }
    else some self
  match step1 with
  | none => none
  | some self =>
    match D.result self.digest outputLen with
    | none => none
    | some (d, output) => some ({ self with digest := d }, output)

/-- `fn output_bytes(&self) -> usize { self.digest.output_bytes() }` -/
def Hmac.output_bytes (self : Hmac δ) : Nat := D.output_bytes self.digest

/-- `fn result(&mut self) -> MacResult`: a vector of `output_bytes()` zeros, `raw_result(&mut code)` -/
def Hmac.result (self : Hmac δ) : Option (Hmac δ × Bytes) :=
  let output_size := D.output_bytes self.digest
  Hmac.raw_result D self output_size

/-- `impl<D: Digest> Mac for Hmac<D>` -/
def hmacMac : MacModel (Hmac δ) :=
  { input := Hmac.input D, reset := Hmac.reset D, result := Hmac.result D, raw_result := Hmac.raw_result D,
    output_bytes := Hmac.output_bytes D }

/-- `let mut h = Hmac::new(digest, key); h.input(msg); h.result().code()` -/
def oneShot (digest : δ) (key msg : Bytes) : Option Bytes :=
  match Hmac.new D digest key with
  | none => none
  | some h =>
    match Hmac.input D h msg with
    | none => none
    | some h => (Hmac.result D h).map (·.2)

end
end Cx.Impl.Hmac
