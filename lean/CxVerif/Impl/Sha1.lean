/-
  Impl.Sha1 — code-shaped model of /repo/src/hashing/sha1.rs, of the part of /repo/src/simd.rs it uses (`u32x4`,
  lane-wise `+` and `^`) and of `FixedBuffer<64>` from /repo/src/cryptoutil.rs.
  One `def` per Rust fn, same names.  `Option` = the Rust code would panic (`none`) — never a default value.

  Modelling notes
  * `FixedBuffer<64>` is the generic model `Cx.Impl.FixedBuffer` (Impl/FixedBuffer.lean, unit sha2) with `N = 64`:
    the full 64-byte array with its stale contents and `buffer_idx`; every slice/assert panic is a `none`.
    The closures given to `input` / `standard_padding` are state transformers on the captured `h`.
  * `processed_bytes : u64`, `+=` is modelled wrapping (release profile).  In overflow-checked builds the same `+=`
    panics once more than 2^64−1 bytes have been fed; below that bound the two agree, and every theorem carries
    the standard's own guard `len < 2^61`.
  * `Hash` (five `u32`) is the record type of `Spec.Sha1`, shared as a plain data type only.

  -- API:
  --   Cx.Impl.Sha1.sha1        : Bytes → Option Bytes     `cryptoxide::hashing::sha1` (= new().update(m).finalize())
  --   Cx.Impl.Sha1.Context     with new / update / update_mut / finalize / reset / finalize_reset
  --   Cx.Impl.Sha1.fam         : Cx.HashProg.Family Context   (the `hctx.sha1` machine)
  --   Cx.Impl.Sha1.digest_block_u32 : Hash → List UInt32 → Option Hash
-/
import CxVerif.Util.Bytes
import CxVerif.Spec.Sha1
import CxVerif.Extracted.Sha1Ripemd
import CxVerif.Impl.FixedBuffer
import CxVerif.Impl.HashProg

namespace Cx.Impl.Sha1
open Cx Cx.Impl
open Cx.Spec.Sha1 (Hash)

/-- `simd::u32x4` (the portable "fake" module) -/
structure u32x4 where
  x0 : UInt32
  x1 : UInt32
  x2 : UInt32
  x3 : UInt32
deriving DecidableEq, Repr

instance : Add u32x4 := ⟨fun a b => ⟨a.x0 + b.x0, a.x1 + b.x1, a.x2 + b.x2, a.x3 + b.x3⟩⟩
instance : XorOp u32x4 := ⟨fun a b => ⟨a.x0 ^^^ b.x0, a.x1 ^^^ b.x1, a.x2 ^^^ b.x2, a.x3 ^^^ b.x3⟩⟩

def rotate_left (x : UInt32) (n : Nat) : UInt32 := rotl32 x n

def K0 : UInt32 := Cx.Extracted.Sha1Ripemd.SHA1_K0
def K1 : UInt32 := Cx.Extracted.Sha1Ripemd.SHA1_K1
def K2 : UInt32 := Cx.Extracted.Sha1Ripemd.SHA1_K2
def K3 : UInt32 := Cx.Extracted.Sha1Ripemd.SHA1_K3

def sha1_first (w0 : u32x4) : UInt32 := w0.x0

def sha1_first_add (e : UInt32) (w0 : u32x4) : u32x4 := ⟨e + w0.x0, w0.x1, w0.x2, w0.x3⟩

def sha1msg1 (a b : u32x4) : u32x4 := a ^^^ (⟨a.x2, a.x3, b.x0, b.x1⟩ : u32x4)

def sha1msg2 (a b : u32x4) : u32x4 :=
  let w16 := rotate_left (a.x0 ^^^ b.x1) 1
  let w17 := rotate_left (a.x1 ^^^ b.x2) 1
  let w18 := rotate_left (a.x2 ^^^ b.x3) 1
  let w19 := rotate_left (a.x3 ^^^ w16) 1
  ⟨w16, w17, w18, w19⟩

/-- the `schedule!` macro of `digest_block_u32` (same text as `sha1_schedule_x4`) -/
def schedule (v0 v1 v2 v3 : u32x4) : u32x4 := sha1msg2 (sha1msg1 v0 v1 ^^^ v2) v3

/-- `pub fn sha1_schedule_x4` (same text as the `schedule!` macro; not called by the digest path) -/
def sha1_schedule_x4 (v0 v1 v2 v3 : u32x4) : u32x4 := sha1msg2 (sha1msg1 v0 v1 ^^^ v2) v3

def sha1_first_half (abcd msg : u32x4) : u32x4 := sha1_first_add (rotate_left (sha1_first abcd) 30) msg

def bool3ary_202 (a b c : UInt32) : UInt32 := c ^^^ (a &&& (b ^^^ c))
def bool3ary_150 (a b c : UInt32) : UInt32 := a ^^^ b ^^^ c
def bool3ary_232 (a b c : UInt32) : UInt32 := (a &&& b) ^^^ (a &&& c) ^^^ (b &&& c)

/-- common text of `sha1rnds4c/p/m`, which differ only in the boolean function macro -/
def sha1rnds4 (fn : UInt32 → UInt32 → UInt32 → UInt32) (abcd msg : u32x4) : u32x4 :=
  let a := abcd.x0; let b := abcd.x1; let c := abcd.x2; let d := abcd.x3
  let t := msg.x0; let u := msg.x1; let v := msg.x2; let w := msg.x3
  let e : UInt32 := 0
  let e := e + rotate_left a 5 + fn b c d + t
  let b := rotate_left b 30
  let d := d + rotate_left e 5 + fn a b c + u
  let a := rotate_left a 30
  let c := c + rotate_left d 5 + fn e a b + v
  let e := rotate_left e 30
  let b := b + rotate_left c 5 + fn d e a + w
  let d := rotate_left d 30
  ⟨b, c, d, e⟩

def sha1rnds4c := sha1rnds4 bool3ary_202
def sha1rnds4p := sha1rnds4 bool3ary_150
def sha1rnds4m := sha1rnds4 bool3ary_232

/-- `_ => panic!("unknown icosaround index")` is the `none` -/
def sha1_digest_round_x4 (abcd work : u32x4) (i : Nat) : Option u32x4 :=
  match i with
  | 0 => some (sha1rnds4c abcd (work + ⟨K0, K0, K0, K0⟩))
  | 1 => some (sha1rnds4p abcd (work + ⟨K1, K1, K1, K1⟩))
  | 2 => some (sha1rnds4m abcd (work + ⟨K2, K2, K2, K2⟩))
  | 3 => some (sha1rnds4p abcd (work + ⟨K3, K3, K3, K3⟩))
  | _ => none

/-- the `rounds4!` macro of `digest_block_u32` -/
def rounds4 (h0 h1 wk : u32x4) (i : Nat) : Option u32x4 :=
  sha1_digest_round_x4 h0 (sha1_first_half h1 wk) i

/-- `digest_block_u32(state: &mut [u32; 5], block: &[u32; 16])`; `none` for a list that is not 16 words
    (not expressible in Rust) -/
def digest_block_u32 (state : Hash) (block : List UInt32) : Option Hash :=
  match block with
  | [b0, b1, b2, b3, b4, b5, b6, b7, b8, b9, b10, b11, b12, b13, b14, b15] => do
    -- Rounds 0..20
    let h0 : u32x4 := ⟨state.a, state.b, state.c, state.d⟩
    let w0 : u32x4 := ⟨b0, b1, b2, b3⟩
    let h1 ← sha1_digest_round_x4 h0 (sha1_first_add state.e w0) 0
    let w1 : u32x4 := ⟨b4, b5, b6, b7⟩
    let h0 ← rounds4 h1 h0 w1 0
    let w2 : u32x4 := ⟨b8, b9, b10, b11⟩
    let h1 ← rounds4 h0 h1 w2 0
    let w3 : u32x4 := ⟨b12, b13, b14, b15⟩
    let h0 ← rounds4 h1 h0 w3 0
    let w4 := schedule w0 w1 w2 w3
    let h1 ← rounds4 h0 h1 w4 0
    -- Rounds 20..40
    let w0 := schedule w1 w2 w3 w4
    let h0 ← rounds4 h1 h0 w0 1
    let w1 := schedule w2 w3 w4 w0
    let h1 ← rounds4 h0 h1 w1 1
    let w2 := schedule w3 w4 w0 w1
    let h0 ← rounds4 h1 h0 w2 1
    let w3 := schedule w4 w0 w1 w2
    let h1 ← rounds4 h0 h1 w3 1
    let w4 := schedule w0 w1 w2 w3
    let h0 ← rounds4 h1 h0 w4 1
    -- Rounds 40..60
    let w0 := schedule w1 w2 w3 w4
    let h1 ← rounds4 h0 h1 w0 2
    let w1 := schedule w2 w3 w4 w0
    let h0 ← rounds4 h1 h0 w1 2
    let w2 := schedule w3 w4 w0 w1
    let h1 ← rounds4 h0 h1 w2 2
    let w3 := schedule w4 w0 w1 w2
    let h0 ← rounds4 h1 h0 w3 2
    let w4 := schedule w0 w1 w2 w3
    let h1 ← rounds4 h0 h1 w4 2
    -- Rounds 60..80
    let w0 := schedule w1 w2 w3 w4
    let h0 ← rounds4 h1 h0 w0 3
    let w1 := schedule w2 w3 w4 w0
    let h1 ← rounds4 h0 h1 w1 3
    let w2 := schedule w3 w4 w0 w1
    let h0 ← rounds4 h1 h0 w2 3
    let w3 := schedule w4 w0 w1 w2
    let h1 ← rounds4 h0 h1 w3 3
    let w4 := schedule w0 w1 w2 w3
    let h0 ← rounds4 h1 h0 w4 3
    let e := rotate_left (sha1_first h1) 30
    some ⟨state.a + h0.x0, state.b + h0.x1, state.c + h0.x2, state.d + h0.x3, state.e + e⟩
  | _ => none

/-- `BLOCK_LEN * 4` -/
def BLOCK_BYTES : Nat := 64

/-- `digest_block`: `assert_eq!(block.len(), BLOCK_LEN * 4)`, `read_u32v_be`, `digest_block_u32` -/
def digest_block (state : Hash) (block : Bytes) : Option Hash :=
  if block.length = BLOCK_BYTES then digest_block_u32 state (wordsBE32 block) else none

/-- `for b in block.chunks(BLOCK_LEN * 4) { digest_block(state, b) }` -/
def digest_blocks_go (state : Hash) : List Bytes → Option Hash
  | [] => some state
  | b :: bs => match digest_block state b with
    | none => none
    | some st => digest_blocks_go st bs

def digest_blocks (state : Hash) (block : Bytes) : Option Hash := digest_blocks_go state (chunks BLOCK_BYTES block)

structure Context where
  h : Hash
  processed_bytes : UInt64
  buffer : FixedBuffer
deriving DecidableEq, Repr

def H : Hash :=
  match Cx.Extracted.Sha1Ripemd.SHA1_H with
  | [h0, h1, h2, h3, h4] => ⟨h0, h1, h2, h3, h4⟩
  | _ => ⟨0, 0, 0, 0, 0⟩   -- unreachable: `[u32; STATE_LEN]`; theorem `Proofs.Sha1.H_eq` pins the value

def write_u32_be (x : UInt32) : Bytes := u32be x

namespace Context

def new : Context := ⟨H, 0, FixedBuffer.new 64⟩

def update_mut (self : Context) (input : Bytes) : Option Context :=
  let processed_bytes := self.processed_bytes + UInt64.ofNat input.length
  match self.buffer.input 64 input digest_blocks self.h with
  | none => none
  | some (buffer, h) => some ⟨h, processed_bytes, buffer⟩

def update (self : Context) (input : Bytes) : Option Context := self.update_mut input

def reset (self : Context) : Context := ⟨H, 0, self.buffer.reset⟩

/-- `mk_result(st, rs)`: returns the mutated context and the 20 output bytes -/
def mk_result (st : Context) : Option (Context × Bytes) :=
  match st.buffer.standard_padding 64 8 digest_block st.h with
  | none => none
  | some (buffer, h) =>
    match buffer.next_write 8 (u64be (st.processed_bytes <<< 3)) with
    | none => none
    | some buffer =>
      match buffer.full_buffer 64 with
      | none => none
      | some (buffer, blk) =>
        match digest_block h blk with
        | none => none
        | some h =>
          some (⟨h, st.processed_bytes, buffer⟩,
                write_u32_be h.a ++ write_u32_be h.b ++ write_u32_be h.c ++ write_u32_be h.d ++ write_u32_be h.e)

def finalize (self : Context) : Option Bytes := (mk_result self).map (·.2)

def finalize_reset (self : Context) : Option (Context × Bytes) :=
  match mk_result self with
  | none => none
  | some (st, out) => some (st.reset, out)

end Context

/-- `cryptoxide::hashing::sha1(input)` = `Sha1::new().update(input).finalize()` -/
def sha1 (input : Bytes) : Option Bytes :=
  match Context.new.update input with
  | none => none
  | some c => c.finalize

/-- the context family run by the `hctx.sha1` op -/
def fam : Cx.HashProg.Family Context :=
  ⟨Context.new, Context.update, Context.update_mut, Context.reset, Context.finalize_reset, Context.finalize⟩

end Cx.Impl.Sha1
