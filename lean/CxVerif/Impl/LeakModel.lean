/-
  Impl.LeakModel — a *source-shape* leakage semantics for C19, over the code-shaped models the functional theorems
  (C05, C12, C13, C15, C18) and the translator ties are about.

  `LeakM α` is a writer monad: a value and the list of OBSERVABLE EVENTS produced so far.  An event is emitted at

    * `branch b`     every `if` / `match` / `while` test / early `return` / `assert!` whose condition is DATA
                     (anything that is not a literal of the source), with the outcome;
    * `index i`      every array / slice access whose index is computed at run time (loop counters included);
    * `loopBound n`  every loop, once, with the number of iterations it is going to run;
    * `length n`     every call that hands a run-time-sized slice to a primitive whose own control flow depends on
                     that size only (slice bounds checks, `copy_from_slice`, a hash `update`).

  Nothing is emitted by arithmetic, shifts, bit operations, casts, comparisons whose result is only *used as a
  value* (`lt`, `ct_eq`, `(x & 1) != 0`), masks and the `Choice`-based selects (`maybe_set`, `maybe_swap_with`).
  The event list therefore determines the sequence of source-level basic blocks and of data addresses.

  STRAIGHT-LINE CHECKED ARITHMETIC (stated once, used everywhere below).  The limb arithmetic of the models
  (`Fe64.add/sub/mul/square/mul_small/to_packed/…`, `Scalar64.mul/add/barrett_reduce256/reduce256/…`,
  `Poly1305.blockArith/finishArith`, the `i8` operations of the recoding) is a fixed sequence of operations on
  machine words without any `if`, `match`, loop or computed index in the Rust source; the only conditional in the
  MODEL is the overflow check of a build with `overflow-checks` (`none` / `.error .overflow` = panic).  Such a
  function is embedded with `LO.lift` / `pure` and emits NO event.  The overflow checks are not events because
  they do not exist in the release binary; in a checked build they are never taken: a failed check aborts the
  computation (the trace is cut there), and the non-interference theorems of Props/C19/LeakReal.lean use the
  no-panic theorems of C05 / C12 / C13 to show that the trace is always the complete, secret-independent one.

  Every instrumented function `fL` below follows the Rust source and the model `f` side by side (the Rust text is
  quoted in the comments).  Proofs/LeakModel*.lean prove for each of them
    erasure           `(fL args).val = f args`            (it computes exactly the plain model)
    trace             `fL args` succeeded → `(fL args).tr = fT (public part of args)`
  and Props/C19/LeakReal.lean states the non-interference theorems.
-/
import CxVerif.Impl.ConstantTime
import CxVerif.Impl.Poly1305
import CxVerif.Impl.X25519
import CxVerif.Impl.Ed25519
namespace Cx.Impl.LeakModel
open Cx Cx.Impl.CT

/-! ## events, the leakage monad -/

inductive Event where
  | branch (taken : Bool)
  | index (i : Nat)
  | loopBound (n : Nat)
  | length (n : Nat)
  deriving DecidableEq, Repr

abbrev Trace := List Event

/-- value + events (a writer monad) -/
structure LeakM (α : Type) where
  val : α
  tr : Trace

instance : Monad LeakM where
  pure a := ⟨a, []⟩
  bind m f := ⟨(f m.val).val, m.tr ++ (f m.val).tr⟩

def emit (e : Event) : LeakM Unit := ⟨(), [e]⟩

/-- value-or-panic + events: a panic cuts the computation (and the trace) -/
structure LO (α : Type) where
  val : Option α
  tr : Trace

instance : Monad LO where
  pure a := ⟨some a, []⟩
  bind m f := match m.val with
    | none => ⟨none, m.tr⟩
    | some a => ⟨(f a).val, m.tr ++ (f a).tr⟩

namespace LO
/-- straight-line (checked) arithmetic: the value of the plain model, no event -/
def lift {α : Type} (x : Option α) : LO α := ⟨x, []⟩
def emit (e : Event) : LO Unit := ⟨some (), [e]⟩
/-- a writer computation that cannot panic -/
def ofLeakM {α : Type} (m : LeakM α) : LO α := ⟨some m.val, m.tr⟩
end LO

/-- a `for` loop over a list: the bound is emitted once, then the body runs for every element -/
def iterL {σ α : Type} (body : σ → α → LeakM σ) : List α → σ → LeakM σ
  | [], s => pure s
  | x :: xs, s => body s x >>= iterL body xs

def forL {σ α : Type} (xs : List α) (s : σ) (body : σ → α → LeakM σ) : LeakM σ :=
  emit (.loopBound xs.length) >>= fun _ => iterL body xs s

/-! ## (f) constant_time.rs, `MacResult ==` (mac.rs), `Tag ==` (chacha20poly1305.rs) -/

/-- `impl CtEqual for &[u8; N]`:
    `let mut acc = 0u64; for (x, y) in self.iter().zip(b.iter()) { acc |= (*x as u64) ^ (*y as u64); } acc.ct_zero()` -/
def array_u8_ct_eqL (a b : List UInt8) : LeakM Choice := do
  let acc ← forL (a.zip b) (0 : UInt64) (fun acc p => pure (acc ||| (p.1.toUInt64 ^^^ p.2.toUInt64)))
  pure (u64_ct_zero acc)

/-- `impl CtEqual for &[u8]`: `assert_eq!(self.len(), b.len());` then the same loop -/
def slice_u8_ct_eqL (a b : List UInt8) : LeakM (Option Choice) := do
  emit (.branch (decide (a.length = b.length)))          -- the assertion compares LENGTHS
  if a.length = b.length then do
    let c ← array_u8_ct_eqL a b
    pure (some c)
  else pure none

/-- `impl PartialEq for MacResult`:
    `if lhs.len() == rhs.len() { CtEqual::ct_eq(lhs, rhs).into() } else { false }`
    (`Choice → bool` is `self.0 == 1`: a comparison used as a value, no branch) -/
def macResultEqL (a b : List UInt8) : LeakM Bool := do
  emit (.branch (decide (a.length = b.length)))
  if a.length = b.length then do
    let c ← array_u8_ct_eqL a b
    pure c.isTrue
  else pure false

/-- `impl PartialEq for Tag { fn eq(&self, other) -> bool { self.ct_eq(other).is_true() } }` on `[u8; 16]` -/
def tagEqL (a b : List UInt8) : LeakM Bool := do
  let c ← array_u8_ct_eqL a b
  pure c.isTrue

/-- `ct_array64_maybe_swap_with`: three loops over the N limbs, masks only -/
def ct_array64_maybe_swap_withL (a b : List UInt64) (swap : Choice) : LeakM (List UInt64 × List UInt64) := do
  let mask := maskOf swap
  let tmp ← forL (a.zip b) ([] : List UInt64) (fun t p => pure (t ++ [(p.1 ^^^ p.2) &&& mask]))
  let a' ← forL (a.zip tmp) ([] : List UInt64) (fun t p => pure (t ++ [p.1 ^^^ p.2]))
  let b' ← forL (b.zip tmp) ([] : List UInt64) (fun t p => pure (t ++ [p.1 ^^^ p.2]))
  pure (a', b')

/-- `ct_array64_maybe_set`: two loops -/
def ct_array64_maybe_setL (a b : List UInt64) (swap : Choice) : LeakM (List UInt64) := do
  let mask := maskOf swap
  let tmp ← forL (a.zip b) ([] : List UInt64) (fun t p => pure (t ++ [(p.1 ^^^ p.2) &&& mask]))
  forL (a.zip tmp) ([] : List UInt64) (fun t p => pure (t ++ [p.1 ^^^ p.2]))

/-- NEGATIVE CONTROL (not in the crate): `memcmp`-style comparison with early exit -/
def earlyExitEqL : List UInt8 → List UInt8 → LeakM Bool
  | x :: xs, y :: ys => do
    emit (.branch (x == y))
    if x == y then earlyExitEqL xs ys else pure false
  | _, _ => pure true

/-! ## (c) poly1305.rs -/
section Poly
open Cx.Impl.Poly1305

/-- `fn block(&mut self, m: &[u8])`:
    `let hibit : u32 = if self.finalized { 0 } else { 1 << 24 };` is the only conditional of the source; the slices
    `m[0..4] … m[12..16]` have constant bounds and are checked against the LENGTH of `m`; the rest is straight-line
    checked u32/u64 arithmetic (`blockArith`, see the header). -/
def blockL (st : State) (m : Bytes) : LeakM (Except Panic State) := do
  emit (.branch (decide (m.length < 16)))                  -- bounds check of `m[12..16]`: the LENGTH of `m`
  if m.length < 16 then pure (.error .index) else do
  emit (.branch st.finalized)
  let hibit := if st.finalized then 0 else 1 <<< 24
  let b := blockArith st.r st.h (loadBlock m hibit)
  pure (if b.Ok then .ok { st with h := b.out } else .error .overflow)

/-- the second half of `finish`: carries, `h + -p`, the MASKED select
    `mask = (g4 >> 31).wrapping_sub(1); g &= mask; mask = !mask; h = (h & mask) | g`, `(h + pad) % 2^128` — no
    conditional in the source -/
def finishTailL (st : State) : LeakM (Except Panic State) := pure (finishTail st)

/-- `fn finish(&mut self)`:
    `if self.leftover > 0 { self.buffer[self.leftover] = 1; for i in self.leftover+1..16 { self.buffer[i] = 0; }
       self.finalized = true; let tmp = self.buffer; self.block(&tmp); }  self.finalized = true; …` -/
def finishL (v : Variant) (st : State) : LeakM (Except Panic State) := do
  emit (.branch (decide (st.leftover > 0)))
  if st.leftover > 0 then do
    emit (.index st.leftover)
    if st.leftover < 16 then do
      emit (.loopBound (16 - (st.leftover + 1)))
      let buf := padBuffer st.buffer st.leftover
      match ← blockL { st with buffer := buf, finalized := true } buf with
      | .error e => pure (.error e)
      | .ok st => finishTailL st
    else pure (.error .index)
  else
    match v with
    | .original => finishTailL st
    | .repaired => finishTailL { st with finalized := true }

/-- `for i in 0..want { self.buffer[self.leftover + i] = m[i]; }` -/
def copyIntoL : Bytes → Nat → Bytes → LeakM (Option Bytes)
  | buf, _, [] => pure (some buf)
  | buf, off, x :: xs => do
    emit (.index off)
    if off < buf.length then copyIntoL (buf.set off x) (off + 1) xs else pure none

/-- `while m.len() >= 16 { self.block(&m[0..16]); m = &m[16..]; }` -/
def blocksL : Nat → State → Bytes → LeakM (Except Panic (State × Bytes))
  | 0, st, m => pure (.ok (st, m))
  | fuel + 1, st, m => do
    emit (.branch (decide (m.length ≥ 16)))
    if m.length ≥ 16 then
      match ← blockL st (m.take 16) with
      | .error e => pure (.error e)
      | .ok st' => blocksL fuel st' (m.drop 16)
    else pure (.ok (st, m))

/-- the part of `input` after the `if self.leftover > 0 { … }`:
    the `while`, `self.buffer[..m.len()].copy_from_slice(&m[..]); self.leftover = m.len();` -/
def inputTailL (st : State) (m : Bytes) : LeakM (Except Panic State) := do
  match ← blocksL m.length st m with
  | .error e => pure (.error e)
  | .ok (st, m) =>
    emit (.length m.length)
    if m.length ≤ st.buffer.length then
      pure (.ok { st with buffer := m ++ st.buffer.drop m.length, leftover := m.length })
    else pure (.error .index)

/-- `fn input(&mut self, data: &[u8])` -/
def inputL (st : State) (data : Bytes) : LeakM (Except Panic State) := do
  emit (.branch st.finalized)                              -- assert!(!self.finalized)
  if st.finalized then pure (.error .assertion) else do
  emit (.branch (decide (st.leftover > 0)))
  if st.leftover > 0 then do
    if st.leftover > 16 then pure (.error .overflow) else do
    let want := min (16 - st.leftover) data.length
    emit (.loopBound want)
    match ← copyIntoL st.buffer st.leftover (data.take want) with
    | none => pure (.error .index)
    | some buf =>
      let m := data.drop want
      let st := { st with buffer := buf, leftover := st.leftover + want }
      emit (.branch (decide (st.leftover < 16)))           -- if self.leftover < 16 { return; }
      if st.leftover < 16 then pure (.ok st) else
      match ← blockL st st.buffer with
      | .error e => pure (.error e)
      | .ok st => inputTailL { st with leftover := 0 } m
  else inputTailL st data

/-- `fn raw_result(&mut self, output: &mut [u8])` -/
def raw_resultL (v : Variant) (st : State) (outlen : Nat) : LeakM (Except Panic (State × Bytes)) := do
  emit (.length outlen)                                    -- assert!(output.len() >= 16)
  if outlen < 16 then pure (.error .assertion) else do
  emit (.branch (!st.finalized))
  if !st.finalized then
    match ← finishL v st with
    | .error e => pure (.error e)
    | .ok st => pure (.ok (st, tagBytes st.h))
  else pure (.ok (st, tagBytes st.h))

/-- one `input` call per chunk -/
def inputsL : State → List Bytes → LeakM (Except Panic State)
  | st, [] => pure (.ok st)
  | st, c :: cs => do
    match ← inputL st c with
    | .error e => pure (.error e)
    | .ok st' => inputsL st' cs

/-- `Poly1305::new(key)` (constant slices of the 32-byte key, masks), one `input` per chunk, `raw_result` -/
def macL (v : Variant) (key : Bytes) (chunks : List Bytes) : LeakM (Except Panic Bytes) := do
  match ← inputsL (new key) chunks with
  | .error e => pure (.error e)
  | .ok st =>
    match ← raw_resultL v st 16 with
    | .error e => pure (.error e)
    | .ok (_, tag) => pure (.ok tag)

/-- NEGATIVE CONTROL (not in the crate): the final reduction of `finish` written with a branch
    `if h >= p { h -= p }` instead of the mask: leaks one bit of the accumulator -/
def finishTailBranchL (st : State) : LeakM (Except Panic State) := do
  let f := finishArith st.h st.pad
  emit (.branch (f.mask != 0))
  pure (finishTail st)

end Poly

end Cx.Impl.LeakModel
