/-
  Impl.LeakModel — a *source-shape* leakage semantics for C19, over the code-shaped models the functional theorems
  (C05, C12, C13, C15, C18) and the translator ties are about.

  `LeakM α` is a writer monad: a value and the list of OBSERVABLE EVENTS produced so far.  An event is emitted at

    * `branch b`     every `if` / `match` / `while` test / early `return` / `assert!` whose condition is DATA
                     (anything that is not a literal of the source), with the outcome;
    * `index i`      every array / slice access whose index is computed at run time (loop counters included);
    * `loopBound n`  every loop, once, with the number of iterations it is going to run;
    * `length n`     every call that hands a run-time-sized slice to a primitive whose own control flow depends on
                     that size only (slice bounds checks, `copy_from_slice`, a hash `update`).

  Nothing is emitted by arithmetic, shifts, bit operations, casts, comparisons whose result is only *used as a
  value* (`lt`, `ct_eq`, `(x & 1) != 0`), masks and the `Choice`-based selects (`maybe_set`, `maybe_swap_with`).
  The event list therefore determines the sequence of source-level basic blocks and of data addresses.

  STRAIGHT-LINE CHECKED ARITHMETIC (stated once, used everywhere below).  The limb arithmetic of the models
  (`Fe64.add/sub/mul/square/mul_small/to_packed/…`, `Scalar64.mul/add/barrett_reduce256/reduce256/…`,
  `Poly1305.blockArith/finishArith`, the `i8` operations of the recoding) is a fixed sequence of operations on
  machine words without any `if`, `match`, loop or computed index in the Rust source; the only conditional in the
  MODEL is the overflow check of a build with `overflow-checks` (`none` / `.error .overflow` = panic).  Such a
  function is embedded with `LO.lift` / `pure` and emits NO event.  The overflow checks are not events because
  they do not exist in the release binary; in a checked build they are never taken: a failed check aborts the
  computation (the trace is cut there), and the non-interference theorems of Props/C19/LeakReal.lean use the
  no-panic theorems of C05 / C12 / C13 to show that the trace is always the complete, secret-independent one.

  Every instrumented function `fL` below follows the Rust source and the model `f` side by side (the Rust text is
  quoted in the comments).  Proofs/LeakModel*.lean prove for each of them
    erasure           `(fL args).val = f args`            (it computes exactly the plain model)
    trace             `fL args` succeeded → `(fL args).tr = fT (public part of args)`
  and Props/C19/LeakReal.lean states the non-interference theorems.
-/
import CxVerif.Impl.ConstantTime
import CxVerif.Impl.Poly1305
import CxVerif.Impl.X25519
import CxVerif.Impl.Ed25519
namespace Cx.Impl.LeakModel
open Cx Cx.Impl.CT

/-! ## events, the leakage monad -/

inductive Event where
  | branch (taken : Bool)
  | index (i : Nat)
  | loopBound (n : Nat)
  | length (n : Nat)
  deriving DecidableEq, Repr

abbrev Trace := List Event

/-- value + events (a writer monad) -/
structure LeakM (α : Type) where
  val : α
  tr : Trace

/-- (a named definition, so that the kernel compares `f x` with its `do` body by unfolding `f`, never the `bind`s) -/
def LeakM.bind {α β : Type} (m : LeakM α) (f : α → LeakM β) : LeakM β := ⟨(f m.val).val, m.tr ++ (f m.val).tr⟩

instance : Monad LeakM where
  pure a := ⟨a, []⟩
  bind := LeakM.bind

def emit (e : Event) : LeakM Unit := ⟨(), [e]⟩

/-- value-or-panic + events: a panic cuts the computation (and the trace).
    The two components are read through `LO.val` / `LO.tr`, which — like `LO.bind` — are made irreducible below:
    elaborator and kernel then never evaluate a symbolic limb computation while comparing `(fL x).val` with something
    (the overflow checks of `Fe64.sub` compare against literals of 2^54 and make such an evaluation diverge). -/
structure LO (α : Type) where
  mk ::
  out : Option α
  evs : Trace

namespace LO
def val {α : Type} (m : LO α) : Option α := m.out
def tr {α : Type} (m : LO α) : Trace := m.evs

def bind {α β : Type} (m : LO α) (f : α → LO β) : LO β :=
  match m.out with
  | none => ⟨none, m.evs⟩
  | some a => ⟨(f a).out, m.evs ++ (f a).evs⟩

instance : Monad LO where
  pure a := ⟨some a, []⟩
  bind := LO.bind

/-- straight-line (checked) arithmetic: the value of the plain model, no event -/
def lift {α : Type} (x : Option α) : LO α := ⟨x, []⟩
def emit (e : Event) : LO Unit := ⟨some (), [e]⟩
/-- a writer computation that cannot panic -/
def ofLeakM {α : Type} (m : LeakM α) : LO α := ⟨some m.val, m.tr⟩

@[simp] theorem pure_val {α : Type} (a : α) : (pure a : LO α).val = some a := rfl
@[simp] theorem pure_tr {α : Type} (a : α) : (pure a : LO α).tr = [] := rfl
@[simp] theorem lift_val {α : Type} (x : Option α) : (lift x).val = x := rfl
@[simp] theorem lift_tr {α : Type} (x : Option α) : (lift x).tr = [] := rfl
@[simp] theorem emit_val (e : Event) : (emit e).val = some () := rfl
@[simp] theorem emit_tr (e : Event) : (emit e).tr = [e] := rfl
@[simp] theorem ofLeakM_val {α : Type} (m : LeakM α) : (ofLeakM m).val = some m.val := rfl
@[simp] theorem ofLeakM_tr {α : Type} (m : LeakM α) : (ofLeakM m).tr = m.tr := rfl

/-- erasure commutes with `bind` -/
theorem bind_val {α β : Type} (m : LO α) (f : α → LO β) :
    (m >>= f).val = m.val.bind (fun a => (f a).val) := by
  show (LO.bind m f).out = m.out.bind (fun a => (f a).out)
  unfold LO.bind
  cases m.out <;> rfl

theorem bind_val_some {α β : Type} (m : LO α) (f : α → LO β) (a : α) (h : m.val = some a) :
    (m >>= f).val = (f a).val := by
  rw [bind_val, h]; rfl

theorem bind_tr_some {α β : Type} (m : LO α) (f : α → LO β) (a : α) (h : m.val = some a) :
    (m >>= f).tr = m.tr ++ (f a).tr := by
  show (LO.bind m f).evs = m.evs ++ (f a).evs
  unfold LO.bind
  have h' : m.out = some a := h
  rw [h']

theorem bind_tr_none {α β : Type} (m : LO α) (f : α → LO β) (h : m.val = none) : (m >>= f).tr = m.tr := by
  show (LO.bind m f).evs = m.evs
  unfold LO.bind
  have h' : m.out = none := h
  rw [h']

attribute [irreducible] LO.val LO.tr LO.bind
end LO

/-- a `for` loop over a list: the bound is emitted once, then the body runs for every element -/
def iterL {σ α : Type} (body : σ → α → LeakM σ) : List α → σ → LeakM σ
  | [], s => pure s
  | x :: xs, s => body s x >>= iterL body xs

def forL {σ α : Type} (xs : List α) (s : σ) (body : σ → α → LeakM σ) : LeakM σ :=
  emit (.loopBound xs.length) >>= fun _ => iterL body xs s

/-! ## (f) constant_time.rs, `MacResult ==` (mac.rs), `Tag ==` (chacha20poly1305.rs) -/

/-- `impl CtEqual for &[u8; N]`:
    `let mut acc = 0u64; for (x, y) in self.iter().zip(b.iter()) { acc |= (*x as u64) ^ (*y as u64); } acc.ct_zero()` -/
def array_u8_ct_eqL (a b : List UInt8) : LeakM Choice := do
  let acc ← forL (a.zip b) (0 : UInt64) (fun acc p => pure (acc ||| (p.1.toUInt64 ^^^ p.2.toUInt64)))
  pure (u64_ct_zero acc)

/-- `impl CtEqual for &[u8]`: `assert_eq!(self.len(), b.len());` then the same loop -/
def slice_u8_ct_eqL (a b : List UInt8) : LeakM (Option Choice) := do
  emit (.branch (decide (a.length = b.length)))          -- the assertion compares LENGTHS
  if a.length = b.length then do
    let c ← array_u8_ct_eqL a b
    pure (some c)
  else pure none

/-- `impl PartialEq for MacResult`:
    `if lhs.len() == rhs.len() { CtEqual::ct_eq(lhs, rhs).into() } else { false }`
    (`Choice → bool` is `self.0 == 1`: a comparison used as a value, no branch) -/
def macResultEqL (a b : List UInt8) : LeakM Bool := do
  emit (.branch (decide (a.length = b.length)))
  if a.length = b.length then do
    let c ← array_u8_ct_eqL a b
    pure c.isTrue
  else pure false

/-- `impl PartialEq for Tag { fn eq(&self, other) -> bool { self.ct_eq(other).is_true() } }` on `[u8; 16]` -/
def tagEqL (a b : List UInt8) : LeakM Bool := do
  let c ← array_u8_ct_eqL a b
  pure c.isTrue

/-- `ct_array64_maybe_swap_with`: three loops over the N limbs, masks only -/
def ct_array64_maybe_swap_withL (a b : List UInt64) (swap : Choice) : LeakM (List UInt64 × List UInt64) := do
  let mask := maskOf swap
  let tmp ← forL (a.zip b) ([] : List UInt64) (fun t p => pure (t ++ [(p.1 ^^^ p.2) &&& mask]))
  let a' ← forL (a.zip tmp) ([] : List UInt64) (fun t p => pure (t ++ [p.1 ^^^ p.2]))
  let b' ← forL (b.zip tmp) ([] : List UInt64) (fun t p => pure (t ++ [p.1 ^^^ p.2]))
  pure (a', b')

/-- `ct_array64_maybe_set`: two loops -/
def ct_array64_maybe_setL (a b : List UInt64) (swap : Choice) : LeakM (List UInt64) := do
  let mask := maskOf swap
  let tmp ← forL (a.zip b) ([] : List UInt64) (fun t p => pure (t ++ [(p.1 ^^^ p.2) &&& mask]))
  forL (a.zip tmp) ([] : List UInt64) (fun t p => pure (t ++ [p.1 ^^^ p.2]))

/-- NEGATIVE CONTROL (not in the crate): `memcmp`-style comparison with early exit -/
def earlyExitEqL : List UInt8 → List UInt8 → LeakM Bool
  | x :: xs, y :: ys => do
    emit (.branch (x == y))
    if x == y then earlyExitEqL xs ys else pure false
  | _, _ => pure true

/-! ## (c) poly1305.rs -/
section Poly
open Cx.Impl.Poly1305

/-- `fn block(&mut self, m: &[u8])`:
    `let hibit : u32 = if self.finalized { 0 } else { 1 << 24 };` is the only conditional of the source; the slices
    `m[0..4] … m[12..16]` have constant bounds and are checked against the LENGTH of `m`; the rest is straight-line
    checked u32/u64 arithmetic (`blockArith`, see the header). -/
def blockL (st : State) (m : Bytes) : LeakM (Except Panic State) := do
  emit (.branch (decide (m.length < 16)))                  -- bounds check of `m[12..16]`: the LENGTH of `m`
  if m.length < 16 then pure (.error .index) else do
  emit (.branch st.finalized)
  let hibit := if st.finalized then 0 else 1 <<< 24
  let b := blockArith st.r st.h (loadBlock m hibit)
  pure (if b.Ok then .ok { st with h := b.out } else .error .overflow)

/-- the second half of `finish`: carries, `h + -p`, the MASKED select
    `mask = (g4 >> 31).wrapping_sub(1); g &= mask; mask = !mask; h = (h & mask) | g`, `(h + pad) % 2^128` — no
    conditional in the source -/
def finishTailL (st : State) : LeakM (Except Panic State) := pure (finishTail st)

/-- `fn finish(&mut self)`:
    `if self.leftover > 0 { self.buffer[self.leftover] = 1; for i in self.leftover+1..16 { self.buffer[i] = 0; }
       self.finalized = true; let tmp = self.buffer; self.block(&tmp); }  self.finalized = true; …` -/
def finishL (v : Variant) (st : State) : LeakM (Except Panic State) := do
  emit (.branch (decide (st.leftover > 0)))
  if st.leftover > 0 then do
    emit (.index st.leftover)
    if st.leftover < 16 then do
      emit (.loopBound (16 - (st.leftover + 1)))
      let buf := padBuffer st.buffer st.leftover
      match ← blockL { st with buffer := buf, finalized := true } buf with
      | .error e => pure (.error e)
      | .ok st => finishTailL st
    else pure (.error .index)
  else
    match v with
    | .original => finishTailL st
    | .repaired => finishTailL { st with finalized := true }

/-- `for i in 0..want { self.buffer[self.leftover + i] = m[i]; }` -/
def copyIntoL : Bytes → Nat → Bytes → LeakM (Option Bytes)
  | buf, _, [] => pure (some buf)
  | buf, off, x :: xs => do
    emit (.index off)
    if off < buf.length then copyIntoL (buf.set off x) (off + 1) xs else pure none

/-- `while m.len() >= 16 { self.block(&m[0..16]); m = &m[16..]; }` -/
def blocksL : Nat → State → Bytes → LeakM (Except Panic (State × Bytes))
  | 0, st, m => pure (.ok (st, m))
  | fuel + 1, st, m => do
    emit (.branch (decide (m.length ≥ 16)))
    if m.length ≥ 16 then
      match ← blockL st (m.take 16) with
      | .error e => pure (.error e)
      | .ok st' => blocksL fuel st' (m.drop 16)
    else pure (.ok (st, m))

/-- the part of `input` after the `if self.leftover > 0 { … }`:
    the `while`, `self.buffer[..m.len()].copy_from_slice(&m[..]); self.leftover = m.len();` -/
def inputTailL (st : State) (m : Bytes) : LeakM (Except Panic State) := do
  match ← blocksL m.length st m with
  | .error e => pure (.error e)
  | .ok (st, m) =>
    emit (.length m.length)
    if m.length ≤ st.buffer.length then
      pure (.ok { st with buffer := m ++ st.buffer.drop m.length, leftover := m.length })
    else pure (.error .index)

/-- `fn input(&mut self, data: &[u8])` -/
def inputL (st : State) (data : Bytes) : LeakM (Except Panic State) := do
  emit (.branch st.finalized)                              -- assert!(!self.finalized)
  if st.finalized then pure (.error .assertion) else do
  emit (.branch (decide (st.leftover > 0)))
  if st.leftover > 0 then do
    if st.leftover > 16 then pure (.error .overflow) else do
    let want := min (16 - st.leftover) data.length
    emit (.loopBound want)
    match ← copyIntoL st.buffer st.leftover (data.take want) with
    | none => pure (.error .index)
    | some buf =>
      let m := data.drop want
      let st := { st with buffer := buf, leftover := st.leftover + want }
      emit (.branch (decide (st.leftover < 16)))           -- if self.leftover < 16 { return; }
      if st.leftover < 16 then pure (.ok st) else
      match ← blockL st st.buffer with
      | .error e => pure (.error e)
      | .ok st => inputTailL { st with leftover := 0 } m
  else inputTailL st data

/-- `fn raw_result(&mut self, output: &mut [u8])` -/
def raw_resultL (v : Variant) (st : State) (outlen : Nat) : LeakM (Except Panic (State × Bytes)) := do
  emit (.length outlen)                                    -- assert!(output.len() >= 16)
  if outlen < 16 then pure (.error .assertion) else do
  emit (.branch (!st.finalized))
  if !st.finalized then
    match ← finishL v st with
    | .error e => pure (.error e)
    | .ok st => pure (.ok (st, tagBytes st.h))
  else pure (.ok (st, tagBytes st.h))

/-- one `input` call per chunk -/
def inputsL : State → List Bytes → LeakM (Except Panic State)
  | st, [] => pure (.ok st)
  | st, c :: cs => do
    match ← inputL st c with
    | .error e => pure (.error e)
    | .ok st' => inputsL st' cs

/-- `Poly1305::new(key)` (constant slices of the 32-byte key, masks), one `input` per chunk, `raw_result` -/
def macL (v : Variant) (key : Bytes) (chunks : List Bytes) : LeakM (Except Panic Bytes) := do
  match ← inputsL (new key) chunks with
  | .error e => pure (.error e)
  | .ok st =>
    match ← raw_resultL v st 16 with
    | .error e => pure (.error e)
    | .ok (_, tag) => pure (.ok tag)

/-- NEGATIVE CONTROL (not in the crate): the final reduction of `finish` written with a branch
    `if h >= p { h -= p }` instead of the mask: leaks one bit of the accumulator -/
def finishTailBranchL (st : State) : LeakM (Except Panic State) := do
  let f := finishArith st.h st.pad
  emit (.branch (f.mask != 0))
  pure (finishTail st)

end Poly

/-! ## (a) curve25519/mod.rs: `curve25519`, `curve25519_base` (the X25519 ladder) on the 64-bit field backend -/
section X25519
open Cx.Impl.Fe64 Cx.Impl.X25519

/-- the iterations of `for _ in 0..n { <body of square> }` -/
def squareLoopL (f : Fe) : Nat → LO Fe
  | 0 => pure f
  | n + 1 => do
    let g ← LO.lift (square f)
    squareLoopL g n

/-- `pub fn square_repeatdly(&self, n: usize) -> Fe`: the bound is an argument -/
def square_repeatdlyL (f : Fe) (n : Nat) : LO Fe := do
  LO.emit (.loopBound n)
  squareLoopL f n

/-- the common prefix of `pow25523` and `invert` (fe/mod.rs): a fixed addition chain -/
def chain250L (z1 : Fe) : LO (Fe × Fe) := do
  let z2 ← LO.lift (square z1)
  let z8 ← square_repeatdlyL z2 2
  let z9 ← LO.lift (mul z1 z8)
  let z11 ← LO.lift (mul z2 z9)
  let z22 ← LO.lift (square z11)
  let z_5_0 ← LO.lift (mul z9 z22)
  let z_10_5 ← square_repeatdlyL z_5_0 5
  let z_10_0 ← LO.lift (mul z_10_5 z_5_0)
  let z_20_10 ← square_repeatdlyL z_10_0 10
  let z_20_0 ← LO.lift (mul z_20_10 z_10_0)
  let z_40_20 ← square_repeatdlyL z_20_0 20
  let z_40_0 ← LO.lift (mul z_40_20 z_20_0)
  let z_50_10 ← square_repeatdlyL z_40_0 10
  let z_50_0 ← LO.lift (mul z_50_10 z_10_0)
  let z_100_50 ← square_repeatdlyL z_50_0 50
  let z_100_0 ← LO.lift (mul z_100_50 z_50_0)
  let z_200_100 ← square_repeatdlyL z_100_0 100
  let z_200_0 ← LO.lift (mul z_200_100 z_100_0)
  let z_250_50 ← square_repeatdlyL z_200_0 50
  let z_250_0 ← LO.lift (mul z_250_50 z_50_0)
  pure (z11, z_250_0)

/-- `pub fn invert(&self) -> Fe` -/
def invertL (z : Fe) : LO Fe := do
  let r ← chain250L z
  let z_255_5 ← square_repeatdlyL r.2 5
  LO.lift (mul z_255_5 r.1)

/-- `pub fn pow25523(&self) -> Fe` -/
def pow25523L (z : Fe) : LO Fe := do
  let r ← chain250L z
  let z_252_2 ← square_repeatdlyL r.2 2
  LO.lift (mul z_252_2 z)

/-- `let b = ((e[pos / 8] >> (pos & 7)) & 1).ct_nonzero();` — the byte is read at the index `pos / 8` (loop
    counter); shift, mask and `ct_nonzero` are arithmetic -/
def bitChoiceL (e : Bytes) (he : e.length = 32) (pos : Nat) (hp : pos < 255) : LO Choice := do
  LO.emit (.index (pos / 8))
  pure (bitChoice e he pos hp)

/-- the 18 field operations of one ladder step, in source order; each is straight-line checked limb arithmetic -/
def ladderArithL (a24p1 : Nat) (z5k : Z5) (x2 z2 x3 z3 : Fe) : LO (Fe × Fe × Fe × Fe) := do
  let d ← LO.lift (sub x3 z3)
  let b ← LO.lift (sub x2 z2)
  let a ← LO.lift (add x2 z2)
  let c ← LO.lift (add x3 z3)
  let da ← LO.lift (mul d a)
  let cb ← LO.lift (mul c b)
  let bb ← LO.lift (square b)
  let aa ← LO.lift (square a)
  let t0 ← LO.lift (add da cb)
  let t1 ← LO.lift (sub da cb)
  let x4 ← LO.lift (mul aa bb)
  let e ← LO.lift (sub aa bb)
  let t2 ← LO.lift (square t1)
  let t3 ← LO.lift (mul_small e a24p1)
  let x5 ← LO.lift (square t0)
  let t4 ← LO.lift (add bb t3)
  let z5 ← LO.lift (z5Of z5k t2)          -- which of the two source texts (`&x1 * &t2` / `mul_small::<9>`): not a run-time test
  let z4 ← LO.lift (mul e t4)
  pure (x4, z4, x5, z5)

/-- the body of the loop after the bit: `x2.maybe_swap_with(&mut x3, swap ^ b); z2.maybe_swap_with(&mut z3, swap ^ b);
    swap = b;` (masked: no event, see `ct_array64_maybe_swap_withL`), then the arithmetic -/
def ladderStepCoreL (a24p1 : Nat) (z5k : Z5) (s : Ladder) (b : Choice) : LO Ladder := do
  let c := s.swap.xor b
  let x := maybe_swap_with s.x2 s.x3 c
  let z := maybe_swap_with s.z2 s.z3 c
  let r ← ladderArithL a24p1 z5k x.1 z.1 x.2 z.2
  pure ⟨r.1, r.2.1, r.2.2.1, r.2.2.2, b⟩

/-- the body of `for pos in (0usize..255).rev()` -/
def ladderStepL (e : Bytes) (he : e.length = 32) (a24p1 : Nat) (z5k : Z5) (s : Ladder) (pos : Nat) (hp : pos < 255) :
    LO Ladder := do
  let b ← bitChoiceL e he pos hp
  ladderStepCoreL a24p1 z5k s b

/-- the iterations `pos = k-1, …, 0` -/
def ladderLoopL (e : Bytes) (he : e.length = 32) (a24p1 : Nat) (z5k : Z5) : (k : Nat) → k ≤ 255 → Ladder → LO Ladder
  | 0, _, s => pure s
  | k + 1, hk, s => do
    let s' ← ladderStepL e he a24p1 z5k s k (by omega)
    ladderLoopL e he a24p1 z5k k (by omega) s'

/-- the statements shared by `curve25519` and `curve25519_base`: clamping (constant indices 0 and 31), the loop,
    the final masked swaps, `(&z2.invert() * &x2).to_bytes()` -/
def ladderMainL (n : Bytes) (hn : n.length = 32) (x1 : Fe) (a24p1 : Nat) (z5k : Z5) : LO Bytes := do
  let e := clampE n
  LO.emit (.loopBound 255)
  let s ← ladderLoopL e (by rw [clampE_length]; exact hn) a24p1 z5k 255 (by omega)
    ⟨Fe.ONE, Fe.ZERO, x1, Fe.ONE, u64_ct_zero 1⟩
  let x2 := (maybe_swap_with s.x2 s.x3 s.swap).1
  let z2 := (maybe_swap_with s.z2 s.z3 s.swap).1
  let zi ← invertL z2
  let r ← LO.lift (mul zi x2)
  LO.lift (to_bytes r)

/-- `pub fn curve25519(n: &[u8; 32], p: &[u8; 32]) -> [u8; 32]` (`Fe::from_bytes`: constant offsets, masks) -/
def curve25519L (n p : Bytes) (hn : n.length = 32) (hp : p.length = 32) : LO Bytes :=
  let x1 := from_bytes p hp
  ladderMainL n hn x1 A24P1 (.mulX1 x1)

/-- `pub fn curve25519_base(n: &[u8; 32]) -> [u8; 32]` -/
def curve25519_baseL (n : Bytes) (hn : n.length = 32) : LO Bytes :=
  let x1 := from_bytes BASE BASE_length
  ladderMainL n hn x1 A24P1_BASE (.small NINE)

/-- NEGATIVE CONTROL (not in the crate): a ladder step that BRANCHES on the key bit instead of the masked swap -/
def ladderStepBranchL (e : Bytes) (he : e.length = 32) (a24p1 : Nat) (z5k : Z5) (s : Ladder) (pos : Nat)
    (hp : pos < 255) : LO Ladder := do
  let b ← bitChoiceL e he pos hp
  LO.emit (.branch (s.swap.xor b).isTrue)         -- `if swap ^ b { mem::swap(x2, x3); mem::swap(z2, z3) }`
  ladderStepCoreL a24p1 z5k s b

end X25519

/-! ## (b) Ed25519 key generation and signing: scalar/scalar64.rs, ge.rs, ed25519.rs -/
section Ed25519
open Cx.Impl.Fe64 Cx.Impl.Ge Cx.Impl.Ed25519
open Cx.Impl.Scalar64 (Scalar ckI8 shlI8)

/-- emit one `index` event per element -/
def emitIdx : List Nat → LO Unit
  | [] => pure ()
  | i :: is => do
    LO.emit (.index i)
    emitIdx is

/-- the indices touched by `Scalar::nibbles`: `for b in 0..4 { es[16*b + 0] = ((c[b] >> 0) & 0b1111) as i8; … }` —
    `c[b]` and `es[16*b + k]`, all functions of the loop counter -/
def nibbleIdx : List Nat := (List.range 4).flatMap fun b => b :: (List.range 16).map fun k => 16 * b + k

/-- `pub(crate) fn nibbles(&self) -> [i8; 64]`: the four saturated words (shifts / ors), then the loop; the DIGITS
    are computed by shifts and masks -/
def nibblesL (s : Scalar) : LO (Vector Int 64) := do
  LO.emit (.loopBound 4)
  emitIdx nibbleIdx
  pure (Scalar64.nibbles s)

/-- the body of `for esi in es[0..63].iter_mut() { *esi += carry; carry = *esi + 8; carry >>= 4; *esi -= carry << 4; }`
    (checked `i8` arithmetic, an iterator: no index, no branch) -/
def recodeLoopL : List Int → Int → LO (List Int × Int)
  | [], carry => pure ([], carry)
  | e :: es, carry => do
    let e1 ← LO.lift (ckI8 (e + carry))
    let c1 ← LO.lift (ckI8 (e1 + 8))
    let c2 := c1 / 16
    let e2 ← LO.lift (ckI8 (e1 - shlI8 c2 4))
    let r ← recodeLoopL es c2
    pure (e2 :: r.1, r.2)

/-- the signed radix-16 recoding inside `scalarmult_base`: the loop over `es[0..63]`, then `es[63] += carry` -/
def recodeL (es : List Int) : LO (List Int) := do
  LO.emit (.loopBound 63)
  let r ← recodeLoopL (es.take 63) 0
  let top ← LO.lift es[63]?
  let top ← LO.lift (ckI8 (top + r.2))
  pure (r.1 ++ [top])

/-- `GePrecomp::select(pos: usize, b: i8)`:
    `debug_assert!(b >= -8 && b <= 8)` (a build with debug assertions tests the SECRET digit: the event is emitted, a
    failed assertion is a panic); `bnegative`, `babs`: shifts, masks and one checked subtraction; the table ROW is
    `precomp::GE_BASE[pos]` with `pos` the comb position; ALL eight entries `[0] … [7]` are read (constant indices) and
    merged by `maybe_set` under the mask `babs.ct_eq(k+1)`; the conditional negation is a ninth `maybe_set` under
    `bnegative.ct_nonzero()` -/
def selectL (pos : Nat) (b : Int) : LO GePrecomp := do
  LO.emit (.branch (decide (b < -8 ∨ b > 8)))
  if b < -8 ∨ b > 8 then LO.lift none
  else do
    let bnegative := bnegativeOf b
    let babs ← LO.lift (babsOf b)
    LO.emit (.index pos)
    let row ← LO.lift GE_BASE[pos]?
    let babs8 := UInt8.ofNat babs
    let step (t : GePrecomp) (k : Nat) : LO GePrecomp := do
      let e ← LO.lift row[k]?
      pure (t.maybe_set e (CT.u8_ct_eq babs8 (UInt8.ofNat (k + 1))))
    let t := GePrecomp.ZERO
    let t ← step t 0
    let t ← step t 1
    let t ← step t 2
    let t ← step t 3
    let t ← step t 4
    let t ← step t 5
    let t ← step t 6
    let t ← step t 7
    let nxy ← LO.lift (neg t.xy2d)
    let minus_t : GePrecomp := ⟨t.y_minus_x, t.y_plus_x, nxy⟩
    pure (t.maybe_set minus_t (CT.u8_ct_nonzero (UInt8.ofNat bnegative)))

/-- `for j in 0..32 { let i = j * 2 + off; t = GePrecomp::select(j, es[i]); r = &h + &t; h = r.to_full(); }`
    (`&h + &t`, `to_full`: 7 + 4 field operations, straight-line) -/
def combLoopL (es : List Int) (off : Nat) : Nat → Nat → Ge → LO Ge
  | 0, _, h => pure h
  | n + 1, j, h => do
    LO.emit (.index (j * 2 + off))
    let e ← LO.lift es[j * 2 + off]?
    let t ← selectL j e
    let r ← LO.lift (h.add_precomp t)
    let h ← LO.lift r.to_full
    combLoopL es off n (j + 1) h

/-- `Ge::scalarmult_base(a: &Scalar) -> Ge` -/
def scalarmult_baseL (a : Scalar) : LO Ge := do
  let nib ← nibblesL a
  let es ← recodeL nib.toList
  LO.emit (.loopBound 32)
  let h ← combLoopL es 1 32 0 Ge.ZERO
  let h ← LO.lift h.double_partial
  let h ← LO.lift h.double
  let h ← LO.lift h.double
  let h ← LO.lift h.double_full
  LO.emit (.loopBound 32)
  combLoopL es 0 32 0 h

/-- `Ge::to_affine`: one inversion (the addition chain), two multiplications -/
def to_affineL (self : Ge) : LO GeAffine := do
  let recip ← invertL self.z
  let x ← LO.lift (mul self.x recip)
  let y ← LO.lift (mul self.y recip)
  pure ⟨x, y⟩

/-- `GeAffine::to_bytes`: `let mut bs = self.y.to_bytes(); bs[31] ^= (if self.x.is_negative() { 1 } else { 0 }) << 7;`
    — `is_negative` is `(self.to_packed()[0] & 1) != 0` (a value), but the `if … { 1 } else { 0 }` is a source-level
    BRANCH on it: the event is emitted.  Its condition is bit 255 of the RESULT (the sign of x in the encoding of a
    public point: the public key, or R of a signature), see Props/C19/LeakReal.lean. -/
def affine_to_bytesL (self : GeAffine) : LO Bytes := do
  let bs ← LO.lift (Fe64.to_bytes self.y)
  let n ← LO.lift (is_negative self.x)
  LO.emit (.branch n)
  pure (setSign bs n)

/-- `Ge::to_bytes` -/
def ge_to_bytesL (self : Ge) : LO Bytes := do
  let a ← to_affineL self
  affine_to_bytesL a

/-- `Sha512::new().update(a).finalize()`: the hash context is a PRIMITIVE of this model (an assumption, stated here):
    its control flow (buffering, number of compressions, padding) depends on the LENGTHS of the `update` arguments
    only, so one `length` event per argument stands for it.  Section (d) proves this for the buffering
    (`FixedBuffer::input`, the three regimes); padding / length field / compression loop are not instrumented. -/
def sha512_1L (a : Bytes) : LO Bytes := do
  LO.emit (.length a.length)
  LO.lift (sha512_1 a)

/-- `Sha512::new().update(a).update(b).finalize()` -/
def sha512_2L (a b : Bytes) : LO Bytes := do
  LO.emit (.length a.length)
  LO.emit (.length b.length)
  LO.lift (sha512_2 a b)

/-- `fn clamp_scalar(scalar: &mut [u8])`: constant indices 0 and 31 (bounds checks against the LENGTH), masks -/
def clamp_scalarL (scalar : Bytes) : LO Bytes := do
  LO.emit (.length scalar.length)
  LO.lift (clamp_scalar scalar)

/-- `fn extended_secret(private_key: &[u8; 32]) -> [u8; 64]` (the `if` of the model is the array TYPE) -/
def extended_secretL (private_key : Bytes) : LO Bytes :=
  if private_key.length = 32 then do
    let hash_output ← sha512_1L private_key
    clamp_scalarL hash_output
  else LO.lift none

/-- `pub fn extended_to_public(extended_secret: &[u8; 64]) -> [u8; 32]` (`Scalar::from_bytes`: constant offsets) -/
def extended_to_publicL (extended_secret : Bytes) : LO Bytes := do
  let s ← LO.lift (extended_scalar extended_secret)
  let a ← scalarmult_baseL s
  ge_to_bytesL a

/-- `pub fn keypair(secret_key: &[u8; 32]) -> ([u8; 64], [u8; 32])` (`copy_from_slice` on constant ranges) -/
def keypairL (secret_key : Bytes) : LO (Bytes × Bytes) := do
  let extended_secret ← extended_secretL secret_key
  let public_key ← extended_to_publicL extended_secret
  let output := secret_key ++ extended_secret.drop 32
  let output := output.take 32 ++ public_key
  pure (output, public_key)

/-- `fn signature_nonce(extended_secret: &[u8; 64], message: &[u8]) -> Scalar`: the hash of prefix ‖ M, then
    `Scalar::reduce_from_wide_bytes` = loads at constant offsets + `barrett_reduce256`, whose two conditional
    subtractions of the order are `reduce256`: `let mask = b.wrapping_sub(1); r[i] ^ (mask & (r[i] ^ t[i]))` — masks,
    no branch (straight-line checked u64/u128 arithmetic) -/
def signature_nonceL (extended_secret message : Bytes) : LO Scalar :=
  if extended_secret.length = 64 then do
    let hash_output ← sha512_2L (extended_secret.drop 32) message
    LO.lift (Scalar64.reduceFromWideBytes hash_output)
  else LO.lift none

/-- `scalar::muladd(a, b, c)`: `mul` (schoolbook 5×5 limbs + Barrett) then `add` (+ `reduce256`), straight-line -/
def muladdL (a b c : Scalar) : LO Scalar := do
  let m ← LO.lift (Scalar64.mul a b)
  let r ← LO.lift (Scalar64.add m c)
  pure r

/-- the statements shared by `signature` and `signature_extended` after `public_key`, `az` and `nonce` are known -/
def signature_tailL (message public_key az : Bytes) (nonce : Scalar) : LO Bytes := do
  let r ← scalarmult_baseL nonce
  let rb ← ge_to_bytesL r
  let signature := rb ++ public_key
  let hram ← sha512_2L signature message
  let hram ← LO.lift (Scalar64.reduceFromWideBytes hram)
  let a ← LO.lift (extended_scalar az)
  let s ← muladdL hram a nonce
  pure (signature.take 32 ++ Scalar64.to_bytes s)

/-- `pub fn signature(message: &[u8], keypair: &[u8; 64]) -> [u8; 64]` -/
def signatureL (message keypair : Bytes) : LO Bytes := do
  let private_key ← LO.lift (keypair_private keypair)
  let public_key ← LO.lift (keypair_public keypair)
  let az ← extended_secretL private_key
  let nonce ← signature_nonceL az message
  signature_tailL message public_key az nonce

/-- `pub fn signature_extended(message: &[u8], extended_secret: &[u8; 64]) -> [u8; 64]` -/
def signature_extendedL (message extended_secret : Bytes) : LO Bytes := do
  let public_key ← extended_to_publicL extended_secret
  let nonce ← signature_nonceL extended_secret message
  signature_tailL message public_key extended_secret nonce

/-! the one DECLASSIFIED bit: the outcome of `if x.is_negative() { 1 } else { 0 }` in `GeAffine::to_bytes`, as a
    function of the inputs (by `setSign` it is bit 255 of the encoding that is output: the public key resp. R) -/

/-- bit 255 of a 32-byte encoding (bit 7 of byte 31) -/
def topBit (b : Bytes) : Bool :=
  match (b[31]? : Option UInt8) with
  | some x => (x >>> 7) != 0
  | none => false

/-- sign of the affine x of a point (`false` when the model panics; then there is no trace to speak of) -/
def geSign (g : Ge) : Bool :=
  match g.to_affine with
  | some a => (is_negative a.x).getD false
  | none => false

/-- … of the public point of an extended secret -/
def pkSign (ext : Bytes) : Bool :=
  match extended_scalar ext with
  | some s => match Ge.scalarmult_base s with
    | some a => geSign a
    | none => false
  | none => false

/-- … of the public key of a seed -/
def keypairSign (seed : Bytes) : Bool :=
  match extended_secret seed with
  | some ext => pkSign ext
  | none => false

/-- … of the point R = [r]B of a signature -/
def nonceSign (nonce : Scalar) : Bool :=
  match Ge.scalarmult_base nonce with
  | some r => geSign r
  | none => false

def signatureSign (message keypair : Bytes) : Bool :=
  match keypair_private keypair with
  | some sk => match extended_secret sk with
    | some az => match signature_nonce az message with
      | some nonce => nonceSign nonce
      | none => false
    | none => false
  | none => false

/-- NEGATIVE CONTROL (not in the crate): table selection with an early-exit search
    `for k in 0..8 { if babs == k + 1 { return row[k] } }` -/
def selectEarlyExitL (row : List GePrecomp) (babs : Nat) : Nat → Nat → LO GePrecomp
  | 0, _ => pure GePrecomp.ZERO
  | n + 1, k => do
    LO.emit (.branch (babs == k + 1))
    if babs == k + 1 then do
      LO.emit (.index k)
      LO.lift row[k]?
    else selectEarlyExitL row babs n (k + 1)

/-! ### variable-time code on PUBLIC data (`verify`): the instrumentation sees its branches -/

/-- the first loop of `GePartial::double_scalarmult_vartime`:
    `for i in (0..256).rev() { if aslide[i] != 0 || bslide[i] != 0 { break; } }` -/
def topIndexL (aslide bslide : List Int) : Nat → LO (Option Nat)
  | 0 => pure none
  | n + 1 => do
    LO.emit (.index n)
    LO.emit (.branch (aslide[n]? != some 0 || bslide[n]? != some 0))
    if aslide[n]? != some 0 || bslide[n]? != some 0 then pure (some n) else topIndexL aslide bslide n

/-- one pass of the second loop:
    `if aslide[i] > 0 { t = &t.to_full() + &ai[(aslide[i] / 2) as usize] } else if aslide[i] < 0 { … - … }` and the
    same with `bslide[i]` / `BI` — branches and table indices on the sliding-window DIGITS -/
def dsmStepL (ai : List GeCached) (aslide bslide : List Int) (r : GePartial) (i : Nat) : LO GePartial := do
  let t ← LO.lift r.double_p1p1
  LO.emit (.index i)
  let ad ← LO.lift aslide[i]?
  LO.emit (.branch (decide (ad > 0)))
  let t ←
    if ad > 0 then do
      LO.emit (.index (Int.tdiv ad 2).toNat)
      let c ← LO.lift ai[(Int.tdiv ad 2).toNat]?
      let f ← LO.lift t.to_full
      LO.lift (f.add_cached c)
    else do
      LO.emit (.branch (decide (ad < 0)))
      if ad < 0 then do
        let nd ← LO.lift (ckI8 (-ad))
        LO.emit (.index (Int.tdiv nd 2).toNat)
        let c ← LO.lift ai[(Int.tdiv nd 2).toNat]?
        let f ← LO.lift t.to_full
        LO.lift (f.sub_cached c)
      else pure t
  let bd ← LO.lift bslide[i]?
  LO.emit (.branch (decide (bd > 0)))
  let t ←
    if bd > 0 then do
      LO.emit (.index (Int.tdiv bd 2).toNat)
      let c ← LO.lift BI[(Int.tdiv bd 2).toNat]?
      let f ← LO.lift t.to_full
      LO.lift (f.add_precomp c)
    else do
      LO.emit (.branch (decide (bd < 0)))
      if bd < 0 then do
        let nd ← LO.lift (ckI8 (-bd))
        LO.emit (.index (Int.tdiv nd 2).toNat)
        let c ← LO.lift BI[(Int.tdiv nd 2).toNat]?
        let f ← LO.lift t.to_full
        LO.lift (f.sub_precomp c)
      else pure t
  LO.lift t.to_partial

/-- the second loop: indices `n-1, …, 0` -/
def dsmLoopL (ai : List GeCached) (aslide bslide : List Int) : Nat → GePartial → LO GePartial
  | 0, r => pure r
  | n + 1, r => do
    let r ← dsmStepL ai aslide bslide r n
    dsmLoopL ai aslide bslide n r

/-- the two loops of `double_scalarmult_vartime` on given digit lists and odd-multiples table -/
def dsmMainL (ai : List GeCached) (aslide bslide : List Int) : LO GePartial := do
  match ← topIndexL aslide bslide 256 with
  | none => pure GePartial.ZERO
  | some i => do
    LO.emit (.loopBound (i + 1))
    dsmLoopL ai aslide bslide (i + 1) GePartial.ZERO

end Ed25519

end Cx.Impl.LeakModel
