/-
  Impl.Sha3 — code-shaped model of src/hashing/sha3.rs (sponge `Engine<DIGESTLEN, DSLEN>`, `keccak_f`),
  of the `sha3_impl!` / `keccak_impl!` contexts (src/hashing/sha3.rs, src/hashing/keccak.rs) and of the
  one-shot functions `sha3_224 … keccak512` of src/hashing/mod.rs.  Import-free (core Lean + Extracted tables).

  -- API:
  --   Cx.Impl.Sha3.sha3_224 sha3_256 sha3_384 sha3_512 keccak224 keccak256 keccak384 keccak512 : Bytes → Option Bytes
  --       (`none` = the Rust code panics; Props.C01.Sha3 proves it never does and the value is the Spec's)
  --   Cx.Impl.Sha3.hash (DIGESTLEN DSLEN : Nat) : Bytes → Option Bytes
  --   Cx.Impl.Sha3.Context.{new, update, update_mut, reset, finalize_reset, finalize}
  --   Cx.Impl.Sha3.rate (DIGESTLEN : Nat) : Option Nat      (Sha3_xxx::BLOCK_BYTES: 144, 136, 104, 72)
  --   digest sizes: 28, 32, 48, 64 (theorem `variants_table` ties them to the macro invocations)

  Conventions: one `def` per Rust fn with the Rust name; `&mut self` methods return the new engine;
  `Option.none` = panic (failed `assert!`, explicit `panic!`, slice index out of bounds, arithmetic overflow
  under overflow checks).  `usize` values are `Nat` (every place where the code subtracts or multiplies is guarded
  explicitly), the `i64` computation of `pad_len` is on `Int` with checked operations.
  The const generics `DIGESTLEN`, `DSLEN` are ordinary leading arguments.  The lane array `s : [u64; 25]` of
  `keccak_f` is an `Array UInt64` (checked `aidx`/`aupd`), byte buffers are `Bytes = List UInt8`.
  The tables RC / ROTC / PIL / M5 / B / NROUNDS are the extracted ones.
-/
import CxVerif.Util.Bytes
import CxVerif.Extracted.Sha3
namespace Cx.Impl.Sha3
open Cx
set_option linter.unusedVariables false
open Cx.Extracted.Sha3 (RC ROTC PIL M5 B NROUNDS)

/-- `a[i]` with the bounds check of Rust slices/arrays -/
def idx {α : Type} (a : List α) (i : Nat) : Option α := a[i]?

/-- `a[i] = v` with the bounds check -/
def upd {α : Type} (a : List α) (i : Nat) (v : α) : Option (List α) :=
  if i < a.length then some (a.set i v) else none

/-- `a[i]` / `a[i] = v` on the lane array `s : [u64; 25]` (an `Array`, so that the compiled model updates in place) -/
def aidx {α : Type} (a : Array α) (i : Nat) : Option α := a[i]?
def aupd {α : Type} (a : Array α) (i : Nat) (v : α) : Option (Array α) :=
  if h : i < a.size then some (a.set i v) else none

/-! ## keccak_f (Keccak-compact64 organisation)

  The Rust locals `c : [u64;5]` and `t : [u64;1]` live across the phases, but every phase writes each entry it
  reads before reading it, so they are modelled as locals of the phase. -/

/-- `// Theta` -/
def theta (s : Array UInt64) : Option (Array UInt64) := do
  -- for x in 0..5 { c[x] = s[x] ^ s[5 + x] ^ s[10 + x] ^ s[15 + x] ^ s[20 + x]; }
  let c ← (List.range 5).foldlM (fun c x => do
      upd c x ((← aidx s x) ^^^ (← aidx s (5 + x)) ^^^ (← aidx s (10 + x)) ^^^ (← aidx s (15 + x)) ^^^ (← aidx s (20 + x))))
    [0, 0, 0, 0, 0]
  -- for x in 0..5 { t[0] = c[M5[x + 4]] ^ c[M5[x + 1]].rotate_left(1); for y in 0..5 { s[y * 5 + x] ^= t[0]; } }
  (List.range 5).foldlM (fun s x => do
      let t := (← idx c (← idx M5 (x + 4))) ^^^ rotl64 (← idx c (← idx M5 (x + 1))) 1
      (List.range 5).foldlM (fun s y => do aupd s (y * 5 + x) ((← aidx s (y * 5 + x)) ^^^ t)) s) s

/-- `// Rho Pi`: t[0] = s[1]; for x in 0..24 { c[0] = s[PIL[x]]; s[PIL[x]] = t[0].rotate_left(ROTC[x]); t[0] = c[0]; } -/
def rho_pi (s : Array UInt64) : Option (Array UInt64) := do
  let t ← aidx s 1
  let r ← (List.range 24).foldlM (fun (st : Array UInt64 × UInt64) x =>
      match st with
      | (s, t) => do
        let p ← idx PIL x
        let c0 ← aidx s p
        let s' ← aupd s p (rotl64 t (← idx ROTC x))
        pure (s', c0)) (s, t)
  pure r.1

/-- `// Chi` -/
def chi (s : Array UInt64) : Option (Array UInt64) :=
  (List.range 5).foldlM (fun s y => do
      -- for x in 0..5 { c[x] = s[y * 5 + x]; }
      let c ← (List.range 5).foldlM (fun c x => do upd c x (← aidx s (y * 5 + x))) [0, 0, 0, 0, 0]
      -- for x in 0..5 { s[y * 5 + x] = c[x] ^ (!c[M5[x + 1]] & c[M5[x + 2]]); }
      (List.range 5).foldlM (fun s x => do
          aupd s (y * 5 + x) ((← idx c x) ^^^ ((~~~ (← idx c (← idx M5 (x + 1)))) &&& (← idx c (← idx M5 (x + 2)))))) s) s

/-- `// Iota`: s[0] ^= RC[round] -/
def iota (round : Nat) (s : Array UInt64) : Option (Array UInt64) := do
  aupd s 0 ((← aidx s 0) ^^^ (← idx RC round))

/-- body of `for round in 0..NROUNDS` -/
def round (s : Array UInt64) (rnd : Nat) : Option (Array UInt64) := do
  iota rnd (← chi (← rho_pi (← theta s)))

def keccak_f_lanes (s : Array UInt64) : Option (Array UInt64) := (List.range NROUNDS).foldlM round s

/-- cryptoutil::read_u64v_le(dst, input): `assert!(dst.len() * 8 == input.len())`, then little-endian words -/
def read_u64v_le (n : Nat) (input : Bytes) : Option (Array UInt64) :=
  if n * 8 = input.length then some ((List.range n).map fun i => leU64 ((input.drop (8 * i)).take 8)).toArray else none

/-- cryptoutil::write_u64v_le(dst, input): `assert!(dst.len() == 8 * input.len())` -/
def write_u64v_le (dstLen : Nat) (input : Array UInt64) : Option Bytes :=
  if dstLen = 8 * input.size then some (input.toList.flatMap u64le) else none

/-- `fn keccak_f(state: &mut [u8; B])` -/
def keccak_f (state : Bytes) : Option Bytes := do
  let s ← read_u64v_le 25 state
  let s ← keccak_f_lanes s
  write_u64v_le state.length s

/-! ## Engine -/

structure Engine where
  state : Bytes        -- [u8; B]
  can_absorb : Bool
  can_squeeze : Bool
  offset : Nat         -- usize
  deriving DecidableEq, Repr

/-- `fn rate(&self) -> usize { B - (DIGESTLEN * 2) }` (usize subtraction) -/
def rate (DIGESTLEN : Nat) : Option Nat := if DIGESTLEN * 2 ≤ B then some (B - DIGESTLEN * 2) else none

def Engine.new : Engine := { state := zeros B, can_absorb := true, can_squeeze := true, offset := 0 }

/-! ### machine integers used by `pad_len` -/

-- 2^63 = 9223372036854775808, 2^64 = 18446744073709551616 (written as literals: `(2^63 : Int)` does not reduce well)
def i64chk (v : Int) : Option Int := if -9223372036854775808 ≤ v ∧ v < 9223372036854775808 then some v else none
def usizechk (v : Nat) : Option Nat := if v < 18446744073709551616 then some v else none
/-- `x as i64` for a `usize` x (two's-complement reinterpretation, never panics) -/
def usize_as_i64 (x : Nat) : Int :=
  if x % 18446744073709551616 < 9223372036854775808 then ((x % 18446744073709551616 : Nat) : Int)
  else ((x % 18446744073709551616 : Nat) : Int) - 18446744073709551616
/-- `x as usize` for an `i64` x -/
def i64_as_usize (x : Int) : Nat := (x % 18446744073709551616).toNat
/-- `a % b` on i64: truncated remainder; panics for b = 0 and for MIN % -1 -/
def i64rem (a b : Int) : Option Int :=
  if b = 0 ∨ (a = -9223372036854775808 ∧ b = -1) then none else some (Int.tmod a b)

/-- `fn set_domain_sep(out_len: usize, buf: &mut [u8])` -/
def set_domain_sep (out_len : Nat) (buf : Bytes) : Option Bytes := do
  if buf.isEmpty then none        -- assert!(!buf.is_empty())
  else if out_len != 0 then
    let buf ← upd buf 0 ((← idx buf 0) &&& 0xfe)
    upd buf 0 ((← idx buf 0) ||| 0x2)
  else
    upd buf 0 ((← idx buf 0) ||| 0xf)

/-- `fn pad_len<const DSLEN: usize>(offset: usize, rate: usize) -> usize`, all parameters in bits -/
def pad_len (DSLEN : Nat) (offset rate : Nat) : Option Nat := do
  if ¬ (rate % 8 = 0 ∧ offset % 8 = 0) then none else   -- assert!(rate % 8 == 0 && offset % 8 == 0)
  let r : Int := usize_as_i64 rate
  let m : Int := usize_as_i64 (← usizechk (offset + DSLEN))
  -- let zeros = (((-m - 2) + 2 * r) % r) as usize;
  let t1 ← i64chk (-m)
  let t2 ← i64chk (t1 - 2)
  let t3 ← i64chk (2 * r)
  let t4 ← i64chk (t2 + t3)
  let t5 ← i64rem t4 r
  let zeros := i64_as_usize t5
  -- assert!((m as usize + zeros + 2) % 8 == 0);
  let a1 ← usizechk (i64_as_usize m + zeros)
  let a2 ← usizechk (a1 + 2)
  if a2 % 8 ≠ 0 then none else
  -- (DSLEN + zeros + 2) / 8
  let b1 ← usizechk (DSLEN + zeros)
  let b2 ← usizechk (b1 + 2)
  pure (b2 / 8)

/-- `for i in lo..8 { buf[s] &= !(1 << i); }` -/
def clear_bits (buf : Bytes) (s : Nat) (lo : Nat) : Option Bytes :=
  ((List.range 8).filter (fun i => lo ≤ i)).foldlM
    (fun buf i => do upd buf s ((← idx buf s) &&& ~~~ ((1 : UInt8) <<< UInt8.ofNat i))) buf

/-- `fn set_pad<const DSLEN: usize>(buf: &mut [u8])` -/
def set_pad (DSLEN : Nat) (buf : Bytes) : Option Bytes := do
  let offset := DSLEN
  let s := offset / 8
  let buflen := buf.length
  -- buf[s] |= 1 << (offset % 8);
  let buf ← upd buf s ((← idx buf s) ||| ((1 : UInt8) <<< UInt8.ofNat (offset % 8)))
  -- for i in (offset % 8) + 1..8 { buf[s] &= !(1 << i); }
  let buf ← clear_bits buf s (offset % 8 + 1)
  -- for b in buf[s + 1..].iter_mut() { *b = 0; }      (slice start must be ≤ len)
  if buf.length < s + 1 then none else
  let buf := buf.take (s + 1) ++ zeros (buf.length - (s + 1))
  -- buf[buflen - 1] |= 0x80;
  if buflen = 0 then none else
  upd buf (buflen - 1) ((← idx buf (buflen - 1)) ||| 0x80)

/-- `for i in 0..nread { self.state[offset + i] ^= data[in_pos + i]; }` with `data[in_pos..in_pos+nread]` given:
    the bytes of `data` are XORed onto `state[offset..]`; `none` = an index `offset + i` is out of bounds.
    (One pass over the list instead of one indexed access per byte — same function, linear time.) -/
def xor_in : Bytes → Nat → Bytes → Option Bytes
  | st, _, [] => some st
  | [], _, _ :: _ => none
  | b :: st, 0, d :: ds => (xor_in st 0 ds).map ((b ^^^ d) :: ·)
  | b :: st, off + 1, d :: ds => (xor_in st off (d :: ds)).map (b :: ·)

/-- the `while in_pos < in_len` loop of `process`; `data` is `data[in_pos..]`.
    The guard `offset < r` is the `assert!(self.offset < r)` in front of the loop for the first iteration and holds
    trivially afterwards (offset was just set to 0 and r > 0); it protects the usize subtraction `r - offset`. -/
def absorb_loop (r : Nat) (state : Bytes) (offset : Nat) (data : Bytes) : Option (Bytes × Nat) :=
  if hd : data = [] then some (state, offset)
  else if hr : offset < r then
    let nread := min (r - offset) data.length
    match xor_in state offset (data.take nread) with
    | none => none
    | some state' =>
      if offset + nread = r then
        match keccak_f state' with
        | none => none
        | some state'' => absorb_loop r state'' 0 (data.drop nread)
      else some (state', offset + nread)
  else none
termination_by data.length
decreasing_by
  have : 0 < data.length := List.length_pos_iff.mpr hd
  simp only [List.length_drop]
  omega

/-- `pub(super) fn process(&mut self, data: &[u8])` -/
def Engine.process (DIGESTLEN : Nat) (e : Engine) (data : Bytes) : Option Engine := do
  if !e.can_absorb then none else     -- panic!("Invalid state, absorb phase already finalized.")
  let r ← rate DIGESTLEN
  if ¬ e.offset < r then none else    -- assert!(self.offset < r)
  let (st, off) ← absorb_loop r e.state e.offset data
  pure { e with state := st, offset := off }

/-- `pub(super) fn finalize(&mut self)` -/
def Engine.finalize (DIGESTLEN DSLEN : Nat) (e : Engine) : Option Engine := do
  if !e.can_absorb then none else     -- assert!(self.can_absorb)
  let r ← rate DIGESTLEN
  let p_len ← pad_len DSLEN (← usizechk (e.offset * 8)) (← usizechk (r * 8))
  let p := zeros p_len                -- vec::from_elem(0, p_len)
  let p ← if DSLEN != 0 then set_domain_sep (DIGESTLEN * 8) p else pure p
  let p ← set_pad DSLEN p
  let e ← e.process DIGESTLEN p
  pure { e with can_absorb := false }

/-- `pub(super) fn reset(&mut self)` -/
def Engine.reset (e : Engine) : Engine :=
  { state := zeros e.state.length, can_absorb := true, can_squeeze := true, offset := 0 }

/-- number of bytes copied in one iteration of the squeeze loop:
    `nread = min(r - offset, in_len - in_pos); if DIGESTLEN != 0 { nread = min(nread, DIGESTLEN - self.offset) }`
    (`offset = self.offset % r`; the usize subtraction `DIGESTLEN - self.offset` must not underflow) -/
def squeeze_nread (DIGESTLEN r self_offset in_len in_pos : Nat) : Option Nat :=
  let nread := min (r - self_offset % r) (in_len - in_pos)
  if DIGESTLEN ≠ 0 then
    if DIGESTLEN < self_offset then none else some (min nread (DIGESTLEN - self_offset))
  else some nread

/-- the `while in_pos < in_len` loop of `output` -/
def squeeze_loop (DIGESTLEN r : Nat) (e : Engine) (in_len in_pos : Nat) (out : Bytes) : Option (Engine × Bytes) :=
  if hlt : in_pos < in_len then
    if hr0 : r = 0 then none else                       -- `let offset = self.offset % r`
    match squeeze_nread DIGESTLEN r e.offset in_len in_pos with
    | none => none
    | some nread =>
      -- out[in_pos..(nread + in_pos)].copy_from_slice(&self.state[offset..(nread + offset)]);
      if e.state.length < nread + e.offset % r ∨ out.length < nread + in_pos then none else
      let out' := out.take in_pos ++ (e.state.drop (e.offset % r)).take nread ++ out.drop (in_pos + nread)
      if hfull : e.offset % r + nread = r then
        -- if DIGESTLEN == 0 { self.offset = 0 } else { self.offset += nread }; keccak_f(&mut self.state)
        match keccak_f e.state with
        | none => none
        | some st =>
          squeeze_loop DIGESTLEN r
            { e with state := st, offset := if DIGESTLEN = 0 then 0 else e.offset + nread } in_len (in_pos + nread) out'
      else some ({ e with offset := e.offset + nread }, out')   -- self.offset += nread; break
  else some (e, out)
termination_by in_len - in_pos
decreasing_by
  have : e.offset % r < r := Nat.mod_lt _ (Nat.pos_of_ne_zero hr0)
  omega

/-- `pub(super) fn output(&mut self, out: &mut [u8])`; `out_len = out.len()`, returns the bytes written to `out` -/
def Engine.output (DIGESTLEN DSLEN : Nat) (e : Engine) (out_len : Nat) : Option (Engine × Bytes) := do
  if !e.can_squeeze then none else    -- panic!("Nothing left to squeeze.")
  let e ← if e.can_absorb then e.finalize DIGESTLEN DSLEN else pure e
  let r ← rate DIGESTLEN
  -- if DIGESTLEN != 0 { assert!(self.offset < DIGESTLEN) } else { assert!(self.offset < r) }
  if ¬ (if DIGESTLEN != 0 then e.offset < DIGESTLEN else e.offset < r) then none else
  let (e, out) ← squeeze_loop DIGESTLEN r e out_len 0 (zeros out_len)
  let e := if DIGESTLEN != 0 && DIGESTLEN == e.offset then { e with can_squeeze := false } else e
  pure (e, out)

/-! ## the contexts generated by `sha3_impl!` / `keccak_impl!` : `struct $context(Engine<$digestlength, DSLEN>)` -/

abbrev Context := Engine

namespace Context
def new : Context := Engine.new
def update_mut (dl : Nat) (c : Context) (data : Bytes) : Option Context := c.process dl data
def update (dl : Nat) (c : Context) (data : Bytes) : Option Context := c.process dl data
/-- `let mut out = [0; $digestlength]; self.0.output(&mut out); self.0.reset(); out` -/
def finalize_reset (dl ds : Nat) (c : Context) : Option (Context × Bytes) := do
  let (e, out) ← c.output dl ds dl
  pure (e.reset, out)
/-- `let mut out = [0; $digestlength]; self.0.output(&mut out); out` (consumes the context) -/
def finalize (dl ds : Nat) (c : Context) : Option Bytes := do
  let (_, out) ← c.output dl ds dl
  pure out
def reset (c : Context) : Context := Engine.reset c
end Context

/-- `Sha3_xxx::new().update(input).finalize()` — the shape of every one-shot function in hashing/mod.rs -/
def hash (dl ds : Nat) (input : Bytes) : Option Bytes := do
  let c ← Context.update dl Context.new input
  Context.finalize dl ds c

/-! the eight instantiations (`sha3_impl!(Sha3_224, Context224, 28, …)` with `Engine<_, 2>`, `keccak_impl!` with `Engine<_, 0>`) -/
def sha3_224 := hash 28 2
def sha3_256 := hash 32 2
def sha3_384 := hash 48 2
def sha3_512 := hash 64 2
def keccak224 := hash 28 0
def keccak256 := hash 32 0
def keccak384 := hash 48 0
def keccak512 := hash 64 0

end Cx.Impl.Sha3
