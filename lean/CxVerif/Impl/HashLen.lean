/-
  Impl.HashLen — code-shaped model of the verification hooks `verif_set_processed_bytes` (guard `cryptoxide_verif`)
  of src/hashing/sha2/mod.rs (`digest!` contexts: `self.engine.processed_bytes = n as _;`, n : u128),
  src/hashing/sha1.rs and src/hashing/ripemd160.rs (`self.processed_bytes = n;`, n : u64), and of the call sequence
  of the `hlen.<alg>` ops:  `Ctx::new(); verif_set_processed_bytes(N); update(m); finalize()`.

  Nothing of the existing context models is copied: the hook only replaces the `processed_bytes` field of the model
  state (`Nat` with the truncation of the `as` cast written for SHA-2; `UInt64` for SHA-1 / RIPEMD-160), everything
  else is Impl.Sha2 / Impl.Sha1 / Impl.Ripemd160.  Import-free (core Lean only).

  -- API:
  --   Cx.Impl.HashLen.Ctx256.verif_set_processed_bytes, Ctx512.…, Sha1Ctx.…, RipemdCtx.…
  --   Cx.Impl.HashLen.hlen256 A N m, hlen512 A N m, hlenSha1 N m, hlenRipemd160 N m : Option Bytes  (`none` = panic)
  --   Cx.Impl.HashLen.hlen : Spec.HashLen.Alg → Nat → Bytes → Option Bytes
-/
import CxVerif.Impl.Sha2
import CxVerif.Impl.Sha1
import CxVerif.Impl.Ripemd160
import CxVerif.Spec.HashLen
namespace Cx.Impl.HashLen
open Cx Cx.Impl

/-- `digest!(256 …)`: `self.engine.processed_bytes = n as _;` with `n : u128`, field `u64` -/
def Ctx256.verif_set_processed_bytes (self : Sha2.Ctx256) (n : Nat) : Sha2.Ctx256 :=
  ⟨{ self.engine with processed_bytes := n % 2 ^ 128 % 2 ^ 64 }⟩

/-- `digest!(512 …)`: `self.engine.processed_bytes = n as _;` with `n : u128`, field `u128` -/
def Ctx512.verif_set_processed_bytes (self : Sha2.Ctx512) (n : Nat) : Sha2.Ctx512 :=
  ⟨{ self.engine with processed_bytes := n % 2 ^ 128 }⟩

/-- sha1.rs: `self.processed_bytes = n;` with `n : u64` -/
def Sha1Ctx.verif_set_processed_bytes (self : Sha1.Context) (n : UInt64) : Sha1.Context :=
  { self with processed_bytes := n }

/-- ripemd160.rs: `self.processed_bytes = n;` with `n : u64` -/
def RipemdCtx.verif_set_processed_bytes (self : Ripemd160.Context) (n : UInt64) : Ripemd160.Context :=
  { self with processed_bytes := n }

/-- `let mut c = $ctx::new(); c.verif_set_processed_bytes(N); c.update(m).finalize()` -/
def hlen256 (A : Sha2.Alg256) (N : Nat) (m : Bytes) : Option Bytes :=
  match (Ctx256.verif_set_processed_bytes (Sha2.Ctx256.new A) N).update m with
  | none => none
  | some c => c.finalize A

def hlen512 (A : Sha2.Alg512) (N : Nat) (m : Bytes) : Option Bytes :=
  match (Ctx512.verif_set_processed_bytes (Sha2.Ctx512.new A) N).update m with
  | none => none
  | some c => c.finalize A

def hlenSha1 (N : UInt64) (m : Bytes) : Option Bytes :=
  match (Sha1Ctx.verif_set_processed_bytes Sha1.Context.new N).update m with
  | none => none
  | some c => c.finalize

def hlenRipemd160 (N : UInt64) (m : Bytes) : Option Bytes :=
  match (RipemdCtx.verif_set_processed_bytes Ripemd160.Context.new N).update m with
  | none => none
  | some c => c.finalize

/-- the `hlen.<alg> N m` op on the model (the harness parses N as u128 for SHA-2 and as u64 for SHA-1/RIPEMD-160;
    the driver refuses N ≥ 2^128 resp. ≥ 2^64 before calling this) -/
def hlen : Spec.HashLen.Alg → Nat → Bytes → Option Bytes
  | .sha1, N, m => hlenSha1 (UInt64.ofNat N) m
  | .ripemd160, N, m => hlenRipemd160 (UInt64.ofNat N) m
  | .sha224, N, m => hlen256 Sha2.Sha224 N m
  | .sha256, N, m => hlen256 Sha2.Sha256 N m
  | .sha384, N, m => hlen512 Sha2.Sha384 N m
  | .sha512, N, m => hlen512 Sha2.Sha512 N m
  | .sha512_224, N, m => hlen512 Sha2.Sha512Trunc224 N m
  | .sha512_256, N, m => hlen512 Sha2.Sha512Trunc256 N m

end Cx.Impl.HashLen
