/-
  Impl.ChaCha — code-shaped model of src/chacha/reference.rs (portable engine), src/chacha/sse2.rs (SSE2 engine:
  rows a,b,c,d as 4×u32 lanes), and the three ChaCha context types of src/chacha20.rs.

  -- API:
  --   Cx.Impl.ChaCha.Engine σ                  the methods both Rust engines offer (init, rounds, add_back, …)
  --   Cx.Impl.ChaCha.referenceEngine : Engine W16          src/chacha/reference.rs
  --   Cx.Impl.ChaCha.referenceEngineOld                    the same with `init` as it was before /repo be8904e (defect a)
  --   Cx.Impl.ChaCha.sse2Engine : Engine Sse2.State        src/chacha/sse2.rs (the engine of x86-64 builds)
  --   Cx.Impl.ChaCha.ChaCha.new  (E) (R) (key nonce : Bytes) : Except String (Ctx σ)     `ChaCha::<R>::new`
  --   Cx.Impl.ChaCha.ChaCha.process_mut (E) (R) (c) (data)  : Except String (Ctx σ × Bytes)
  --   Cx.Impl.ChaCha.ChaCha.process (E) (R) (c) (input) (outputLen)
  --   Cx.Impl.ChaCha.ChaCha.seek (E) (c) (position : UInt32) : Ctx σ
  --   likewise XChaCha.*, ChaChaOriginal.* ;   Ctx = Cx.Impl.StreamCtx.Ctx (state, output[64], offset)
-/
import CxVerif.Util.Bytes
import CxVerif.Impl.StreamCtx
import CxVerif.Extracted.Stream
namespace Cx.Impl.ChaCha
open Cx.Impl Cx.Impl.StreamCtx

/-- four constant words out of an extracted table (all-zero if the extraction produced something else;
    the table theorems `Cx.Props.C03.cst*_eq` then fail) -/
def cst (t : List UInt32) : UInt32 × UInt32 × UInt32 × UInt32 :=
  match t with
  | [a, b, c, d] => (a, b, c, d)
  | _ => (0, 0, 0, 0)

/-! ## src/chacha/reference.rs -/
namespace Reference

def CST16 := cst Cx.Extracted.Stream.CST16_reference
def CST32 := cst Cx.Extracted.Stream.CST32_reference

/-- `QR!(a, b, c, d)` -/
def QR (a b c d : UInt32) : UInt32 × UInt32 × UInt32 × UInt32 :=
  let a := a + b
  let d := rotl32 (d ^^^ a) 16
  let c := c + d
  let b := rotl32 (b ^^^ c) 12
  let a := a + b
  let d := rotl32 (d ^^^ a) 8
  let c := c + d
  let b := rotl32 (b ^^^ c) 7
  (a, b, c, d)

/-- the nonce part of `init` (state[12..16]); slices `nonce[0..4]`, `nonce[4..8]` panic on a nonce shorter than 8 -/
def initNonce (s : W16) (nonce : Bytes) : Except String W16 :=
  if nonce.length = 16 then
    .ok { s with x12 := read_u32_le nonce 0, x13 := read_u32_le nonce 4, x14 := read_u32_le nonce 8, x15 := read_u32_le nonce 12 }
  else if nonce.length = 12 then
    .ok { s with x13 := read_u32_le nonce 0, x14 := read_u32_le nonce 4, x15 := read_u32_le nonce 8 }
  else if 8 ≤ nonce.length then
    .ok { s with x14 := read_u32_le nonce 0, x15 := read_u32_le nonce 4 }
  else .error "PANIC"

/-- `State::init` (as repaired by /repo commit be8904e: the `16 =>` arm loads the key into state[4..8] and again
    into state[8..12]) -/
def init (key nonce : Bytes) : Except String W16 :=
  if key.length = 16 then
    initNonce { W16.zero with
      x0 := CST16.1, x1 := CST16.2.1, x2 := CST16.2.2.1, x3 := CST16.2.2.2,
      x4 := read_u32_le key 0, x5 := read_u32_le key 4, x6 := read_u32_le key 8, x7 := read_u32_le key 12,
      x8 := read_u32_le key 0, x9 := read_u32_le key 4, x10 := read_u32_le key 8, x11 := read_u32_le key 12 } nonce
  else if key.length = 32 then
    initNonce { W16.zero with
      x0 := CST32.1, x1 := CST32.2.1, x2 := CST32.2.2.1, x3 := CST32.2.2.2,
      x4 := read_u32_le key 0, x5 := read_u32_le key 4, x6 := read_u32_le key 8, x7 := read_u32_le key 12,
      x8 := read_u32_le key 16, x9 := read_u32_le key 20, x10 := read_u32_le key 24, x11 := read_u32_le key 28 } nonce
  else .error "PANIC"   -- unreachable!()

/-- `State::init` BEFORE the repair (defect a): the `16 =>` arm only stored the constants, state[4..12] stayed 0.
    Kept for the witness theorems. -/
def initOld (key nonce : Bytes) : Except String W16 :=
  if key.length = 16 then
    initNonce { W16.zero with x0 := CST16.1, x1 := CST16.2.1, x2 := CST16.2.2.1, x3 := CST16.2.2.2 } nonce
  else init key nonce

/-- one iteration of the loop in `rounds` -/
def doubleRound (w : W16) : W16 :=
  match w with
  | ⟨x0,x1,x2,x3,x4,x5,x6,x7,x8,x9,x10,x11,x12,x13,x14,x15⟩ =>
  match QR x0 x4 x8 x12 with
  | (x0, x4, x8, x12) =>
  match QR x1 x5 x9 x13 with
  | (x1, x5, x9, x13) =>
  match QR x2 x6 x10 x14 with
  | (x2, x6, x10, x14) =>
  match QR x3 x7 x11 x15 with
  | (x3, x7, x11, x15) =>
  match QR x0 x5 x10 x15 with
  | (x0, x5, x10, x15) =>
  match QR x1 x6 x11 x12 with
  | (x1, x6, x11, x12) =>
  match QR x2 x7 x8 x13 with
  | (x2, x7, x8, x13) =>
  match QR x3 x4 x9 x14 with
  | (x3, x4, x9, x14) =>
  ⟨x0,x1,x2,x3,x4,x5,x6,x7,x8,x9,x10,x11,x12,x13,x14,x15⟩

/-- `for _ in 0..(ROUNDS / 2)` -/
def loop (f : W16 → W16) : Nat → W16 → W16
  | 0, w => w
  | n + 1, w => loop f n (f w)

def rounds (R : Nat) (w : W16) : W16 := loop doubleRound (R / 2) w

def set_counter (w : W16) (counter : UInt32) : W16 := { w with x12 := counter }
def increment (w : W16) : W16 := { w with x12 := w.x12 + 1 }
def verif_set_counter64 (w : W16) (counter : UInt64) : W16 :=
  { w with x12 := counter.toUInt32, x13 := (counter >>> 32).toUInt32 }
def increment64 (w : W16) : W16 :=
  let x12 := w.x12 + 1
  if x12 = 0 then { w with x12 := x12, x13 := w.x13 + 1 } else { w with x12 := x12 }
def add_back (s initial : W16) : W16 := W16.add_back s initial
def output_bytes (w : W16) : Bytes := W16.output_bytes w
/-- `write_u32v_le(&mut output[0..16], &self.state[0..4]); write_u32v_le(&mut output[16..32], &self.state[12..16])` -/
def output_ad_bytes (w : W16) : Bytes := [w.x0, w.x1, w.x2, w.x3, w.x12, w.x13, w.x14, w.x15].flatMap u32le

end Reference

/-! ## src/chacha/sse2.rs -/
namespace Sse2

/-- `__m128i` as four 32-bit lanes, lane 0 = lowest address -/
structure M128 where
  (l0 l1 l2 l3 : UInt32)
deriving Repr, DecidableEq

def M128.lane (v : M128) (i : Nat) : UInt32 :=
  match i % 4 with
  | 0 => v.l0 | 1 => v.l1 | 2 => v.l2 | _ => v.l3

def _mm_add_epi32 (a b : M128) : M128 := ⟨a.l0 + b.l0, a.l1 + b.l1, a.l2 + b.l2, a.l3 + b.l3⟩
def _mm_xor_si128 (a b : M128) : M128 := ⟨a.l0 ^^^ b.l0, a.l1 ^^^ b.l1, a.l2 ^^^ b.l2, a.l3 ^^^ b.l3⟩
/-- shift counts above 31 give 0, as the instruction does -/
def shl (x : UInt32) (n : Nat) : UInt32 := if n < 32 then x <<< UInt32.ofNat n else 0
def shr (x : UInt32) (n : Nat) : UInt32 := if n < 32 then x >>> UInt32.ofNat n else 0
def _mm_slli_epi32 (a : M128) (n : Nat) : M128 := ⟨shl a.l0 n, shl a.l1 n, shl a.l2 n, shl a.l3 n⟩
def _mm_srli_epi32 (a : M128) (n : Nat) : M128 := ⟨shr a.l0 n, shr a.l1 n, shr a.l2 n, shr a.l3 n⟩
/-- result lane i = source lane `(imm >> 2i) & 3` -/
def _mm_shuffle_epi32 (a : M128) (imm : Nat) : M128 :=
  ⟨a.lane (imm % 4), a.lane (imm / 4 % 4), a.lane (imm / 16 % 4), a.lane (imm / 64 % 4)⟩
/-- unaligned 16-byte load at byte offset `off` -/
def _mm_loadu_si128 (bs : Bytes) (off : Nat) : M128 :=
  ⟨read_u32_le bs off, read_u32_le bs (off + 4), read_u32_le bs (off + 8), read_u32_le bs (off + 12)⟩
def _mm_storeu_si128 (v : M128) : Bytes := [v.l0, v.l1, v.l2, v.l3].flatMap u32le
def ofWords (t : UInt32 × UInt32 × UInt32 × UInt32) : M128 := ⟨t.1, t.2.1, t.2.2.1, t.2.2.2⟩

structure State where
  (a b c d : M128)
deriving Repr, DecidableEq

def CST16 := cst Cx.Extracted.Stream.CST16_sse2
def CST32 := cst Cx.Extracted.Stream.CST32_sse2
def constant32 : M128 := ofWords CST32
def constant16 : M128 := ofWords CST16

def key32 (key : Bytes) : M128 × M128 × M128 := (constant32, _mm_loadu_si128 key 0, _mm_loadu_si128 key 16)
def key16 (key : Bytes) : M128 × M128 × M128 :=
  let k := _mm_loadu_si128 key 0
  (constant16, k, k)

/-- `fn nonce(nonce: &[u8]) -> __m128i` (through `Align128::zero()`, lanes 1..3 resp. 2..3 set) -/
def nonce (nonce : Bytes) : Except String M128 :=
  if nonce.length = 16 then .ok (_mm_loadu_si128 nonce 0)
  else if nonce.length = 12 then .ok ⟨0, read_u32_le nonce 0, read_u32_le nonce 4, read_u32_le nonce 8⟩
  else if nonce.length = 8 then .ok ⟨0, 0, read_u32_le nonce 0, read_u32_le nonce 4⟩
  else .error "PANIC"   -- unreachable!()

def init (key nonce_ : Bytes) : Except String State :=
  if key.length = 32 then
    match key32 key, nonce nonce_ with
    | (a, b, c), .ok d => .ok ⟨a, b, c, d⟩
    | _, .error e => .error e
  else if key.length = 16 then
    match key16 key, nonce nonce_ with
    | (a, b, c), .ok d => .ok ⟨a, b, c, d⟩
    | _, .error e => .error e
  else .error "PANIC"   -- unreachable!()

/-- `add_rotate_xor!(a, b, c, d)` : `a += b; c ^= a; c <<<= d` ; returns the new (a, c) -/
def add_rotate_xor (a b c : M128) (d : Nat) : M128 × M128 :=
  let a := _mm_add_epi32 a b
  let c := _mm_xor_si128 c a
  let c := _mm_xor_si128 (_mm_slli_epi32 c d) (_mm_srli_epi32 c (32 - d))
  (a, c)

/-- `round!(a, b, c, d)` -/
def round (s : State) : State :=
  match s with
  | ⟨a, b, c, d⟩ =>
  match add_rotate_xor a b d 16 with
  | (a, d) =>
  match add_rotate_xor c d b 12 with
  | (c, b) =>
  match add_rotate_xor a b d 8 with
  | (a, d) =>
  match add_rotate_xor c d b 7 with
  | (c, b) => ⟨a, b, c, d⟩

/-- `swizzle!(b, c, d)` with the three immediates of the macro, in macro-argument order -/
def swizzle (x y z : M128) : M128 × M128 × M128 :=
  (_mm_shuffle_epi32 x 0b00111001, _mm_shuffle_epi32 y 0b01001110, _mm_shuffle_epi32 z 0b10010011)

/-- one iteration of the loop in `rounds` -/
def doubleRound (s : State) : State :=
  let s := round s
  let s := match swizzle s.b s.c s.d with | (b, c, d) => { s with b := b, c := c, d := d }
  let s := round s
  let s := match swizzle s.d s.c s.b with | (d, c, b) => { s with b := b, c := c, d := d }
  s

def loop (f : State → State) : Nat → State → State
  | 0, w => w
  | n + 1, w => loop f n (f w)

def rounds (R : Nat) (s : State) : State := loop doubleRound (R / 2) s

/-- `Align128`: `from_m128i(self.d); align.0[0] = counter; self.d = align.to_m128i()` -/
def set_counter (s : State) (counter : UInt32) : State := { s with d := { s.d with l0 := counter } }
def verif_set_counter64 (s : State) (counter : UInt64) : State :=
  { s with d := { s.d with l0 := counter.toUInt32, l1 := (counter >>> 32).toUInt32 } }
def increment (s : State) : State := { s with d := { s.d with l0 := s.d.l0 + 1 } }
/-- `overflowing_add(1)` on lane 0, carry into lane 1 -/
def increment64 (s : State) : State :=
  let a := s.d.l0 + 1
  let overflowed := s.d.l0 = 0xFFFFFFFF
  if overflowed then { s with d := { s.d with l0 := a, l1 := s.d.l1 + 1 } } else { s with d := { s.d with l0 := a } }
def add_back (s initial : State) : State :=
  ⟨_mm_add_epi32 s.a initial.a, _mm_add_epi32 s.b initial.b, _mm_add_epi32 s.c initial.c, _mm_add_epi32 s.d initial.d⟩
def output_bytes (s : State) : Bytes :=
  _mm_storeu_si128 s.a ++ _mm_storeu_si128 s.b ++ _mm_storeu_si128 s.c ++ _mm_storeu_si128 s.d
def output_ad_bytes (s : State) : Bytes := _mm_storeu_si128 s.a ++ _mm_storeu_si128 s.d

end Sse2

/-! ## `ChaChaEngine<R>` : what chacha20.rs uses of either engine -/

structure Engine (σ : Type) where
  init : Bytes → Bytes → Except String σ
  rounds : Nat → σ → σ
  add_back : σ → σ → σ
  output_bytes : σ → Bytes
  output_ad_bytes : σ → Bytes
  set_counter : σ → UInt32 → σ
  verif_set_counter64 : σ → UInt64 → σ
  increment : σ → σ
  increment64 : σ → σ

def referenceEngine : Engine W16 :=
  { init := Reference.init, rounds := Reference.rounds, add_back := Reference.add_back,
    output_bytes := Reference.output_bytes, output_ad_bytes := Reference.output_ad_bytes,
    set_counter := Reference.set_counter, verif_set_counter64 := Reference.verif_set_counter64,
    increment := Reference.increment, increment64 := Reference.increment64 }

/-- the portable engine as it was before the repair of `init` (defect a) -/
def referenceEngineOld : Engine W16 := { referenceEngine with init := Reference.initOld }

def sse2Engine : Engine Sse2.State :=
  { init := Sse2.init, rounds := Sse2.rounds, add_back := Sse2.add_back,
    output_bytes := Sse2.output_bytes, output_ad_bytes := Sse2.output_ad_bytes,
    set_counter := Sse2.set_counter, verif_set_counter64 := Sse2.verif_set_counter64,
    increment := Sse2.increment, increment64 := Sse2.increment64 }

variable {σ : Type}

/-- `let mut state = self.state.clone(); state.rounds(); state.add_back(&self.state); state.output_bytes(..)` -/
def Engine.block (E : Engine σ) (R : Nat) (s : σ) : Bytes := E.output_bytes (E.add_back (E.rounds R s) s)
/-- `rounds(); output_ad_bytes()` -/
def Engine.hblock (E : Engine σ) (R : Nat) (s : σ) : Bytes := E.output_ad_bytes (E.rounds R s)

/-- `assert!(ROUNDS == 8 || ROUNDS == 12 || ROUNDS == 20)` -/
def roundsOk (R : Nat) : Bool := R == 8 || R == 12 || R == 20

/-! ### `ChaCha<ROUNDS>` (IETF) -/
namespace ChaCha
def gen (E : Engine σ) (R : Nat) : BlockGen σ := { block := E.block R, increment := E.increment }
/-- `nonce: &[u8; 12]` is a type-level length; other lengths cannot be passed -/
def new (E : Engine σ) (R : Nat) (key nonce : Bytes) : Except String (Ctx σ) :=
  if nonce.length ≠ 12 then .error "bad-args"
  else if ¬ (key.length = 16 ∨ key.length = 32) then .error "PANIC"
  else if ¬ roundsOk R then .error "PANIC"
  else match E.init key nonce with
    | .ok s => .ok (StreamCtx.mk s)
    | .error e => .error e
def seek (E : Engine σ) (c : Ctx σ) (position : UInt32) : Ctx σ := StreamCtx.seek E.set_counter c position
def process_mut (E : Engine σ) (R : Nat) (c : Ctx σ) (data : Bytes) := StreamCtx.process_mut (gen E R) c data
def process (E : Engine σ) (R : Nat) (c : Ctx σ) (input : Bytes) (outputLen : Nat) := StreamCtx.process (gen E R) c input outputLen
def methods (E : Engine σ) (R : Nat) : Methods σ := { gen := gen E R, seek := some E.set_counter, setCounter64 := none }
end ChaCha

/-! ### `XChaCha<ROUNDS>` -/
namespace XChaCha
def gen (E : Engine σ) (R : Nat) : BlockGen σ := { block := E.block R, increment := E.increment }
def new (E : Engine σ) (R : Nat) (key nonce : Bytes) : Except String (Ctx σ) :=
  if key.length ≠ 32 ∨ nonce.length ≠ 24 then .error "bad-args"
  else if ¬ roundsOk R then .error "PANIC"
  else match E.init key (nonce.take 16) with
    | .error e => .error e
    | .ok hchacha =>
      let new_key := E.hblock R hchacha
      match E.init new_key ((nonce.drop 16).take 8) with
      | .ok s => .ok (StreamCtx.mk s)
      | .error e => .error e
def seek (E : Engine σ) (c : Ctx σ) (position : UInt32) : Ctx σ := StreamCtx.seek E.set_counter c position
def process_mut (E : Engine σ) (R : Nat) (c : Ctx σ) (data : Bytes) := StreamCtx.process_mut (gen E R) c data
def process (E : Engine σ) (R : Nat) (c : Ctx σ) (input : Bytes) (outputLen : Nat) := StreamCtx.process (gen E R) c input outputLen
def methods (E : Engine σ) (R : Nat) : Methods σ := { gen := gen E R, seek := some E.set_counter, setCounter64 := none }
end XChaCha

/-! ### `ChaChaOriginal<ROUNDS>` -/
namespace ChaChaOriginal
/-- "this is the only real subtle difference with IETF Chacha": `increment64` -/
def gen (E : Engine σ) (R : Nat) : BlockGen σ := { block := E.block R, increment := E.increment64 }
def new (E : Engine σ) (R : Nat) (key nonce : Bytes) : Except String (Ctx σ) :=
  if nonce.length ≠ 8 then .error "bad-args"
  else if ¬ (key.length = 16 ∨ key.length = 32) then .error "PANIC"
  else if ¬ roundsOk R then .error "PANIC"
  else match E.init key nonce with
    | .ok s => .ok (StreamCtx.mk s)
    | .error e => .error e
def verif_set_counter64 (E : Engine σ) (c : Ctx σ) (counter : UInt64) : Ctx σ := StreamCtx.seek E.verif_set_counter64 c counter
def process_mut (E : Engine σ) (R : Nat) (c : Ctx σ) (data : Bytes) := StreamCtx.process_mut (gen E R) c data
def process (E : Engine σ) (R : Nat) (c : Ctx σ) (input : Bytes) (outputLen : Nat) := StreamCtx.process (gen E R) c input outputLen
def methods (E : Engine σ) (R : Nat) : Methods σ := { gen := gen E R, seek := none, setCounter64 := some E.verif_set_counter64 }
end ChaChaOriginal

end Cx.Impl.ChaCha
