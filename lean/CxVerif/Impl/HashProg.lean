/-
  Impl.HashProg — the operation-history machine of the `hctx.<alg>` ops (AGENT_GUIDE §6), generic in the context
  family, so that the C02 theorems are stated about exactly the function the driver runs.  Import-free.

  -- API:
  --   Cx.HashProg.Op                      update b | update_mut b | clone | swap | reset | finalize_reset | finalize
  --   Cx.HashProg.Family γ                the methods of one context type (`none` = panic)
  --   Cx.HashProg.runProg F ops cur stack out : Option (List Bytes)   emitted digests in order, `none` = panic
  --   Cx.HashProg.famSpec hash            the abstract family: state = bytes since the last reset
-/
import CxVerif.Util.Bytes
namespace Cx.HashProg
open Cx

inductive Op where
  | update (b : Bytes)
  | update_mut (b : Bytes)
  | clone
  | swap
  | reset
  | finalize_reset
  | finalize
deriving Repr

/-- a context family as the driver sees it -/
structure Family (γ : Type) where
  new : γ
  update : γ → Bytes → Option γ
  update_mut : γ → Bytes → Option γ
  reset : γ → γ
  finalize_reset : γ → Option (γ × Bytes)
  finalize : γ → Option Bytes

/-- run a program: (current, stack, emitted digests in reverse) -/
def runProg {γ : Type} (F : Family γ) : List Op → γ → List γ → List Bytes → Option (List Bytes)
  | [], _, _, out => some out.reverse
  | op :: ops, cur, stack, out =>
    match op with
    | .update b => match F.update cur b with
      | none => none
      | some c => runProg F ops c stack out
    | .update_mut b => match F.update_mut cur b with
      | none => none
      | some c => runProg F ops c stack out
    | .clone => runProg F ops cur (cur :: stack) out
    | .swap => match stack with
      | [] => runProg F ops cur [] out
      | t :: st => runProg F ops t (cur :: st) out
    | .reset => runProg F ops (F.reset cur) stack out
    | .finalize_reset => match F.finalize_reset cur with
      | none => none
      | some (c, d) => runProg F ops c stack (d :: out)
    | .finalize => match F.finalize cur with
      | none => none
      | some d => runProg F ops cur stack (d :: out)

/-- the abstract machine: the state is the byte string fed since creation / the last reset -/
def famSpec (hash : Bytes → Bytes) : Family Bytes :=
  ⟨[], fun m b => some (m ++ b), fun m b => some (m ++ b), fun _ => [],
   fun m => some ([], hash m), fun m => some (hash m)⟩

end Cx.HashProg
