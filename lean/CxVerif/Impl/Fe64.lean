/-
  Impl.Fe64 — model of /repo/src/curve25519/fe/fe64/mod.rs (+ `invert`, `pow25523` of fe/mod.rs):
  `Fe([u64; 5])`, 51-bit unsaturated limbs.  One definition per Rust function, same statement order.

  Modelling (DESIGN 2.1): limbs are `Nat`; every Rust `+ - *` on `u64`/`u128` is a CHECKED operation
  (`add64`, `sub64`, `mul64`, `add128` return `none` where an overflow-checked build panics), every
  truncating cast/shift is written (`% 2^64` for `as u64`, `% 2^128` for `<<` on u128, `>>> 51`, `&&& MASK`).
  A function therefore returns `Option Fe`; `none` = arithmetic-overflow panic of the debug profile.
  The refinement theorems (Proofs/Fe64*.lean, Props/C15/Fe64.lean) show `= some …` under the limb invariant,
  i.e. checked = wrapping = mathematical there (C20 overflow part).

  -- API:
  --   Cx.Impl.Fe64.Fe                       structure, limbs l0..l4 : Nat
  --   Fe.ZERO Fe.ONE Fe.SQRTM1 Fe.D Fe.D2   constants (limbs re-extracted from the source: Extracted.Fe64)
  --   add sub neg mul : Fe → Fe → Option Fe  (neg : Fe → Option Fe)
  --   square, square_and_double : Fe → Option Fe;  square_repeatdly : Fe → Nat → Option Fe
  --   mul_small : Fe → Nat → Option Fe      (`mul_small::<S0>`, S0 : u32)
  --   negate_mut : Fe → Option Fe
  --   from_bytes : (b : Bytes) → b.length = 32 → Fe;  fromBytes : Bytes → Option Fe (none unless 32 bytes)
  --   to_packed : Fe → Option (List Nat) (4 words);  to_bytes : Fe → Option Bytes
  --   is_nonzero, is_negative : Fe → Option Bool;  ct_eq : Fe → Fe → Option CT.Choice;  eq : Fe → Fe → Option Bool
  --   maybe_swap_with : Fe → Fe → CT.Choice → Fe × Fe;  maybe_set : Fe → Fe → CT.Choice → Fe
  --   invert, pow25523 : Fe → Option Fe
-/
import CxVerif.Util.Bytes
import CxVerif.Impl.ConstantTime
import CxVerif.Extracted.Fe64
namespace Cx.Impl.Fe64
open Cx

/-- `pub struct Fe(pub(crate) [u64; 5])` -/
structure Fe where
  l0 : Nat
  l1 : Nat
  l2 : Nat
  l3 : Nat
  l4 : Nat
  deriving DecidableEq, Repr, Inhabited

def FOUR_P0 : Nat := Extracted.Fe64.FOUR_P0
def FOUR_P1234 : Nat := Extracted.Fe64.FOUR_P1234
def MASK : Nat := Extracted.Fe64.MASK

def Fe.ofList : List Nat → Fe
  | [a, b, c, d, e] => ⟨a, b, c, d, e⟩
  | _ => ⟨0, 0, 0, 0, 0⟩   -- only reached when the extraction failed; every constant theorem then fails
def Fe.toList (f : Fe) : List Nat := [f.l0, f.l1, f.l2, f.l3, f.l4]

def Fe.ZERO : Fe := Fe.ofList Extracted.Fe64.ZERO
def Fe.ONE : Fe := Fe.ofList Extracted.Fe64.ONE
def Fe.SQRTM1 : Fe := Fe.ofList Extracted.Fe64.SQRTM1
def Fe.D : Fe := Fe.ofList Extracted.Fe64.D
def Fe.D2 : Fe := Fe.ofList Extracted.Fe64.D2

/-! ## checked machine arithmetic -/

/-- `a + b` on `u64` with overflow check -/
def add64 (a b : Nat) : Option Nat := if a + b < 2^64 then some (a + b) else none
/-- `a - b` on `u64` with underflow check -/
def sub64 (a b : Nat) : Option Nat := if b ≤ a then some (a - b) else none
/-- `a * b` on `u64` with overflow check -/
def mul64 (a b : Nat) : Option Nat := if a * b < 2^64 then some (a * b) else none
/-- `a + b` on `u128` with overflow check -/
def add128 (a b : Nat) : Option Nat := if a + b < 2^128 then some (a + b) else none

/-- `const fn mul128(a: u64, b: u64) -> u128 { a as u128 * b as u128 }` — the product of two `u64`
    always fits `u128` (`Proofs.Fe64.mul128_fits`), so this is the plain product -/
def mul128 (a b : Nat) : Nat := a * b

/-- `fn shl128(v: u128, shift: usize) -> u64 { ((v << shift) >> 64) as u64 }`
    (`<<` drops the bits shifted out of the 128-bit word; it only panics for `shift ≥ 128`) -/
def shl128 (v shift : Nat) : Nat := (((v <<< shift) % 2^128) >>> 64) % 2^64

/-! ## Add / Sub / Neg / Mul -/

/-- `impl Add for &Fe` -/
def add (f g : Fe) : Option Fe := do
  let h0 ← add64 f.l0 g.l0
  let c := h0 >>> 51
  let h0 := h0 &&& MASK
  let a ← add64 f.l1 g.l1
  let h1 ← add64 a c
  let c := h1 >>> 51
  let h1 := h1 &&& MASK
  let a ← add64 f.l2 g.l2
  let h2 ← add64 a c
  let c := h2 >>> 51
  let h2 := h2 &&& MASK
  let a ← add64 f.l3 g.l3
  let h3 ← add64 a c
  let c := h3 >>> 51
  let h3 := h3 &&& MASK
  let a ← add64 f.l4 g.l4
  let h4 ← add64 a c
  let c := h4 >>> 51
  let h4 := h4 &&& MASK
  let c19 ← mul64 c 19
  let h0 ← add64 h0 c19
  pure ⟨h0, h1, h2, h3, h4⟩

/-- `impl Sub for &Fe`: `f + 4p − g`, evaluated left to right -/
def sub (f g : Fe) : Option Fe := do
  let a ← add64 f.l0 FOUR_P0
  let h0 ← sub64 a g.l0
  let c := h0 >>> 51
  let h0 := h0 &&& MASK
  let a ← add64 f.l1 FOUR_P1234
  let a ← sub64 a g.l1
  let h1 ← add64 a c
  let c := h1 >>> 51
  let h1 := h1 &&& MASK
  let a ← add64 f.l2 FOUR_P1234
  let a ← sub64 a g.l2
  let h2 ← add64 a c
  let c := h2 >>> 51
  let h2 := h2 &&& MASK
  let a ← add64 f.l3 FOUR_P1234
  let a ← sub64 a g.l3
  let h3 ← add64 a c
  let c := h3 >>> 51
  let h3 := h3 &&& MASK
  let a ← add64 f.l4 FOUR_P1234
  let a ← sub64 a g.l4
  let h4 ← add64 a c
  let c := h4 >>> 51
  let h4 := h4 &&& MASK
  let c19 ← mul64 c 19
  let h0 ← add64 h0 c19
  pure ⟨h0, h1, h2, h3, h4⟩

/-- `impl Neg for &Fe` -/
def neg (g : Fe) : Option Fe := do
  let h0 ← sub64 FOUR_P0 g.l0
  let c := h0 >>> 51
  let h0 := h0 &&& MASK
  let a ← sub64 FOUR_P1234 g.l1
  let h1 ← add64 a c
  let c := h1 >>> 51
  let h1 := h1 &&& MASK
  let a ← sub64 FOUR_P1234 g.l2
  let h2 ← add64 a c
  let c := h2 >>> 51
  let h2 := h2 &&& MASK
  let a ← sub64 FOUR_P1234 g.l3
  let h3 ← add64 a c
  let c := h3 >>> 51
  let h3 := h3 &&& MASK
  let a ← sub64 FOUR_P1234 g.l4
  let h4 ← add64 a c
  let c := h4 >>> 51
  let h4 := h4 &&& MASK
  let c19 ← mul64 c 19
  let h0 ← add64 h0 c19
  pure ⟨h0, h1, h2, h3, h4⟩

/-- `pub(crate) fn negate_mut(&mut self)`: the same statements as `neg`, in place -/
def negate_mut (g : Fe) : Option Fe := neg g

/-- the common tail of `Mul` and `mul_small`: the carry chain over the five `u128` columns
    ```
    r0 = (t0 as u64) & MASK; let c = (t0 >> 51) as u64; t1 += c as u128; …
    r4 = (t4 as u64) & MASK; let c = (t4 >> 51) as u64; r0 += c * 19;
    let c = r0 >> 51; r0 = r0 & MASK; r1 += c;
    ```
    (written once here; the Rust source repeats these six lines in both functions) -/
def carry128 (t0 t1 t2 t3 t4 : Nat) : Option Fe := do
  let r0 := (t0 % 2^64) &&& MASK
  let c := (t0 >>> 51) % 2^64
  let t1 ← add128 t1 c
  let r1 := (t1 % 2^64) &&& MASK
  let c := (t1 >>> 51) % 2^64
  let t2 ← add128 t2 c
  let r2 := (t2 % 2^64) &&& MASK
  let c := (t2 >>> 51) % 2^64
  let t3 ← add128 t3 c
  let r3 := (t3 % 2^64) &&& MASK
  let c := (t3 >>> 51) % 2^64
  let t4 ← add128 t4 c
  let r4 := (t4 % 2^64) &&& MASK
  let c := (t4 >>> 51) % 2^64
  let c19 ← mul64 c 19
  let r0 ← add64 r0 c19
  let c := r0 >>> 51
  let r0 := r0 &&& MASK
  let r1 ← add64 r1 c
  pure ⟨r0, r1, r2, r3, r4⟩

/-- `impl Mul for &Fe` -/
def mul (f g : Fe) : Option Fe := do
  let r0 := f.l0; let r1 := f.l1; let r2 := f.l2; let r3 := f.l3; let r4 := f.l4
  let s0 := g.l0; let s1 := g.l1; let s2 := g.l2; let s3 := g.l3; let s4 := g.l4
  let t0 := mul128 r0 s0
  let t1 ← add128 (mul128 r0 s1) (mul128 r1 s0)
  let a ← add128 (mul128 r0 s2) (mul128 r2 s0)
  let t2 ← add128 a (mul128 r1 s1)
  let a ← add128 (mul128 r0 s3) (mul128 r3 s0)
  let a ← add128 a (mul128 r1 s2)
  let t3 ← add128 a (mul128 r2 s1)
  let a ← add128 (mul128 r0 s4) (mul128 r4 s0)
  let a ← add128 a (mul128 r3 s1)
  let a ← add128 a (mul128 r1 s3)
  let t4 ← add128 a (mul128 r2 s2)
  let r1 ← mul64 r1 19
  let r2 ← mul64 r2 19
  let r3 ← mul64 r3 19
  let r4 ← mul64 r4 19
  let a ← add128 (mul128 r4 s1) (mul128 r1 s4)
  let a ← add128 a (mul128 r2 s3)
  let a ← add128 a (mul128 r3 s2)
  let t0 ← add128 t0 a
  let a ← add128 (mul128 r4 s2) (mul128 r2 s4)
  let a ← add128 a (mul128 r3 s3)
  let t1 ← add128 t1 a
  let a ← add128 (mul128 r4 s3) (mul128 r3 s4)
  let t2 ← add128 t2 a
  let t3 ← add128 t3 (mul128 r4 s4)
  carry128 t0 t1 t2 t3 t4

/-- `pub(crate) const fn mul_small<const S0: u32>(&self)` -/
def mul_small (f : Fe) (S0 : Nat) : Option Fe := do
  let s0 := S0 % 2^32          -- `S0: u32`, `S0 as u64`
  let t0 := mul128 f.l0 s0
  let t1 := mul128 f.l1 s0
  let t2 := mul128 f.l2 s0
  let t3 := mul128 f.l3 s0
  let t4 := mul128 f.l4 s0
  carry128 t0 t1 t2 t3 t4

/-! ## square -/

/-- `pub fn square(&self) -> Fe` (also the loop body of `square_repeatdly`, which repeats these
    statements verbatim) -/
def square (f : Fe) : Option Fe := do
  let r0 := f.l0; let r1 := f.l1; let r2 := f.l2; let r3 := f.l3; let r4 := f.l4
  let d0 ← mul64 r0 2
  let d1 ← mul64 r1 2
  let a ← mul64 r2 2
  let d2 ← mul64 a 19
  let d419 ← mul64 r4 19
  let d4 ← mul64 d419 2
  let a ← add128 (mul128 r0 r0) (mul128 d4 r1)
  let t0 ← add128 a (mul128 d2 r3)
  let a ← add128 (mul128 d0 r1) (mul128 d4 r2)
  let r319 ← mul64 r3 19
  let t1 ← add128 a (mul128 r3 r319)
  let a ← add128 (mul128 d0 r2) (mul128 r1 r1)
  let t2 ← add128 a (mul128 d4 r3)
  let a ← add128 (mul128 d0 r3) (mul128 d1 r2)
  let t3 ← add128 a (mul128 r4 d419)
  let a ← add128 (mul128 d0 r4) (mul128 d1 r3)
  let t4 ← add128 a (mul128 r2 r2)
  let r0 := (t0 % 2^64) &&& MASK
  let r1 := (t1 % 2^64) &&& MASK
  let c := shl128 t0 13
  let r1 ← add64 r1 c
  let r2 := (t2 % 2^64) &&& MASK
  let c := shl128 t1 13
  let r2 ← add64 r2 c
  let r3 := (t3 % 2^64) &&& MASK
  let c := shl128 t2 13
  let r3 ← add64 r3 c
  let r4 := (t4 % 2^64) &&& MASK
  let c := shl128 t3 13
  let r4 ← add64 r4 c
  let c := shl128 t4 13
  let c19 ← mul64 c 19
  let r0 ← add64 r0 c19
  let c := r0 >>> 51
  let r0 := r0 &&& MASK
  let r1 ← add64 r1 c
  let c := r1 >>> 51
  let r1 := r1 &&& MASK
  let r2 ← add64 r2 c
  let c := r2 >>> 51
  let r2 := r2 &&& MASK
  let r3 ← add64 r3 c
  let c := r3 >>> 51
  let r3 := r3 &&& MASK
  let r4 ← add64 r4 c
  let c := r4 >>> 51
  let r4 := r4 &&& MASK
  let c19 ← mul64 c 19
  let r0 ← add64 r0 c19
  pure ⟨r0, r1, r2, r3, r4⟩

/-- `pub fn square_repeatdly(&self, n: usize) -> Fe`: `for _ in 0..n { <body of square> }` -/
def square_repeatdly (f : Fe) : Nat → Option Fe
  | 0 => some f
  | n + 1 => match square f with
    | none => none
    | some g => square_repeatdly g n

/-- `pub fn square_and_double(&self) -> Fe`: `square`, then `*e *= 2` on every limb -/
def square_and_double (f : Fe) : Option Fe := do
  let x ← square f
  let e0 ← mul64 x.l0 2
  let e1 ← mul64 x.l1 2
  let e2 ← mul64 x.l2 2
  let e3 ← mul64 x.l3 2
  let e4 ← mul64 x.l4 2
  pure ⟨e0, e1, e2, e3, e4⟩

/-! ## bytes -/

/-- `const fn load(bytes: &[u8; 32], ofs: usize) -> u64` inside `from_bytes` -/
def load (b : Bytes) (h : b.length = 32) (ofs : Nat) (ho : ofs + 7 < 32) : Nat :=
  (b[ofs]'(by omega)).toNat
    ||| ((b[ofs + 1]'(by omega)).toNat <<< 8)
    ||| ((b[ofs + 2]'(by omega)).toNat <<< 16)
    ||| ((b[ofs + 3]'(by omega)).toNat <<< 24)
    ||| ((b[ofs + 4]'(by omega)).toNat <<< 32)
    ||| ((b[ofs + 5]'(by omega)).toNat <<< 40)
    ||| ((b[ofs + 6]'(by omega)).toNat <<< 48)
    ||| ((b[ofs + 7]'(by omega)).toNat <<< 56)

/-- `pub const fn from_bytes(bytes: &[u8; 32]) -> Fe` -/
def from_bytes (b : Bytes) (h : b.length = 32) : Fe :=
  let x0 := load b h 0 (by omega) &&& MASK
  let x1 := (load b h 6 (by omega) >>> 3) &&& MASK
  let x2 := (load b h 12 (by omega) >>> 6) &&& MASK
  let x3 := (load b h 19 (by omega) >>> 1) &&& MASK
  let x4 := (load b h 24 (by omega) >>> 12) &&& MASK
  ⟨x0, x1, x2, x3, x4⟩

/-- `from_bytes` for an untyped byte string (the `[u8; 32]` type is the length test) -/
def fromBytes (b : Bytes) : Option Fe :=
  if h : b.length = 32 then some (from_bytes b h) else none

/-- `const fn carry_full(t: &[u64; 5]) -> [u64; 5]` inside `to_packed` -/
def carry_full (t : Fe) : Option Fe := do
  let t1 ← add64 t.l1 (t.l0 >>> 51)
  let t2 ← add64 t.l2 (t1 >>> 51)
  let t3 ← add64 t.l3 (t2 >>> 51)
  let t4 ← add64 t.l4 (t3 >>> 51)
  let a ← mul64 19 (t4 >>> 51)
  let t0 ← add64 (t.l0 &&& MASK) a
  pure ⟨t0, t1 &&& MASK, t2 &&& MASK, t3 &&& MASK, t4 &&& MASK⟩

/-- `const fn carry_final(t: &[u64; 5]) -> [u64; 5]` inside `to_packed` -/
def carry_final (t : Fe) : Option Fe := do
  let t1 ← add64 t.l1 (t.l0 >>> 51)
  let t2 ← add64 t.l2 (t1 >>> 51)
  let t3 ← add64 t.l3 (t2 >>> 51)
  let t4 ← add64 t.l4 (t3 >>> 51)
  pure ⟨t.l0 &&& MASK, t1 &&& MASK, t2 &&& MASK, t3 &&& MASK, t4 &&& MASK⟩

/-- `pub(crate) const fn to_packed(&self) -> [u64; 4]` (`<<` on `u64` drops the bits shifted out) -/
def to_packed (f : Fe) : Option (List Nat) := do
  let t ← carry_full f
  let t ← carry_full t
  let t0 ← add64 t.l0 19
  let t ← carry_full ⟨t0, t.l1, t.l2, t.l3, t.l4⟩
  let t0 ← add64 t.l0 ((MASK + 1) - 19)
  let t1 ← add64 t.l1 MASK
  let t2 ← add64 t.l2 MASK
  let t3 ← add64 t.l3 MASK
  let t4 ← add64 t.l4 MASK
  let t ← carry_final ⟨t0, t1, t2, t3, t4⟩
  let out0 := t.l0 ||| ((t.l1 <<< 51) % 2^64)
  let out1 := (t.l1 >>> 13) ||| ((t.l2 <<< 38) % 2^64)
  let out2 := (t.l2 >>> 26) ||| ((t.l3 <<< 25) % 2^64)
  let out3 := (t.l3 >>> 39) ||| ((t.l4 <<< 12) % 2^64)
  pure [out0, out1, out2, out3]

/-- `pub const fn to_bytes(&self) -> [u8; 32]`: the four words, each `to_le_bytes` -/
def to_bytes (f : Fe) : Option Bytes := do
  let w ← to_packed f
  pure (w.flatMap (natToLE 8))

/-- `pub fn is_nonzero(&self) -> bool { CtEqual::ct_ne(&self.to_bytes(), &[0; 32]).into() }` -/
def is_nonzero (f : Fe) : Option Bool := do
  let b ← to_bytes f
  pure (CT.array_u8_ct_ne b (zeros 32)).isTrue

/-- `pub fn is_negative(&self) -> bool { (self.to_packed()[0] & 1) != 0 }` -/
def is_negative (f : Fe) : Option Bool := do
  let w ← to_packed f
  match w with
  | w0 :: _ => pure ((w0 &&& 1) != 0)
  | [] => none

/-- `impl CtEqual for &Fe`: `ct_eq` of the two packed `[u64; 4]` -/
def ct_eq (f g : Fe) : Option CT.Choice := do
  let p1 ← to_packed f
  let p2 ← to_packed g
  pure (CT.array_u64_ct_eq (p1.map UInt64.ofNat) (p2.map UInt64.ofNat))

/-- `impl PartialEq for Fe` -/
def eq (f g : Fe) : Option Bool := do
  let c ← ct_eq f g
  pure c.isTrue

def Fe.toWords (f : Fe) : List UInt64 := f.toList.map UInt64.ofNat
def Fe.ofWords (w : List UInt64) : Fe := Fe.ofList (w.map UInt64.toNat)

/-- `pub(crate) fn maybe_swap_with(&mut self, rhs: &mut Fe, do_swap: Choice)` -/
def maybe_swap_with (f g : Fe) (do_swap : CT.Choice) : Fe × Fe :=
  let r := CT.ct_array64_maybe_swap_with f.toWords g.toWords do_swap
  (Fe.ofWords r.1, Fe.ofWords r.2)

/-- `pub(crate) fn maybe_set(&mut self, rhs: &Fe, do_swap: Choice)` -/
def maybe_set (f g : Fe) (do_swap : CT.Choice) : Fe :=
  Fe.ofWords (CT.ct_array64_maybe_set f.toWords g.toWords do_swap)

/-! ## fe/mod.rs: addition chains -/

/-- the common prefix of `pow25523` and `invert` up to `z_250_0` (the source repeats it in both);
    returns `(z11, z_250_0)` -/
def chain250 (z1 : Fe) : Option (Fe × Fe) := do
  let z2 ← square z1
  let z8 ← square_repeatdly z2 2
  let z9 ← mul z1 z8
  let z11 ← mul z2 z9
  let z22 ← square z11
  let z_5_0 ← mul z9 z22
  let z_10_5 ← square_repeatdly z_5_0 5
  let z_10_0 ← mul z_10_5 z_5_0
  let z_20_10 ← square_repeatdly z_10_0 10
  let z_20_0 ← mul z_20_10 z_10_0
  let z_40_20 ← square_repeatdly z_20_0 20
  let z_40_0 ← mul z_40_20 z_20_0
  let z_50_10 ← square_repeatdly z_40_0 10
  let z_50_0 ← mul z_50_10 z_10_0
  let z_100_50 ← square_repeatdly z_50_0 50
  let z_100_0 ← mul z_100_50 z_50_0
  let z_200_100 ← square_repeatdly z_100_0 100
  let z_200_0 ← mul z_200_100 z_100_0
  let z_250_50 ← square_repeatdly z_200_0 50
  let z_250_0 ← mul z_250_50 z_50_0
  pure (z11, z_250_0)

/-- `pub fn pow25523(&self) -> Fe` -/
def pow25523 (z : Fe) : Option Fe := do
  let (_, z_250_0) ← chain250 z
  let z_252_2 ← square_repeatdly z_250_0 2
  mul z_252_2 z

/-- `pub fn invert(&self) -> Fe` -/
def invert (z : Fe) : Option Fe := do
  let (z11, z_250_0) ← chain250 z
  let z_255_5 ← square_repeatdly z_250_0 5
  mul z_255_5 z11

end Cx.Impl.Fe64
