/-
  Impl.Poly1305 — code-shaped model of /repo/src/poly1305.rs (a port of poly1305-donna-32).

  -- API (for the AEAD unit):
  --   Cx.Impl.Poly1305.State                                   -- struct Poly1305 { r, h, pad, leftover, buffer, finalized }
  --   Cx.Impl.Poly1305.new (key : Bytes) : State               -- key : &[u8; 32]
  --   Cx.Impl.Poly1305.input (st) (data : Bytes) : Except Panic State
  --   Cx.Impl.Poly1305.raw_result (v) (st) (outlen : Nat) : Except Panic (State × Bytes)   -- first 16 bytes of `output`
  --   Cx.Impl.Poly1305.result (v) (st) : Except Panic (State × Bytes)
  --   Cx.Impl.Poly1305.reset (st) : State
  --   Cx.Impl.Poly1305.mac (v) (key) (chunks : List Bytes) : Except Panic Bytes           -- new; input*; raw_result
  --   Cx.Impl.Poly1305.codeVariant : Variant                   -- which `finish` /repo currently has

  Conventions (DESIGN 2.1): u32/u64 values are `Nat`s. Every *checked* Rust operation (`+ += *` on u32/u64/usize,
  which panic in a build with overflow checks) is written as the mathematical operation and its result is
  listed in the `…Ok` conjunction of the function: the function answers `Except.error .overflow` iff one of them
  does not fit its type, exactly like the checked build (the first failing operation panics; later values are then
  irrelevant). Every *wrapping/truncating* operation (`as u32`, `wrapping_add`, `wrapping_sub`, `<<`, `!`) is
  written with its explicit `% 2^32`. Overflow-freedom is therefore a theorem (Props/C05), not an assumption.
  `assert!` = `.error .assertion`, slice/array index out of range = `.error .index`.

  One `def` per Rust fn, same names. Two variants of `finish`: `.repaired` is the code as it is in /repo now
  (sets `finalized` unconditionally), `.original` the code as first found (only inside `if self.leftover > 0`).
-/
import CxVerif.Util.Bytes
namespace Cx.Impl.Poly1305
open Cx

inductive Panic where
  | overflow    -- arithmetic overflow in a checked build
  | assertion   -- `assert!` failed
  | index       -- slice / array index out of range
  | diverge     -- only in GENERATED definitions (Extracted/GlueMac.lean): the fuel of a translated `while` loop ran out; never a
                -- value of the hand models below, and unreachable in the generated ones (fuel adequacy, Proofs/GlueMac.lean)
  deriving DecidableEq, Repr

/-- which `finish` -/
inductive Variant where
  | original    -- /repo as first found (before commit 802db65): `self.finalized = true` only inside `if self.leftover > 0 { … }`
  | repaired    -- /repo now: `self.finalized = true` unconditionally (after the `if`)
  deriving DecidableEq, Repr

/-- THE SWITCH: the variant the driver uses for the correspondence with /repo (= the code as it is now).
    `.original` is kept as documentation of defect (c) together with its witness theorem (Props/C09). -/
def codeVariant : Variant := .repaired

/-- `[u32; 5]` -/
structure L5 where
  l0 : Nat
  l1 : Nat
  l2 : Nat
  l3 : Nat
  l4 : Nat
  deriving DecidableEq, Repr

/-- `[u32; 4]` -/
structure L4 where
  w0 : Nat
  w1 : Nat
  w2 : Nat
  w3 : Nat
  deriving DecidableEq, Repr

/-- `pub struct Poly1305` -/
structure State where
  r : L5
  h : L5
  pad : L4
  leftover : Nat
  buffer : Bytes        -- [u8; 16]
  finalized : Bool
  deriving DecidableEq, Repr

/-- `read_u32_le(&m[off..off+4])` (callers guarantee `off + 4 ≤ m.length`) -/
def rd32 (m : Bytes) (off : Nat) : Nat := leNat ((m.drop off).take 4)

/-- `Poly1305::new(key: &[u8; 32])` -/
def new (key : Bytes) : State :=
  { r := ⟨ (rd32 key 0) &&& 0x3ffffff,
           ((rd32 key 3) >>> 2) &&& 0x3ffff03,
           ((rd32 key 6) >>> 4) &&& 0x3ffc0ff,
           ((rd32 key 9) >>> 6) &&& 0x3f03fff,
           ((rd32 key 12) >>> 8) &&& 0x00fffff ⟩,
    h := ⟨0, 0, 0, 0, 0⟩,
    pad := ⟨rd32 key 16, rd32 key 20, rd32 key 24, rd32 key 28⟩,
    leftover := 0,
    buffer := zeros 16,
    finalized := false }

/-- the five message limbs read by `block` (`// h += m`, right-hand sides) -/
def loadBlock (m : Bytes) (hibit : Nat) : L5 :=
  ⟨ (rd32 m 0) &&& 0x3ffffff,
    ((rd32 m 3) >>> 2) &&& 0x3ffffff,
    ((rd32 m 6) >>> 4) &&& 0x3ffffff,
    ((rd32 m 9) >>> 6) &&& 0x3ffffff,
    ((rd32 m 12) >>> 8) ||| hibit ⟩

/-- everything `block` computes from `r`, `h` and the message limbs `t`, statement by statement -/
structure BlockArith where
  s1 : Nat
  s2 : Nat
  s3 : Nat
  s4 : Nat
  a0 : Nat
  a1 : Nat
  a2 : Nat
  a3 : Nat
  a4 : Nat
  d0 : Nat
  d1 : Nat
  d2 : Nat
  d3 : Nat
  d4 : Nat
  d1' : Nat
  d2' : Nat
  d3' : Nat
  d4' : Nat
  c4 : Nat
  c4x5 : Nat
  h0' : Nat
  c5 : Nat
  out : L5

/-- the arithmetic of `block`, statement by statement (`mul64(a, b) = a as u64 * b as u64` is exact) -/
def blockArith (r h t : L5) : BlockArith :=
  let r0 := r.l0
  let r1 := r.l1
  let r2 := r.l2
  let r3 := r.l3
  let r4 := r.l4
  let s1 := r1 * 5                                   -- u32 *
  let s2 := r2 * 5
  let s3 := r3 * 5
  let s4 := r4 * 5
  -- h += m
  let h0 := h.l0 + t.l0                              -- u32 +=
  let h1 := h.l1 + t.l1
  let h2 := h.l2 + t.l2
  let h3 := h.l3 + t.l3
  let h4 := h.l4 + t.l4
  -- h *= r      (u64 + of five exact u64 products; a partial sum overflows iff the total does)
  let d0 := h0 * r0 + h1 * s4 + h2 * s3 + h3 * s2 + h4 * s1
  let d1 := h0 * r1 + h1 * r0 + h2 * s4 + h3 * s3 + h4 * s2
  let d2 := h0 * r2 + h1 * r1 + h2 * r0 + h3 * s4 + h4 * s3
  let d3 := h0 * r3 + h1 * r2 + h2 * r1 + h3 * r0 + h4 * s4
  let d4 := h0 * r4 + h1 * r3 + h2 * r2 + h3 * r1 + h4 * r0
  -- (partial) h %= p
  let c := (d0 >>> 26) % 2 ^ 32                      -- (d0 >> 26) as u32
  let h0 := (d0 % 2 ^ 32) &&& 0x3ffffff              -- d0 as u32 & 0x3ffffff
  let d1' := d1 + c                                  -- u64 +=
  let c := (d1' >>> 26) % 2 ^ 32
  let h1 := (d1' % 2 ^ 32) &&& 0x3ffffff
  let d2' := d2 + c
  let c := (d2' >>> 26) % 2 ^ 32
  let h2 := (d2' % 2 ^ 32) &&& 0x3ffffff
  let d3' := d3 + c
  let c := (d3' >>> 26) % 2 ^ 32
  let h3 := (d3' % 2 ^ 32) &&& 0x3ffffff
  let d4' := d4 + c
  let c4 := (d4' >>> 26) % 2 ^ 32
  let h4 := (d4' % 2 ^ 32) &&& 0x3ffffff
  let c4x5 := c4 * 5                                 -- u32 *
  let h0' := h0 + c4x5                               -- u32 +=
  let c := h0' >>> 26
  let h0 := h0' &&& 0x3ffffff
  let h1 := h1 + c                                   -- u32 +=
  { s1, s2, s3, s4, a0 := h.l0 + t.l0, a1 := h.l1 + t.l1, a2 := h.l2 + t.l2, a3 := h.l3 + t.l3, a4 := h.l4 + t.l4,
    d0, d1, d2, d3, d4, d1', d2', d3', d4', c4, c4x5, h0', c5 := h1, out := ⟨h0, h1, h2, h3, h4⟩ }

/-- every checked operation of `block` fits its type (u32 / u64) -/
def BlockArith.Ok (b : BlockArith) : Prop :=
  b.s1 < 2 ^ 32 ∧ b.s2 < 2 ^ 32 ∧ b.s3 < 2 ^ 32 ∧ b.s4 < 2 ^ 32 ∧
  b.a0 < 2 ^ 32 ∧ b.a1 < 2 ^ 32 ∧ b.a2 < 2 ^ 32 ∧ b.a3 < 2 ^ 32 ∧ b.a4 < 2 ^ 32 ∧
  b.d0 < 2 ^ 64 ∧ b.d1 < 2 ^ 64 ∧ b.d2 < 2 ^ 64 ∧ b.d3 < 2 ^ 64 ∧ b.d4 < 2 ^ 64 ∧
  b.d1' < 2 ^ 64 ∧ b.d2' < 2 ^ 64 ∧ b.d3' < 2 ^ 64 ∧ b.d4' < 2 ^ 64 ∧
  b.c4x5 < 2 ^ 32 ∧ b.h0' < 2 ^ 32 ∧ b.c5 < 2 ^ 32

instance (b : BlockArith) : Decidable b.Ok := by unfold BlockArith.Ok; infer_instance

/-- `fn block(&mut self, m: &[u8])` (every caller passes 16 bytes; `m[12..16]` panics on a shorter slice) -/
def block (st : State) (m : Bytes) : Except Panic State :=
  if m.length < 16 then .error .index else
  let hibit := if st.finalized then 0 else 1 <<< 24
  let b := blockArith st.r st.h (loadBlock m hibit)
  if b.Ok then .ok { st with h := b.out } else .error .overflow

/-- everything `finish` computes after the optional last block (named intermediate values) -/
structure FinishArith where
  h2a : Nat
  h3a : Nat
  h4a : Nat
  cx5 : Nat
  h0a : Nat
  h1b : Nat
  k : L5          -- the fully carried h
  g : L5          -- h + 5 - 2^130, limb-wise, before masking
  mask : Nat
  q : L5          -- the selected limbs
  w : L4          -- h % 2^128 packed into four u32
  f0 : Nat
  f1 : Nat
  f2 : Nat
  f3 : Nat
  out : L4

/-- the arithmetic of `finish` from `// fully carry h` on, statement by statement -/
def finishArith (h : L5) (pad : L4) : FinishArith :=
  let h0 := h.l0
  let h1 := h.l1
  let h2 := h.l2
  let h3 := h.l3
  let h4 := h.l4
  -- fully carry h
  let c := h1 >>> 26
  let h1 := h1 &&& 0x3ffffff
  let h2a := h2 + c                                   -- u32 +=
  let c := h2a >>> 26
  let h2 := h2a &&& 0x3ffffff
  let h3a := h3 + c                                   -- u32 +=
  let c := h3a >>> 26
  let h3 := h3a &&& 0x3ffffff
  let h4a := h4 + c                                   -- u32 +=
  let c := h4a >>> 26
  let h4 := h4a &&& 0x3ffffff
  let cx5 := c * 5                                    -- u32 *
  let h0a := h0 + cx5                                 -- u32 +=
  let c := h0a >>> 26
  let h0 := h0a &&& 0x3ffffff
  let h1b := h1 + c                                   -- u32 +=
  let h1 := h1b
  let k : L5 := ⟨h0, h1, h2, h3, h4⟩
  -- compute h + -p
  let g0 := (h0 + 5) % 2 ^ 32                         -- wrapping_add
  let c := g0 >>> 26
  let g0 := g0 &&& 0x3ffffff
  let g1 := (h1 + c) % 2 ^ 32
  let c := g1 >>> 26
  let g1 := g1 &&& 0x3ffffff
  let g2 := (h2 + c) % 2 ^ 32
  let c := g2 >>> 26
  let g2 := g2 &&& 0x3ffffff
  let g3 := (h3 + c) % 2 ^ 32
  let c := g3 >>> 26
  let g3 := g3 &&& 0x3ffffff
  let g4 := ((h4 + c) % 2 ^ 32 + (2 ^ 32 - (1 <<< 26))) % 2 ^ 32     -- wrapping_add(c).wrapping_sub(1 << 26)
  let g : L5 := ⟨g0, g1, g2, g3, g4⟩
  -- select h if h < p, or h + -p if h >= p
  let mask := ((g4 >>> (32 - 1)) + (2 ^ 32 - 1)) % 2 ^ 32            -- wrapping_sub(1)
  let g0 := g0 &&& mask
  let g1 := g1 &&& mask
  let g2 := g2 &&& mask
  let g3 := g3 &&& mask
  let g4 := g4 &&& mask
  let nmask := mask ^^^ 0xffffffff                                   -- mask = !mask
  let h0 := (h0 &&& nmask) ||| g0
  let h1 := (h1 &&& nmask) ||| g1
  let h2 := (h2 &&& nmask) ||| g2
  let h3 := (h3 &&& nmask) ||| g3
  let h4 := (h4 &&& nmask) ||| g4
  let q : L5 := ⟨h0, h1, h2, h3, h4⟩
  -- h = h % (2^128)     (`<<` on u32 drops the high bits)
  let h0 := (h0 ||| ((h1 <<< 26) % 2 ^ 32)) &&& 0xffffffff
  let h1 := ((h1 >>> 6) ||| ((h2 <<< 20) % 2 ^ 32)) &&& 0xffffffff
  let h2 := ((h2 >>> 12) ||| ((h3 <<< 14) % 2 ^ 32)) &&& 0xffffffff
  let h3 := ((h3 >>> 18) ||| ((h4 <<< 8) % 2 ^ 32)) &&& 0xffffffff
  let w : L4 := ⟨h0, h1, h2, h3⟩
  -- h = mac = (h + pad) % (2^128)
  let f0 := h0 + pad.w0                               -- u64 +
  let h0 := f0 % 2 ^ 32                               -- f as u32
  let f1 := h1 + pad.w1 + (f0 >>> 32)                 -- u64 + +
  let h1 := f1 % 2 ^ 32
  let f2 := h2 + pad.w2 + (f1 >>> 32)
  let h2 := f2 % 2 ^ 32
  let f3 := h3 + pad.w3 + (f2 >>> 32)
  let h3 := f3 % 2 ^ 32
  { h2a, h3a, h4a, cx5, h0a, h1b, k, g, mask, q, w, f0, f1, f2, f3, out := ⟨h0, h1, h2, h3⟩ }

/-- every checked operation of `finish` fits its type -/
def FinishArith.Ok (f : FinishArith) : Prop :=
  f.h2a < 2 ^ 32 ∧ f.h3a < 2 ^ 32 ∧ f.h4a < 2 ^ 32 ∧ f.cx5 < 2 ^ 32 ∧ f.h0a < 2 ^ 32 ∧ f.h1b < 2 ^ 32 ∧
  f.f0 < 2 ^ 64 ∧ f.f1 < 2 ^ 64 ∧ f.f2 < 2 ^ 64 ∧ f.f3 < 2 ^ 64

instance (f : FinishArith) : Decidable f.Ok := by unfold FinishArith.Ok; infer_instance

/-- `self.buffer[self.leftover] = 1; for i in self.leftover+1..16 { self.buffer[i] = 0; }` -/
def padBuffer (buffer : Bytes) (leftover : Nat) : Bytes :=
  buffer.take leftover ++ [(1 : UInt8)] ++ zeros (16 - (leftover + 1))

/-- second half of `finish` (`// fully carry h` … `self.h[3] = h3`); `self.h[4]` keeps its value -/
def finishTail (st : State) : Except Panic State :=
  let f := finishArith st.h st.pad
  if f.Ok then .ok { st with h := ⟨f.out.w0, f.out.w1, f.out.w2, f.out.w3, st.h.l4⟩ } else .error .overflow

/-- `fn finish(&mut self)` -/
def finish (v : Variant) (st : State) : Except Panic State :=
  if st.leftover > 0 then
    if st.leftover < 16 then           -- `self.buffer[self.leftover] = 1` index check
      let buf := padBuffer st.buffer st.leftover
      match block { st with buffer := buf, finalized := true } buf with
      | .error e => .error e
      | .ok st => finishTail st
    else .error .index
  else
    match v with
    | .original => finishTail st
    | .repaired => finishTail { st with finalized := true }

/-- `for i in 0..want { self.buffer[self.leftover + i] = m[i]; }` with its index checks -/
def copyInto : Bytes → Nat → Bytes → Option Bytes
  | buf, _, [] => some buf
  | buf, off, x :: xs => if off < buf.length then copyInto (buf.set off x) (off + 1) xs else none

/-- `while m.len() >= 16 { self.block(&m[0..16]); m = &m[16..]; }` (fuel = m.len()) -/
def blocks : Nat → State → Bytes → Except Panic (State × Bytes)
  | 0, st, m => .ok (st, m)
  | fuel + 1, st, m =>
    if m.length ≥ 16 then
      match block st (m.take 16) with
      | .error e => .error e
      | .ok st' => blocks fuel st' (m.drop 16)
    else .ok (st, m)

/-- the part of `input` after the `if self.leftover > 0 { … }` -/
def inputTail (st : State) (m : Bytes) : Except Panic State :=
  match blocks m.length st m with
  | .error e => .error e
  | .ok (st, m) =>
    -- self.buffer[..m.len()].copy_from_slice(&m[..]);  self.leftover = m.len();
    if m.length ≤ st.buffer.length then
      .ok { st with buffer := m ++ st.buffer.drop m.length, leftover := m.length }
    else .error .index

/-- `fn input(&mut self, data: &[u8])` -/
def input (st : State) (data : Bytes) : Except Panic State :=
  if st.finalized then .error .assertion else    -- assert!(!self.finalized)
  if st.leftover > 0 then
    if st.leftover > 16 then .error .overflow else     -- `16 - self.leftover` (usize)
    let want := min (16 - st.leftover) data.length
    match copyInto st.buffer st.leftover (data.take want) with
    | none => .error .index
    | some buf =>
      let m := data.drop want
      let st := { st with buffer := buf, leftover := st.leftover + want }
      if st.leftover < 16 then .ok st else
      match block st st.buffer with
      | .error e => .error e
      | .ok st => inputTail { st with leftover := 0 } m
  else inputTail st data

/-- `fn reset(&mut self)` -/
def reset (st : State) : State :=
  { st with h := ⟨0, 0, 0, 0, 0⟩, leftover := 0, finalized := false }

/-- `write_u32_le` of `h[0..4]` into `output[0..16]` -/
def tagBytes (h : L5) : Bytes :=
  natToLE 4 h.l0 ++ natToLE 4 h.l1 ++ natToLE 4 h.l2 ++ natToLE 4 h.l3

/-- `fn raw_result(&mut self, output: &mut [u8])`; `outlen = output.len()`; answers the first 16 bytes of `output` -/
def raw_result (v : Variant) (st : State) (outlen : Nat) : Except Panic (State × Bytes) :=
  if outlen < 16 then .error .assertion else     -- assert!(output.len() >= 16)
  if !st.finalized then
    match finish v st with
    | .error e => .error e
    | .ok st => .ok (st, tagBytes st.h)
  else .ok (st, tagBytes st.h)

/-- `fn result(&mut self) -> MacResult` -/
def result (v : Variant) (st : State) : Except Panic (State × Bytes) := raw_result v st 16

/-- `fn output_bytes(&self) -> usize` -/
def output_bytes (_st : State) : Nat := 16

/-- feed the chunks one `input` call each -/
def inputs : State → List Bytes → Except Panic State
  | st, [] => .ok st
  | st, c :: cs =>
    match input st c with
    | .error e => .error e
    | .ok st' => inputs st' cs

/-- `Poly1305::new(key)`, one `input` per chunk, `raw_result` into a 16-byte buffer -/
def mac (v : Variant) (key : Bytes) (chunks : List Bytes) : Except Panic Bytes :=
  match inputs (new key) chunks with
  | .error e => .error e
  | .ok st =>
    match raw_result v st 16 with
    | .error e => .error e
    | .ok (_, tag) => .ok tag

/-! ### operation histories (C09) -/

/-- one step of a history of a `Poly1305` object -/
inductive Op where
  | input (data : Bytes)
  | result
  | rawResult (outlen : Nat)
  | reset
  deriving DecidableEq, Repr

/-- run one operation: new state and the emitted tag, if any -/
def stepOp (v : Variant) (st : State) : Op → Except Panic (State × Option Bytes)
  | .input d => match input st d with
    | .error e => .error e
    | .ok st' => .ok (st', none)
  | .result => match result v st with
    | .error e => .error e
    | .ok (st', t) => .ok (st', some t)
  | .rawResult n => match raw_result v st n with
    | .error e => .error e
    | .ok (st', t) => .ok (st', some t)
  | .reset => .ok (reset st, none)

/-- run a history; the outputs emitted before the first panic are kept, then the panic (if any) -/
def runOps (v : Variant) : State → List Op → List Bytes × Option Panic
  | _, [] => ([], none)
  | st, op :: ops =>
    match stepOp v st op with
    | .error e => ([], some e)
    | .ok (st', out) =>
      let (outs, e) := runOps v st' ops
      (match out with | some t => t :: outs | none => outs, e)

end Cx.Impl.Poly1305
