/-
  Impl.ConstantTime — model of /repo/src/constant_time.rs, one definition per Rust function,
  on the same machine types (`Choice` wraps a `u64`).
-/
import CxVerif.Util.Bytes
namespace Cx.Impl.CT

/-- `pub struct Choice(pub(crate) u64)` -/
structure Choice where
  v : UInt64
  deriving DecidableEq, Repr

namespace Choice
def isTrue (c : Choice) : Bool := c.v == 1
def isFalse (c : Choice) : Bool := c.v == 0
def negate (c : Choice) : Choice := ⟨(1 : UInt64) ^^^ c.v⟩
def and (a b : Choice) : Choice := ⟨a.v &&& b.v⟩
def or (a b : Choice) : Choice := ⟨a.v ||| b.v⟩
def xor (a b : Choice) : Choice := ⟨a.v ^^^ b.v⟩
end Choice

/-- `CtOption<T>::from((c, t)).into_option()` -/
def ctOptionInto {α} (present : Choice) (t : α) : Option α :=
  if present.isTrue then some t else none

/-- `u64::wrapping_neg` -/
def wneg (x : UInt64) : UInt64 := 0 - x

-- impl CtZero for u64
def u64_ct_zero (x : UInt64) : Choice := ⟨(1 : UInt64) ^^^ ((x ||| wneg x) >>> 63)⟩
def u64_ct_nonzero (x : UInt64) : Choice := ⟨(x ||| wneg x) >>> 63⟩
-- impl CtEqual for u64
def u64_ct_eq (a b : UInt64) : Choice := u64_ct_zero (a ^^^ b)
def u64_ct_ne (a b : UInt64) : Choice := u64_ct_nonzero (a ^^^ b)
-- impl CtZero / CtEqual for u8
def u8_ct_zero (x : UInt8) : Choice := u64_ct_zero x.toUInt64
def u8_ct_nonzero (x : UInt8) : Choice := u64_ct_nonzero x.toUInt64
def u8_ct_eq (a b : UInt8) : Choice := u64_ct_eq a.toUInt64 b.toUInt64
def u8_ct_ne (a b : UInt8) : Choice := u64_ct_ne a.toUInt64 b.toUInt64
-- impl CtLesser / CtGreater for u64
def u64_ct_lt (a b : UInt64) : Choice := ⟨(a ^^^ ((a ^^^ b) ||| ((a - b) ^^^ b))) >>> 63⟩
def u64_ct_gt (a b : UInt64) : Choice := u64_ct_lt b a
/-- trait default `CtGreater::ct_le` as written in the source (see Extracted.CtDefaults) -/
def u64_ct_le_swapped (a b : UInt64) : Choice := u64_ct_gt b a
def u64_ct_ge_swapped (a b : UInt64) : Choice := u64_ct_lt b a
/-- repaired defaults: negation of the strict comparison -/
def u64_ct_le (a b : UInt64) : Choice := (u64_ct_gt a b).negate
def u64_ct_ge (a b : UInt64) : Choice := (u64_ct_lt a b).negate

-- OR-accumulation loops
def accBytes (l : List UInt8) : UInt64 := l.foldl (fun acc b => acc ||| b.toUInt64) 0
def accWords (l : List UInt64) : UInt64 := l.foldl (fun acc b => acc ||| b) 0
def bytes_ct_zero (l : List UInt8) : Choice := u64_ct_zero (accBytes l)
def bytes_ct_nonzero (l : List UInt8) : Choice := u64_ct_nonzero (accBytes l)
def words_ct_zero (l : List UInt64) : Choice := u64_ct_zero (accWords l)
def words_ct_nonzero (l : List UInt64) : Choice := u64_ct_nonzero (accWords l)

def accXorBytes (a b : List UInt8) : UInt64 :=
  (a.zip b).foldl (fun acc p => acc ||| (p.1.toUInt64 ^^^ p.2.toUInt64)) 0
def accXorWords (a b : List UInt64) : UInt64 :=
  (a.zip b).foldl (fun acc p => acc ||| (p.1 ^^^ p.2)) 0

/-- `impl CtEqual for &[u8; N]` (lengths equal by typing) -/
def array_u8_ct_eq (a b : List UInt8) : Choice := u64_ct_zero (accXorBytes a b)
def array_u8_ct_ne (a b : List UInt8) : Choice := (array_u8_ct_eq a b).negate
def array_u64_ct_eq (a b : List UInt64) : Choice := u64_ct_zero (accXorWords a b)
def array_u64_ct_ne (a b : List UInt64) : Choice := (array_u64_ct_eq a b).negate
/-- `impl CtEqual for &[u8]`: `assert_eq!(self.len(), b.len())` -/
def slice_u8_ct_eq (a b : List UInt8) : Option Choice :=
  if a.length = b.length then some (array_u8_ct_eq a b) else none
def slice_u64_ct_eq (a b : List UInt64) : Option Choice :=
  if a.length = b.length then some (array_u64_ct_eq a b) else none

/-- one step of the borrow chain of `impl CtLesser for &[u8; N]`:
    `x1 : i16 = x - borrow - y`, `x2 : i8 = (x1 >> 8) as i8`, `borrow = (0 - x2) as u8`.
    The `i16`/`i8` values are modelled in `Int` (`>> 8` = floor division by 256, the final cast
    `as u8` = `% 256`); `borrowStep_i16_range` in Props.C18 shows `x1` fits `i16` and `x2` fits `i8`
    whenever `borrow ≤ 1`, so no wrap-around of the Rust types is lost. -/
def borrowX1 (borrow x y : UInt8) : Int := ((x.toNat : Int) - borrow.toNat) - y.toNat
def borrowStep (borrow x y : UInt8) : UInt8 :=
  let x2 : Int := borrowX1 borrow x y / 256
  UInt8.ofNat (((0 - x2) % 256).toNat)

/-- big-endian `<` on equal-length byte arrays: iterate from the last byte -/
def array_u8_ct_lt (a b : List UInt8) : Choice :=
  let borrow := (a.reverse.zip b.reverse).foldl (fun bo p => borrowStep bo p.1 p.2) 0
  let bw := borrow.toUInt64
  ⟨(bw ||| wneg bw) >>> 63⟩

-- masked swap / set
def maskOf (swap : Choice) : UInt64 := wneg swap.v
def ct_array64_maybe_swap_with (a b : List UInt64) (swap : Choice) : List UInt64 × List UInt64 :=
  let tmp := List.zipWith (fun xa xb => (xa ^^^ xb) &&& maskOf swap) a b
  (List.zipWith (· ^^^ ·) a tmp, List.zipWith (· ^^^ ·) b tmp)
def ct_array64_maybe_set (a b : List UInt64) (swap : Choice) : List UInt64 :=
  let tmp := List.zipWith (fun xa xb => (xa ^^^ xb) &&& maskOf swap) a b
  List.zipWith (· ^^^ ·) a tmp
/-- the `[i32; N]` versions, modelled on the `u32` bit patterns -/
def maskOf32 (swap : Choice) : UInt32 := 0 - swap.v.toUInt32
def ct_array32_maybe_swap_with (a b : List UInt32) (swap : Choice) : List UInt32 × List UInt32 :=
  let tmp := List.zipWith (fun xa xb => (xa ^^^ xb) &&& maskOf32 swap) a b
  (List.zipWith (· ^^^ ·) a tmp, List.zipWith (· ^^^ ·) b tmp)
def ct_array32_maybe_set (a b : List UInt32) (swap : Choice) : List UInt32 :=
  let tmp := List.zipWith (fun xa xb => (xa ^^^ xb) &&& maskOf32 swap) a b
  List.zipWith (· ^^^ ·) a tmp

/-- `MacResult == ` (src/mac.rs) and `Tag ==`: `ct_eq` on slices guarded by the length test -/
def macResultEq (a b : List UInt8) : Bool :=
  if a.length = b.length then (array_u8_ct_eq a b).isTrue else false

end Cx.Impl.CT
