/-
  Impl.Argon2 — code-shaped model of /repo/src/kdf/argon2.rs: one `def` per Rust fn, same names, same
  decomposition, the u32/u64 index arithmetic written with overflow-CHECKED operations (`none` = the panic of an
  overflow-checked build; the no-overflow theorems of Props/C11 show they never fire on valid parameters, so
  checked = wrapping = mathematical there), slice indexing out of bounds = `none`.

  -- API:
  --   Cx.Impl.Argon2.Params  (+ Params.argon2d/argon2i/argon2id, .memory_kb, .parallelism, .iterations, .version :
  --                            Option (Except InvalidParam Params); outer `none` = panic)
  --   Cx.Impl.Argon2.argon2_at (params) (password salt key aad : Bytes) (tag_len : Nat) : Option Bytes
  --   Cx.Impl.Argon2.argon2 (T : Nat) (params) (password salt key aad : Bytes) : Option Bytes   (`argon2::<T>`)
  --   Cx.Impl.Argon2.H0.new, hprime, hprime_block_init, index_alpha, fill_block, fill_segment, next_addresses, p,
  --   gb, add_and_mul, process

  BLAKE2b is used through the context model of Impl.Blake2 exactly as the code does (`Context::<512>::new()
  .update(..)…finalize()`, `ContextDyn::new(n)…finalize_at(out)`), profile `.wrapping` (the code as it is).
  Blocks are `[u64; 128]` = `Vector UInt64 128` (type shared with the Spec); the byte views `as_u8`/`as_u8_mut`
  are the little-endian encodings (x86-64 and every little-endian target; on a big-endian target the code's
  pointer cast would differ — not modelled).  `usize` is 64 bits.
-/
import CxVerif.Spec.Argon2
import CxVerif.Impl.Blake2
namespace Cx.Impl.Argon2
open Cx
open Cx.Spec.Argon2 (Block)
open Cx.Impl.Blake2 (Profile Context ContextDyn setSlice)

/-! ### machine arithmetic (overflow-checked build) -/

def add32 (a b : Nat) : Option Nat := if a + b < 2 ^ 32 then some (a + b) else none
def mul32 (a b : Nat) : Option Nat := if a * b < 2 ^ 32 then some (a * b) else none
def add64 (a b : Nat) : Option Nat := if a + b < 2 ^ 64 then some (a + b) else none
def mul64 (a b : Nat) : Option Nat := if a * b < 2 ^ 64 then some (a * b) else none
/-- `a - b` on an unsigned type -/
def subU (a b : Nat) : Option Nat := if b ≤ a then some (a - b) else none
/-- `a / b`, `a % b`: panic on a zero divisor -/
def divU (a b : Nat) : Option Nat := if b = 0 then none else some (a / b)
def remU (a b : Nat) : Option Nat := if b = 0 then none else some (a % b)

/-! ### Params -/

/-- `enum Type` with `#[repr(u32)]` discriminants 0, 1, 2 -/
inductive Type'
  | Argon2d
  | Argon2i
  | Argon2id
  deriving DecidableEq, Repr

def Type'.toNat : Type' → Nat
  | .Argon2d => 0
  | .Argon2i => 1
  | .Argon2id => 2

inductive InvalidParam
  | ParallelismZero
  | ParallelismTooHigh
  | IterationsZero
  | UnknownVersion
  | MemoryTooHigh
  deriving DecidableEq, Repr

/-- `struct Params` (`NonZeroU32` fields hold values ≥ 1 by construction of the setters) -/
structure Params where
  parallelism : Nat
  iterations : Nat
  memory_kb : Nat
  version : Nat
  hash_type : Type'
  memory_blocks : Nat
  segment_length : Nat
  lane_length : Nat
  deriving Repr

def SYNC_POINTS : Nat := 4
def BLOCK_SIZE_U64 : Nat := 128
def BLOCK_SIZE : Nat := BLOCK_SIZE_U64 * 8

def Params.def (hash_type : Type') : Params :=
  { parallelism := 1, iterations := 1, memory_kb := 32, version := 0x13, hash_type := hash_type,
    memory_blocks := 32, segment_length := 8, lane_length := 32 }

def Params.argon2d : Params := Params.def .Argon2d
def Params.argon2id : Params := Params.def .Argon2id
def Params.argon2i : Params := Params.def .Argon2i

/-- `parallelism_override_memory` (all arithmetic u32) -/
def Params.parallelism_override_memory (self : Params) : Option Params := do
  let memory_blocks := self.memory_kb
  let p8 ← mul32 8 self.parallelism
  let (memory_blocks, self) ←
    if memory_blocks < p8 then do
      let mb ← mul32 8 self.parallelism
      pure (mb, { self with memory_kb := mb })
    else pure (memory_blocks, self)
  let segment_length ← divU memory_blocks (← mul32 self.parallelism SYNC_POINTS)
  let memory_blocks ← mul32 segment_length (← mul32 self.parallelism SYNC_POINTS)
  let lane_length ← mul32 segment_length SYNC_POINTS
  pure { self with segment_length := segment_length, memory_blocks := memory_blocks, lane_length := lane_length }

/-- `memory_kb(self, memory_kb: u32)` -/
def Params.memory_kb' (self : Params) (memory_kb : Nat) : Option (Except InvalidParam Params) :=
  match Params.parallelism_override_memory { self with memory_kb := memory_kb } with
  | none => none
  | some s => some (.ok s)

/-- `parallelism(self, parallelism: u32)` -/
def Params.parallelism' (self : Params) (parallelism : Nat) : Option (Except InvalidParam Params) :=
  if parallelism ≥ 0x1000000 then some (.error .ParallelismTooHigh)
  else if parallelism = 0 then some (.error .ParallelismZero)
  else match Params.parallelism_override_memory { self with parallelism := parallelism } with
    | none => none
    | some s => some (.ok s)

/-- `iterations(self, iterations: u32)` -/
def Params.iterations' (self : Params) (iterations : Nat) : Option (Except InvalidParam Params) :=
  if iterations = 0 then some (.error .IterationsZero)
  else some (.ok { self with iterations := iterations })

/-- `version(self, version: u32)` -/
def Params.version' (self : Params) (version : Nat) : Option (Except InvalidParam Params) :=
  if ¬ (version = 0x13 ∨ version = 0x10) then some (.error .UnknownVersion)
  else some (.ok { self with version := version })

/-- NOT a Rust fn: the builder chain `base.memory_kb(m).and_then(iterations(t)).and_then(parallelism(p))
    .and_then(version(v))` as the harness (and a typical caller) writes it; `none` = panic, `some (error e)` = the
    first `Err` -/
def Params.build (base : Params) (v t m p : Nat) : Option (Except InvalidParam Params) :=
  match base.memory_kb' m with
  | none => none
  | some (.error e) => some (.error e)
  | some (.ok s) =>
  match s.iterations' t with
  | none => none
  | some (.error e) => some (.error e)
  | some (.ok s) =>
  match s.parallelism' p with
  | none => none
  | some (.error e) => some (.error e)
  | some (.ok s) => s.version' v

/-! ### Block, Memory -/

def Block.new : Block := Vector.replicate 128 0

/-- `as_u8`: the 1024 bytes of the block (little-endian target) -/
def Block.as_u8 (b : Block) : Bytes := b.toList.flatMap u64le

/-- the block whose `as_u8_mut()` view was filled with `bytes` -/
def Block.of_u8 (bytes : Bytes) : Block := Vector.ofFn fun k => leU64 (bytes.drop (8 * k.val))

/-- `BitXorAssign`: `xor_array64_mut` -/
def Block.bitxor_assign (self rhs : Block) : Block := Vector.zipWith (· ^^^ ·) self rhs

structure Memory where
  lane_length : Nat
  blocks : Array Block

def Memory.stride (self : Memory) : Nat := self.lane_length

/-- `Memory::new`: `parallelism as usize * lane_length as usize` zero blocks (usize arithmetic, 64 bits) -/
def Memory.new (params : Params) : Option Memory := do
  let nb_blocks ← mul64 params.parallelism params.lane_length
  pure { lane_length := params.lane_length, blocks := Array.replicate nb_blocks Block.new }

def Memory.block_index (self : Memory) (index : Nat) : Option Block := self.blocks[index]?
def Memory.block_index64 (self : Memory) (index64 : Nat) : Option Block := self.blocks[index64]?

/-- `*memory.mut_block_index(index) = b` -/
def Memory.set_block_index (self : Memory) (index : Nat) (b : Block) : Option Memory :=
  if index < self.blocks.size then some { self with blocks := self.blocks.setIfInBounds index b } else none

/-- `mut_block_at(row, col)`: position `row * lane_length + col` (usize), then assignment through the reference -/
def Memory.set_block_at (self : Memory) (row col : Nat) (b : Block) : Option Memory := do
  let pos ← add64 (← mul64 row self.lane_length) col
  self.set_block_index pos b

structure BlockPos where
  pass : Nat
  lane : Nat
  slice : Nat
  index : Nat
  deriving Repr

/-! ### permutation P -/

/-- `add_and_mul`: `xy = (x & 0xffff_ffff) * (y & 0xffff_ffff)` (the product of two 32-bit values fits u64: theorem
    `add_and_mul_no_overflow`), `x.wrapping_add(y.wrapping_add(xy << 1))` -/
@[inline] def add_and_mul (x y : UInt64) : UInt64 :=
  let xy := (x &&& 0xffffffff) * (y &&& 0xffffffff)
  x + (y + (xy <<< 1))

/-- `u64::rotate_right` -/
@[inline] def rotate_right (x : UInt64) (n : UInt64) : UInt64 := (x >>> n) ||| (x <<< (64 - n))

structure Q4 where
  a : UInt64
  b : UInt64
  c : UInt64
  d : UInt64

/-- `gb(a, b, c, d)` -/
@[inline] def gb (a b c d : UInt64) : Q4 :=
  let a := add_and_mul a b
  let d := rotate_right (d ^^^ a) 32
  let c := add_and_mul c d
  let b := rotate_right (b ^^^ c) 24
  let a := add_and_mul a b
  let d := rotate_right (d ^^^ a) 16
  let c := add_and_mul c d
  let b := rotate_right (b ^^^ c) 63
  ⟨a, b, c, d⟩

structure V16 where
  v0 : UInt64
  v1 : UInt64
  v2 : UInt64
  v3 : UInt64
  v4 : UInt64
  v5 : UInt64
  v6 : UInt64
  v7 : UInt64
  v8 : UInt64
  v9 : UInt64
  v10 : UInt64
  v11 : UInt64
  v12 : UInt64
  v13 : UInt64
  v14 : UInt64
  v15 : UInt64

/-- `p(v0, …, v15)` -/
def p (v : V16) : V16 :=
  let ⟨v0, v1, v2, v3, v4, v5, v6, v7, v8, v9, v10, v11, v12, v13, v14, v15⟩ := v
  let ⟨v0, v4, v8, v12⟩ := gb v0 v4 v8 v12
  let ⟨v1, v5, v9, v13⟩ := gb v1 v5 v9 v13
  let ⟨v2, v6, v10, v14⟩ := gb v2 v6 v10 v14
  let ⟨v3, v7, v11, v15⟩ := gb v3 v7 v11 v15
  let ⟨v0, v5, v10, v15⟩ := gb v0 v5 v10 v15
  let ⟨v1, v6, v11, v12⟩ := gb v1 v6 v11 v12
  let ⟨v2, v7, v8, v13⟩ := gb v2 v7 v8 v13
  let ⟨v3, v4, v9, v14⟩ := gb v3 v4 v9 v14
  ⟨v0, v1, v2, v3, v4, v5, v6, v7, v8, v9, v10, v11, v12, v13, v14, v15⟩

/-! ### fill_block -/

/-- body of the first `for i in 0..8` of `fill_block`: `v0..v15 = block_r[16*i ..= 16*i+15]`, `p(..)`, write back -/
def fill_block_row (block_r : Block) (i : Fin 8) : Block :=
  let v := p ⟨block_r[16 * i.val], block_r[16 * i.val + 1], block_r[16 * i.val + 2], block_r[16 * i.val + 3], block_r[16 * i.val + 4], block_r[16 * i.val + 5], block_r[16 * i.val + 6], block_r[16 * i.val + 7],
              block_r[16 * i.val + 8], block_r[16 * i.val + 9], block_r[16 * i.val + 10], block_r[16 * i.val + 11], block_r[16 * i.val + 12], block_r[16 * i.val + 13], block_r[16 * i.val + 14], block_r[16 * i.val + 15]⟩
  let block_r := block_r.set (16 * i.val) v.v0
  let block_r := block_r.set (16 * i.val + 1) v.v1
  let block_r := block_r.set (16 * i.val + 2) v.v2
  let block_r := block_r.set (16 * i.val + 3) v.v3
  let block_r := block_r.set (16 * i.val + 4) v.v4
  let block_r := block_r.set (16 * i.val + 5) v.v5
  let block_r := block_r.set (16 * i.val + 6) v.v6
  let block_r := block_r.set (16 * i.val + 7) v.v7
  let block_r := block_r.set (16 * i.val + 8) v.v8
  let block_r := block_r.set (16 * i.val + 9) v.v9
  let block_r := block_r.set (16 * i.val + 10) v.v10
  let block_r := block_r.set (16 * i.val + 11) v.v11
  let block_r := block_r.set (16 * i.val + 12) v.v12
  let block_r := block_r.set (16 * i.val + 13) v.v13
  let block_r := block_r.set (16 * i.val + 14) v.v14
  let block_r := block_r.set (16 * i.val + 15) v.v15
  block_r

/-- body of the second `for i in 0..8`: `v0..v15 = block_r[2*i + {0,1,16,17,…,112,113}]`, `p(..)`, write back -/
def fill_block_col (block_r : Block) (i : Fin 8) : Block :=
  let v := p ⟨block_r[2 * i.val], block_r[2 * i.val + 1], block_r[2 * i.val + 16], block_r[2 * i.val + 17], block_r[2 * i.val + 32], block_r[2 * i.val + 33], block_r[2 * i.val + 48], block_r[2 * i.val + 49],
              block_r[2 * i.val + 64], block_r[2 * i.val + 65], block_r[2 * i.val + 80], block_r[2 * i.val + 81], block_r[2 * i.val + 96], block_r[2 * i.val + 97], block_r[2 * i.val + 112], block_r[2 * i.val + 113]⟩
  let block_r := block_r.set (2 * i.val) v.v0
  let block_r := block_r.set (2 * i.val + 1) v.v1
  let block_r := block_r.set (2 * i.val + 16) v.v2
  let block_r := block_r.set (2 * i.val + 17) v.v3
  let block_r := block_r.set (2 * i.val + 32) v.v4
  let block_r := block_r.set (2 * i.val + 33) v.v5
  let block_r := block_r.set (2 * i.val + 48) v.v6
  let block_r := block_r.set (2 * i.val + 49) v.v7
  let block_r := block_r.set (2 * i.val + 64) v.v8
  let block_r := block_r.set (2 * i.val + 65) v.v9
  let block_r := block_r.set (2 * i.val + 80) v.v10
  let block_r := block_r.set (2 * i.val + 81) v.v11
  let block_r := block_r.set (2 * i.val + 96) v.v12
  let block_r := block_r.set (2 * i.val + 97) v.v13
  let block_r := block_r.set (2 * i.val + 112) v.v14
  let block_r := block_r.set (2 * i.val + 113) v.v15
  block_r

/-- `fill_block(prev_block, ref_block, next_block, with_xor)`: returns the new `*next_block` -/
def fill_block (prev_block ref_block next_block : Block) (with_xor : Bool) : Block :=
  let block_r := ref_block
  let block_r := Block.bitxor_assign block_r prev_block
  let block_tmp := block_r
  let block_tmp := if with_xor then Block.bitxor_assign block_tmp next_block else block_tmp
  -- Apply permutation row-wise
  let block_r := (List.finRange 8).foldl fill_block_row block_r
  -- Apply permutations column-wise
  let block_r := (List.finRange 8).foldl fill_block_col block_r
  let next_block := block_tmp
  Block.bitxor_assign next_block block_r

/-- `next_addresses(address_block, input_block, zero_block)`: returns `(address_block, input_block)` -/
def next_addresses (address_block input_block zero_block : Block) : Option (Block × Block) :=
  -- `input_block[6] += 1` (u64, checked)
  if input_block[6] = 0xffffffffffffffff then none
  else
    let input_block := input_block.set 6 (input_block[6] + 1)
    let address_block := fill_block zero_block input_block address_block false
    let address_block := fill_block zero_block address_block address_block false
    some (address_block, input_block)

/-! ### hprime -/

/-- the `while bytes > 64` loop of `hprime` (fuel: at most `bytes` iterations); state `(output, vi_prev, bytes, pos)` -/
def hprime_loop : Nat → Bytes → Bytes → Nat → Nat → Option (Bytes × Bytes × Nat × Nat)
  | 0, output, vi_prev, bytes, pos => some (output, vi_prev, bytes, pos)
  | fuel + 1, output, vi_prev, bytes, pos =>
    if bytes > 64 then
      match Context.new Blake2.b 512 with
      | none => none
      | some c =>
      match Context.update Blake2.b .wrapping c vi_prev with
      | none => none
      | some c =>
      match Context.finalize_at Blake2.b .wrapping 512 c vi_prev.length with
      | none => none
      | some vi_prev =>
        -- `output[pos..pos + 32].copy_from_slice(&vi_prev[0..32])`
        if ¬ (pos + 32 ≤ output.length ∧ 32 ≤ vi_prev.length) then none
        else
          let output := setSlice output pos (vi_prev.take 32)
          hprime_loop fuel output vi_prev (bytes - 32) (pos + 32)
    else some (output, vi_prev, bytes, pos)

/-- `hprime(output, input)` with `output.len() = output_len`; returns the filled output -/
def hprime (output_len : Nat) (input : Bytes) : Option Bytes :=
  if output_len ≤ 64 then
    match ContextDyn.new Blake2.b output_len with
    | none => none
    | some c =>
    match c.update Blake2.b .wrapping (natToLE 4 (output_len % 2 ^ 32)) with
    | none => none
    | some c =>
    match c.update Blake2.b .wrapping input with
    | none => none
    | some c => c.finalize_at Blake2.b .wrapping output_len
  else
    let output := zeros output_len
    match Context.new Blake2.b 512 with
    | none => none
    | some c =>
    match Context.update Blake2.b .wrapping c (natToLE 4 (output_len % 2 ^ 32)) with
    | none => none
    | some c =>
    match Context.update Blake2.b .wrapping c input with
    | none => none
    | some c =>
    match Context.finalize Blake2.b .wrapping 512 c with
    | none => none
    | some v0 =>
      if ¬ (32 ≤ output.length ∧ 32 ≤ v0.length) then none
      else
        let output := setSlice output 0 (v0.take 32)
        let bytes := output_len - 32
        let pos := 32
        let vi_prev := v0
        match hprime_loop bytes output vi_prev bytes pos with
        | none => none
        | some (output, vi_prev, bytes, pos) =>
          match ContextDyn.new Blake2.b bytes with
          | none => none
          | some c =>
          match c.update Blake2.b .wrapping vi_prev with
          | none => none
          | some c =>
            -- `finalize_at(&mut output[pos..pos + bytes])`
            if ¬ (pos + bytes ≤ output.length) then none
            else match c.finalize_at Blake2.b .wrapping bytes with
              | none => none
              | some last => some (setSlice output pos last)

/-- the `for _ in 0..29` loop of `hprime_block_init`; state `(output, vi_prev, pos)` -/
def hprime_block_init_loop : Nat → Bytes → Bytes → Nat → Option (Bytes × Bytes × Nat)
  | 0, output, vi_prev, pos => some (output, vi_prev, pos)
  | n + 1, output, vi_prev, pos =>
    match Context.new Blake2.b 512 with
    | none => none
    | some c =>
    match Context.update Blake2.b .wrapping c vi_prev with
    | none => none
    | some c =>
    match Context.finalize_at Blake2.b .wrapping 512 c vi_prev.length with
    | none => none
    | some vi_prev =>
      if ¬ (pos + 32 ≤ output.length ∧ 32 ≤ vi_prev.length) then none
      else hprime_block_init_loop n (setSlice output pos (vi_prev.take 32)) vi_prev (pos + 32)

/-- `hprime_block_init(output: &mut [u8; 1024], h0, col, lane)`: returns the 1024 output bytes -/
def hprime_block_init (h0 : Bytes) (col lane : Nat) : Option Bytes :=
  let output := zeros 1024
  match Context.new Blake2.b 512 with
  | none => none
  | some c =>
  match Context.update Blake2.b .wrapping c (natToLE 4 1024) with
  | none => none
  | some c =>
  match Context.update Blake2.b .wrapping c h0 with
  | none => none
  | some c =>
  match Context.update Blake2.b .wrapping c (natToLE 4 col) with
  | none => none
  | some c =>
  match Context.update Blake2.b .wrapping c (natToLE 4 lane) with
  | none => none
  | some c =>
  match Context.finalize Blake2.b .wrapping 512 c with
  | none => none
  | some v0 =>
    if ¬ (32 ≤ v0.length) then none
    else
      let output := setSlice output 0 (v0.take 32)
      match hprime_block_init_loop 29 output v0 32 with
      | none => none
      | some (output, vi_prev, pos) =>
        match Context.new Blake2.b 512 with
        | none => none
        | some c =>
        match Context.update Blake2.b .wrapping c vi_prev with
        | none => none
        | some c =>
          if ¬ (pos + 64 ≤ output.length) then none
          else match Context.finalize_at Blake2.b .wrapping 512 c 64 with
            | none => none
            | some last => some (setSlice output pos last)

/-! ### index_alpha -/

/-- the block expression bound to `reference_area_size` in `index_alpha` (u32 arithmetic) -/
def index_alpha.reference_area_size (params : Params) (position : BlockPos) (same_lane : Bool) : Option Nat :=
  if position.pass = 0 then
    if position.slice = 0 then subU position.index 1
    else if same_lane then do
      let a ← mul32 position.slice params.segment_length
      let b ← add32 a position.index
      subU b 1
    else if position.index = 0 then do
      let a ← mul32 position.slice params.segment_length
      subU a 1
    else mul32 position.slice params.segment_length
  else
    if same_lane then do
      let a ← subU params.lane_length params.segment_length
      let b ← add32 a position.index
      subU b 1
    else if position.index = 0 then do
      let a ← subU params.lane_length params.segment_length
      subU a 1
    else subU params.lane_length params.segment_length

/-- the block expression bound to `start_position` in `index_alpha` (1.2.5 Computing starting position; u32) -/
def index_alpha.start_position (params : Params) (position : BlockPos) : Option Nat :=
  if position.pass ≠ 0 then
    if position.slice = SYNC_POINTS - 1 then some 0
    else do
      let s1 ← add32 position.slice 1
      mul32 s1 params.segment_length
  else some 0

/-- `index_alpha(params, position, pseudo_rand: u32, same_lane) -> u32`: u32 arithmetic for the reference area
    size and start position, u64 for the mapping -/
def index_alpha (params : Params) (position : BlockPos) (pseudo_rand : Nat) (same_lane : Bool) : Option Nat := do
  let reference_area_size ← index_alpha.reference_area_size params position same_lane
  let relative_position := pseudo_rand
  let relative_position := (← mul64 relative_position relative_position) >>> 32
  let t ← mul64 reference_area_size relative_position
  let relative_position ← subU (← subU reference_area_size 1) (t >>> 32)
  let start_position ← index_alpha.start_position params position
  -- 1.2.6. Computing absolute position
  let r ← remU (← add64 start_position relative_position) params.lane_length
  pure (r % 2 ^ 32)

/-! ### fill_segment -/

/-- loop state of `fill_segment` -/
structure SegState where
  memory : Memory
  input_block : Block
  address_block : Block
  curr_offset : Nat
  prev_offset : Nat

/-- 1.1 Rotating prev_offset if needed: `if curr_offset % memory.stride() == 1 { prev_offset = curr_offset - 1 }` -/
def fill_segment_body.rotate (st : SegState) : Option Nat :=
  match remU st.curr_offset st.memory.stride with
  | none => none
  | some m => if m = 1 then subU st.curr_offset 1 else some st.prev_offset

/-- 1.2.1 Taking pseudo-random value: from the address block (refreshed when `i % 128 == 0`) or from word 0 of the
    previous block; returns `(address_block, input_block, pseudo_rand)` -/
def fill_segment_body.pseudo_rand (data_independent_addressing : Bool) (zero_block : Block) (st : SegState)
    (prev_offset i : Nat) : Option (Block × Block × UInt64) :=
  if data_independent_addressing then
    match (if i % 128 = 0 then next_addresses st.address_block st.input_block zero_block
           else some (st.address_block, st.input_block)) with
    | none => none
    | some (address_block, input_block) =>
      some (address_block, input_block, address_block[i % 128]'(Nat.mod_lt _ (by omega)))
  else
    match st.memory.block_index prev_offset with
    | none => none
    | some b => some (st.address_block, st.input_block, b[0])

/-- 1.2.2 Computing the lane of the reference block -/
def fill_segment_body.ref_lane (params : Params) (position : BlockPos) (pseudo_rand : UInt64) : Option Nat :=
  if position.pass = 0 ∧ position.slice = 0 then some position.lane
  else remU (pseudo_rand >>> 32).toNat params.parallelism

/-- 1.2.3 … 2: reference index, the three block reads, `fill_block`, the write; returns the memory -/
def fill_segment_body.new_block (params : Params) (position : BlockPos) (st : SegState) (prev_offset ref_lane : Nat)
    (pseudo_rand : UInt64) (i : Nat) : Option Memory :=
  let position := { position with index := i }
  let pseudo_rand_u32 := (pseudo_rand &&& 0xffffffff).toNat % 2 ^ 32
  let same_lane := ref_lane == position.lane
  match index_alpha params position pseudo_rand_u32 same_lane with
  | none => none
  | some ref_index =>
  match (mul64 params.lane_length ref_lane).bind (fun a => add64 a ref_index) with
  | none => none
  | some index =>
  match st.memory.block_index st.curr_offset with
  | none => none
  | some curr_block =>
  match st.memory.block_index prev_offset with
  | none => none
  | some prev_block =>
  match st.memory.block_index64 index with
  | none => none
  | some ref_block =>
    let with_xor := !(params.version == 0x10 || position.pass == 0)
    let curr_block := fill_block prev_block ref_block curr_block with_xor
    st.memory.set_block_index st.curr_offset curr_block

/-- one iteration of `for i in starting_index..params.segment_length` -/
def fill_segment_body (params : Params) (position : BlockPos) (data_independent_addressing : Bool)
    (zero_block : Block) (st : SegState) (i : Nat) : Option SegState :=
  match fill_segment_body.rotate st with
  | none => none
  | some prev_offset =>
  match fill_segment_body.pseudo_rand data_independent_addressing zero_block st prev_offset i with
  | none => none
  | some (address_block, input_block, pseudo_rand) =>
  match fill_segment_body.ref_lane params position pseudo_rand with
  | none => none
  | some ref_lane =>
  match fill_segment_body.new_block params position st prev_offset ref_lane pseudo_rand i with
  | none => none
  | some memory =>
  match add32 st.curr_offset 1 with
  | none => none
  | some curr_offset =>
  match add32 prev_offset 1 with
  | none => none
  | some prev_offset =>
    some { memory := memory, input_block := input_block, address_block := address_block,
           curr_offset := curr_offset, prev_offset := prev_offset }

def fill_segment_loop (params : Params) (position : BlockPos) (dia : Bool) (zero_block : Block) :
    List Nat → SegState → Option SegState
  | [], st => some st
  | i :: rest, st =>
    match fill_segment_body params position dia zero_block st i with
    | none => none
    | some st => fill_segment_loop params position dia zero_block rest st

/-- the expression bound to `data_independent_addressing` in `fill_segment`; Rust precedence: `a || (b && c) && d`
    parses as `a || ((b && c) && d)` -/
def data_independent_addressing (params : Params) (position : BlockPos) : Bool :=
  (params.hash_type == .Argon2i)
    || ((params.hash_type == .Argon2id && position.pass == 0) && decide (position.slice < SYNC_POINTS / 2))

/-- `fill_segment(params, position, memory)` -/
def fill_segment (params : Params) (position : BlockPos) (memory : Memory) : Option Memory := do
  let data_independent_addressing := data_independent_addressing params position
  let zero_block := Block.new
  let input_block := Block.new
  let address_block := Block.new
  let input_block :=
    if data_independent_addressing then
      (((((input_block.set 0 (UInt64.ofNat position.pass)).set 1 (UInt64.ofNat position.lane)).set 2
        (UInt64.ofNat position.slice)).set 3 (UInt64.ofNat params.memory_blocks)).set 4
        (UInt64.ofNat params.iterations)).set 5 (UInt64.ofNat params.hash_type.toNat)
    else input_block
  let (starting_index, address_block, input_block) ←
    if position.pass = 0 ∧ position.slice = 0 then
      if data_independent_addressing then do
        let (a, i) ← next_addresses address_block input_block zero_block
        pure (2, a, i)
      else pure (2, address_block, input_block)
    else pure (0, address_block, input_block)
  let curr_offset ←
    add32 (← add32 (← mul32 position.lane memory.stride) (← mul32 position.slice params.segment_length)) starting_index
  -- Last block in this lane
  let prev_offset ←
    if (← remU curr_offset memory.stride) = 0 then do subU (← add32 curr_offset memory.stride) 1
    else subU curr_offset 1
  let st : SegState := { memory := memory, input_block := input_block, address_block := address_block,
                         curr_offset := curr_offset, prev_offset := prev_offset }
  let st ← fill_segment_loop params position data_independent_addressing zero_block
              (List.range' starting_index (params.segment_length - starting_index)) st
  pure st.memory

/-! ### H0, process, entry points -/

/-- one `.update(d)` of the builder chain in `H0::new` (the chain stops at the first panic) -/
def H0.upd (c : Option (Context UInt64)) (d : Bytes) : Option (Context UInt64) :=
  match c with
  | none => none
  | some c => Context.update Blake2.b .wrapping c d

/-- `H0::new(params, password, salt, key, aad, tag_length: u32)` -/
def H0.new (params : Params) (password salt key aad : Bytes) (tag_length : Nat) : Option Bytes :=
  let upd := H0.upd
  let c := Context.new Blake2.b 512
  let c := upd c (natToLE 4 params.parallelism)
  let c := upd c (natToLE 4 tag_length)
  let c := upd c (natToLE 4 params.memory_kb)
  let c := upd c (natToLE 4 params.iterations)
  let c := upd c (natToLE 4 params.version)
  let c := upd c (natToLE 4 params.hash_type.toNat)
  let c := upd c (natToLE 4 (password.length % 2 ^ 32))
  let c := upd c password
  let c := upd c (natToLE 4 (salt.length % 2 ^ 32))
  let c := upd c salt
  let c := upd c (natToLE 4 (key.length % 2 ^ 32))
  let c := upd c key
  let c := upd c (natToLE 4 (aad.length % 2 ^ 32))
  let c := upd c aad
  match c with
  | none => none
  | some c => Context.finalize Blake2.b .wrapping 512 c

/-- the first loop of `process`: the first two blocks of every lane -/
def process_init (h0 : Bytes) : List Nat → Memory → Option Memory
  | [], memory => some memory
  | lane :: rest, memory =>
    match hprime_block_init h0 0 lane with
    | none => none
    | some b0 =>
    match memory.set_block_at lane 0 (Block.of_u8 b0) with
    | none => none
    | some memory =>
    match hprime_block_init h0 1 lane with
    | none => none
    | some b1 =>
    match memory.set_block_at lane 1 (Block.of_u8 b1) with
    | none => none
    | some memory => process_init h0 rest memory

/-- the `(pass, slice, lane)` triples in the order of the three nested loops of `process` -/
def process_positions (params : Params) : List BlockPos :=
  (List.range params.iterations).flatMap fun pass =>
    (List.range SYNC_POINTS).flatMap fun slice =>
      (List.range params.parallelism).map fun lane => { pass := pass, lane := lane, slice := slice, index := 0 }

def process_fill (params : Params) : List BlockPos → Memory → Option Memory
  | [], memory => some memory
  | position :: rest, memory =>
    match fill_segment params position memory with
    | none => none
    | some memory => process_fill params rest memory

/-- the final loop of `process`: xor of the last block of every lane `1..parallelism` into `blockhash` -/
def process_final (memory : Memory) : List Nat → Block → Option Block
  | [], blockhash => some blockhash
  | l :: rest, blockhash =>
    match (do let a ← mul32 l memory.stride; let b ← subU memory.stride 1; add32 a b) with
    | none => none
    | some last_block_in_lane =>
      match memory.block_index last_block_in_lane with
      | none => none
      | some b => process_final memory rest (Block.bitxor_assign blockhash b)

/-- `process(params, h0, memory, out)` with `out.len() = out_len`; returns the filled `out` -/
def process (params : Params) (h0 : Bytes) (memory : Memory) (out_len : Nat) : Option Bytes :=
  match process_init h0 (List.range params.parallelism) memory with
  | none => none
  | some memory =>
  match process_fill params (process_positions params) memory with
  | none => none
  | some memory =>
  match (subU memory.stride 1).bind memory.block_index with
  | none => none
  | some blockhash =>
  match process_final memory (List.range' 1 (params.parallelism - 1)) blockhash with
  | none => none
  | some blockhash => hprime out_len (Block.as_u8 blockhash)

/-- `argon2_at(params, password, salt, key, aad, tag)` with `tag.len() = tag_len` -/
def argon2_at (params : Params) (password salt key aad : Bytes) (tag_len : Nat) : Option Bytes :=
  match H0.new params password salt key aad (tag_len % 2 ^ 32) with
  | none => none
  | some h0 =>
  match Memory.new params with
  | none => none
  | some memory => process params h0 memory tag_len

/-- `argon2::<T>(params, password, salt, key, aad) -> [u8; T]` -/
def argon2 (T : Nat) (params : Params) (password salt key aad : Bytes) : Option Bytes :=
  match H0.new params password salt key aad (T % 2 ^ 32) with
  | none => none
  | some h0 =>
  match Memory.new params with
  | none => none
  | some memory => process params h0 memory T

end Cx.Impl.Argon2
