/-!
  Util.GlueDebug — the marker the glue translators (tools/ktx_glue*.py) put around the condition of a `debug_assert!`.

  `assert!(c)` is translated as the guard `if c then … else none`; `debug_assert!(c)` as `if Glue.debugAssert c then … else none`.
  The guard semantics is the same (the models describe the overflow- and assertion-checked build, where both panic), but the marker is
  NOT definitionally the condition: a generated definition with the marker and one without it are different terms, so turning an
  `assert!` into a `debug_assert!` (or back) in the Rust source changes the generated text AND breaks the tie theorem, whose proof
  removes the marker in an explicit step (`simp only [Glue.debugAssert_iff]`, which fails when there is no marker to remove).
  A release build does not evaluate a `debug_assert!` at all: what it does there is outside the generated definition (property C20).
  Core Lean only (this file is linked into the driver executable).
-/
namespace Cx.Glue

/-- `debug_assert!(p)`: holds exactly when `p` does; a wrapper, not an abbreviation (see the file header) -/
inductive debugAssert (p : Prop) : Prop
  | intro (h : p)

@[simp] theorem debugAssert_iff (p : Prop) : debugAssert p ↔ p := ⟨fun ⟨h⟩ => h, fun h => ⟨h⟩⟩

instance (p : Prop) [Decidable p] : Decidable (debugAssert p) := decidable_of_iff p (debugAssert_iff p).symm

end Cx.Glue
