/-
  Util.Blocks — cutting a byte string into consecutive fixed-size blocks (unit `sha2`, shared with every
  Merkle–Damgård user).  Import-free (core Lean only).

  -- API:
  --   Cx.takeBlocks n k d : the first `k` consecutive `n`-byte pieces of `d`
  --   Cx.fullBlocks n d   : all full `n`-byte blocks of `d` (a trailing partial block is dropped)
  --   Cx.blockTail  n d   : the trailing partial block (`< n` bytes)
-/
import CxVerif.Util.Bytes
namespace Cx

/-- the first `k` consecutive `n`-byte pieces of `d` -/
def takeBlocks (n : Nat) : Nat → Bytes → List Bytes
  | 0, _ => []
  | k + 1, d => d.take n :: takeBlocks n k (d.drop n)

/-- all full `n`-byte blocks of `d` (a trailing partial block is dropped) -/
def fullBlocks (n : Nat) (d : Bytes) : List Bytes := takeBlocks n (d.length / n) d

/-- what remains of `d` after its full `n`-byte blocks -/
def blockTail (n : Nat) (d : Bytes) : Bytes := d.drop (d.length / n * n)

end Cx
