/-
  Util.Bytes — byte strings as `List UInt8`, hex codec, little/big-endian word codecs.
  Import-free (core Lean only) so that the driver executable links.
-/
namespace Cx

abbrev Bytes := List UInt8

namespace Hex

def digit (n : Nat) : Char :=
  if n < 10 then Char.ofNat (48 + n) else Char.ofNat (87 + n)

def val? (c : Char) : Option Nat :=
  if '0' ≤ c ∧ c ≤ '9' then some (c.toNat - 48)
  else if 'a' ≤ c ∧ c ≤ 'f' then some (c.toNat - 87)
  else if 'A' ≤ c ∧ c ≤ 'F' then some (c.toNat - 55)
  else none

def encodeChars : Bytes → List Char
  | [] => []
  | b :: bs => digit (b.toNat / 16) :: digit (b.toNat % 16) :: encodeChars bs

/-- hex of a byte string; the empty string is written `-` so that it stays one token -/
def encode (bs : Bytes) : String :=
  if bs.isEmpty then "-" else String.ofList (encodeChars bs)

def decodeChars : List Char → Option Bytes
  | [] => some []
  | [_] => none
  | a :: b :: rest =>
    match val? a, val? b, decodeChars rest with
    | some x, some y, some r => some (UInt8.ofNat (x * 16 + y) :: r)
    | _, _, _ => none

def decode (s : String) : Option Bytes :=
  if s == "-" then some [] else decodeChars s.toList

end Hex

/-- little-endian value of a byte string -/
def leNat : Bytes → Nat
  | [] => 0
  | b :: bs => b.toNat + 256 * leNat bs

/-- big-endian value of a byte string -/
def beNat (bs : Bytes) : Nat := bs.foldl (fun acc b => acc * 256 + b.toNat) 0

/-- `n` little-endian bytes of `v` (truncating) -/
def natToLE : Nat → Nat → Bytes
  | 0, _ => []
  | n + 1, v => UInt8.ofNat (v % 256) :: natToLE n (v / 256)

/-- `n` big-endian bytes of `v` (truncating) -/
def natToBE (n v : Nat) : Bytes := (natToLE n v).reverse

def u32le (w : UInt32) : Bytes := natToLE 4 w.toNat
def u32be (w : UInt32) : Bytes := natToBE 4 w.toNat
def u64le (w : UInt64) : Bytes := natToLE 8 w.toNat
def u64be (w : UInt64) : Bytes := natToBE 8 w.toNat

def leU32 (bs : Bytes) : UInt32 := UInt32.ofNat (leNat (bs.take 4))
def beU32 (bs : Bytes) : UInt32 := UInt32.ofNat (beNat (bs.take 4))
def leU64 (bs : Bytes) : UInt64 := UInt64.ofNat (leNat (bs.take 8))
def beU64 (bs : Bytes) : UInt64 := UInt64.ofNat (beNat (bs.take 8))

/-- split into consecutive chunks of `n` bytes (the last one may be shorter); fuel = length -/
def chunksAux (n : Nat) : Nat → Bytes → List Bytes
  | 0, _ => []
  | fuel + 1, bs => if bs.isEmpty then [] else bs.take n :: chunksAux n fuel (bs.drop n)

def chunks (n : Nat) (bs : Bytes) : List Bytes := chunksAux n bs.length bs

def wordsLE32 (bs : Bytes) : List UInt32 := (chunks 4 bs).map leU32
def wordsBE32 (bs : Bytes) : List UInt32 := (chunks 4 bs).map beU32
def wordsLE64 (bs : Bytes) : List UInt64 := (chunks 8 bs).map leU64
def wordsBE64 (bs : Bytes) : List UInt64 := (chunks 8 bs).map beU64

def xorBytes (a b : Bytes) : Bytes := List.zipWith (· ^^^ ·) a b

def zeros (n : Nat) : Bytes := List.replicate n 0

def rotl32 (x : UInt32) (n : Nat) : UInt32 :=
  (x <<< UInt32.ofNat (n % 32)) ||| (x >>> UInt32.ofNat ((32 - n % 32) % 32))
def rotr32 (x : UInt32) (n : Nat) : UInt32 := rotl32 x ((32 - n % 32) % 32)
def rotl64 (x : UInt64) (n : Nat) : UInt64 :=
  (x <<< UInt64.ofNat (n % 64)) ||| (x >>> UInt64.ofNat ((64 - n % 64) % 64))
def rotr64 (x : UInt64) (n : Nat) : UInt64 := rotl64 x ((64 - n % 64) % 64)

end Cx
